import KV.Proofs.VoteSetCommit
import KV.Proofs.VoteSetComplete
import KV.Proofs.VoteSetRound
/-! # C02 — quorum certificates are sound: +2/3 means strictly more than two thirds

Model: `KV/Model/VoteSet.lean` (VoteSet.addVote/addVerifiedVote, SetPeerMaj23, queries, MakeCommit,
ValidatorSet.VerifyCommit). All theorems are for an arbitrary signature check `sv`, an arbitrary
validator list with non-negative powers and total below `MaxTotalVotingPower` (`GoodVals`), and an
arbitrary sequence of operations from `NewVoteSet` (`run sv (new h r t vals) ops`). -/
namespace KV.Props.C02
open KV KV.VoteSet

/-- *distinct* validator indices `S`, each satisfying `P`, together hold strictly more than two
thirds of the total power -/
def Backed (vals : Vals) (P : Nat → Prop) : Prop :=
  ∃ S : List Nat, S.Nodup ∧ (∀ i ∈ S, i < vals.length ∧ P i) ∧
    3 * (S.map (powerAt vals)).sum > 2 * totalPower vals

/-- validator `i` of `vals` has a signature, verified for its address, over a vote of type `t` at
height `h`, round `r` for exactly the block id `b` -/
def Signed (sv : SigCheck) (vals : Vals) (h r t : Nat) (b : BlockId) (i : Nat) : Prop :=
  ∃ val ts sig, vals[i]? = some val ∧ sv val.addr ⟨t, h, r, b, ts⟩ sig = true

theorem backed_of_psum (vals : Vals) (P : Nat → Bool) (Q : Nat → Prop)
    (hPQ : ∀ i, i < vals.length → P i = true → Q i)
    (h : 3 * psum vals P > 2 * totalPower vals) : Backed vals Q := by
  refine ⟨(List.range vals.length).filter P, idx_nodup _ _, ?_, ?_⟩
  · intro i hi
    simp only [List.mem_filter, List.mem_range] at hi
    exact ⟨hi.1, hPQ i hi.1 hi.2⟩
  · rw [← psum_eq_sum]; exact h

theorem reach (sv : SigCheck) (h r t : Nat) (vals : Vals) (hg : GoodVals vals) (ops : List Op) :
    VoteSet.Inv sv (run sv (new h r t vals) ops) ∧ (run sv (new h r t vals) ops).vals = vals ∧
    (run sv (new h r t vals) ops).height = h ∧ (run sv (new h r t vals) ops).round = r ∧
    (run sv (new h r t vals) ops).type = t := by
  obtain ⟨hI, hS⟩ := inv_reachable sv h r t vals hg ops
  exact ⟨hI, hS.1, hS.2.1, hS.2.2.1, hS.2.2.2⟩

/-! ## 1. the threshold expressions -/

/-- both forms used in the source (`quorum := total*2/3 + 1; quorum <= s` in `addVerifiedVote`,
`s > total*2/3` in `HasTwoThirdsAny`/`VerifyCommit`), evaluated in wrapping int64 arithmetic with
Go's truncating division, mean `3*s > 2*total` -/
theorem quorum_expr_iff (total s : Int) (h0 : 0 ≤ total) (h1 : total ≤ maxTotalVotingPower) :
    (quorum total ≤ s ↔ 3 * s > 2 * total) ∧ (s > twoThirds total ↔ 3 * s > 2 * total) ∧
    (s ≤ twoThirds total ↔ ¬ 3 * s > 2 * total) :=
  ⟨quorum_le_iff total s h0 h1, gt_twoThirds_iff total s h0 h1, by
    have := gt_twoThirds_iff total s h0 h1; omega⟩

/-- no intermediate of `total*2/3 + 1` leaves the int64 range below the cap `MaxInt64/8`, and the
wrapping operations of the model return the exact values -/
theorem no_overflow (total : Int) (h0 : 0 ≤ total) (h1 : total ≤ maxTotalVotingPower) :
    I64.InRange (total * 2) ∧ I64.InRange (Int.tdiv (total * 2) 3) ∧
    I64.InRange (Int.tdiv (total * 2) 3 + 1) ∧
    twoThirds total = Int.tdiv (total * 2) 3 ∧ quorum total = Int.tdiv (total * 2) 3 + 1 := by
  have e1 := twoThirds_exact total h0 h1
  have e2 := quorum_exact total h0 h1
  rw [maxTotal_val] at h1
  have : Int.tdiv (total * 2) 3 = total * 2 / 3 := Int.tdiv_eq_ediv_of_nonneg (by omega)
  rw [this]
  refine ⟨?_, ?_, ?_, e1, e2⟩ <;> (unfold I64.InRange I64.minI64 I64.maxI64; omega)

/-- the cap is `MaxInt64 / 8`, and the largest product the threshold code forms (`2 * cap`) is
below `MaxInt64` -/
theorem cap_value : maxTotalVotingPower = 1152921504606846975 ∧ 2 * maxTotalVotingPower < I64.maxI64 := by
  rw [maxTotal_val]; decide

/-! ## 2. the tally invariant -/

/-- In every reachable state: `sum` is the power of the *distinct* indices holding a primary vote,
every per-block `sum` is the power of the distinct indices holding a vote in that entry, and every
stored vote carries the slot's index, that validator's address, a verified signature, and the
height/round/type of the set; a per-block vote is for exactly that block's key. Hence a validator
is counted at most once overall and at most once per block, whatever it sent. -/
theorem tally_once (sv : SigCheck) (h r t : Nat) (vals : Vals) (hg : GoodVals vals) (ops : List Op) :
    let s := run sv (new h r t vals) ops
    s.vals = vals ∧ s.height = h ∧ s.round = r ∧ s.type = t ∧
    s.votes.length = vals.length ∧
    s.sum = (((List.range vals.length).filter (voted s.votes)).map (powerAt vals)).sum ∧
    (∀ i v, slot s.votes i = some v → Valid sv s i v) ∧
    (∀ k bv, lookup k s.byBlock = some bv →
      bv.sum = (((List.range vals.length).filter (voted bv.votes)).map (powerAt vals)).sum ∧
      ∀ i v, slot bv.votes i = some v → Valid sv s i v ∧ v.bid.key = k) ∧
    s.bits = s.votes.map Option.isSome := by
  intro s
  obtain ⟨hI, e1, e2, e3, e4⟩ := reach sv h r t vals hg ops
  refine ⟨e1, e2, e3, e4, by rw [hI.len, e1], ?_, hI.valid, ?_, hI.bits⟩
  · rw [hI.sum, e1]; exact psum_eq_sum _ _
  · intro k bv hl
    have hB := hI.blk k bv hl
    refine ⟨by rw [hB.sum, e1]; exact psum_eq_sum _ _, fun i v hv => ⟨(hB.valid i v hv).1, (hB.valid i v hv).2.1⟩⟩

/-- `addVote` never reaches `PanicSanity("addVerifiedVote does not expect duplicate votes")` -/
theorem addVote_no_panic (sv : SigCheck) (h r t : Nat) (vals : Vals) (hg : GoodVals vals) (ops : List Op)
    (ov : Option Vote) : (addVote sv (run sv (new h r t vals) ops) ov).2.err ≠ some .panic := by
  obtain ⟨hI, hS⟩ := inv_reachable sv h r t vals hg ops
  exact (inv_addVote sv _ (by rw [hS.1]; exact hg) hI ov).2.2

/-! ## 3. soundness of what is reported -/

theorem signed_of_valid (sv : SigCheck) (s : VoteSet) (i : Nat) (v : Vote) (hv : Valid sv s i v) :
    Signed sv s.vals s.height s.round s.type v.bid i := by
  obtain ⟨_, ⟨val, h1, h2⟩, h3, h4, h5, h6⟩ := hv
  refine ⟨val, v.ts, v.sig, h1, ?_⟩
  rw [← h2, ← h4, ← h5, ← h6]; exact h3

/-- **maj23 is sound**: if a majority is recorded for `b` then distinct validators of the set, each
with a verified signature over a vote of the set's type/height/round for *exactly* `b`, hold
strictly more than 2/3 of the total power. -/
theorem maj23_sound (sv : SigCheck) (h r t : Nat) (vals : Vals) (hg : GoodVals vals) (ops : List Op)
    (b : BlockId) (hm : twoThirdsMajority (run sv (new h r t vals) ops) = some b) :
    Backed vals (Signed sv vals h r t b) := by
  obtain ⟨hI, e1, e2, e3, e4⟩ := reach sv h r t vals hg ops
  obtain ⟨bv, hl, hq⟩ := hI.majS b hm
  have hB := hI.blk _ _ hl
  rw [e1] at hq
  have h3 := (quorum_le_iff _ _ (totalPower_nonneg _ hg.nonneg) hg.cap).mp hq
  rw [hB.sum, e1] at h3
  apply backed_of_psum vals (voted bv.votes) _ _ h3
  intro i _ hvi
  simp only [voted] at hvi
  cases hs : slot bv.votes i with
  | none => rw [hs] at hvi; cases hvi
  | some v =>
    obtain ⟨hv, hk, _⟩ := hB.valid i v hs
    have := signed_of_valid sv _ i v hv
    rw [e1, e2, e3, e4, BlockId.key_inj.mp hk] at this
    exact this

/-- **HasTwoThirdsAny is exact**: it holds iff the distinct validators holding a (verified, right
step) primary vote have more than 2/3; in particular it is backed by such validators. -/
theorem any_sound (sv : SigCheck) (h r t : Nat) (vals : Vals) (hg : GoodVals vals) (ops : List Op) :
    let s := run sv (new h r t vals) ops
    (hasTwoThirdsAny s = true ↔ 3 * psum vals (voted s.votes) > 2 * totalPower vals) ∧
    (hasTwoThirdsAny s = true → Backed vals (fun i => ∃ b, Signed sv vals h r t b i)) := by
  intro s
  obtain ⟨hI, e1, e2, e3, e4⟩ := reach sv h r t vals hg ops
  have hiff : hasTwoThirdsAny s = true ↔ 3 * psum vals (voted s.votes) > 2 * totalPower vals := by
    unfold hasTwoThirdsAny
    rw [decide_eq_true_iff, e1, gt_twoThirds_iff _ _ (totalPower_nonneg _ hg.nonneg) hg.cap, hI.sum, e1]
    rfl
  refine ⟨hiff, fun ha => ?_⟩
  apply backed_of_psum vals (voted s.votes) _ _ (hiff.mp ha)
  intro i _ hvi
  simp only [voted] at hvi
  cases hs : slot s.votes i with
  | none => rw [hs] at hvi; cases hvi
  | some v =>
    have := signed_of_valid sv _ i v (hI.valid i v hs)
    rw [e1, e2, e3, e4] at this
    exact ⟨v.bid, this⟩

/-! ## 4. commits -/

/-- **VerifyCommit is sound**: an accepted commit has the size of the validator set, the requested
height and exactly the requested block id, and distinct validators with a verified *precommit*
signature for exactly that block id at that height and the commit's round hold more than 2/3. -/
theorem verifyCommit_sound (sv : SigCheck) (vals : Vals) (hg : GoodVals vals) (b : BlockId) (h : Nat)
    (oc : Option Commit) (hok : verifyCommit sv vals b h oc = none) :
    ∃ c, oc = some c ∧ c.sigs.length = vals.length ∧ c.height = h ∧ c.bid = b ∧
      Backed vals (fun i => ∃ cs, c.sigs[i]? = some cs ∧ cs.flag ≠ flagAbsent ∧
        ∃ val, vals[i]? = some val ∧ sv val.addr ⟨precommitType, h, c.round, b, cs.ts⟩ cs.sig = true) := by
  unfold verifyCommit at hok
  cases oc with
  | none => simp at hok
  | some c =>
    simp only at hok
    split at hok
    · cases hok
    split at hok
    · cases hok
    next hsize =>
    split at hok
    · cases hok
    next hheight =>
    split at hok
    · cases hok
    next hbid =>
    have hsize' : vals.length = c.sigs.length := by omega
    have hheight' : h = c.height := by omega
    have hbid' : c.bid = b := by
      have : b.equal c.bid = true := by simpa using hbid
      exact (BlockId.equal_iff.mp this).symm
    split at hok
    · cases hok
    next got hloop =>
    split at hok
    · cases hok
    next hgot =>
    have hgot' := verifyLoop_ok sv b c vals c.sigs 0 0 got hg.nonneg (by omega)
      (by have := hg.cap; omega) hloop
    have h3 : 3 * got > 2 * totalPower vals := by
      have := gt_twoThirds_iff (totalPower vals) got (totalPower_nonneg _ hg.nonneg) hg.cap
      omega
    refine ⟨c, rfl, hsize'.symm, hheight'.symm, hbid', ?_⟩
    rw [hgot', Int.zero_add] at h3
    apply backed_of_psum vals _ _ _ h3
    intro i _ hc
    unfold counted at hc
    split at hc
    · next val cs hval hcs =>
      simp only [Bool.and_eq_true, bne_iff_ne, ne_eq] at hc
      obtain ⟨hf, hc⟩ := hc
      split at hc
      · next vb hvb =>
        simp only [Bool.and_eq_true] at hc
        have : vb = b := (BlockId.equal_iff.mp hc.1).symm
        subst this
        refine ⟨cs, hcs, hf, val, hval, ?_⟩
        rw [hheight']; exact hc.2
      · cases hc
    · cases hc

/-- each structural mismatch is an error -/
theorem verifyCommit_rejects (sv : SigCheck) (vals : Vals) (hg : GoodVals vals) (b : BlockId) (h : Nat) :
    verifyCommit sv vals b h none ≠ none ∧
    (∀ c, c.sigs.length ≠ vals.length → verifyCommit sv vals b h (some c) ≠ none) ∧
    (∀ c, c.height ≠ h → verifyCommit sv vals b h (some c) ≠ none) ∧
    (∀ c, c.bid ≠ b → verifyCommit sv vals b h (some c) ≠ none) := by
  refine ⟨by simp [verifyCommit], ?_, ?_, ?_⟩ <;>
  · intro c hne hok
    obtain ⟨c', hc, h1, h2, h3, _⟩ := verifyCommit_sound sv vals hg b h _ hok
    cases hc
    first | exact hne h1 | exact hne h2 | exact hne h3

/-! ## 5. completeness -/

theorem run_append (sv : SigCheck) (s : VoteSet) (a b : List Op) :
    run sv s (a ++ b) = run sv (run sv s a) b := by
  simp [run, List.foldl_append]

/-- **maj23 is complete**: let `S` be distinct validators holding more than 2/3 such that each of
them offered, as the first vote the set has from it (`votes[i] = nil` just before), a vote for `b`
that is valid (right address for its index, right height/round/type, verified signature). Then,
whatever else was offered before, in between and after (duplicates, conflicts, garbage, peer
claims), a two-thirds majority is reported at the end. (By `maj23_sound` the reported block is
itself backed by more than 2/3; if that is not the case for any block other than `b`, it is `b`.) -/
theorem maj23_complete (sv : SigCheck) (h r t : Nat) (vals : Vals) (hg : GoodVals vals) (ops : List Op)
    (b : BlockId) (S : List Nat) (hS : S.Nodup)
    (hfirst : ∀ i ∈ S, ∃ pre v post, ops = pre ++ Op.vote (some v) :: post ∧ v.idx = i ∧ v.bid = b ∧
      Offerable sv (new h r t vals) v ∧ slot (run sv (new h r t vals) pre).votes i = none)
    (hpow : 3 * (S.map (powerAt vals)).sum > 2 * totalPower vals) :
    hasTwoThirdsMajority (run sv (new h r t vals) ops) = true := by
  obtain ⟨hI, e1, e2, e3, e4⟩ := reach sv h r t vals hg ops
  -- every member of S has its vote in the final entry of `b`
  have hland : ∀ i ∈ S, i < vals.length ∧ ∃ bv, lookup b.key (run sv (new h r t vals) ops).byBlock = some bv ∧
      voted bv.votes i = true := by
    intro i hi
    obtain ⟨pre, v, post, hops, hidx, hbid, hoff, hnone⟩ := hfirst i hi
    obtain ⟨hIp, p1, p2, p3, p4⟩ := reach sv h r t vals hg pre
    have hoff' : Offerable sv (run sv (new h r t vals) pre) v := by
      unfold Offerable at *; rw [p1, p2, p3, p4]; exact hoff
    obtain ⟨_, bv, hl, hs⟩ := first_vote_lands sv _ hIp v hoff' (by rw [hidx]; exact hnone)
    have hg' := grows_run sv (addVote sv (run sv (new h r t vals) pre) (some v)).1 post
    obtain ⟨bv', hl', hs'⟩ := hg' _ _ hl
    have : run sv (new h r t vals) ops
        = run sv (addVote sv (run sv (new h r t vals) pre) (some v)).1 post := by
      rw [hops, run_append]; rfl
    rw [this]
    obtain ⟨_, _, _, _, val, hval, _⟩ := hoff
    refine ⟨?_, bv', by rw [← hbid]; exact hl', ?_⟩
    · rw [← hidx]; exact idx_lt_of_get _ _ _ hval
    · simp [voted, ← hidx, hs' _ _ hs]
  cases S with
  | nil =>
    have := totalPower_nonneg vals hg.nonneg
    simp at hpow; omega
  | cons i0 S' =>
    obtain ⟨_, bv, hl, _⟩ := hland i0 (by simp)
    have hB := hI.blk _ _ hl
    have hle := sum_le_psum vals hg.nonneg (i0 :: S') hS (voted bv.votes) (by
      intro i hi
      obtain ⟨h1, bv', hl', hv'⟩ := hland i hi
      rw [hl] at hl'; cases hl'
      exact ⟨h1, hv'⟩)
    have hq : quorum (totalPower vals) ≤ bv.sum := by
      rw [quorum_le_iff _ _ (totalPower_nonneg _ hg.nonneg) hg.cap, hB.sum, e1]
      unfold tally; omega
    have := hI.majC _ _ hl (by rw [e1]; exact hq)
    exact this

/-- **commit round trip**: in every reachable state, if `MakeCommit` succeeds (precommit set, a
recorded majority, no stored vote with a block id that is neither zero nor complete) and the
majority is for a non-nil block, then `VerifyCommit` with the same validator set, that block id and
the set's height accepts the commit. Needs only that the empty signature never verifies. -/
theorem commit_roundtrip (sv : SigCheck) (hsv0 : ∀ a m, sv a m 0 = false) (h r t : Nat) (vals : Vals)
    (hg : GoodVals vals) (ops : List Op) (c : Commit)
    (hc : makeCommit (run sv (new h r t vals) ops) = some c) (hnz : c.bid ≠ .zero) :
    twoThirdsMajority (run sv (new h r t vals) ops) = some c.bid ∧
    verifyCommit sv vals c.bid h (some c) = none := by
  obtain ⟨hI, e1, e2, _, _⟩ := reach sv h r t vals hg ops
  have := roundtrip_of_inv sv hsv0 _ (by rw [e1]; exact hg) hI c hc hnz
  rw [e1, e2] at this
  refine ⟨?_, this⟩
  unfold makeCommit at hc
  split at hc
  · cases hc
  split at hc
  · cases hc
  next m hm =>
  split at hc
  · cases hc
  · cases hc; exact hm

/-- `HasAll` is exactly "the voters' power is the total"; it holds when every validator has a
primary vote (the converse needs strictly positive powers and is covered by the oracle only) -/
theorem hasAll_iff (sv : SigCheck) (h r t : Nat) (vals : Vals) (hg : GoodVals vals) (ops : List Op) :
    let s := run sv (new h r t vals) ops
    (hasAll s = true ↔ psum vals (voted s.votes) = totalPower vals) ∧
    ((∀ i, i < vals.length → voted s.votes i = true) → hasAll s = true) := by
  intro s
  obtain ⟨hI, e1, _, _, _⟩ := reach sv h r t vals hg ops
  have hiff : hasAll s = true ↔ psum vals (voted s.votes) = totalPower vals := by
    unfold hasAll
    rw [decide_eq_true_iff, hI.sum, e1]; rfl
  exact ⟨hiff, fun hall => hiff.mpr (psum_true vals _ hall)⟩

/-! ## 6. non-vacuity: concrete sets at the boundary (totals 30 and 31) -/

def svAll : SigCheck := fun _ _ _ => true
/-- a signature check that accepts only signature ids ≥ 100 -/
def svSome : SigCheck := fun _ _ s => decide (100 ≤ s)
def vals30 : Vals := [⟨1, 10⟩, ⟨2, 10⟩, ⟨3, 1⟩, ⟨4, 9⟩]
def vals31 : Vals := [⟨1, 10⟩, ⟨2, 10⟩, ⟨3, 1⟩, ⟨4, 10⟩]
def bA : BlockId := ⟨1, 1, 3⟩
def bA' : BlockId := ⟨1, 2, 3⟩
def mkv (i : Nat) (b : BlockId) (sig : Nat) : Vote := ⟨i, i + 1, 5, 0, precommitType, b, 1, sig⟩
def opv (i : Nat) (b : BlockId) (sig : Nat := 100 + i) : Op := .vote (some (mkv i b sig))

example : GoodVals vals30 := ⟨by unfold NonNeg vals30; decide, by decide⟩
example : GoodVals vals31 := ⟨by unfold NonNeg vals31; decide, by decide⟩
example : totalPower vals30 = 30 ∧ quorum 30 = 21 ∧ totalPower vals31 = 31 ∧ quorum 31 = 21 := by decide
-- 20 of 30 is exactly two thirds: no majority; the next vote (power 1) reaches the quorum exactly
example : (run svSome (new 5 0 2 vals30) [opv 0 bA, opv 1 bA]).maj23 = none := by decide
example : hasTwoThirdsAny (run svSome (new 5 0 2 vals30) [opv 0 bA, opv 1 bA]) = false := by decide
example : (run svSome (new 5 0 2 vals30) [opv 0 bA, opv 1 bA, opv 2 bA]).maj23 = some bA := by decide
example : (run svSome (new 5 0 2 vals31) [opv 0 bA, opv 1 bA]).maj23 = none := by decide
example : (run svSome (new 5 0 2 vals31) [opv 0 bA, opv 1 bA, opv 2 bA]).maj23 = some bA := by decide
-- a vote for the id that differs only in the part-set total, a bad signature, a duplicate and a
-- conflicting vote do not count
example : (run svSome (new 5 0 2 vals30)
    [opv 0 bA, opv 1 bA, opv 2 bA', opv 3 bA 7, opv 1 bA, opv 0 bA']).maj23 = none := by decide
example : (run svSome (new 5 0 2 vals30)
    [opv 0 bA, opv 1 bA, opv 2 bA', opv 3 bA 7, opv 1 bA, opv 0 bA']).sum = 21 := by decide
-- the commit made at the boundary is accepted, and rejected for the sibling block id, another
-- height, and when the boundary signature is dropped
example : (makeCommit (run svSome (new 5 0 2 vals30) [opv 0 bA, opv 1 bA, opv 2 bA])).isSome = true := by decide
example : verifyCommit svSome vals30 bA 5 (makeCommit (run svSome (new 5 0 2 vals30) [opv 0 bA, opv 3 bA', opv 1 bA, opv 2 bA])) = none := by
  decide
example : verifyCommit svSome vals30 bA' 5 (makeCommit (run svSome (new 5 0 2 vals30) [opv 0 bA, opv 1 bA, opv 2 bA])) = some .blockId := by
  decide
example : verifyCommit svSome vals30 bA 6 (makeCommit (run svSome (new 5 0 2 vals30) [opv 0 bA, opv 1 bA, opv 2 bA])) = some .height := by
  decide
example : verifyCommit svSome vals30 bA 5
    (some ⟨bA, [⟨2, 1, 1, 100⟩, ⟨2, 2, 1, 101⟩, .absent, .absent], 5, 0⟩) = some (.power 20 20) := by decide
example : ∀ a m, svSome a m 0 = false := by intro _ _; rfl
-- the hypotheses of `maj23_complete` are satisfiable
example : Offerable svSome (new 5 0 2 vals30) (mkv 2 bA 102) := by
  refine ⟨by decide, rfl, rfl, rfl, ⟨3, 1⟩, rfl, rfl, by decide⟩

/-! ## `SetPeerMaj23`: an (unauthenticated) peer claim of a +2/3 majority

The claim only opens a per-block bucket so that conflicting votes for that block are tracked; it
must never count as power.  `peerMaj23_frame`: whatever any peer claims, the tally, the counted
votes, the bit array, the validator list and the +2/3 majority are untouched - so `maj23_sound` /
`any_sound` cannot be influenced by claims.  `peerMaj23_first_ok` / `peerMaj23_repeat`: a peer's
first claim is recorded, a repetition of it is a no-op, a different claim is rejected with the
state unchanged (one claim per peer: the number of buckets a peer can open is one). -/

theorem peerMaj23_frame (s : VoteSet) (p : Nat) (b : BlockId) :
    (setPeerMaj23 s p b).1.sum = s.sum ∧ (setPeerMaj23 s p b).1.votes = s.votes ∧
    (setPeerMaj23 s p b).1.bits = s.bits ∧ (setPeerMaj23 s p b).1.maj23 = s.maj23 ∧
    (setPeerMaj23 s p b).1.vals = s.vals := by
  unfold setPeerMaj23
  simp only
  split
  · split <;> simp
  · split
    · split <;> simp
    · simp

theorem peerLookup_append_self (p : Nat) (b : BlockId) (l : List (Nat × BlockId))
    (h : peerLookup p l = none) : peerLookup p (l ++ [(p, b)]) = some b := by
  induction l with
  | nil => simp [peerLookup]
  | cons x xs ih =>
    obtain ⟨p', b'⟩ := x
    simp only [peerLookup, List.cons_append] at h ⊢
    split
    · rename_i hp; simp [hp] at h
    · rename_i hp; simp [hp] at h; exact ih h

theorem equal_self (b : BlockId) : b.equal b = true := by simp [BlockId.equal]

theorem peerMaj23_first_ok (s : VoteSet) (p : Nat) (b : BlockId) (h : peerLookup p s.peerMaj = none) :
    (setPeerMaj23 s p b).2 = .ok ∧ peerLookup p (setPeerMaj23 s p b).1.peerMaj = some b := by
  unfold setPeerMaj23
  simp only [h]
  split
  · split <;> exact ⟨rfl, peerLookup_append_self p b _ h⟩
  · exact ⟨rfl, peerLookup_append_self p b _ h⟩

theorem peerMaj23_repeat (s : VoteSet) (p : Nat) (b b' : BlockId) (h : peerLookup p s.peerMaj = some b) :
    setPeerMaj23 s p b' = (s, if b.equal b' then .ok else .conflict) := by
  unfold setPeerMaj23
  simp only [h]
  split <;> rfl


-- non-vacuity: a first claim, its repetition and a conflicting one on a concrete set
example : (setPeerMaj23 (new 5 0 2 vals30) 9 bA).2 = .ok ∧
    (setPeerMaj23 (setPeerMaj23 (new 5 0 2 vals30) 9 bA).1 9 bA).2 = .ok ∧
    (setPeerMaj23 (setPeerMaj23 (new 5 0 2 vals30) 9 bA).1 9 bA').2 = .conflict ∧
    (setPeerMaj23 (new 5 0 2 vals30) 9 bA).1.maj23 = none := by decide

/-- claims alone (any number, by any peers, for any block ids) from any state: tally, counted
votes, bit array and majority stay exactly as they were -/
theorem claims_only_frame (sv : SigCheck) (claims : List (Nat × BlockId)) (s : VoteSet) :
    (run sv s (claims.map fun c => Op.peer c.1 c.2)).sum = s.sum ∧
    (run sv s (claims.map fun c => Op.peer c.1 c.2)).votes = s.votes ∧
    (run sv s (claims.map fun c => Op.peer c.1 c.2)).bits = s.bits ∧
    (run sv s (claims.map fun c => Op.peer c.1 c.2)).maj23 = s.maj23 := by
  induction claims generalizing s with
  | nil => simp [run]
  | cons c cs ih =>
    have f := peerMaj23_frame s c.1 c.2
    have := ih (setPeerMaj23 s c.1 c.2).1
    simp only [run, List.map_cons, List.foldl_cons, apply] at this ⊢
    refine ⟨this.1.trans f.1, this.2.1.trans f.2.1, this.2.2.1.trans f.2.2.1, this.2.2.2.trans f.2.2.2.1⟩

/-- no amount of peer claims yields a quorum: a fresh vote set that has only heard claims reports
no +2/3 majority, no +2/3-any (for a non-empty good validator set) and cannot make a commit -/
theorem claims_only_no_quorum (sv : SigCheck) (h r t : Nat) (vals : Vals)
    (claims : List (Nat × BlockId)) :
    twoThirdsMajority (run sv (new h r t vals) (claims.map fun c => Op.peer c.1 c.2)) = none ∧
    (run sv (new h r t vals) (claims.map fun c => Op.peer c.1 c.2)).sum = 0 ∧
    makeCommit (run sv (new h r t vals) (claims.map fun c => Op.peer c.1 c.2)) = none := by
  have f := claims_only_frame sv claims (new h r t vals)
  refine ⟨by simpa [twoThirdsMajority, new] using f.2.2.2, by simpa [new] using f.1, ?_⟩
  have hm : (run sv (new h r t vals) (claims.map fun c => Op.peer c.1 c.2)).maj23 = none := by
    simpa [new] using f.2.2.2
  unfold makeCommit
  rw [hm]
  split <;> rfl

-- non-vacuity: three claims by two peers on a concrete precommit set
example : (run svSome (new 5 0 2 vals30) [.peer 1 bA, .peer 2 bA', .peer 1 bA']).peerMaj.length = 2 ∧
    makeCommit (run svSome (new 5 0 2 vals30) [.peer 1 bA, .peer 2 bA', .peer 1 bA']) = none := by decide

theorem addToBlock_peerMaj (s : VoteSet) (v : Vote) (k : Key) (pw : Int) (bv : BlockVotes) :
    (addToBlock s v k pw bv).peerMaj = s.peerMaj := by
  unfold addToBlock
  simp only
  split
  · split <;> rfl
  · rfl

theorem addTracked_peerMaj (s : VoteSet) (v : Vote) (k : Key) (pw : Int) (c : Option Vote) :
    (addTracked s v k pw c).1.peerMaj = s.peerMaj := by
  unfold addTracked
  split
  · split
    · rfl
    · exact addToBlock_peerMaj ..
  · split
    · rfl
    · exact addToBlock_peerMaj ..

theorem addVerified_peerMaj (s : VoteSet) (v : Vote) (k : Key) (pw : Int) (r : VoteSet × Bool × Option Vote)
    (h : addVerified s v k pw = some r) : r.1.peerMaj = s.peerMaj := by
  unfold addVerified at h
  split at h
  · split at h
    · cases h
    · simp only [Option.some.injEq] at h
      subst h
      rw [addTracked_peerMaj]
      split <;> rfl
  · simp only [Option.some.injEq] at h
    subst h
    rw [addTracked_peerMaj]

/-- votes never touch the record of peer claims -/
theorem addVote_peerMaj (sv : SigCheck) (s : VoteSet) (ov : Option Vote) :
    (addVote sv s ov).1.peerMaj = s.peerMaj := by
  unfold addVote
  dsimp only
  repeat' split
  all_goals first | rfl | (have := addVerified_peerMaj _ _ _ _ _ ‹addVerified _ _ _ _ = some _›; simpa using this)

theorem peerLookup_none_iff (p : Nat) (l : List (Nat × BlockId)) :
    peerLookup p l = none ↔ p ∉ l.map (·.1) := by
  induction l with
  | nil => simp [peerLookup]
  | cons x xs ih =>
    obtain ⟨p', b'⟩ := x
    simp only [peerLookup, List.map_cons, List.mem_cons, not_or]
    split
    · rename_i hp; simp [hp]
    · rename_i hp; rw [ih]; constructor
      · intro h; exact ⟨fun e => hp e.symm, h⟩
      · intro h; exact h.2

theorem setPeerMaj23_peers_nodup (s : VoteSet) (p : Nat) (b : BlockId)
    (h : (s.peerMaj.map (·.1)).Nodup) : ((setPeerMaj23 s p b).1.peerMaj.map (·.1)).Nodup := by
  have key : peerLookup p s.peerMaj = none → ((s.peerMaj ++ [(p, b)]).map (·.1)).Nodup := by
    intro hn
    rw [peerLookup_none_iff] at hn
    simp only [List.map_append, List.map_cons, List.map_nil]
    rw [List.nodup_append]
    refine ⟨h, by simp, ?_⟩
    intro a ha c hc
    simp only [List.mem_singleton] at hc
    subst hc
    intro e; subst e; exact hn ha
  unfold setPeerMaj23
  dsimp only
  split
  · split <;> exact h
  · rename_i hn
    split
    · split <;> exact key hn
    · exact key hn

/-- over every run from a fresh vote set, each peer has at most one recorded claim (so the number
of extra per-block buckets claims can open is bounded by the number of peers) -/
theorem one_claim_per_peer (sv : SigCheck) (h r t : Nat) (vals : Vals) (ops : List Op) :
    ((run sv (new h r t vals) ops).peerMaj.map (·.1)).Nodup := by
  suffices ∀ s : VoteSet, (s.peerMaj.map (·.1)).Nodup → ((run sv s ops).peerMaj.map (·.1)).Nodup from
    this _ (by simp [new])
  induction ops with
  | nil => intro s hs; simpa [run] using hs
  | cons o os ih =>
    intro s hs
    simp only [run, List.foldl_cons] at ih ⊢
    apply ih
    cases o with
    | vote v => simp only [apply]; rw [addVote_peerMaj]; exact hs
    | peer p b => exact setPeerMaj23_peers_nodup s p b hs

-- non-vacuity: a run mixing votes and claims (a repeated and a conflicting one) records 2 peers
example : ((run svSome (new 5 0 2 vals30) [opv 0 bA, .peer 1 bA, opv 1 bA, .peer 2 bA', .peer 1 bA', .peer 1 bA]).peerMaj.map (·.1))
    = [1, 2] := by decide

/-- a peer's first claim for `b` leaves `b`'s bucket present and flagged, keeping the votes and the
tally the bucket already had (the completeness half: the claim must not wipe what was counted) -/
theorem peerMaj23_opens_bucket (s : VoteSet) (p : Nat) (b : BlockId)
    (h : peerLookup p s.peerMaj = none) :
    ∃ bv, lookup b.key (setPeerMaj23 s p b).1.byBlock = some bv ∧ bv.peerMaj23 = true ∧
      (∀ old, lookup b.key s.byBlock = some old → bv.votes = old.votes ∧ bv.sum = old.sum) := by
  unfold setPeerMaj23
  simp only [h]
  split
  · rename_i bv hbv
    split
    · rename_i hf
      exact ⟨bv, hbv, hf, fun old ho => by rw [hbv] at ho; cases ho; exact ⟨rfl, rfl⟩⟩
    · exact ⟨{ bv with peerMaj23 := true }, lookup_insert_self _ _ _, rfl,
        fun old ho => by rw [hbv] at ho; cases ho; exact ⟨rfl, rfl⟩⟩
  · rename_i hn
    exact ⟨_, lookup_insert_self _ _ _, rfl, fun old ho => by rw [hn] at ho; cases ho⟩


end KV.Props.C02
