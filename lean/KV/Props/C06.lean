import KV.Proofs.ValSetPerm
import KV.Proofs.ValUpdates
import KV.Props.C12
import KV.Props.C07
/-!
# C06 — Block execution is deterministic (partial)

What is *proved* here are the places where the result of applying a block could depend on an order
the language does not fix, and where this is logic rather than runtime:

1. `valupdates_perm` — `calculateValidatorSetUpdates` (model `KV.ValUpdates.calcValUpdates`, the Go
   map made explicit): for every order `π` in which the application reports the validators and every
   enumeration order `σ` of Go's `range` over the leftover map, the produced change lists are
   permutations of one another (and have pairwise distinct addresses: `valupdates_nodup`).
2. `update_perm` — `ValidatorSet.UpdateWithChangeSet` (C12's model) depends on the change list only
   up to permutation: this is C12's `UpdatePermStatement`, now a theorem.  Key lemma
   (`KV.ValSet.isort_perm_eq`): insertion sort by a total preorder is permutation-invariant when the
   keys are distinct; duplicates are rejected on both sides.
3. `valset_update_order_independent` — hence the validator set applied to consensus by
   `updateState` (next set, proposer, priorities, "changed at this height" flag, or the error) is
   the same for all `π`, `σ`.
4. `root_order_independent_state` — corollary of C07's `canonical`: applying a set of account /
   storage updates with distinct keys to a reachable trie in any order gives the same trie, hence the
   same root for every hash function `H` — the step `IntermediateRoot` performs while ranging over
   the `stateObjectsPending` map.
5. `block_is_fold` / `block_deterministic` / `proposer_header_accepted` — the model of `commitBlock`
   is a left fold of `applyTx` over the block's transaction list with failing transactions skipped,
   between a begin-block and an end-block step; its result is a function of (parent state, header,
   txs, last-commit info, evidence) and of nothing else; two nodes whose per-transaction step agree
   compute the same block result; a header built from a consensus state passes the field checks of
   `validateBlock` against the same consensus state.

**Not carried by the theorems** (exercised by the cross-configuration re-execution harness —
differential testing, labelled so in `checks.d/C06.json`): that the real per-transaction step
(`ApplyTransaction`, the KVM, `StateDB`, the snapshot layers, trie caches and the prefetcher) is
itself a function of its inputs, i.e. the hypotheses `hTx`/`hBegin`/`hEnd` of
`block_deterministic`.
-/
namespace KV.C06
open KV KV.ValSet KV.ValUpdates

/-! ## (1) `calculateValidatorSetUpdates` -/

/-- **valupdates_perm**: for all report orders and all map enumeration orders the change lists are
permutations of one another — for every last set and every reported list without duplicate
addresses. -/
theorem valupdates_perm (last reported reported' : List Validator) (σ σ' : List Nat)
    (hn : (reported.map (·.addr)).Nodup) (hπ : reported.Perm reported')
    (hσ : Enumerates σ (leftover last reported)) (hσ' : Enumerates σ' (leftover last reported')) :
    (calcValUpdates last reported σ).Perm (calcValUpdates last reported' σ') :=
  calcValUpdates_perm last reported reported' σ σ' hn hπ hσ hσ'

/-- the produced change list never names an address twice (so `processChanges` cannot answer
"duplicate entry" on it) -/
theorem valupdates_nodup (last reported : List Validator) (σ : List Nat)
    (hn : (reported.map (·.addr)).Nodup) (hσ : Enumerates σ (leftover last reported)) :
    ((calcValUpdates last reported σ).map (·.addr)).Nodup :=
  calcValUpdates_nodup last reported σ hn hσ

/-- closed form: the changes are the reported validators whose power is new or different, plus a
removal for every last validator that is not reported; an empty report means "no change". -/
theorem valupdates_closed_form (last reported : List Validator) (σ : List Nat)
    (hn : (reported.map (·.addr)).Nodup) :
    calcValUpdates last reported σ =
      (if reported.isEmpty then []
       else reported.filter (changed (buildLast last)) ++ σ.map removal) ∧
    leftover last reported =
      (buildLast last).filter (fun e => decide (e.1 ∉ reported.map (·.addr))) := by
  refine ⟨?_, scanReported_fst _ _⟩
  unfold calcValUpdates
  rw [scanReported_snd _ _ hn]

/-- the hypothesis "no duplicate reported address" is necessary: with a validator reported twice
the code's output depends on the report order (`delete(last, addr)` makes the second occurrence
"not found") — here `[A:7, A:5]` yields two changes for `A` and `[A:5, A:7]` only one. -/
theorem valupdates_dup_counterexample :
    let last : List Validator := [⟨1, 5, 0⟩]
    let r : List Validator := [⟨1, 7, 0⟩, ⟨1, 5, 0⟩]
    let r' : List Validator := [⟨1, 5, 0⟩, ⟨1, 7, 0⟩]
    r.Perm r' ∧ Enumerates [] (leftover last r) ∧ Enumerates [] (leftover last r') ∧
    (calcValUpdates last r []).length = 2 ∧ (calcValUpdates last r' []).length = 1 := by
  refine ⟨List.Perm.swap _ _ _, ?_, ?_, by decide, by decide⟩ <;>
    (unfold Enumerates; decide)

/-! ## (2) `UpdateWithChangeSet` -/

/-- sorting the changes by address is permutation-invariant for distinct addresses -/
theorem sort_by_address_perm (l l' : List Validator) (hp : l.Perm l')
    (hn : (l.map (·.addr)).Nodup) : isort leAddr l = isort leAddr l' :=
  isort_leAddr_perm l l' hp hn

/-- with distinct addresses: identical result, including the error class -/
theorem update_perm_eq (vs : ValSet) (cs cs' : List Validator) (d : Bool) (hp : cs.Perm cs')
    (hn : (cs.map (·.addr)).Nodup) : updateWithChangeSet vs cs d = updateWithChangeSet vs cs' d :=
  update_perm_nodup vs cs cs' d hp hn

/-- **update_perm** (C12's `UpdatePermStatement`): the result of an update depends on the change
list only up to permutation — a successful update gives the same set for every order, a rejected
one is rejected for every order.  (With a repeated address *which* error is reported may depend on
the order of the equal keys — `[(1,5),(1,-1)]` is a duplicate, `[(1,-1),(1,5)]` a negative power —
hence "some error" on the right.) -/
theorem update_perm : KV.ValSet.UpdatePermStatement := by
  intro vs cs cs' hp
  by_cases hn : (cs.map (·.addr)).Nodup
  · rw [update_perm_nodup vs cs cs' true hp hn]
    exact ⟨fun _ h => h, fun h => h⟩
  · obtain ⟨⟨e, he⟩, h2⟩ := update_perm_dup vs cs cs' true hp hn
    refine ⟨?_, fun _ => h2⟩
    intro vs' h
    rw [he] at h
    cases h

/-- the error class can differ between two orders of a list with a repeated address (why
`UpdatePermStatement` says "some error") -/
theorem update_perm_error_class_example :
    errOf (updateWithChangeSet emptySet [⟨1, 5, 0⟩, ⟨1, -1, 0⟩] true) = some .dup ∧
    errOf (updateWithChangeSet emptySet [⟨1, -1, 0⟩, ⟨1, 5, 0⟩] true) = some .neg := by
  constructor <;> decide

/-! ## (3) the set applied to consensus -/

/-- **valset_update_order_independent**: the result of
`updateState(.., calculateValidatorSetUpdates(state.NextValidators.Validators, reported))` — next
validator set with priorities, proposer and cached total, the "validators changed" flag, or the
error — does not depend on the order in which the application reports the validators nor on Go's
map iteration order. -/
theorem valset_update_order_independent (next : ValSet) (reported reported' : List Validator)
    (σ σ' : List Nat) (hn : (reported.map (·.addr)).Nodup) (hπ : reported.Perm reported')
    (hσ : Enumerates σ (leftover next.vals reported))
    (hσ' : Enumerates σ' (leftover next.vals reported')) :
    applyReported next reported σ = applyReported next reported' σ' := by
  have hp := valupdates_perm next.vals reported reported' σ σ' hn hπ hσ hσ'
  have hd := valupdates_nodup next.vals reported σ hn hσ
  unfold applyReported updateStateVals
  rw [update_perm_nodup next _ _ true hp hd, hp.isEmpty_eq]

/-- every map enumeration order gives what the canonical enumeration (used by the driver) gives -/
theorem valset_update_canonical (next : ValSet) (reported : List Validator) (σ : List Nat)
    (hn : (reported.map (·.addr)).Nodup) (hσ : Enumerates σ (leftover next.vals reported)) :
    applyReported next reported σ = applyReported next reported (canonEnum next.vals reported) :=
  valset_update_order_independent next reported reported σ _ hn (List.Perm.refl _) hσ (List.Perm.refl _)

/-- what the driver prints (changes sorted by address) is the same for every order -/
theorem sorted_changes_order_independent (last reported reported' : List Validator) (σ σ' : List Nat)
    (hn : (reported.map (·.addr)).Nodup) (hπ : reported.Perm reported')
    (hσ : Enumerates σ (leftover last reported)) (hσ' : Enumerates σ' (leftover last reported')) :
    isort leAddr (calcValUpdates last reported σ) = isort leAddr (calcValUpdates last reported' σ') :=
  isort_leAddr_perm _ _ (valupdates_perm last reported reported' σ σ' hn hπ hσ hσ')
    (valupdates_nodup last reported σ hn hσ)

/-! ## (4) the trie step of `IntermediateRoot` -/

namespace TrieStep
open KV.Trie

/-- key written by an operation (`updateStateObject` = put, `deleteStateObject` = del) -/
def opKey : Op → Bytes
  | .put k _ => k
  | .del k => k

theorem run_append (t : Node) (a b : List Op) : run t (a ++ b) = (run t a).bind fun t' => run t' b := by
  induction a generalizing t with
  | nil => simp [run]
  | cons op ops ih =>
    simp only [List.cons_append, run]
    cases applyOp t op with
    | none => rfl
    | some t1 => simp only [Option.bind_some]; exact ih t1

theorem absOp_comm (m : Bytes → Option Bytes) (x y : Op) (h : opKey x ≠ opKey y) :
    absOp (absOp m x) y = absOp (absOp m y) x := by
  funext k
  cases x <;> cases y <;> simp only [opKey] at h <;> simp only [absOp] <;>
    split <;> split <;> simp_all

/-- the abstract content after a set of updates with distinct keys does not depend on the order -/
theorem absRun_perm (m : Bytes → Option Bytes) (ups ups' : List Op) (hp : ups.Perm ups')
    (hn : (ups.map opKey).Nodup) : absRun m ups = absRun m ups' := by
  unfold absRun
  apply List.Perm.foldl_eq' hp
  intro x hx y hy z
  by_cases e : x = y
  · rw [e]
  · apply absOp_comm
    intro hk
    exact e (eq_of_nodup_map opKey ups hn x y hx hy hk)

theorem absRun_append (m : Bytes → Option Bytes) (a b : List Op) :
    absRun m (a ++ b) = absRun (absRun m a) b := by
  unfold absRun; rw [List.foldl_append]

end TrieStep

open KV.Trie TrieStep in
/-- **root_order_independent_state**: from any reachable trie `t0`, applying a set of updates /
deletes with pairwise distinct keys in two different orders never panics and yields the *same*
trie, hence the same root hash for every hash function `H`. -/
theorem root_order_independent_state (H : Bytes → Bytes) (t0 : Node) (h0 : Reachable t0)
    (ups ups' : List Op) (hp : ups.Perm ups') (hn : (ups.map opKey).Nodup) :
    ∃ t, run t0 ups = some t ∧ run t0 ups' = some t ∧
      ∀ t1 t2, run t0 ups = some t1 → run t0 ups' = some t2 → rootHash H t1 = rootHash H t2 := by
  obtain ⟨ops0, h0⟩ := h0
  obtain ⟨t1, r1, _, _⟩ := run_refines (ops0 ++ ups)
  obtain ⟨t2, r2, _, _⟩ := run_refines (ops0 ++ ups')
  have e : t1 = t2 := by
    apply canonical (ops0 ++ ups) (ops0 ++ ups') t1 t2 r1 r2
    rw [absRun_append, absRun_append]
    exact absRun_perm _ ups ups' hp hn
  subst e
  rw [run_append, h0, Option.bind_some] at r1 r2
  refine ⟨t1, r1, r2, ?_⟩
  intro a b ha hb
  rw [r1] at ha; rw [r2] at hb
  cases ha; cases hb; rfl

/-! ## (5) the block -/

section Block
variable {S Tx Rc Hdr LC Ev V E : Type}

/-- what a node brings to the execution of a block: the three phases of `commitBlock`.
`S` is everything threaded through the loop (StateDB, gas pool, used gas);
`begin` = Mint + FinalizeCommit + DoubleSign; `applyTx` = `ApplyTransaction` (an error means the
transaction is skipped; `onFail` is what is left after `RevertToSnapshot`, e.g. the gas pool);
`finish` = `ApplyAndReturnValidatorSets` + `IntermediateRoot`. -/
structure Exec (S Tx Rc Hdr LC Ev V E : Type) where
  begin : Hdr → LC → List Ev → S → Except E S
  applyTx : Hdr → S → Tx → Except E (S × Rc)
  onFail : Hdr → S → Tx → S
  finish : Hdr → S → Except E (S × List V)

/-- one iteration of the `LOOP:` in `commitBlock` -/
def txStep (x : Exec S Tx Rc Hdr LC Ev V E) (h : Hdr) (acc : S × List Rc) (tx : Tx) : S × List Rc :=
  match x.applyTx h acc.1 tx with
  | .ok (s', r) => (s', acc.2 ++ [r])
  | .error _ => (x.onFail h acc.1 tx, acc.2)

/-- `commitBlock` + the root taken by `CommitAndValidateBlockTxs`: (state, receipts, validators) -/
def commitBlock (x : Exec S Tx Rc Hdr LC Ev V E) (h : Hdr) (lc : LC) (ev : List Ev) (txs : List Tx)
    (parent : S) : Except E (S × List Rc × List V) :=
  match x.begin h lc ev parent with
  | .error e => .error e
  | .ok s0 =>
    let r := txs.foldl (txStep x h) (s0, [])
    match x.finish h r.1 with
    | .error e => .error e
    | .ok (s', vals) => .ok (s', r.2, vals)

/-- **block_is_fold**: executing `txs ++ [tx]` is executing `txs` and then one more loop iteration:
the loop is a left fold, with a failing transaction contributing no receipt. -/
theorem block_is_fold (x : Exec S Tx Rc Hdr LC Ev V E) (h : Hdr) (s0 : S) (txs : List Tx) (tx : Tx) :
    (txs ++ [tx]).foldl (txStep x h) (s0, []) = txStep x h (txs.foldl (txStep x h) (s0, [])) tx := by
  rw [List.foldl_append]; rfl

/-- a failing transaction is skipped: no receipt, the state is what the revert leaves -/
theorem failing_tx_skipped (x : Exec S Tx Rc Hdr LC Ev V E) (h : Hdr) (acc : S × List Rc) (tx : Tx) (e : E)
    (hf : x.applyTx h acc.1 tx = .error e) : txStep x h acc tx = (x.onFail h acc.1 tx, acc.2) := by
  unfold txStep; rw [hf]

/-- **block_deterministic**: two nodes (proposer and receiver, or two cache configurations) whose
three phases agree as functions compute the same result for the same
(parent state, header, last-commit info, evidence, transactions): the block-level composition adds
no other input. -/
theorem block_deterministic (x y : Exec S Tx Rc Hdr LC Ev V E)
    (hBegin : ∀ h lc ev s, x.begin h lc ev s = y.begin h lc ev s)
    (hTx : ∀ h s tx, x.applyTx h s tx = y.applyTx h s tx)
    (hFail : ∀ h s tx, x.onFail h s tx = y.onFail h s tx)
    (hEnd : ∀ h s, x.finish h s = y.finish h s)
    (h : Hdr) (lc : LC) (ev : List Ev) (txs : List Tx) (parent : S) :
    commitBlock x h lc ev txs parent = commitBlock y h lc ev txs parent := by
  have hstep : txStep x h = txStep y h := by
    funext acc tx; unfold txStep; rw [hTx, hFail]
  unfold commitBlock
  rw [hBegin, hstep]
  cases y.begin h lc ev parent with
  | error e => rfl
  | ok s0 => simp only [hEnd]

/-- the header fields the proposer copies from its consensus state (`CreateProposalBlock`) and the
receiver compares with its own (`validateBlock`) -/
structure HdrFields (Id Hash : Type) where
  height : Nat
  lastBlockID : Id
  appHash : Hash
  validatorsHash : Hash
  nextValidatorsHash : Hash
deriving DecidableEq

/-- the part of `LatestBlockState` the header is built from -/
structure CState (Id Hash VS : Type) where
  lastHeight : Nat
  lastBlockID : Id
  appHash : Hash
  validators : VS
  nextValidators : VS

/-- `newHeader(.., lastState.LastBlockID, .., lastState.Validators.Hash(),
lastState.NextValidators.Hash(), lastState.AppHash)` at `height = LastBlockHeight + 1` -/
def proposeHeader {Id Hash VS : Type} (hashV : VS → Hash) (st : CState Id Hash VS) : HdrFields Id Hash :=
  { height := st.lastHeight + 1, lastBlockID := st.lastBlockID, appHash := st.appHash,
    validatorsHash := hashV st.validators, nextValidatorsHash := hashV st.nextValidators }

/-- the state-dependent header checks of `validateBlock` -/
def headerChecks {Id Hash VS : Type} [DecidableEq Id] [DecidableEq Hash] (hashV : VS → Hash)
    (st : CState Id Hash VS) (h : HdrFields Id Hash) : Bool :=
  decide (h.height = st.lastHeight + 1) && decide (h.lastBlockID = st.lastBlockID) &&
  decide (h.appHash = st.appHash) && decide (h.validatorsHash = hashV st.validators) &&
  decide (h.nextValidatorsHash = hashV st.nextValidators)

/-- **proposer_header_accepted**: a header built from a consensus state passes the checks against
an equal consensus state — so, execution being the same function on every node
(`block_deterministic`), a proposer's own block carries the app hash and validator hashes every
correct validator recomputes. -/
theorem proposer_header_accepted {Id Hash VS : Type} [DecidableEq Id] [DecidableEq Hash]
    (hashV : VS → Hash) (stP stR : CState Id Hash VS) (h : stP = stR) :
    headerChecks hashV stR (proposeHeader hashV stP) = true := by
  subst h; simp [headerChecks, proposeHeader]

/-- and a receiver whose app hash differs rejects it (the check is not vacuous) -/
theorem header_rejected_on_apphash {Id Hash VS : Type} [DecidableEq Id] [DecidableEq Hash]
    (hashV : VS → Hash) (stP stR : CState Id Hash VS) (h : stP.appHash ≠ stR.appHash) :
    headerChecks hashV stR (proposeHeader hashV stP) = false := by
  simp [headerChecks, proposeHeader, h]

end Block

/-! ## non-vacuity -/

def v (a : Nat) (p q : Int) : Validator := { addr := a, power := p, prio := q }

/-- a concrete last set -/
def exSet : ValSet :=
  match newValidatorSet [v 10 100 0, v 20 50 0, v 30 7 0, v 40 7 0] with
  | .ok vs => vs
  | .error _ => emptySet

/-- report: 10 unchanged, 20 changes power, 50 is new; 30 and 40 are not reported (removed) -/
def exReport : List Validator := [v 10 100 0, v 20 60 0, v 50 9 0]
def exReport' : List Validator := [v 50 9 0, v 10 100 0, v 20 60 0]

example : exSet.vals.length = 4 := by decide
example : leftover exSet.vals exReport = [(30, 7), (40, 7)] := by decide
example : Enumerates [30, 40] (leftover exSet.vals exReport) := by unfold Enumerates; decide
example : Enumerates [40, 30] (leftover exSet.vals exReport') := by unfold Enumerates; decide
/-- two report orders and two map orders: different lists … -/
example : calcValUpdates exSet.vals exReport [30, 40] = [v 20 60 0, v 50 9 0, v 30 0 0, v 40 0 0] := by decide
example : calcValUpdates exSet.vals exReport' [40, 30] = [v 50 9 0, v 20 60 0, v 40 0 0, v 30 0 0] := by decide
/-- … the same sorted change list … -/
example : isort leAddr (calcValUpdates exSet.vals exReport [30, 40]) =
    isort leAddr (calcValUpdates exSet.vals exReport' [40, 30]) := by decide
/-- … and the same, successful, update of the set (membership really changes) -/
example : okOf (applyReported exSet exReport [30, 40]) = okOf (applyReported exSet exReport' [40, 30]) ∧
    (okOf (applyReported exSet exReport [30, 40])).isSome = true := by decide
example : (match applyReported exSet exReport [30, 40] with
    | .ok (vs, ch) => (vs.vals.map (·.addr), ch)
    | .error _ => ([], false)) = ([10, 20, 50], true) := by decide
/-- an empty report is "no change" even though nobody is reported -/
example : calcValUpdates exSet.vals [] [] = [] := by decide
/-- the trie corollary: two orders of two puts and a delete -/
example : ∃ t, KV.Trie.run .nil [.put [0x12] [1], .put [0x15] [3], .del [0x77]] = some t ∧
    KV.Trie.run .nil [.del [0x77], .put [0x15] [3], .put [0x12] [1]] = some t := by
  obtain ⟨t, h1, h2, _⟩ := root_order_independent_state id .nil ⟨[], rfl⟩
    [.put [0x12] [1], .put [0x15] [3], .del [0x77]] [.del [0x77], .put [0x15] [3], .put [0x12] [1]]
    (List.reverse_perm [KV.Trie.Op.del [0x77], KV.Trie.Op.put [0x15] [3], KV.Trie.Op.put [0x12] [1]]) (by decide)
  exact ⟨t, h1, h2⟩
/-- the block model on a toy instance: state = balance, a transaction fails when it overdraws -/
def toy : Exec Nat Nat Nat Unit Unit Unit Nat String where
  begin := fun _ _ _ s => .ok (s + 1)
  applyTx := fun _ s tx => if tx ≤ s then .ok (s - tx, tx) else .error "insufficient"
  onFail := fun _ s _ => s
  finish := fun _ s => .ok (s, [s])
example : commitBlock toy () () [] [3, 100, 2] 9 = .ok (5, [3, 2], [5]) := by rfl

end KV.C06
