import KV.Gen.C12
import KV.Model.ValSet
/-!
# C12 — bridge between the regenerated Go arithmetic (tie T1) and the model

`KV/Gen/C12.lean` is re-extracted from `types/validator_set.go` on every check run.  These theorems
state that the arithmetic kernels of the model `KV.ValSet` — about which `KV/Props/C12.lean` proves
centring, the window, argmax, no-overflow and the accounting identity — are the ones the source
contains now: the clipping functions, `computeMaxMinPriorityDiff` (incl. its initialisers, which is
where defect F1 sat), the rescale ratio and guard, the per-round increment/decrement, the centring
shift, the newcomer priority and the caps.
-/
namespace KV.ValSet.GenBridge
open KV KV.ValSet

theorem gen_safeAdd_eq (a b : Int) : Gen.C12.safeAdd a b = ValSet.safeAdd a b := by
  unfold Gen.C12.safeAdd ValSet.safeAdd
  simp only [I64.maxI64, I64.minI64, Bool.and_eq_true, decide_eq_true_eq]
  by_cases h1 : b > 0 ∧ a > I64.sub 9223372036854775807 b
  · simp [h1]
  · by_cases h2 : b < 0 ∧ a < I64.sub (-9223372036854775808) b
    · simp [h1, h2]
    · simp [h1, h2]

theorem gen_safeSub_eq (a b : Int) : Gen.C12.safeSub a b = ValSet.safeSub a b := by
  unfold Gen.C12.safeSub ValSet.safeSub
  simp only [I64.maxI64, I64.minI64, Bool.and_eq_true, decide_eq_true_eq]
  by_cases h1 : b > 0 ∧ a < I64.add (-9223372036854775808) b
  · simp [h1]
  · by_cases h2 : b < 0 ∧ a > I64.add 9223372036854775807 b
    · simp [h1, h2]
    · simp [h1, h2]

theorem gen_safeAddClip_eq (a b : Int) : Gen.C12.safeAddClip a b = ValSet.safeAddClip a b := by
  unfold Gen.C12.safeAddClip ValSet.safeAddClip
  rw [gen_safeAdd_eq]
  simp only [I64.maxI64, I64.minI64]

theorem gen_safeSubClip_eq (a b : Int) : Gen.C12.safeSubClip a b = ValSet.safeSubClip a b := by
  unfold Gen.C12.safeSubClip ValSet.safeSubClip
  rw [gen_safeSub_eq]
  simp only [I64.maxI64, I64.minI64]

/-- the fold of `computeMaxMinPriorityDiff` computes the model's (min, max) pair -/
theorem gen_fold_eq (l : List Validator) (mn mx : Int) :
    List.foldl (fun ((min, max) : Int × Int) (v : Int) =>
        ((if v < min then v else min), (if v > max then v else max))) (mn, mx) (l.map (·.prio))
      = (l.foldl (fun m v => if v.prio < m then v.prio else m) mn,
         l.foldl (fun m v => if v.prio > m then v.prio else m) mx) := by
  induction l generalizing mn mx with
  | nil => rfl
  | cons v vs ih => simp only [List.map_cons, List.foldl_cons]; exact ih _ _

/-- `computeMaxMinPriorityDiff` on a non-empty set is the model's `maxMinDiff` -/
theorem gen_maxMinDiff_eq (l : List Validator) (hne : l ≠ []) :
    Gen.C12.computeMaxMinPriorityDiff (l.map (·.prio)) = some (ValSet.maxMinDiff l) := by
  unfold Gen.C12.computeMaxMinPriorityDiff ValSet.maxMinDiff ValSet.maxPrio ValSet.minPrio
  have hne' : (l.map (·.prio)).isEmpty = false := by
    cases l with
    | nil => exact absurd rfl hne
    | cons a t => rfl
  simp only [hne', Bool.false_eq_true, if_false]
  have := gen_fold_eq l 9223372036854775807 (-9223372036854775808)
  simp only at this
  rw [this]
  simp only [I64.maxI64, I64.minI64]
  split <;> simp [*]

/-- the empty set is the panic case -/
theorem gen_maxMinDiff_empty : Gen.C12.computeMaxMinPriorityDiff [] = none := rfl

theorem gen_diffMax_eq (total : Int) :
    Gen.C12.diffMax total = I64.mul ValSet.windowFactor total := rfl

theorem gen_rescaleRatio_eq (diffMax : Int) (l : List Validator) :
    Gen.C12.rescaleRatio (ValSet.maxMinDiff l) diffMax = ValSet.rescaleRatio diffMax l := rfl

/-- `RescalePriorities` as composed from the regenerated guard, ratio and division -/
theorem gen_rescale_eq (diffMax : Int) (l : List Validator) :
    (if Gen.C12.rescaleSkips diffMax then l
     else if Gen.C12.rescaleNeeded (ValSet.maxMinDiff l) diffMax then
       l.map fun v => { v with prio := Gen.C12.rescaledPriority v.prio
                                  (Gen.C12.rescaleRatio (ValSet.maxMinDiff l) diffMax) }
     else l) = ValSet.rescaleList diffMax l := by
  unfold ValSet.rescaleList Gen.C12.rescaleSkips Gen.C12.rescaleNeeded Gen.C12.rescaledPriority
  simp only [decide_eq_true_eq, gen_rescaleRatio_eq]

theorem gen_incremented_eq (p w : Int) : Gen.C12.incrementedPriority p w = I64.add p w := rfl

theorem gen_decremented_eq (p T : Int) : Gen.C12.decrementedPriority p T = ValSet.safeSubClip p T :=
  gen_safeSubClip_eq p T

theorem gen_shifted_eq (p avg : Int) : Gen.C12.shiftedPriority p avg = ValSet.safeSubClip p avg :=
  gen_safeSubClip_eq p avg

theorem gen_newcomer_eq (U : Int) : Gen.C12.newcomerPriority U = ValSet.newcomerPrio U := rfl

theorem gen_cap_eq : Gen.C12.MaxTotalVotingPower = ValSet.cap := rfl

theorem gen_windowFactor_eq : Gen.C12.PriorityWindowSizeFactor = ValSet.windowFactor := rfl

theorem gen_totalStep_eq (s w : Int) : Gen.C12.totalVotingPowerStep s w = ValSet.safeAddClip s w :=
  gen_safeAddClip_eq s w

theorem gen_totalExceeds_eq (s : Int) : Gen.C12.totalVotingPowerExceeds s = decide (s > ValSet.cap) := rfl

/-- `cstate.updateState`: the block step advances the updated set by the regenerated number of
rounds (`nValSet.IncrementProposerPriority(1)`) -/
theorem blockStep_eq_gen (vs : ValSet) (cs : List Validator) :
    blockStep vs cs =
      match updateWithChangeSet vs cs true with
      | .error e => .error e
      | .ok vs' => increment vs' Gen.C12.updateStateRounds := rfl

end KV.ValSet.GenBridge
