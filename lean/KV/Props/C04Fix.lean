import KV.Props.C04Net
import KV.Proofs.CsFixedNet
import KV.Proofs.CsFixedStale
/-!
# C04 — the candidate repair of the stale lock (`KV/Model/CsFixed.lean`)

`stale_lock_livelock_counterexample` (`KV/Props/C04Net.lean`): a node that round-skips past the
prevote step of a round whose polka it holds keeps its older lock for ever.  The repair
(`releaseStale` in `enterNewRoundFixed`): on entering a round, a locked node scans its own prevote
sets of the rounds in `(lockedRound, round]` and releases the lock if one of them has +2/3 for
another value — exactly what `addVote` ("Unlocking because of POL") would have done had the
prevote been added while `vote.Round ≤ cs.Round`.

For the repaired model `stepFixed` (all runs, any inputs, timeouts as in C03):

* (i) `stale_lock_released` — on the counterexample run the lock of A is released at the (first)
  round skip, and the synchronous round of the proposer with the dominating valid round decides.
* (ii) safety is kept: `fixed_inv` / `fixed_lock` (the invariants behind C03 (1)–(5) and the lock
  invariant; the new unlock site supplies the polka it found as the witness of `Lock.cur`),
  `fixed_lock_rule` (O3), `fixed_frame`, and `fixed_network_agreement` (the network composition of
  `KV/Props/C01Cs.lean` redone for `stepFixed`: `KV/Proofs/CsFixedNet.lean`).
* (iii) `stale_lock_never_persists` (+ `_network`): `NoStale` — a locked node holds no +2/3 prevote
  majority for another value at a round in `(lockedRound, round]` — is an invariant of the repaired
  model (in every reachable state, not only at round boundaries); `unfixed_violates_noStale`: the
  unrepaired model violates it in the counterexample state.

Not redone for `stepFixed`: the ticker / local progress theorems of `C04Cs.lean` and the
synchronous-round theorems of `C04Net.lean` (they are about `step`; `releaseStale` only changes
`locked` / `lockedRound`, and not at all when the node is not locked on a block with a later
conflicting polka, in particular never in the executions of `fresh_network_commits`).
-/
namespace KV.Props.C04Fix
open KV.Cs KV.Agree KV.Props.C03 KV.Props.C01Cs KV.Props.C04Net

/-! ### runs of the repaired node -/

/-- every input of the run satisfies `InputOk` in the state it is delivered in (as `C03.Sane`) -/
def SaneFixed (cfg : Config) : State → List (Option Nat × Input) → Prop
  | _, [] => True
  | σ, (nb, i) :: rest => InputOk σ i ∧ SaneFixed cfg (stepFixed cfg σ nb i) rest

theorem fixed_inv {cfg : Config} : ∀ (inputs : List (Option Nat × Input)) (σ : State), Inv cfg σ →
    SaneFixed cfg σ inputs → Inv cfg (runFixed cfg σ inputs)
  | [], _, I, _ => I
  | (nb, i) :: rest, _, I, hs => fixed_inv rest _ (stepFixed_inv I nb i hs.1) hs.2

theorem fixed_lock {cfg : Config} : ∀ (inputs : List (Option Nat × Input)) (σ : State), Inv cfg σ → Lock cfg σ →
    SaneFixed cfg σ inputs → Lock cfg (runFixed cfg σ inputs)
  | [], _, _, L, _ => L
  | (nb, i) :: rest, _, I, L, hs =>
    fixed_lock rest _ (stepFixed_inv I nb i hs.1) (stepFixed_lock I L nb i hs.1) hs.2

/-- what one input does to the log, the vote sets and the blocks seen — as for `step` -/
theorem fixed_frame (cfg : Config) (σ : State) (nb : Option Nat) (i : Input) :
    Frame cfg σ (stepFixed cfg σ nb i) (voteOf i) (blockOf i) := stepFixed_frame cfg σ nb i

/-- **(ii) the lock rule (O3) for the repaired model**, as `C03.lock_rule` -/
theorem fixed_lock_rule (cfg : Config) (h0 : Nat) (inputs : List (Option Nat × Input))
    (hs : SaneFixed cfg (init cfg h0) inputs) (h r r' b : Nat) (x : Target)
    (h1 : Action.signVote .precommit h r (some b) ∈ (runFixed cfg (init cfg h0) inputs).log)
    (h2 : Action.signVote .prevote h r' x ∈ (runFixed cfg (init cfg h0) inputs).log)
    (h3 : r < r') (h4 : x ≠ some b) :
    ∃ r'' x'', r < r'' ∧ r'' ≤ r' ∧ x'' ≠ some b ∧
      quorum cfg.powers (runFixed cfg (init cfg h0) inputs).votes .prevote h r'' x'' :=
  (fixed_lock inputs _ (init_inv cfg h0) (init_lock cfg h0) hs).hist h r r' b x h1 h2 h3 h4

/-- (ii) sign-once, precommit / commit justification for the repaired model (the content of `Inv`) -/
theorem fixed_sign_once (cfg : Config) (h0 : Nat) (inputs : List (Option Nat × Input))
    (hs : SaneFixed cfg (init cfg h0) inputs) (k : Nat × Nat × Nat) :
    ((runFixed cfg (init cfg h0) inputs).log.filter (fun a => sigKey a == some k)).length ≤ 1 :=
  (fixed_inv inputs _ (init_inv cfg h0) hs).si.1.count_le_one k

theorem fixed_commit_justified (cfg : Config) (h0 : Nat) (inputs : List (Option Nat × Input))
    (hs : SaneFixed cfg (init cfg h0) inputs) (h b : Nat)
    (hmem : Action.commit h b ∈ (runFixed cfg (init cfg h0) inputs).log) :
    (∃ r, quorum cfg.powers (runFixed cfg (init cfg h0) inputs).votes .precommit h r (some b)) ∧
    validSeen (runFixed cfg (init cfg h0) inputs).seen h b :=
  (fixed_inv inputs _ (init_inv cfg h0) hs).ag _ hmem

/-- **(ii) agreement for the network of repaired nodes** -/
theorem fixed_network_agreement (N : Net) (wf : N.WF)
    (hF : 3 * power (valsOf N.powers) (pwOf N.powers) N.F <
      power (valsOf N.powers) (pwOf N.powers) (fun _ => true))
    (steps : List GStep) (hok : GOkSFixed N (gstart N) steps) (i i' h b b' : Nat)
    (hc : Action.commit h b ∈ ((grunFixed N (gstart N) steps).st i).log)
    (hc' : Action.commit h b' ∈ ((grunFixed N (gstart N) steps).st i').log) : b = b' :=
  network_agreement_fixed N wf hF steps hok i i' h b b' hc hc'

/-! ### (iii) the invariant whose failure is the defect -/

/-- **stale_lock_never_persists.** In every reachable state of the repaired node (any inputs,
timeouts as in C03): if the node is locked on `lb` since `lockedRound`, none of its own prevote
sets of the rounds in `(lockedRound, round]` has a +2/3 majority for another value. -/
theorem stale_lock_never_persists (cfg : Config) :
    ∀ (inputs : List (Option Nat × Input)) (σ : State), Inv cfg σ → NoStale cfg σ → SaneFixed cfg σ inputs →
      NoStale cfg (runFixed cfg σ inputs)
  | [], _, _, N, _ => N
  | (nb, i) :: rest, _, I, N, hs =>
    stale_lock_never_persists cfg rest _ (stepFixed_inv I nb i hs.1) (stepFixed_noStale I N nb i hs.1) hs.2

/-- from `NewConsensusState` -/
theorem stale_lock_never_persists_init (cfg : Config) (h0 : Nat) (inputs : List (Option Nat × Input))
    (hs : SaneFixed cfg (init cfg h0) inputs) : NoStale cfg (runFixed cfg (init cfg h0) inputs) :=
  stale_lock_never_persists cfg inputs _ (init_inv cfg h0) (init_noStale cfg h0) hs

/-- … and in every execution of the network of repaired nodes, at every node -/
theorem stale_lock_never_persists_network (N : Net) (wf : N.WF) : ∀ (steps : List GStep) (g : GState),
    GInv N g → (∀ i, NoStale (N.cfg i) (g.st i)) → GOkSFixed N g steps →
    ∀ i, NoStale (N.cfg i) ((grunFixed N g steps).st i)
  | [], _, _, hN, _ => hN
  | s :: rest, g, G, hN, hok => by
    have hs : StepOk N g s := ⟨hok.1.1, schedOk_inputOk (G.inv s.1) _ hok.1.2.1, hok.1.2.2⟩
    apply stale_lock_never_persists_network N wf rest _ (gstepFixed_inv wf G s hs) ?_ hok.2
    intro i
    show NoStale (N.cfg i) (if i = s.1 then stepFixed (N.cfg s.1) (g.st s.1) s.2.1 s.2.2 else g.st i)
    split
    · rename_i e
      subst e
      exact stepFixed_noStale (G.inv _) (hN _) _ _ hs.2.1
    · exact hN i

theorem gstart_noStale (N : Net) (i : Nat) : NoStale (N.cfg i) ((gstart N).st i) := NoStale.of_unlocked rfl

/-- the unrepaired model violates the invariant: in the counterexample state A is locked on 8
since round 1 and holds +2/3 prevotes for 9 at round 2 ≤ round 3 -/
theorem unfixed_violates_noStale : ¬ NoStale (N4d.cfg 0) (gD3.st 0) := by
  intro h
  have := h ⟨8, true⟩ (by decide) 2 (some 9) (by decide) (by decide) (by decide)
  exact absurd this (by decide)

/-! ### (i) the counterexample run under the repair -/

/-- the rest of round 3 under the repair: A, unlocked and without a proposal, prevotes nil -/
def fixedRound3 : List GStep :=
  toNode 0 [tmo 3 .propose] ++
  phase [0, 1, 2] (fun _ => [pvx 0 3 none, pvx 1 3 (some 9), pvx 2 3 (some 9), tmo 3 .prevoteWait]) ++
  phase [0, 1, 2] (fun _ => [pcx 0 3 none, pcx 1 3 none, pcx 2 3 none, tmo 3 .precommitWait])

/-- the counterexample prefix without A's second skip (the last three inputs) -/
def stalePrefixFirstSkip : List GStep := stalePrefix.take (stalePrefix.length - 3)

def gF2 : GState := grunFixed N4d (gstart N4d) stalePrefixFirstSkip
def gF3 : GState := grunFixed N4d (gstart N4d) stalePrefix
def gF4 : GState := grunFixed N4d gF3 fixedRound3
def gF5 : GState := grunFixed N4d gF4 (staleRound 4 0 1 8 [0, 1, 2])
def gF6 : GState := grunFixed N4d gF5 (syncRoundP N4d 1 5 1 2 9)

set_option maxRecDepth 100000 in
/-- **(i) stale_lock_released.** The same inputs as in `stale_lock_livelock_counterexample`, handled
by the repaired model: when the third round-2 prevote makes A skip to round 2, `releaseStale` finds
the polka (round 2, block 9) in `(lockedRound = 1, round = 2]` and releases the lock on 8; A enters
round 3 unlocked (it keeps 8 as its valid block).  The executions stay legal (`GOkSFixed`).  Round
3 (no proposer) and round 4 (A re-proposes 8 with POL 1; B and C are locked on 9 since round 2)
fail, and round 5 — B, whose valid round 2 dominates, re-proposes 9 with POL 2 — is `RoundReady`
and the synchronous round decides: every correct node commits 9. -/
theorem stale_lock_released :
    GOkSFixed N4d (gstart N4d) stalePrefix ∧
    -- before the skip: locked (8, round 1), in round 1; after the first skip: released, in round 2
    lockView ((grunFixed N4d (gstart N4d) (stalePrefix.take (stalePrefix.length - 4))).st 0) =
      (some 8, 1, some 8, 1, 1, .precommit) ∧
    lockView (gF2.st 0) = (none, 0, some 8, 1, 2, .propose) ∧
    -- after the second skip: round 3, unlocked; B, C locked on 9
    lockView (gF3.st 0) = (none, 0, some 8, 1, 3, .propose) ∧
    lockView (gF3.st 1) = (some 9, 2, some 9, 2, 3, .prevote) ∧
    lockView (gF3.st 2) = (some 9, 2, some 9, 2, 3, .prevote) ∧
    GOkSFixed N4d gF3 fixedRound3 ∧ GOkSFixed N4d gF4 (staleRound 4 0 1 8 [0, 1, 2]) ∧
    RoundReady N4d gF5 1 5 1 2 9 ∧
    GOkSFixed N4d gF5 (syncRoundP N4d 1 5 1 2 9) ∧ allCommit N4d gF6 1 9 :=
  ⟨by decide, by decide, by decide, by decide, by decide, by decide, by decide, by decide, by decide, by decide,
    by decide⟩

end KV.Props.C04Fix
