import KV.Gen.C14
import KV.Model.CStore
/-!
# C14 — bridge between the regenerated height conditions / key prefixes of the consensus-state
store (tie T1) and the model `KV.CStore`

`KV/Gen/C14.lean` is re-extracted on every check run from `kai/state/cstate/store.go`
(`saveState`: the genesis branch `state.LastBlockHeight == 0`; `loadStateAtHeight`:
`InitialHeight == 0 → 1`, `height > 0` for block id / app hash, `LastBlockHeight > 0` for the last
validators; `PruneState`: `from == 0 → 1` and the loop bound; `MakeGenesisState`) and
`kai/rawdb/schema.go` (the key prefixes of the five tables the model keeps as separate maps).

The theorems state that `saveState`, `loadAt`, `pruneHeights` of the model branch on exactly these
regenerated conditions, and that the five key spaces cannot collide.  The store is mostly
structural (protobuf records, hashes as keys): the record layout and the choice of keys are
tied by the differential check only.
-/
namespace KV.CStore.GenBridge
open KV KV.CStore

/-! ### key spaces -/

/-- no table prefix is a prefix of another one, so keys `prefix ++ suffix` of different tables
never coincide (the model keeps the five tables as separate maps) -/
theorem gen_key_prefixes_disjoint :
    let ps := [Gen.C14.consensusStatePrefix, Gen.C14.consensusValidatorsInfoPrefix,
      Gen.C14.consensusParamsInfoPrefix, Gen.C14.blockMetaPrefix, Gen.C14.appHashPrefix].map String.toList
    ∀ i < 5, ∀ j < 5, i ≠ j → (ps.getD i []).isPrefixOf (ps.getD j []) = false := by
  decide

theorem prefix_keys_ne (p q s t : List Char) (h1 : p.isPrefixOf q = false) (h2 : q.isPrefixOf p = false) :
    p ++ s ≠ q ++ t := by
  induction p generalizing q with
  | nil => simp [List.isPrefixOf] at h1
  | cons a p ih =>
    cases q with
    | nil => simp [List.isPrefixOf] at h2
    | cons b q =>
      intro h
      simp only [List.cons_append, List.cons.injEq] at h
      obtain ⟨hab, hrest⟩ := h
      subst hab
      simp only [List.isPrefixOf, BEq.rfl, Bool.true_and] at h1 h2
      exact ih q h1 h2 hrest

/-! ### `saveState` -/

/-- the validator sets of the state itself are only written at height 0 -/
theorem saveState_eq_gen (db : DB) (s : CState) :
    saveState db s =
      if s.vals.isNone || s.next.isNone || (s.height != 0 && s.last.isNone) then none
      else if !(writable s.next) || (s.height == 0 && !(writable s.last && writable s.vals)) then none
      else
        let vals0 :=
          if Gen.C14.saveWritesGenesisSets s.height then saveVals s.lhv s.vals (saveVals s.lhv s.last db.vals)
          else db.vals
        let vals1 := saveVals s.lhv s.next vals0
        let pk := pkey s.params s.lhp
        let rec_ : StateRec :=
          { chainId := s.chainId, initialHeight := s.initialHeight,
            lastKey := vkey s.last, valsKey := vkey s.vals, nextKey := vkey s.next, paramsKey := pk }
        some { db with
          vals := vals1
          params := put pk ⟨s.params, s.lhp⟩ db.params
          states := put s.height rec_ db.states } := by
  unfold saveState Gen.C14.saveWritesGenesisSets
  simp only [decide_eq_true_eq]

/-- `MakeGenesisState` produces the height at which that branch is taken, and a non-zero initial height -/
theorem gen_genesis_state (ih : Nat) :
    Gen.C14.saveWritesGenesisSets Gen.C14.genesisLastBlockHeight = true ∧
    Gen.C14.genesisInitialHeightUnset ih = decide (ih = 0) ∧ Gen.C14.genesisInitialHeightDefault = 1 := by
  refine ⟨by decide, rfl, rfl⟩

/-! ### `loadStateAtHeight` -/

theorem loadAt_eq_gen (db : DB) (h : Nat) :
    loadAt db h =
      match get h db.states with
      | none => .empty
      | some r =>
        match get h db.metas with
        | none => .panic
        | some m =>
          let app := if Gen.C14.loadJoinsBlockIdAndAppHash h then (get h db.apps).getD zero32 else zero32
          let bid := if Gen.C14.loadJoinsBlockIdAndAppHash h then m.blockId else zeroBlockId
          let lastR : Option (Option VSet) :=
            if Gen.C14.loadReadsLastValidators m.height then (readSet (get r.lastKey db.vals)).map some else some none
          match lastR, readSet (get r.valsKey db.vals), get r.nextKey db.vals with
          | some last, some vals, some ni =>
            match readSet (some ni), get r.paramsKey db.params with
            | some next, some pi =>
              .ok { chainId := r.chainId
                    initialHeight :=
                      if Gen.C14.loadInitialHeightUnset r.initialHeight then Gen.C14.loadInitialHeightDefault
                      else r.initialHeight
                    height := m.height, blockId := bid, time := m.time, numTxs := m.numTxs
                    appHash := app, params := pi.params, lhp := pi.lhc, lhv := ni.lhc
                    last := last, vals := some vals, next := some next }
            | _, _ => .panic
          | _, _, _ => .panic := by
  unfold loadAt Gen.C14.loadJoinsBlockIdAndAppHash Gen.C14.loadReadsLastValidators Gen.C14.loadInitialHeightUnset
    Gen.C14.loadInitialHeightDefault
  simp only [decide_eq_true_eq]
  cases get h db.states with
  | none => rfl
  | some r =>
    cases get h db.metas with
    | none => rfl
    | some m =>
      simp only []
      generalize (if m.height > 0 then Option.map some (readSet (get r.lastKey db.vals)) else some none) = a
      generalize readSet (get r.valsKey db.vals) = b
      generalize get r.nextKey db.vals = c
      cases a <;> cases b <;> cases c <;> rfl

/-! ### `PruneState` -/

theorem gen_pruneFrom (frm : Nat) : Gen.C14.pruneFrom frm = if frm = 0 then 1 else frm := rfl

/-- the heights visited by the loop `for i := from; i < to; i++` after `from == 0 → 1` -/
theorem pruneHeights_eq_gen (db : DB) (frm to : Nat) :
    pruneHeights db frm to =
      (List.range' (Gen.C14.pruneFrom frm) (to - Gen.C14.pruneFrom frm)).filter (fun i => (get i db.states).isSome) ∧
    ∀ i, i ∈ List.range' (Gen.C14.pruneFrom frm) (to - Gen.C14.pruneFrom frm) ↔
      (Gen.C14.pruneFrom frm ≤ i ∧ Gen.C14.pruneLoopCond i to = true) := by
  constructor
  · rfl
  · intro i
    unfold Gen.C14.pruneLoopCond
    simp only [List.mem_range'_1, decide_eq_true_eq]
    omega

end KV.CStore.GenBridge
