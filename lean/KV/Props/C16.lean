import KV.Proofs.Rlp
/-!
# C16 — RLP encoding is canonical, round-trips, and rejects everything else

Model: `KV/Model/Rlp.lean` (`enc`, `dec`, `decode`).  Theorems are for every item of any
size and nesting, and for every byte string.
-/
namespace KV.Rlp

/-- joint round-trip statement for a given amount of fuel -/
theorem dec_enc_aux (fuel : Nat) :
    (∀ x rest, Item.ok x → 2 * (enc x).length + 1 ≤ fuel → dec fuel (enc x ++ rest) = some (x, rest)) ∧
    (∀ xs, Items.ok xs → 2 * (encs xs).length + 2 ≤ fuel → decs fuel (encs xs) = some xs) := by
  induction fuel with
  | zero =>
    refine ⟨?_, ?_⟩
    · intro x rest _ h; have := enc_length_pos x; omega
    · intro xs _ h; omega
  | succ f ih =>
    obtain ⟨ihA, ihB⟩ := ih
    refine ⟨?_, ?_⟩
    · intro x rest hok hf
      cases x with
      | str bs =>
        have hlen : bs.length < 2 ^ 64 := by simpa [Item.ok] using hok
        -- three shapes of bs
        match bs, hlen with
        | [], _ =>
          have : enc (.str []) = [UInt8.ofNat 128] := by
            simp [enc, header]
          rw [this]
          simp [dec, decHeader]
        | [b], _ =>
          by_cases hb : b.toNat < 128
          · have : enc (.str [b]) = [b] := by simp [enc, hb]
            rw [this]
            simp [dec, hb]
          · have : enc (.str [b]) = [UInt8.ofNat 129, b] := by simp [enc, hb, header]
            rw [this]
            simp [dec, decHeader, hb]
        | b :: c :: t, hlen =>
          have henc : enc (.str (b :: c :: t)) = header 128 (b :: c :: t).length ++ (b :: c :: t) := by
            simp [enc]
          obtain ⟨hb, ht, hh, hge, hdec⟩ := decHeader_header_str (b :: c :: t).length ((b :: c :: t) ++ rest) hlen
          rw [henc, hh]
          have hnot : ¬ hb.toNat < 128 := by omega
          simp only [List.cons_append, List.append_assoc]
          rw [dec]
          simp only [hnot, if_false]
          have : ht ++ (b :: c :: (t ++ rest)) = ht ++ ((b :: c :: t) ++ rest) := by simp
          rw [this, hdec]
          simp
      | list xs =>
        obtain ⟨hoks, hlen⟩ : Items.ok xs ∧ (encs xs).length < 2 ^ 64 := by simpa [Item.ok] using hok
        have henc : enc (.list xs) = header 192 (encs xs).length ++ encs xs := by simp [enc]
        obtain ⟨hb, ht, hh, hge, hdec⟩ := decHeader_header_list (encs xs).length (encs xs ++ rest) hlen
        have hhl := header_length_pos 192 (encs xs).length
        have hfuel : 2 * (encs xs).length + 2 ≤ f := by
          rw [henc] at hf; simp at hf; omega
        rw [henc, hh]
        have hnot : ¬ hb.toNat < 128 := by omega
        simp only [List.cons_append, List.append_assoc]
        rw [dec]
        simp only [hnot, if_false, hdec]
        simp [ihB xs hoks hfuel]
    · intro xs hok hf
      cases xs with
      | nil => simp [encs, decs]
      | cons x xs =>
        obtain ⟨hx, hxs⟩ : Item.ok x ∧ Items.ok xs := by simpa [Items.ok] using hok
        have henc : encs (.cons x xs) = enc x ++ encs xs := by simp [encs]
        have hpos := enc_length_pos x
        rw [henc] at hf ⊢
        simp at hf
        have h1 := ihA x (encs xs) hx (by omega)
        have h2 := ihB xs hxs (by omega)
        cases hex : enc x ++ encs xs with
        | nil =>
          have : (enc x ++ encs xs).length = 0 := by rw [hex]; rfl
          rw [List.length_append] at this; omega
        | cons b t =>
          rw [decs]
          rw [← hex, h1]
          simp [h2]

/-- **decode ∘ encode = id** for one item followed by arbitrary bytes -/
theorem dec_enc (x : Item) (rest : Bytes) (fuel : Nat) (hok : Item.ok x)
    (hf : 2 * (enc x).length + 1 ≤ fuel) : dec fuel (enc x ++ rest) = some (x, rest) :=
  (dec_enc_aux fuel).1 x rest hok hf

/-- **C16 round trip**: strict top-level decoding of an encoding returns the value -/
theorem decode_encode (x : Item) (hok : Item.ok x) : decode (enc x) = some x := by
  unfold decode
  have := dec_enc x [] (2 * (enc x).length + 2) hok (by omega)
  simp at this
  rw [this]

/-- joint canonicity statement -/
theorem dec_canon_aux (fuel : Nat) :
    (∀ bs x rest, dec fuel bs = some (x, rest) → bs = enc x ++ rest ∧ Item.ok x) ∧
    (∀ bs xs, decs fuel bs = some xs → bs = encs xs ∧ Items.ok xs) := by
  induction fuel with
  | zero =>
    refine ⟨?_, ?_⟩
    · intro bs x rest h; simp [dec] at h
    · intro bs xs h; simp [decs] at h
  | succ f ih =>
    obtain ⟨ihA, ihB⟩ := ih
    refine ⟨?_, ?_⟩
    · intro bs x rest h
      cases bs with
      | nil => simp [dec] at h
      | cons b r0 =>
        rw [dec] at h
        by_cases hb : b.toNat < 128
        · simp only [hb, if_true, Option.some.injEq, Prod.mk.injEq] at h
          obtain ⟨hx, hr⟩ := h
          subst hx; subst hr
          refine ⟨by simp [enc, hb], by simp [Item.ok]⟩
        · simp only [hb, if_false] at h
          cases hd : decHeader b r0 with
          | none => simp [hd] at h
          | some res =>
            obtain ⟨isList, len, r⟩ := res
            have hsound := decHeader_sound b r0 r isList len (by omega) hd
            rw [hd] at h
            cases isList with
            | false =>
              simp only at h
              by_cases hl : r.length < len
              · simp [hl] at h
              · simp only [hl, if_false] at h
                obtain ⟨hs1, hs2⟩ := hsound
                simp only [Bool.false_eq_true, if_false] at hs1
                have htl : (List.take len r).length = len := by simp; omega
                -- case split on the payload shape
                cases hp : List.take len r with
                | nil =>
                  rw [hp] at h htl
                  simp only [Option.some.injEq, Prod.mk.injEq] at h
                  obtain ⟨hx, hr⟩ := h
                  subst hx; subst hr
                  have hl0 : len = 0 := by simpa using htl.symm
                  subst hl0
                  refine ⟨?_, by simp [Item.ok]⟩
                  rw [hs1]; simp [enc]
                | cons c t =>
                  cases t with
                  | nil =>
                    rw [hp] at h htl
                    have hl1 : len = 1 := by simpa using htl.symm
                    subst hl1
                    by_cases hc : c.toNat < 128
                    · simp [hc] at h
                    · simp only [hc, if_false, Option.some.injEq, Prod.mk.injEq] at h
                      obtain ⟨hx, hr⟩ := h
                      subst hx; subst hr
                      refine ⟨?_, by simp [Item.ok]⟩
                      rw [hs1]
                      have : r = [c] ++ List.drop 1 r := by
                        rw [← hp, List.take_append_drop]
                      simp only [enc, hc, if_false]
                      rw [List.append_assoc, ← this]
                  | cons d t =>
                    rw [hp] at h htl
                    simp only [Option.some.injEq, Prod.mk.injEq] at h
                    obtain ⟨hx, hr⟩ := h
                    subst hx; subst hr
                    have hl2 : (c :: d :: t).length = t.length + 2 := by simp
                    refine ⟨?_, by simp [Item.ok]; omega⟩
                    rw [hs1]
                    have : r = (c :: d :: t) ++ List.drop len r := by
                      rw [← hp, List.take_append_drop]
                    have henc : enc (.str (c :: d :: t)) = header 128 (c :: d :: t).length ++ (c :: d :: t) := by
                      simp [enc]
                    rw [henc, htl, List.append_assoc, ← this]
            | true =>
              simp only at h
              by_cases hl : r.length < len
              · simp [hl] at h
              · simp only [hl, if_false] at h
                obtain ⟨hs1, hs2⟩ := hsound
                simp only [if_true] at hs1
                have htl : (List.take len r).length = len := by simp; omega
                cases hds : decs f (List.take len r) with
                | none => simp [hds] at h
                | some xs =>
                  rw [hds] at h
                  simp only [Option.some.injEq, Prod.mk.injEq] at h
                  obtain ⟨hx, hr⟩ := h
                  subst hx; subst hr
                  obtain ⟨he, hoks⟩ := ihB _ _ hds
                  have hlen' : (encs xs).length = len := by rw [← he]; exact htl
                  refine ⟨?_, by simp [Item.ok, hoks, hlen']; exact hs2⟩
                  rw [hs1]
                  have : r = encs xs ++ List.drop len r := by
                    rw [← he, List.take_append_drop]
                  simp only [enc]
                  rw [hlen', List.append_assoc, ← this]
    · intro bs xs h
      cases bs with
      | nil =>
        rw [decs] at h
        simp only [Option.some.injEq] at h
        subst h
        simp [encs, Items.ok]
      | cons b t =>
        rw [decs] at h
        cases hd : dec f (b :: t) with
        | none => simp [hd] at h
        | some res =>
          obtain ⟨x, rest⟩ := res
          rw [hd] at h
          simp only at h
          cases hds : decs f rest with
          | none => simp [hds] at h
          | some ys =>
            rw [hds] at h
            simp only [Option.some.injEq] at h
            subst h
            obtain ⟨e1, o1⟩ := ihA _ _ _ hd
            obtain ⟨e2, o2⟩ := ihB _ _ hds
            refine ⟨by rw [e1, e2]; simp [encs], by simp [Items.ok, o1, o2]⟩

/-- **C16 canonicity**: whatever the decoder accepts is the canonical encoding of what it
returns (so: no leading zeros, no long form below 56, no wrapped single byte, exact list
payloads), followed by the unread rest -/
theorem dec_canonical (fuel : Nat) (bs : Bytes) (x : Item) (rest : Bytes)
    (h : dec fuel bs = some (x, rest)) : bs = enc x ++ rest :=
  ((dec_canon_aux fuel).1 bs x rest h).1

/-- **C16**: a byte string is accepted by the strict decoder only if it *is* the encoding of
the value it decodes to (no trailing bytes) -/
theorem decode_canonical (bs : Bytes) (x : Item) (h : decode bs = some x) : bs = enc x := by
  unfold decode at h
  split at h
  · rename_i y hd
    simp only [Option.some.injEq] at h
    subst h
    have := dec_canonical _ _ _ _ hd
    simpa using this
  · exact absurd h (by simp)

/-- `decode` is exactly the partial inverse of `enc` on representable items -/
theorem decode_iff (bs : Bytes) (x : Item) : decode bs = some x ↔ (bs = enc x ∧ Item.ok x) := by
  constructor
  · intro h
    refine ⟨decode_canonical bs x h, ?_⟩
    unfold decode at h
    split at h
    · rename_i y hd
      simp only [Option.some.injEq] at h
      subst h
      exact ((dec_canon_aux _).1 _ _ _ hd).2
    · exact absurd h (by simp)
  · rintro ⟨rfl, hok⟩
    exact decode_encode x hok

/-- encoding is injective on representable items -/
theorem enc_injective (x y : Item) (hx : Item.ok x) (hy : Item.ok y) (h : enc x = enc y) : x = y := by
  have h1 := decode_encode x hx
  have h2 := decode_encode y hy
  rw [h] at h1
  rw [h1] at h2
  exact Option.some.inj h2

/-- encodings are prefix-free: an encoding followed by anything decodes to the same item,
so no encoding is a proper prefix of another -/
theorem enc_prefix_free (x y : Item) (r s : Bytes) (hx : Item.ok x) (hy : Item.ok y)
    (h : enc x ++ r = enc y ++ s) : x = y ∧ r = s := by
  let fuel := 2 * (enc x).length + 2 * (enc y).length + 1
  have h1 := dec_enc x r fuel hx (by omega)
  have h2 := dec_enc y s fuel hy (by omega)
  rw [h, h2] at h1
  simp only [Option.some.injEq, Prod.mk.injEq] at h1
  exact ⟨h1.1.symm, h1.2.symm⟩

/-- **size sanity**: the decoder only ever returns data that was present in the input, so the
size of everything it builds is bounded by the input length (no allocation the input does not
justify) -/
theorem dec_size_bounded (fuel : Nat) (bs : Bytes) (x : Item) (rest : Bytes)
    (h : dec fuel bs = some (x, rest)) : (enc x).length + rest.length = bs.length := by
  have := dec_canonical fuel bs x rest h
  rw [this]; simp

/-- the fuel used by `decode` is always enough: if any amount of fuel decodes the input, then
`decode` does -/
theorem decode_complete (fuel : Nat) (bs : Bytes) (x : Item) (h : dec fuel bs = some (x, [])) :
    decode bs = some x := by
  obtain ⟨he, hok⟩ := (dec_canon_aux fuel).1 bs x [] h
  have : bs = enc x := by simpa using he
  rw [this]
  exact decode_encode x hok

/-! ## integers -/

theorem itemToNat_str_beBytes (n : Nat) : itemToNat (.str (beBytes n)) = some n := by
  simp [itemToNat, beBytes_head_ne_zero, beVal_beBytes]

/-- integer round trip for every `n < 2^(2^64 * 8)` — in particular every `uint64` and every
`*big.Int` the Go code can hold -/
theorem decNat_encNat (n : Nat) (h : (beBytes n).length < 2 ^ 64) : decNat (encNat n) = some n := by
  unfold decNat encNat
  rw [decode_encode _ (by simpa [Item.ok] using h)]
  simp [itemToNat_str_beBytes]

/-- canonical integers: an accepted integer encoding is the encoding of its value (no
leading zeros accepted) -/
theorem decNat_canonical (bs : Bytes) (n : Nat) (h : decNat bs = some n) : bs = encNat n := by
  unfold decNat at h
  cases hd : decode bs with
  | none => simp [hd] at h
  | some x =>
    rw [hd] at h
    simp only [Option.bind_some] at h
    have hb := decode_canonical bs x hd
    cases x with
    | list xs => simp [itemToNat] at h
    | str s =>
      by_cases hh : s.head? = some 0
      · simp [itemToNat, hh] at h
      · simp only [itemToNat, hh, if_false, Option.some.injEq] at h
        subst h
        rw [hb, encNat, beBytes_beVal s hh]

/-! ## non-vacuity -/

example : Item.ok (.list (.cons (.str [1]) (.cons (.str [97, 98, 99]) .nil))) := by
  simp [Item.ok, Items.ok, encs, enc, header]

example : decode (enc (.list (.cons (.str [1]) (.cons (.str [200]) .nil)))) =
    some (.list (.cons (.str [1]) (.cons (.str [200]) .nil))) :=
  decode_encode _ (by simp [Item.ok, Items.ok, encs, enc, header])

/-- a non-canonical input (single byte wrapped as a string) is rejected -/
example : decode [0x81, 0x05] = none := by decide

/-- long form used for a short payload is rejected -/
example : decode [0xb8, 0x01, 0x99] = none := by decide

end KV.Rlp
