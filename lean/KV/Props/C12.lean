import KV.Proofs.ValSetStep
import KV.Proofs.ValSetUpdateMain
import KV.Proofs.ValSetPath
/-!
# C12 — Proposer rotation is the specified fair round-robin; set updates are well-formed

Model: `KV/Model/ValSet.lean` (transcription of `types/validator_set.go` with explicit `int64`
behaviour) and `KV.ValSet.Spec` (the proposer-selection specification over unbounded integers).
All theorems are for every validator list of any length and every number of rounds; side
conditions are range conditions on `int64` values and are stated explicitly.
-/
namespace KV.ValSet
open KV.I64

/-! ## (1) centring -/

/-- **centred**: after `shiftByAvgProposerPriority` the priority sum lies in `[0, n)`
(priorities in `[-B, B]` with `2B < 2^63`, so that the clipping subtraction is exact). -/
theorem centred (B : Int) (l : List Validator) (hne : l ≠ []) (h : PrioBound B l)
    (hB : 2 * B ≤ maxI64) :
    0 ≤ sumPrio (shiftList l) ∧ sumPrio (shiftList l) < l.length := by
  rw [shiftList_eq_spec B l hne h hB]; exact Spec.centre_sum l hne

/-- the specification's centring, unconditionally -/
theorem spec_centred (l : List Validator) (hne : l ≠ []) :
    0 ≤ sumPrio (Spec.centre l) ∧ sumPrio (Spec.centre l) < l.length := Spec.centre_sum l hne

/-- centring in the model is the specification's centring (no clipping) -/
theorem rescale_centre_no_overflow_centre (B : Int) (l : List Validator) (hne : l ≠ [])
    (h : PrioBound B l) (hB : 2 * B ≤ maxI64) : shiftList l = Spec.centre l :=
  shiftList_eq_spec B l hne h hB

/-! ## (2) window -/

/-- `computeMaxMinPriorityDiff` is `max − min` and non-negative on every non-empty set whose
spread is an `int64` (with the code as found before the fix it was 1 for every set). -/
theorem maxMinDiff_is_max_minus_min (l : List Validator) (hne : l ≠ [])
    (hr : ∀ v ∈ l, InRange v.prio) (hfit : maxPrio l - minPrio l ≤ maxI64) :
    maxMinDiff l = maxPrio l - minPrio l ∧ 0 ≤ maxMinDiff l ∧
    (∀ v ∈ l, minPrio l ≤ v.prio ∧ v.prio ≤ maxPrio l) ∧
    (∃ v ∈ l, v.prio = maxPrio l) ∧ (∃ v ∈ l, v.prio = minPrio l) :=
  ⟨(maxMinDiff_eq l hne hr hfit).1, (maxMinDiff_eq l hne hr hfit).2,
   fun v hv => ⟨minPrio_le l v hv, maxPrio_ge l v hv⟩, maxPrio_mem l hne hr, minPrio_mem l hne hr⟩

/-- **window**: after `RescalePriorities(D)` any two priorities differ by at most `D`
(`D = 2·T` in both callers).  Side conditions: `0 < D`, the spread plus `D` fits `int64`. -/
theorem window (D : Int) (l : List Validator) (h : RescaleOK D l) :
    ∀ v ∈ rescaleList D l, ∀ w ∈ rescaleList D l, v.prio - w.prio ≤ D :=
  rescaleList_window D l h

/-- under the same side conditions Go's division by the ratio cannot be a division by zero -/
theorem rescale_no_panic (D : Int) (l : List Validator) (h : RescaleOK D l) :
    rescalePanics D l = false := by
  obtain ⟨er, hnn⟩ := rescaleRatio_eq D l h
  obtain ⟨hne, hr, hD, hD2, hfit⟩ := h
  obtain ⟨e, h0⟩ := maxMinDiff_eq l hne hr (by omega)
  unfold rescalePanics
  by_cases hd : maxMinDiff l > D
  · have hd' := hd
    rw [e] at hd'
    obtain ⟨c1, _, _⟩ := ceil_ratio (maxPrio l - minPrio l) D hD hd'
    have : rescaleRatio D l ≠ 0 := by rw [er]; omega
    simp [this]
  · simp [hd]

/-! ## (3) the proposer -/

/-- **proposer_is_argmax**: the validator returned by one round has, after everybody gained its
power, a priority that is maximal; among equal priorities it has the smallest address. -/
theorem proposer_is_argmax (T : Int) (l : List Validator) (hne : l ≠ []) :
    ∃ m, m ∈ (l.map fun v => { v with prio := I64.add v.prio v.power }) ∧
      (stepList T l).2 = some m.addr ∧
      ∀ v ∈ (l.map fun v => { v with prio := I64.add v.prio v.power }), Dominates m v := by
  have hne' : (l.map fun v => ({ v with prio := I64.add v.prio v.power } : Validator)) ≠ [] := by
    simpa using hne
  obtain ⟨m, hm, hmem, hall⟩ := mostest_spec _ hne'
  refine ⟨m, hmem, ?_, hall⟩
  unfold stepList
  simp only [hm]

/-- the arg-max is unique: two members that both dominate everybody have the same address -/
theorem argmax_unique (l : List Validator) (m m' : Validator) (hm : m ∈ l) (hm' : m' ∈ l)
    (h : ∀ v ∈ l, Dominates m v) (h' : ∀ v ∈ l, Dominates m' v) : m.addr = m'.addr :=
  (dominates_unique l m m' hm hm' h h').1

/-- **proposer_pays_total** (specification): one round adds its power to everybody and
subtracts exactly `T` from the proposer (and only from validators with the proposer's address). -/
theorem spec_proposer_pays_total (T : Int) (l : List Validator) (a : Nat)
    (h : (Spec.step T l).2 = some a) :
    (Spec.step T l).1 = l.map fun v =>
      if v.addr = a then { v with prio := v.prio + v.power - T } else { v with prio := v.prio + v.power } :=
  Spec.step_closed_form T l a h

/-- **proposer_pays_total** (model): under the range condition of one round (no clipping, no
wrap) the real arithmetic debits the proposer by exactly `T`. -/
theorem proposer_pays_total (B T : Int) (l : List Validator) (a : Nat) (hb : PrioBound B l)
    (hp : PowBound T l) (hT : 0 ≤ T) (hfit : B + 2 * T ≤ maxI64) (h : (stepList T l).2 = some a) :
    (stepList T l).1 = l.map fun v =>
      if v.addr = a then { v with prio := v.prio + v.power - T } else { v with prio := v.prio + v.power } := by
  rw [stepList_eq_spec B T l hb hp hT hfit] at h ⊢
  exact Spec.step_closed_form T l a h

/-! ## (4) no overflow: the model is the specification -/

/-- **increment_no_overflow** (one round): priorities in `[-B, B]`, powers in `[0, T]`,
`B + 2T < 2^63` ⇒ the round of the code is the round of the specification. -/
theorem increment_no_overflow (B T : Int) (l : List Validator) (hb : PrioBound B l)
    (hp : PowBound T l) (hT : 0 ≤ T) (hfit : B + 2 * T ≤ maxI64) :
    stepList T l = Spec.step T l := stepList_eq_spec B T l hb hp hT hfit

/-- `k` rounds, for every `k`: the model equals the specification as long as `B + (k+1)·T`
fits `int64` (the bound grows with `k`; see `ModelRefinesSpecStatement` for the `k`-independent
form). -/
theorem rounds_refine_spec_partial (T : Int) (hT : 0 ≤ T) (k : Nat) (B : Int) (l : List Validator)
    (p : Option Nat) (hb : PrioBound B l) (hp : PowBound T l)
    (hfit : B + ((k : Int) + 1) * T ≤ maxI64) : stepsList T k l p = Spec.steps T k l p :=
  stepsList_eq_spec T hT k B l p hb hp hfit

/-! ## (6) accounting and proportional share (static set, specification rounds) -/

/-- **accounting** (closed form): after `k` rounds of a static non-empty set every validator's
priority is `prio₀ + k·power − T·turns`, where `turns` counts how often its address proposed. -/
theorem accounting (T : Int) (k : Nat) (l : List Validator) (p : Option Nat) (hne : l ≠ []) :
    (Spec.steps T k l p).1 = l.map fun v =>
      { v with prio := v.prio + (k : Int) * v.power - T * ((Spec.run T k l).count v.addr : Int) } :=
  Spec.steps_closed_form T k l p hne

/-- **accounting identity**: `T · turns_i = k · power_i − (prio_i(k) − prio_i(0))` for every
validator `v` of the set (its image `v'` after `k` rounds has the same address and power). -/
theorem accounting_identity (T : Int) (k : Nat) (l : List Validator) (p : Option Nat) (hne : l ≠ [])
    (v : Validator) (hv : v ∈ l) :
    ∃ v', v' ∈ (Spec.steps T k l p).1 ∧ v'.addr = v.addr ∧ v'.power = v.power ∧
      T * ((Spec.run T k l).count v.addr : Int) = (k : Int) * v.power - (v'.prio - v.prio) := by
  rw [accounting T k l p hne]
  refine ⟨_, List.mem_map.mpr ⟨v, hv, rfl⟩, rfl, rfl, ?_⟩
  simp only; omega

/-- **proportional share**: the deviation of a validator's turn count from its share
`k·power/T` is exactly its priority drift divided by `T`; hence while the priorities stay within
a band of width `W` (the window), `|T·turns − k·power| ≤ W` for **every** `k`. -/
theorem fair_share (T W : Int) (k : Nat) (l : List Validator) (p : Option Nat) (hne : l ≠ [])
    (v : Validator) (hv : v ∈ l)
    (hband : ∀ v' ∈ (Spec.steps T k l p).1, v'.addr = v.addr → v'.power = v.power →
      -W ≤ v'.prio - v.prio ∧ v'.prio - v.prio ≤ W) :
    -W ≤ T * ((Spec.run T k l).count v.addr : Int) - (k : Int) * v.power ∧
    T * ((Spec.run T k l).count v.addr : Int) - (k : Int) * v.power ≤ W := by
  obtain ⟨v', hm, ha, hp, hid⟩ := accounting_identity T k l p hne v hv
  have := hband v' hm ha hp
  omega

/-- a validator that has not proposed during `k` rounds has gained exactly `k · power` -/
theorem no_turn_gains_all (T : Int) (k : Nat) (l : List Validator) (p : Option Nat) (hne : l ≠ [])
    (v : Validator) (hv : v ∈ l) (h0 : (Spec.run T k l).count v.addr = 0) :
    ∃ v', v' ∈ (Spec.steps T k l p).1 ∧ v'.addr = v.addr ∧ v'.prio = v.prio + (k : Int) * v.power := by
  obtain ⟨v', hm, ha, _, hid⟩ := accounting_identity T k l p hne v hv
  refine ⟨v', hm, ha, ?_⟩
  rw [h0] at hid; simp at hid; omega

/-! ## (5) updates -/

/-- **update_atomic**: `updateWithChangeSet` either fails (the caller keeps the old set: the
function is pure and the driver/harness compare the untouched old value) or returns a set whose
proposer is the old proposer; an empty change list is the identity. -/
theorem update_atomic (vs : ValSet) (cs : List Validator) (d : Bool) :
    (∃ e, updateWithChangeSet vs cs d = .error e) ∨
    (∃ vs', updateWithChangeSet vs cs d = .ok vs' ∧ vs'.proposer = vs.proposer ∧ (cs = [] → vs' = vs)) := by
  cases h : updateWithChangeSet vs cs d with
  | error e => exact Or.inl ⟨e, rfl⟩
  | ok vs' =>
    refine Or.inr ⟨vs', rfl, ?_, ?_⟩
    · simp only [updateWithChangeSet] at h
      repeat' split at h
      all_goals first
        | (injection h with h; rw [← h])
        | (injection h)
    · intro hc; subst hc
      simp [updateWithChangeSet] at h; exact h.symm

/-! ## statements not (yet) proved: kept at full strength -/

/-- well-formed set: distinct addresses, positive powers, total = sum ≤ cap -/
def WF (vs : ValSet) : Prop :=
  (vs.vals.map (·.addr)).Nodup ∧ (∀ v ∈ vs.vals, 0 < v.power) ∧
  vs.total = Spec.total vs.vals ∧ vs.total ≤ cap

/-- `model_refines_spec`, `k`-independent form: from a well-formed set whose priorities are in
`[-B, B]` and `2·n·max(B, T) + n + 2T < 2^62`, `IncrementProposerPriority(k)` equals
`Spec.increment k` for **every** `k` (needs the invariants "the sum is constant" and "no priority
falls below `min(prio₀, -T)`", hence the `n`-dependent upper bound).  Proved so far: each
component (`rescale_centre_no_overflow_centre`, `window`/`rescale_no_panic`,
`increment_no_overflow`, `rounds_refine_spec_partial` with a `k`-dependent bound). -/
def ModelRefinesSpecStatement : Prop :=
  ∀ (vs : ValSet) (k : Nat) (B : Int), WF vs → vs.vals ≠ [] → 0 < k → PrioBound B vs.vals →
    2 * (vs.vals.length : Int) * (max B vs.total) + vs.vals.length + 2 * vs.total < 2 ^ 62 →
    increment vs k = .ok { vals := (Spec.increment vs.vals k).1, proposer := (Spec.increment vs.vals k).2,
                           total := vs.total }

/-- `update_rejects_iff`: on a well-formed set an update with deletions allowed fails iff the
change list has a duplicate address, the zero address (code quirk), a negative power, a power
above the cap, a removal of a non-member, would empty the set, or would push the total above the
cap.  Tested exhaustively by the harness oracle (`update-rejection-rule`), not proved. -/
def UpdateRejectsIffStatement : Prop :=
  ∀ (vs : ValSet) (cs : List Validator), WF vs → cs ≠ [] →
    ((∃ e, updateWithChangeSet vs cs true = .error e) ↔
      (¬ (cs.map (·.addr)).Nodup ∨ (∃ c ∈ cs, c.addr = 0) ∨ (∃ c ∈ cs, c.power < 0) ∨ (∃ c ∈ cs, c.power > cap) ∨
       (∃ c ∈ cs, c.power = 0 ∧ findVal vs.vals c.addr = none) ∨
       (∀ v ∈ vs.vals, ∃ c ∈ cs, c.addr = v.addr ∧ c.power = 0) ∧ (∀ c ∈ cs, c.power = 0) ∨
       cap < Spec.total (vs.vals.filter fun v => (findVal cs v.addr).isNone) + Spec.total cs))

/-- `update_perm`: the result depends on the change list only up to permutation. -/
def UpdatePermStatement : Prop :=
  ∀ (vs : ValSet) (cs cs' : List Validator), cs.Perm cs' →
    (∀ vs', updateWithChangeSet vs cs true = .ok vs' → updateWithChangeSet vs cs' true = .ok vs') ∧
    ((∃ e, updateWithChangeSet vs cs true = .error e) → ∃ e, updateWithChangeSet vs cs' true = .error e)

/-- `update_result`: membership and powers of the result are old ⊕ changes. -/
def UpdateResultStatement : Prop :=
  ∀ (vs vs' : ValSet) (cs : List Validator), WF vs → updateWithChangeSet vs cs true = .ok vs' → cs ≠ [] →
    WF vs' ∧ ∀ a p, (∃ v ∈ vs'.vals, v.addr = a ∧ v.power = p) ↔
      ((∃ c ∈ cs, c.addr = a ∧ c.power = p ∧ 0 < p) ∨
       ((∃ v ∈ vs.vals, v.addr = a ∧ v.power = p) ∧ findVal cs a = none))

/-- `no_starvation`: from a centred state inside the window `2T` (what an update leaves), a
validator of an `n`-element set proposes within `(2·n·T + n) / power + 1` rounds.  Follows from
`no_turn_gains_all` plus the a-priori bounds "no priority falls below `-2T`" and "the sum is
constant" (not proved); checked by the harness oracle `starved-after-change`. -/
def NoStarvationStatement : Prop :=
  ∀ (l : List Validator) (v : Validator) (k : Nat), (l.map (·.addr)).Nodup → v ∈ l → (∀ w ∈ l, 0 < w.power) →
    (0 ≤ sumPrio l ∧ sumPrio l < l.length) → (∀ a ∈ l, ∀ b ∈ l, a.prio - b.prio ≤ 2 * Spec.total l) →
    (Spec.run (Spec.total l) k l).count v.addr = 0 →
    (k : Int) * v.power ≤ 2 * (l.length : Int) * Spec.total l + l.length

def v (a : Nat) (p q : Int) : Validator := { addr := a, power := p, prio := q }
def okOf {α} : Except Err α → Option α | .ok x => some x | .error _ => none
def errOf {α} : Except Err α → Option Err | .ok _ => none | .error e => some e

/-! ## (5b) the rejection rule (verification phase) -/

/-- what `processChanges` accepts, spelled out -/
theorem validChanges_iff (cs : List Validator) :
    ¬ ValidChanges cs ↔
      (¬ (cs.map (·.addr)).Nodup ∨ (∃ c ∈ cs, c.addr = 0) ∨ (∃ c ∈ cs, c.power < 0) ∨ (∃ c ∈ cs, c.power > cap)) := by
  unfold ValidChanges PowOK
  constructor
  · intro h
    apply Classical.byContradiction
    intro hc
    apply h
    refine ⟨Classical.byContradiction fun h1 => hc (Or.inl h1), ?_, ?_⟩
    · intro c hcm e; exact hc (Or.inr (Or.inl ⟨c, hcm, e⟩))
    · intro c hcm
      constructor
      · apply Classical.byContradiction; intro h1
        exact hc (Or.inr (Or.inr (Or.inl ⟨c, hcm, by omega⟩)))
      · apply Classical.byContradiction; intro h1
        exact hc (Or.inr (Or.inr (Or.inr ⟨c, hcm, by omega⟩)))
  · rintro (h | ⟨c, hc, e⟩ | ⟨c, hc, e⟩ | ⟨c, hc, e⟩) ⟨h1, h2, h3⟩
    · exact h h1
    · exact h2 c hc e
    · have := (h3 c hc).1; omega
    · have := (h3 c hc).2; omega

/-- **update_rejects_iff** (verification part, proved): on a well-formed set a non-empty change
list is rejected by a verification step — i.e. with an error other than the internal-consistency
panic of the application phase (`updateTotalVotingPower` above the cap, empty result, division by
zero in the rescale; see `UpdateNeverPanicsStatement`) — **iff** it has a duplicate address, the
zero address (code quirk), a negative power, a power above the cap, removes a non-member, would
empty the set, or would push the total above the cap.  This includes the `int64` argument for
`verifyUpdates`: with the deltas applied in ascending order no intermediate sum leaves `int64`
and the scan fails exactly when the final total exceeds the cap. -/
theorem update_rejects_iff_partial (vs : ValSet) (cs : List Validator) (hwf : WF vs) (hne : cs ≠ []) :
    ((∃ e, e ≠ .panic ∧ updateWithChangeSet vs cs true = .error e) ↔
      (¬ (cs.map (·.addr)).Nodup ∨ (∃ c ∈ cs, c.addr = 0) ∨ (∃ c ∈ cs, c.power < 0) ∨ (∃ c ∈ cs, c.power > cap) ∨
       (∃ c ∈ cs, c.power = 0 ∧ findVal vs.vals c.addr = none) ∨
       (∀ v ∈ vs.vals, ∃ c ∈ cs, c.addr = v.addr ∧ c.power = 0) ∧ (∀ c ∈ cs, c.power = 0) ∨
       cap < Spec.total (vs.vals.filter fun v => (findVal cs v.addr).isNone) + Spec.total cs)) := by
  obtain ⟨hn, hpos, htot, hcap⟩ := hwf
  rw [update_rejects_iff_core vs cs hne hn hpos htot hcap, validChanges_iff]
  show _ ↔ (_ ∨ _ ∨ _ ∨ _ ∨ _ ∨ EmptiesSet vs.vals cs ∨ cap < newTotal vs.vals cs)
  constructor
  · rintro ((h | h | h | h) | h | h | h)
    · exact Or.inl h
    · exact Or.inr (Or.inl h)
    · exact Or.inr (Or.inr (Or.inl h))
    · exact Or.inr (Or.inr (Or.inr (Or.inl h)))
    · exact Or.inr (Or.inr (Or.inr (Or.inr (Or.inl h))))
    · exact Or.inr (Or.inr (Or.inr (Or.inr (Or.inr (Or.inl h)))))
    · exact Or.inr (Or.inr (Or.inr (Or.inr (Or.inr (Or.inr h)))))
  · rintro (h | h | h | h | h | h | h)
    · exact Or.inl (Or.inl h)
    · exact Or.inl (Or.inr (Or.inl h))
    · exact Or.inl (Or.inr (Or.inr (Or.inl h)))
    · exact Or.inl (Or.inr (Or.inr (Or.inr h)))
    · exact Or.inr (Or.inl h)
    · exact Or.inr (Or.inr (Or.inl h))
    · exact Or.inr (Or.inr (Or.inr h))

/-- the error class of each rejection (same hypotheses): `unknown` for a removed non-member,
`overflow` when the resulting total exceeds the cap, else `empty` when the set would be emptied;
otherwise the update proceeds to the application phase `updateTail`. -/
theorem update_verification_phase (vs : ValSet) (cs : List Validator) (hwf : WF vs) (hne : cs ≠ [])
    (hvalid : ValidChanges cs) (hknown : ∀ c ∈ cs, c.power = 0 → findVal vs.vals c.addr ≠ none) :
    updateWithChangeSet vs cs true =
      if cap < newTotal vs.vals cs then .error .overflow
      else if numNew (updatesOf (isort leAddr cs)) vs.vals = 0 &&
          vs.vals.length = (deletesOf (isort leAddr cs)).length then .error .empty
      else updateTail vs (updatesOf (isort leAddr cs)) (deletesOf (isort leAddr cs))
        (newTotal vs.vals cs + sumBy (fun c => oldPow vs.vals c.addr) (deletesOf (isort leAddr cs))) :=
  update_verified vs cs hne hwf.1 hwf.2.1 hwf.2.2.1 hwf.2.2.2 hvalid hknown

/-- what is missing for the full `UpdateRejectsIffStatement`: after a successful verification the
application phase never takes one of its panic branches (needs the characterisation of the merge
`applyUpdates`/`applyRemovals`, i.e. the core of `UpdateResultStatement`). -/
def UpdateNeverPanicsStatement : Prop :=
  ∀ (vs : ValSet) (cs : List Validator), WF vs → updateWithChangeSet vs cs true ≠ .error .panic

/-! ## (7) round-by-round = round-skipping -/

/-- **proposer_path_independent**: `k ≥ 1` successive `IncrementProposerPriority(1)` produce exactly
the validator set — all priorities, the proposer, the total — of one
`IncrementProposerPriority(k)`, provided that (`PathCtx`, all about the list `l0` obtained from the
set by the first normalisation) addresses are distinct, `T = Σ power > 0`, priorities are in
`[-B, B]` with `B + (k+1)·T < 2^63`, `l0` is centred (always true: `centred`), and **no
intermediate call rescales**: `maxMinDiff ≤ 2T` for the states after `1, …, k−1` rounds.
This is what lets a node that enters round `r` directly
(`IncrementProposerPriority(r − cs.Round)`) agree with nodes that went through every round. -/
theorem proposer_path_independent (vs : ValSet) (k : Nat) (B : Int) (hk : 1 ≤ k) (hne : vs.vals ≠ [])
    (hpanic : rescalePanics (I64.mul windowFactor vs.total) vs.vals = false)
    (h : PathCtx vs.total (I64.mul windowFactor vs.total) B k
      (shiftList (rescaleList (I64.mul windowFactor vs.total) vs.vals))) :
    iterInc k vs = increment vs (k : Int) :=
  iterInc_eq_increment vs k B hk hne hpanic h

/-- the set on which the hypothesis "no intermediate rescale" fails -/
def pathWitness : ValSet :=
  { vals := [⟨1, 3, 17⟩, ⟨2, 1, -18⟩, ⟨3, 5, 14⟩], proposer := none, total := 9 }

/-- **counterexample without the hypothesis**: powers (3, 1, 5), priorities (17, −18, 14).  After
the first round the priorities are (9, −10, 1): spread 19 > 2T = 18, so the second
`IncrementProposerPriority(1)` rescales (halves) while `IncrementProposerPriority(4)` does not.
Round by round the proposers are 3, 1, 3, **3**; the node that skips to the fourth round computes
proposer **1**. -/
theorem proposer_path_dependent_counterexample :
    (okOf (increment pathWitness 4)).map (·.proposer) = some (some 1) ∧
    (okOf (iterInc 4 pathWitness)).map (·.proposer) = some (some 3) ∧
    (okOf (iterInc 1 pathWitness)).map (fun s => maxMinDiff s.vals) = some 19 := by
  refine ⟨?_, ?_, ?_⟩ <;> decide

/-! ## non-vacuity and the F1 witness -/


/-- the F1 witness history: `{1000, 999}` then both powers become 1 -/
def f1Start : Except Err ValSet := newValidatorSet [v 1 1000 0, v 2 999 0]
def f1After : Except Err ValSet :=
  match f1Start with
  | .ok vs => updateWithChangeSet vs [v 1 1 0, v 2 1 0] true
  | .error e => .error e

example : okOf f1Start = some { vals := [v 1 1000 (-999), v 2 999 999], proposer := some 1, total := 1999 } := by decide
/-- with the fixed `computeMaxMinPriorityDiff` the spread 1998 is rescaled into the window 2T = 4 -/
example : okOf f1After = some { vals := [v 1 1 (-1), v 2 1 1], proposer := some 1, total := 2 } := by decide
example : maxMinDiff [v 1 1000 (-999), v 2 999 999] = 1998 := by decide
example : (Spec.run 2 6 [v 1 1 (-1), v 2 1 1]).count 1 = 3 := by decide
/-- afterwards the two validators alternate (no starvation) -/
example : (match f1After with
    | .ok vs => (Spec.run 2 6 vs.vals)
    | .error _ => []) = [2, 1, 2, 1, 2, 1] := by decide

/-- the hypotheses of `window`, `centred`, `increment_no_overflow` are satisfiable -/
example : RescaleOK 4 [v 1 1 (-999), v 2 1 999] :=
  ⟨by decide, by intro x hx; simp [v] at hx; rcases hx with rfl | rfl <;> decide, by decide, by decide, by decide⟩
example : PrioBound 1000 [v 1 1 (-999), v 2 1 999] := by
  intro x hx; simp [v] at hx; rcases hx with rfl | rfl <;> decide
example : PowBound 2 [v 1 1 (-999), v 2 1 999] := by
  intro x hx; simp [v] at hx; rcases hx with rfl | rfl <;> decide
example : rescaleList 4 [v 1 1 (-999), v 2 1 999] = [v 1 1 (-1), v 2 1 1] := by decide
/-- clipping is really modelled: a debit below MinInt64 clips -/
example : safeSubClip minI64 1 = minI64 := by decide
example : safeAddClip maxI64 1 = maxI64 := by decide
/-- rejection classes of the model -/
example : errOf (updateWithChangeSet emptySet [v 1 5 0, v 1 6 0] true) = some .dup := by decide
example : errOf (updateWithChangeSet emptySet [v 1 (-5) 0] true) = some .neg := by decide
example : errOf (updateWithChangeSet emptySet [v 1 (cap + 1) 0] true) = some .cap := by decide
example : errOf (updateWithChangeSet emptySet [v 1 0 0] true) = some .unknown := by decide
example : errOf (updateWithChangeSet emptySet [v 1 cap 0, v 2 1 0] true) = some .overflow := by decide
example : errOf (updateWithChangeSet emptySet [v 1 0 0] false) = some .zeroPower := by decide

end KV.ValSet
