import KV.Proofs.ValSetStep
import KV.Proofs.ValSetUpdateMain
import KV.Proofs.ValSetPath
import KV.Proofs.ValSetRefine
import KV.Proofs.ValSetResult
/-!
# C12 — Proposer rotation is the specified fair round-robin; set updates are well-formed

Model: `KV/Model/ValSet.lean` (transcription of `types/validator_set.go` with explicit `int64`
behaviour) and `KV.ValSet.Spec` (the proposer-selection specification over unbounded integers).
All theorems are for every validator list of any length and every number of rounds; side
conditions are range conditions on `int64` values and are stated explicitly.
-/
namespace KV.ValSet
open KV.I64

/-! ## (1) centring -/

/-- **centred**: after `shiftByAvgProposerPriority` the priority sum lies in `[0, n)`
(priorities in `[-B, B]` with `2B < 2^63`, so that the clipping subtraction is exact). -/
theorem centred (B : Int) (l : List Validator) (hne : l ≠ []) (h : PrioBound B l)
    (hB : 2 * B ≤ maxI64) :
    0 ≤ sumPrio (shiftList l) ∧ sumPrio (shiftList l) < l.length := by
  rw [shiftList_eq_spec B l hne h hB]; exact Spec.centre_sum l hne

/-- the specification's centring, unconditionally -/
theorem spec_centred (l : List Validator) (hne : l ≠ []) :
    0 ≤ sumPrio (Spec.centre l) ∧ sumPrio (Spec.centre l) < l.length := Spec.centre_sum l hne

/-- centring in the model is the specification's centring (no clipping) -/
theorem rescale_centre_no_overflow_centre (B : Int) (l : List Validator) (hne : l ≠ [])
    (h : PrioBound B l) (hB : 2 * B ≤ maxI64) : shiftList l = Spec.centre l :=
  shiftList_eq_spec B l hne h hB

/-! ## (2) window -/

/-- `computeMaxMinPriorityDiff` is `max − min` and non-negative on every non-empty set whose
spread is an `int64` (with the code as found before the fix it was 1 for every set). -/
theorem maxMinDiff_is_max_minus_min (l : List Validator) (hne : l ≠ [])
    (hr : ∀ v ∈ l, InRange v.prio) (hfit : maxPrio l - minPrio l ≤ maxI64) :
    maxMinDiff l = maxPrio l - minPrio l ∧ 0 ≤ maxMinDiff l ∧
    (∀ v ∈ l, minPrio l ≤ v.prio ∧ v.prio ≤ maxPrio l) ∧
    (∃ v ∈ l, v.prio = maxPrio l) ∧ (∃ v ∈ l, v.prio = minPrio l) :=
  ⟨(maxMinDiff_eq l hne hr hfit).1, (maxMinDiff_eq l hne hr hfit).2,
   fun v hv => ⟨minPrio_le l v hv, maxPrio_ge l v hv⟩, maxPrio_mem l hne hr, minPrio_mem l hne hr⟩

/-- **window**: after `RescalePriorities(D)` any two priorities differ by at most `D`
(`D = 2·T` in both callers).  Side conditions: `0 < D`, the spread plus `D` fits `int64`. -/
theorem window (D : Int) (l : List Validator) (h : RescaleOK D l) :
    ∀ v ∈ rescaleList D l, ∀ w ∈ rescaleList D l, v.prio - w.prio ≤ D :=
  rescaleList_window D l h

/-- under the same side conditions Go's division by the ratio cannot be a division by zero -/
theorem rescale_no_panic (D : Int) (l : List Validator) (h : RescaleOK D l) :
    rescalePanics D l = false := by
  obtain ⟨er, hnn⟩ := rescaleRatio_eq D l h
  obtain ⟨hne, hr, hD, hD2, hfit⟩ := h
  obtain ⟨e, h0⟩ := maxMinDiff_eq l hne hr (by omega)
  unfold rescalePanics
  by_cases hd : maxMinDiff l > D
  · have hd' := hd
    rw [e] at hd'
    obtain ⟨c1, _, _⟩ := ceil_ratio (maxPrio l - minPrio l) D hD hd'
    have : rescaleRatio D l ≠ 0 := by rw [er]; omega
    simp [this]
  · simp [hd]

/-! ## (3) the proposer -/

/-- **proposer_is_argmax**: the validator returned by one round has, after everybody gained its
power, a priority that is maximal; among equal priorities it has the smallest address. -/
theorem proposer_is_argmax (T : Int) (l : List Validator) (hne : l ≠ []) :
    ∃ m, m ∈ (l.map fun v => { v with prio := I64.add v.prio v.power }) ∧
      (stepList T l).2 = some m.addr ∧
      ∀ v ∈ (l.map fun v => { v with prio := I64.add v.prio v.power }), Dominates m v := by
  have hne' : (l.map fun v => ({ v with prio := I64.add v.prio v.power } : Validator)) ≠ [] := by
    simpa using hne
  obtain ⟨m, hm, hmem, hall⟩ := mostest_spec _ hne'
  refine ⟨m, hmem, ?_, hall⟩
  unfold stepList
  simp only [hm]

/-- the arg-max is unique: two members that both dominate everybody have the same address -/
theorem argmax_unique (l : List Validator) (m m' : Validator) (hm : m ∈ l) (hm' : m' ∈ l)
    (h : ∀ v ∈ l, Dominates m v) (h' : ∀ v ∈ l, Dominates m' v) : m.addr = m'.addr :=
  (dominates_unique l m m' hm hm' h h').1

/-- **proposer_pays_total** (specification): one round adds its power to everybody and
subtracts exactly `T` from the proposer (and only from validators with the proposer's address). -/
theorem spec_proposer_pays_total (T : Int) (l : List Validator) (a : Nat)
    (h : (Spec.step T l).2 = some a) :
    (Spec.step T l).1 = l.map fun v =>
      if v.addr = a then { v with prio := v.prio + v.power - T } else { v with prio := v.prio + v.power } :=
  Spec.step_closed_form T l a h

/-- **proposer_pays_total** (model): under the range condition of one round (no clipping, no
wrap) the real arithmetic debits the proposer by exactly `T`. -/
theorem proposer_pays_total (B T : Int) (l : List Validator) (a : Nat) (hb : PrioBound B l)
    (hp : PowBound T l) (hT : 0 ≤ T) (hfit : B + 2 * T ≤ maxI64) (h : (stepList T l).2 = some a) :
    (stepList T l).1 = l.map fun v =>
      if v.addr = a then { v with prio := v.prio + v.power - T } else { v with prio := v.prio + v.power } := by
  rw [stepList_eq_spec B T l hb hp hT hfit] at h ⊢
  exact Spec.step_closed_form T l a h

/-! ## (4) no overflow: the model is the specification -/

/-- **increment_no_overflow** (one round): priorities in `[-B, B]`, powers in `[0, T]`,
`B + 2T < 2^63` ⇒ the round of the code is the round of the specification. -/
theorem increment_no_overflow (B T : Int) (l : List Validator) (hb : PrioBound B l)
    (hp : PowBound T l) (hT : 0 ≤ T) (hfit : B + 2 * T ≤ maxI64) :
    stepList T l = Spec.step T l := stepList_eq_spec B T l hb hp hT hfit

/-- `k` rounds, for every `k`: the model equals the specification as long as `B + (k+1)·T`
fits `int64` (the bound grows with `k`; see `ModelRefinesSpecStatement` for the `k`-independent
form). -/
theorem rounds_refine_spec_partial (T : Int) (hT : 0 ≤ T) (k : Nat) (B : Int) (l : List Validator)
    (p : Option Nat) (hb : PrioBound B l) (hp : PowBound T l)
    (hfit : B + ((k : Int) + 1) * T ≤ maxI64) : stepsList T k l p = Spec.steps T k l p :=
  stepsList_eq_spec T hT k B l p hb hp hfit

/-! ## (6) accounting and proportional share (static set, specification rounds) -/

/-- **accounting** (closed form): after `k` rounds of a static non-empty set every validator's
priority is `prio₀ + k·power − T·turns`, where `turns` counts how often its address proposed. -/
theorem accounting (T : Int) (k : Nat) (l : List Validator) (p : Option Nat) (hne : l ≠ []) :
    (Spec.steps T k l p).1 = l.map fun v =>
      { v with prio := v.prio + (k : Int) * v.power - T * ((Spec.run T k l).count v.addr : Int) } :=
  Spec.steps_closed_form T k l p hne

/-- **accounting identity**: `T · turns_i = k · power_i − (prio_i(k) − prio_i(0))` for every
validator `v` of the set (its image `v'` after `k` rounds has the same address and power). -/
theorem accounting_identity (T : Int) (k : Nat) (l : List Validator) (p : Option Nat) (hne : l ≠ [])
    (v : Validator) (hv : v ∈ l) :
    ∃ v', v' ∈ (Spec.steps T k l p).1 ∧ v'.addr = v.addr ∧ v'.power = v.power ∧
      T * ((Spec.run T k l).count v.addr : Int) = (k : Int) * v.power - (v'.prio - v.prio) := by
  rw [accounting T k l p hne]
  refine ⟨_, List.mem_map.mpr ⟨v, hv, rfl⟩, rfl, rfl, ?_⟩
  simp only; omega

/-- **proportional share**: the deviation of a validator's turn count from its share
`k·power/T` is exactly its priority drift divided by `T`; hence while the priorities stay within
a band of width `W` (the window), `|T·turns − k·power| ≤ W` for **every** `k`. -/
theorem fair_share (T W : Int) (k : Nat) (l : List Validator) (p : Option Nat) (hne : l ≠ [])
    (v : Validator) (hv : v ∈ l)
    (hband : ∀ v' ∈ (Spec.steps T k l p).1, v'.addr = v.addr → v'.power = v.power →
      -W ≤ v'.prio - v.prio ∧ v'.prio - v.prio ≤ W) :
    -W ≤ T * ((Spec.run T k l).count v.addr : Int) - (k : Int) * v.power ∧
    T * ((Spec.run T k l).count v.addr : Int) - (k : Int) * v.power ≤ W := by
  obtain ⟨v', hm, ha, hp, hid⟩ := accounting_identity T k l p hne v hv
  have := hband v' hm ha hp
  omega

/-- a validator that has not proposed during `k` rounds has gained exactly `k · power` -/
theorem no_turn_gains_all (T : Int) (k : Nat) (l : List Validator) (p : Option Nat) (hne : l ≠ [])
    (v : Validator) (hv : v ∈ l) (h0 : (Spec.run T k l).count v.addr = 0) :
    ∃ v', v' ∈ (Spec.steps T k l p).1 ∧ v'.addr = v.addr ∧ v'.prio = v.prio + (k : Int) * v.power := by
  obtain ⟨v', hm, ha, _, hid⟩ := accounting_identity T k l p hne v hv
  refine ⟨v', hm, ha, ?_⟩
  rw [h0] at hid; simp at hid; omega

/-! ## (5) updates -/

/-- **update_atomic**: `updateWithChangeSet` either fails (the caller keeps the old set: the
function is pure and the driver/harness compare the untouched old value) or returns a set whose
proposer is the old proposer; an empty change list is the identity. -/
theorem update_atomic (vs : ValSet) (cs : List Validator) (d : Bool) :
    (∃ e, updateWithChangeSet vs cs d = .error e) ∨
    (∃ vs', updateWithChangeSet vs cs d = .ok vs' ∧ vs'.proposer = vs.proposer ∧ (cs = [] → vs' = vs)) := by
  cases h : updateWithChangeSet vs cs d with
  | error e => exact Or.inl ⟨e, rfl⟩
  | ok vs' =>
    refine Or.inr ⟨vs', rfl, ?_, ?_⟩
    · simp only [updateWithChangeSet] at h
      repeat' split at h
      all_goals first
        | (injection h with h; rw [← h])
        | (injection h)
    · intro hc; subst hc
      simp [updateWithChangeSet] at h; exact h.symm

/-! ## the full-strength statements (all proved below: `model_refines_spec`, `update_rejects_iff`,
`update_result`, `update_never_panics`, `no_starvation`; `UpdatePermStatement` in `Props/C06.lean`) -/

/-- well-formed set: distinct addresses, positive powers, total = sum ≤ cap -/
def WF (vs : ValSet) : Prop :=
  (vs.vals.map (·.addr)).Nodup ∧ (∀ v ∈ vs.vals, 0 < v.power) ∧
  vs.total = Spec.total vs.vals ∧ vs.total ≤ cap

/-- `model_refines_spec`, `k`-independent form: from a well-formed set whose priorities are in
`[-B, B]` and `2·n·max(B, T) + n + 2T < 2^62`, `IncrementProposerPriority(k)` equals
`Spec.increment k` for **every** `k` (uses the invariants "the sum is constant" and "no priority
falls below `min(prio₀, 1 - T)`", hence the `n`-dependent upper bound).  Proved: `model_refines_spec`. -/
def ModelRefinesSpecStatement : Prop :=
  ∀ (vs : ValSet) (k : Nat) (B : Int), WF vs → vs.vals ≠ [] → 0 < k → PrioBound B vs.vals →
    2 * (vs.vals.length : Int) * (max B vs.total) + vs.vals.length + 2 * vs.total < 2 ^ 62 →
    increment vs k = .ok { vals := (Spec.increment vs.vals k).1, proposer := (Spec.increment vs.vals k).2,
                           total := vs.total }

/-- `update_rejects_iff`: on a well-formed set an update with deletions allowed fails iff the
change list has a duplicate address, the zero address (code quirk), a negative power, a power
above the cap, a removal of a non-member, would empty the set, or would push the total above the
cap.  Proved: `update_rejects_iff` (and checked on the real code by the oracle `update-rejection-rule`). -/
def UpdateRejectsIffStatement : Prop :=
  ∀ (vs : ValSet) (cs : List Validator), WF vs → cs ≠ [] →
    ((∃ e, updateWithChangeSet vs cs true = .error e) ↔
      (¬ (cs.map (·.addr)).Nodup ∨ (∃ c ∈ cs, c.addr = 0) ∨ (∃ c ∈ cs, c.power < 0) ∨ (∃ c ∈ cs, c.power > cap) ∨
       (∃ c ∈ cs, c.power = 0 ∧ findVal vs.vals c.addr = none) ∨
       (∀ v ∈ vs.vals, ∃ c ∈ cs, c.addr = v.addr ∧ c.power = 0) ∧ (∀ c ∈ cs, c.power = 0) ∨
       cap < Spec.total (vs.vals.filter fun v => (findVal cs v.addr).isNone) + Spec.total cs))

/-- `update_perm`: the result depends on the change list only up to permutation. -/
def UpdatePermStatement : Prop :=
  ∀ (vs : ValSet) (cs cs' : List Validator), cs.Perm cs' →
    (∀ vs', updateWithChangeSet vs cs true = .ok vs' → updateWithChangeSet vs cs' true = .ok vs') ∧
    ((∃ e, updateWithChangeSet vs cs true = .error e) → ∃ e, updateWithChangeSet vs cs' true = .error e)

/-- `update_result`: membership and powers of the result are old ⊕ changes, and the result is
well-formed.  Proved: `update_result`. -/
def UpdateResultStatement : Prop :=
  ∀ (vs vs' : ValSet) (cs : List Validator), WF vs → updateWithChangeSet vs cs true = .ok vs' → cs ≠ [] →
    WF vs' ∧ ∀ a p, (∃ v ∈ vs'.vals, v.addr = a ∧ v.power = p) ↔
      ((∃ c ∈ cs, c.addr = a ∧ c.power = p ∧ 0 < p) ∨
       ((∃ v ∈ vs.vals, v.addr = a ∧ v.power = p) ∧ findVal cs a = none))

/-- `no_starvation`: from a centred state inside the window `2T` (what an update leaves), a
validator of an `n`-element set proposes within `(2·n·T + n) / power + 1` rounds.  Follows from
`no_turn_gains_all` plus the a-priori bounds "no priority falls below `-2T`" and "the sum is
constant" (`priority_bounds`, `priority_sum_constant`).  Proved: `no_starvation`; also checked on
the real code by the harness oracle `starved-after-change`. -/
def NoStarvationStatement : Prop :=
  ∀ (l : List Validator) (v : Validator) (k : Nat), (l.map (·.addr)).Nodup → v ∈ l → (∀ w ∈ l, 0 < w.power) →
    (0 ≤ sumPrio l ∧ sumPrio l < l.length) → (∀ a ∈ l, ∀ b ∈ l, a.prio - b.prio ≤ 2 * Spec.total l) →
    (Spec.run (Spec.total l) k l).count v.addr = 0 →
    (k : Int) * v.power ≤ 2 * (l.length : Int) * Spec.total l + l.length

def v (a : Nat) (p q : Int) : Validator := { addr := a, power := p, prio := q }
def okOf {α} : Except Err α → Option α | .ok x => some x | .error _ => none
def errOf {α} : Except Err α → Option Err | .ok _ => none | .error e => some e

/-! ## (5b) the rejection rule (verification phase) -/

/-- what `processChanges` accepts, spelled out -/
theorem validChanges_iff (cs : List Validator) :
    ¬ ValidChanges cs ↔
      (¬ (cs.map (·.addr)).Nodup ∨ (∃ c ∈ cs, c.addr = 0) ∨ (∃ c ∈ cs, c.power < 0) ∨ (∃ c ∈ cs, c.power > cap)) := by
  unfold ValidChanges PowOK
  constructor
  · intro h
    apply Classical.byContradiction
    intro hc
    apply h
    refine ⟨Classical.byContradiction fun h1 => hc (Or.inl h1), ?_, ?_⟩
    · intro c hcm e; exact hc (Or.inr (Or.inl ⟨c, hcm, e⟩))
    · intro c hcm
      constructor
      · apply Classical.byContradiction; intro h1
        exact hc (Or.inr (Or.inr (Or.inl ⟨c, hcm, by omega⟩)))
      · apply Classical.byContradiction; intro h1
        exact hc (Or.inr (Or.inr (Or.inr ⟨c, hcm, by omega⟩)))
  · rintro (h | ⟨c, hc, e⟩ | ⟨c, hc, e⟩ | ⟨c, hc, e⟩) ⟨h1, h2, h3⟩
    · exact h h1
    · exact h2 c hc e
    · have := (h3 c hc).1; omega
    · have := (h3 c hc).2; omega

/-- **update_rejects_iff** (verification part, proved): on a well-formed set a non-empty change
list is rejected by a verification step — i.e. with an error other than the internal-consistency
panic of the application phase (`updateTotalVotingPower` above the cap, empty result, division by
zero in the rescale; see `UpdateNeverPanicsStatement`) — **iff** it has a duplicate address, the
zero address (code quirk), a negative power, a power above the cap, removes a non-member, would
empty the set, or would push the total above the cap.  This includes the `int64` argument for
`verifyUpdates`: with the deltas applied in ascending order no intermediate sum leaves `int64`
and the scan fails exactly when the final total exceeds the cap. -/
theorem update_rejects_iff_partial (vs : ValSet) (cs : List Validator) (hwf : WF vs) (hne : cs ≠ []) :
    ((∃ e, e ≠ .panic ∧ updateWithChangeSet vs cs true = .error e) ↔
      (¬ (cs.map (·.addr)).Nodup ∨ (∃ c ∈ cs, c.addr = 0) ∨ (∃ c ∈ cs, c.power < 0) ∨ (∃ c ∈ cs, c.power > cap) ∨
       (∃ c ∈ cs, c.power = 0 ∧ findVal vs.vals c.addr = none) ∨
       (∀ v ∈ vs.vals, ∃ c ∈ cs, c.addr = v.addr ∧ c.power = 0) ∧ (∀ c ∈ cs, c.power = 0) ∨
       cap < Spec.total (vs.vals.filter fun v => (findVal cs v.addr).isNone) + Spec.total cs)) := by
  obtain ⟨hn, hpos, htot, hcap⟩ := hwf
  rw [update_rejects_iff_core vs cs hne hn hpos htot hcap, validChanges_iff]
  show _ ↔ (_ ∨ _ ∨ _ ∨ _ ∨ _ ∨ EmptiesSet vs.vals cs ∨ cap < newTotal vs.vals cs)
  constructor
  · rintro ((h | h | h | h) | h | h | h)
    · exact Or.inl h
    · exact Or.inr (Or.inl h)
    · exact Or.inr (Or.inr (Or.inl h))
    · exact Or.inr (Or.inr (Or.inr (Or.inl h)))
    · exact Or.inr (Or.inr (Or.inr (Or.inr (Or.inl h))))
    · exact Or.inr (Or.inr (Or.inr (Or.inr (Or.inr (Or.inl h)))))
    · exact Or.inr (Or.inr (Or.inr (Or.inr (Or.inr (Or.inr h)))))
  · rintro (h | h | h | h | h | h | h)
    · exact Or.inl (Or.inl h)
    · exact Or.inl (Or.inr (Or.inl h))
    · exact Or.inl (Or.inr (Or.inr (Or.inl h)))
    · exact Or.inl (Or.inr (Or.inr (Or.inr h)))
    · exact Or.inr (Or.inl h)
    · exact Or.inr (Or.inr (Or.inl h))
    · exact Or.inr (Or.inr (Or.inr h))

/-- the error class of each rejection (same hypotheses): `unknown` for a removed non-member,
`overflow` when the resulting total exceeds the cap, else `empty` when the set would be emptied;
otherwise the update proceeds to the application phase `updateTail`. -/
theorem update_verification_phase (vs : ValSet) (cs : List Validator) (hwf : WF vs) (hne : cs ≠ [])
    (hvalid : ValidChanges cs) (hknown : ∀ c ∈ cs, c.power = 0 → findVal vs.vals c.addr ≠ none) :
    updateWithChangeSet vs cs true =
      if cap < newTotal vs.vals cs then .error .overflow
      else if numNew (updatesOf (isort leAddr cs)) vs.vals = 0 &&
          vs.vals.length = (deletesOf (isort leAddr cs)).length then .error .empty
      else updateTail vs (updatesOf (isort leAddr cs)) (deletesOf (isort leAddr cs))
        (newTotal vs.vals cs + sumBy (fun c => oldPow vs.vals c.addr) (deletesOf (isort leAddr cs))) :=
  update_verified vs cs hne hwf.1 hwf.2.1 hwf.2.2.1 hwf.2.2.2 hvalid hknown

/-- the gap between `update_rejects_iff_partial` and `UpdateRejectsIffStatement`: after a successful
verification the application phase never takes one of its panic branches (uses the characterisation
of the merge `applyUpdates`/`applyRemovals`).  Proved: `update_never_panics`. -/
def UpdateNeverPanicsStatement : Prop :=
  ∀ (vs : ValSet) (cs : List Validator), WF vs → updateWithChangeSet vs cs true ≠ .error .panic

/-! ## (7) round-by-round = round-skipping -/

/-- **proposer_path_independent** (unconditional since the fix of C12-P1):
`IncrementProposerPriority(a + b)` is `IncrementProposerPriority(a)` followed by
`IncrementProposerPriority(b)`, for all `a, b ≥ 1` and on **every** validator set — no hypothesis
about rescaling, ranges or well-formedness; the panicking cases included.  (The loop re-normalises
before every single round, so a call is the iteration of one state transformer.) -/
theorem proposer_path_independent (vs : ValSet) (a b : Int) (ha : 0 < a) (hb : 0 < b) :
    increment vs (a + b) = (increment vs a) >>= (increment · b) :=
  increment_add vs a b ha hb

/-- `k ≥ 1` successive `IncrementProposerPriority(1)` (a node that enters every round) produce the
set — all priorities, the proposer, the cached total — of one `IncrementProposerPriority(k)` (a
node that skips to round `k`), on every set -/
theorem rounds_one_by_one_eq_skip (vs : ValSet) (k : Nat) (hk : 1 ≤ k) :
    iterInc k vs = increment vs (k : Int) :=
  iterInc_eq_increment vs k hk

/-- **node level**: whatever rounds a node actually entered — any sequence of round skips
`IncrementProposerPriority(s₁); …; IncrementProposerPriority(sₘ)`, every `sᵢ ≥ 1` — it holds the set
of one `IncrementProposerPriority(s₁ + … + sₘ)` -/
theorem round_skips_eq_single_call (ss : List Nat) (vs : ValSet) (hne : ss ≠ []) (hpos : ∀ s ∈ ss, 1 ≤ s) :
    incSeq ss vs = increment vs (ss.sum : Int) :=
  incSeq_eq_increment ss vs hne hpos

/-- hence two nodes that reach the same round of a height by different skip paths have the same
priorities and the same proposer: the proposer of `(height, round)` is a function of the
validator-set history alone -/
theorem round_skips_path_independent (ss ss' : List Nat) (vs : ValSet) (hne : ss ≠ []) (hne' : ss' ≠ [])
    (hpos : ∀ s ∈ ss, 1 ≤ s) (hpos' : ∀ s ∈ ss', 1 ≤ s) (hsum : ss.sum = ss'.sum) :
    incSeq ss vs = incSeq ss' vs :=
  incSeq_path_independent ss ss' vs hne hne' hpos hpos' hsum

/-- the **former rule** (`incrementOld`: one normalisation per call, then `k` rounds — the code
before the fix of C12-P1) agrees with round-by-round calls only when nothing rescales in between
(`PathCtx`: distinct addresses, `T = Σ power > 0`, priorities of the normalised list in `[-B, B]`
with `B + (k+1)·T < 2^63`, centred, and `maxMinDiff ≤ 2T` after `1, …, k−1` rounds) -/
theorem old_rule_agrees_without_rescale (vs : ValSet) (k : Nat) (B : Int) (hk : 1 ≤ k) (hne : vs.vals ≠ [])
    (hpanic : rescalePanics (I64.mul windowFactor vs.total) vs.vals = false)
    (h : PathCtx vs.total (I64.mul windowFactor vs.total) B k
      (shiftList (rescaleList (I64.mul windowFactor vs.total) vs.vals))) :
    iterInc k vs = incrementOld vs (k : Int) ∧ increment vs (k : Int) = incrementOld vs (k : Int) :=
  ⟨iterInc_eq_incrementOld vs k B hk hne hpanic h, increment_eq_incrementOld vs k B hk hne hpanic h⟩

/-- a set on which the hypothesis "no intermediate rescale" fails -/
def pathWitness : ValSet :=
  { vals := [⟨1, 3, 17⟩, ⟨2, 1, -18⟩, ⟨3, 5, 14⟩], proposer := none, total := 9 }

/-- **regression, former rule**: powers (3, 1, 5), priorities (17, −18, 14).  After the first round
the priorities are (9, −10, 1): spread 19 > 2T = 18, so the second `IncrementProposerPriority(1)`
rescales (halves) while the former `IncrementProposerPriority(4)` did not: round by round the
proposers are 3, 1, 3, **3**; the former rule skipping to the fourth round computed proposer **1**.
The present rule computes **3** on both paths. -/
theorem proposer_path_dependent_counterexample_old_rule :
    (okOf (incrementOld pathWitness 4)).map (·.proposer) = some (some 1) ∧
    (okOf (iterInc 4 pathWitness)).map (·.proposer) = some (some 3) ∧
    (okOf (iterInc 1 pathWitness)).map (fun s => maxMinDiff s.vals) = some 19 ∧
    okOf (increment pathWitness 4) = okOf (iterInc 4 pathWitness) ∧
    (okOf (increment pathWitness 4)).map (·.proposer) = some (some 3) := by
  refine ⟨?_, ?_, ?_, ?_, ?_⟩ <;> decide

/-! ## (8) a-priori invariants of the specification run; no starvation; proportional share -/

/-- **the priority sum is constant**: in every round the proposer pays exactly the total that all
validators together gain (distinct addresses, `T = Σ power`). -/
theorem priority_sum_constant (l : List Validator) (k : Nat) (p : Option Nat) (hne : l ≠ [])
    (hn : (l.map (·.addr)).Nodup) :
    sumPrio (Spec.steps (Spec.total l) k l p).1 = sumPrio l :=
  Spec.steps_sum (Spec.total l) k l p hne hn rfl

/-- **a-priori priority bounds**: from a centred state inside the window `2T`, after any number of
rounds every priority lies in `[−2T, n + 2(n−1)T)`: the proposer's priority after paying is at
least `1 − T` (before paying it is the maximum, hence at least the positive average), nobody else
loses anything, and the sum stays what it was. -/
theorem priority_bounds (l : List Validator) (k : Nat) (p : Option Nat) (hn : (l.map (·.addr)).Nodup)
    (hpos : ∀ w ∈ l, 0 < w.power) (hc : 0 ≤ sumPrio l ∧ sumPrio l < l.length)
    (hw : ∀ a ∈ l, ∀ b ∈ l, a.prio - b.prio ≤ 2 * Spec.total l) :
    ∀ v' ∈ (Spec.steps (Spec.total l) k l p).1,
      -(2 * Spec.total l) ≤ v'.prio ∧
      v'.prio ≤ 2 * (l.length : Int) * Spec.total l + l.length - 2 * Spec.total l - 1 := by
  have hne : l ≠ [] := by intro e; rw [e] at hc; simp at hc; omega
  have htpos := total_pos l hne hpos
  have hb := centred_window_bound l (2 * Spec.total l) hc hw
  have hinv : RunInv (Spec.total l) (fun _ => -(2 * Spec.total l)) l :=
    RunInv.of_const _ _ l hne hn rfl (fun w hw' => Int.le_of_lt (hpos w hw')) htpos hc.1 (by omega)
      (fun w hw' => (hb w hw').1)
  obtain ⟨hk, hsum, hlen⟩ := Spec.steps_inv _ _ k l p hinv
  intro v' hv'
  have := hk.bounds _ _ _ (by omega) v' hv'
  rw [hsum, hlen, Int.mul_left_comm, ← Int.mul_assoc] at this
  omega

/-- **no_starvation** (`NoStarvationStatement`): from a centred state inside the window `2T` (what
an update leaves), a validator of an `n`-element set that has not proposed during `k` rounds
satisfies `k · power ≤ 2·n·T + n`, i.e. it proposes within `(2·n·T + n)/power + 1` rounds. -/
theorem no_starvation : NoStarvationStatement := by
  intro l v k hn hv hpos hc hw h0
  have hne : l ≠ [] := fun e => by rw [e] at hv; cases hv
  obtain ⟨v', hm, _, hp⟩ := no_turn_gains_all (Spec.total l) k l none hne v hv h0
  have hup := (priority_bounds l k none hn hpos hc hw v' hm).2
  have hlo := (centred_window_bound l (2 * Spec.total l) hc hw v hv).1
  omega

/-- **proportional share** ("each validator proposes in proportion to its power"): over any `k`
rounds from a centred state inside the window `2T`, the number of turns of `v` satisfies
`1 − 3T ≤ k·power − T·turns ≤ 2·n·T + n − 1` — bounds that do not depend on `k`. -/
theorem proportional_share (l : List Validator) (v : Validator) (k : Nat)
    (hn : (l.map (·.addr)).Nodup) (hv : v ∈ l) (hpos : ∀ w ∈ l, 0 < w.power)
    (hc : 0 ≤ sumPrio l ∧ sumPrio l < l.length)
    (hw : ∀ a ∈ l, ∀ b ∈ l, a.prio - b.prio ≤ 2 * Spec.total l) :
    1 - 3 * Spec.total l ≤
      (k : Int) * v.power - Spec.total l * ((Spec.run (Spec.total l) k l).count v.addr : Int) ∧
    (k : Int) * v.power - Spec.total l * ((Spec.run (Spec.total l) k l).count v.addr : Int) ≤
      2 * (l.length : Int) * Spec.total l + l.length - 1 := by
  have hne : l ≠ [] := fun e => by rw [e] at hv; cases hv
  have htpos := total_pos l hne hpos
  obtain ⟨v', hm, ha, _, hid⟩ := accounting_identity (Spec.total l) k l none hne v hv
  have hup := (priority_bounds l k none hn hpos hc hw v' hm).2
  obtain ⟨hlo, hhi⟩ := centred_window_bound l (2 * Spec.total l) hc hw v hv
  have hself := Spec.steps_lower_self (Spec.total l) k l none hne hn rfl
    (fun w hw' => Int.le_of_lt (hpos w hw')) htpos hc.1 v hv v' hm ha
  omega

/-- the same in quotient form: `⌊k·power/T⌋ − 3n ≤ turns ≤ ⌊k·power/T⌋ + 3` for every `k` -/
theorem proportional_share_div (l : List Validator) (v : Validator) (k : Nat)
    (hn : (l.map (·.addr)).Nodup) (hv : v ∈ l) (hpos : ∀ w ∈ l, 0 < w.power)
    (hc : 0 ≤ sumPrio l ∧ sumPrio l < l.length)
    (hw : ∀ a ∈ l, ∀ b ∈ l, a.prio - b.prio ≤ 2 * Spec.total l) :
    (k : Int) * v.power / Spec.total l - 3 * (l.length : Int) ≤ ((Spec.run (Spec.total l) k l).count v.addr : Int) ∧
    ((Spec.run (Spec.total l) k l).count v.addr : Int) ≤ (k : Int) * v.power / Spec.total l + 3 := by
  have hne : l ≠ [] := fun e => by rw [e] at hv; cases hv
  have htpos := total_pos l hne hpos
  obtain ⟨h1, h2⟩ := proportional_share l v k hn hv hpos hc hw
  have hnpos := length_pos_int l hne
  generalize Spec.total l = T at *
  generalize ((Spec.run T k l).count v.addr : Int) = t at *
  generalize (k : Int) * v.power = x at *
  have d1 := @Int.mul_ediv_self_le x T (by omega)
  have d2 := @Int.lt_mul_ediv_self_add x T htpos
  have hnT : (l.length : Int) * 1 ≤ (l.length : Int) * T := Int.mul_le_mul_of_nonneg_left (by omega) (by omega)
  rw [Int.mul_one] at hnT
  rw [Int.mul_assoc] at h2
  constructor
  · have : T * (x / T - 3 * (l.length : Int) ) < T * (t + 1) := by
      have e3 : T * (3 * (l.length : Int)) = 3 * ((l.length : Int) * T) := by
        rw [Int.mul_left_comm, Int.mul_comm T]
      rw [Int.mul_sub, Int.mul_add, Int.mul_one, e3]; omega
    have := Int.lt_of_mul_lt_mul_left this (by omega)
    omega
  · have : T * t < T * (x / T + 4) := by
      rw [Int.mul_add]; omega
    have := Int.lt_of_mul_lt_mul_left this (by omega)
    omega

/-! ## (4b) the model is the specification for every number of rounds -/

/-- **model_refines_spec** (`ModelRefinesSpecStatement`, `k`-independent): on a well-formed
non-empty set with priorities in `[−B, B]` and `2·n·max(B, T) + n + 2T < 2^62`,
`IncrementProposerPriority(k)` equals the unbounded `Spec.increment k` (`k` normalised rounds) for
**every** `k ≥ 1` — no `int64` operation wraps or clips, however many rounds are run.  (The bound
is the one of the former rule; `model_refines_spec_sharp` needs much less.) -/
theorem model_refines_spec : ModelRefinesSpecStatement := by
  intro vs k B hwf hne hk hb hfit
  exact increment_refines_spec vs k B hwf.1 hwf.2.1 hwf.2.2.1 hwf.2.2.2 hne hk hb hfit

/-- **sharp form** (since the loop re-normalises before every round): on a well-formed non-empty
set with priorities in `[−B, B]`, the single condition `2B + 2T < 2^63` — needed for the very first
normalisation only — makes `IncrementProposerPriority(k)` the unbounded specification for every
`k ≥ 1` and **every number of validators**: after a normalisation every priority is in `[−2T, 2T]`,
after the round in `[−3T, 3T]`, and `8T < 2^63` because `T ≤ cap`. -/
theorem model_refines_spec_sharp (vs : ValSet) (k : Nat) (B : Int) (hwf : WF vs) (hne : vs.vals ≠ [])
    (hk : 0 < k) (hb : PrioBound B vs.vals) (hfitB : 2 * B + 2 * vs.total ≤ maxI64) :
    increment vs k = .ok { vals := (Spec.increment vs.vals k).1,
                           proposer := (Spec.increment vs.vals k).2, total := vs.total } :=
  increment_refines_spec_sharp vs k B hwf.1 hwf.2.1 hwf.2.2.1 hwf.2.2.2 hne hk hb hfitB

/-- **the window and the centring hold after every call**: under the hypotheses of
`model_refines_spec_sharp` the set returned by `IncrementProposerPriority(k)` is centred (priority
sum in `[0, n)`) and every priority is in `[−3T, 3T]`, for every `k ≥ 1` -/
theorem increment_result_bounds (vs vs' : ValSet) (k : Nat) (B : Int) (hwf : WF vs) (hne : vs.vals ≠ [])
    (hk : 0 < k) (hb : PrioBound B vs.vals) (hfitB : 2 * B + 2 * vs.total ≤ maxI64)
    (hok : increment vs k = .ok vs') :
    vs'.total = vs.total ∧ PrioBound (3 * vs.total) vs'.vals ∧
    (0 ≤ sumPrio vs'.vals ∧ sumPrio vs'.vals < vs'.vals.length) := by
  rw [model_refines_spec_sharp vs k B hwf hne hk hb hfitB] at hok
  injection hok with hok
  subst hok
  have hcap := hwf.2.2.2
  obtain ⟨_, _, hbnd⟩ := normSteps_refines vs.total k B vs.vals none
    ⟨hne, hwf.1, hwf.2.1, hwf.2.2.1⟩ hb hfitB (by unfold maxI64; unfold cap at hcap; omega)
  have h := hbnd (by omega)
  unfold Spec.increment
  rw [← hwf.2.2.1]
  exact ⟨rfl, h.1, h.2⟩

/-- **the former rule and the accounting theorems**: over a stretch of `k` rounds the former rule
`incrementOld` (one normalisation, then plain rounds) is `Spec.steps` after `Spec.centre ∘
Spec.rescale` (range: `2B + 2T < 2^63`, `n + 2nT + 2T < 2^63`); with `old_rule_agrees_without_rescale`
this is how `accounting`, `no_starvation` and `proportional_share` (all about `Spec.steps`/`Spec.run`)
apply to the present code on every stretch in which no call rescales. -/
theorem old_rule_refines_spec_steps (vs : ValSet) (k : Nat) (B : Int) (hwf : WF vs) (hne : vs.vals ≠ [])
    (hk : 0 < k) (hb : PrioBound B vs.vals) (hfitB : 2 * B + 2 * vs.total ≤ maxI64)
    (hfit : (vs.vals.length : Int) + 2 * ((vs.vals.length : Int) * vs.total) + 2 * vs.total ≤ maxI64) :
    incrementOld vs k = .ok
      { vals := (Spec.steps vs.total k (Spec.centre (Spec.rescale (2 * vs.total) vs.vals)) none).1,
        proposer := (Spec.steps vs.total k (Spec.centre (Spec.rescale (2 * vs.total) vs.vals)) none).2,
        total := vs.total } :=
  incrementOld_refines_spec vs k B hwf.1 hwf.2.1 hwf.2.2.1 hne hk hb hfitB hfit

/-- `RescalePriorities(D)` is the specification's rescale (no wrap in `diff + D − 1`, in the ratio or
in the divisions) under the side conditions of `window` -/
theorem rescale_refines_spec (D : Int) (l : List Validator) (h : RescaleOK D l) :
    rescaleList D l = Spec.rescale D l := rescaleList_eq_spec D l h

/-- the division by zero in `RescalePriorities` is unreachable for **every** list (any priorities,
in range or not) as long as `D ≤ 2^62` (`D = 2·T ≤ 2·cap < 2^61` in both callers): if `diff + D − 1`
wraps, its absolute value is still at least `D`. -/
theorem rescale_division_by_zero_unreachable (D : Int) (l : List Validator)
    (hD : D ≤ 4611686018427387904) : rescalePanics D l = false := rescalePanics_false D l hD

/-! ## (5c) the result of an update -/

/-- **update_never_panics** (`UpdateNeverPanicsStatement`): on a well-formed set no panic branch of
`updateWithChangeSet` is reachable (`updateTotalVotingPower` above the cap, more removals than
validators, out-of-range removal, empty result, division by zero in the rescale). -/
theorem update_never_panics : UpdateNeverPanicsStatement := by
  intro vs cs hwf
  exact update_never_panics_core vs cs hwf.1 hwf.2.1 hwf.2.2.1 hwf.2.2.2

/-- **update_rejects_iff** (`UpdateRejectsIffStatement`, full): on a well-formed set an update fails
iff the change list has a duplicate address, the zero address (code quirk), a negative power, a
power above the cap, removes a non-member, would empty the set, or pushes the total above the cap. -/
theorem update_rejects_iff : UpdateRejectsIffStatement := by
  intro vs cs hwf hne
  rw [← update_rejects_iff_partial vs cs hwf hne]
  constructor
  · rintro ⟨e, he⟩
    refine ⟨e, ?_, he⟩
    intro hp; rw [hp] at he
    exact update_never_panics vs cs hwf he
  · rintro ⟨e, _, he⟩; exact ⟨e, he⟩

/-- **update_result** (`UpdateResultStatement`): a successful update of a well-formed set yields a
well-formed set (distinct addresses, positive powers, cached total = Σ power ≤ cap) whose
(address, power) pairs are exactly: the changes with positive power, plus the old validators the
change list does not mention. -/
theorem update_result : UpdateResultStatement := by
  intro vs vs' cs hwf hok hne
  obtain ⟨hctx, _, hcap, hTpos, rfl⟩ :=
    update_ok_form vs vs' cs hne hwf.1 hwf.2.1 hwf.2.2.1 hwf.2.2.2 hok
  have hperm := preNorm_perm vs.vals cs hctx
  refine ⟨⟨?_, ?_, ?_, hcap⟩, ?_⟩
  · exact (final_addr _ _).nodup_iff.mpr hperm.2.nodup
  · intro x hx
    obtain ⟨y, hy, _, hyp⟩ := (final_ap (2 * newTotal vs.vals cs) (preNorm vs.vals cs) x.addr x.power).mp
      ⟨x, hx, rfl, rfl⟩
    rw [← hyp]; exact preNorm_pos vs.vals cs hctx y hy
  · show newTotal vs.vals cs = Spec.total _
    unfold Spec.total
    rw [int_sum_perm (final_power _ _)]
    exact (preNorm_total vs.vals cs hctx).symm
  · intro a p
    rw [final_ap, preNorm_ap vs.vals cs hctx]

/-- **newcomer_priority**: in a successful update of a well-formed set the result is the rescaled,
centred and power-sorted `preNorm` list, in which every validator added by the change list carries
the priority `−(U + U/8)` (integer division, `−1.125·U`), where `U` is the total voting power
**after the updates and before the removals** of the same change list: `U = new total + removed
power`; without removals in the change list `U` is the new total.  A validator whose power is
changed keeps its priority. -/
theorem newcomer_priority (vs vs' : ValSet) (cs : List Validator) (hwf : WF vs)
    (hok : updateWithChangeSet vs cs true = .ok vs') (c : Validator) (hc : c ∈ cs) (hp : 0 < c.power) :
    vs'.vals = isort lePower (shiftList (rescaleList (2 * vs'.total) (preNorm vs.vals cs))) ∧
    (findVal vs.vals c.addr = none →
      (⟨c.addr, c.power, -((vs'.total + removedPower vs.vals cs) + (vs'.total + removedPower vs.vals cs) / 8)⟩ : Validator)
        ∈ preNorm vs.vals cs) ∧
    (∀ o, findVal vs.vals c.addr = some o → (⟨c.addr, c.power, o.prio⟩ : Validator) ∈ preNorm vs.vals cs) ∧
    0 ≤ removedPower vs.vals cs ∧ ((∀ d ∈ cs, d.power ≠ 0) → removedPower vs.vals cs = 0) := by
  have hne : cs ≠ [] := fun e => by rw [e] at hc; cases hc
  obtain ⟨hctx, _, hcap, hTpos, rfl⟩ :=
    update_ok_form vs vs' cs hne hwf.1 hwf.2.1 hwf.2.2.1 hwf.2.2.2 hok
  obtain ⟨h1, h2⟩ := preNorm_priorities vs.vals cs hctx c hc (by omega)
  obtain ⟨r0, r1⟩ := removedPower_bounds vs.vals cs hctx
  have hT := hwf.2.2.1
  have hcap0 := hwf.2.2.2
  refine ⟨rfl, ?_, h2, r0, removedPower_zero vs.vals cs⟩
  intro hf
  have := h1 hf
  rw [totalBeforeRemovals_eq, newcomerPrio_exact _ (by omega) (by omega)] at this
  exact this

/-- **update_no_overflow**: in a successful update of a well-formed set whose priorities are in
`[−B, B]` (`2.25·cap ≤ B`, `2B + 2·cap < 2^63`; e.g. `B = 3·2^60`), the final rescale and centring
are the specification's — no `int64` operation wraps or clips — and the new set is centred with all
priorities in the window: `|prio| ≤ 2T'`, any two differ by at most `2T'`. -/
theorem update_no_overflow (vs vs' : ValSet) (cs : List Validator) (B : Int) (hwf : WF vs) (hne : cs ≠ [])
    (hok : updateWithChangeSet vs cs true = .ok vs') (hb : PrioBound B vs.vals)
    (hB : 9 * cap ≤ 4 * B) (hB2 : 2 * B + 2 * cap ≤ maxI64) :
    vs'.vals = isort lePower (Spec.centre (Spec.rescale (2 * vs'.total) (preNorm vs.vals cs))) ∧
    (0 ≤ sumPrio vs'.vals ∧ sumPrio vs'.vals < vs'.vals.length) ∧
    (∀ a ∈ vs'.vals, ∀ b ∈ vs'.vals, a.prio - b.prio ≤ 2 * vs'.total) ∧
    (∀ a ∈ vs'.vals, -(2 * vs'.total) ≤ a.prio ∧ a.prio ≤ 2 * vs'.total) := by
  obtain ⟨hctx, he, hcap, _, rfl⟩ :=
    update_ok_form vs vs' cs hne hwf.1 hwf.2.1 hwf.2.2.1 hwf.2.2.2 hok
  have hT := hwf.2.2.1
  have hcap0 := hwf.2.2.2
  exact update_normal_form vs.vals cs hctx he B hb (by omega) hcap hB hB2

/-- **none is starved after a set change**: in the set left by a successful update (hypotheses of
`update_no_overflow`), a validator that has not proposed during `k` specification rounds satisfies
`k · power ≤ 2·n·T' + n`. -/
theorem no_starvation_after_update (vs vs' : ValSet) (cs : List Validator) (B : Int) (hwf : WF vs)
    (hne : cs ≠ []) (hok : updateWithChangeSet vs cs true = .ok vs') (hb : PrioBound B vs.vals)
    (hB : 9 * cap ≤ 4 * B) (hB2 : 2 * B + 2 * cap ≤ maxI64) (x : Validator) (hx : x ∈ vs'.vals) (k : Nat)
    (h0 : (Spec.run vs'.total k vs'.vals).count x.addr = 0) :
    (k : Int) * x.power ≤ 2 * (vs'.vals.length : Int) * vs'.total + vs'.vals.length := by
  obtain ⟨hwf', _⟩ := update_result vs vs' cs hwf hok hne
  obtain ⟨_, hc, hw, _⟩ := update_no_overflow vs vs' cs B hwf hne hok hb hB hB2
  have hT := hwf'.2.2.1
  rw [hT] at hw h0 ⊢
  exact no_starvation vs'.vals x k hwf'.1 hx hwf'.2.1 hc hw h0

/-! ## (7b) the path dependence is reachable through the node's own call sequence -/

/-- sequencing of model calls -/
def andThen {α β} (x : Except Err α) (f : α → Except Err β) : Except Err β :=
  match x with
  | .ok a => f a
  | .error e => .error e

/-- `MakeGenesisState`: `NextValidators = NewValidatorSet(genesis).CopyIncrementProposerPriority(1)`
for the genesis validators `{1: 2, 2: 6, 3: 10}` -/
def reachNext1 : Except Err ValSet :=
  andThen (newValidatorSet [v 1 2 0, v 2 6 0, v 3 10 0]) (increment · 1)

/-- `updateState` after block 1, whose validator updates remove validator 2 and add validator 4 with
power 1: `Copy`, `UpdateWithChangeSet`, `IncrementProposerPriority(1)`.  Two heights later this set
is `cs.Validators`. -/
def reachV : Except Err ValSet :=
  andThen (andThen reachNext1 (updateWithChangeSet · [v 2 0 0, v 4 1 0] true)) (increment · 1)

/-- **regression for finding C12-P1 (former rule)**: the set `reachV` is produced by exactly the
calls a node makes (`NewValidatorSet`, `CopyIncrementProposerPriority(1)`, then per committed block
`UpdateWithChangeSet` + `IncrementProposerPriority(1)`): powers (10, 2, 1), priorities (4, 11, −15),
`T = 13`, spread `26 = 2T`.  After the first round of that height the priorities are (1, 13, −14):
spread `27 > 2T`.  A node that enters round 1 and then round 2 (`IncrementProposerPriority(1)`
twice) rescales before the second round and computes proposer **3** for round 2; under the former
rule a node that skipped from round 0 to round 2 (`incrementOld · 2`) did not rescale and computed
proposer **1** (replayed on the code before the fix). -/
theorem proposer_path_dependent_reachable_old_rule :
    okOf reachV = some { vals := [v 3 10 4, v 1 2 11, v 4 1 (-15)], proposer := some 3, total := 13 } ∧
    (okOf (andThen reachV (iterInc 1))).map (fun s => (maxMinDiff s.vals, s.proposer)) = some (27, some 3) ∧
    (okOf (andThen reachV (incrementOld · 2))).map (·.proposer) = some (some 1) ∧
    (okOf (andThen reachV (iterInc 2))).map (·.proposer) = some (some 3) := by
  refine ⟨?_, ?_, ?_, ?_⟩ <;> decide

/-- **the present rule agrees on both paths on that witness** (instance of
`rounds_one_by_one_eq_skip`, evaluated): skipping to round 2 and entering rounds 1 and 2 give the
same set, proposer **3**, priorities (−2, 9, −5) -/
theorem proposer_path_independent_on_reachable_witness :
    okOf (andThen reachV (increment · 2)) = okOf (andThen reachV (iterInc 2)) ∧
    okOf (andThen reachV (increment · 2)) =
      some { vals := [v 3 10 (-2), v 1 2 9, v 4 1 (-5)], proposer := some 3, total := 13 } := by
  refine ⟨?_, ?_⟩ <;> decide

/-! ## (7) the block step (`cstate.updateState`) -/

/-- **block_step_is_update_then_round**: the NextValidators computed for a block are the change set
applied to the current set and *then* one round of rotation; an invalid change set (exactly the
cases of `update_rejects_iff`) rejects the block step as a whole, and a block without changes is
one round of rotation of the unchanged set. -/
theorem block_step_is_update_then_round (vs : ValSet) (cs : List Validator) :
    (∀ e, updateWithChangeSet vs cs true = .error e → blockStep vs cs = .error e) ∧
    (∀ vs', updateWithChangeSet vs cs true = .ok vs' → blockStep vs cs = increment vs' 1) ∧
    blockStep vs [] = increment vs 1 := by
  refine ⟨?_, ?_, ?_⟩
  · intro e h; simp only [blockStep, h]
  · intro vs' h; simp only [blockStep, h]
  · simp only [blockStep, updateWithChangeSet, List.isEmpty_nil, if_true]

/-- the other order (one round first, then the change set): what a block step must NOT be -/
def blockStepRoundFirst (vs : ValSet) (cs : List Validator) : Except Err ValSet :=
  match increment vs 1 with
  | .error e => .error e
  | .ok vs' => updateWithChangeSet vs' cs true

/-- **block_step_order_matters**: on the set (10, 20, 30, 40) after genesis and one round, the
block that removes the validator next in line and adds a newcomer gives, with the round taken
first, a set whose designated proposer is the removed validator (not a member) and whose newcomer
has not taken part in the round; the block step of the model designates a member. -/
theorem block_step_order_matters :
    let start := andThen (newValidatorSet [v 1 10 0, v 2 20 0, v 3 30 0, v 4 40 0]) (increment · 1)
    let cs := [v 2 0 0, v 9 25 0]
    (okOf (andThen start (blockStep · cs))).map (fun s => s.proposer.map (fun a => (findVal s.vals a).isSome))
        = some (some true) ∧
    (okOf (andThen start (blockStepRoundFirst · cs))).map (fun s => s.proposer.map (fun a => (findVal s.vals a).isSome))
        = some (some false) ∧
    okOf (andThen start (blockStep · cs)) ≠ okOf (andThen start (blockStepRoundFirst · cs)) := by
  refine ⟨?_, ?_, ?_⟩ <;> decide

/-! ## non-vacuity and the F1 witness -/


/-- the F1 witness history: `{1000, 999}` then both powers become 1 -/
def f1Start : Except Err ValSet := newValidatorSet [v 1 1000 0, v 2 999 0]
def f1After : Except Err ValSet :=
  match f1Start with
  | .ok vs => updateWithChangeSet vs [v 1 1 0, v 2 1 0] true
  | .error e => .error e

example : okOf f1Start = some { vals := [v 1 1000 (-999), v 2 999 999], proposer := some 1, total := 1999 } := by decide
/-- with the fixed `computeMaxMinPriorityDiff` the spread 1998 is rescaled into the window 2T = 4 -/
example : okOf f1After = some { vals := [v 1 1 (-1), v 2 1 1], proposer := some 1, total := 2 } := by decide
example : maxMinDiff [v 1 1000 (-999), v 2 999 999] = 1998 := by decide
example : (Spec.run 2 6 [v 1 1 (-1), v 2 1 1]).count 1 = 3 := by decide
/-- afterwards the two validators alternate (no starvation) -/
example : (match f1After with
    | .ok vs => (Spec.run 2 6 vs.vals)
    | .error _ => []) = [2, 1, 2, 1, 2, 1] := by decide

/-- the hypotheses of `window`, `centred`, `increment_no_overflow` are satisfiable -/
example : RescaleOK 4 [v 1 1 (-999), v 2 1 999] :=
  ⟨by decide, by intro x hx; simp [v] at hx; rcases hx with rfl | rfl <;> decide, by decide, by decide, by decide⟩
example : PrioBound 1000 [v 1 1 (-999), v 2 1 999] := by
  intro x hx; simp [v] at hx; rcases hx with rfl | rfl <;> decide
example : PowBound 2 [v 1 1 (-999), v 2 1 999] := by
  intro x hx; simp [v] at hx; rcases hx with rfl | rfl <;> decide
example : rescaleList 4 [v 1 1 (-999), v 2 1 999] = [v 1 1 (-1), v 2 1 1] := by decide
/-- clipping is really modelled: a debit below MinInt64 clips -/
example : safeSubClip minI64 1 = minI64 := by decide
example : safeAddClip maxI64 1 = maxI64 := by decide
/-- rejection classes of the model -/
example : errOf (updateWithChangeSet emptySet [v 1 5 0, v 1 6 0] true) = some .dup := by decide
example : errOf (updateWithChangeSet emptySet [v 1 (-5) 0] true) = some .neg := by decide
example : errOf (updateWithChangeSet emptySet [v 1 (cap + 1) 0] true) = some .cap := by decide
example : errOf (updateWithChangeSet emptySet [v 1 0 0] true) = some .unknown := by decide
example : errOf (updateWithChangeSet emptySet [v 1 cap 0, v 2 1 0] true) = some .overflow := by decide
example : errOf (updateWithChangeSet emptySet [v 1 0 0] false) = some .zeroPower := by decide

/-- the hypotheses of `priority_bounds` / `no_starvation` / `proportional_share` are satisfiable
(distinct addresses, positive powers, centred, inside the window `2T = 4`), and the bound is met
with equality-order values: in 7 rounds validator 1 (power 1 of `T = 2`) proposes 3 times -/
example : ((([v 1 1 (-1), v 2 1 1] : List Validator).map (·.addr)).Nodup) ∧
    (∀ w ∈ ([v 1 1 (-1), v 2 1 1] : List Validator), 0 < w.power) ∧
    (0 ≤ sumPrio [v 1 1 (-1), v 2 1 1] ∧ sumPrio [v 1 1 (-1), v 2 1 1] < 2) ∧
    (∀ a ∈ ([v 1 1 (-1), v 2 1 1] : List Validator), ∀ b ∈ ([v 1 1 (-1), v 2 1 1] : List Validator),
      a.prio - b.prio ≤ 2 * Spec.total [v 1 1 (-1), v 2 1 1]) ∧
    (Spec.run (Spec.total [v 1 1 (-1), v 2 1 1]) 7 [v 1 1 (-1), v 2 1 1]).count 1 = 3 := by
  refine ⟨by decide, ?_, by decide, ?_, by decide⟩
  · intro w hw; simp [v] at hw; rcases hw with rfl | rfl <;> decide
  · intro a ha b hb; simp [v] at ha hb
    rcases ha with rfl | rfl <;> rcases hb with rfl | rfl <;> decide
/-- the hypotheses of `model_refines_spec` are satisfiable -/
example : WF { vals := [v 1 1 (-1), v 2 1 1], proposer := none, total := 2 } ∧
    PrioBound 1 [v 1 1 (-1), v 2 1 1] ∧
    2 * (2 : Int) * (max 1 2) + 2 + 2 * 2 < 2 ^ 62 := by
  refine ⟨⟨by decide, ?_, by decide, by decide⟩, ?_, by decide⟩
  · intro w hw; simp [v] at hw; rcases hw with rfl | rfl <;> decide
  · intro x hx; simp [v] at hx; rcases hx with rfl | rfl <;> decide
/-- a successful update of a well-formed set (hypotheses of `update_result` / `newcomer_priority`):
`{1: 10, 2: 10}`, change list "remove 2, add 3 with power 1".  The newcomer's priority is computed
from `U = 21` (the total before the removal), not from the new total 11: `−(21 + 21/8) = −23`
(from the new total it would be `−12`); confirmed on the real code. -/
example : WF { vals := [v 1 10 (-10), v 2 10 10], proposer := some 1, total := 20 } ∧
    preNorm [v 1 10 (-10), v 2 10 10] [v 2 0 0, v 3 1 0] = [v 1 10 (-10), v 3 1 (-23)] ∧
    removedPower [v 1 10 (-10), v 2 10 10] [v 2 0 0, v 3 1 0] = 10 ∧
    okOf (updateWithChangeSet { vals := [v 1 10 (-10), v 2 10 10], proposer := some 1, total := 20 }
      [v 2 0 0, v 3 1 0] true) =
      some { vals := [v 1 10 7, v 3 1 (-6)], proposer := some 1, total := 11 } := by
  refine ⟨⟨by decide, ?_, by decide, by decide⟩, by decide, by decide, by decide⟩
  intro w hw; simp [v] at hw; rcases hw with rfl | rfl <;> decide

/-- the range hypotheses of `update_no_overflow` are satisfiable: `B = 3·2^60` -/
example : 9 * cap ≤ 4 * (3 * 2 ^ 60 : Int) ∧ 2 * (3 * 2 ^ 60 : Int) + 2 * cap ≤ maxI64 ∧
    PrioBound (3 * 2 ^ 60) [v 1 10 (-10), v 2 10 10] := by
  refine ⟨by decide, by decide, ?_⟩
  intro x hx; simp [v] at hx; rcases hx with rfl | rfl <;> decide

end KV.ValSet
