import KV.Gen.C20
import KV.Model.SecretConn
import KV.Model.MConn
import KV.Model.Transport
/-!
# C20 — bridge between the regenerated frame/packet constants and guards (tie T1) and the models
`KV/Gen/C20.lean` is re-extracted from `lib/p2p/conn/secret_connection.go` and `connection.go` on
every run.
-/
namespace KV.SecretConn.GenBridge
open KV

theorem gen_frame_constants :
    Gen.C20.dataLenSize = (SecretConn.dataLenSize : Int) ∧
    Gen.C20.dataMaxSize = (SecretConn.dataMaxSize : Int) ∧
    Gen.C20.totalFrameSize = (SecretConn.totalFrameSize : Int) ∧
    Gen.C20.aeadSizeOverhead = (SecretConn.aeadSizeOverhead : Int) := by decide

/-- `Write` splits off a chunk when `dataMaxSize < len(data)` -/
theorem gen_writeSplits_eq (n : Nat) :
    Gen.C20.writeSplitsChunk (n : Int) = decide (SecretConn.dataMaxSize < n) := by
  unfold Gen.C20.writeSplitsChunk SecretConn.dataMaxSize
  simp
  omega

/-- `Read` rejects a chunk length above `dataMaxSize` -/
theorem gen_readTooLong_eq (n : Nat) :
    Gen.C20.readChunkTooLong n = decide (n > SecretConn.dataMaxSize) := rfl

/-- the nonce counter is incremented by one per frame (no wrap below 2^64 - 1, where the code panics) -/
theorem gen_nonceNext_eq (c : Nat) (h : c < 18446744073709551615) :
    Gen.C20.nonceNext c = c + 1 ∧ Gen.C20.nonceExhausted c = false := by
  unfold Gen.C20.nonceNext Gen.C20.nonceExhausted U64.add U64.modulus
  constructor
  · omega
  · simp; omega

/-- capacity check of `recvPacketMsg`: `recvCap < len(recving) + len(packet)` -/
theorem gen_recvExceeds_eq (cap recving packet : Nat) (h : recving + packet < 2 ^ 62) :
    Gen.C20.recvExceedsCapacity (cap : Int) (Gen.C20.recvReceived (recving : Int) (packet : Int))
      = decide (cap < recving + packet) := by
  unfold Gen.C20.recvExceedsCapacity Gen.C20.recvReceived I64.add I64.wrap
  have : ((recving : Int) + (packet : Int) + 9223372036854775808) % 18446744073709551616 - 9223372036854775808
      = ((recving + packet : Nat) : Int) := by omega
  rw [this]
  simp
  omega

/-- the model's `recvPacket` refuses exactly when the source's check fires -/
theorem gen_recvPacket_refuses_iff (cap : Nat) (recving : Bytes) (p : MConn.Packet)
    (h : recving.length + p.data.length < 2 ^ 62) :
    MConn.recvPacket cap recving p = none ↔
      Gen.C20.recvExceedsCapacity (cap : Int)
        (Gen.C20.recvReceived (recving.length : Int) (p.data.length : Int)) = true := by
  rw [gen_recvExceeds_eq _ _ _ h]
  unfold MConn.recvPacket
  simp only [decide_eq_true_eq]
  split
  · simp_all
  · rename_i hh
    constructor
    · intro h2; split at h2 <;> simp at h2
    · intro h2; exact absurd h2 hh

/-- EOF flag of `nextPacketMsg`: `len(sending) <= maxSize` -/
theorem gen_packetIsLast_eq (sending maxSize : Nat) :
    Gen.C20.packetIsLast (sending : Int) (maxSize : Int) = decide (sending ≤ maxSize) := by
  unfold Gen.C20.packetIsLast; simp

theorem gen_default_payload : Gen.C20.defaultMaxPacketMsgPayloadSize = 1024 := rfl

end KV.SecretConn.GenBridge

namespace KV.Transport.GenBridge
open KV KV.Transport

/-- `MultiplexTransport.upgrade` (`lib/p2p/transport.go`): the model applies the regenerated
identity tests in the order of the source - dialled ID against the connection key (outbound
only), connection key against the self-reported ID, own ID against the self-reported ID.  IDs are
strings in Go and naturals here (trusted reading: only equality is used). -/
theorem upgrade_eq_gen (dialed : Option Nat) (connKey claimed selfId : Nat) (ab co : Bool) :
    upgrade dialed connKey claimed selfId ab co =
      if (match dialed with
          | some t => Gen.C20.upgradeDialedMismatch connKey t
          | none => false) then .auth
      else if ab then .auth
      else if Gen.C20.upgradeClaimMismatch connKey claimed then .auth
      else if Gen.C20.upgradeIsSelf selfId claimed then .self
      else if !co then .incompat
      else .ok claimed := by
  unfold upgrade Gen.C20.upgradeDialedMismatch Gen.C20.upgradeClaimMismatch Gen.C20.upgradeIsSelf
  cases dialed with
  | none => simp
  | some t =>
    by_cases h : connKey = t
    · subst h; simp
    · have h' : t ≠ connKey := fun e => h e.symm
      simp [h, h']

end KV.Transport.GenBridge
