import KV.Gen.C07
import KV.Model.Trie
/-!
# C07 — bridge between the regenerated trie thresholds / key-encoding arithmetic (tie T1) and the model

`KV/Gen/C07.lean` is re-extracted on every check run from `trie/hasher.go` (`shortnodeToHash`,
`fullnodeToHash`: the embedding rule `len(enc) < 32 && !force`), `trie/stacktrie.go` (`hashRec`: the
same rule in the streaming trie), `trie/node.go` (`decodeRef`: size limit of an embedded node and
the dispatch on the RLP kind), `trie/proof.go` (`Prove`: which nodes become proof elements) and
`trie/encoding.go` (`hexToCompact`, `compactToHex`, `keybytesToHex`, `decodeNibbles`, `hasTerm`,
`hexToKeybytes`: flag and nibble arithmetic).

The theorems state that `Trie.ref`, `Trie.proofBlobs`, `Trie.decodeRef`, `Trie.hexToCompact`,
`Trie.compactToHex`, `Trie.keybytesToHex`, `Trie.decodeNibbles`, `Trie.hasTerm` of the model use
exactly these regenerated pieces.
-/
namespace KV.Trie.GenBridge
open KV KV.Rlp KV.Trie

/-! ### the embedding rule -/

theorem lt32_cast (n : Nat) : ((Int.ofNat n) < 32) ↔ n < 32 := by
  simp only [Int.ofNat_eq_natCast]; omega

/-- `ref`: a node is stored inside its parent iff the regenerated test of `shortnodeToHash`
(and of `fullnodeToHash`) with `force = false` holds for the length of its encoding -/
theorem ref_eq_gen (H : Bytes → Bytes) (it : Item) :
    ref H it =
      if Gen.C07.shortnodeEmbeds (Int.ofNat (enc it).length) false then it else .str (H (enc it)) := by
  unfold ref Gen.C07.shortnodeEmbeds
  simp only [lt32_cast, Bool.not_false, Bool.and_true, decide_eq_true_eq]

/-- both hasher functions and the three places of the stack trie apply the same rule; `force`
(the root) always hashes -/
theorem gen_embedding_rule_uniform (n : Nat) (force : Bool) :
    Gen.C07.fullnodeEmbeds (Int.ofNat n) force = Gen.C07.shortnodeEmbeds (Int.ofNat n) force ∧
    Gen.C07.shortnodeEmbeds (Int.ofNat n) true = false ∧
    Gen.C07.stackBranchChildEmbeds (Int.ofNat n) = decide (n < 32) ∧
    Gen.C07.stackExtChildEmbeds (Int.ofNat n) = decide (n < 32) ∧
    Gen.C07.stackNodeEmbeds (Int.ofNat n) = decide (n < 32) ∧
    Gen.C07.shortnodeEmbeds (Int.ofNat n) false = decide (n < 32) := by
  unfold Gen.C07.fullnodeEmbeds Gen.C07.shortnodeEmbeds Gen.C07.stackBranchChildEmbeds
    Gen.C07.stackExtChildEmbeds Gen.C07.stackNodeEmbeds
  simp only [lt32_cast, Bool.not_true, Bool.and_false, Bool.not_false, Bool.and_true, and_self]

/-- `proofBlobs`: a node becomes a proof element iff its reference is a hash (the negation of the
regenerated embedding test) or it is the first node (`ok || i == 0` in `Prove`) -/
theorem proofBlobs_eq_gen (H : Bytes → Bytes) (n : Node) (ns : List Node) (first : Bool) :
    proofBlobs H (n :: ns) first =
      let e := enc (item H n)
      if Gen.C07.proveIncludesNode (!Gen.C07.shortnodeEmbeds (Int.ofNat e.length) false) (if first then 0 else 1) then
        e :: proofBlobs H ns false
      else proofBlobs H ns false := by
  unfold Gen.C07.proveIncludesNode Gen.C07.shortnodeEmbeds
  simp only [proofBlobs, lt32_cast]
  cases first <;> simp <;> rfl

/-- the hash length the decoder compares with is `common.HashLength` = 32, the threshold of the
embedding rule -/
theorem gen_hashLen : Gen.C07.hashLen = Gen.C07.HashLength ∧ Gen.C07.hashLen = 32 := by decide

/-! ### `decodeRef` -/

theorem gen_rlp_kinds : Gen.C07.rlpKindByte = 0 ∧ Gen.C07.rlpKindString = 1 ∧ Gen.C07.rlpKindList = 2 := by decide

/-- size test of an embedded node: `len(buf) - len(rest) > hashLen` -/
theorem gen_embedded_size (bufLen restLen : Nat) (h : restLen ≤ bufLen) (hb : bufLen < 2 ^ 62) :
    Gen.C07.embeddedTooLarge (Gen.C07.embeddedSize (Int.ofNat bufLen) (Int.ofNat restLen)) =
      decide (bufLen - restLen > 32) := by
  unfold Gen.C07.embeddedTooLarge Gen.C07.embeddedSize I64.sub I64.wrap
  simp only [Int.ofNat_eq_natCast]
  have : (((bufLen : Int) - (restLen : Int) + 9223372036854775808) % 18446744073709551616 - 9223372036854775808 > 32) ↔
      bufLen - restLen > 32 := by omega
  simp only [this]

/-- `decodeRef` of the model dispatches like the regenerated `switch` (kind codes of
`rlp.Split`: 1 string, 2 list) and applies the regenerated size test -/
theorem decodeRef_eq_gen (fuel : Nat) (buf : Bytes) (hb : buf.length < 2 ^ 62) :
    decodeRef (fuel + 1) buf =
      match rawSplit buf with
      | none => none
      | some (kind, val, rest) =>
        match Gen.C07.decodeRefCase (Int.ofNat kind) (Int.ofNat val.length) with
        | 0 =>
          if rest.length ≤ buf.length ∧
              Gen.C07.embeddedTooLarge (Gen.C07.embeddedSize (Int.ofNat buf.length) (Int.ofNat rest.length)) then none
          else if buf.length < rest.length ∧ buf.length - rest.length > 32 then none
          else
            match decodeNode fuel buf with
            | none => none
            | some n => some (n, rest)
        | 1 => some (.nil, rest)
        | 2 => some (.hash val, rest)
        | _ => none := by
  unfold decodeRef
  rcases hs : rawSplit buf with _ | ⟨kind, val, rest⟩
  · rfl
  · simp only []
    unfold Gen.C07.decodeRefCase
    have k2 : ((Int.ofNat kind) = 2) ↔ kind = 2 := by simp only [Int.ofNat_eq_natCast]; omega
    have k1 : ((Int.ofNat kind) = 1) ↔ kind = 1 := by simp only [Int.ofNat_eq_natCast]; omega
    have v0 : ((Int.ofNat val.length) = 0) ↔ val.length = 0 := by simp only [Int.ofNat_eq_natCast]; omega
    have v32 : ((Int.ofNat val.length) = 32) ↔ val.length = 32 := by simp only [Int.ofNat_eq_natCast]; omega
    simp only [k2, k1, v0, v32]
    by_cases h2 : kind = 2
    · simp only [h2, decide_true, if_true]
      by_cases hle : rest.length ≤ buf.length
      · rw [gen_embedded_size buf.length rest.length hle hb]
        have : ¬ buf.length < rest.length := by omega
        by_cases h32 : 32 < buf.length - rest.length <;> simp [hle, this, h32] <;>
          (cases decodeNode fuel buf <;> rfl)
      · have : buf.length - rest.length = 0 := by omega
        simp [hle, this]
        cases decodeNode fuel buf <;> rfl
    · by_cases h1 : kind = 1
      · by_cases h0 : val.length = 0
        · simp [h1, h0]
        · by_cases h32 : val.length = 32 <;> simp [h1, h0, h32]
      · simp [h2, h1]

/-! ### `encoding.go` -/

theorem hasTerm_eq_gen (k : Key) (x : Nat) :
    hasTerm (k ++ [x]) = Gen.C07.hasTerm (Int.ofNat (k ++ [x]).length) x ∧
    hasTerm [] = Gen.C07.hasTerm (Int.ofNat ([] : Key).length) x := by
  unfold hasTerm Gen.C07.hasTerm
  constructor
  · have : Int.ofNat (k ++ [x]).length > 0 := by
      simp only [Int.ofNat_eq_natCast, List.length_append, List.length_cons, List.length_nil]; omega
    by_cases hx : x = 16 <;> simp [this, hx]
  · simp

/-- the flag byte of `hexToCompact`: `terminator << 5`, `| 1 << 4` when odd, `| first nibble` -/
theorem gen_compact_flag :
    ∀ t < 2, Gen.C07.compactFlagTerm t = t * 32 ∧
      Gen.C07.compactFlagOdd (Gen.C07.compactFlagTerm t) = t * 32 + 16 ∧
      ∀ n < 16, Gen.C07.compactFlagNibble (Gen.C07.compactFlagOdd (Gen.C07.compactFlagTerm t)) n = t * 32 + 16 + n := by
  decide

theorem and_one_cast (n : Nat) (h : n < 2 ^ 62) : I64.and (Int.ofNat n) 1 = ((n % 2 : Nat) : Int) := by
  unfold I64.and I64.toBits I64.wrap
  simp only [Int.ofNat_eq_natCast]
  have e1 : ((n : Int) % 18446744073709551616).toNat = n := by omega
  have e2 : ((1 : Int) % 18446744073709551616).toNat = 1 := by decide
  rw [e1, e2, Nat.and_one_is_mod]
  omega

/-- `hexToCompact` of the model, with the regenerated odd test and flag arithmetic (`|` of the
first nibble; nibbles are `< 16`) -/
theorem hexToCompact_eq_gen (hex : Key) (hl : hex.length < 2 ^ 62)
    (hn : (if hasTerm hex then hex.dropLast else hex).headD 0 < 16) :
    hexToCompact hex =
      let t := if hasTerm hex then 1 else 0
      let hex' := if hasTerm hex then hex.dropLast else hex
      if Gen.C07.compactIsOdd (Int.ofNat hex'.length) then
        UInt8.ofNat (Gen.C07.compactFlagNibble (Gen.C07.compactFlagOdd (Gen.C07.compactFlagTerm t)) (hex'.headD 0)) ::
          decodeNibbles hex'.tail
      else UInt8.ofNat (Gen.C07.compactFlagTerm t) :: decodeNibbles hex' := by
  have hodd : ∀ n : Nat, n < 2 ^ 62 → Gen.C07.compactIsOdd (Int.ofNat n) = decide (n % 2 = 1) := by
    intro n h
    unfold Gen.C07.compactIsOdd
    rw [and_one_cast n h]
    have : (((n % 2 : Nat) : Int) = 1) ↔ n % 2 = 1 := by omega
    simp only [this]
  unfold hexToCompact
  simp only []
  have hl' : (if hasTerm hex then hex.dropLast else hex).length < 2 ^ 62 := by
    split
    · simp only [List.length_dropLast]; omega
    · exact hl
  rw [hodd _ hl']
  by_cases hterm : hasTerm hex = true
  · simp only [hterm, if_true] at hn ⊢
    rw [(gen_compact_flag 1 (by decide)).2.2 _ hn, (gen_compact_flag 1 (by decide)).1]
    simp only [decide_eq_true_eq]
  · simp only [hterm, Bool.false_eq_true, if_false] at hn ⊢
    rw [(gen_compact_flag 0 (by decide)).2.2 _ hn, (gen_compact_flag 0 (by decide)).1]
    simp only [decide_eq_true_eq]

/-- `buf[0] |= hex[0]` adds the first nibble (no carry into the flag bits) -/
theorem gen_compact_nibble_is_add : ∀ t < 2, ∀ n < 16,
    Gen.C07.compactFlagNibble (Gen.C07.compactFlagOdd (Gen.C07.compactFlagTerm t)) n =
      Gen.C07.compactFlagOdd (Gen.C07.compactFlagTerm t) + n := by
  decide

/-- `decodeNibbles`: `nibbles[ni]<<4 | nibbles[ni+1]` is `hi * 16 + lo` -/
theorem gen_nibblesToByte : ∀ hi < 16, ∀ lo < 16, Gen.C07.nibblesToByte hi lo = hi * 16 + lo := by
  decide

theorem decodeNibbles_eq_gen (a b : Nat) (r : Key) (ha : a < 16) (hb : b < 16) :
    decodeNibbles (a :: b :: r) = UInt8.ofNat (Gen.C07.nibblesToByte a b) :: decodeNibbles r := by
  rw [gen_nibblesToByte a ha b hb]
  rfl

/-- `keybytesToHex`: `b / 16`, `b % 16`, terminator 16, length `2 * len + 1` -/
theorem keybytesToHex_eq_gen (b : UInt8) (bs : Bytes) :
    keybytesToHex (b :: bs) = Gen.C07.byteHiNibble b.toNat :: Gen.C07.byteLoNibble b.toNat :: keybytesToHex bs ∧
    keybytesToHex [] = [Gen.C07.terminatorNibble] := by
  have hlt := UInt8.toNat_lt b
  constructor
  · have e1 : Gen.C07.byteHiNibble b.toNat = b.toNat / 16 := by
      unfold Gen.C07.byteHiNibble U64.wrapN
      simp only [Int.ofNat_eq_natCast]
      rw [Int.tdiv_eq_ediv_of_nonneg (by omega)]
      omega
    have e2 : Gen.C07.byteLoNibble b.toNat = b.toNat % 16 := by
      unfold Gen.C07.byteLoNibble U64.wrapN
      simp only [Int.ofNat_eq_natCast]
      rw [Int.tmod_eq_emod_of_nonneg (by omega)]
      omega
    rw [e1, e2]
    rfl
  · rfl

theorem gen_keybytesHexLen (bs : Bytes) (h : bs.length < 2 ^ 61) :
    Gen.C07.keybytesHexLen (Int.ofNat bs.length) = Int.ofNat (keybytesToHex bs).length := by
  have hlen : ∀ l : Bytes, (keybytesToHex l).length = 2 * l.length + 1 := by
    intro l
    induction l with
    | nil => rfl
    | cons x xs ih => simp only [keybytesToHex, List.length_cons, ih]; omega
  rw [hlen]
  unfold Gen.C07.keybytesHexLen I64.add I64.mul I64.wrap
  simp only [Int.ofNat_eq_natCast]
  omega

/-- `compactToHex`: terminator flag test `base[0] < 2` and `chop := 2 - base[0]&1` -/
theorem compactToHex_eq_gen (c : UInt8) (cs : Bytes) :
    compactToHex (c :: cs) =
      let base := keybytesToHex (c :: cs)
      let flag := base.headD 0
      let base := if Gen.C07.compactNoTerm flag then base.dropLast else base
      base.drop (Gen.C07.compactChop flag) := by
  have hchop : ∀ f < 16, Gen.C07.compactChop f = 2 - f % 2 := by decide
  have hf : (keybytesToHex (c :: cs)).headD 0 < 16 := by
    have := UInt8.toNat_lt c
    simp only [keybytesToHex, List.headD_cons]
    omega
  unfold compactToHex
  simp only []
  rw [hchop _ hf]
  unfold Gen.C07.compactNoTerm
  simp only [decide_eq_true_eq]

/-- `hexToKeybytes` panics on an odd number of nibbles -/
theorem hexToKeybytes_eq_gen (hex : Key) (hl : hex.length < 2 ^ 62) :
    hexToKeybytes hex =
      let hex' := if hasTerm hex then hex.dropLast else hex
      if Gen.C07.keybytesOddPanics (Int.ofNat hex'.length) then none else some (decodeNibbles hex') := by
  unfold hexToKeybytes
  simp only []
  have hl' : (if hasTerm hex then hex.dropLast else hex).length < 2 ^ 62 := by
    split
    · simp only [List.length_dropLast]; omega
    · exact hl
  unfold Gen.C07.keybytesOddPanics
  rw [and_one_cast _ hl']
  generalize (if hasTerm hex then hex.dropLast else hex) = h'
  have : ((((h'.length % 2 : Nat) : Int)) ≠ 0) ↔ h'.length % 2 = 1 := by omega
  simp only [this, decide_eq_true_eq]

end KV.Trie.GenBridge
