import KV.Gen.C19
import KV.Model.Evidence
/-!
# C19 — bridge between the regenerated evidence checks (tie T1) and the model `KV.Evidence`

`KV/Gen/C19.lean` is re-extracted on every check run from `types/evidence/verify.go`
(`Pool.verify`: age computation and the expiry test — *both* the duration and the block count must
be exceeded; `VerifyDuplicateVote`: every test in order, in particular the two separate power
comparisons), `types/evidence/pool.go` (`isExpired`, the next pruning height of
`removeExpiredPendingEvidence`, the guards of `Update`) and `types/evidence.go` (the ordering tests
of `ValidateBasic` and `NewDuplicateVoteEvidence`).

The theorems state that `verifyExpired`, `isExpired`, `verifyDupWith`, `validateBasic`,
`newDuplicateVoteEvidence`, `removeExpired`, `update` of the model use exactly these regenerated
pieces.  Times are `time.Time` in Go and integers (nanoseconds) in the model: `a.Sub(b)`,
`a.After(b)`, `a != b` are read as `a - b`, `a > b`, `a ≠ b` (trusted reading, in the spec).
-/
namespace KV.Evidence.GenBridge
open KV KV.Evidence

/-! ### expiry -/

/-- the expiry test of `Pool.verify`: `ageDuration > MaxAgeDuration && ageNumBlocks > MaxAgeNumBlocks`
with `ageNumBlocks = int64(LastBlockHeight) - int64(evidence.Height())` -/
theorem verifyExpired_eq_gen (p : Pool) (h : Nat) (bt : Int) (hp : p.height < 2 ^ 63) (hh : h < 2 ^ 63) :
    verifyExpired p h bt =
      Gen.C19.verifyExpired (p.time - bt) p.params.maxAgeDur
        (Gen.C19.verifyAgeNumBlocks (Gen.C19.verifyHeight p.height) h) p.params.maxAgeBlocks := by
  have e : Gen.C19.verifyAgeNumBlocks (Gen.C19.verifyHeight p.height) h = (p.height : Int) - (h : Int) := by
    unfold Gen.C19.verifyAgeNumBlocks Gen.C19.verifyHeight I64.sub I64.wrap
    simp only [Int.ofNat_eq_natCast]
    omega
  rw [e]
  rfl

/-- `Pool.isExpired`: `uint64` age (wraps for evidence above the state height) against
`uint64(MaxAgeNumBlocks)`, *and* the duration -/
theorem isExpired_eq_gen (p : Pool) (h : Nat) (t : Int) (hp : p.height < 2 ^ 64) (hh : h < 2 ^ 64) :
    isExpired p h t =
      Gen.C19.poolIsExpired (Gen.C19.poolAgeNumBlocks p.height h) p.params.maxAgeBlocks (p.time - t)
        p.params.maxAgeDur := by
  have e : Gen.C19.poolAgeNumBlocks p.height h = (p.height + two64 - h) % two64 := by
    unfold Gen.C19.poolAgeNumBlocks U64.sub U64.wrap two64
    omega
  unfold isExpired Gen.C19.poolIsExpired
  rw [e]
  rfl

/-- both expiry tests are conjunctions: evidence young in *either* measure is kept -/
theorem gen_expiry_is_conjunction (d md : Int) (n mn : Int) (un : Nat) :
    (Gen.C19.verifyExpired d md n mn = true ↔ d > md ∧ n > mn) ∧
    (Gen.C19.poolIsExpired un mn d md = true ↔ un > toU64 mn ∧ d > md) := by
  unfold Gen.C19.verifyExpired Gen.C19.poolIsExpired
  constructor
  · simp only [Bool.and_eq_true, decide_eq_true_eq]
  · simp only [Bool.and_eq_true, decide_eq_true_eq]
    exact Iff.rfl

/-- `removeExpired`: when to look again -/
theorem gen_nextPruneHeight (evHeight : Nat) (maxAge : Int) (he : evHeight < 2 ^ 64) :
    Gen.C19.nextPruneHeight evHeight maxAge = (evHeight + toU64 maxAge + 1) % two64 := by
  unfold Gen.C19.nextPruneHeight U64.add U64.wrap U64.modulus toU64 two64
  omega

theorem removeExpired_eq_gen (p : Pool) (hb : ∀ e ∈ p.pending, e.height < 2 ^ 64) :
    removeExpired p =
      match p.pending.dropWhile (fun e => isExpired p e.height e.time) with
      | [] => { p with pending := [], pruneH := p.height, pruneT := p.time }
      | e :: rest =>
        { p with pending := e :: rest,
                 pruneH := Gen.C19.nextPruneHeight e.height p.params.maxAgeBlocks,
                 pruneT := e.time + p.params.maxAgeDur + oneSecond } := by
  unfold removeExpired
  generalize hd : p.pending.dropWhile (fun e => isExpired p e.height e.time) = l
  cases l with
  | nil => rfl
  | cons e rest =>
    have hm : e ∈ p.pending := by
      have : e ∈ p.pending.dropWhile (fun e => isExpired p e.height e.time) := by rw [hd]; exact List.mem_cons_self
      exact (List.dropWhile_sublist _).subset this
    simp only [gen_nextPruneHeight e.height p.params.maxAgeBlocks (hb e hm)]

/-- `Pool.Update`: the sanity panic and the pruning guard -/
theorem update_eq_gen (p : Pool) (h : Nat) (t : Int) (l : List Evidence) (hl : p.pending.length < 2 ^ 32) :
    update p h t l =
      if Gen.C19.updatePanics h p.height then none
      else
        let p1 := { p with height := h, time := t }
        let p2 := l.foldl markCommitted p1
        some (if Gen.C19.updatePrunes p2.pending.length h p2.pruneH (decide (t > p2.pruneT)) then removeExpired p2
              else p2) := by
  unfold update Gen.C19.updatePanics Gen.C19.updatePrunes
  simp only [decide_eq_true_eq, Bool.and_eq_true, and_assoc]

/-! ### `Pool.verify`, `VerifyDuplicateVote` -/

theorem verify_time_gen (e : Evidence) (bt : Int) :
    Gen.C19.verifyTimeMismatch e.time bt = decide (e.time ≠ bt) := rfl

/-- `VerifyDuplicateVote`: the model applies the regenerated tests in the order of the source
(validator present, height/round/type, address, block id, validator power, total power,
signature A, signature B) -/
theorem verifyDupWith_eq_gen (sg : Nat → Vote → Nat → Bool) (e : Evidence) (vs : ValSet) (chain : Nat) :
    verifyDupWith sg e vs chain =
      if Gen.C19.dupNotValidator (vs.find e.a.addr).isNone then .notValidator
      else
        match vs.find e.a.addr with
        | none => .notValidator
        | some val =>
          if Gen.C19.dupHrsMismatch e.a.c.h e.b.c.h e.a.c.r e.b.c.r (e.a.c.t : Int) (e.b.c.t : Int) then .hrs
          else if Gen.C19.dupAddrMismatch (decide (e.a.addr = e.b.addr)) then .addr
          else if Gen.C19.dupSameBlock (decide (e.a.c.b = e.b.c.b)) then .sameBlock
          else if Gen.C19.dupPowerMismatch val.power e.power then .power
          else if Gen.C19.dupTotalMismatch vs.total e.total then .total
          else if Gen.C19.dupSigAInvalid (sg chain e.a val.addr) then .sigA
          else if Gen.C19.dupSigBInvalid (sg chain e.b val.addr) then .sigB
          else .ok := by
  unfold verifyDupWith Gen.C19.dupNotValidator Gen.C19.dupHrsMismatch Gen.C19.dupAddrMismatch Gen.C19.dupSameBlock
    Gen.C19.dupPowerMismatch Gen.C19.dupTotalMismatch Gen.C19.dupSigAInvalid Gen.C19.dupSigBInvalid
  rcases hf : vs.find e.a.addr with _ | val
  · rfl
  · have ht : (((e.a.c.t : Nat) : Int) ≠ ((e.b.c.t : Nat) : Int)) ↔ e.a.c.t ≠ e.b.c.t := by omega
    simp only [Option.isNone_some, Bool.false_eq_true, if_false, ht, Bool.or_eq_true, decide_eq_true_eq,
      Bool.not_eq_true', decide_eq_false_iff_not, or_assoc]

/-! ### ordering of the two votes -/

/-- `strings.Compare` on block-id keys, as an order on the model's block ids -/
def cmpKey (x y : Nat) : Int := if x < y then -1 else if x = y then 0 else 1

theorem gen_order_tests (x y : Nat) :
    Gen.C19.basicWrongOrder (cmpKey x y) = decide (x ≥ y) ∧
    Gen.C19.newEvidenceKeepsOrder (cmpKey x y) = decide (x < y) := by
  unfold Gen.C19.basicWrongOrder Gen.C19.newEvidenceKeepsOrder cmpKey
  by_cases h1 : x < y
  · have : ¬ x ≥ y := by omega
    simp [h1, this]
  · by_cases h2 : x = y
    · subst h2; simp
    · have : x ≥ y := by omega
      simp [h1, h2, this]

/-- `ValidateBasic`: votes must be strictly ordered by block id -/
theorem validateBasic_eq_gen (a b : Vote) :
    validateBasic (some a) (some b) =
      if !voteBasic a then .badA
      else if !voteBasic b then .badB
      else if Gen.C19.basicWrongOrder (cmpKey a.c.b b.c.b) then .order
      else .ok := by
  rw [(gen_order_tests a.c.b b.c.b).1]
  simp only [validateBasic, decide_eq_true_eq]

/-- `NewDuplicateVoteEvidence`: the smaller block id becomes `VoteA`; `idx == -1` = not a validator -/
theorem newDuplicateVoteEvidence_eq_gen (v1 v2 : Vote) (blockTime : Int) (vs : ValSet) (hash size : Nat) :
    newDuplicateVoteEvidence v1 v2 blockTime vs hash size =
      match vs.find v1.addr with
      | none => none
      | some val =>
        let (a, b) := if Gen.C19.newEvidenceKeepsOrder (cmpKey v1.c.b v2.c.b) then (v1, v2) else (v2, v1)
        some { a := a, b := b, total := vs.total, power := val.power, time := blockTime, hash := hash, size := size } := by
  rw [(gen_order_tests v1.c.b v2.c.b).2]
  simp only [newDuplicateVoteEvidence, decide_eq_true_eq]
  cases vs.find v1.addr <;> rfl

theorem gen_newEvidenceNotValidator (idx : Int) : Gen.C19.newEvidenceNotValidator idx = decide (idx = -1) := rfl

end KV.Evidence.GenBridge
