import KV.Proofs.SignBytes
import KV.Props.C16
/-!
# C11 — signatures bind signer and full content of votes, proposals and transactions

Model: `KV/Model/SignBytes.lean` (bit-exact sign bytes of `types.VoteSignBytes` /
`types.ProposalSignBytes`, signing-hash preimage of `Signer.Hash`, `V` arithmetic and range
checks of `Signer.Sender` / `crypto.ValidateSignatureValues`), tied to the Go code by the
differential in `harness/overlay/types/c11_test.go`.

Main results

* `vote_bytes_injective`, `proposal_bytes_injective`: equal sign bytes ⇒ equal chain id, type,
  height, round, (POL round,) block id (hash, part-set total, part-set hash), timestamp
  (seconds, nanos).  Range hypotheses: type in `int64` (Go: `int32`), and — for the block id —
  32-byte hashes, which is what `ToProto` of `types.Vote` / `types.Proposal` always produces.
  Without the 32-byte hypothesis the statement is about the *canonical* block id
  (`…_injective_wire`), and `vote_bytes_raw_blockid_counterexample` shows it cannot be more.
* `vote_proposal_disjoint`: no vote (of any type, valid or not) has the sign bytes of a proposal.
* `txhash_preimage_injective`: equal signing-hash preimages ⇒ equal signer kind / chain id,
  nonce, price, gas, recipient, value, data (RLP injectivity, C16).
* `chainid_binding`, `crosschain_rejected`, `sender_accepts_ranges`, `sign_then_sender`,
  `sigvalues_iff`.
* `binding_vote`, `binding_proposal`, `binding_vote_proposal`, `binding_tx`: the top-level
  statements, with the hash function `H` arbitrary (conclusion: the contents are equal **or** an
  explicit collision of `H`) and signature unforgeability as explicit hypotheses.
* `signtx_counterexample` (finding F22): what `types.SignTx` signs under a chain-id signer is
  never the preimage that `Sender` verifies.
-/
namespace KV.SignBytes
open KV KV.Wire KV.Rlp

/-! ## votes and proposals -/

/-- equal vote sign bytes ⇒ equal canonical (wire-level) fields; no range hypothesis beyond the
timestamp check the code itself performs -/
theorem vote_bytes_injective_wire (v w : Vote) (bs : Bytes)
    (hv : voteSignBytes v = some bs) (hw : voteSignBytes w = some bs) : v.wire = w.wire := by
  by_cases tv : v.time.valid = true
  case neg => simp [voteSignBytes, tv] at hv
  by_cases tw : w.time.valid = true
  case neg => simp [voteSignBytes, tw] at hw
  simp only [voteSignBytes, tv, tw, if_true, Option.some.injEq] at hv hw
  have hb : voteBody v = voteBody w := lenDelim_injective (hv.trans hw.symm)
  exact voteBody_inj (Time.valid_inI64 tv) (Time.valid_inI64 tw) hb

theorem proposal_bytes_injective_wire (p q : Proposal) (bs : Bytes)
    (hp : proposalSignBytes p = some bs) (hq : proposalSignBytes q = some bs) : p.wire = q.wire := by
  by_cases tp : p.time.valid = true
  case neg => simp [proposalSignBytes, tp] at hp
  by_cases tq : q.time.valid = true
  case neg => simp [proposalSignBytes, tq] at hq
  simp only [proposalSignBytes, tp, tq, if_true, Option.some.injEq] at hp hq
  have hb : proposalBody p = proposalBody q := lenDelim_injective (hp.trans hq.symm)
  exact proposalBody_inj (Time.valid_inI64 tp) (Time.valid_inI64 tq) hb

/-- both hashes of the block id are 32 bytes long: always true of `BlockID.ToProto()`
(`common.Hash` is `[32]byte`) -/
def BlockID.Hash32 (b : BlockID) : Prop := b.hash.length = 32 ∧ b.psHash.length = 32

theorem all_zero_eq_replicate (l : Bytes) (h : l.all (· == 0) = true) :
    l = List.replicate l.length 0 := by
  induction l with
  | nil => rfl
  | cons a l ih =>
    simp only [List.all_cons, Bool.and_eq_true, beq_iff_eq] at h
    rw [List.length_cons, List.replicate_succ, ← ih h.2, h.1]

theorem hashIsZero_32 (l : Bytes) (hl : l.length = 32) (h : hashIsZero l = true) :
    l = List.replicate 32 0 := by
  unfold hashIsZero at h
  rw [hl] at h
  simp only [Nat.sub_self, List.drop_zero] at h
  have := all_zero_eq_replicate l h
  rw [hl] at this; exact this

/-- on block ids with 32-byte hashes canonicalisation loses nothing -/
theorem canonBlockID_injective (a b : BlockID) (ha : a.Hash32) (hb : b.Hash32)
    (h : canonBlockID a = canonBlockID b) : a = b := by
  unfold canonBlockID at h
  by_cases za : a.isZero = true <;> by_cases zb : b.isZero = true
  · unfold BlockID.isZero at za zb
    simp only [Bool.and_eq_true, beq_iff_eq] at za zb
    have h1 := hashIsZero_32 _ ha.1 za.1.1
    have h2 := hashIsZero_32 _ ha.2 za.2
    have h3 := hashIsZero_32 _ hb.1 zb.1.1
    have h4 := hashIsZero_32 _ hb.2 zb.2
    cases a; cases b; simp_all
  · simp [za, zb] at h
  · simp [za, zb] at h
  · simpa [za, zb] using h

/-- **vote sign bytes are injective**: two votes with the same sign bytes have the same chain
id, type, height, round, block id (hash, part-set total, part-set hash) and timestamp -/
theorem vote_bytes_injective (v w : Vote) (bs : Bytes)
    (hv : voteSignBytes v = some bs) (hw : voteSignBytes w = some bs)
    (htv : InI64 v.type) (htw : InI64 w.type)
    (hbv : v.blockID.Hash32) (hbw : w.blockID.Hash32) : v = w := by
  have h := vote_bytes_injective_wire v w bs hv hw
  simp only [Vote.wire, VoteWire.mk.injEq] at h
  obtain ⟨h1, h2, h3, h4, h5, h6⟩ := h
  have h1' := u64OfInt_injective htv htw h1
  have h4' := canonBlockID_injective _ _ hbv hbw h4
  cases v; cases w; simp_all

/-- **proposal sign bytes are injective** (incl. POL round) -/
theorem proposal_bytes_injective (p q : Proposal) (bs : Bytes)
    (hp : proposalSignBytes p = some bs) (hq : proposalSignBytes q = some bs)
    (hbp : p.blockID.Hash32) (hbq : q.blockID.Hash32) : p = q := by
  have h := proposal_bytes_injective_wire p q bs hp hq
  simp only [Proposal.wire, ProposalWire.mk.injEq] at h
  obtain ⟨h1, h2, h3, h4, h5, h6⟩ := h
  have h4' := canonBlockID_injective _ _ hbp hbq h4
  cases p; cases q; simp_all

/-- At the raw `kproto` level (hash fields of arbitrary length handed straight to
`VoteSignBytes`) injectivity in the block id **fails**: every representation of the zero block
id (`nil`, `[0]`, 32 zeros, 40 bytes whose last 32 are zero, …) is canonicalised to "no block
id".  Not exploitable through `Vote.Verify` / evidence / commit verification, which all
re-encode from `types.Vote` (`ToProto`, 32-byte hashes) — see `vote_bytes_injective`. -/
theorem vote_bytes_raw_blockid_counterexample :
    ∃ v w : Vote, v ≠ w ∧ (voteSignBytes v).isSome = true ∧ voteSignBytes v = voteSignBytes w := by
  let t : Time := { secs := 0, nanos := 0 }
  refine ⟨{ chain := [], type := 1, height := 1, round := 0,
            blockID := { hash := [], total := 0, psHash := [] }, time := t },
          { chain := [], type := 1, height := 1, round := 0,
            blockID := { hash := [1, 0, 0, 0, 0, 0, 0, 0, 0, 0, 0, 0, 0, 0, 0, 0, 0, 0, 0, 0, 0, 0,
              0, 0, 0, 0, 0, 0, 0, 0, 0, 0, 0], total := 0, psHash := [0] }, time := t }, ?_, ?_, ?_⟩
  · simp
  · simp [voteSignBytes, Time.valid, minValidSeconds, maxValidSeconds, t]
  · simp [voteSignBytes, voteBody, canonBlockID, BlockID.isZero, hashIsZero, t]

/-! ### a vote is never a proposal -/

theorem fVarint_head (f n : Nat) (r : Bytes) (hf : f * 8 < 128) (hn : n ≠ 0) :
    (fVarint f n ++ r).head? = some (UInt8.ofNat (f * 8)) := by
  unfold fVarint
  simp only [hn, if_false, List.append_assoc]
  rw [tag_append f wtVarint (by simp [wtVarint]; omega)]; rfl

theorem fBytes_head (f : Nat) (bs r : Bytes) (hf : f * 8 + 2 < 128) (hn : bs ≠ []) :
    (fBytes f bs ++ r).head? = some (UInt8.ofNat (f * 8 + 2)) := by
  unfold fBytes
  simp only [hn, if_false, List.append_assoc]
  rw [tag_append f wtLen hf]; rfl

/-- a timestamp body is never a block-id body: first key 0x08/0x10 (or nothing) against
0x0a/0x12 -/
theorem tsBody_ne_blockIDBody (t : Time) (b : BlockID) : tsBody t ≠ blockIDBody b := by
  intro h
  have hb : (blockIDBody b).head? = some (UInt8.ofNat 10) ∨
      (blockIDBody b).head? = some (UInt8.ofNat 18) := by
    unfold blockIDBody
    by_cases hh : b.hash = []
    · right
      have := fMsg_head 2 (pshBody b.total b.psHash) [] (by decide)
      simpa [fBytes, hh] using this
    · left; exact fBytes_head 1 _ _ (by decide) hh
  have ht : tsBody t = [] ∨ (tsBody t).head? = some (UInt8.ofNat 8) ∨
      (tsBody t).head? = some (UInt8.ofNat 16) := by
    unfold tsBody
    by_cases hs : u64OfInt t.secs = 0
    · by_cases hn : t.nanos = 0
      · left; simp [fVarint, hs, hn]
      · right; right
        have := fVarint_head 2 t.nanos [] (by decide) hn
        simpa [fVarint, hs] using this
    · right; left; exact fVarint_head 1 _ _ (by decide) hs
  rw [h] at ht
  rcases ht with ht | ht | ht
  · rw [ht] at hb; simp at hb
  · rcases hb with hb | hb <;> rw [hb] at ht <;> revert ht <;> decide
  · rcases hb with hb | hb <;> rw [hb] at ht <;> revert ht <;> decide

/-- the parts after `round`: `[0x22 block id] 0x2a timestamp [0x32 chain]` (vote) against
`[0x20 pol] [0x2a block id] 0x32 timestamp [0x3a chain]` (proposal) -/
theorem vote_prop_tail_ne (ov op : Option Bytes) (tv tp cv cp : Bytes) (pol : Nat)
    (hop : ∀ y, op = some y → tv ≠ y) :
    fMsgOpt 4 ov ++ (fMsg 5 tv ++ fBytes 6 cv) ≠
      fVarint 4 pol ++ (fMsgOpt 5 op ++ (fMsg 6 tp ++ fBytes 7 cp)) := by
  intro h
  have hl := congrArg List.head? h
  by_cases hpol : pol = 0
  · subst hpol
    cases ov <;> cases op
    · simp only [fMsgOpt, fVarint, if_true, List.nil_append] at hl
      rw [fMsg_head 5 _ _ (by decide), fMsg_head 6 _ _ (by decide)] at hl
      revert hl; decide
    · rename_i y
      simp only [fMsgOpt, fVarint, if_true, List.nil_append] at h
      exact hop y rfl (fMsg_inj h).1
    · simp only [fMsgOpt, fVarint, if_true, List.nil_append] at hl
      rw [fMsg_head 4 _ _ (by decide), fMsg_head 6 _ _ (by decide)] at hl
      revert hl; decide
    · simp only [fMsgOpt, fVarint, if_true, List.nil_append] at hl
      rw [fMsg_head 4 _ _ (by decide), fMsg_head 5 _ _ (by decide)] at hl
      revert hl; decide
  · rw [fVarint_head 4 pol _ (by decide) hpol] at hl
    cases ov
    · simp only [fMsgOpt, List.nil_append] at hl
      rw [fMsg_head 5 _ _ (by decide)] at hl
      revert hl; decide
    · simp only [fMsgOpt] at hl
      rw [fMsg_head 4 _ _ (by decide)] at hl
      revert hl; decide

/-- **a vote's sign bytes are never a proposal's**, whatever the vote's type field holds
(also for the invalid type 32) and whatever the chain ids -/
theorem vote_proposal_disjoint (v : Vote) (p : Proposal) (bs : Bytes)
    (hv : voteSignBytes v = some bs) (hp : proposalSignBytes p = some bs) : False := by
  by_cases tv : v.time.valid = true
  case neg => simp [voteSignBytes, tv] at hv
  by_cases tp : p.time.valid = true
  case neg => simp [proposalSignBytes, tp] at hp
  simp only [voteSignBytes, tv, if_true, Option.some.injEq] at hv
  simp only [proposalSignBytes, tp, if_true, Option.some.injEq] at hp
  have h : voteBody v = proposalBody p := lenDelim_injective (hv.trans hp.symm)
  unfold voteBody proposalBody at h
  obtain ⟨_, h⟩ := fVarint_inj (f := 1) (by decide) (vote_tail1 v) (prop_tail1 p) h
  obtain ⟨_, h⟩ := fVarint_inj (f := 2) (by decide) (vote_tail2 v) (prop_tail2 p) h
  obtain ⟨_, h⟩ := fVarint_inj (f := 3) (by decide) (vote_tail3 v) (prop_tail3 p) h
  refine vote_prop_tail_ne _ _ _ _ _ _ _ ?_ h
  intro y hy
  cases hcb : canonBlockID p.blockID with
  | none => rw [hcb] at hy; simp at hy
  | some b =>
    rw [hcb] at hy
    simp only [Option.map_some, Option.some.injEq] at hy
    rw [← hy]
    exact tsBody_ne_blockIDBody _ _

/-! ## transaction signing hash -/

theorem beBytes_injective {a b : Nat} (h : beBytes a = beBytes b) : a = b := by
  have := congrArg beVal h
  rwa [beVal_beBytes, beVal_beBytes] at this

/-- the recipient is absent (contract creation) or a 20-byte address (`*common.Address`) -/
def Tx.ToOk (t : Tx) : Prop := ∀ a, t.to = some a → a.length = 20

theorem toBytes_injective {a b : Option Bytes} (ha : ∀ x, a = some x → x.length = 20)
    (hb : ∀ x, b = some x → x.length = 20) (h : toBytes a = toBytes b) : a = b := by
  cases a <;> cases b
  · rfl
  · rename_i y; have := hb y rfl; simp only [toBytes] at h; rw [← h] at this; simp at this
  · rename_i x; have := ha x rfl; simp only [toBytes] at h; rw [h] at this; simp at this
  · simp only [toBytes] at h; rw [h]

theorem chainSuffix_injective {c d : Option Nat} (h : chainSuffix c = chainSuffix d) : c = d := by
  cases c <;> cases d <;> simp [chainSuffix] at h
  · rfl
  · rw [beBytes_injective h]

theorem txItem_injective (c d : Option Nat) (t u : Tx) (ht : t.ToOk) (hu : u.ToOk)
    (h : txItem c t = txItem d u) : c = d ∧ t = u := by
  unfold txItem at h
  simp only [Item.list.injEq, Items.cons.injEq, Item.str.injEq] at h
  obtain ⟨h1, h2, h3, h4, h5, h6, h7⟩ := h
  refine ⟨chainSuffix_injective h7, ?_⟩
  have e1 := beBytes_injective h1
  have e2 := beBytes_injective h2
  have e3 := beBytes_injective h3
  have e4 := toBytes_injective ht hu h4
  have e5 := beBytes_injective h5
  cases t; cases u; simp_all

/-- **the signing-hash preimage determines the transaction and the chain id**: equal preimages
⇒ same signer kind (Homestead list of 6 / chain-id list of 9), same chain id, nonce, price, gas,
recipient, value and data.  `Item.ok` only says that every length fits 64 bits (what `lib/rlp`
can represent at all). -/
theorem txhash_preimage_injective (c d : Option Nat) (t u : Tx)
    (hokt : Item.ok (txItem c t)) (hoku : Item.ok (txItem d u)) (ht : t.ToOk) (hu : u.ToOk)
    (h : txSigPreimage c t = txSigPreimage d u) : c = d ∧ t = u :=
  txItem_injective c d t u ht hu (enc_injective _ _ hokt hoku h)

/-- in particular a replay-protected preimage is never an unprotected one, and the chain id is
part of what is hashed -/
theorem txhash_preimage_chain (c d : Option Nat) (t : Tx)
    (hc : Item.ok (txItem c t)) (hd : Item.ok (txItem d t)) (ht : t.ToOk)
    (h : txSigPreimage c t = txSigPreimage d t) : c = d :=
  (txhash_preimage_injective c d t t hc hd ht ht h).1

theorem header_length_le (off len : Nat) (h : len < 2 ^ 64) : (header off len).length ≤ 9 := by
  unfold header
  split
  · simp
  · have := beBytes_length_le 8 len (by omega)
    simp only [List.length_cons]; omega

theorem enc_str_length_le (bs : Bytes) (h : bs.length < 2 ^ 64) :
    (enc (.str bs)).length ≤ bs.length + 9 := by
  have hh := header_length_le 128 bs.length h
  match bs, hh with
  | [], _ => simp [enc, header]
  | [b], _ => simp only [enc]; split <;> simp [header]
  | a :: b :: t, hh => simp only [enc, List.length_append]; omega

/-- the ranges of the Go types: `uint64` nonce and gas, 256-bit price / value / chain id, data
shorter than 4 GiB -/
def Tx.Bounded (c : Option Nat) (t : Tx) : Prop :=
  t.nonce < 256 ^ 8 ∧ t.gas < 256 ^ 8 ∧ t.price < 256 ^ 32 ∧ t.value < 256 ^ 32 ∧
    t.data.length < 2 ^ 32 ∧ (∀ n, c = some n → n < 256 ^ 32)

theorem txItem_ok (c : Option Nat) (t : Tx) (hb : t.Bounded c) (ht : t.ToOk) :
    Item.ok (txItem c t) := by
  obtain ⟨b1, b2, b3, b4, b5, b6⟩ := hb
  have l1 := beBytes_length_le 8 _ b1
  have l2 := beBytes_length_le 8 _ b2
  have l3 := beBytes_length_le 32 _ b3
  have l4 := beBytes_length_le 32 _ b4
  have l5 : (toBytes t.to).length ≤ 20 := by
    cases hto : t.to with
    | none => simp [toBytes]
    | some a => have := ht a hto; simp [toBytes]; omega
  have e1 := enc_str_length_le (beBytes t.nonce) (by omega)
  have e2 := enc_str_length_le (beBytes t.gas) (by omega)
  have e3 := enc_str_length_le (beBytes t.price) (by omega)
  have e4 := enc_str_length_le (beBytes t.value) (by omega)
  have e5 := enc_str_length_le (toBytes t.to) (by omega)
  have e6 := enc_str_length_le t.data (by omega)
  have e0 : (enc (.str [])).length ≤ 9 := by simpa using enc_str_length_le [] (by simp)
  cases c with
  | none =>
    simp only [txItem, chainSuffix, Item.ok, Items.ok, encs, List.length_append, List.length_nil,
      and_true]
    repeat' apply And.intro
    all_goals omega
  | some n =>
    have l7 := beBytes_length_le 32 _ (b6 n rfl)
    have e7 := enc_str_length_le (beBytes n) (by omega)
    simp only [txItem, chainSuffix, Item.ok, Items.ok, encs, List.length_append, List.length_nil,
      and_true]
    repeat' apply And.intro
    all_goals omega

/-- `txhash_preimage_injective` with the Go types' ranges instead of `Item.ok` -/
theorem txhash_preimage_injective_bounded (c d : Option Nat) (t u : Tx)
    (hbt : t.Bounded c) (hbu : u.Bounded d) (ht : t.ToOk) (hu : u.ToOk)
    (h : txSigPreimage c t = txSigPreimage d u) : c = d ∧ t = u :=
  txhash_preimage_injective c d t u (txItem_ok c t hbt ht) (txItem_ok d u hbu hu) ht hu h

/-- **Finding F22** (`types.SignTx` hashes `sigHash(tx)` instead of `signer.Hash(tx)`): for a
chain-id signer the bytes that are signed are never the bytes `Sender` hashes when it verifies -/
theorem signtx_counterexample (c : Nat) (t : Tx)
    (h6 : Item.ok (txItem none t)) (h9 : Item.ok (txItem (some c) t)) (ht : t.ToOk) :
    signTxPreimage (some c) t ≠ txSigPreimage (some c) t := by
  intro h
  have := txhash_preimage_chain none (some c) t h6 h9 ht h
  simp at this

/-! ## signature values and the chain id in `V` -/

/-- **accepted ⇔ the stated ranges** -/
theorem sigvalues_iff (v r s : Nat) (hs : Bool) :
    validateSignatureValues v r s hs = true ↔
      (1 ≤ r ∧ r < secpN ∧ 1 ≤ s ∧ s < secpN ∧ (hs = true → s ≤ secpHalfN) ∧ (v = 0 ∨ v = 1)) := by
  unfold validateSignatureValues
  cases hs <;> simp <;> omega

/-- with the Homestead rule (the only one `recoverPlain` is ever called with):
`1 ≤ r < N`, `1 ≤ s ≤ N/2`, `v ∈ {0, 1}` -/
theorem sigvalues_homestead (v r s : Nat) :
    validateSignatureValues v r s true = true ↔
      (1 ≤ r ∧ r < secpN ∧ 1 ≤ s ∧ s ≤ secpHalfN ∧ (v = 0 ∨ v = 1)) := by
  rw [sigvalues_iff]
  unfold secpHalfN secpN
  constructor
  · rintro ⟨a, b, c, d, e, f⟩; exact ⟨a, b, c, e rfl, f⟩
  · rintro ⟨a, b, c, d, e⟩; exact ⟨a, b, c, by omega, fun _ => d, e⟩

/-- the high-s twin `(r, N - s)` of an accepted signature is rejected (no malleability) -/
theorem high_s_twin_rejected (v v' r s : Nat) (h : validateSignatureValues v r s true = true) :
    validateSignatureValues v' r (secpN - s) true = false := by
  rw [sigvalues_homestead] at h
  cases hh : validateSignatureValues v' r (secpN - s) true with
  | false => rfl
  | true =>
    rw [sigvalues_homestead] at hh
    unfold secpHalfN secpN at *
    omega

theorem recoverPlainCheck_recover {hc hc' : Option Nat} {vb : Int} {r s recid : Nat}
    (h : recoverPlainCheck hc vb r s = .recover hc' recid) :
    hc' = hc ∧ vb.natAbs = 27 + recid ∧ validateSignatureValues recid r s true = true := by
  unfold recoverPlainCheck at h
  by_cases h1 : vb.natAbs ≥ 256
  · simp [h1] at h
  · simp only [h1, if_false] at h
    split at h
    · rename_i hv
      simp only [SenderResult.recover.injEq] at h
      obtain ⟨e1, e2⟩ := h
      subst e1
      rw [e2] at hv
      refine ⟨rfl, ?_, hv⟩
      have := (sigvalues_iff _ _ _ _).mp hv
      omega
    · simp at h

theorem recoverPlainCheck_ne_chainid (hc : Option Nat) (vb : Int) (r s : Nat) :
    recoverPlainCheck hc vb r s ≠ .invalidChainId := by
  unfold recoverPlainCheck
  split
  · simp
  · simp only []; split <;> simp

theorem recoverPlainCheck_ok (hc : Option Nat) (vb : Int) (recid r s : Nat)
    (h : vb = 27 + (recid : Int)) (hrec : recid ≤ 1)
    (hval : validateSignatureValues recid r s true = true) :
    recoverPlainCheck hc vb r s = .recover hc recid := by
  have h1 : ¬ vb.natAbs ≥ 256 := by omega
  have h2 : (((vb.natAbs : Int) - 27) % 256).toNat = recid := by omega
  unfold recoverPlainCheck
  simp only [h1, if_false, h2, hval, if_true]

/-- whatever `Sender` accepts has `r`, `s` in range with low `s`, a recovery id in `{0,1}`, and
`V` is exactly `27 + recid` (unprotected, Homestead hash) or `35 + 2·chainId + recid` with
`chainId` the signer's (protected, chain-id hash).  Nothing else reaches `Ecrecover`. -/
theorem sender_accepts_ranges (signer : Option Nat) (v r s : Nat) (hc : Option Nat) (recid : Nat)
    (h : senderCheck signer v r s = .recover hc recid) :
    (1 ≤ r ∧ r < secpN ∧ 1 ≤ s ∧ s ≤ secpHalfN ∧ recid ≤ 1) ∧
    ((hc = none ∧ v = 27 + recid) ∨
     (∃ c, signer = some c ∧ hc = some c ∧ v = 35 + 2 * c + recid)) := by
  unfold senderCheck at h
  cases signer with
  | none =>
    simp only at h
    obtain ⟨e, hv, hval⟩ := recoverPlainCheck_recover h
    have hr := (sigvalues_homestead _ _ _).mp hval
    refine ⟨⟨hr.1, hr.2.1, hr.2.2.1, hr.2.2.2.1, by omega⟩, Or.inl ⟨e, by omega⟩⟩
  | some c =>
    simp only at h
    by_cases hp : isProtectedV v = true
    · simp only [hp, Bool.not_true, Bool.false_eq_true, if_false] at h
      by_cases hd : deriveChainId v ≠ c
      · simp [hd] at h
      · simp only [hd, if_false] at h
        obtain ⟨e, hv, hval⟩ := recoverPlainCheck_recover h
        have hr := (sigvalues_homestead _ _ _).mp hval
        refine ⟨⟨hr.1, hr.2.1, hr.2.2.1, hr.2.2.2.1, by omega⟩, Or.inr ⟨c, rfl, e, ?_⟩⟩
        have hd' : deriveChainId v = c := by omega
        unfold deriveChainId at hd'
        have hrec : recid ≤ 1 := by omega
        split at hd'
        · split at hd'
          · unfold isProtectedV at hp
            rename_i h27
            rcases h27 with h27 | h27 <;> subst h27 <;> simp at hp
          · omega
        · omega
    · simp only [hp, Bool.not_false, if_true] at h
      obtain ⟨e, hv, hval⟩ := recoverPlainCheck_recover h
      have hr := (sigvalues_homestead _ _ _).mp hval
      refine ⟨⟨hr.1, hr.2.1, hr.2.2.1, hr.2.2.2.1, by omega⟩, Or.inl ⟨e, by omega⟩⟩

/-- **chain-id binding**: a protected `V` decodes to exactly one chain id; if the signer's chain
id is another one, `Sender` answers `ErrInvalidChainId` — before any hashing or recovery -/
theorem chainid_binding (c v r s : Nat) (hp : isProtectedV v = true) (hne : deriveChainId v ≠ c) :
    senderCheck (some c) v r s = .invalidChainId := by
  simp [senderCheck, hp, hne]

/-- a transaction accepted (up to the curve operation) under chain id `c` with the chain-id hash
is rejected under every other chain id: **no cross-chain replay of protected transactions** -/
theorem crosschain_rejected (c d v r s recid : Nat) (hcd : d ≠ c)
    (h : senderCheck (some c) v r s = .recover (some c) recid) :
    senderCheck (some d) v r s = .invalidChainId := by
  obtain ⟨_, hshape⟩ := sender_accepts_ranges _ _ _ _ _ _ h
  rcases hshape with ⟨e, _⟩ | ⟨c', e1, e2, hv⟩
  · simp at e
  · simp only [Option.some.injEq] at e1 e2
    subst e1
    have hrec : recid ≤ 1 := (sender_accepts_ranges _ _ _ _ _ _ h).1.2.2.2.2
    apply chainid_binding
    · unfold isProtectedV; split <;> simp <;> omega
    · unfold deriveChainId; split
      · split <;> omega
      · omega

/-- and it is not accepted by the Homestead signer either -/
theorem protected_rejected_by_homestead (c v r s recid : Nat)
    (h : senderCheck (some c) v r s = .recover (some c) recid) :
    senderCheck none v r s = .invalidSig := by
  obtain ⟨_, hshape⟩ := sender_accepts_ranges _ _ _ _ _ _ h
  have hrec : recid ≤ 1 := (sender_accepts_ranges _ _ _ _ _ _ h).1.2.2.2.2
  rcases hshape with ⟨e, _⟩ | ⟨c', e1, e2, hv⟩
  · simp at e
  · cases hh : senderCheck none v r s with
    | invalidSig => rfl
    | invalidChainId => exact absurd hh (by simpa [senderCheck] using recoverPlainCheck_ne_chainid none v r s)
    | recover hc' rec' =>
      obtain ⟨_, hshape'⟩ := sender_accepts_ranges _ _ _ _ _ _ hh
      have hrec' : rec' ≤ 1 := (sender_accepts_ranges _ _ _ _ _ _ hh).1.2.2.2.2
      rcases hshape' with ⟨_, hv'⟩ | ⟨_, e, _⟩
      · omega
      · simp at e

/-- **sign then recover** (model level): the `V` that `SignatureValues` stores for a chain-id
signer with non-zero chain id makes `Sender` recover with the same recovery id over the
chain-id hash; for the Homestead signer over the six-field hash -/
theorem sign_then_sender (signer : Option Nat) (recid r s : Nat) (hrec : recid ≤ 1)
    (hc : ∀ c, signer = some c → c ≠ 0)
    (hval : validateSignatureValues recid r s true = true) :
    senderCheck signer (signatureV signer recid) r s = .recover signer recid := by
  cases signer with
  | none =>
    have e : (recid + 27) % 256 = recid + 27 := by omega
    simp only [senderCheck, signatureV, e]
    exact recoverPlainCheck_ok none _ recid r s (by omega) hrec hval
  | some c =>
    have hc0 := hc c rfl
    have e1 : (recid + 35) % 256 = recid + 35 := by omega
    have hv : signatureV (some c) recid = recid + 35 + 2 * c := by simp [signatureV, hc0, e1]
    have hp : isProtectedV (recid + 35 + 2 * c) = true := by
      unfold isProtectedV; split <;> simp <;> omega
    have hd : deriveChainId (recid + 35 + 2 * c) = c := by
      unfold deriveChainId; split
      · split <;> omega
      · omega
    simp only [hv, senderCheck, hp, hd, Bool.not_true, Bool.false_eq_true, if_false, ne_eq,
      not_true_eq_false]
    exact recoverPlainCheck_ok (some c) _ recid r s (by omega) hrec hval

/-- the chain-id signer with chain id 0 (`NewChainIDSigner(nil)`) is degenerate: it stores an
unprotected `V`, so `Sender` verifies against the *six-field* hash although `Hash` has nine
fields (inherited from go-ethereum's EIP155Signer; the node never builds this signer for a
configured chain) -/
theorem chainid_zero_degenerate (recid r s : Nat) (hrec : recid ≤ 1)
    (hval : validateSignatureValues recid r s true = true) :
    senderCheck (some 0) (signatureV (some 0) recid) r s = .recover none recid := by
  have e : signatureV (some 0) recid = signatureV none recid := by simp [signatureV]
  have hu : isProtectedV (signatureV none recid) = false := by
    have : (recid + 27) % 256 = recid + 27 := by omega
    unfold isProtectedV signatureV
    simp only [this]
    have : recid = 0 ∨ recid = 1 := by omega
    rcases this with h | h <;> subst h <;> simp
  have := sign_then_sender none recid r s hrec (by simp) hval
  rw [e]
  simpa [senderCheck, hu] using this

/-! ## top level: binding

`H` is the hash (Keccak-256 in the code) — arbitrary here; every conclusion is "the contents
are equal **or** here is a collision of `H`".  `recover d σ` is public-key recovery
(`crypto.SigToPub` + `PubkeyToAddress`; `Vote.Verify`, `VerifySignature` and `Sender` accept
address `a` for digest `d` and signature `σ` iff `recover d σ = some a`).  `produced a d σ` means
"`a`'s key produced `σ` over digest `d`".  Unforgeability is the pair of **hypotheses**

* `hunf`: a signature accepted for address `a` over digest `d` was produced by `a`'s key over `d`;
* `hone`: one signature was produced by `a`'s key over one digest only.
-/

section Binding
variable {Addr Sig : Type}

/-- same message, same signature: only one signer is ever accepted (this is the comparison of the
recovered address in `VerifySignature` / `Vote.Verify`) -/
theorem binding_signer (recover : Bytes → Sig → Option Addr) (d : Bytes) (σ : Sig) (a a' : Addr)
    (h1 : recover d σ = some a) (h2 : recover d σ = some a') : a = a' := by
  rw [h1] at h2; exact Option.some.inj h2

/-- generic step: two accepted byte strings under the same signer and signature are equal, or
`H` collides -/
theorem binding_bytes (H : Bytes → Bytes) (recover : Bytes → Sig → Option Addr)
    (produced : Addr → Bytes → Sig → Prop)
    (hunf : ∀ a d σ, recover d σ = some a → produced a d σ)
    (hone : ∀ a d d' σ, produced a d σ → produced a d' σ → d = d')
    (a : Addr) (σ : Sig) (x y : Bytes)
    (h1 : recover (H x) σ = some a) (h2 : recover (H y) σ = some a) :
    x = y ∨ ∃ x y : Bytes, x ≠ y ∧ H x = H y := by
  have hd := hone a _ _ σ (hunf _ _ _ h1) (hunf _ _ _ h2)
  by_cases hxy : x = y
  · exact Or.inl hxy
  · exact Or.inr ⟨x, y, hxy, hd⟩

/-- **C11 for votes**: a signature accepted for signer `a` on vote `v` (under chain id
`v.chain`) is accepted for `a` on no vote that differs in chain id, type, height, round, block
id or timestamp -/
theorem binding_vote (H : Bytes → Bytes) (recover : Bytes → Sig → Option Addr)
    (produced : Addr → Bytes → Sig → Prop)
    (hunf : ∀ a d σ, recover d σ = some a → produced a d σ)
    (hone : ∀ a d d' σ, produced a d σ → produced a d' σ → d = d')
    (a : Addr) (σ : Sig) (v w : Vote) (bv bw : Bytes)
    (hv : voteSignBytes v = some bv) (hw : voteSignBytes w = some bw)
    (htv : InI64 v.type) (htw : InI64 w.type)
    (hbv : v.blockID.Hash32) (hbw : w.blockID.Hash32)
    (h1 : recover (H bv) σ = some a) (h2 : recover (H bw) σ = some a) :
    v = w ∨ ∃ x y : Bytes, x ≠ y ∧ H x = H y := by
  rcases binding_bytes H recover produced hunf hone a σ bv bw h1 h2 with h | h
  · subst h; exact Or.inl (vote_bytes_injective v w bv hv hw htv htw hbv hbw)
  · exact Or.inr h

/-- **C11 for proposals** (incl. POL round) -/
theorem binding_proposal (H : Bytes → Bytes) (recover : Bytes → Sig → Option Addr)
    (produced : Addr → Bytes → Sig → Prop)
    (hunf : ∀ a d σ, recover d σ = some a → produced a d σ)
    (hone : ∀ a d d' σ, produced a d σ → produced a d' σ → d = d')
    (a : Addr) (σ : Sig) (p q : Proposal) (bp bq : Bytes)
    (hp : proposalSignBytes p = some bp) (hq : proposalSignBytes q = some bq)
    (hbp : p.blockID.Hash32) (hbq : q.blockID.Hash32)
    (h1 : recover (H bp) σ = some a) (h2 : recover (H bq) σ = some a) :
    p = q ∨ ∃ x y : Bytes, x ≠ y ∧ H x = H y := by
  rcases binding_bytes H recover produced hunf hone a σ bp bq h1 h2 with h | h
  · subst h; exact Or.inl (proposal_bytes_injective p q bp hp hq hbp hbq)
  · exact Or.inr h

/-- **C11 across message kinds**: a signature accepted on a vote is accepted on a proposal by
the same signer only through a collision of `H` -/
theorem binding_vote_proposal (H : Bytes → Bytes) (recover : Bytes → Sig → Option Addr)
    (produced : Addr → Bytes → Sig → Prop)
    (hunf : ∀ a d σ, recover d σ = some a → produced a d σ)
    (hone : ∀ a d d' σ, produced a d σ → produced a d' σ → d = d')
    (a : Addr) (σ : Sig) (v : Vote) (p : Proposal) (bv bp : Bytes)
    (hv : voteSignBytes v = some bv) (hp : proposalSignBytes p = some bp)
    (h1 : recover (H bv) σ = some a) (h2 : recover (H bp) σ = some a) :
    ∃ x y : Bytes, x ≠ y ∧ H x = H y := by
  rcases binding_bytes H recover produced hunf hone a σ bv bp h1 h2 with h | h
  · subst h; exact (vote_proposal_disjoint v p bv hv hp).elim
  · exact h

/-- **C11 for transactions**: the same signature values `(V, R, S)` carried by two transactions,
each accepted by *some* signer (`Sender` passes its checks and the curve operation recovers the
same address `a`): then the two signers hash with the same chain id and the transactions agree in
nonce, price, gas, recipient, value and data — or `H` collides.  So a signed transaction cannot
be altered in any field, nor moved to another chain id, without changing the recovered sender.
Here a signature is the triple `(r, s, recovery id)` handed to `Ecrecover`. -/
theorem binding_tx (H : Bytes → Bytes) (recover : Bytes → (Nat × Nat × Nat) → Option Addr)
    (produced : Addr → Bytes → (Nat × Nat × Nat) → Prop)
    (hunf : ∀ a d σ, recover d σ = some a → produced a d σ)
    (hone : ∀ a d d' σ, produced a d σ → produced a d' σ → d = d')
    (a : Addr) (sg sg' : Option Nat) (v r s : Nat) (t u : Tx)
    (hc hc' : Option Nat) (recid recid' : Nat)
    (hs : senderCheck sg v r s = .recover hc recid)
    (hs' : senderCheck sg' v r s = .recover hc' recid')
    (hokt : Item.ok (txItem hc t)) (hoku : Item.ok (txItem hc' u)) (ht : t.ToOk) (hu : u.ToOk)
    (h1 : recover (H (txSigPreimage hc t)) (r, s, recid) = some a)
    (h2 : recover (H (txSigPreimage hc' u)) (r, s, recid') = some a) :
    (hc = hc' ∧ t = u) ∨ ∃ x y : Bytes, x ≠ y ∧ H x = H y := by
  obtain ⟨⟨_, _, _, _, hr⟩, hsh⟩ := sender_accepts_ranges _ _ _ _ _ _ hs
  obtain ⟨⟨_, _, _, _, hr'⟩, hsh'⟩ := sender_accepts_ranges _ _ _ _ _ _ hs'
  have hrec : recid = recid' := by
    rcases hsh with ⟨_, e⟩ | ⟨c, _, _, e⟩ <;> rcases hsh' with ⟨_, e'⟩ | ⟨c', _, _, e'⟩ <;> omega
  subst hrec
  rcases binding_bytes H recover produced hunf hone a (r, s, recid) _ _ h1 h2 with h | h
  · exact Or.inl (txhash_preimage_injective hc hc' t u hokt hoku ht hu h)
  · exact Or.inr h

end Binding

/-! ## non-vacuity -/

/-- a concrete prevote: its sign bytes exist and are the 14 bytes the Go code produces
(`0d 08 01 10 05 2a 00 32 05 "test1"`) -/
example : voteSignBytes ⟨[0x74, 0x65, 0x73, 0x74, 0x31], 1, 5, 0, ⟨[], 0, []⟩, ⟨0, 0⟩⟩ =
    some [0x0d, 0x08, 0x01, 0x10, 0x05, 0x2a, 0x00, 0x32, 0x05, 0x74, 0x65, 0x73, 0x74, 0x31] := by
  simp [voteSignBytes, Time.valid, minValidSeconds, maxValidSeconds, voteBody, canonBlockID,
    BlockID.isZero, hashIsZero, fVarint, fMsgOpt, fMsg, fBytes, tsBody, lenDelim, tag, wtVarint,
    wtLen, u64OfInt, varint]

/-- the range hypotheses of `vote_bytes_injective` are satisfiable (32-byte hashes, `int32` type) -/
example : (BlockID.mk (List.replicate 32 7) 3 (List.replicate 32 9)).Hash32 ∧ InI64 2 := by
  simp [BlockID.Hash32, InI64]

/-- out-of-range time: the Go function panics, the model says `none` -/
example : voteSignBytes ⟨[], 1, 1, 0, ⟨[], 0, []⟩, ⟨253402300800, 0⟩⟩ = none := by
  simp [voteSignBytes, Time.valid, minValidSeconds, maxValidSeconds]

/-- the range hypotheses on transactions are satisfiable -/
example : Tx.Bounded (some 1) ⟨0, 1, 21000, none, 0, []⟩ ∧ Tx.ToOk ⟨0, 1, 21000, none, 0, []⟩ := by
  refine ⟨⟨by decide, by decide, by decide, by decide, by decide, ?_⟩, by intro a h; simp at h⟩
  intro n h; simp at h; subst h; decide

/-- the signature hypotheses of the binding theorems are satisfiable (a toy scheme in which a
signature is the pair (signer, digest)) and something is accepted -/
example : ∃ (recover : Bytes → (Nat × Bytes) → Option Nat) (produced : Nat → Bytes → (Nat × Bytes) → Prop),
    (∀ a d σ, recover d σ = some a → produced a d σ) ∧
    (∀ a d d' σ, produced a d σ → produced a d' σ → d = d') ∧
    recover [1] (7, [1]) = some 7 := by
  refine ⟨fun d σ => if σ.2 = d then some σ.1 else none, fun a d σ => σ = (a, d), ?_, ?_, by simp⟩
  · intro a d σ h
    by_cases e : σ.2 = d
    · simp [e] at h; cases σ; simp_all
    · simp [e] at h
  · intro a d d' σ h1 h2
    rw [h1] at h2; simp at h2; exact h2

/-- accepted signature values exist: `r = s = 1`, recovery id 0, chain id 1 gives `V = 37` -/
example : senderCheck (some 1) 37 1 1 = .recover (some 1) 0 := by decide

/-- and the same values are refused under chain id 2 and by the Homestead signer -/
example : senderCheck (some 2) 37 1 1 = .invalidChainId ∧ senderCheck none 37 1 1 = .invalidSig := by
  decide

end KV.SignBytes
