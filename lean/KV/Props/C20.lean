import KV.Proofs.SecretConn
import KV.Proofs.MConn
import KV.Model.Transport
/-!
# C20 — Peer connections are authenticated, tamper-evident, ordered and exactly-once (partial)

Models: `KV/Model/SecretConn.lean` (data phase of `SecretConnection`: `Write`, `Read`,
`recvBuffer`, nonce counters) and `KV/Model/MConn.lean` (`isSendPending`, `nextPacketMsg`,
`recvPacketMsg`, any scheduler).

The AEAD is a pair of parameters `sealF`/`openF`.  What is assumed about it appears as explicit
hypotheses:
* `hcorr`   : `openF k n (sealF k n p) = some p`                     (correctness),
* `htamper` : `openF k n c = some p → c = sealF k n p`               (only the sealing opens),
* `hinj`    : `sealF k n p = sealF k n' p' → n = n' ∧ p = p'`        (the nonce is bound),
and, for the adversary, *unforgeability* as a hypothesis on the frames it puts on the wire: each
is one of the honest frames of the conversation (replay, reorder) or something that opens under
no nonce (flipped / forged / cut frame).  ChaCha20-Poly1305 satisfies these only
computationally; that gap and the handshake (`HandshakeAuthStatement`) are not proved here.
-/
namespace KV.C20
open KV KV.SecretConn KV.MConn

section Stream
variable {Key Cipher : Type} (sealF : Key → Nat → Bytes → Cipher) (openF : Key → Nat → Cipher → Option Bytes)
variable (k : Key) (pad : Nat → Bytes)

/-- the frames put on the wire by a sequence of `Write` calls on a fresh connection -/
def wireOf (ws : List Bytes) : List Cipher := (writeAll sealF k pad 0 ws).1

/-- **(1) stream_eq** — for EVERY split of the written bytes into `Write` calls `ws`, EVERY
content of the (uncleared) pool buffers `pad` and EVERY sequence of `Read` buffer sizes, the
concatenation of what the reads return is a prefix of the concatenation of what was written (in
order, nothing twice, nothing altered), and a read fails only with `eof`, only once everything
has been returned. -/
theorem stream_eq (hcorr : ∀ n p, openF k n (sealF k n p) = some p)
    (ws : List Bytes) (sizes : List Nat) :
    let r := readAll openF k ⟨0, []⟩ (wireOf sealF k pad ws) sizes
    r.outs.flatten <+: ws.flatten ∧
      ∀ e, r.err = some e → e = RErr.eof ∧ r.outs.flatten = ws.flatten := by
  intro r
  have hcs : ∀ c ∈ ws.flatMap chunks, c.length ≤ dataMaxSize := fun c h => (flatMap_chunks_ok ws c h).2
  obtain ⟨rest, h1, h2⟩ := readAll_main sealF openF k pad hcorr sizes 0 [] (ws.flatMap chunks) [] hcs (by simp)
  have hw : wireOf sealF k pad ws = sealChunks sealF k pad 0 (ws.flatMap chunks) ++ [] := by
    simp [wireOf, writeAll_eq]
  rw [← hw] at h1 h2
  rw [flatMap_chunks_flatten] at h1
  simp only [List.nil_append] at h1
  refine ⟨⟨rest, h1⟩, ?_⟩
  intro e he
  obtain ⟨hr, hee⟩ := h2 e he
  subst hr
  exact ⟨by simpa using hee, by simpa using h1⟩

/-- **(1b) as long as reads continue** — with non-empty read buffers, after more reads than
there are bytes the reader has returned exactly the written bytes and is at end of stream.
(Each successful read returns at least one byte because `Write` never emits an empty frame.) -/
theorem stream_eq_complete (hcorr : ∀ n p, openF k n (sealF k n p) = some p)
    (ws : List Bytes) (sizes : List Nat) (hpos : ∀ s ∈ sizes, 0 < s)
    (hmany : ws.flatten.length < sizes.length) :
    let r := readAll openF k ⟨0, []⟩ (wireOf sealF k pad ws) sizes
    r.err = some RErr.eof ∧ r.outs.flatten = ws.flatten := by
  intro r
  obtain ⟨hpre, herr⟩ := stream_eq sealF openF k pad hcorr ws sizes
  cases he : r.err with
  | some e =>
    obtain ⟨h1, h2⟩ := herr e he
    subst h1
    exact ⟨rfl, h2⟩
  | none =>
    exfalso
    have hw : wireOf sealF k pad ws = sealChunks sealF k pad 0 (ws.flatMap chunks) ++ [] := by
      simp [wireOf, writeAll_eq]
    have hp := readAll_progress sealF openF k pad hcorr sizes hpos 0 [] (ws.flatMap chunks) []
      (flatMap_chunks_ok ws) (by simp)
    rw [← hw] at hp
    have h3 : sizes.length ≤ r.outs.flatten.length := hp he
    have h4 : r.outs.flatten.length ≤ ws.flatten.length := hpre.length_le
    omega

/-- what the adversary can put on the wire: honest frames of this conversation or frames that
open under no nonce (unforgeability as a hypothesis) -/
def Adversarial (honest wire : List Cipher) : Prop :=
  ∀ g ∈ wire, g ∈ honest ∨ ∀ n, openF k n g = none

/-- **(2) tamper_detected** — let `fs` be the honest frame sequence and `fs'` ANY sequence the
adversary delivers instead (frames replaced by garbage, dropped, duplicated, swapped, replayed,
the stream cut – any combination).  Split both at their first difference: `fs = pre ++ rest`,
`fs' = pre ++ rest'` (`exists_common_prefix`: such a split always exists).  Then for every
sequence of read sizes the reader returns a prefix of the bytes carried by `pre` only, and the
first failing read comes exactly when those bytes are exhausted: `decrypt` at the first affected
frame, `eof` when the wire ends there (truncation at a frame boundary or inside a frame).  No
byte of an affected or later frame is ever delivered before the error. -/
theorem tamper_detected
    (hcorr : ∀ n p, openF k n (sealF k n p) = some p)
    (htamper : ∀ n c p, openF k n c = some p → c = sealF k n p)
    (hinj : ∀ n p n' p', sealF k n p = sealF k n' p' → n = n' ∧ p = p')
    (ws : List Bytes) (fs' pre rest rest' : List Cipher) (sizes : List Nat)
    (hadv : Adversarial openF k (wireOf sealF k pad ws) fs')
    (hfs : wireOf sealF k pad ws = pre ++ rest) (hfs' : fs' = pre ++ rest')
    (hdiff : ∀ x y, rest.head? = some x → rest'.head? = some y → x ≠ y) :
    let r := readAll openF k ⟨0, []⟩ fs' sizes
    let clean := ((ws.flatMap chunks).take pre.length).flatten
    r.outs.flatten <+: clean ∧ clean <+: ws.flatten ∧
      ∀ e, r.err = some e →
        r.outs.flatten = clean ∧ e = (if rest' = [] then RErr.eof else RErr.decrypt) := by
  intro r clean
  have hw : wireOf sealF k pad ws = sealChunks sealF k pad 0 (ws.flatMap chunks) := by
    simp [wireOf, writeAll_eq]
  rw [hw] at hfs
  obtain ⟨hpre, hlen⟩ := sealChunks_split sealF k pad 0 _ pre rest hfs
  have hcs : ∀ c ∈ (ws.flatMap chunks).take pre.length, c.length ≤ dataMaxSize :=
    fun c h => (flatMap_chunks_ok ws c (List.mem_of_mem_take h)).2
  have htl : (List.take pre.length (ws.flatMap chunks)).length = pre.length := by
    rw [List.length_take]; omega
  -- the first frame after the common prefix does not open under nonce `pre.length`
  have hhead : ∀ g, rest'.head? = some g →
      openF k (0 + ((ws.flatMap chunks).take pre.length).length) g = none := by
    intro g hg
    rw [htl, Nat.zero_add]
    have hmem : g ∈ fs' := by
      rw [hfs']
      cases rest' with
      | nil => simp at hg
      | cons y t => simp at hg; subst hg; simp
    rcases hadv g hmem with hh | hgarb
    · cases hop : openF k pre.length g with
      | none => rfl
      | some p =>
        exfalso
        have hg2 := htamper _ _ _ hop
        rw [hw] at hh
        obtain ⟨i, hi⟩ := List.getElem?_of_mem hh
        rw [getElem?_sealChunks] at hi
        cases hci : (ws.flatMap chunks)[i]? with
        | none => simp [hci] at hi
        | some c =>
          simp only [hci, Option.map_some, Option.some.injEq, Nat.zero_add] at hi
          have hieq : i = pre.length := (hinj _ _ _ _ (hi.trans hg2)).1
          -- so g is the honest frame at position pre.length = head of rest
          have hrest : rest.head? = some g := by
            have h5 : (sealChunks sealF k pad 0 (ws.flatMap chunks))[pre.length]? = some g := by
              rw [getElem?_sealChunks, ← hieq, hci]
              simp [hi]
            rw [hfs, List.getElem?_append_right (Nat.le_refl _), Nat.sub_self] at h5
            cases rest with
            | nil => simp at h5
            | cons x t => simpa using h5
          exact hdiff g g hrest hg rfl
    · exact hgarb _
  obtain ⟨rem, h1, h2⟩ := readAll_main sealF openF k pad hcorr sizes 0 []
    ((ws.flatMap chunks).take pre.length) rest' hcs hhead
  rw [← hpre, ← hfs'] at h1 h2
  simp only [List.nil_append] at h1
  refine ⟨⟨rem, h1⟩, ?_, ?_⟩
  · refine ⟨((ws.flatMap chunks).drop pre.length).flatten, ?_⟩
    show ((ws.flatMap chunks).take pre.length).flatten ++ _ = _
    rw [← List.flatten_append, List.take_append_drop, flatMap_chunks_flatten]
  · intro e he
    obtain ⟨hr, hee⟩ := h2 e he
    subst hr
    exact ⟨by simpa using h1, hee⟩

/-- the split used by `tamper_detected` exists for every pair of frame sequences -/
theorem tamper_split_exists (fs fs' : List Cipher) :
    ∃ pre rest rest', fs = pre ++ rest ∧ fs' = pre ++ rest' ∧
      (∀ x y, rest.head? = some x → rest'.head? = some y → x ≠ y) :=
  exists_common_prefix fs fs'

/-- two honest frames at different positions are different (so dropping, duplicating or swapping
frames always changes the sequence at that position) -/
theorem honest_frames_distinct
    (hinj : ∀ n p n' p', sealF k n p = sealF k n' p' → n = n' ∧ p = p')
    (ws : List Bytes) (i j : Nat) (g : Cipher)
    (hi : (wireOf sealF k pad ws)[i]? = some g) (hj : (wireOf sealF k pad ws)[j]? = some g) : i = j := by
  have hw : wireOf sealF k pad ws = sealChunks sealF k pad 0 (ws.flatMap chunks) := by
    simp [wireOf, writeAll_eq]
  rw [hw, getElem?_sealChunks] at hi hj
  cases hci : (ws.flatMap chunks)[i]? with
  | none => simp [hci] at hi
  | some c =>
    cases hcj : (ws.flatMap chunks)[j]? with
    | none => simp [hcj] at hj
    | some d =>
      simp only [hci, hcj, Option.map_some, Option.some.injEq, Nat.zero_add] at hi hj
      exact (hinj _ _ _ _ (hi.trans hj.symm)).1

/-- frame layout facts used by the differential: one frame per chunk of at most `dataMaxSize`
bytes, none for an empty write, exactly one for a write of 1..1024 bytes (atomicity contract), and
the plaintext frame is `totalFrameSize` bytes: 4-byte little-endian length, chunk, padding. -/
theorem frame_layout (d : Bytes) (n : Nat) :
    (write sealF k pad n d).1.length = (chunks d).length ∧
    (write sealF k pad n d).2 = n + (chunks d).length ∧
    (chunks d).flatten = d ∧ (∀ c ∈ chunks d, 0 < c.length ∧ c.length ≤ dataMaxSize) ∧
    (d = [] → chunks d = []) ∧ (0 < d.length → d.length ≤ dataMaxSize → chunks d = [d]) := by
  refine ⟨by simp [write, sealChunks_length], rfl, chunks_flatten d, chunks_ok d, ?_, chunks_small d⟩
  intro h; subst h; exact chunks_nil

end Stream

/-! ### non-vacuity: the toy AEAD satisfies all three hypotheses, and concrete manipulations -/

example : ∀ n p, toyOpen () n (toySeal () n p) = some p := by intro n p; simp [toyOpen, toySeal]
example : ∀ n c p, toyOpen () n c = some p → c = toySeal () n p := by
  intro n c p h
  cases c with
  | none => simp [toyOpen] at h
  | some x =>
    obtain ⟨m, q⟩ := x
    simp only [toyOpen] at h
    by_cases hm : m = n
    · simp [hm] at h; simp [toySeal, hm, h]
    · simp [hm] at h
example : ∀ n p n' p', toySeal () n p = toySeal () n' p' → n = n' ∧ p = p' := by
  intro n p n' p' h; simpa [toySeal] using h

private def tw : List ToyCipher := wireOf toySeal () (fun _ => []) [[1, 2, 3], [4], [5, 6]]
private def tr (fs : List ToyCipher) : List Bytes × Option RErr :=
  let r := readAll toyOpen () ⟨0, []⟩ fs [2, 2, 2, 2, 2, 2, 2]
  (r.outs, r.err)
-- honest run: short reads served from recvBuffer, then eof
example : tr tw = ([[1, 2], [3], [4], [5, 6]], some .eof) := by decide
-- frame 1 replaced by garbage (bit flip under unforgeability)
example : tr [tw[0]!, none, tw[2]!] = ([[1, 2], [3]], some .decrypt) := by decide
-- frame 1 dropped
example : tr [tw[0]!, tw[2]!] = ([[1, 2], [3]], some .decrypt) := by decide
-- frame 0 duplicated (replay)
example : tr [tw[0]!, tw[0]!, tw[1]!, tw[2]!] = ([[1, 2], [3]], some .decrypt) := by decide
-- frames 1 and 2 swapped
example : tr [tw[0]!, tw[2]!, tw[1]!] = ([[1, 2], [3]], some .decrypt) := by decide
-- stream cut after frame 1 (or inside frame 2)
example : tr [tw[0]!, tw[1]!] = ([[1, 2], [3], [4]], some .eof) := by decide
-- an old frame appended after the end (replay of the last frame)
example : tr (tw ++ [tw[2]!]) = ([[1, 2], [3], [4], [5, 6]], some .decrypt) := by decide

/-! ### MConnection -/

section Packets
variable (maxSize : Nat) (caps : Nat → Nat)

/-- **(3) packets_exact** — the full statement, proved for the code as fixed (finding C20-E1
repaired: `isSendPending` dequeues only when `ch.sending == nil`).  For EVERY
`maxPacketMsgPayloadSize` (NO hypothesis on `maxSize` is needed here – not even `0 < maxSize`; see
`packets_drain` for the one place where positivity matters), EVERY assignment of receive
capacities, EVERY sequence of `Send`s on any channels – messages of ANY size from 0 up to the
receive capacity of their channel, in any mix across channels – and EVERY scheduler (any
interleaving of `sendPacketMsg` picks, including picks of channels with nothing to send), and
every channel `j`:
* the receiver never errors;
* the messages handed to `onReceive` on `j` are a prefix of the messages sent on `j` – same
  bytes, same order, none twice, none invented;
* once channel `j` has nothing left to send (queue empty, no message in flight) they are exactly
  the messages sent on `j`: each exactly once, intact, in order – empty messages included.
The only hypothesis is the one the property states: every message fits `RecvMessageCapacity`
(see `oversize_refused` for the other case). -/
theorem packets_exact (acts : List Act)
    (hok : ∀ i m, Act.send i m ∈ acts → m.length ≤ caps i) (j : Nat) :
    let s := run maxSize caps init acts
    s.err = false ∧ (s.ch j).delivered <+: sentOn j acts ∧
      (idle (s.ch j) → (s.ch j).delivered = sentOn j acts) := by
  intro s
  obtain ⟨herr, hinv⟩ := inv_run maxSize caps acts init hok rfl (fun j => inv_init _)
  have henq : (s.ch j).enq = sentOn j acts := by
    have h := run_enq maxSize caps acts j init
    have h0 : (init.ch j).enq = [] := rfl
    rw [h0, List.nil_append] at h
    exact h
  obtain ⟨_, h0, h1⟩ := hinv j
  refine ⟨herr, ?_, ?_⟩
  · rw [← henq]
    cases hs : (s.ch j).sending with
    | none => exact ⟨_, (h0 hs).2.symm⟩
    | some sd => exact ⟨_, (h1 sd hs).1.symm⟩
  · intro hidle
    obtain ⟨hq, hs⟩ := hidle
    rw [← henq, (h0 hs).2, hq, List.append_nil]

/-- **(3b) packets_drain** — the idle clause of `packets_exact` is reachable, and this is exactly
where `0 < maxPacketMsgPayloadSize` is needed: after any action list, finitely many further
`sendPacketMsg` rounds serving channel `j` make it idle, and then everything sent on `j` – empty
messages included – has been delivered, once, intact, in order. -/
theorem packets_drain (hmax : 0 < maxSize) (acts : List Act)
    (hok : ∀ i m, Act.send i m ∈ acts → m.length ≤ caps i) (j : Nat) :
    ∃ n, let s := run maxSize caps init (acts ++ List.replicate n (.pkt j))
      s.err = false ∧ idle (s.ch j) ∧ (s.ch j).delivered = sentOn j acts := by
  obtain ⟨herr, hinv⟩ := inv_run maxSize caps acts init hok rfl (fun j => inv_init _)
  obtain ⟨n, hn⟩ := drain maxSize hmax caps j _ _ herr hinv (Nat.le_refl _)
  refine ⟨n, ?_⟩
  have hok' : ∀ i m, Act.send i m ∈ acts ++ List.replicate n (.pkt j) → m.length ≤ caps i := by
    intro i m hm
    rcases List.mem_append.mp hm with h | h
    · exact hok i m h
    · exact absurd (List.eq_of_mem_replicate h) (by simp)
  obtain ⟨h1, _, h3⟩ := packets_exact maxSize caps (acts ++ List.replicate n (.pkt j)) hok' j
  rw [run_append] at h1 h3 ⊢
  rw [sentOn_append, sentOn_replicate_pkt, List.append_nil] at h3
  exact ⟨h1, hn, h3 hn⟩

/-- with `maxPacketMsgPayloadSize = 0` a non-empty message never completes (every packet is empty
and not EOF): `0 < maxSize` in `packets_drain` cannot be dropped.  (`packets_exact` still holds
there: the channel is never idle and nothing wrong is delivered.) -/
theorem drain_needs_positive_maxSize (n : Nat) :
    ¬ idle ((run 0 caps init ([.send 0 [7]] ++ List.replicate n (.pkt 0))).ch 0) := by
  have key : ∀ (n : Nat) (s : Sys), s.err = false → (s.ch 0).recving = [] →
      ((s.ch 0).sending = some [7] ∨ ((s.ch 0).sending = none ∧ ∃ q, (s.ch 0).queue = [7] :: q)) →
      ¬ idle ((run 0 caps s (List.replicate n (.pkt 0))).ch 0) := by
    intro n
    induction n with
    | zero =>
      intro s _ _ h hi
      have hi' : idle (s.ch 0) := hi
      obtain ⟨hq, hs⟩ := hi'
      rcases h with h | ⟨_, q, h⟩
      · rw [hs] at h; cases h
      · rw [hq] at h; cases h
    | succ n ih =>
      intro s herr hr h
      simp only [List.replicate_succ, run, List.foldl_cons]
      have hsw : (sweep s.ch 0).sending = some [7] ∧ (sweep s.ch 0).recving = [] ∧ pending s.ch 0 = true := by
        rcases h with h | ⟨h, q, hq⟩
        · simp [sweep, pending, isSendPending, h, hr]
        · simp [sweep, pending, isSendPending, h, hq, hr]
      obtain ⟨h1, h2, h3⟩ := hsw
      have hst : (step 0 caps s (.pkt 0)).err = false ∧ ((step 0 caps s (.pkt 0)).ch 0).recving = [] ∧
          ((step 0 caps s (.pkt 0)).ch 0).sending = some [7] := by
        simp [step, herr, h3, nextPacket, recvPacket, h1, h2, upd]
      exact ih _ hst.1 hst.2.1 (Or.inl hst.2.2)
  rw [run_append]
  exact key n _ rfl rfl (Or.inr ⟨rfl, [], rfl⟩)

/-! #### regression: finding C20-E1 (fixed) -/

/-- the schedule of finding C20-E1: an empty message on channel 1, a one-byte message on
channel 0, the scheduler serves channel 0 first -/
def cexActs : List Act := [.send 1 [], .send 0 [7], .pkt 0, .pkt 1, .pkt 0]

/-- the schedule run under the OLD rule (`isSendPendingOld`: `len(ch.sending) == 0`) -/
def cexOld : Sys := runWith isSendPendingOld 1024 (fun _ => 100) init cexActs
/-- the schedule run on the model of the current code -/
def cexNew : Sys := run 1024 (fun _ => 100) init cexActs

/-- **regression (old rule loses the message)** — with the length test the first
`sendPacketMsg` dequeues the empty message of channel 1 into `ch.sending` and serves channel 0;
from then on `isSendPending` of channel 1 sees `len(sending) == 0` with an empty queue: no channel
is pending (`sendPacketMsg` reports "exhausted"), ONE packet was sent, the message accepted on
channel 1 was never transmitted or delivered. -/
theorem empty_message_lost_counterexample_old_rule :
    cexOld.err = false ∧
      (isSendPendingOld (cexOld.ch 0)).1 = false ∧ (isSendPendingOld (cexOld.ch 1)).1 = false ∧
      cexOld.wire.length = 1 ∧
      (cexOld.ch 0).delivered = [[7]] ∧ (cexOld.ch 1).delivered = [] ∧ sentOn 1 cexActs = [[]] := by
  decide

/-- **regression (the current model delivers it)** — same schedule: the empty message stays in
flight (`sending = some []`) while channel 0 is served, its EOF packet goes out at the next pick
of channel 1, and it is delivered: two packets, both channels idle, everything delivered. -/
theorem empty_message_delivered :
    cexNew.err = false ∧ idle (cexNew.ch 0) ∧ idle (cexNew.ch 1) ∧ cexNew.wire.length = 2 ∧
      cexNew.wire.head? = some ⟨1, true, []⟩ ∧
      (cexNew.ch 0).delivered = [[7]] ∧ (cexNew.ch 1).delivered = [[]] ∧
      (cexNew.ch 1).delivered = sentOn 1 cexActs := by
  decide

/-- the two runs differ in the rule only: `runWith` instantiated with the current `isSendPending`
is the model's `run` -/
theorem cexNew_eq_runWith : cexNew = runWith isSendPending 1024 (fun _ => 100) init cexActs :=
  (runWith_new _ _ _ _).symm

/-- one message alone on a channel: its packets, fed to the receiver whose buffer already holds
`r`, give the message (appended to `r`) exactly when it fits, and an error – with nothing
delivered – when it does not -/
theorem recvAll_packetize (hmax : 0 < maxSize) (cap id : Nat) :
    ∀ (fuel : Nat) (s r : Bytes), s.length < fuel →
      recvAll cap r (packetize maxSize id fuel s) =
        if r.length + s.length ≤ cap then ([r ++ s], true) else ([], false) := by
  intro fuel
  induction fuel with
  | zero => intro s r h; omega
  | succ f ih =>
    intro s r hf
    unfold packetize
    by_cases hle : s.length ≤ maxSize
    · rw [nextPacket_last maxSize id { sending := some s } s rfl hle]
      by_cases hc : r.length + s.length ≤ cap
      · have : ¬ cap < r.length + s.length := by omega
        simp [recvAll, recvPacket, this, hc]
      · have : cap < r.length + s.length := by omega
        simp [recvAll, recvPacket, this, hc]
    · rw [nextPacket_more maxSize id { sending := some s } s rfl hle]
      simp only [Bool.false_eq_true, if_false, Option.getD_some]
      have hdl : (s.drop maxSize).length < f := by simp; omega
      have htl : (s.take maxSize).length = maxSize := by simp [List.length_take]; omega
      by_cases hc : cap < r.length + maxSize
      · have : ¬ r.length + s.length ≤ cap := by omega
        simp [recvAll, recvPacket, htl, hc, this]
      · simp only [recvAll, recvPacket, htl, hc, if_false, Bool.false_eq_true]
        rw [ih _ _ hdl]
        simp only [List.length_append, htl, List.length_drop, List.append_assoc, List.take_append_drop]
        have : r.length + maxSize + (s.length - maxSize) = r.length + s.length := by omega
        rw [this]

/-- a message within capacity sent alone arrives once and intact, whatever the packet size -/
theorem message_roundtrip (hmax : 0 < maxSize) (cap id : Nat) (m : Bytes) (h : m.length ≤ cap) :
    recvAll cap [] (packetize maxSize id (m.length + 1) m) = ([m], true) := by
  rw [recvAll_packetize maxSize hmax cap id _ m [] (by omega)]
  simp [h]

/-- **(4) oversize_refused** — a message longer than the channel's `RecvMessageCapacity` makes
`recvPacketMsg` fail (the connection is stopped with an error) and nothing is delivered -/
theorem oversize_refused (hmax : 0 < maxSize) (cap id : Nat) (m : Bytes) (h : cap < m.length) :
    recvAll cap [] (packetize maxSize id (m.length + 1) m) = ([], false) := by
  rw [recvAll_packetize maxSize hmax cap id _ m [] (by omega)]
  have : ¬ m.length ≤ cap := by omega
  simp [this]

/-- the capacity check is exact: `cap` bytes pass, `cap + 1` do not -/
theorem capacity_boundary (cap : Nat) (r : Bytes) (p : Packet) :
    (recvPacket cap r p = none ↔ cap < r.length + p.data.length) := by
  unfold recvPacket
  by_cases hc : cap < r.length + p.data.length
  · simp [hc]
  · simp only [hc, if_false, iff_false]
    split <;> simp

/-- whatever packets arrive (even adversarial ones), a delivered message never exceeds the
capacity and is the concatenation of the packets' payloads since the previous EOF -/
theorem delivered_within_capacity (cap : Nat) (recving : Bytes) (p : Packet) (m r : Bytes)
    (h : recvPacket cap recving p = some (some m, r)) :
    m.length ≤ cap ∧ m = recving ++ p.data ∧ r = [] :=
  recvPacket_cap cap recving p m r h

/-- **empty_message_ok** — what the code does with a zero-length message *when its packet is
sent*: one packet with EOF set and no payload; the receiver hands an empty message to
`onReceive` (the `msgBytes != nil` test passes because `recving` is an allocated empty slice).
That the packet IS sent under every scheduler is part of `packets_exact` (it was not before the
fix of C20-E1: `empty_message_lost_counterexample_old_rule`). -/
theorem empty_message_ok (cap id : Nat) :
    packetize maxSize id 1 [] = [⟨id, true, []⟩] ∧
    recvAll cap [] (packetize maxSize id 1 []) = ([[]], true) := by
  constructor
  · simp [packetize, nextPacket]
  · simp [packetize, nextPacket, recvAll, recvPacket]

/-- packets never carry more than `maxPacketMsgPayloadSize` bytes, and EOF is set exactly on the
packet that empties `sending` -/
theorem packet_payload_bound (id : Nat) (c : Chan) :
    (nextPacket maxSize id c).1.data.length ≤ maxSize ∧
    ((nextPacket maxSize id c).1.eof = true ↔ (c.sending.getD []).length ≤ maxSize) ∧
    ((nextPacket maxSize id c).1.eof = true ↔ (nextPacket maxSize id c).2.sending = none) ∧
    (nextPacket maxSize id c).1.data ++ (nextPacket maxSize id c).2.sending.getD [] = c.sending.getD [] := by
  simp only [nextPacket]
  by_cases h : (c.sending.getD []).length ≤ maxSize
  · have hmin : min maxSize (c.sending.getD []).length = (c.sending.getD []).length := by omega
    simp [h, hmin]
  · have hmin : min maxSize (c.sending.getD []).length = maxSize := by omega
    simp [h, hmin, List.length_take]

end Packets

-- non-vacuity of `packets_exact`: two channels, interleaved packets, message of 5 bytes
-- in packets of 2
example :
    let s := run 2 (fun _ => 10) init
      [.send 0 [1, 2, 3, 4, 5], .send 1 [9], .pkt 0, .pkt 1, .send 1 [8, 8, 8], .pkt 0, .pkt 1, .pkt 1, .pkt 0]
    (s.ch 0).delivered = [[1, 2, 3, 4, 5]] ∧ (s.ch 1).delivered = [[9], [8, 8, 8]] ∧ s.wire.length = 6 := by
  decide

/-! ### handshake (stated, not proved) -/

/-- abstract ingredients of the station-to-station handshake of `MakeSecretConnection` -/
structure Handshake where
  Priv : Type
  Pub : Type
  Eph : Type            -- ephemeral X25519 public keys
  Chal : Type           -- the 32-byte challenge extracted from the transcript
  Sig : Type
  pubOf : Priv → Pub
  /-- challenge of a session, a function of both ephemeral keys (sorted) and their DH secret -/
  challenge : Eph → Eph → Chal
  verify : Pub → Chal → Sig → Bool
  /-- trace predicate: the holder of this private key produced a signature on this challenge -/
  signed : Priv → Chal → Prop

/-- **Handshake authentication (NOT proved; oracle only).**  `accepts e e' pk sig` stands for the
input/output relation of the real `MakeSecretConnection` (not modelled): run by an honest party
whose ephemeral key is `e`, having received ephemeral key `e'` and – inside the encrypted
channel – an `AuthSigMessage{pk, sig}`, it returns a connection with `RemotePubKey() = pk`.
The statement: whenever it accepts identity `pubOf sk`, the holder of `sk` signed the challenge
of *this* session `(e, e')`.  Hence a party without `sk` cannot complete the handshake as that
identity, and an `AuthSigMessage` recorded in another session (different `e`) is useless.
Carrying this to the code needs signature unforgeability (EUF-CMA for ECDSA/secp256k1 with
address recovery), collision resistance of the Merlin/STROBE transcript hash, hardness of X25519
CDH and secrecy of the HKDF-derived AEAD keys – a computational model that is out of reach of
this tool-chain.  The Go oracle exercises it: random key, replayed `AuthSigMessage`, signature
over another challenge, swapped / low-order ephemeral keys, full man in the middle. -/
def HandshakeAuthStatement (H : Handshake) (accepts : H.Eph → H.Eph → H.Pub → H.Sig → Prop) : Prop :=
  ∀ (sk : H.Priv) (e e' : H.Eph) (sig : H.Sig),
    accepts e e' (H.pubOf sk) sig → H.signed sk (H.challenge e e')


/-! ## the transport's identity decision (`MultiplexTransport.upgrade`) -/
namespace Transport
open KV.Transport

/-- **upgrade_identity**: a connection becomes a `Peer` only under the ID of the key that
authenticated the encrypted connection; for an outbound connection that is also the ID that was
dialled, and it is the ID the peer reports about itself.  No self-reported or dialled ID can stand
in for the connection key. -/
theorem upgrade_identity (dialed : Option Nat) (connKey claimed selfId id : Nat) (ab co : Bool)
    (h : upgrade dialed connKey claimed selfId ab co = .ok id) :
    id = connKey ∧ claimed = connKey ∧ (∀ t, dialed = some t → t = connKey) ∧ selfId ≠ id ∧
      ab = false ∧ co = true := by
  unfold upgrade at h
  split at h
  · cases h
  · rename_i h1
    split at h
    · cases h
    · rename_i h2
      split at h
      · cases h
      · rename_i h3
        split at h
        · cases h
        · rename_i h4
          split at h
          · cases h
          · rename_i h5
            have hk : connKey = claimed := Decidable.byContradiction (fun hc => h3 hc)
            injection h with hid
            subst hid
            refine ⟨hk.symm, hk.symm, ?_, ?_, ?_, ?_⟩
            · intro t ht
              subst ht
              apply Decidable.byContradiction
              intro hne
              exact h1 ⟨rfl, fun e => hne (Option.some.inj e)⟩
            · exact h4
            · cases ab with
              | true => exact absurd rfl h2
              | false => rfl
            · cases co with
              | false => exact absurd rfl h5
              | true => rfl

/-- **upgrade_ok_iff**: exactly the honest, compatible, non-self connections are accepted. -/
theorem upgrade_ok_iff (dialed : Option Nat) (connKey claimed selfId : Nat) (ab co : Bool) :
    (∃ id, upgrade dialed connKey claimed selfId ab co = .ok id) ↔
      ((dialed = none ∨ dialed = some connKey) ∧ claimed = connKey ∧ selfId ≠ claimed ∧
        ab = false ∧ co = true) := by
  constructor
  · rintro ⟨id, h⟩
    obtain ⟨h1, h2, h3, h4, h5, h6⟩ := upgrade_identity _ _ _ _ _ _ _ h
    refine ⟨?_, h2, ?_, h5, h6⟩
    · cases dialed with
      | none => exact Or.inl rfl
      | some t => exact Or.inr (by rw [h3 t rfl])
    · rw [h2, ← h1]; exact h4
  · rintro ⟨hd, hc, hs, ha, hco⟩
    subst hc ha hco
    refine ⟨claimed, ?_⟩
    unfold upgrade
    rcases hd with hd | hd <;> subst hd <;> simp [hs]

/-- **impersonation_refused**: a listener whose connection key is not the dialled identity is
refused as an authentication failure whatever it claims in its `NodeInfo` - in particular when it
claims the dialled ID itself. -/
theorem impersonation_refused (t connKey claimed selfId : Nat) (ab co : Bool) (h : t ≠ connKey) :
    upgrade (some t) connKey claimed selfId ab co = .auth := by
  unfold upgrade
  have : (some t : Option Nat) ≠ some connKey := fun e => h (Option.some.inj e)
  simp [this]

/-- non-vacuity: the honest dial is accepted; the liar of `impersonation_refused` with
`claimed = t` is not -/
example : upgrade (some 1) 1 1 0 false true = .ok 1 ∧ upgrade (some 1) 2 1 0 false true = .auth ∧
    upgrade none 2 1 0 false true = .auth := by decide

end Transport

end KV.C20
