import KV.Model.World
import KV.Proofs.World
import KV.Proofs.WorldRevert
import KV.Proofs.WorldEffective
/-!
# C08 — State changes are atomic: revert restores exactly; root depends on content only

Model: `KV/Model/World.lean` (journalled `StateDB`).  The driver `KV/Drv/C08.lean` runs exactly the
functions used below (`step`, `snapshot`, `revertTo`, `finalise`, `iroot`, `commit`, `copy`, `reopen`).

* `C08_undo_entry`        — every operation's journal entries, undone last-first, restore the state exactly
* `C08_revert_snapshot`   — for every op sequence with arbitrarily nested Snapshot/RevertToSnapshot, a
                            successful `RevertToSnapshot(id)` restores the world of `Snapshot() = id`
* `C08_root_of_effective_ops` — a block of structured transactions ends in the same core (hence the same
                            content, hence the same value of any function of the content such as the
                            state root) as the block with reverted scopes removed
* `C08_copy_*`            — the model's `Copy()`
-/
namespace KV.World

/-! ## (1) undo of the entries of one operation -/

/-- for every journalled operation (all 14 entry kinds are produced by some operation, `SubRefund`
beyond the counter included: the entry is written before the panic) undoing the appended entries
last-first gives back the core *exactly* (all maps as functions, bookkeeping sets included). -/
theorem C08_undo_entry (o : JOp) (c : Core) : rewind (jop o c).2.1 (jop o c).1 = c :=
  jop_undo o c

/-- … hence every getter answers as before -/
theorem C08_undo_entry_obs (o : JOp) (c : Core) : obsCore (rewind (jop o c).2.1 (jop o c).1) = obsCore c := by
  rw [jop_undo]

/-! ## (2) RevertToSnapshot -/

/-- **revert_snapshot.**  `s` any world whose revision list is well formed (true for every reachable
world, `C08_revsOK_reachable`), `ops` ANY sequence of journalled operations, `Snapshot`s and
`RevertToSnapshot`s (valid or stale, arbitrarily nested, recovered panics of `SubRefund` included).
If after `Snapshot(); ops` the call `RevertToSnapshot(id)` with the id returned by that `Snapshot` is
accepted by the code's guard (the revision is still valid, i.e. `ops` did not revert past it), then
core, journal and revision list are exactly those of `s`. -/
theorem C08_revert_snapshot (s : World) (ops : List Op) (w' : World)
    (hs : RevsOK s.revs s.nextId)
    (hr : revertTo s.nextId (run ops (snapshot s)) = some w') :
    w'.core = s.core ∧ w'.journal = s.journal ∧ w'.revs = s.revs :=
  inv_revert s _ w' (inv_run s _ ops (inv_snapshot s hs)) hr

/-- … in particular every observable getter answers as at the time of the snapshot -/
theorem C08_revert_snapshot_obs (s : World) (ops : List Op) (w' : World)
    (hs : RevsOK s.revs s.nextId)
    (hr : revertTo s.nextId (run ops (snapshot s)) = some w') : obs w' = obs s := by
  unfold obs; rw [(C08_revert_snapshot s ops w' hs hr).1]

/-- a rejected `RevertToSnapshot` (the Go code panics before touching anything) changes nothing -/
theorem C08_stale_revert_no_change (id : Nat) (w : World) (h : revertTo id w = none) :
    step (.revert id) w = (w, .panic) := by
  simp [step, h]

/-- commands between transactions -/
inductive Boundary where
  | prepare (h : TxH) (ti : Nat)
  | finalise (del : Bool)
  | iroot (del : Bool)
  | commit (del : Bool)

def bnd : Boundary → World → World
  | .prepare h ti, w => prepare h ti w
  | .finalise d, w => finalise d w
  | .iroot d, w => iroot d w
  | .commit d, w => commit d w

/-- everything the harness can do to one instance -/
inductive Cmd where
  | op (o : Op)
  | bnd (b : Boundary)
  | copy
  | reopen

def exec : Cmd → World → World
  | .op o, w => (step o w).1
  | .bnd b, w => bnd b w
  | .copy, w => copy w
  | .reopen, w => reopen w

theorem revsOK_nil (n : Nat) : RevsOK [] n := ⟨List.Pairwise.nil, by simp⟩

theorem bnd_revsOK (b : Boundary) (w : World) (h : RevsOK w.revs w.nextId) : RevsOK (bnd b w).revs (bnd b w).nextId := by
  cases b with
  | prepare _ _ => exact h
  | finalise _ => exact revsOK_nil _
  | iroot _ => exact revsOK_nil _
  | commit _ => exact revsOK_nil _

theorem step_revsOK (o : Op) (w : World) (h : RevsOK w.revs w.nextId) :
    RevsOK (step o w).1.revs (step o w).1.nextId := by
  cases o with
  | j o => exact h
  | snapshot => exact (inv_snapshot w h).1
  | revert id =>
    simp only [step]
    cases hr : revertTo id w with
    | none => exact h
    | some w' =>
      unfold revertTo at hr
      cases hf : findRev w.revs id with
      | none => simp [hf] at hr
      | some p =>
        simp only [hf, Option.some.injEq] at hr
        subst hr
        exact revsOK_take _ h

/-- the hypothesis of `C08_revert_snapshot` holds in every reachable world -/
theorem C08_revsOK_reachable (cmds : List Cmd) :
    RevsOK (cmds.foldl (fun w c => exec c w) World.init).revs (cmds.foldl (fun w c => exec c w) World.init).nextId := by
  suffices h : ∀ w, RevsOK w.revs w.nextId →
      RevsOK (cmds.foldl (fun w c => exec c w) w).revs (cmds.foldl (fun w c => exec c w) w).nextId from
    h _ (revsOK_nil _)
  induction cmds with
  | nil => intro w h; exact h
  | cons c cs ih =>
    intro w h
    apply ih
    cases c with
    | op o => exact step_revsOK o w h
    | bnd b => exact bnd_revsOK b w h
    | copy => exact revsOK_nil _
    | reopen => exact revsOK_nil _

/-! ## (3) only the non-reverted operations count -/

/-- a transaction of properly nested scopes leaves (core, journal) exactly as its effective
(non-reverted) operations applied directly, for every nesting depth -/
theorem C08_effective_tx (tx : List Stmt) (w : World) (h : RevsOK w.revs w.nextId) :
    ((runStmts tx w).core, (runStmts tx w).journal) = runJ (effStmts tx) (w.core, w.journal) :=
  (runStmts_eff tx w h).cj

/-- a block: transactions (structured) each followed by a boundary command -/
def runBlock : List (List Stmt × Boundary) → World → World
  | [], w => w
  | (tx, b) :: rest, w => runBlock rest (bnd b (runStmts tx w))

/-- the same block with every reverted scope dropped and every surviving scope flattened -/
def effBlock (blk : List (List Stmt × Boundary)) : List (List Stmt × Boundary) :=
  blk.map fun (tx, b) => ((effStmts tx).map Stmt.op, b)

theorem effStmts_ops (l : List JOp) : effStmts (l.map Stmt.op) = l := by
  induction l with
  | nil => rfl
  | cons o l ih => simp [effStmts, effStmt, ih]

theorem bnd_congr (b : Boundary) (w w' : World) (hc : w.core = w'.core) (hj : w.journal = w'.journal) :
    (bnd b w).core = (bnd b w').core ∧ (bnd b w).journal = (bnd b w').journal := by
  cases b <;> simp [bnd, prepare, finalise, iroot, commit, hc, hj]

/-- **root_of_effective_ops** (content level).  Running a block and running only its effective
operations end in the same core and journal — so in the same persistent content, and any function of
the content (the state root, C07) has the same value. -/
theorem C08_root_of_effective_ops (blk : List (List Stmt × Boundary)) (w w' : World)
    (h : RevsOK w.revs w.nextId) (h' : RevsOK w'.revs w'.nextId)
    (hc : w.core = w'.core) (hj : w.journal = w'.journal) :
    (runBlock blk w).core = (runBlock (effBlock blk) w').core ∧
    (runBlock blk w).journal = (runBlock (effBlock blk) w').journal := by
  induction blk generalizing w w' with
  | nil => exact ⟨hc, hj⟩
  | cons x rest ih =>
    obtain ⟨tx, b⟩ := x
    simp only [runBlock, effBlock, List.map_cons]
    have e1 := C08_effective_tx tx w h
    have e2 := C08_effective_tx ((effStmts tx).map Stmt.op) w' h'
    rw [effStmts_ops, ← hc, ← hj, ← e1] at e2
    simp only [Prod.mk.injEq] at e2
    have hb := bnd_congr b (runStmts tx w) (runStmts ((effStmts tx).map Stmt.op) w') e2.1.symm e2.2.symm
    exact ih _ _ (bnd_revsOK b _ (runStmts_eff tx w h).ok)
      (bnd_revsOK b _ (runStmts_eff _ w' h').ok) hb.1 hb.2

theorem C08_root_of_effective_ops_content {R : Type} (root : (Addr → Option Account) → R)
    (blk : List (List Stmt × Boundary)) (w : World) (h : RevsOK w.revs w.nextId) :
    root (content (runBlock blk w)) = root (content (runBlock (effBlock blk) w)) := by
  have := (C08_root_of_effective_ops blk w w h h rfl rfl).1
  unfold content; rw [this]

/-! ## (4) Copy -/

/-- objects that `Copy()` does not copy (not named by the journal, not in the dirty/pending sets) are
re-read from the trie; they agree with the trie when they are clean: -/
def CleanInv (w : World) : Prop :=
  ∀ a o, w.core.objs a = some o → dirtyAddrs w.journal a = false → o.inDirty = false →
    o.inPending = false → o.deleted = false → o.cur = o.com ∧ o.suicided = false

/-- a copy has no journal and no revisions: every `RevertToSnapshot` on it is rejected
("Snapshots of the copied state cannot be applied to the copy") -/
theorem C08_copy_fresh (w : World) (id : Nat) : revertTo id (copy w) = none := by
  simp [revertTo, findRev, copy]

set_option linter.unusedSimpArgs false in
/-- the copy observes what the original observes (when unflushed changes are tracked, `CleanInv`) -/
theorem C08_copy_obs (w : World) (h : CleanInv w) : obs (copy w) = obs w := by
  have key : ∀ a, (match getObj (copy w).core a with
        | some o => some (o.empty, o.suicided, o.balance, o.nonce, o.code, o.cur, o.com)
        | none => none) =
      (match getObj w.core a with
        | some o => some (o.empty, o.suicided, o.balance, o.nonce, o.code, o.cur, o.com)
        | none => none) := by
    intro a
    simp only [getObj, copy]
    cases ho : w.core.objs a with
    | none => rfl
    | some o =>
      simp only
      cases hD : dirtyAddrs w.journal a
      · cases h1 : o.inDirty <;> cases h2 : o.inPending <;> cases h3 : o.deleted <;> simp [Obj.empty, h1, h2, h3]
        have := h a o ho hD h1 h2 h3
        simp [this.1, this.2]
      · cases h3 : o.deleted <;> simp [Obj.empty, h3]
  have key2 : ∀ a, (getObj (copy w).core a).isSome = (getObj w.core a).isSome := by
    intro a; have := key a; revert this
    cases getObj (copy w).core a <;> cases getObj w.core a <;> simp
  unfold obs obsCore
  simp only [Observation.mk.injEq]
  refine ⟨?_, ?_, ?_, ?_, ?_, ?_, ?_, ?_, rfl, rfl, rfl, rfl, rfl, rfl, rfl⟩ <;>
    (funext a; have := key a; revert this
     cases getObj (copy w).core a <;> cases getObj w.core a <;> simp <;> intros <;> simp_all)

/-- What `Copy()` does NOT preserve when taken in the middle of a transaction (the code comments say
this never happens in practice; in this repository `Copy` is only called by `ManageState` on a
block-boundary state): the copy has no journal, so its `Finalise` does not delete an account that
self-destructed before the copy, whereas the original's does.  Model and code agree on this
(differential); it is outside the property (independence) and recorded as an assumption. -/
theorem C08_copy_midtx_counterexample :
    (content (finalise true (run [.j (.setBalance 1 5), .j (.suicide 1)] World.init)) 1).isNone = true ∧
    (content (finalise true (copy (run [.j (.setBalance 1 5), .j (.suicide 1)] World.init))) 1).isSome = true := by
  decide

/-! ## non-vacuity -/

/-- a run with nested snapshots, an inner revert, a stale revert and a panicking SubRefund after which
the outer revert is accepted -/
example :
    (revertTo 0 (run [.j (.setBalance 1 5), .snapshot, .j (.setState 1 2 7), .j (.suicide 1), .revert 1,
      .revert 7, .j (.subRefund 3), .j (.alAddSlot 2 3), .j (.createAccount 1)] (snapshot World.init))).isSome = true := by
  decide

example : RevsOK World.init.revs World.init.nextId := revsOK_nil _

/-- operations do write entries (the undo theorem is not about empty journals) -/
example : (jop (.setBalance 1 5) Core.init).2.1.length = 2 := by decide
example : (jop (.alAddSlot 1 2) Core.init).2.1.length = 2 := by decide
example : (jop (.subRefund 1) Core.init).2.2 = .panic ∧ (jop (.subRefund 1) Core.init).2.1.length = 1 := by decide

/-- a reverted scope inside a surviving scope: only the outer operations are effective -/
example : (effStmts [.scope [.op (.setNonce 1 1), .scope [.op (.setNonce 1 2)] true] false]).length = 1 := by
  decide

example : CleanInv World.init := by intro a o h; simp [World.init, Core.init] at h

end KV.World
