import KV.Model.World
import KV.Proofs.World
import KV.Proofs.WorldRevert
import KV.Proofs.WorldEffective
import KV.Proofs.WorldReach
import KV.Proofs.WorldCopy
import KV.Proofs.WorldTrack
/-!
# C08 — State changes are atomic: revert restores exactly; root depends on content only

Model: `KV/Model/World.lean` (journalled `StateDB`).  The driver `KV/Drv/C08.lean` runs exactly the
functions used below (`step`, `snapshot`, `revertTo`, `finalise`, `iroot`, `commit`, `copy`, `reopen`).

* `C08_undo_entry`        — every operation's journal entries, undone last-first, restore the state exactly
* `C08_revert_snapshot`   — for every op sequence with arbitrarily nested Snapshot/RevertToSnapshot, a
                            successful `RevertToSnapshot(id)` restores the world of `Snapshot() = id`
* `C08_root_of_effective_ops` — a block of structured transactions ends in the same core (hence the same
                            content, hence the same value of any function of the content such as the
                            state root) as the block with reverted scopes removed
* `C08_copy_*`            — the model's `Copy()`: `C08_copy_obs` under `CleanInv`; `C08_reach_cleanInv` proves
                            `CleanInv` for every reachable world (`Reach`, `KV/Proofs/WorldReach.lean`), hence
                            the unconditional `C08_copy_obs_reach`; `C08_copy_independent(_obs)`,
                            `C08_copy_commit_root`; `C08_copy_obs_midtx_counterexample` shows that the
                            restriction of `Reach` to between-transaction copies is necessary (and
                            `C08_copy_obs_reachAny` what survives without it)
* `C08_readback*`         — a state reopened at the committed root observes exactly the committed observables
                            of the committing state, and exactly what was written before the commit
* `C08_*_reach`           — (2) and (3) without side hypotheses, for every reachable world
-/
namespace KV.World

/-! ## (1) undo of the entries of one operation -/

/-- for every journalled operation (all 14 entry kinds are produced by some operation, `SubRefund`
beyond the counter included: the entry is written before the panic) undoing the appended entries
last-first gives back the core *exactly* (all maps as functions, bookkeeping sets included). -/
theorem C08_undo_entry (o : JOp) (c : Core) : rewind (jop o c).2.1 (jop o c).1 = c :=
  jop_undo o c

/-- … hence every getter answers as before -/
theorem C08_undo_entry_obs (o : JOp) (c : Core) : obsCore (rewind (jop o c).2.1 (jop o c).1) = obsCore c := by
  rw [jop_undo]

/-! ## (2) RevertToSnapshot -/

/-- **revert_snapshot.**  `s` any world whose revision list is well formed (true for every reachable
world, `C08_revsOK_reachable`), `ops` ANY sequence of journalled operations, `Snapshot`s and
`RevertToSnapshot`s (valid or stale, arbitrarily nested, recovered panics of `SubRefund` included).
If after `Snapshot(); ops` the call `RevertToSnapshot(id)` with the id returned by that `Snapshot` is
accepted by the code's guard (the revision is still valid, i.e. `ops` did not revert past it), then
core, journal and revision list are exactly those of `s`. -/
theorem C08_revert_snapshot (s : World) (ops : List Op) (w' : World)
    (hs : RevsOK s.revs s.nextId)
    (hr : revertTo s.nextId (run ops (snapshot s)) = some w') :
    w'.core = s.core ∧ w'.journal = s.journal ∧ w'.revs = s.revs :=
  inv_revert s _ w' (inv_run s _ ops (inv_snapshot s hs)) hr

/-- … in particular every observable getter answers as at the time of the snapshot -/
theorem C08_revert_snapshot_obs (s : World) (ops : List Op) (w' : World)
    (hs : RevsOK s.revs s.nextId)
    (hr : revertTo s.nextId (run ops (snapshot s)) = some w') : obs w' = obs s := by
  unfold obs; rw [(C08_revert_snapshot s ops w' hs hr).1]

/-- a rejected `RevertToSnapshot` (the Go code panics before touching anything) changes nothing -/
theorem C08_stale_revert_no_change (id : Nat) (w : World) (h : revertTo id w = none) :
    step (.revert id) w = (w, .panic) := by
  simp [step, h]

/-! `Boundary`, `bnd`, `Cmd`, `exec` (everything the harness can do to one instance) and the closure
`ReachS` / `Reach` / `ReachAny` are defined in `KV/Proofs/WorldReach.lean`. -/

/-- the hypothesis of `C08_revert_snapshot` holds in every reachable world -/
theorem C08_revsOK_reachable (cmds : List Cmd) :
    RevsOK (cmds.foldl (fun w c => exec c w) World.init).revs (cmds.foldl (fun w c => exec c w) World.init).nextId := by
  suffices h : ∀ w, RevsOK w.revs w.nextId →
      RevsOK (cmds.foldl (fun w c => exec c w) w).revs (cmds.foldl (fun w c => exec c w) w).nextId from
    h _ (revsOK_nil _)
  induction cmds with
  | nil => intro w h; exact h
  | cons c cs ih =>
    intro w h
    apply ih
    cases c with
    | op o => exact step_revsOK o w h
    | bnd b => exact bnd_revsOK b w h
    | copy => exact revsOK_nil _
    | reopen => exact revsOK_nil _

/-! ## (3) only the non-reverted operations count -/

/-- a transaction of properly nested scopes leaves (core, journal) exactly as its effective
(non-reverted) operations applied directly, for every nesting depth -/
theorem C08_effective_tx (tx : List Stmt) (w : World) (h : RevsOK w.revs w.nextId) :
    ((runStmts tx w).core, (runStmts tx w).journal) = runJ (effStmts tx) (w.core, w.journal) :=
  (runStmts_eff tx w h).cj

/-- a block: transactions (structured) each followed by a boundary command -/
def runBlock : List (List Stmt × Boundary) → World → World
  | [], w => w
  | (tx, b) :: rest, w => runBlock rest (bnd b (runStmts tx w))

/-- the same block with every reverted scope dropped and every surviving scope flattened -/
def effBlock (blk : List (List Stmt × Boundary)) : List (List Stmt × Boundary) :=
  blk.map fun (tx, b) => ((effStmts tx).map Stmt.op, b)

theorem effStmts_ops (l : List JOp) : effStmts (l.map Stmt.op) = l := by
  induction l with
  | nil => rfl
  | cons o l ih => simp [effStmts, effStmt, ih]

theorem bnd_congr (b : Boundary) (w w' : World) (hc : w.core = w'.core) (hj : w.journal = w'.journal) :
    (bnd b w).core = (bnd b w').core ∧ (bnd b w).journal = (bnd b w').journal := by
  cases b <;> simp [bnd, prepare, finalise, iroot, commit, hc, hj]

/-- **root_of_effective_ops** (content level).  Running a block and running only its effective
operations end in the same core and journal — so in the same persistent content, and any function of
the content (the state root, C07) has the same value. -/
theorem C08_root_of_effective_ops (blk : List (List Stmt × Boundary)) (w w' : World)
    (h : RevsOK w.revs w.nextId) (h' : RevsOK w'.revs w'.nextId)
    (hc : w.core = w'.core) (hj : w.journal = w'.journal) :
    (runBlock blk w).core = (runBlock (effBlock blk) w').core ∧
    (runBlock blk w).journal = (runBlock (effBlock blk) w').journal := by
  induction blk generalizing w w' with
  | nil => exact ⟨hc, hj⟩
  | cons x rest ih =>
    obtain ⟨tx, b⟩ := x
    simp only [runBlock, effBlock, List.map_cons]
    have e1 := C08_effective_tx tx w h
    have e2 := C08_effective_tx ((effStmts tx).map Stmt.op) w' h'
    rw [effStmts_ops, ← hc, ← hj, ← e1] at e2
    simp only [Prod.mk.injEq] at e2
    have hb := bnd_congr b (runStmts tx w) (runStmts ((effStmts tx).map Stmt.op) w') e2.1.symm e2.2.symm
    exact ih _ _ (bnd_revsOK b _ (runStmts_eff tx w h).ok)
      (bnd_revsOK b _ (runStmts_eff _ w' h').ok) hb.1 hb.2

theorem C08_root_of_effective_ops_content {R : Type} (root : (Addr → Option Account) → R)
    (blk : List (List Stmt × Boundary)) (w : World) (h : RevsOK w.revs w.nextId) :
    root (content (runBlock blk w)) = root (content (runBlock (effBlock blk) w)) := by
  have := (C08_root_of_effective_ops blk w w h h rfl rfl).1
  unfold content; rw [this]

/-! ## (4) Copy -/

/-- a copy has no journal and no revisions: every `RevertToSnapshot` on it is rejected
("Snapshots of the copied state cannot be applied to the copy") -/
theorem C08_copy_fresh (w : World) (id : Nat) : revertTo id (copy w) = none := by
  simp [revertTo, findRev, copy]

set_option linter.unusedSimpArgs false in
/-- the copy observes what the original observes (when unflushed changes are tracked, `CleanInv`) -/
theorem C08_copy_obs (w : World) (h : CleanInv w) : obs (copy w) = obs w := by
  have key : ∀ a, (match getObj (copy w).core a with
        | some o => some (o.empty, o.suicided, o.balance, o.nonce, o.code, o.cur, o.com)
        | none => none) =
      (match getObj w.core a with
        | some o => some (o.empty, o.suicided, o.balance, o.nonce, o.code, o.cur, o.com)
        | none => none) := by
    intro a
    simp only [getObj, copy]
    cases ho : w.core.objs a with
    | none => rfl
    | some o =>
      simp only
      cases hD : dirtyAddrs w.journal a
      · cases h1 : o.inDirty <;> cases h2 : o.inPending <;> cases h3 : o.deleted <;> simp [Obj.empty, h1, h2, h3]
        have := h a o ho hD h1 h2 h3
        simp [this.1, this.2]
      · cases h3 : o.deleted <;> simp [Obj.empty, h3]
  have key2 : ∀ a, (getObj (copy w).core a).isSome = (getObj w.core a).isSome := by
    intro a; have := key a; revert this
    cases getObj (copy w).core a <;> cases getObj w.core a <;> simp
  unfold obs obsCore
  simp only [Observation.mk.injEq]
  refine ⟨?_, ?_, ?_, ?_, ?_, ?_, ?_, ?_, rfl, rfl, rfl, rfl, rfl, rfl, rfl⟩ <;>
    (funext a; have := key a; revert this
     cases getObj (copy w).core a <;> cases getObj w.core a <;> simp <;> intros <;> simp_all)

/-- What `Copy()` does NOT preserve when taken in the middle of a transaction (the code comments say
this never happens in practice; in this repository `Copy` is only called by `ManageState` on a
block-boundary state): the copy has no journal, so its `Finalise` does not delete an account that
self-destructed before the copy, whereas the original's does.  Model and code agree on this
(differential); it is outside the property (independence) and recorded as an assumption. -/
theorem C08_copy_midtx_counterexample :
    (content (finalise true (run [.j (.setBalance 1 5), .j (.suicide 1)] World.init)) 1).isNone = true ∧
    (content (finalise true (copy (run [.j (.setBalance 1 5), .j (.suicide 1)] World.init))) 1).isSome = true := by
  decide

/-! ## (5) every reachable world: `Copy()` unconditionally

`Reach` = closure of `World.init` under every journalled operation, `Snapshot`, `RevertToSnapshot(id)` for
ANY id (valid ones revert, the others are rejected), `Prepare`, `Finalise`, `IntermediateRoot`, `Commit`
(either flag), `reopen`, and `Copy()` *between transactions* (empty journal; the assumption under which
the code offers `Copy`, see `checks.d/C08.json`).  `ReachAny` additionally allows `Copy()` anywhere. -/

/-- the closure really contains every run of every command sequence (mid-transaction copies included) -/
theorem C08_reachAny_exec (cmds : List Cmd) : ReachAny (cmds.foldl (fun w c => exec c w) World.init) :=
  reachS_exec cmds .init rfl

/-- the hypothesis of `C08_revert_snapshot` / `C08_root_of_effective_ops` holds in every reachable world -/
theorem C08_reach_revsOK (w : World) (h : ReachAny w) : RevsOK w.revs w.nextId := reachS_revsOK h

/-- **revert_snapshot without side hypotheses**: in every reachable world `s` (any history, copies and
reopened states included), after `Snapshot(); ops` for ANY `ops` an accepted `RevertToSnapshot` of that id
restores core, journal, revision list and hence all 15 getters of `s` -/
theorem C08_revert_snapshot_reach (s : World) (hs : ReachAny s) (ops : List Op) (w' : World)
    (hr : revertTo s.nextId (run ops (snapshot s)) = some w') :
    w'.core = s.core ∧ w'.journal = s.journal ∧ w'.revs = s.revs ∧ obs w' = obs s :=
  have h := C08_revert_snapshot s ops w' (C08_reach_revsOK s hs) hr
  ⟨h.1, h.2.1, h.2.2, C08_revert_snapshot_obs s ops w' (C08_reach_revsOK s hs) hr⟩

/-- **`CleanInv` holds in every reachable world** (one preservation lemma per command in
`KV/Proofs/WorldReach.lean`; the invariant `WInv` is `Tidy` at every prefix of the journal) -/
theorem C08_reach_cleanInv (w : World) (h : Reach w) : CleanInv w := winv_cleanInv (reachS_winv h)

/-- … its storage half also with mid-transaction copies among the ancestors -/
theorem C08_reachAny_cleanInvW (w : World) (h : ReachAny w) : CleanInvW w := winv_cleanInvW (reachS_winv h)

/-- **copy_obs, unconditional**: in every reachable world the copy observes exactly what the original
observes (all 15 getters).  Note that `w` itself may be in the middle of a transaction: the restriction
in `Reach` is on the *ancestors* of `w`. -/
theorem C08_copy_obs_reach (w : World) (h : Reach w) : obs (copy w) = obs w :=
  C08_copy_obs w (C08_reach_cleanInv w h)

/-- with mid-transaction copies among the ancestors the copy still observes every getter of the original
except `HasSuicided` -/
theorem C08_copy_obs_reachAny (w : World) (h : ReachAny w) : (obs (copy w)).noSuicide = (obs w).noSuicide :=
  copy_obs_noSuicide w (C08_reachAny_cleanInvW w h)

/-- a copy taken between transactions commits to the same content as the original, hence to the same
value of any function of the content (the state root) -/
theorem C08_copy_commit_root {R : Type} (root : (Addr → Option Account) → R) (w : World) (h : Reach w)
    (hj : w.journal = []) (del : Bool) :
    root (content (commit del (copy w))) = root (content (commit del w)) := by
  rw [copy_commit_content w (C08_reachAny_cleanInvW w h.weaken)
    (C08_reachAny_cleanInvW _ (ReachS.copy h (fun _ => hj)).weaken) hj del]

/-- **transaction-boundary law**: in every reachable world an account that the open transaction has not
touched (no journal entry names it) reads the same through `GetCommittedState` and `GetState`; in
particular the two getters coincide on all accounts whenever the journal is empty (after `Finalise`).
This is the "original value" that SSTORE gas metering reads. -/
theorem C08_committed_eq_state_untouched (w : World) (h : Reach w) (a : Addr)
    (hD : dirtyAddrs w.journal a = false) : (obs w).committed a = (obs w).state a :=
  winv_committed_eq_state (reachS_winv h) a hD

/-- … which a mid-transaction copy breaks: the copy has the uncommitted write but no journal -/
theorem C08_committed_eq_state_midtx_counterexample :
    ReachAny (copy (run [.j (.setState 1 2 7)] World.init)) ∧
    (copy (run [.j (.setState 1 2 7)] World.init)).journal = [] ∧
    (obs (copy (run [.j (.setState 1 2 7)] World.init))).state 1 2 = 7 ∧
    (obs (copy (run [.j (.setState 1 2 7)] World.init))).committed 1 2 = 0 :=
  ⟨ReachS.copy (reachS_run _ ReachS.init) (by simp), by decide⟩

/-- the world of `note:copy-of-midtx-copy-differs`: SetBalance, Suicide, Copy (mid-transaction), Commit on the copy -/
def midtxWitness : World :=
  commit false (copy (run [.j (.setBalance 1 5), .j (.suicide 1)] World.init))

/-- **The restriction to between-transaction copies is necessary** (`reach_cleanInv` and
`copy_obs_reach` are FALSE for `ReachAny`): a copy taken after `Suicide` and before `Finalise` keeps the
mark but not the journal entry, so its `Commit` does not delete the account and leaves a clean live
object with the mark; a copy of *that* re-reads the account from the trie and has lost the mark.
The real `StateDB` does the same (replayed in-package: `notes/C08.md`, "mid-transaction Copy"). -/
theorem C08_copy_obs_midtx_counterexample :
    ReachAny midtxWitness ∧ ¬ CleanInv midtxWitness ∧
    (obs midtxWitness).suicided 1 = true ∧ (obs (copy midtxWitness)).suicided 1 = false ∧
    obs (copy midtxWitness) ≠ obs midtxWitness := by
  have h1 : (obs midtxWitness).suicided 1 = true := by decide
  have h2 : (obs (copy midtxWitness)).suicided 1 = false := by decide
  have hne : obs (copy midtxWitness) ≠ obs midtxWitness := by
    intro he
    rw [he, h1] at h2
    exact absurd h2 (by decide)
  refine ⟨?_, fun hc => hne (C08_copy_obs _ hc), h1, h2, hne⟩
  exact ReachS.bnd (.commit false) (ReachS.copy (reachS_run _ ReachS.init) (by simp))

/-! ### a copy is independent of the original

The model is a pure function of the instance, so "operations on the copy do not change the original" holds
by construction; it is stated for the system of two instances on which ANY interleaving of commands runs
(`runPair`, side `true` = original, `false` = copy).  What is *not* captured by this theorem — that the
real copy shares no mutable map / trie node with the original — is the oracle `c08-copy-not-independent`
and the differential (the driver keeps the instances in one table exactly like `runPair`). -/

/-- each instance ends in the state its own commands alone produce -/
theorem C08_copy_independent (w : World) (cmds : List (Bool × Cmd)) :
    runPair cmds (w, copy w) = (runCmds (cmdsOf true cmds) w, runCmds (cmdsOf false cmds) (copy w)) :=
  runPair_proj cmds _

/-- arbitrary commands on the copy never change what the original observes, and arbitrary commands on
the original never change what the copy observes — which is what the original observed when the copy was
taken (`C08_copy_obs_reach`) -/
theorem C08_copy_independent_obs (w : World) (h : Reach w) (cmds : List (Bool × Cmd)) :
    ((∀ sc ∈ cmds, sc.1 = false) → obs (runPair cmds (w, copy w)).1 = obs w) ∧
    ((∀ sc ∈ cmds, sc.1 = true) → obs (runPair cmds (w, copy w)).2 = obs w) := by
  rw [C08_copy_independent]
  constructor
  · intro hs
    have : cmdsOf true cmds = [] := by
      simp only [cmdsOf, List.map_eq_nil_iff, List.filter_eq_nil_iff]
      intro sc hsc; simp [hs sc hsc]
    simp [this, runCmds]
  · intro hs
    have : cmdsOf false cmds = [] := by
      simp only [cmdsOf, List.map_eq_nil_iff, List.filter_eq_nil_iff]
      intro sc hsc; simp [hs sc hsc]
    simp only [this, runCmds, List.foldl_nil]
    exact C08_copy_obs_reach w h

/-! ## (6) read-back of committed state

`reopen v` is the model of `state.New(root, db, snaps)` at the root returned by the `Commit` that produced
`v`: fresh caches, the accounts and their storage taken from the committed tier (`content`: the live
objects with their committed storage).  The model has ONE committed tier — account trie, storage tries
and snapshot layers are abstracted by the function `com` they implement — so there is one `reopen`;
that trie and snapshot tree return the same is oracle (iii) on the real code.

Excluded from the comparison (`Observation.persistent`) are exactly the observables that are not
committed state but per-`StateDB`-instance memory, which a fresh `StateDB` has empty: logs and the log
counter, preimages, access list, transient storage.  Everything else — existence, emptiness, balance,
nonce, code, storage, committed storage, self-destruct marks (none are left after `Commit`), refund counter
(zero after `Commit`) — is read back exactly. -/

/-- `reopen` holds exactly the committed content (accounts, committed storage) of the state it is opened from -/
theorem C08_reopen_content (v : World) : content (reopen v) = content v := reopen_content v

/-- **readback**: for every reachable world and either `deleteEmptyObjects` flag, the state reopened at the
committed root observes exactly what the committing state observes, on all committed observables -/
theorem C08_readback (w : World) (h : Reach w) (del : Bool) :
    obs (reopen (commit del w)) = (obs (commit del w)).persistent := by
  have hw := reachS_winv h
  rw [reopen_obs_accounts _ (commit_settled del w hw)]
  exact accountsOnly_eq_persistent _ (commit_noSuicide del w hw) (commit_refund del w hw)

/-- with mid-transaction copies among the ancestors: the same for the account observables; the
committing instance may then keep a self-destruct mark and a refund counter (next theorem) -/
theorem C08_readback_reachAny (w : World) (h : ReachAny w) (del : Bool) :
    obs (reopen (commit del w)) = (obs (commit del w)).accountsOnly :=
  reopen_obs_accounts _ (commit_settled del w (reachS_winv h))

/-- why `C08_readback` needs `Reach`: after a mid-transaction `Copy()` the copy's `Commit` keeps the
self-destruct mark of a live account and the refund counter; the reopened state has neither -/
theorem C08_readback_midtx_counterexample :
    ReachAny (copy (run [.j (.setBalance 1 5), .j (.suicide 1), .j (.addRefund 7)] World.init)) ∧
    (let v := commit false (copy (run [.j (.setBalance 1 5), .j (.suicide 1), .j (.addRefund 7)] World.init))
     (obs v).suicided 1 = true ∧ (obs (reopen v)).suicided 1 = false ∧
     (obs v).refund = 7 ∧ (obs (reopen v)).refund = 0) := by
  refine ⟨ReachS.copy (reachS_run _ ReachS.init) (by simp), ?_⟩
  decide

/-- **reading back returns what was written**: an account that exists before `Commit(del)` and is not
swept by the transaction-end `Finalise` (`survives`: not both named by the journal and self-destructed /
empty-with-`del`) is read back from the committed root with exactly the balance, nonce, code and storage
it had (`GetState` before the commit = `GetState` = `GetCommittedState` after reopening); every other
account does not exist in the reopened state. -/
theorem C08_readback_written (w : World) (h : ReachAny w) (del : Bool) (a : Addr) :
    (survives del w a = true →
      (obs (reopen (commit del w))).exist a = true ∧
      (obs (reopen (commit del w))).balance a = (obs w).balance a ∧
      (obs (reopen (commit del w))).nonce a = (obs w).nonce a ∧
      (obs (reopen (commit del w))).code a = (obs w).code a ∧
      (obs (reopen (commit del w))).state a = (obs w).state a ∧
      (obs (reopen (commit del w))).committed a = (obs w).state a) ∧
    (survives del w a = false →
      (obs (reopen (commit del w))).exist a = false ∧ (obs (reopen (commit del w))).balance a = 0 ∧
      (obs (reopen (commit del w))).nonce a = 0 ∧ (obs (reopen (commit del w))).code a = [] ∧
      (obs (reopen (commit del w))).state a = fun _ => 0) := by
  have hg := commit_getObj del w (C08_reachAny_cleanInvW w h) a
  have hr := reopen_getObj (commit del w) a
  rw [hg] at hr
  simp only [obs, obsCore, survives]
  cases ho : getObj w.core a with
  | none => simp [ho] at hr ⊢; simp [hr]
  | some o =>
    simp only [ho] at hr
    cases hk : (dirtyAddrs w.journal a && (o.suicided || (del && o.empty)))
    · simp [hk] at hr ⊢; simp [hr]
    · simp [hk] at hr ⊢; simp [hr]

/-! ## (7) effective operations, every reachable start -/

theorem reachS_runBlock {strict : Bool} (blk : List (List Stmt × Boundary)) (w : World) (h : ReachS strict w) :
    ReachS strict (runBlock blk w) := by
  induction blk generalizing w with
  | nil => exact h
  | cons x rest ih =>
    obtain ⟨tx, b⟩ := x
    exact ih _ (.bnd b (reachS_runStmts tx w h))

/-- **root_of_effective_ops without side hypotheses**: from every reachable world — in particular from
the fresh state `World.init` — a block and its effective (non-reverted) operations end in the same
core and journal, the same persistent content and the same value of any function of the content. -/
theorem C08_root_of_effective_ops_reach {R : Type} (root : (Addr → Option Account) → R)
    (blk : List (List Stmt × Boundary)) (w : World) (h : ReachAny w) :
    (runBlock blk w).core = (runBlock (effBlock blk) w).core ∧
    (runBlock blk w).journal = (runBlock (effBlock blk) w).journal ∧
    root (content (runBlock blk w)) = root (content (runBlock (effBlock blk) w)) :=
  have hr := C08_reach_revsOK w h
  ⟨(C08_root_of_effective_ops blk w w hr hr rfl rfl).1, (C08_root_of_effective_ops blk w w hr hr rfl rfl).2,
   C08_root_of_effective_ops_content root blk w hr⟩

/-- the fresh-state instance named by the property -/
theorem C08_root_of_effective_ops_fresh {R : Type} (root : (Addr → Option Account) → R)
    (blk : List (List Stmt × Boundary)) :
    root (content (runBlock blk World.init)) = root (content (runBlock (effBlock blk) World.init)) :=
  (C08_root_of_effective_ops_reach root blk World.init .init).2.2

/-- root clause and read-back clause together: committing a block and reopening at the root observes
the same as committing only the effective operations on a fresh state and reopening there — and (by
`C08_readback`) that is what the committing state itself observes -/
theorem C08_effective_ops_readback (blk : List (List Stmt × Boundary)) (del : Bool) :
    obs (reopen (commit del (runBlock blk World.init))) =
      obs (reopen (commit del (runBlock (effBlock blk) World.init))) ∧
    obs (reopen (commit del (runBlock blk World.init))) = (obs (commit del (runBlock blk World.init))).persistent := by
  refine ⟨?_, C08_readback _ (reachS_runBlock blk _ .init) del⟩
  obtain ⟨hc, hj, _⟩ := C08_root_of_effective_ops_reach (fun _ => ()) blk World.init .init
  have : (commit del (runBlock blk World.init)).core = (commit del (runBlock (effBlock blk) World.init)).core := by
    simp [commit, iroot, finalise, hc, hj]
  simp only [obs, reopen, content, this]

/-! ## (8) effective operations of UNSTRUCTURED transactions

(3) and (7) take transactions as properly nested scopes.  Here a transaction is ANY list of `Op`:
`Snapshot`s and `RevertToSnapshot id` for arbitrary ids, in any arrangement (revert to an outer snapshot
skipping inner ones, stale ids that the code rejects, repeated reverts).  `effOps ops w`
(`KV/Proofs/WorldTrack.lean`) is computed by bookkeeping beside the run — for every valid revision the
list of effective operations at its `Snapshot` — exactly as the Go oracle `c08-root-effective-ops` does. -/

/-- **any transaction ends in the (core, journal) of its effective operations alone** (from a transaction
start: no valid revisions, which is the case after `Finalise`/`IntermediateRoot`/`Commit`, in a fresh, a
copied and a reopened state) -/
theorem C08_effective_ops_unstructured (ops : List Op) (w : World) (hr : w.revs = []) :
    ((run ops w).core, (run ops w).journal) = runJ (effOps ops w) (w.core, w.journal) :=
  run_effOps ops w hr

/-- a transaction as the chain runs it: optional `Prepare`, any operations, then the boundary that ends it -/
structure UTx where
  prep : Option (TxH × Nat)
  ops : List Op
  fin : Boundary

/-- `Finalise`, `IntermediateRoot` and `Commit` invalidate every revision -/
def Boundary.clears : Boundary → Bool
  | .prepare _ _ => false
  | _ => true

def UTx.start (x : UTx) (w : World) : World :=
  match x.prep with
  | some (h, ti) => prepare h ti w
  | none => w

def runUTx (x : UTx) (w : World) : World := bnd x.fin (run x.ops (x.start w))

def runUBlock : List UTx → World → World
  | [], w => w
  | x :: rest, w => runUBlock rest (runUTx x w)

/-- the same block with every transaction replaced by its effective operations -/
def effUBlock : List UTx → World → List UTx
  | [], _ => []
  | x :: rest, w => { x with ops := (effOps x.ops (x.start w)).map Op.j } :: effUBlock rest (runUTx x w)

theorem bnd_clears_revs (b : Boundary) (w : World) (h : b.clears = true) : (bnd b w).revs = [] := by
  cases b <;> simp [Boundary.clears] at h <;> rfl

/-- **root_of_effective_ops for arbitrary blocks**: every block of unstructured transactions ends in the
same core and journal — hence the same content and root — as the block of its effective operations -/
theorem C08_root_of_effective_ops_unstructured (blk : List UTx) (w w' : World)
    (hr : w.revs = []) (hr' : w'.revs = []) (hc : w.core = w'.core) (hj : w.journal = w'.journal)
    (hfin : ∀ x ∈ blk, x.fin.clears = true) :
    (runUBlock blk w).core = (runUBlock (effUBlock blk w) w').core ∧
    (runUBlock blk w).journal = (runUBlock (effUBlock blk w) w').journal := by
  induction blk generalizing w w' with
  | nil => exact ⟨hc, hj⟩
  | cons x rest ih =>
    simp only [runUBlock, effUBlock]
    have hs : (x.start w).core = (x.start w').core ∧ (x.start w).journal = (x.start w').journal ∧
        (x.start w).revs = [] ∧ (x.start w').revs = [] := by
      unfold UTx.start
      cases x.prep with
      | none => exact ⟨hc, hj, hr, hr'⟩
      | some p => obtain ⟨h, ti⟩ := p; simp [prepare, hc, hj, hr, hr']
    obtain ⟨hsc, hsj, hsr, hsr'⟩ := hs
    have e1 := run_effOps x.ops (x.start w) hsr
    have e2 := run_effOps ((effOps x.ops (x.start w)).map Op.j) (x.start w') hsr'
    have e3 : effOps ((effOps x.ops (x.start w)).map Op.j) (x.start w') = effOps x.ops (x.start w) := by
      simpa [effOps] using (effOps_jops (effOps x.ops (x.start w)) (x.start w') ⟨[], []⟩).1
    rw [e3, ← hsc, ← hsj, ← e1] at e2
    simp only [Prod.mk.injEq] at e2
    have hb := bnd_congr x.fin (run x.ops (x.start w))
      (run ((effOps x.ops (x.start w)).map Op.j) (x.start w')) e2.1.symm e2.2.symm
    have hcl := hfin x (by simp)
    have hx : ({ x with ops := (effOps x.ops (x.start w)).map Op.j } : UTx).start w' = x.start w' := rfl
    simp only [runUTx, hx]
    exact ih _ _ (bnd_clears_revs _ _ hcl) (bnd_clears_revs _ _ hcl) hb.1 hb.2
      (fun y hy => hfin y (by simp [hy]))

/-- … from the fresh state, as a statement about any function of the content (the root) -/
theorem C08_root_of_effective_ops_unstructured_fresh {R : Type} (root : (Addr → Option Account) → R)
    (blk : List UTx) (hfin : ∀ x ∈ blk, x.fin.clears = true) :
    root (content (runUBlock blk World.init)) = root (content (runUBlock (effUBlock blk World.init) World.init)) := by
  have := (C08_root_of_effective_ops_unstructured blk World.init World.init rfl rfl rfl rfl hfin).1
  unfold content; rw [this]

/-! ## non-vacuity -/

/-- a run with nested snapshots, an inner revert, a stale revert and a panicking SubRefund after which
the outer revert is accepted -/
example :
    (revertTo 0 (run [.j (.setBalance 1 5), .snapshot, .j (.setState 1 2 7), .j (.suicide 1), .revert 1,
      .revert 7, .j (.subRefund 3), .j (.alAddSlot 2 3), .j (.createAccount 1)] (snapshot World.init))).isSome = true := by
  decide

example : RevsOK World.init.revs World.init.nextId := revsOK_nil _

/-- operations do write entries (the undo theorem is not about empty journals) -/
example : (jop (.setBalance 1 5) Core.init).2.1.length = 2 := by decide
example : (jop (.alAddSlot 1 2) Core.init).2.1.length = 2 := by decide
example : (jop (.subRefund 1) Core.init).2.2 = .panic ∧ (jop (.subRefund 1) Core.init).2.1.length = 1 := by decide

/-- a reverted scope inside a surviving scope: only the outer operations are effective -/
example : (effStmts [.scope [.op (.setNonce 1 1), .scope [.op (.setNonce 1 2)] true] false]).length = 1 := by
  decide

/-- unstructured: two nested snapshots, a revert to the OUTER one skipping the inner, a stale revert
(rejected), an operation after it — the effective operations are the first and the last -/
example : (effOps [.j (.setNonce 1 1), .snapshot, .j (.setNonce 1 2), .snapshot, .j (.setNonce 1 3), .revert 0,
    .revert 1, .j (.setNonce 2 9)] World.init).length = 2 ∧
    (obs (run [.j (.setNonce 1 1), .snapshot, .j (.setNonce 1 2), .snapshot, .j (.setNonce 1 3), .revert 0,
    .revert 1, .j (.setNonce 2 9)] World.init)).nonce 1 = 1 := by decide

example : CleanInv World.init := by intro a o h; simp [World.init, Core.init] at h

/-- `Reach` is not only `World.init`: a world in the middle of the second transaction of a
between-transaction copy, with a self-destructed account, a storage write and a pending snapshot;
its copy carries the mark and the uncommitted storage (so `C08_copy_obs_reach` is about non-trivial
observations) -/
def sampleReach : World :=
  run [.j (.setState 1 2 7), .snapshot, .j (.suicide 1), .j (.setNonce 2 1), .j (.setState 2 0 3)]
    (copy (finalise true (run [.j (.setBalance 1 5), .j (.setState 1 2 4), .j (.addBalance 3 0)] World.init)))

example : Reach sampleReach :=
  reachS_run _ (ReachS.copy (ReachS.bnd (.finalise true) (reachS_run _ ReachS.init)) (fun _ => rfl))

example : sampleReach.journal.length = 5 ∧ (obs (copy sampleReach)).suicided 1 = true ∧
    (obs (copy sampleReach)).state 2 0 = 3 ∧ (obs (copy sampleReach)).committed 1 2 = 4 ∧
    (obs (copy sampleReach)).state 1 2 = 7 := by decide

/-- read-back is about non-empty content, and both branches of `C08_readback_written` occur: account 1
self-destructed in this transaction (swept), account 2 written (read back), account 3 was created empty in
the first transaction and deleted by `Finalise(true)` -/
example : survives true sampleReach 1 = false ∧ survives true sampleReach 2 = true ∧
    (obs sampleReach).exist 1 = true ∧ (obs (reopen (commit true sampleReach))).exist 1 = false ∧
    (obs (reopen (commit true sampleReach))).state 2 0 = 3 ∧ (obs sampleReach).exist 3 = false := by decide

/-- an account that is not named by the journal survives with its committed storage -/
example : survives true (run [.j (.setState 2 0 3)] (copy (finalise true (run [.j (.setBalance 1 5), .j (.setState 1 2 4)] World.init)))) 1 = true ∧
    (obs (reopen (commit true (run [.j (.setState 2 0 3)] (copy (finalise true (run [.j (.setBalance 1 5), .j (.setState 1 2 4)] World.init))))))).state 1 2 = 4 := by
  decide

/-- two instances, interleaved commands: the original is untouched by what the copy does and vice versa -/
example :
    (let r := runPair [(false, .op (.j (.setBalance 2 9))), (false, .bnd (.commit true)), (true, .op (.j (.setNonce 2 5)))]
      (sampleReach, copy sampleReach)
     (obs r.1).balance 2 = 0 ∧ (obs r.1).nonce 2 = 5 ∧ (obs r.2).balance 2 = 9 ∧ (obs r.2).nonce 2 = 1) := by decide

end KV.World
