import KV.Props.C04Byz
import KV.Props.C12
import KV.Proofs.CsSyncNilNet
/-!
# C04, network level: the proposer rotation reaches a correct proposer within a bounded number of rounds

`sync_round_decides(_byz)` / `pol_round_decides(_byz)` / `unlucky_rounds_bounded` decide in ONE
synchronous round once the round's proposer is correct (and its valid round dominates the
conflicting locks).  This file supplies the rotation half of "within a bounded number of rounds":

* `CorrectProposerWithin N h k` — every window of `k` consecutive rounds of height `h` contains a
  round for which all nodes compute the same, correct, proposer.
* `weighted_correctProposerWithin` — weighted powers, via C12 (`KV/Props/C12.lean`): if the nodes'
  proposer function is C12's weighted rotation (`WeightedRotation`: the node model's `cfg.proposer`
  is an uninterpreted function, so this is a hypothesis; specification rounds `Spec.step`, the ones
  `rounds_refine_spec_partial` / `proposer_path_independent` tie to the int64 model) from a centred
  list inside the window `2T`, a correct validator of power `p` proposes in every window of
  `(2·n·T + n − 1)/p + 2` rounds.  Uses `no_starvation_window`, C12's `no_starvation` for windows
  that start after any number of rounds (from `priority_bounds` and `no_turn_gains_all`).
* `roundRobin_correctProposerWithin` — for the equal-power case of the C12 spec, a rotation
  `proposer h r = (r + c h) % n` (what `netOf` uses with `c = 0`): every window of `n` rounds
  contains EVERY validator as proposer (`roundRobin_hits`), in particular a correct one (one exists
  when the correct validators hold +2/3: `exists_correct_of_quorum`).
* `first_correct_round` — the first round of a window with a correct proposer, all earlier rounds
  of the window having a faulty (or disputed) one.
* `nil_round_advances` (`KV/Proofs/CsSyncNilNet.lean`) / `nil_rounds_advance` — a FAILED round
  without a proposal (Propose timeouts, nil prevotes, nil precommits, PrecommitWait timeouts;
  faulty validators silent, their earlier votes for the round may sit in the vote sets) takes a
  boundary at which no correct node is locked or holds a valid block (`NilReady`) to the same
  boundary of the next round; the next proposer has signed its proposal.
* **`decides_within_bounded_synchronous_rounds_unlocked`** — from every `GInv` state at a `NilReady`
  boundary of round `r`, with `CorrectProposerWithin N h k`: the synchronous continuation (`m < k`
  failed rounds — exactly the rounds without an agreed correct proposer —, then the synchronous
  round `r + m` with ARBITRARY adversarial inputs interleaved) is legal and every correct node
  commits: the decision falls in a round `< r + k`.  **`fresh_network_decides_within_k_rounds`**:
  the same from `gstart` (round `≤ k`; `k = n` under round-robin, the C12 bound under the weighted
  rotation).
* `decides_within_bounded_synchronous_rounds_partial` — correct nodes may be LOCKED: if the
  execution reaches the boundary of a round of the window whose correct proposer dominates
  (`Dominated`), POL gossip + the synchronous round (adversarial inputs allowed) decide; the round
  index is `< r + k`.  What is NOT proved (`decidesWithinBoundedSynchronousRoundsStatement`): that
  with locks around the synchronous continuation through the failed rounds reaches such a boundary
  within a bound.  It needs the failed round with correct nodes prevoting DIFFERENT values (their
  locks / nil; PrevoteWait timeout, nil precommits: the stages of `KV/Proofs/CsSyncNil*.lean` have
  all correct nodes prevote nil) and the argument that a correct validator with the highest valid
  round dominates at its turn (`lockedRound ≤ validRound` is not an invariant of the node model:
  a relock on a polka for the locked block whose proposal block is missing raises `lockedRound`
  only).
-/
namespace KV.Props.C04Net
open KV.Cs KV.Cs.Sync KV.Agree KV.Props.C03 KV.Props.C01Cs

/-- every window of `k` consecutive rounds of height `h` contains a round whose proposer, as every
node computes it, is one and the same correct validator -/
def CorrectProposerWithin (N : Net) (h k : Nat) : Prop :=
  ∀ r, ∃ r' p, r ≤ r' ∧ r' < r + k ∧ p < N.powers.length ∧ N.F p = false ∧
    ∀ i, (N.cfg i).proposer h r' = p

/-- equal-power rotation (C12 spec with equal powers): validator `(r + c h) % n` proposes round `r` -/
def RoundRobin (N : Net) (c : Nat → Nat) : Prop :=
  ∀ i h r, (N.cfg i).proposer h r = (r + c h) % N.powers.length

/-- a rotation `(r + c) % n` visits every residue in every window of `n` rounds -/
theorem roundRobin_hits (n c v r : Nat) (hv : v < n) : ∃ r', r ≤ r' ∧ r' < r + n ∧ (r' + c) % n = v := by
  have hn : 0 < n := by omega
  have hx : (r + c) % n < n := Nat.mod_lt _ hn
  by_cases hle : (r + c) % n ≤ v
  · refine ⟨r + (v - (r + c) % n), by omega, by omega, ?_⟩
    have e : r + (v - (r + c) % n) + c = (r + c) + (v - (r + c) % n) := by omega
    rw [e, Nat.add_mod, Nat.mod_eq_of_lt (a := v - (r + c) % n) (by omega)]
    have : (r + c) % n + (v - (r + c) % n) = v := by omega
    rw [this, Nat.mod_eq_of_lt hv]
  · refine ⟨r + (n - (r + c) % n + v), by omega, by omega, ?_⟩
    have e : r + (n - (r + c) % n + v) + c = (r + c) + (n - (r + c) % n + v) := by omega
    rw [e, Nat.add_mod]
    have h2 : (n - (r + c) % n + v) % n = n - (r + c) % n + v := Nat.mod_eq_of_lt (by omega)
    rw [h2]
    have : (r + c) % n + (n - (r + c) % n + v) = n + v := by omega
    rw [this, Nat.add_mod_left, Nat.mod_eq_of_lt hv]

/-- the correct validators hold +2/3 of the power: there is one -/
theorem exists_correct_of_quorum (N : Net) (hq : CorrectQuorum N) : ∃ p, p < N.powers.length ∧ N.F p = false := by
  unfold CorrectQuorum at hq
  have hpos : 0 < power (valsOf N.powers) (pwOf N.powers) (fun j => !N.F j) := by omega
  obtain ⟨v, hv, hp⟩ := power_pos_exists _ _ _ hpos
  refine ⟨v, ?_, by simpa using hp⟩
  unfold valsOf at hv
  exact List.mem_range.mp hv

/-- under round-robin every validator proposes in every window of `n` rounds -/
theorem roundRobin_every_validator (N : Net) (c : Nat → Nat) (rr : RoundRobin N c) (h r v : Nat)
    (hv : v < N.powers.length) :
    ∃ r', r ≤ r' ∧ r' < r + N.powers.length ∧ ∀ i, (N.cfg i).proposer h r' = v := by
  obtain ⟨r', h1, h2, h3⟩ := roundRobin_hits N.powers.length (c h) v r hv
  exact ⟨r', h1, h2, fun i => by rw [rr i h r', h3]⟩

/-- **rotation bound, equal powers**: under round-robin, every window of `n` consecutive rounds
contains a round whose proposer is correct -/
theorem roundRobin_correctProposerWithin (N : Net) (c : Nat → Nat) (rr : RoundRobin N c)
    (hq : CorrectQuorum N) (h : Nat) : CorrectProposerWithin N h N.powers.length := by
  intro r
  obtain ⟨p, hp, hF⟩ := exists_correct_of_quorum N hq
  obtain ⟨r', h1, h2, h3⟩ := roundRobin_every_validator N c rr h r p hp
  exact ⟨r', p, h1, h2, hp, hF, h3⟩

/-- `netOf` rotates round-robin -/
theorem netOf_roundRobin (powers : List Nat) : RoundRobin (netOf powers) (fun _ => 0) := fun _ _ _ => rfl

/-- the FIRST round of the window with an agreed correct proposer -/
theorem first_correct_round (N : Net) (h k : Nat) (hk : CorrectProposerWithin N h k) (r : Nat) :
    ∃ r' p, r ≤ r' ∧ r' < r + k ∧ p < N.powers.length ∧ N.F p = false ∧ (∀ i, (N.cfg i).proposer h r' = p) ∧
      ∀ r'', r ≤ r'' → r'' < r' →
        ¬ ∃ q, q < N.powers.length ∧ N.F q = false ∧ ∀ i, (N.cfg i).proposer h r'' = q := by
  obtain ⟨r0, p0, h1, h2, h3, h4, h5⟩ := hk r
  -- strong induction on the distance
  have key : ∀ d r1 p1, r1 = r + d → r1 < r + k → p1 < N.powers.length → N.F p1 = false →
      (∀ i, (N.cfg i).proposer h r1 = p1) →
      ∃ r' p, r ≤ r' ∧ r' < r + k ∧ p < N.powers.length ∧ N.F p = false ∧ (∀ i, (N.cfg i).proposer h r' = p) ∧
        ∀ r'', r ≤ r'' → r'' < r' →
          ¬ ∃ q, q < N.powers.length ∧ N.F q = false ∧ ∀ i, (N.cfg i).proposer h r'' = q := by
    intro d
    induction d using Nat.strongRecOn with
    | _ d ih =>
      intro r1 p1 e hlt hp hF hall
      by_cases hex : ∃ r'', r ≤ r'' ∧ r'' < r1 ∧
          ∃ q, q < N.powers.length ∧ N.F q = false ∧ ∀ i, (N.cfg i).proposer h r'' = q
      · obtain ⟨r'', a1, a2, q, a3, a4, a5⟩ := hex
        exact ih (r'' - r) (by omega) r'' q (by omega) (by omega) a3 a4 a5
      · exact ⟨r1, p1, by omega, hlt, hp, hF, hall, fun r'' b1 b2 hq => hex ⟨r'', b1, b2, hq⟩⟩
  exact key (r0 - r) r0 p0 (by omega) h2 h3 h4 h5

/-- **Full statement (NOT proved): decides within a bounded number of synchronous rounds.**  From
every reachable round boundary (all correct nodes in step Propose of (h, r), nothing of the round
received), if every window of `k` rounds has a correct proposer, SOME legal continuation that
delivers only votes of correct validators, fires only scheduled timeouts and touches only rounds
`< r + k + n` of height `h` lets every correct node commit.  (`+ n`: a correct proposer's valid
round need not dominate at its first turn — `two_sync_rounds_not_enough_counterexample` —; the
argument is that no lock is acquired in a failed synchronous round, so the correct validator
with the highest valid round dominates when its turn comes.)  Proved instances: every boundary at
which no correct node is locked or holds a valid block
(`decides_within_bounded_synchronous_rounds_unlocked`, bound `k`), in particular the fresh network
(`fresh_network_decides_within_k_rounds`); `k = 1` with `Dominated`
(`unlucky_rounds_bounded_decides_byz`); the rotation bounds (`roundRobin_correctProposerWithin`,
`weighted_correctProposerWithin`). -/
def decidesWithinBoundedSynchronousRoundsStatement : Prop :=
  ∀ (N : Net), N.WF → CorrectQuorum N →
    ∀ (steps : List GStep), GOkS N (gstart N) steps →
      ∀ h r k, CorrectProposerWithin N h k →
        (∀ i, i < N.powers.length → N.F i = false →
          NodeAtBoundary (N.cfg i) h r ((grun N (gstart N) steps).st i)) →
        ∃ (more : List GStep) (b : Nat), GOkS N (grun N (gstart N) steps) more ∧
          (∀ s ∈ more, ∀ peer idx t h' r' tgt sigok, s.2.2 = Input.vote peer idx t h' r' tgt sigok →
            N.F idx = false ∧ h' = h ∧ r' < r + k + N.powers.length) ∧
          allCommit N (grun N (grun N (gstart N) steps) more) h b

/-- **decides_within_bounded_synchronous_rounds (partial).**  The combination of the rotation bound
with `unlucky_rounds_bounded` that is proved: let every window of `k` rounds have a correct proposer
and let `r'` be the first such round from `r` on (`first_correct_round`; so `r' < r + k` and the
rounds `r … r'-1` have no agreed correct proposer).  If the execution has reached the boundary of
round `r'` and that proposer's valid round dominates every conflicting lock (`Dominated`) — the
part that is NOT derived from the synchronous continuation through the failed rounds — then POL
gossip and the synchronous round `r'`, with arbitrary adversarial inputs interleaved, are a legal
execution after which every correct node has committed. -/
theorem decides_within_bounded_synchronous_rounds_partial (N : Net) (wf : N.WF) (hq : CorrectQuorum N)
    (h k : Nat) (hk : CorrectProposerWithin N h k) (r : Nat) :
    ∃ r' p, r ≤ r' ∧ r' < r + k ∧ p < N.powers.length ∧ N.F p = false ∧ (∀ i, (N.cfg i).proposer h r' = p) ∧
      ∀ (steps : List GStep), GOkS N (gstart N) steps →
        ∀ pol b, Dominated N (grun N (gstart N) steps) h r' p pol b →
          ∀ (JA JB JC : ByzFamily), ByzOk N p h r' b JA → ByzOk N p h r' b JB → ByzOk N p h r' b JC →
            GOkS N (gstart N) (steps ++ (polGossip N h pol b
                (polkaSet ((grun N (gstart N) steps).st p) h pol b N.powers.length) ++
              syncRoundByz N h r' p pol b JA JB JC)) ∧
            allCommit N (grun N (gstart N) (steps ++ (polGossip N h pol b
                (polkaSet ((grun N (gstart N) steps).st p) h pol b N.powers.length) ++
              syncRoundByz N h r' p pol b JA JB JC))) h b := by
  obtain ⟨r', p, h1, h2, h3, h4, h5, _⟩ := first_correct_round N h k hk r
  refine ⟨r', p, h1, h2, h3, h4, h5, fun steps hok pol b D JA JB JC hA hB hC => ?_⟩
  obtain ⟨ok, hc⟩ := unlucky_rounds_bounded_decides_byz N wf hq steps hok h r' p pol b D JA JB JC hA hB hC
  exact ⟨ok, fun i hi hF => hc i hi hF⟩

/-! ### failed rounds without a proposal, and the bounded-rounds theorem when no correct node is locked -/

/-- `m` failed rounds `r, r+1, …, r+m-1`; `blk r'` = the block the proposer of round `r'` creates -/
def nilRounds (N : Net) (h : Nat) (blk : Nat → Nat) : Nat → Nat → List GStep
  | _, 0 => []
  | r, m + 1 => nilRound N h r (some (blk (r + 1))) ++ nilRounds N h blk (r + 1) m

/-- **nil_rounds_advance.**  `m` failed rounds from a `NilReady` boundary are a legal execution and
end at the `NilReady` boundary of round `r + m` (no lock is acquired, no valid block appears). -/
theorem nil_rounds_advance (N : Net) (wf : N.WF) (h : Nat) (blk : Nat → Nat) : ∀ (m r : Nat) (g : GState),
    GInv N g → NilReady N g h r (blk r) →
    GOkS N g (nilRounds N h blk r m) ∧ GInv N (grun N g (nilRounds N h blk r m)) ∧
    NilReady N (grun N g (nilRounds N h blk r m)) h (r + m) (blk (r + m))
  | 0, _, _, G, R => ⟨trivial, G, R⟩
  | m + 1, r, g, G, R => by
    obtain ⟨ok1, R1⟩ := nil_round_advances N wf g G h r (blk r) (blk (r + 1)) R
    have G1 := grun_inv_s wf _ g G ok1
    obtain ⟨ok2, G2, R2⟩ := nil_rounds_advance N wf h blk m (r + 1) _ G1 R1
    have e : r + 1 + m = r + (m + 1) := by omega
    rw [e] at R2
    show GOkS N g (nilRound N h r (some (blk (r + 1))) ++ nilRounds N h blk (r + 1) m) ∧
      GInv N (grun N g (nilRound N h r (some (blk (r + 1))) ++ nilRounds N h blk (r + 1) m)) ∧
      NilReady N (grun N g (nilRound N h r (some (blk (r + 1))) ++ nilRounds N h blk (r + 1) m)) h (r + (m + 1))
        (blk (r + (m + 1)))
    rw [grun_append]
    exact ⟨(goks_append N _ _ g).mpr ⟨ok1, ok2⟩, G2, R2⟩

/-- a `NilReady` boundary whose agreed proposer is correct is a `RoundReadyByz` boundary -/
theorem NilReady.roundReady {N : Net} {g : GState} {h r b : Nat} (R : NilReady N g h r b) (p : Nat)
    (hp : p < N.powers.length) (hFp : N.F p = false) (hall : ∀ i, (N.cfg i).proposer h r = p) :
    RoundReadyByz N g h r p 0 b := by
  obtain ⟨hq, hnode⟩ := R
  refine ⟨hq, hp, hFp, (hnode p hp hFp).2 (hall p), fun i hi hF => ?_⟩
  obtain ⟨⟨B, st, _, _⟩, _⟩ := hnode i hi hF
  exact ⟨hall i, B.nh, B.hh, B.hr, st, B.prop, B.pb, B.parts, Or.inl B.lk, Or.inl rfl,
    by rw [State.slots_eq]; exact B.lens.slots _ _ _ B.ex0, by rw [State.slots_eq]; exact B.lens.slots _ _ _ B.ex0⟩

/-- **decides_within_bounded_synchronous_rounds, when no correct node is locked.**  From a global
state with `GInv` at a round boundary at which no correct node is locked or holds a valid block
(`NilReady`), if every window of `k` rounds has an agreed correct proposer: there are `m < k` and
a correct validator `p`, the agreed proposer of round `r + m`, such that the rounds `r … r+m-1`
have no agreed correct proposer and the synchronous continuation — `m` failed rounds (Propose
timeouts, nil prevotes, nil precommits, PrecommitWait timeouts; the faulty validators silent),
then the synchronous round `r + m` with ARBITRARY adversarial inputs of the faulty validators
interleaved — is a legal execution after which every correct node has committed the block
`blk (r + m)` the proposer created.  The decision falls in round `r + m < r + k`. -/
theorem decides_within_bounded_synchronous_rounds_unlocked (N : Net) (wf : N.WF) (g : GState) (G : GInv N g)
    (h r k : Nat) (blk : Nat → Nat) (R : NilReady N g h r (blk r)) (hk : CorrectProposerWithin N h k) :
    ∃ m p, m < k ∧ p < N.powers.length ∧ N.F p = false ∧ (∀ i, (N.cfg i).proposer h (r + m) = p) ∧
      (∀ r'', r ≤ r'' → r'' < r + m →
        ¬ ∃ q, q < N.powers.length ∧ N.F q = false ∧ ∀ i, (N.cfg i).proposer h r'' = q) ∧
      ∀ (JA JB JC : ByzFamily), ByzOk N p h (r + m) (blk (r + m)) JA → ByzOk N p h (r + m) (blk (r + m)) JB →
        ByzOk N p h (r + m) (blk (r + m)) JC →
        GOkS N g (nilRounds N h blk r m ++ syncRoundByz N h (r + m) p 0 (blk (r + m)) JA JB JC) ∧
        allCommit N (grun N g (nilRounds N h blk r m ++ syncRoundByz N h (r + m) p 0 (blk (r + m)) JA JB JC)) h
          (blk (r + m)) := by
  obtain ⟨r', p, h1, h2, hp, hF, hall, hfirst⟩ := first_correct_round N h k hk r
  have e : r + (r' - r) = r' := by omega
  refine ⟨r' - r, p, by omega, hp, hF, by rw [e]; exact hall, by rw [e]; exact hfirst, ?_⟩
  rw [e]
  intro JA JB JC hA hB hC
  obtain ⟨ok1, G1, R1⟩ := nil_rounds_advance N wf h blk (r' - r) r g G R
  rw [e] at R1
  obtain ⟨ok2, hc⟩ := sync_round_decides_byz N wf _ G1 h r' p 0 (blk r') (R1.roundReady p hp hF hall) JA JB JC hA hB hC
  refine ⟨(goks_append N _ _ g).mpr ⟨ok1, ok2⟩, fun i hi hFi => ?_⟩
  rw [grun_append]
  exact hc i hi hFi

/-- every correct node's NewHeight timeout fires (`createProposalBlock` would return `b`) -/
def kickAll (N : Net) (h b : Nat) : List GStep :=
  phase (correct N) (fun _ => [(some b, .timeout h 1 .newHeight)])

theorem kick_nb (cfg : Config) (h : Nat) (nb : Option Nat) (hw : cfg.waitTxs = false) :
    NB cfg h 1 (step cfg (started cfg h) nb (.timeout h 1 .newHeight)) := by
  rw [step_kick cfg h nb hw]
  refine ⟨⟨rfl, rfl, rfl, rfl, rfl, rfl, rfl, rfl, rfl, rfl, ?_, ?_, ?_⟩, rfl, rfl, List.mem_cons_self ..⟩
  · intro rv hm
    simp only [round1, List.mem_cons, List.not_mem_nil, or_false] at hm
    rcases hm with e | e | e <;> rw [e] <;> simp [fresh]
  · simp [findRV, round1, fresh]
  · simp [findRV, round1, fresh]

/-- the fresh network after the NewHeight timeouts is at the `NilReady` boundary of round 1 -/
theorem kickAll_nilReady (N : Net) (wf : N.WF) (h b : Nat) (hq : CorrectQuorum N)
    (hh0 : ∀ i, i < N.powers.length → N.h0 i = h)
    (hw : ∀ i, i < N.powers.length → (N.cfg i).waitTxs = false) :
    GOkS N (gstart N) (kickAll N h b) ∧ NilReady N (grun N (gstart N) (kickAll N h b)) h 1 b := by
  have hst0 : ∀ i, i < N.powers.length → (gstart N).st i = started (N.cfg i) h := fun i hi => by
    show schedule (N.h0 i) 1 .newHeight (init (N.cfg i) (N.h0 i)) = _
    rw [hh0 i hi]; rfl
  refine ⟨?_, hq, fun i hi hF => ?_⟩
  · unfold kickAll
    apply goks_phase_local N _ _ _ (correct_nodup N)
    intro i hi
    refine ⟨(mem_correct.mp hi).2, ?_, trivial, trivial⟩
    rw [hst0 i (mem_correct.mp hi).1]
    exact List.mem_cons_self ..
  · have hic : i ∈ correct N := mem_correct.mpr ⟨hi, hF⟩
    unfold kickAll
    rw [st_phase N _ _ i hic, hst0 i hi]
    refine ⟨kick_nb (N.cfg i) h _ (hw i hi), fun hp => ?_⟩
    apply kick_node_proposal _ h b (hw i hi)
    · unfold isVal
      rw [wf.me_eq, wf.powers_eq]
      exact decide_eq_true hi
    · rw [wf.me_eq]; exact hp

/-- **fresh_network_decides_within_k_rounds.**  For every number of validators and every power
distribution with the correct validators holding +2/3: from `gstart`, if every window of `k`
rounds has an agreed correct proposer, the network decides in a round `1 + m ≤ k`: NewHeight
timeouts, `m` failed rounds (the rounds without an agreed correct proposer), one synchronous
round in which the faulty validators inject what they like.  With `roundRobin_correctProposerWithin`
(resp. `weighted_correctProposerWithin`) `k = n` (resp. the C12 bound). -/
theorem fresh_network_decides_within_k_rounds (N : Net) (wf : N.WF) (h k : Nat) (blk : Nat → Nat)
    (hq : CorrectQuorum N) (hh0 : ∀ i, i < N.powers.length → N.h0 i = h)
    (hw : ∀ i, i < N.powers.length → (N.cfg i).waitTxs = false) (hk : CorrectProposerWithin N h k) :
    ∃ m p, m < k ∧ p < N.powers.length ∧ N.F p = false ∧ (∀ i, (N.cfg i).proposer h (1 + m) = p) ∧
      ∀ (JA JB JC : ByzFamily), ByzOk N p h (1 + m) (blk (1 + m)) JA → ByzOk N p h (1 + m) (blk (1 + m)) JB →
        ByzOk N p h (1 + m) (blk (1 + m)) JC →
        GOkS N (gstart N) (kickAll N h (blk 1) ++
          (nilRounds N h blk 1 m ++ syncRoundByz N h (1 + m) p 0 (blk (1 + m)) JA JB JC)) ∧
        allCommit N (grun N (gstart N) (kickAll N h (blk 1) ++
          (nilRounds N h blk 1 m ++ syncRoundByz N h (1 + m) p 0 (blk (1 + m)) JA JB JC))) h (blk (1 + m)) := by
  obtain ⟨ok0, R0⟩ := kickAll_nilReady N wf h (blk 1) hq hh0 hw
  have G0 := grun_inv_s wf _ _ (gstart_inv N) ok0
  obtain ⟨m, p, h1, h2, h3, h4, _, h6⟩ :=
    decides_within_bounded_synchronous_rounds_unlocked N wf _ G0 h 1 k blk R0 hk
  refine ⟨m, p, h1, h2, h3, h4, fun JA JB JC hA hB hC => ?_⟩
  obtain ⟨ok1, hc⟩ := h6 JA JB JC hA hB hC
  refine ⟨(goks_append N _ _ _).mpr ⟨ok0, ok1⟩, ?_⟩
  rw [grun_append]
  exact hc

/-- **fresh_network_decides_within_n_rounds** (equal-power rotation): for every number `n` of
validators and every power distribution with a correct quorum, under the round-robin rotation the
fresh network decides in a round `≤ n`. -/
theorem fresh_network_decides_within_n_rounds (N : Net) (wf : N.WF) (h : Nat) (blk : Nat → Nat) (c : Nat → Nat)
    (rr : RoundRobin N c) (hq : CorrectQuorum N) (hh0 : ∀ i, i < N.powers.length → N.h0 i = h)
    (hw : ∀ i, i < N.powers.length → (N.cfg i).waitTxs = false) :
    ∃ m p, m < N.powers.length ∧ p < N.powers.length ∧ N.F p = false ∧
      (∀ i, (N.cfg i).proposer h (1 + m) = p) ∧
      ∀ (JA JB JC : ByzFamily), ByzOk N p h (1 + m) (blk (1 + m)) JA → ByzOk N p h (1 + m) (blk (1 + m)) JB →
        ByzOk N p h (1 + m) (blk (1 + m)) JC →
        GOkS N (gstart N) (kickAll N h (blk 1) ++
          (nilRounds N h blk 1 m ++ syncRoundByz N h (1 + m) p 0 (blk (1 + m)) JA JB JC)) ∧
        allCommit N (grun N (gstart N) (kickAll N h (blk 1) ++
          (nilRounds N h blk 1 m ++ syncRoundByz N h (1 + m) p 0 (blk (1 + m)) JA JB JC))) h (blk (1 + m)) :=
  fresh_network_decides_within_k_rounds N wf h N.powers.length blk hq hh0 hw
    (roundRobin_correctProposerWithin N c rr hq h)

/-! non-vacuity of the bounded-rounds theorem: `N4s` (rotation `r % 4`, validator 1 — the proposer
of round 1 — faulty): round 1 fails, round 2 (proposer 2) decides although validator 1 injects `J4` -/

theorem n4s_roundRobin : RoundRobin N4s (fun _ => 0) := fun _ _ _ => rfl

/-- through the theorem: some round `1 + m ≤ 4` decides -/
example : ∃ m p, m < 4 ∧ p < 4 ∧ N4s.F p = false ∧ (∀ i, (N4s.cfg i).proposer 1 (1 + m) = p) ∧
    ∀ (JA JB JC : ByzFamily), ByzOk N4s p 1 (1 + m) 8 JA → ByzOk N4s p 1 (1 + m) 8 JB → ByzOk N4s p 1 (1 + m) 8 JC →
      GOkS N4s (gstart N4s) (kickAll N4s 1 8 ++
        (nilRounds N4s 1 (fun _ => 8) 1 m ++ syncRoundByz N4s 1 (1 + m) p 0 8 JA JB JC)) ∧
      allCommit N4s (grun N4s (gstart N4s) (kickAll N4s 1 8 ++
        (nilRounds N4s 1 (fun _ => 8) 1 m ++ syncRoundByz N4s 1 (1 + m) p 0 8 JA JB JC))) 1 8 :=
  fresh_network_decides_within_k_rounds N4s ⟨fun _ => rfl, fun _ => rfl⟩ 1 4 (fun _ => 8) (by decide)
    (fun _ _ => rfl) (fun _ _ => rfl)
    (roundRobin_correctProposerWithin N4s _ n4s_roundRobin (by decide) 1)

/-- by evaluation (sanity): `m = 1`, proposer 2 -/
example : GOkS N4s (gstart N4s) (kickAll N4s 1 8 ++
      (nilRounds N4s 1 (fun _ => 8) 1 1 ++ syncRoundByz N4s 1 2 2 0 8 J4 J4 J4)) ∧
    allCommit N4s (grun N4s (gstart N4s) (kickAll N4s 1 8 ++
      (nilRounds N4s 1 (fun _ => 8) 1 1 ++ syncRoundByz N4s 1 2 2 0 8 J4 J4 J4))) 1 8 := by
  constructor <;> (set_option maxRecDepth 100000 in decide)

/-- non-vacuity: 4 and 7 equal validators, one resp. two faulty: every 4 resp. 7 rounds -/
example : CorrectProposerWithin (netOf [10, 10, 10, 10]) 1 4 :=
  roundRobin_correctProposerWithin _ _ (netOf_roundRobin _) (by decide) 1

end KV.Props.C04Net

/-! ### weighted powers: the rotation bound from C12 -/

namespace KV.Props.C04Net
open KV.Cs KV.Props.C01Cs KV.ValSet

theorem spec_steps_add (T : Int) : ∀ (a b : Nat) (l : List Validator) (p : Option Nat),
    Spec.steps T (a + b) l p = Spec.steps T b (Spec.steps T a l p).1 (Spec.steps T a l p).2
  | 0, b, l, p => by rw [Nat.zero_add]; rfl
  | a + 1, b, l, p => by
    have e : a + 1 + b = (a + b) + 1 := by omega
    rw [e]
    show Spec.steps T (a + b) (Spec.step T l).1 (Spec.step T l).2 = _
    rw [spec_steps_add T a b]
    rfl

theorem spec_mem_run (T : Int) : ∀ (k : Nat) (l : List Validator) (p : Option Nat) (a : Nat),
    a ∈ Spec.run T k l → ∃ j, j < k ∧ (Spec.steps T (j + 1) l p).2 = some a
  | 0, _, _, _, h => by cases h
  | k + 1, l, p, a, h => by
    have h' : a ∈ (match (Spec.step T l).2 with | some a => [a] | none => []) ++ Spec.run T k (Spec.step T l).1 := h
    rcases List.mem_append.mp h' with h1 | h1
    · refine ⟨0, by omega, ?_⟩
      show (Spec.step T l).2 = some a
      cases hs : (Spec.step T l).2 with
      | none => rw [hs] at h1; cases h1
      | some x =>
        rw [hs] at h1
        simp at h1
        rw [h1]
    · obtain ⟨j, hj, e⟩ := spec_mem_run T k (Spec.step T l).1 (Spec.step T l).2 a h1
      exact ⟨j + 1, by omega, e⟩


/-- **no_starvation for every window** (C12's `no_starvation` is the window starting at the centred
state): a validator that does not propose during the `k` rounds after the first `r` rounds
satisfies `k · power ≤ 2·n·T + n − 1`. -/
theorem no_starvation_window (l : List Validator) (v : Validator) (r k : Nat) (hn : (l.map (·.addr)).Nodup)
    (hv : v ∈ l) (hpos : ∀ w ∈ l, 0 < w.power) (hc : 0 ≤ sumPrio l ∧ sumPrio l < l.length)
    (hw : ∀ a ∈ l, ∀ b ∈ l, a.prio - b.prio ≤ 2 * Spec.total l)
    (h0 : (Spec.run (Spec.total l) k (Spec.steps (Spec.total l) r l none).1).count v.addr = 0) :
    (k : Int) * v.power ≤ 2 * (l.length : Int) * Spec.total l + l.length - 1 := by
  have hne : l ≠ [] := fun e => by rw [e] at hv; cases hv
  -- the validator after r rounds
  obtain ⟨vr, hm, ha, hp, _⟩ := accounting_identity (Spec.total l) r l none hne v hv
  have hlo := (priority_bounds l r none hn hpos hc hw vr hm).1
  have hne' : (Spec.steps (Spec.total l) r l none).1 ≠ [] := fun e => by rw [e] at hm; cases hm
  obtain ⟨v', hm', _, hp'⟩ := no_turn_gains_all (Spec.total l) k _ (Spec.steps (Spec.total l) r l none).2 hne' vr hm
    (by rw [ha]; exact h0)
  rw [← spec_steps_add] at hm'
  have hup := (priority_bounds l (r + k) none hn hpos hc hw v' hm').2
  rw [hp] at hp'
  omega


/-- the nodes' proposer function is C12's weighted rotation (specification rounds `Spec.step`:
everybody gains its power, the maximum pays the total) from the validator list `l0 h` of the
height, validator address = validator index: the proposer of round `r ≥ 1` is the validator that
takes the r-th turn -/
def WeightedRotation (N : Net) (l0 : Nat → List Validator) : Prop :=
  ∀ i h r, 1 ≤ r → (Spec.steps (Spec.total (l0 h)) r (l0 h) none).2 = some ((N.cfg i).proposer h r)

/-- **rotation bound, weighted powers** (via C12): under the weighted rotation from a centred list
inside the window `2T` (what an update leaves), a correct validator `v` of power `p` is the agreed
proposer of some round in every window of `(2·n·T + n − 1)/p + 2` consecutive rounds -/
theorem weighted_correctProposerWithin (N : Net) (l0 : Nat → List Validator) (wr : WeightedRotation N l0)
    (h : Nat) (v : Validator) (hn : ((l0 h).map (·.addr)).Nodup) (hv : v ∈ l0 h)
    (hpos : ∀ w ∈ l0 h, 0 < w.power) (hc : 0 ≤ sumPrio (l0 h) ∧ sumPrio (l0 h) < (l0 h).length)
    (hw : ∀ a ∈ l0 h, ∀ b ∈ l0 h, a.prio - b.prio ≤ 2 * Spec.total (l0 h))
    (hvi : v.addr < N.powers.length) (hF : N.F v.addr = false) :
    CorrectProposerWithin N h
      (((2 * ((l0 h).length : Int) * Spec.total (l0 h) + (l0 h).length - 1) / v.power).toNat + 2) := by
  intro r
  have hvp := hpos v hv
  have hne : l0 h ≠ [] := fun e => by rw [e] at hv; cases hv
  have hlen : 0 < ((l0 h).length : Int) := by
    have : 0 < (l0 h).length := List.length_pos_iff.mpr hne
    omega
  have hT : 0 < Spec.total (l0 h) := total_pos (l0 h) hne hpos
  have hnum : 0 ≤ 2 * ((l0 h).length : Int) * Spec.total (l0 h) + (l0 h).length - 1 := by
    have : 0 ≤ 2 * ((l0 h).length : Int) * Spec.total (l0 h) :=
      Int.mul_nonneg (Int.mul_nonneg (by omega) (by omega)) (by omega)
    omega
  have hq : 0 ≤ (2 * ((l0 h).length : Int) * Spec.total (l0 h) + (l0 h).length - 1) / v.power :=
    Int.ediv_nonneg hnum (by omega)
  -- the window: the K0 rounds after the first s rounds
  have hcount : (Spec.run (Spec.total (l0 h))
      (((2 * ((l0 h).length : Int) * Spec.total (l0 h) + (l0 h).length - 1) / v.power).toNat + 1)
      (Spec.steps (Spec.total (l0 h)) (r - 1) (l0 h) none).1).count v.addr ≠ 0 := by
    intro h0
    have hb := no_starvation_window (l0 h) v (r - 1) _ hn hv hpos hc hw h0
    have hlt := Int.lt_ediv_add_one_mul_self
      (2 * ((l0 h).length : Int) * Spec.total (l0 h) + (l0 h).length - 1) hvp
    rw [Int.natCast_add, Int.toNat_of_nonneg hq] at hb
    simp only [Int.natCast_one] at hb
    omega
  have hmem : v.addr ∈ Spec.run (Spec.total (l0 h))
      (((2 * ((l0 h).length : Int) * Spec.total (l0 h) + (l0 h).length - 1) / v.power).toNat + 1)
      (Spec.steps (Spec.total (l0 h)) (r - 1) (l0 h) none).1 := by
    apply Classical.byContradiction
    intro hnm
    exact hcount (List.count_eq_zero.mpr hnm)
  obtain ⟨j, hj, e⟩ := spec_mem_run _ _ _ (Spec.steps (Spec.total (l0 h)) (r - 1) (l0 h) none).2 _ hmem
  rw [← spec_steps_add] at e
  refine ⟨r - 1 + (j + 1), v.addr, by omega, by omega, hvi, hF, fun i => ?_⟩
  have := wr i h (r - 1 + (j + 1)) (by omega)
  rw [e] at this
  exact (Option.some.inj this).symm


theorem spec_step_some (T : Int) (l : List Validator) (hne : l ≠ []) :
    (∃ a, (Spec.step T l).2 = some a) ∧ (Spec.step T l).1 ≠ [] := by
  have hne' : (l.map fun v => ({ v with prio := v.prio + v.power } : Validator)) ≠ [] := by simpa using hne
  obtain ⟨m, hm, _, _⟩ := mostest_spec _ hne'
  unfold Spec.step
  simp only [hm]
  exact ⟨⟨m.addr, rfl⟩, by simpa using hne⟩

theorem spec_steps_some (T : Int) : ∀ (r : Nat) (l : List Validator) (p : Option Nat), l ≠ [] → 1 ≤ r →
    ∃ a, (Spec.steps T r l p).2 = some a
  | 0, _, _, _, h => by omega
  | 1, l, _, hne, _ => (spec_step_some T l hne).1
  | r + 2, l, _, hne, _ =>
    spec_steps_some T (r + 1) (Spec.step T l).1 (Spec.step T l).2 (spec_step_some T l hne).2 (by omega)

/-- non-vacuity: three validators of powers 1, 2, 3 (all priorities 0), the heaviest one faulty,
proposer function = the weighted rotation -/
def lW : List Validator := [⟨0, 1, 0⟩, ⟨1, 2, 0⟩, ⟨2, 3, 0⟩]
def netW : Net :=
  { powers := [1, 2, 3],
    cfg := fun i => { powers := [1, 2, 3], me := i,
                      proposer := fun _ r => ((Spec.steps 6 r lW none).2).getD 0,
                      waitTxs := false, emptyInterval := false },
    h0 := fun _ => 1, F := fun i => i == 2 }

theorem netW_weighted : WeightedRotation netW (fun _ => lW) := by
  intro i h r hr
  obtain ⟨a, e⟩ := spec_steps_some 6 r lW none (by decide) hr
  show (Spec.steps 6 r lW none).2 = some (((Spec.steps 6 r lW none).2).getD 0)
  rw [e]; rfl

/-- validator 0 (power 1 of 6) is the agreed proposer of some round in every window of 40 rounds -/
example : CorrectProposerWithin netW 1 40 :=
  weighted_correctProposerWithin netW (fun _ => lW) netW_weighted 1 ⟨0, 1, 0⟩ (by decide) (by decide)
    (by decide) (by decide) (by decide) (by decide) rfl

/-- rounds 1 … 6 of that rotation: 2, 1, 0, 2, 1, 2 (shares 3 : 2 : 1; index 0 is not a round) -/
example : (List.range 7).map (fun r => (netW.cfg 0).proposer 1 r) = [0, 2, 1, 0, 2, 1, 2] := by decide

end KV.Props.C04Net
