import KV.Props.C04Net
import KV.Proofs.CsSyncByzNet
/-!
# C04, network level: a synchronous round with a correct proposer decides although the faulty validators are NOT silent

`sync_round_decides` (`KV/Props/C04Net.lean`) assumes that nothing but the round's own messages
reaches the correct nodes during the round.  Here the adversary injects inputs anywhere.

**Schedule** (`syncRoundByz`): the three phases of `syncRoundP` (proposal + block, the correct
validators' prevotes, their precommits; each correct node receives all of a phase), and for every
correct node `i` and every position `k` of its phase list an arbitrary list of adversarial inputs
`JA i k` / `JB i k` / `JC i k` delivered before the k-th scheduled input of the phase (the last
index: after the last one).  `sync_round_decides_byz_any` drops the shape of the global schedule:
ANY global interleaving whose projection to a correct node is such a weave makes that node commit.

**Adversarial inputs** (`ByzInput N p h r b`, = `Cs.Sync.Junk (byz N) p h r b`):
* any `vote` whose validator index is NOT a correct validator (faulty, or out of range) for a round
  `≥ r` of height `h` — any type, any target (nil, `b`, other blocks), any claimed peer, signature
  bit either way, the same slot as often as the adversary likes (the vote set keeps the first:
  equivocation towards different nodes is free, towards one node the second vote is dropped as in
  `VoteSet.AddVote`; the model does not produce evidence); any such vote for ANOTHER height too
  (ignored by `addVote`; precommits of height h-1 are the LastCommit path the model does not have);
* any `proposal` that does not carry a verifying signature of the round's proposer (`src ≠ p ∨
  sigok = false`: rejected by `setProposal`'s signer check whatever height/round/POL/block it names);
* any `block` part set for an id `≠ b` (rejected by the part-set-header comparison, whatever the
  validity / decoding answers).
NOT allowed, and why: timeouts (the round is synchronous: no timer of the round fires before its
messages arrive); votes claiming a CORRECT validator that it did not sign (authenticity, `Auth`);
a second proposal signed by the correct proposer (it signs one); `block` inputs for `b` itself
with `ok = false` or `dec = false` — these bits are not adversarial data but the node's own
`ValidateBlock` / decoding answer for the block id (reading `valid_reading` of C03; the proposer
is correct, so its block validates); votes of faulty validators for rounds `< r` of this height:
old precommits can complete an old commit quorum, after which the node commits the OLD round's
block and stops voting in round r (agreement makes it the same block `b`, but the node needs the
commit-catch-up gossip, outside this schedule), old prevotes can only unlock or re-establish the
POL polka (not needed for the result, left out to keep the stages small).

**Boundary** (`RoundReadyByz`): as `RoundReady`, but the vote sets of round `r` need not be empty:
faulty validators' votes for round r and later rounds may have arrived already.  That no CORRECT
validator's vote for a round `≥ r` is anywhere is not a hypothesis: it follows from `GInv`
(every stored vote is in the trace, a correct sender's trace events are its node's signatures,
a node in step Propose of round r has signed nothing later: `corrEmpty_of_ginv`).
`RoundReady → RoundReadyByz` (`roundReady_byz`), so `sync_round_decides_byz` with empty junk
lists is `sync_round_decides`.

Proof: `KV/Proofs/CsSyncByz*.lean` — per-node stages that constrain only the slots of the correct
validators (`CorrEmpty` / `CorrOnly`), tallies under a faulty minority (`maj23_corrOnly`: the only
value that can reach +2/3 is `b`; `hasAny` may fire: PrevoteWait / PrecommitWait are scheduled but
no timeout input fires), closure of every stage under `Junk`, and an induction over weaves
(`run_weave`).
-/
namespace KV.Props.C04Net
open KV.Cs KV.Cs.Sync KV.Agree KV.Props.C03 KV.Props.C01Cs

/-- the adversarial inputs of round (h, r) with proposer `p` and proposed block `b`: see the module doc -/
abbrev ByzInput (N : Net) (p h r b : Nat) : Input → Prop := Junk (byz N) p h r b

/-- adversarial input lists: for node `i`, before position `k` -/
abbrev ByzFamily := Nat → Nat → List (Option Nat × Input)

/-- every input of the family is adversarial -/
def ByzOk (N : Net) (p h r b : Nat) (J : ByzFamily) : Prop := ∀ i k, ∀ x ∈ J i k, ByzInput N p h r b x.2

/-- what node `i` receives in the round -/
def byzInputs (N : Net) (h r p pol b : Nat) (JA JB JC : Nat → List (Option Nat × Input)) :
    List (Option Nat × Input) :=
  weave (propIn p h r pol b) JA 0 ++ weave ((correct N).map (pvIn h r b)) JB 0 ++
    weave ((correct N).map (pcIn h r b)) JC 0

/-- the synchronous round with adversarial inputs interleaved -/
def syncRoundByz (N : Net) (h r p pol b : Nat) (JA JB JC : ByzFamily) : List GStep :=
  phase (correct N) (fun i => weave (propIn p h r pol b) (JA i) 0) ++
  phase (correct N) (fun i => weave ((correct N).map (pvIn h r b)) (JB i) 0) ++
  phase (correct N) (fun i => weave ((correct N).map (pcIn h r b)) (JC i) 0)

/-- `NodeReady` without "no vote of round r received": the vote set of the round exists -/
def NodeReadyB (cfg : Config) (h r pol b : Nat) (σ : State) : Prop :=
  σ.halted = false ∧ σ.height = h ∧ σ.round = r ∧ σ.step = .propose ∧
  σ.proposal = none ∧ σ.pblock = none ∧ σ.parts = none ∧
  (σ.locked = none ∨ idIs σ.locked b = true) ∧
  (pol = 0 ∨ (pol < r ∧ maj23 cfg.powers (σ.slots .prevote h pol) = some (some b))) ∧
  (σ.slots .prevote h r).length = n cfg ∧ (σ.slots .precommit h r).length = n cfg

/-- the network at the boundary of round (h, r), faulty validators' votes possibly received already -/
def RoundReadyByz (N : Net) (g : GState) (h r p pol b : Nat) : Prop :=
  CorrectQuorum N ∧ p < N.powers.length ∧ N.F p = false ∧
  Action.signProposal h r pol b ∈ (g.st p).log ∧
  ∀ i, i < N.powers.length → N.F i = false →
    ((N.cfg i).proposer h r = p ∧ NodeReadyB (N.cfg i) h r pol b (g.st i))

instance (cfg : Config) (h r pol b : Nat) (σ : State) : Decidable (NodeReadyB cfg h r pol b σ) := by
  unfold NodeReadyB; exact inferInstance

instance (N : Net) (g : GState) (h r p pol b : Nat) : Decidable (RoundReadyByz N g h r p pol b) := by
  unfold RoundReadyByz CorrectQuorum; exact inferInstance

/-- the boundary of `sync_round_decides` is a special case -/
theorem roundReady_byz {N : Net} {g : GState} {h r p pol b : Nat} (R : RoundReady N g h r p pol b) :
    RoundReadyByz N g h r p pol b := by
  obtain ⟨hq, hp, hFp, hs, hnode⟩ := R
  refine ⟨hq, hp, hFp, hs, fun i hi hF => ?_⟩
  obtain ⟨h1, nh, hh, hr, st, prop, pb, parts, lk, pol', pv, pc⟩ := hnode i hi hF
  exact ⟨h1, nh, hh, hr, st, prop, pb, parts, lk, pol', by rw [pv]; simp, by rw [pc]; simp⟩

/-- the node-level stage `R0` of a correct node at the boundary -/
theorem RoundReadyByz.r0 {N : Net} (wf : N.WF) {g : GState} (G : GInv N g) {h r p pol b : Nat}
    (R : RoundReadyByz N g h r p pol b) (i : Nat) (hi : i < N.powers.length) (hF : N.F i = false) :
    R0 (N.cfg i) (byz N) h r pol b (g.st i) := by
  obtain ⟨_, hp, _, _, hnode⟩ := R
  have hall : ∀ j, j < N.powers.length → N.F j = false →
      (g.st j).height = h ∧ (g.st j).round = r ∧ (g.st j).step = .propose := fun j hj hFj => by
    obtain ⟨_, _, hh, hr, st, _⟩ := hnode j hj hFj
    exact ⟨hh, hr, st⟩
  obtain ⟨_, nh, hh, hr, st, prop, pb, parts, lk, pol', pvLen, pcLen⟩ := hnode i hi hF
  have hn : n (N.cfg i) = N.powers.length := by unfold n; rw [wf.powers_eq]
  have I := G.inv i
  refine ⟨⟨nh, hh, hr, ?_, ?_, pvLen, pcLen, fun r' t hr' => corrEmpty_of_ginv G h r hall i t r' (by omega)⟩,
    st, prop, pb, parts, ?_, corrEmpty_of_ginv G h r hall i _ r (Nat.le_refl _),
    corrEmpty_of_ginv G h r hall i _ r (Nat.le_refl _)⟩
  · rcases pol' with h0 | ⟨h1, h2⟩
    · exact Or.inl h0
    · exact Or.inr ⟨h1, by rw [← State.slots_eq, h2]; rfl⟩
  · have h0 : 0 < (slotsV (g.st i).votes .prevote h r).length := by
      rw [← State.slots_eq, pvLen, hn]; omega
    exact findRV_isSome_of_slot (List.getElem?_eq_getElem h0)
  · rcases lk with lk | lk
    · exact Or.inl lk
    · right
      unfold idIs at lk
      split at lk
      · rename_i blk hl
        have hid : blk.id = b := by simpa using lk
        have hok := (I.lk blk hl).1
        rw [hl]
        obtain ⟨id, ok⟩ := blk
        simp only at hid hok
        rw [hid, hok]
      · cases lk

/-- **sync_round_decides_byz, per node and for ANY global interleaving.**  From a global state
that satisfies `GInv` and is at the boundary `RoundReadyByz` of round (h, r): after any execution
`steps` in which the correct node `i` receives the round's messages with adversarial inputs
(`ByzInput`) interleaved anywhere — whatever the other nodes receive, in whatever global order —
node `i` has `commit h b` in its log. -/
theorem sync_round_decides_byz_any (N : Net) (wf : N.WF) (g : GState) (G : GInv N g) (h r p pol b : Nat)
    (R : RoundReadyByz N g h r p pol b) (steps : List GStep) (i : Nat) (hi : i < N.powers.length)
    (hF : N.F i = false) (JA JB JC : Nat → List (Option Nat × Input))
    (hA : ∀ k, ∀ x ∈ JA k, ByzInput N p h r b x.2) (hB : ∀ k, ∀ x ∈ JB k, ByzInput N p h r b x.2)
    (hC : ∀ k, ∀ x ∈ JC k, ByzInput N p h r b x.2)
    (hproj : proj i steps = byzInputs N h r p pol b JA JB JC) :
    Action.commit h b ∈ ((grun N g steps).st i).log := by
  have R0i := R.r0 wf G i hi hF
  obtain ⟨hq, _, _, _, hnode⟩ := R
  have hpw := wf.powers_eq i
  have fm : FaultyMinority (N.cfg i).powers (byz N) := by rw [hpw]; exact faultyMinority_of_quorum N hq
  have hval : isVal (N.cfg i) = true := by
    unfold isVal; rw [wf.me_eq, wf.powers_eq]; exact decide_eq_true hi
  have hr0 : 0 < r := by
    have := (G.inv i).r1
    rw [R0i.base.hr] at this; omega
  have hpr := (hnode i hi hF).1
  have hlt : ∀ j ∈ correct N, j < n (N.cfg i) := fun j hj => by
    unfold n; rw [wf.powers_eq]; exact (mem_correct.mp hj).1
  have hFc : ∀ j ∈ correct N, byz N j = false := fun j hj => byz_correct hj
  have hqr := quorate_correct N _ hpw hq b
  rw [grun_st, hproj]
  unfold byzInputs
  rw [run_append, run_append]
  have P1 := node_byz_phase1 (N.cfg i) (byz N) h r pol b R0i fm hval hr0 p hpr JA hA
  have P2 := node_byz_phase2 (N.cfg i) (byz N) h r pol b P1.1 fm hval p hpr (correct N) hlt hFc hqr JB hB
  exact node_byz_phase3 (N.cfg i) (byz N) h r pol b P2 fm p hpr (correct N) hlt hFc hqr JC hC

/-- **sync_round_decides_byz.**  The hypothesis "the faulty validators are silent during the
round" of `sync_round_decides` dropped: from any global state that satisfies `GInv` and is at the
boundary `RoundReadyByz` of round (h, r) (correct validators hold +2/3, i.e. the faulty ones less
than 1/3; all correct nodes in step Propose of (h, r); correct proposer `p` proposing `b`; no
correct node locked on another block; POL polka held), for ALL families of adversarial inputs
(`ByzOk`: votes of non-correct indices for rounds `≥ r`, with equivocation; proposals without the
proposer's signature; foreign block part sets) the schedule `syncRoundByz` is a legal execution
and afterwards every correct validator's node has `commit h b` in its log. -/
theorem sync_round_decides_byz (N : Net) (wf : N.WF) (g : GState) (G : GInv N g) (h r p pol b : Nat)
    (R : RoundReadyByz N g h r p pol b) (JA JB JC : ByzFamily)
    (hA : ByzOk N p h r b JA) (hB : ByzOk N p h r b JB) (hC : ByzOk N p h r b JC) :
    GOkS N g (syncRoundByz N h r p pol b JA JB JC) ∧
    ∀ i, i < N.powers.length → N.F i = false →
      Action.commit h b ∈ ((grun N g (syncRoundByz N h r p pol b JA JB JC)).st i).log := by
  have hnd := correct_nodup N
  have hproj : ∀ i ∈ correct N, proj i (syncRoundByz N h r p pol b JA JB JC) =
      byzInputs N h r p pol b (JA i) (JB i) (JC i) := fun i hic => by
    unfold syncRoundByz byzInputs
    rw [proj_append, proj_append, proj_phase i _ _ hnd, proj_phase i _ _ hnd, proj_phase i _ _ hnd, if_pos hic,
      if_pos hic, if_pos hic]
  refine ⟨?_, fun i hi hF => sync_round_decides_byz_any N wf g G h r p pol b R _ i hi hF (JA i) (JB i) (JC i)
    (hA i) (hB i) (hC i) (hproj i (mem_correct.mpr ⟨hi, hF⟩))⟩
  -- legality
  have R' := R
  obtain ⟨hq, _, _, _, hnode⟩ := R
  have fm : ∀ i, FaultyMinority (N.cfg i).powers (byz N) := fun i => by
    rw [wf.powers_eq]; exact faultyMinority_of_quorum N hq
  have hval : ∀ i ∈ correct N, isVal (N.cfg i) = true := fun i hi => by
    unfold isVal; rw [wf.me_eq, wf.powers_eq]; exact decide_eq_true (mem_correct.mp hi).1
  have hr0i : ∀ i ∈ correct N, R0 (N.cfg i) (byz N) h r pol b (g.st i) := fun i hi =>
    R'.r0 wf G i (mem_correct.mp hi).1 (mem_correct.mp hi).2
  have hpr : ∀ i ∈ correct N, (N.cfg i).proposer h r = p := fun i hi =>
    (hnode i (mem_correct.mp hi).1 (mem_correct.mp hi).2).1
  have hr0 : ∀ i ∈ correct N, 0 < r := fun i hi => by
    have := (G.inv i).r1
    rw [(hr0i i hi).base.hr] at this; omega
  have hlt : ∀ i, ∀ j ∈ correct N, j < n (N.cfg i) := fun i j hj => by
    unfold n; rw [wf.powers_eq]; exact (mem_correct.mp hj).1
  have hFc : ∀ j ∈ correct N, byz N j = false := fun j hj => byz_correct hj
  have hqr : ∀ i, Quorate (N.cfg i) b (correct N) := fun i => quorate_correct N _ (wf.powers_eq i) hq b
  -- phase 1
  have ok1 : GOkS N g (phase (correct N) (fun i => weave (propIn p h r pol b) (JA i) 0)) := by
    apply goks_easy2
    intro s hs
    obtain ⟨h1, h2⟩ := mem_phase hs
    refine ⟨(mem_correct.mp h1).2, ?_⟩
    rcases mem_weave _ _ _ h2 with h3 | ⟨k, h3⟩
    · simp only [propIn, List.mem_cons, List.not_mem_nil, or_false] at h3
      rcases h3 with h3 | h3 <;> rw [h3] <;> trivial
    · exact junk_easy2 N _ p h r b _ (hA s.1 k _ h3)
  have G1 := grun_inv_s wf _ g G ok1
  have st1 : ∀ i ∈ correct N, (grun N g (phase (correct N) (fun i => weave (propIn p h r pol b) (JA i) 0))).st i =
      run (N.cfg i) (g.st i) (weave (propIn p h r pol b) (JA i) 0) := fun i hi => by
    rw [grun_st, proj_phase i _ _ hnd, if_pos hi]
  have P1 : ∀ i (hi : i ∈ correct N), _ := fun i hi =>
    node_byz_phase1 (N.cfg i) (byz N) h r pol b (hr0i i hi) (fm i) (hval i hi) (hr0 i hi) p (hpr i hi) (JA i) (hA i)
  have tr1 : ∀ j ∈ correct N, (h, mkEv j .prevote r (some b)) ∈
      (grun N g (phase (correct N) (fun i => weave (propIn p h r pol b) (JA i) 0))).tr := fun j hj => by
    apply G1.compl j h .prevote r (some b) (mem_correct.mp hj).2
    rw [st1 j hj]
    exact (P1 j hj).2
  -- phase 2
  have ok2 : GOkS N (grun N g (phase (correct N) (fun i => weave (propIn p h r pol b) (JA i) 0)))
      (phase (correct N) (fun i => weave ((correct N).map (pvIn h r b)) (JB i) 0)) := by
    apply goks_easy2
    intro s hs
    obtain ⟨h1, h2⟩ := mem_phase hs
    refine ⟨(mem_correct.mp h1).2, ?_⟩
    rcases mem_weave _ _ _ h2 with h3 | ⟨k, h3⟩
    · obtain ⟨j, hj, he⟩ := List.mem_map.mp h3
      rw [← he]
      exact Or.inr (tr1 j hj)
    · exact junk_easy2 N _ p h r b _ (hB s.1 k _ h3)
  have ok12 := (goks_append N _ _ g).mpr ⟨ok1, ok2⟩
  have G2 := grun_inv_s wf _ g G ok12
  have st2 : ∀ i ∈ correct N, (grun N g (phase (correct N) (fun i => weave (propIn p h r pol b) (JA i) 0) ++
      phase (correct N) (fun i => weave ((correct N).map (pvIn h r b)) (JB i) 0))).st i =
      run (N.cfg i) (run (N.cfg i) (g.st i) (weave (propIn p h r pol b) (JA i) 0))
        (weave ((correct N).map (pvIn h r b)) (JB i) 0) := fun i hi => by
    rw [grun_st, proj_append, proj_phase i _ _ hnd, proj_phase i _ _ hnd, if_pos hi, if_pos hi, run_append]
  have tr2 : ∀ j ∈ correct N, (h, mkEv j .precommit r (some b)) ∈
      (grun N g (phase (correct N) (fun i => weave (propIn p h r pol b) (JA i) 0) ++
        phase (correct N) (fun i => weave ((correct N).map (pvIn h r b)) (JB i) 0))).tr := fun j hj => by
    apply G2.compl j h .precommit r (some b) (mem_correct.mp hj).2
    rw [st2 j hj]
    exact (node_byz_phase2 (N.cfg j) (byz N) h r pol b (P1 j hj).1 (fm j) (hval j hj) p (hpr j hj) (correct N)
      (hlt j) hFc (hqr j) (JB j) (hB j)).sg
  -- phase 3
  have ok3 : GOkS N (grun N g (phase (correct N) (fun i => weave (propIn p h r pol b) (JA i) 0) ++
        phase (correct N) (fun i => weave ((correct N).map (pvIn h r b)) (JB i) 0)))
      (phase (correct N) (fun i => weave ((correct N).map (pcIn h r b)) (JC i) 0)) := by
    apply goks_easy2
    intro s hs
    obtain ⟨h1, h2⟩ := mem_phase hs
    refine ⟨(mem_correct.mp h1).2, ?_⟩
    rcases mem_weave _ _ _ h2 with h3 | ⟨k, h3⟩
    · obtain ⟨j, hj, he⟩ := List.mem_map.mp h3
      rw [← he]
      exact Or.inr (tr2 j hj)
    · exact junk_easy2 N _ p h r b _ (hC s.1 k _ h3)
  exact (goks_append N _ _ g).mpr ⟨ok12, ok3⟩

/-- **pol_round_decides_byz.**  `pol_round_decides` with a non-silent adversary during the round:
POL gossip, then the synchronous round with adversarial inputs interleaved. -/
theorem pol_round_decides_byz (N : Net) (wf : N.WF) (g : GState) (G : GInv N g)
    (hNS : ∀ i, NoStale (N.cfg i) (g.st i)) (h r p pol b : Nat) (qs : List Nat)
    (R : PolReady N g h r p pol b qs) (JA JB JC : ByzFamily)
    (hA : ByzOk N p h r b JA) (hB : ByzOk N p h r b JB) (hC : ByzOk N p h r b JC) :
    GOkS N g (polGossip N h pol b qs ++ syncRoundByz N h r p pol b JA JB JC) ∧
    ∀ i, i < N.powers.length → N.F i = false →
      Action.commit h b ∈
        ((grun N g (polGossip N h pol b qs ++ syncRoundByz N h r p pol b JA JB JC)).st i).log := by
  obtain ⟨ok0, R'⟩ := pol_gossip_ready N wf g G hNS h r p pol b qs R
  have G0 := grun_inv_s wf _ _ G ok0
  obtain ⟨ok1, hc⟩ := sync_round_decides_byz N wf _ G0 h r p pol b (roundReady_byz R') JA JB JC hA hB hC
  refine ⟨(goks_append N _ _ _).mpr ⟨ok0, ok1⟩, fun i hi hF => ?_⟩
  rw [grun_append]
  exact hc i hi hF

/-- **unlucky_rounds_bounded_decides_byz.**  From every REACHABLE state at a round boundary whose
correct proposer's valid round dominates every conflicting lock (`Dominated`): POL gossip of the
proposer's polka set and one synchronous round decide, whatever the faulty validators inject
during the round. -/
theorem unlucky_rounds_bounded_decides_byz (N : Net) (wf : N.WF) (hq : CorrectQuorum N) (steps : List GStep)
    (hok : GOkS N (gstart N) steps) (h r p pol b : Nat) (D : Dominated N (grun N (gstart N) steps) h r p pol b)
    (JA JB JC : ByzFamily) (hA : ByzOk N p h r b JA) (hB : ByzOk N p h r b JB) (hC : ByzOk N p h r b JC) :
    GOkS N (gstart N) (steps ++ (polGossip N h pol b
        (polkaSet ((grun N (gstart N) steps).st p) h pol b N.powers.length) ++
      syncRoundByz N h r p pol b JA JB JC)) ∧
    ∀ i, i < N.powers.length → N.F i = false →
      Action.commit h b ∈ ((grun N (gstart N) (steps ++ (polGossip N h pol b
          (polkaSet ((grun N (gstart N) steps).st p) h pol b N.powers.length) ++
        syncRoundByz N h r p pol b JA JB JC))).st i).log := by
  have G := grun_inv_s wf steps _ (gstart_inv N) hok
  have hNS := grun_noStale_s wf steps _ (gstart_inv N) (gstart_noStale N) hok
  have R := unlucky_rounds_bounded N wf hq steps hok h r p pol b D
  obtain ⟨ok1, hc⟩ := pol_round_decides_byz N wf _ G hNS h r p pol b _ R JA JB JC hA hB hC
  refine ⟨(goks_append N _ _ _).mpr ⟨hok, ok1⟩, fun i hi hF => ?_⟩
  rw [grun_append]
  exact hc i hi hF

/-! ### non-vacuity: `N4s` (validator 1 faulty), round 2 after the failed round 1, validator 1 NOT silent -/

instance (F : Nat → Bool) (p h r b : Nat) : DecidablePred (Junk F p h r b) := fun inp => by
  cases inp <;> unfold Junk <;> exact inferInstance

/-- what the faulty validator 1 sends: to node 0 a nil prevote, then (equivocation, dropped: the
slot is taken) a prevote for block 99, a precommit for 99, a prevote for a later round, a vote with
an index out of range, a proposal it signed itself (it is not the proposer), a proposal with a
forged signature of the proposer 2, a foreign block, a vote of another height; to the other nodes
prevote and precommit for the proposed block 8 first, then for 99 -/
def noise4 (i : Nat) : List (Option Nat × Input) :=
  if i = 0 then
    [(none, .vote 1 1 .prevote 1 2 none true), (none, .vote 1 1 .prevote 1 2 (some 99) true),
     (none, .vote 1 1 .precommit 1 2 (some 99) true), (none, .vote 1 1 .prevote 1 3 (some 5) true),
     (none, .vote 1 7 .prevote 1 2 (some 5) true), (none, .proposal 1 true 1 2 0 99),
     (none, .proposal 2 false 1 2 0 99), (none, .block 1 99 true true),
     (none, .vote 1 1 .precommit 0 1 none true)]
  else
    [(none, .vote 1 1 .prevote 1 2 (some 8) true), (none, .vote 1 1 .precommit 1 2 (some 8) true),
     (none, .vote 1 1 .prevote 1 2 (some 99) true), (none, .vote 1 1 .precommit 1 4 (some 99) false)]

/-- the same noise before every scheduled input and after the last one -/
def J4 : ByzFamily := fun i _ => noise4 i

theorem j4_ok : ByzOk N4s 2 1 2 8 J4 := by
  intro i k
  show ∀ x ∈ noise4 i, ByzInput N4s 2 1 2 8 x.2
  unfold noise4
  split <;> decide

/-- through the theorem: every correct node commits block 8 in round 2 -/
example : allCommit N4s (grun N4s (grun N4s (gstart N4s) failedRound1) (syncRoundByz N4s 1 2 2 0 8 J4 J4 J4)) 1 8 :=
  (sync_round_decides_byz N4s ⟨fun _ => rfl, fun _ => rfl⟩ _
    (grun_inv_s ⟨fun _ => rfl, fun _ => rfl⟩ _ _ (gstart_inv N4s) (by decide)) 1 2 2 0 8
    (roundReady_byz (by decide)) J4 J4 J4 j4_ok j4_ok j4_ok).2

/-- … and by evaluation (sanity; 211 global steps), legality included -/
example : allCommit N4s (grun N4s (grun N4s (gstart N4s) failedRound1) (syncRoundByz N4s 1 2 2 0 8 J4 J4 J4)) 1 8 := by
  set_option maxRecDepth 100000 in decide
example : GOkS N4s (grun N4s (gstart N4s) failedRound1) (syncRoundByz N4s 1 2 2 0 8 J4 J4 J4) := by
  set_option maxRecDepth 100000 in decide

/-- `RoundReadyByz` is strictly weaker than `RoundReady`: after node 0 received the faulty
validator's prevote for round 2, `RoundReady` fails and `RoundReadyByz` holds -/
example : ¬ RoundReady N4s (grun N4s (grun N4s (gstart N4s) failedRound1)
      [(0, none, .vote 1 1 .prevote 1 2 (some 99) true)]) 1 2 2 0 8 ∧
    RoundReadyByz N4s (grun N4s (grun N4s (gstart N4s) failedRound1)
      [(0, none, .vote 1 1 .prevote 1 2 (some 99) true)]) 1 2 2 0 8 := by
  constructor <;> decide

/-- why `block` inputs for `b` with `ok = false` are not adversarial inputs: `ok` is the node's own
`ValidateBlock` answer; a node whose validation of the proposed block fails prevotes nil (here:
node 0 in round 2 of `N4s`) -/
example : Action.signVote .prevote 1 2 none ∈
    ((grun N4s (grun N4s (gstart N4s) failedRound1)
      [(0, none, .proposal 2 true 1 2 0 8), (0, none, .block 1 8 false true)]).st 0).log := by decide

end KV.Props.C04Net
