import KV.Gen.C18
import KV.Model.MsgValid
/-!
# C18 — bridge between the regenerated size caps (tie T1) and the message-validity model
`KV/Gen/C18.lean` is re-extracted from `types/vote_set.go`, `types/params.go`,
`consensus/manager.go` and the reactors on every run.
-/
namespace KV.MsgValid.GenBridge
open KV

theorem gen_caps :
    Gen.C18.MaxVotesCount = (MsgValid.MaxVotesCount : Int) ∧
    Gen.C18.MaxBlockSizeBytes = (MsgValid.MaxBlockSizeBytes : Int) ∧
    Gen.C18.BlockPartSizeBytes = (MsgValid.BlockPartSizeBytes : Int) ∧
    Gen.C18.MaxBlockPartsCount = (MsgValid.MaxBlockPartsCount : Int) ∧
    Gen.C18.consensusMaxMsgSize = (MsgValid.maxMsgSize : Int) := by decide

/-- the two `NewValidBlockMessage.ValidateBasic` size guards -/
theorem gen_newValidBlock_guards (bits total : Nat) :
    Gen.C18.newValidBlockTooManyParts (bits : Int) = decide (bits > MsgValid.MaxBlockPartsCount) ∧
    Gen.C18.newValidBlockSizeMismatch (bits : Int) total = decide (bits ≠ total) := by
  unfold Gen.C18.newValidBlockTooManyParts Gen.C18.newValidBlockSizeMismatch
  constructor
  · have : MsgValid.MaxBlockPartsCount = 1601 := by decide
    rw [this]; simp; omega
  · simp; omega

end KV.MsgValid.GenBridge
