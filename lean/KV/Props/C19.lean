import KV.Proofs.Evidence
/-!
# C19 — Accountability: evidence is accepted exactly for real double-signing, once (PARTIAL)

Model: `KV/Model/Evidence.lean` (`types/evidence.go`, `types/evidence/{verify,pool}.go` as found).

Proved, for all inputs and all sequences of pool operations:

* `verifyDup_exact`, `accepted_is_real` (+ `check_accepted_is_real`): what `AddEvidence` /
  `CheckEvidence` accept after verification is a real double-sign (`RealDup`: two differently
  targeted votes, same height/round/type, both signed - type included - by ONE member of the set
  of that height, stated power and total right), carries the time of the block of its height, is
  not expired by the rule of `verify` and is not committed; and conversely every such evidence
  passes `VerifyDuplicateVote`;
* `never_twice`, `never_twice_in_block`: along every sequence of operations in which consensus
  hands over only evidence that is not committed (`Fresh`), a key committed by an `Update` is never
  again in a list `CheckEvidence` accepts, and an accepted list repeats no hash;
* `pending_until_committed`, `pending_all_offered`, `pending_offered_size_permitting`: an entry
  of the pending table stays there under every operation unless an `Update` lists its key or it is
  expired (by `isExpired`) at the new state; `PendingEvidence` offers the whole table when the cap
  allows;
* `from_consensus_is_real`: evidence built by `NewDuplicateVoteEvidence` from two verified
  conflicting votes of a member of the set of THEIR height passes `VerifyDuplicateVote` and is in
  canonical order - everything `verify` asks EXCEPT the time equation.

NOT true of the code as found (kept as definitions, refuted by model instances that are reproduced
on the real code by the harness, see notes/C19.md):
`CorrectNodeEvidenceAcceptedStatement` (F9: `from_consensus_time_counterexample`),
`AcceptedNotExpiredStatement` (C19-R1: `fastpath_expired_counterexample`),
`NeverTwiceUnconditionalStatement` (C19-R2: `never_twice_needs_fresh`).
`relabel_counterexample` shows what the unsigned vote type (F2, fixed) allowed.
-/
namespace KV.Props.C19
open KV.Evidence

/-- `VerifyDuplicateVote` accepts exactly real double-signing -/
theorem verifyDup_exact (e : Evidence) (vs : ValSet) (chain : Nat) :
    verifyDup e vs chain = .ok ↔ RealDup chain vs e := verifyDup_ok_iff e vs chain

/-- the member found for the accused address really is in the set and has that address -/
theorem realDup_member {chain : Nat} {vs : ValSet} {e : Evidence} (h : RealDup chain vs e) :
    ∃ val ∈ vs, val.addr = e.a.addr ∧ val.addr = e.b.addr ∧ val.power = e.power ∧
      e.a.sig = .signed ⟨val.addr, chain, e.a.c⟩ ∧ e.b.sig = .signed ⟨val.addr, chain, e.b.c⟩ ∧
      e.a.c.t = e.b.c.t ∧ e.a.c.b ≠ e.b.c.b := by
  obtain ⟨val, hf, _, _, ht, ha, hb, hp, _, s1, s2⟩ := h
  obtain ⟨hm, hadr⟩ := find_some hf
  exact ⟨val, hm, hadr, by rw [hadr, ha], hp, (sigOK_iff _ _ _).1 s1, (sigOK_iff _ _ _).1 s2, ht, hb⟩

/-- evidence that `AddEvidence` newly accepts: real double-sign by a member of the set of its
height with the stated power, time of its block, not expired, not committed -/
theorem accepted_is_real {env : Env} {p p' : Pool} {e : Evidence}
    (h : addEvidence env p e = (p', .added)) :
    ∃ bt vs, env.times.lookup e.height = some bt ∧ e.time = bt ∧ env.vals.lookup e.height = some vs ∧
      RealDup env.chain vs e ∧ verifyExpired p e.height bt = false ∧ isCommitted p e = false ∧
      e ∈ p'.pending := by
  obtain ⟨_, hc, hv, rfl⟩ := addEvidence_added h
  obtain ⟨bt, vs, h1, h2, h3, h4, h5⟩ := verify_ok hv
  exact ⟨bt, vs, h1, h2, h4, h5, h3, hc, mem_insertEv.2 (Or.inl rfl)⟩

/-- a list accepted by `CheckEvidence`: no entry is committed (given the invariant, which every
reachable pool has: `inv_reachable`), no hash twice -/
theorem check_accepted_is_real {env : Env} {p p' : Pool} {l : List Evidence} (hi : Inv p)
    (h : checkEvidence env p l = (p', .ok)) :
    (∀ e ∈ l, isCommitted p e = false) ∧ (l.map (·.hash)).Nodup := by
  obtain ⟨_, _, h3⟩ := checkLoop_spec env l p [] p' .ok hi h
  exact ⟨fun e he => ((h3 rfl).1 e he).1, (h3 rfl).2⟩

/-- the head of a list `CheckEvidence` accepts was either pending already or has just passed
`verify` (and then has every property of `accepted_is_real`) -/
theorem check_head_verified {env : Env} {p p' : Pool} {e : Evidence} {rest : List Evidence}
    (h : checkEvidence env p (e :: rest) = (p', .ok)) :
    isPending p e = true ∨ (isCommitted p e = false ∧ verify env p e = .ok) := by
  unfold checkEvidence checkLoop at h
  by_cases hp : isPending p e = true
  · exact Or.inl hp
  · right
    simp only [hp, if_false, Bool.false_eq_true] at h
    by_cases hc : isCommitted p e = true
    · simp [hc] at h
    · simp only [hc, if_false, Bool.false_eq_true] at h
      cases hv : verify env p e <;> simp [hv] at h
      exact ⟨by simpa using hc, rfl⟩

/-- every pool reached from a fresh one has the invariant "nothing pending is committed" -/
theorem inv_reachable (params : Params) (h : Nat) (t : Int) (ops : List (Env × Op))
    (hf : Fresh (newPool params h t) ops) : Inv (run (newPool params h t) ops) :=
  (run_spec ops _ (by intro x hx; cases hx) hf).1

/-- NEVER TWICE: whatever happens between (any operations `ops2`, consensus handing over only
uncommitted evidence), evidence committed by an `Update` is not accepted again by `CheckEvidence` -/
theorem never_twice {p0 p1 p' : Pool} {ops1 ops2 : List (Env × Op)} {h : Nat} {t : Int}
    {l1 l2 : List Evidence} {env : Env}
    (hi : Inv p0) (hf1 : Fresh p0 ops1)
    (hu : update (run p0 ops1) h t l1 = some p1) (hf2 : Fresh p1 ops2)
    (hc : checkEvidence env (run p1 ops2) l2 = (p', .ok)) :
    ∀ e1 ∈ l1, ∀ e2 ∈ l2, e1.key ≠ e2.key := by
  intro e1 h1 e2 h2 hk
  obtain ⟨i1, _⟩ := run_spec ops1 p0 hi hf1
  obtain ⟨j1, j2⟩ := update_spec hu i1
  obtain ⟨k1, k2⟩ := run_spec ops2 p1 j1 hf2
  have hm : e1.key ∈ (run p1 ops2).committed := k2 _ ((j2 _).2 (Or.inr ⟨e1, h1, rfl⟩))
  have hn := (check_accepted_is_real k1 hc).1 e2 h2
  have hcm : isCommitted (run p1 ops2) e2 = true := isCommitted_iff.2 (by rw [← hk]; exact hm)
  rw [hn] at hcm; cases hcm

/-- ... and no accepted list contains the same evidence twice -/
theorem never_twice_in_block {env : Env} {p p' : Pool} {l : List Evidence} (hi : Inv p)
    (hc : checkEvidence env p l = (p', .ok)) : (l.map (·.hash)).Nodup :=
  (check_accepted_is_real hi hc).2

/-- PENDING UNTIL COMMITTED (or expired), one operation -/
theorem pending_until_committed (env : Env) (p : Pool) (op : Op) (x : Evidence) (hx : x ∈ p.pending) :
    x ∈ (apply env p op).pending ∨
    (∃ h t l, op = .update h t l ∧ ∃ e ∈ l, e.key = x.key) ∨
    isExpired (apply env p op) x.height x.time = true := pending_step env p op x hx

theorem pending_all_offered (p : Pool) : (pendingEvidence p (-1)).1 = p.pending := pendingEvidence_all p

theorem pending_offered_size_permitting (p : Pool) (max : Int)
    (h : ((p.pending.map (fun e => (e.size : Int))).sum) ≤ max) : (pendingEvidence p max).1 = p.pending := by
  unfold pendingEvidence
  cases hp : p.pending with
  | nil => simp
  | cons e r =>
    simp only [List.isEmpty_cons, Bool.false_eq_true, if_false]
    rw [hp] at h
    exact takeBytes_fits (e :: r) 0 max (by omega)

/-- FROM CONSENSUS: evidence built from two verified conflicting votes (what a `ConflictingVotes`
error of the vote set carries: same validator, height, round, type, different blocks, both
signatures valid) with the validator set of the votes' height passes `VerifyDuplicateVote` and is
in canonical order; the time stamp is whatever consensus chose -/
theorem from_consensus_is_real {v1 v2 : Vote} {vs : ValSet} {val : Val} {chain : Nat} {bt : Int} {hash size : Nat}
    (hf : vs.find v1.addr = some val) (ha : v1.addr = v2.addr)
    (hh : v1.c.h = v2.c.h) (hr : v1.c.r = v2.c.r) (ht : v1.c.t = v2.c.t) (hb : v1.c.b ≠ v2.c.b)
    (s1 : sigOK chain v1 val.addr = true) (s2 : sigOK chain v2 val.addr = true) :
    ∃ e, newDuplicateVoteEvidence v1 v2 bt vs hash size = some e ∧ verifyDup e vs chain = .ok ∧
      e.a.c.b < e.b.c.b ∧ e.time = bt := by
  unfold newDuplicateVoteEvidence
  simp only [hf]
  by_cases hlt : v1.c.b < v2.c.b
  · simp only [hlt, if_true]
    refine ⟨_, rfl, ?_, hlt, rfl⟩
    exact (verifyDup_ok_iff _ _ _).2 ⟨val, hf, hh, hr, ht, ha, hb, rfl, rfl, s1, s2⟩
  · simp only [hlt, if_false]
    have hgt : v2.c.b < v1.c.b := by omega
    refine ⟨_, rfl, ?_, hgt, rfl⟩
    exact (verifyDup_ok_iff _ _ _).2 ⟨val, by rw [← ha]; exact hf, hh.symm, hr.symm, ht.symm, ha.symm, fun h => hb h.symm, rfl, rfl, s2, s1⟩

/-! ## what is false of the code as found -/

/-- FULL-STRENGTH clause "the evidence a correct node produces is accepted by every other correct
node": whatever time stamp `bt` consensus computed, the evidence passes `verify` on a node whose
chain has the block of that height. **False of the code as found (F9)**: consensus uses the median
of its own `LastCommit`, `verify` wants the block's time. -/
def CorrectNodeEvidenceAcceptedStatement : Prop :=
  ∀ (v1 v2 : Vote) (vs : ValSet) (val : Val) (env : Env) (p : Pool) (bt : Int) (hash size : Nat) (e : Evidence),
    vs.find v1.addr = some val → v1.addr = v2.addr → v1.c.h = v2.c.h → v1.c.r = v2.c.r → v1.c.t = v2.c.t →
    v1.c.b ≠ v2.c.b → sigOK env.chain v1 val.addr = true → sigOK env.chain v2 val.addr = true →
    env.vals.lookup v1.c.h = some vs → (env.times.lookup v1.c.h).isSome →
    verifyExpired p v1.c.h ((env.times.lookup v1.c.h).getD 0) = false →
    newDuplicateVoteEvidence v1 v2 bt vs hash size = some e → verify env p e = .ok

def cxVote (b : Nat) : Vote :=
  { c := ⟨2, 1, 1, b, 7⟩, addr := 5, idx := 0, bidOK := true, sig := .signed ⟨5, 1, ⟨2, 1, 1, b, 7⟩⟩ }
def cxVals : ValSet := [⟨5, 10⟩, ⟨6, 20⟩]
def cxEnv : Env := { chain := 1, times := [(2, 100)], vals := [(2, cxVals)] }
def cxPool : Pool := newPool ⟨100, 1000⟩ 3 110

/-- F9 as a model instance: two verified conflicting votes, evidence stamped 101 by consensus (its
own median), block 2 has time 100: every clause of `VerifyDuplicateVote` holds, `verify` answers
`badTime` -/
theorem from_consensus_time_counterexample :
    ∃ e, newDuplicateVoteEvidence (cxVote 1) (cxVote 2) 101 cxVals 9 400 = some e ∧
      verifyDup e cxVals 1 = .ok ∧ verify cxEnv cxPool e = .badTime := by
  refine ⟨_, rfl, by decide, by decide⟩

theorem correctNodeEvidenceAccepted_false : ¬ CorrectNodeEvidenceAcceptedStatement := by
  intro h
  have := h (cxVote 1) (cxVote 2) cxVals ⟨5, 10⟩ cxEnv cxPool 101 9 400 _ (by decide) rfl rfl rfl rfl (by decide)
    (by decide) (by decide) (by decide) (by decide) (by decide) rfl
  revert this
  decide

/-- "accepted ⇒ not expired" for the pending fast path. **False of the code as found (C19-R1).** -/
def AcceptedNotExpiredStatement : Prop :=
  ∀ (env : Env) (params : Params) (h : Nat) (t : Int) (ops : List (Env × Op)) (e : Evidence) (p' : Pool),
    Fresh (newPool params h t) ops →
    checkEvidence env (run (newPool params h t) ops) [e] = (p', .ok) →
    isExpired (run (newPool params h t) ops) e.height e.time = false

def cxEv : Evidence :=
  { a := cxVote 1, b := cxVote 2, total := 30, power := 10, time := 100, hash := 9, size := 400 }

/-- evidence of height 2 verified at height 3 with `maxAgeBlocks = 1`, `maxAgeDur = 5`; the `Update`
to height 4 (time 110) makes it expired (2 blocks > 1, 10 > 5) but `pruneH = 2+1+1 = 4` is not
below the new height, so it stays pending and `CheckEvidence` accepts it without an expiry test -/
theorem fastpath_expired_counterexample :
    let p := run (newPool ⟨1, 5⟩ 3 101) [(cxEnv, .restart 3 101), (cxEnv, .add cxEv), (cxEnv, .restart 3 101), (cxEnv, .update 4 110 [])]
    (checkEvidence cxEnv p [cxEv]).2 = .ok ∧ isExpired p cxEv.height cxEv.time = true := by
  decide

/-- "never twice" without the promise about consensus. **False of the code as found (C19-R2,
latent)**: `AddEvidenceFromConsensus` has no committed check. -/
def NeverTwiceUnconditionalStatement : Prop :=
  ∀ (env : Env) (p0 p1 p' : Pool) (ops2 : List (Env × Op)) (h : Nat) (t : Int) (l1 l2 : List Evidence),
    Inv p0 → update p0 h t l1 = some p1 → checkEvidence env (run p1 ops2) l2 = (p', .ok) →
    ∀ e1 ∈ l1, ∀ e2 ∈ l2, e1.key ≠ e2.key

theorem never_twice_needs_fresh : ¬ NeverTwiceUnconditionalStatement := by
  intro h
  have := h cxEnv (newPool ⟨100, 1000⟩ 3 101) _ _ [(cxEnv, .cons cxEv)] 4 110 [cxEv] [cxEv]
    (by intro x hx; cases hx) rfl rfl cxEv (by simp) cxEv (by simp)
  exact this rfl

/-- what F2 (vote type not signed; FIXED in the repository) allowed: a validator's prevote for
block 1 and precommit for block 2 of the same round, the precommit relabelled as a prevote, pass
`VerifyDuplicateVote` under the old signature rule and fail under the present one -/
theorem relabel_counterexample :
    let pv : Vote := { c := ⟨2, 1, 1, 1, 7⟩, addr := 5, idx := 0, bidOK := true, sig := .signed ⟨5, 1, ⟨2, 1, 1, 1, 7⟩⟩ }
    let pcRelabelled : Vote := { c := ⟨2, 1, 1, 2, 7⟩, addr := 5, idx := 0, bidOK := true, sig := .signed ⟨5, 1, ⟨2, 1, 2, 2, 7⟩⟩ }
    let e : Evidence := { a := pv, b := pcRelabelled, total := 30, power := 10, time := 100, hash := 1, size := 400 }
    verifyDupWith sigOKUntyped e cxVals 1 = .ok ∧ verifyDup e cxVals 1 = .sigB := by
  decide

/-! ## non-vacuity -/

example : verifyDup cxEv cxVals 1 = .ok := by decide
example : (addEvidence cxEnv cxPool cxEv).2 = .added := by decide
example : (checkEvidence cxEnv cxPool [cxEv]).2 = .ok := by decide
example : (checkEvidence cxEnv cxPool [cxEv, cxEv]).2 = .duplicate := by decide
example : ((update cxPool 4 120 [cxEv]).map fun p => (checkEvidence cxEnv p [cxEv]).2) = some .committed := by decide
example : Fresh cxPool [(cxEnv, .add cxEv), (cxEnv, .update 4 120 [cxEv]), (cxEnv, .check [cxEv])] :=
  ⟨trivial, trivial, trivial, trivial⟩
example : validateBasic (some (cxVote 1)) (some (cxVote 2)) = .ok ∧ validateBasic (some (cxVote 2)) (some (cxVote 1)) = .order := by decide

end KV.Props.C19
