import KV.Model.Ticker
/-!
# C04 — Liveness (partial)

The full statement (`LivenessStatement`) is kept visible and is **not** proved: it quantifies over
the real timers, the goroutine scheduling of `receiveRoutine` and the reactor's gossip, none of
which is carried by a model here.  Proved instead are the pieces of logic on which progress rests
and which are pure: the timeout ticker never drops the timeout of the latest step
(this file), a part set stays completable whatever bogus parts arrive (`KV/Props/C13.lean`),
proposer selection (`KV/Props/C12.lean`).  The search for deadlocks/livelocks on real nodes
(adversarial prefix, synchronous suffix, 20×N rounds bound) runs on every check and is labelled
as search, not proof.
-/
namespace KV.Ticker

/-- The property as stated (not proved): in every execution with a correct +2/3 and eventually
timely delivery every correct node commits at every height within a bounded number of rounds.
`Exec` stands for executions of the real system; no model of it is claimed. -/
def LivenessStatement (Exec : Type) (eventuallySynchronous : Exec → Prop)
    (commitsWithin : Exec → Nat → Prop) (bound : Nat) : Prop :=
  ∀ e : Exec, eventuallySynchronous e → commitsWithin e bound

theorem le_refl (a : Tick) : le a a := by
  unfold le; omega

theorem le_trans {a b c : Tick} (h1 : le a b) (h2 : le b c) : le a c := by
  unfold le at *; omega

theorem lt_of_not_ignored (held new : Tick) (hstep : held.step > 0) (h : ignored held new = false) :
    lt held new := by
  unfold ignored at h
  unfold lt
  by_cases h1 : new.height < held.height
  · simp [h1] at h
  · by_cases h2 : new.height = held.height
    · simp only [h1, h2, if_false, if_true] at h
      by_cases h3 : new.round < held.round
      · simp [h3] at h
      · by_cases h4 : new.round = held.round
        · simp only [h3, h4, if_false, if_true] at h
          simp [hstep] at h
          omega
        · omega
    · omega

theorem ignored_of_le (held new : Tick) (hstep : held.step > 0) (h : le new held) :
    ignored held new = true := by
  unfold le at h
  unfold ignored
  by_cases h1 : new.height < held.height
  · simp [h1]
  · by_cases h2 : new.height = held.height
    · simp only [h1, h2, if_false, if_true]
      by_cases h3 : new.round < held.round
      · simp [h3]
      · by_cases h4 : new.round = held.round
        · simp only [h3, h4, if_false, if_true]
          simp [hstep]; omega
        · omega
    · omega

/-- the held tick only ever moves forward (strictly) when it is replaced -/
theorem schedule_monotone (held new : Tick) (hstep : held.step > 0) :
    le held (schedule held new) := by
  unfold schedule
  by_cases h : ignored held new = true
  · simp [h]; exact le_refl held
  · have h' : ignored held new = false := by simpa using h
    simp [h']
    have := lt_of_not_ignored held new hstep h'
    unfold lt at this; unfold le; omega

/-- **the ticker never drops the timeout of the latest step**: a tick that is strictly later
(in height/round/step order) than the one held always replaces it … -/
theorem later_tick_replaces (held new : Tick) (h : lt held new) : schedule held new = new := by
  unfold schedule
  have : ignored held new = false := by
    unfold lt at h
    unfold ignored
    by_cases h1 : new.height < held.height
    · omega
    · by_cases h2 : new.height = held.height
      · simp only [h1, h2, if_false, if_true]
        by_cases h3 : new.round < held.round
        · omega
        · by_cases h4 : new.round = held.round
          · simp only [h3, h4, if_false, if_true]
            simp; omega
          · simp [h3, h4]
      · simp [h1, h2]
  simp [this]

/-- … and a tick that is not later is ignored (so a stale or replayed schedule call cannot
displace the current step's timeout) -/
theorem stale_tick_ignored (held new : Tick) (hstep : held.step > 0) (h : le new held) :
    schedule held new = held := by
  unfold schedule; simp [ignored_of_le held new hstep h]

/-- the consensus state machine schedules ticks whose steps are always positive
(`RoundStepNewHeight = 1` is the smallest step) -/
def Positive (ticks : List Tick) : Prop := ∀ t ∈ ticks, t.step > 0

theorem foldl_schedule_ge (ticks : List Tick) (held : Tick) (hs : held.step > 0) (hp : Positive ticks) :
    le held (ticks.foldl schedule held) ∧ (ticks.foldl schedule held).step > 0 := by
  induction ticks generalizing held with
  | nil => exact ⟨le_refl held, hs⟩
  | cons t ts ih =>
    have hpt : t.step > 0 := hp t (by simp)
    have hpts : Positive ts := fun x hx => hp x (by simp [hx])
    have hs' : (schedule held t).step > 0 := by
      unfold schedule; split <;> assumption
    obtain ⟨h1, h2⟩ := ih (schedule held t) hs' hpts
    exact ⟨le_trans (schedule_monotone held t hs) h1, h2⟩

/-- **for every sequence of schedule calls** (any order, duplicates, stale ones) with positive
steps, the ticker finally holds a tick that is ≥ every tick scheduled: the latest step's timeout
is the one that will fire. -/
theorem run_holds_max (ticks : List Tick) (hp : Positive ticks) :
    ∀ t ∈ ticks, le t (run ticks) := by
  unfold run
  suffices h : ∀ (held : Tick), (held.step > 0 ∨ held = empty) →
      ∀ t ∈ ticks, le t (ticks.foldl schedule held) by
    exact h empty (Or.inr rfl)
  induction ticks with
  | nil => intro held _ t ht; simp at ht
  | cons a ts ih =>
    intro held hheld t ht
    have hpa : a.step > 0 := hp a (by simp)
    have hpts : Positive ts := fun x hx => hp x (by simp [hx])
    have hs' : (schedule held a).step > 0 := by
      unfold schedule; split
      · rcases hheld with h | h
        · exact h
        · -- held = empty: nothing with positive step is ignored by the empty tick
          rename_i hig
          subst h
          unfold ignored empty at hig
          simp at hig
      · exact hpa
    simp only [List.foldl_cons]
    rcases List.mem_cons.mp ht with rfl | hin
    · -- t = a: after scheduling a the held tick is ≥ a, and it only grows afterwards
      have hge : le t (schedule held t) := by
        unfold schedule
        by_cases hig : ignored held t = true
        · simp [hig]
          rcases hheld with h | h
          · -- ignored means t ≤ held
            unfold ignored at hig
            unfold le
            by_cases h1 : t.height < held.height
            · omega
            · by_cases h2 : t.height = held.height
              · simp only [h1, h2, if_false, if_true] at hig
                by_cases h3 : t.round < held.round
                · omega
                · by_cases h4 : t.round = held.round
                  · simp only [h3, h4, if_false, if_true] at hig
                    simp at hig; omega
                  · simp [h3, h4] at hig
              · simp [h1, h2] at hig
          · subst h
            unfold ignored empty at hig
            simp at hig
        · have : ignored held t = false := by simpa using hig
          simp [this]; exact le_refl t
      exact le_trans hge (foldl_schedule_ge ts _ hs' hpts).1
    · exact ih hpts (schedule held a) (Or.inl hs') t hin

/-! ## non-vacuity -/
example : run [⟨1, 1, 1⟩, ⟨1, 1, 3⟩, ⟨1, 1, 2⟩, ⟨1, 2, 3⟩, ⟨1, 1, 8⟩] = ⟨1, 2, 3⟩ := by decide
example : Positive [⟨1, 1, 1⟩, ⟨1, 1, 3⟩] := by intro t ht; simp at ht; rcases ht with rfl | rfl <;> decide

end KV.Ticker
