import KV.Gen.C11
import KV.Model.SignBytes
/-!
# C11 — bridge between the regenerated signature-value checks / `V` arithmetic (tie T1) and the model

`KV/Gen/C11.lean` is re-extracted on every check run from `lib/crypto/crypto.go`
(`ValidateSignatureValues` as a whole, the curve order `secp256k1N` and `secp256k1halfN` evaluated
from their `big.Int` initialisers), `types/transaction.go` (`recoverPlain`: `V - 27`, the 8-bit
test; `isProtectedV`) and `types/transaction_signing.go` (`ChainIDSigner.Sender`:
`V - chainIdMul - 8` and the chain-id comparison; `SignatureValues`: `sig[64] + 35 + chainIdMul`;
`decodeSignature` / `FrontierSigner.SignatureValues`: `sig[64] + 27`; `NewChainIDSigner`:
`chainIdMul = 2 * chainId`; `deriveChainId`; the `homestead` flag every signer passes).

The theorems state that `validateSignatureValues`, `recoverPlainCheck`, `senderCheck`,
`signatureV`, `isProtectedV`, `deriveChainId` of the model `KV.SignBytes` (about which
`Props/C11.lean` proves chain-id binding, high-`s` rejection and sign-then-recover) are these
regenerated pieces.
-/
namespace KV.SignBytes.GenBridge
open KV KV.SignBytes

/-! ### `ValidateSignatureValues` -/

/-- the curve order and its half are the ones the model uses -/
theorem gen_curve_order : Gen.C11.secp256k1N = secpN ∧ Gen.C11.secp256k1halfN = secpHalfN := by decide

theorem cmp_lt (a b : Int) : (Big.cmp a b < 0) ↔ a < b := by
  unfold Big.cmp
  split
  · simp [*]
  · split <;> simp [*] <;> omega

theorem cmp_gt (a b : Int) : (Big.cmp a b > 0) ↔ a > b := by
  unfold Big.cmp
  split
  · simp; omega
  · split <;> simp <;> omega

theorem cmp_ne (a b : Int) : (Big.cmp a b ≠ 0) ↔ a ≠ b := by
  unfold Big.cmp
  split
  · simp; omega
  · split <;> simp [*]

/-- the whole regenerated `ValidateSignatureValues` is the model's function (for `r, s ≥ 0`,
which `big.Int.SetBytes` guarantees) -/
theorem validateSignatureValues_eq_gen (v r s : Nat) (hs : Bool) :
    Gen.C11.validateSignatureValues v (r : Int) (s : Int) hs = validateSignatureValues v r s hs := by
  have hN : (115792089237316195423570985008687907852837564279074904382605163141518161494337 : Int) = ((secpN : Nat) : Int) := by
    decide
  have hH : (57896044618658097711785492504343953926418782139537452191302581570759080747168 : Int) = ((secpHalfN : Nat) : Int) := by
    decide
  unfold Gen.C11.validateSignatureValues validateSignatureValues
  rw [hN, hH]
  simp only [cmp_lt, cmp_gt]
  have e1 : ((r : Int) < 1) ↔ r < 1 := by omega
  have e2 : ((s : Int) < 1) ↔ s < 1 := by omega
  have e3 : ((s : Int) > ((secpHalfN : Nat) : Int)) ↔ s > secpHalfN := by omega
  have e4 : ((r : Int) < ((secpN : Nat) : Int)) ↔ r < secpN := by omega
  have e5 : ((s : Int) < ((secpN : Nat) : Int)) ↔ s < secpN := by omega
  simp only [e1, e2, e3, e4, e5, Bool.or_eq_true, decide_eq_true_eq, Bool.and_eq_true]
  by_cases h1 : r < 1 ∨ s < 1
  · simp only [h1, if_true]
  · simp only [h1, if_false]
    by_cases h2 : hs = true ∧ s > secpHalfN
    · simp only [h2, and_self, if_true]
    · simp only [h2, if_false]
      by_cases h3 : v = 0 <;> by_cases h4 : v = 1 <;> simp [h3, h4]

/-- every signer calls `recoverPlain` with `homestead = true` (the model hard-wires it) -/
theorem gen_homestead_flags :
    Gen.C11.homesteadSenderHomestead = true ∧ Gen.C11.frontierSenderHomestead = true ∧
    Gen.C11.chainIdSenderHomestead = true := ⟨rfl, rfl, rfl⟩

/-! ### `recoverPlain` -/

/-- `V := byte(Vb.Uint64() - 27)` for `0 ≤ Vb < 256` (the range left by the `BitLen() > 8` test) -/
theorem gen_recoverV (vb : Nat) (h : vb < 256) :
    Gen.C11.recoverV (vb : Int) = (((vb : Int) - 27) % 256).toNat := by
  unfold Gen.C11.recoverV U64.wrapN U64.sub U64.wrap
  simp only [Int.ofNat_eq_natCast]
  omega

/-- `recoverPlainCheck` of the model: the regenerated `V` and the regenerated value check, with
`BitLen() > 8` read as `|Vb| ≥ 256` -/
theorem recoverPlainCheck_eq_gen (hc : Option Nat) (vb r s : Nat) :
    recoverPlainCheck hc (vb : Int) r s =
      if vb ≥ 256 then .invalidSig
      else if Gen.C11.validateSignatureValues (Gen.C11.recoverV (vb : Int)) (r : Int) (s : Int)
          Gen.C11.chainIdSenderHomestead then .recover hc (Gen.C11.recoverV (vb : Int))
      else .invalidSig := by
  unfold recoverPlainCheck
  have e : ((vb : Int)).natAbs = vb := Int.natAbs_natCast vb
  rw [e]
  by_cases h : vb ≥ 256
  · simp only [h, if_true]
  · simp only [h, if_false]
    rw [gen_recoverV vb (by omega), validateSignatureValues_eq_gen]
    rfl

theorem gen_recoverVTooWide (n : Nat) : Gen.C11.recoverVTooWide (n : Int) = decide (n > 8) := by
  unfold Gen.C11.recoverVTooWide
  have : ((n : Int) > 8) ↔ n > 8 := by omega
  simp only [this]

/-! ### `isProtectedV`, `deriveChainId` -/

/-- `isProtectedV`: the small branch (`BitLen() <= 8`, i.e. `v < 256`) and the large one -/
theorem isProtectedV_eq_gen (v : Nat) :
    isProtectedV v = if v < 256 then Gen.C11.protectedVSmallResult v else Gen.C11.protectedVLargeResult := by
  unfold isProtectedV Gen.C11.protectedVSmallResult Gen.C11.protectedVLargeResult
  by_cases h : v < 256
  · simp only [h, if_true]
    by_cases h1 : v = 27 <;> by_cases h2 : v = 28 <;> simp [h1, h2]
  · simp only [h, if_false]

theorem gen_bitlen_tests (n : Nat) :
    Gen.C11.protectedVSmall (n : Int) = decide (n ≤ 8) ∧ Gen.C11.deriveSmall (n : Int) = decide (n ≤ 64) := by
  unfold Gen.C11.protectedVSmall Gen.C11.deriveSmall
  have a : ((n : Int) ≤ 8) ↔ n ≤ 8 := by omega
  have b : ((n : Int) ≤ 64) ↔ n ≤ 64 := by omega
  simp only [a, b, and_self]

/-- `deriveChainId`: `uint64` branch (wraps below 35) and `big.Int` branch -/
theorem deriveChainId_eq_gen (v : Nat) :
    ((deriveChainId v : Nat) : Int) =
      if v < 18446744073709551616 then
        if Gen.C11.deriveUnprotected v then 0 else Gen.C11.deriveSmallResult v
      else Gen.C11.deriveLargeResult (Gen.C11.deriveLargeShift (v : Int)) := by
  unfold deriveChainId Gen.C11.deriveUnprotected Gen.C11.deriveSmallResult Gen.C11.deriveLargeResult
    Gen.C11.deriveLargeShift
  by_cases h : v < 18446744073709551616
  · simp only [h, if_true, Bool.or_eq_true, decide_eq_true_eq]
    by_cases h2 : v = 27 ∨ v = 28
    · simp only [h2, if_true]; rfl
    · simp only [h2, if_false]
      unfold U64.div U64.sub U64.wrap
      simp only [Int.ofNat_eq_natCast]
      omega
  · simp only [h, if_false]
    show ((((v - 35) / 2 : Nat)) : Int) = Int.ediv ((v : Int) - 35) 2
    have : ((v : Int) - 35) = ((v - 35 : Nat) : Int) := by omega
    rw [this]
    rfl

/-! ### `ChainIDSigner` -/

theorem gen_chainIdMul (c : Nat) : Gen.C11.chainIdMul (c : Int) = 2 * (c : Int) := by
  unfold Gen.C11.chainIdMul; omega

/-- `Sender` hands `V - chainIdMul - 8` to `recoverPlain` -/
theorem gen_senderPlainV (v c : Nat) :
    Gen.C11.senderPlainV (v : Int) (Gen.C11.chainIdMul (c : Int)) = (v : Int) - 2 * (c : Int) - 8 := by
  unfold Gen.C11.senderPlainV Gen.C11.chainIdMul
  simp only []
  omega

/-- `senderCheck (some c)` of the model: protected test, chain-id comparison on the derived id,
then `recoverPlainCheck` on the regenerated `V - 2c - 8` -/
theorem senderCheck_eq_gen (c v r s : Nat) :
    senderCheck (some c) v r s =
      if !isProtectedV v then recoverPlainCheck none v r s
      else if Gen.C11.senderWrongChainId ((deriveChainId v : Nat) : Int) (c : Int) then .invalidChainId
      else recoverPlainCheck (some c) (Gen.C11.senderPlainV (v : Int) (Gen.C11.chainIdMul (c : Int))) r s := by
  unfold senderCheck
  rw [gen_senderPlainV]
  unfold Gen.C11.senderWrongChainId
  simp only [cmp_ne]
  have : (((deriveChainId v : Nat) : Int) ≠ (c : Int)) ↔ deriveChainId v ≠ c := by omega
  simp only [this, decide_eq_true_eq]

/-- `SignatureValues`: the stored `V` for recovery id `recid` -/
theorem signatureV_eq_gen (signer : Option Nat) (recid : Nat) (hr : recid < 256) (V0 : Int) :
    ((signatureV signer recid : Nat) : Int) =
      match signer with
      | none => ((Gen.C11.frontierSignatureV recid : Nat) : Int)
      | some c =>
        if Gen.C11.signatureUsesChainId (c : Int) then
          Gen.C11.signatureProtectedV V0 recid (Gen.C11.chainIdMul (c : Int))
        else ((Gen.C11.signaturePlainV recid : Nat) : Int) := by
  have e27 : Gen.C11.frontierSignatureV recid = (recid + 27) % 256 := by
    unfold Gen.C11.frontierSignatureV U64.wrapN
    simp only [Int.ofNat_eq_natCast]; omega
  have e27' : Gen.C11.signaturePlainV recid = (recid + 27) % 256 := by
    unfold Gen.C11.signaturePlainV U64.wrapN
    simp only [Int.ofNat_eq_natCast]; omega
  cases signer with
  | none => simp only [signatureV, e27]
  | some c =>
    simp only [signatureV, e27']
    unfold Gen.C11.signatureUsesChainId Big.sign
    simp only [cmp_ne]
    have : ((c : Int) ≠ 0) ↔ c ≠ 0 := by omega
    simp only [this, decide_eq_true_eq]
    by_cases hc : c = 0
    · simp [hc]
    · simp only [hc, ne_eq, not_false_eq_true, if_true]
      unfold Gen.C11.signatureProtectedV Gen.C11.chainIdMul U64.wrapN
      simp only [Int.ofNat_eq_natCast]
      omega

theorem gen_signature_length (n : Nat) :
    Gen.C11.signatureWrongLength (n : Int) = decide (n ≠ Gen.C11.SignatureLength) ∧
    Gen.C11.RecoveryIDOffset + 1 = Gen.C11.SignatureLength := by
  constructor
  · unfold Gen.C11.signatureWrongLength Gen.C11.SignatureLength
    have : ((n : Int) ≠ 65) ↔ n ≠ 65 := by omega
    simp only [this]
  · decide

end KV.SignBytes.GenBridge
