import KV.Gen.C17
import KV.Model.TxPool
/-!
# C17 — bridge between the regenerated Go arithmetic (tie T1) and the model

`KV/Gen/C17.lean` is re-extracted from `mainchain/tx_pool/tx_list.go` (`txList.replaceable`, the test `txList.Add` and `TxPool.add` share since the repair of F12) and
`types/transaction.go` on every check run.  These theorems state that the model's price-bump
threshold and replacement test are the ones the source contains now (for prices and bumps in the
ranges the Go types allow: non-negative prices, `priceBump < 2^62`).
-/
namespace KV.TxPool.GenBridge
open KV

theorem gen_threshold_eq (oldPrice bump : Nat) (hb : bump < 2 ^ 62) :
    Gen.C17.priceBumpThreshold (oldPrice : Int) bump = ((TxPool.TxList.threshold oldPrice bump : Nat) : Int) := by
  unfold Gen.C17.priceBumpThreshold TxPool.TxList.threshold
  have e1 : I64.add 100 (I64.wrap (Int.ofNat bump)) = ((100 + bump : Nat) : Int) := by
    unfold I64.add I64.wrap
    simp only [Int.ofNat_eq_natCast]
    omega
  simp only [e1]
  have : (((100 + bump : Nat) : Int) * (oldPrice : Int)) = (((100 + bump) * oldPrice : Nat) : Int) := by
    simp
  rw [this]
  show Int.ediv _ _ = _
  simp [Int.ediv]
theorem gen_accepts_eq (old t : TxPool.Tx) (bump : Nat) (hb : bump < 2 ^ 62) :
    Gen.C17.acceptsReplacement (old.price : Int) (t.price : Int)
        (Gen.C17.priceBumpThreshold (old.price : Int) bump) = TxPool.TxList.canReplace old t bump := by
  rw [gen_threshold_eq _ _ hb]
  unfold Gen.C17.acceptsReplacement Gen.C17.GasPriceCmp Gen.C17.GasPriceIntCmp Big.cmp TxPool.TxList.canReplace
  generalize TxPool.TxList.threshold old.price bump = th
  have c1 : ((if (old.price : Int) < t.price then (-1 : Int) else if (old.price : Int) = t.price then 0 else 1) < 0) ↔ ¬ old.price ≥ t.price := by
    split
    · omega
    · split <;> omega
  have c2 : ((if (t.price : Int) < th then (-1 : Int) else if (t.price : Int) = th then 0 else 1) ≥ 0) ↔ ¬ t.price < th := by
    split
    · omega
    · split <;> omega
  simp only [c1, c2, Bool.not_or, decide_not]

/-- `txList.replaceable` of the model is the regenerated test applied to the transaction in place -/
theorem gen_replaceable_eq (l : TxPool.TxList) (t : TxPool.Tx) (bump : Nat) (hb : bump < 2 ^ 62) :
    l.replaceable t bump =
      match l.get? t.nonce with
      | none => true
      | some old => Gen.C17.acceptsReplacement (old.price : Int) (t.price : Int)
          (Gen.C17.priceBumpThreshold (old.price : Int) bump) := by
  unfold TxPool.TxList.replaceable
  cases l.get? t.nonce with
  | none => rfl
  | some old => simp only [gen_accepts_eq old t bump hb]

theorem gen_defaultBump : Gen.C17.DefaultPriceBump = 10 := rfl

end KV.TxPool.GenBridge
