import KV.Gen.C03
import KV.Model.Cs
/-!
# C03 — bridge between the regenerated guards of `consensus/state.go` (tie T1) and the model `Cs`

`KV/Gen/C03.lean` is re-extracted from `consensus/state.go`, `consensus/types/round_state.go`,
`consensus/types/height_vote_set.go` and the vote-type enum on every check run: the guard of every
`enterX`, the conditions of the `addVote` branches (unlock on a later polka, valid-block update,
the final `switch`, the precommit branch), `handleTimeout`'s staleness test and dispatch,
`setProposal`, `addProposalBlockPart`, `isProposalComplete`, the lock/unlock round assignments of
`enterPrecommit` and the numeric step codes.

The theorems below restate each function of the hand-written model `KV.Cs` (on which
`Props/C03.lean`, `C04Cs.lean`, `C01*.lean` prove the per-node rules) as *the same function with
the regenerated guard in the place of the hand-written one*, for an arbitrary state.  The model is
not changed; a change of a guard in the Go source (another step constant, `<` for `<=`, a dropped
disjunct, `&&` for `||`) changes the generated definition and breaks the corresponding theorem.

Numeric ranges: rounds are `uint32`, heights `uint64` in Go and unbounded `Nat` in the model; the
three places where the source *computes* with them (`round + 1`, `ti.Round + 1`, `vote.Height + 1`,
`hvs.round - 1`) carry the no-wrap hypothesis explicitly.
-/
namespace KV.Cs.GenBridge
open KV KV.Cs

/-! ### step codes -/

/-- the numeric codes of `cstypes.RoundStepType` are the ones `Step.toNat` uses -/
theorem gen_step_codes :
    Gen.C03.RoundStepNewHeight = Step.newHeight.toNat ∧ Gen.C03.RoundStepNewRound = Step.newRound.toNat ∧
    Gen.C03.RoundStepPropose = Step.propose.toNat ∧ Gen.C03.RoundStepPrevote = Step.prevote.toNat ∧
    Gen.C03.RoundStepPrevoteWait = Step.prevoteWait.toNat ∧ Gen.C03.RoundStepPrecommit = Step.precommit.toNat ∧
    Gen.C03.RoundStepPrecommitWait = Step.precommitWait.toNat ∧ Gen.C03.RoundStepCommit = Step.commit.toNat := by
  decide

/-- numeric code of `kproto.SignedMsgType` for the two vote types -/
def vtypeCode : VType → Int
  | .prevote => Gen.C03.PrevoteType
  | .precommit => Gen.C03.PrecommitType

theorem step_ne_newHeight (s : Step) : s ≠ .newHeight ↔ s.toNat ≠ 1 := by
  cases s <;> simp [Step.toNat]

theorem step_eq_commit (s : Step) : s = .commit ↔ s.toNat = 8 := by
  cases s <;> simp [Step.toNat]

/-- shape of the `enterX` guards: `a || b || (c && d)` -/
theorem guard_or3 (a b c d : Prop) [Decidable a] [Decidable b] [Decidable c] [Decidable d] :
    ((decide a || decide b) || (decide c && decide d)) = decide (a ∨ b ∨ (c ∧ d)) := by
  simp only [Bool.decide_or, Bool.decide_and, Bool.or_assoc]

theorem guard_or2 (a b : Prop) [Decidable a] [Decidable b] :
    (decide a || decide b) = decide (a ∨ b) := by
  simp only [Bool.decide_or]

/-! ### the `enterX` guards -/

/-- `enterNewRound`: the guard, the "keep the proposal in round 1" test, the tracked round
`round + 1` and `waitForTxs` are the regenerated ones -/
theorem enterNewRound_eq_gen (cfg : Config) (nb : Option Nat) (h r : Nat) (σ : State) (hr : r + 1 < 2 ^ 32) :
    enterNewRound cfg nb h r σ =
      if Gen.C03.enterNewRoundGuard σ.height σ.round σ.step.toNat h r then σ
      else if Gen.C03.enterNewRoundInCommit σ.step.toNat then σ
      else
        let σ1 := { σ with round := r, step := .newRound }
        let σ2 := if Gen.C03.newRoundKeepsProposal r then σ1
                  else { σ1 with proposal := none, pblock := none, parts := none }
        let σ3 := releaseStale cfg { setRound (n cfg) (Gen.C03.newRoundTracksRound r) σ2 with ttp := false }
        if Gen.C03.newRoundWaitsForTxs cfg.waitTxs r then
          if cfg.emptyInterval then schedule h r .newRound σ3 else σ3
        else enterPropose cfg nb h r σ3 := by
  have e1 : Gen.C03.newRoundTracksRound r = r + 1 := by
    unfold Gen.C03.newRoundTracksRound U64.wrapN
    simp only [Int.ofNat_eq_natCast]
    omega
  have e2 : Gen.C03.enterNewRoundGuard σ.height σ.round σ.step.toNat h r =
      decide (σ.height ≠ h ∨ r < σ.round ∨ (σ.round = r ∧ σ.step ≠ .newHeight)) := by
    unfold Gen.C03.enterNewRoundGuard
    simp only [step_ne_newHeight, Bool.decide_or, Bool.decide_and, Bool.or_assoc]
  have e3 : Gen.C03.enterNewRoundInCommit σ.step.toNat = decide (σ.step = .commit) := by
    unfold Gen.C03.enterNewRoundInCommit
    simp only [step_eq_commit]
  unfold enterNewRound newRoundPrep
  rw [e1, e2, e3]
  simp only [Gen.C03.newRoundKeepsProposal, Gen.C03.newRoundWaitsForTxs, decide_eq_true_eq]
  by_cases hg : σ.height ≠ h ∨ r < σ.round ∨ (σ.round = r ∧ σ.step ≠ .newHeight)
  · simp only [hg, if_true]
  · simp only [hg, if_false]
    by_cases hc : σ.step = .commit
    · simp only [hc, if_true]
    · simp only [hc, if_false]
      by_cases h1 : r = 1 <;> simp [h1]

/-- `cs.config.CreateEmptyBlocksInterval > 0` is what `Config.emptyInterval` stands for -/
theorem gen_emptyInterval (d : Int) : Gen.C03.newRoundSchedulesEmptyBlock d = decide (0 < d) := by
  simp [Gen.C03.newRoundSchedulesEmptyBlock]

/-- the number of proposer rotations of a round skip is the number of rounds skipped, so the
proposer of `(height, round)` does not depend on the rounds visited (`Config.proposer` is a
function of height and round) -/
theorem gen_roundSkipIncrement (csRound round : Nat) (h : csRound ≤ round) (hr : round < 2 ^ 32) :
    Gen.C03.roundSkipIncrement csRound round = ((round - csRound : Nat) : Int) ∧
    Gen.C03.newRoundSkipsRounds csRound round = decide (csRound < round) := by
  constructor
  · unfold Gen.C03.roundSkipIncrement U64.wrapN
    simp only [Int.ofNat_eq_natCast]
    omega
  · rfl

/-- two consecutive skips rotate as often as one direct skip -/
theorem gen_roundSkip_additive (r0 r1 r2 : Nat) (h01 : r0 ≤ r1) (h12 : r1 ≤ r2) (hr : r2 < 2 ^ 32) :
    Gen.C03.roundSkipIncrement r0 r1 + Gen.C03.roundSkipIncrement r1 r2 = Gen.C03.roundSkipIncrement r0 r2 := by
  rw [(gen_roundSkipIncrement r0 r1 h01 (by omega)).1, (gen_roundSkipIncrement r1 r2 h12 hr).1,
    (gen_roundSkipIncrement r0 r2 (by omega) hr).1]
  omega

theorem enterPropose_eq_gen (cfg : Config) (nb : Option Nat) (h r : Nat) (σ : State) :
    enterPropose cfg nb h r σ =
      if Gen.C03.enterProposeGuard σ.height σ.round σ.step.toNat h r then σ
      else proposeDone cfg h { proposeBody cfg nb h r σ with round := r, step := .propose } := by
  have e : Gen.C03.enterProposeGuard σ.height σ.round σ.step.toNat h r =
      decide (σ.height ≠ h ∨ r < σ.round ∨ (σ.round = r ∧ Step.propose.toNat ≤ σ.step.toNat)) := by
    exact guard_or3 _ _ _ _
  unfold enterPropose
  rw [e]
  simp only [decide_eq_true_eq]

theorem enterPrevote_eq_gen (cfg : Config) (h r : Nat) (σ : State) :
    enterPrevote cfg h r σ =
      if Gen.C03.enterPrevoteGuard σ.height σ.round σ.step.toNat h r then σ
      else { doPrevote cfg σ with round := r, step := .prevote } := by
  have e : Gen.C03.enterPrevoteGuard σ.height σ.round σ.step.toNat h r =
      decide (σ.height ≠ h ∨ r < σ.round ∨ (σ.round = r ∧ Step.prevote.toNat ≤ σ.step.toNat)) := by
    exact guard_or3 _ _ _ _
  unfold enterPrevote
  rw [e]
  simp only [decide_eq_true_eq]

theorem enterPrevoteWait_eq_gen (h r : Nat) (σ : State) :
    enterPrevoteWait h r σ =
      if Gen.C03.enterPrevoteWaitGuard σ.height σ.round σ.step.toNat h r then σ
      else { schedule h r .prevoteWait σ with round := r, step := .prevoteWait } := by
  have e : Gen.C03.enterPrevoteWaitGuard σ.height σ.round σ.step.toNat h r =
      decide (σ.height ≠ h ∨ r < σ.round ∨ (σ.round = r ∧ Step.prevoteWait.toNat ≤ σ.step.toNat)) := by
    exact guard_or3 _ _ _ _
  unfold enterPrevoteWait
  rw [e]
  simp only [decide_eq_true_eq]

theorem enterPrecommit_eq_gen (cfg : Config) (h r : Nat) (σ : State) :
    enterPrecommit cfg h r σ =
      if Gen.C03.enterPrecommitGuard σ.height σ.round σ.step.toNat h r then σ
      else if Gen.C03.enterPrecommitInCommit σ.step.toNat then σ
      else { doPrecommit cfg r σ with round := r, step := .precommit } := by
  have e : Gen.C03.enterPrecommitGuard σ.height σ.round σ.step.toNat h r =
      decide (σ.height ≠ h ∨ r < σ.round ∨ (σ.round = r ∧ Step.precommit.toNat ≤ σ.step.toNat)) := by
    exact guard_or3 _ _ _ _
  have e3 : Gen.C03.enterPrecommitInCommit σ.step.toNat = decide (σ.step = .commit) := by
    unfold Gen.C03.enterPrecommitInCommit
    simp only [step_eq_commit]
  unfold enterPrecommit
  rw [e, e3]
  simp only [decide_eq_true_eq]

theorem enterPrecommitWait_eq_gen (h r : Nat) (σ : State) :
    enterPrecommitWait h r σ =
      if Gen.C03.enterPrecommitWaitGuard σ.height σ.round σ.ttp h r then σ
      else { schedule h r .precommitWait σ with ttp := true } := by
  have e : Gen.C03.enterPrecommitWaitGuard σ.height σ.round σ.ttp h r =
      decide (σ.height ≠ h ∨ r ≠ σ.round ∨ (σ.round = r ∧ σ.ttp)) := by
    unfold Gen.C03.enterPrecommitWaitGuard
    simp only [Bool.decide_or, Bool.decide_and, Bool.or_assoc, Bool.decide_eq_true]
  unfold enterPrecommitWait
  rw [e]
  simp only [decide_eq_true_eq]

theorem enterCommit_eq_gen (cfg : Config) (h cr : Nat) (σ : State) :
    enterCommit cfg h cr σ =
      if Gen.C03.enterCommitGuard σ.height σ.step.toNat h then σ
      else tryFinalizeCommit cfg h { commitPrep cfg cr σ with step := .commit, commitRound := cr } := by
  have e : Gen.C03.enterCommitGuard σ.height σ.step.toNat h =
      decide (σ.height ≠ h ∨ Step.commit.toNat ≤ σ.step.toNat) := by
    exact guard_or2 _ _
  unfold enterCommit
  rw [e]
  simp only [decide_eq_true_eq]

/-- `finalizeCommit`: on a state that passes the regenerated guard the model does not return early
(it commits or panics), on one that does not it returns the state unchanged -/
theorem finalizeCommit_guard_gen (cfg : Config) (h : Nat) (σ : State) :
    Gen.C03.finalizeCommitGuard σ.height σ.step.toNat h = decide (σ.height ≠ h ∨ σ.step ≠ .commit) ∧
    (Gen.C03.finalizeCommitGuard σ.height σ.step.toNat h = true → finalizeCommit cfg h σ = σ) := by
  have e : Gen.C03.finalizeCommitGuard σ.height σ.step.toNat h = decide (σ.height ≠ h ∨ σ.step ≠ .commit) := by
    unfold Gen.C03.finalizeCommitGuard
    have : σ.step ≠ .commit ↔ σ.step.toNat ≠ 8 := by rw [Ne, step_eq_commit]
    simp only [this, Bool.decide_or]
  refine ⟨e, ?_⟩
  rw [e]
  intro hg
  unfold finalizeCommit
  simp only [decide_eq_true_eq] at hg
  simp only [hg, if_true]

/-- `tryFinalizeCommit`: "no +2/3 majority, or +2/3 for nil" -/
theorem tryFinalizeCommit_eq_gen (cfg : Config) (h : Nat) (σ : State) :
    tryFinalizeCommit cfg h σ =
      let m := maj23 cfg.powers (σ.slots .precommit σ.height σ.commitRound)
      if Gen.C03.tryFinalizeNoBlockMajority m.isSome (m == some none) then σ
      else
        match m with
        | some (some b) => if idIs σ.pblock b then finalizeCommit cfg h σ else σ
        | _ => σ := by
  unfold tryFinalizeCommit Gen.C03.tryFinalizeNoBlockMajority
  rcases hm : maj23 cfg.powers (σ.slots .precommit σ.height σ.commitRound) with _ | _ | b <;> simp

/-! ### `enterPrecommit`: the rounds written to `LockedRound` -/

theorem gen_lock_rounds (r : Nat) (σ : State) :
    Gen.C03.lockRound r = r ∧ Gen.C03.relockRound r = r ∧
    (unlock σ).lockedRound = Gen.C03.unlockRoundNilPolka ∧
    (unlock σ).lockedRound = Gen.C03.unlockRoundUnknownPolka ∧
    Gen.C03.precommitPolRoundPanics r r = false := by
  simp [Gen.C03.lockRound, Gen.C03.relockRound, Gen.C03.unlockRoundNilPolka, Gen.C03.unlockRoundUnknownPolka,
    Gen.C03.precommitPolRoundPanics, unlock]

/-! ### `isProposalComplete`, `setProposal` -/

theorem isProposalComplete_eq_gen (cfg : Config) (σ : State) :
    isProposalComplete cfg σ =
      Gen.C03.isProposalComplete σ.proposal.isNone σ.pblock.isNone
        ((σ.proposal.map (·.pol)).getD 0)
        (maj23 cfg.powers (σ.slots .prevote σ.height ((σ.proposal.map (·.pol)).getD 0))).isSome := by
  unfold isProposalComplete Gen.C03.isProposalComplete
  rcases hp : σ.proposal with _ | p <;> rcases hb : σ.pblock with _ | b <;> simp

theorem setProposal_eq_gen (cfg : Config) (src : Nat) (sigok : Bool) (h r pol id : Nat) (σ : State) :
    setProposal cfg src sigok h r pol id σ =
      if σ.proposal.isSome then σ
      else if Gen.C03.proposalDoesNotApply σ.height σ.round h r then σ
      else if Gen.C03.proposalPolRoundInvalid pol r then σ
      else if !(sigok && src == cfg.proposer σ.height σ.round) then σ
      else
        { σ with proposal := some ⟨r, pol, id⟩,
                 parts := match σ.parts with
                          | none => some (id, false)
                          | some p => some p } := by
  have e1 : Gen.C03.proposalDoesNotApply σ.height σ.round h r = decide (h ≠ σ.height ∨ r ≠ σ.round) := by
    unfold Gen.C03.proposalDoesNotApply
    simp only [Bool.decide_or]
  have e2 : Gen.C03.proposalPolRoundInvalid pol r = decide (pol ≠ 0 ∧ r ≤ pol) := by
    unfold Gen.C03.proposalPolRoundInvalid
    simp only [ge_iff_le, Bool.decide_and]
  unfold setProposal
  rw [e1, e2]
  simp only [decide_eq_true_eq]
  rfl

/-! ### `addVote` -/

/-- the two height tests in front of `addVote` -/
theorem addVote_height_tests_gen (t : VType) (h : Nat) (σ : State) (hh : h + 1 < 2 ^ 64) :
    Gen.C03.voteIsForLastCommit σ.height h (vtypeCode t) = (h + 1 == σ.height && t == .precommit) ∧
    Gen.C03.voteHeightMismatch σ.height h = decide (h ≠ σ.height) := by
  constructor
  · unfold Gen.C03.voteIsForLastCommit
    have e : U64.add h 1 = h + 1 := U64.add_exact h 1 (by unfold U64.modulus; omega)
    rw [e]
    cases t <;> simp [vtypeCode, Gen.C03.PrevoteType, Gen.C03.PrecommitType, BEq.beq]
  · rfl

/-- `addVote` of the model, with both height tests replaced by the regenerated ones -/
theorem addVote_eq_gen (cfg : Config) (nb : Option Nat) (peer idx : Nat) (t : VType) (h r : Nat) (tgt : Target)
    (sigok : Bool) (σ : State) (hh : h + 1 < 2 ^ 64) :
    addVote cfg nb peer idx t h r tgt sigok σ =
      if Gen.C03.voteIsForLastCommit σ.height h (vtypeCode t) then σ
      else if Gen.C03.voteHeightMismatch σ.height h then σ
      else
        match ensureRound cfg peer r σ with
        | none => σ
        | some σ1 =>
          if !sigok || !(decide (idx < n cfg)) then σ1
          else
            match (σ1.slots t h r)[idx]? with
            | some none =>
              let σ2 := { σ1 with votes := σ1.votes.map (setSlot t idx tgt h r), added := true }
              match t with
              | .prevote => afterPrevote cfg nb r σ2
              | .precommit => afterPrecommit cfg nb r σ2
            | _ => σ1 := by
  obtain ⟨e1, e2⟩ := addVote_height_tests_gen t h σ hh
  unfold addVote
  rw [e1, e2]
  simp only [decide_eq_true_eq]
  rfl

/-- a late precommit of the previous height is dropped unless the node is still in `NewHeight`
(the model drops all of them: `LastCommit` is not modelled) -/
theorem gen_lateLastCommit (s : Step) (noLastCommit : Bool) :
    Gen.C03.lateLastCommitIgnored s.toNat noLastCommit = (decide (s ≠ .newHeight) || noLastCommit) := by
  unfold Gen.C03.lateLastCommitIgnored
  simp only [step_ne_newHeight]

/-- `HeightVoteSet.AddVote`: at most two catch-up rounds per peer -/
theorem ensureRound_eq_gen (cfg : Config) (peer r : Nat) (σ : State) :
    ensureRound cfg peer r σ =
      if hasRound σ r then some σ
      else if Gen.C03.hvsCatchupAllowed (σ.catchup.filter (· == peer)) then
        some { addRound (n cfg) r σ with catchup := peer :: σ.catchup }
      else none := by
  unfold ensureRound Gen.C03.hvsCatchupAllowed
  simp only [Int.ofNat_eq_natCast, decide_eq_true_eq]
  have : ((List.filter (fun x => x == peer) σ.catchup).length : Int) < 2 ↔
      (List.filter (fun x => x == peer) σ.catchup).length < 2 := by omega
  simp only [this]

/-- `cs.LockedBlock.HashesTo(blockID.Hash)` for the polka `bid` -/
def lockedHashesTo (σ : State) (bid : Target) : Bool :=
  match σ.locked with
  | some lb => bid == some lb.id
  | none => false

/-- unlock on a polka at a round in `(LockedRound, Round]` for something else than the locked block -/
theorem polkaUnlock_eq_gen (vr : Nat) (bid : Target) (σ : State) :
    polkaUnlock vr bid σ =
      if Gen.C03.polkaUnlocks σ.locked.isSome σ.lockedRound vr σ.round (lockedHashesTo σ bid) then unlock σ
      else σ := by
  unfold polkaUnlock Gen.C03.polkaUnlocks lockedHashesTo
  rcases hl : σ.locked with _ | lb <;> simp

/-- "Update Valid* if we can": only for a non-nil polka of the current round, later than `ValidRound` -/
theorem polkaValid_eq_gen (vr b : Nat) (σ : State) :
    polkaValid vr b σ =
      if Gen.C03.polkaUpdatesValid false σ.validRound vr σ.round then
        let σa :=
          if idIs σ.pblock b then { σ with validRound := Gen.C03.polkaValidRound vr, validB := σ.pblock }
          else { σ with pblock := none }
        if partsHas σa.parts b then σa else { σa with parts := some (b, false) }
      else σ := by
  unfold polkaValid Gen.C03.polkaUpdatesValid Gen.C03.polkaValidRound
  simp

/-- a nil polka never updates the valid block (`polkaUpdate` skips `polkaValid` for `some none`) -/
theorem gen_polkaValid_nil (validRound vr round : Nat) :
    Gen.C03.polkaUpdatesValid true validRound vr round = false := by
  simp [Gen.C03.polkaUpdatesValid]

/-- the final `switch` of the prevote branch: which case is taken, and the test inside case 2 -/
theorem prevoteSwitch_eq_gen (cfg : Config) (nb : Option Nat) (h vr : Nat) (m : Option Target) (any : Bool) (σ : State) :
    prevoteSwitch cfg nb h vr m any σ =
      match Gen.C03.prevoteSwitch σ.round σ.step.toNat vr any σ.proposal.isSome ((σ.proposal.map (·.pol)).getD 0) with
      | 0 => enterNewRound cfg nb h vr σ
      | 1 =>
        if Gen.C03.prevotePolkaEntersPrecommit m.isSome (isProposalComplete cfg σ) (m == some none) then
          enterPrecommit cfg h vr σ
        else if any then enterPrevoteWait h vr σ
        else σ
      | 2 => if isProposalComplete cfg σ then enterPrevote cfg h σ.round σ else σ
      | _ => σ := by
  have hpv : Step.prevote.toNat = 4 := rfl
  unfold prevoteSwitch Gen.C03.prevoteSwitch Gen.C03.prevotePolkaEntersPrecommit
  rw [hpv]
  generalize σ.step.toNat = sc
  by_cases c0 : σ.round < vr <;> by_cases ca : any = true <;> by_cases c1 : σ.round = vr <;>
    by_cases c2 : 4 ≤ sc <;> rcases hp : σ.proposal with _ | p <;> rcases m with _ | _ | b <;>
    simp [c0, ca, c1, c2] <;> (split <;> simp_all)

/-- the precommit branch without a majority: round skip on +2/3 of any precommits at `vr ≥ Round` -/
theorem afterPrecommit_eq_gen (cfg : Config) (nb : Option Nat) (vr : Nat) (σ : State) :
    afterPrecommit cfg nb vr σ =
      let h := σ.height
      let pc := σ.slots .precommit h vr
      match maj23 cfg.powers pc with
      | some bid =>
        let σ2 := enterPrecommit cfg h vr (enterNewRound cfg nb h vr σ)
        match bid with
        | some _ => enterCommit cfg h vr σ2
        | none => enterPrecommitWait h vr σ2
      | none =>
        if Gen.C03.precommitAnyEntersWait σ.round vr (hasAny cfg.powers pc) then
          enterPrecommitWait h vr (enterNewRound cfg nb h vr σ)
        else σ := by
  unfold afterPrecommit Gen.C03.precommitAnyEntersWait
  rfl

/-! ### `addProposalBlockPart` -/

theorem addBlock_height_gen (h : Nat) (σ : State) :
    Gen.C03.blockPartWrongHeight σ.height h = decide (σ.height ≠ h) := rfl

/-- "Update Valid* if we can" after a complete block: needs a non-nil polka of the current round
and `ValidRound < Round`; the new valid round is the current round -/
theorem storeBlock_eq_gen (cfg : Config) (blk : Blk) (σ : State) :
    storeBlock cfg blk σ =
      let σ1 := { σ with pblock := some blk, parts := some (blk.id, true), seen := (σ.height, blk) :: σ.seen }
      let m := maj23 cfg.powers (σ1.slots .prevote σ1.height σ1.round)
      if Gen.C03.blockUpdatesValid m.isSome (m == some none) σ1.validRound σ1.round then
        match m with
        | some (some b) =>
          if blk.id == b then { σ1 with validRound := Gen.C03.blockValidRound σ1.round, validB := some blk } else σ1
        | _ => σ1
      else σ1 := by
  unfold storeBlock Gen.C03.blockUpdatesValid Gen.C03.blockValidRound
  simp only []
  rcases hm : maj23 cfg.powers
      (State.slots { σ with pblock := some blk, parts := some (blk.id, true), seen := (σ.height, blk) :: σ.seen }
        VType.prevote σ.height σ.round) with _ | _ | b
  · simp
  · simp
  · by_cases hv : σ.validRound < σ.round <;> simp [hv]

theorem afterBlock_eq_gen (cfg : Config) (h : Nat) (σ : State) :
    afterBlock cfg h σ =
      if Gen.C03.blockEntersPrevote σ.step.toNat (isProposalComplete cfg σ) then
        let σ3 := enterPrevote cfg h σ.round σ
        if (maj23 cfg.powers (σ.slots .prevote σ.height σ.round)).isSome then enterPrecommit cfg h σ3.round σ3 else σ3
      else if Gen.C03.blockTriesFinalize σ.step.toNat then tryFinalizeCommit cfg h σ
      else σ := by
  have e : Gen.C03.blockTriesFinalize σ.step.toNat = (σ.step == .commit) := by
    unfold Gen.C03.blockTriesFinalize
    cases σ.step <;> simp [Step.toNat]
  have hp : Step.propose.toNat = 3 := rfl
  unfold afterBlock
  rw [e, hp]
  rfl

/-! ### `handleTimeout` -/

theorem handleTimeout_eq_gen (cfg : Config) (nb : Option Nat) (h r : Nat) (s : Step) (σ : State) (hr : r + 1 < 2 ^ 32) :
    handleTimeout cfg nb h r s σ =
      if Gen.C03.timeoutIsStale h r s.toNat σ.height σ.round σ.step.toNat then σ
      else
        match Gen.C03.timeoutDispatch s.toNat with
        | 0 => enterNewRound cfg nb h Gen.C03.timeoutNewHeightRound σ
        | 1 => enterPropose cfg nb h Gen.C03.timeoutNewRoundRound σ
        | 2 => enterPrevote cfg h r σ
        | 3 => enterPrecommit cfg h r σ
        | 4 => enterNewRound cfg nb h (Gen.C03.timeoutPrecommitNextRound r) (enterPrecommit cfg h r σ)
        | _ => panic σ := by
  have e1 : Gen.C03.timeoutPrecommitNextRound r = r + 1 := by
    unfold Gen.C03.timeoutPrecommitNextRound U64.wrapN
    simp only [Int.ofNat_eq_natCast]
    omega
  have e2 : Gen.C03.timeoutIsStale h r s.toNat σ.height σ.round σ.step.toNat =
      decide (h ≠ σ.height ∨ r < σ.round ∨ (r = σ.round ∧ s.toNat < σ.step.toNat)) := by
    unfold Gen.C03.timeoutIsStale
    simp only [Bool.decide_or, Bool.decide_and, Bool.or_assoc]
  unfold handleTimeout
  rw [e1, e2]
  simp only [decide_eq_true_eq]
  generalize σ.step.toNat = sc
  cases s <;> simp [Gen.C03.timeoutDispatch, Step.toNat, Gen.C03.timeoutNewHeightRound, Gen.C03.timeoutNewRoundRound] <;> rfl

/-! ### what is signed -/

/-- `signVote` stamps the vote with the *current* height and round (`signAddVote` of the model) -/
theorem signAddVote_eq_gen (cfg : Config) (t : VType) (tgt : Target) (σ : State) :
    signAddVote cfg t tgt σ =
      if isVal cfg then emit (.signVote t (Gen.C03.signVoteHeight σ.height) (Gen.C03.signVoteRound σ.round) tgt) σ
      else σ := rfl

/-- `decideProposal` proposes for the height and round it was called with, with `ValidRound` as the
POL round -/
theorem decideProposal_eq_gen (nb : Option Nat) (h r : Nat) (σ : State) :
    decideProposal nb h r σ =
      match σ.validB with
      | some blk =>
        emit (.signProposal (Gen.C03.proposalHeight h) (Gen.C03.proposalRound r)
          (Gen.C03.proposalPolRound σ.validRound) blk.id) σ
      | none =>
        match nb with
        | some b =>
          emit (.signProposal (Gen.C03.proposalHeight h) (Gen.C03.proposalRound r)
            (Gen.C03.proposalPolRound σ.validRound) b) σ
        | none => σ := rfl

/-! ### `HeightVoteSet.SetRound` -/

/-- `newRound := hvs.round - 1` (rounds start at 1) and the sanity panic is unreachable when the
round does not decrease -/
theorem gen_hvsSetRound (hvsRound round : Nat) (h1 : 1 ≤ hvsRound) (hr : hvsRound < 2 ^ 32) :
    Gen.C03.hvsSetRoundFrom hvsRound = hvsRound - 1 ∧
    (hvsRound - 1 ≤ round → Gen.C03.hvsSetRoundPanics hvsRound (Gen.C03.hvsSetRoundFrom hvsRound) round = false) := by
  have e : Gen.C03.hvsSetRoundFrom hvsRound = hvsRound - 1 := by
    unfold Gen.C03.hvsSetRoundFrom U64.wrapN
    simp only [Int.ofNat_eq_natCast]
    omega
  refine ⟨e, ?_⟩
  intro hle
  rw [e]
  unfold Gen.C03.hvsSetRoundPanics
  have : ¬ round < hvsRound - 1 := by omega
  simp [this]

/-- `setRound` of the model starts adding rounds at the regenerated `hvs.round - 1` -/
theorem setRound_eq_gen (nv round : Nat) (σ : State) (h1 : 1 ≤ σ.hvsRound) (hr : σ.hvsRound < 2 ^ 32) :
    setRound nv round σ =
      { addRounds nv (round + 1 - Gen.C03.hvsSetRoundFrom σ.hvsRound) (Gen.C03.hvsSetRoundFrom σ.hvsRound) σ
        with hvsRound := round } := by
  rw [(gen_hvsSetRound σ.hvsRound round h1 hr).1]
  rfl


/-! ### the unlock site of `enterNewRound` (F36 fix): the scan for a polka seen before a round skip -/

/-- the Go loop `for r := from; r <= round; r++ { if unlocks(r) { …; break } }` as a function:
`k` iterations left, current `r`; `true` = the lock is released -/
def goScan (unlocks : Nat → Bool) (round : Nat) : Nat → Nat → Bool
  | 0, _ => false
  | k+1, r =>
    if Gen.C03.staleScanContinues r round then
      if unlocks r then true else goScan unlocks round k (r + 1)
    else false

theorem goScan_spec (unlocks : Nat → Bool) (round : Nat) : ∀ (k r : Nat),
    goScan unlocks round k r = true ↔ ∃ r', r ≤ r' ∧ r' < r + k ∧ r' ≤ round ∧ unlocks r' = true
  | 0, r => by
    simp only [goScan, Nat.add_zero]
    constructor
    · intro h; cases h
    · rintro ⟨r', h1, h2, -⟩; omega
  | k+1, r => by
    unfold goScan Gen.C03.staleScanContinues
    by_cases hc : r ≤ round
    · simp only [hc, decide_true, if_true]
      by_cases hu : unlocks r = true
      · simp only [hu, if_true, true_iff]
        exact ⟨r, Nat.le_refl _, by omega, hc, hu⟩
      · simp only [hu, if_false, Bool.false_eq_true]
        rw [goScan_spec unlocks round k (r + 1)]
        constructor
        · rintro ⟨r', h1, h2, h3, h4⟩
          exact ⟨r', by omega, by omega, h3, h4⟩
        · rintro ⟨r', h1, h2, h3, h4⟩
          have : r' ≠ r := fun e => hu (e ▸ h4)
          exact ⟨r', by omega, by omega, h3, h4⟩
    · simp only [hc, decide_false, if_false, Bool.false_eq_true, false_iff]
      rintro ⟨r', h1, -, h3, -⟩
      omega

/-- `prevotes.TwoThirdsMajority()` of round `r'` (a missing vote set: `continue`, no majority) and
`cs.LockedBlock.HashesTo(blockID.Hash)` for the locked block `b`, combined by the regenerated test -/
def scanUnlocks (cfg : Config) (σ : State) (b : Nat) (r' : Nat) : Bool :=
  Gen.C03.staleScanUnlocks (maj23 cfg.powers (σ.slots .prevote σ.height r')).isSome
    (match maj23 cfg.powers (σ.slots .prevote σ.height r') with
     | some x => x == some b
     | none => false)

/-- **the scan of the model is the Go loop**: from the regenerated start `cs.LockedRound + 1`, while
the regenerated `r <= round`, releasing on the regenerated `ok && !HashesTo` -/
theorem stalePolka_eq_gen (cfg : Config) (σ : State) (b : Nat) (hw : σ.lockedRound + 1 < 2 ^ 32) :
    stalePolka cfg σ b =
      goScan (scanUnlocks cfg σ b) σ.round (σ.round + 1 - Gen.C03.staleScanFrom σ.lockedRound)
        (Gen.C03.staleScanFrom σ.lockedRound) := by
  have e1 : Gen.C03.staleScanFrom σ.lockedRound = σ.lockedRound + 1 := by
    unfold Gen.C03.staleScanFrom U64.wrapN
    simp only [Int.ofNat_eq_natCast]
    omega
  rw [e1]
  have hu : ∀ r', scanUnlocks cfg σ b r' =
      (match maj23 cfg.powers (σ.slots .prevote σ.height r') with
       | some x => x != some b
       | none => false) := by
    intro r'
    unfold scanUnlocks Gen.C03.staleScanUnlocks
    cases maj23 cfg.powers (σ.slots .prevote σ.height r') with
    | none => rfl
    | some x => simp [bne]
  cases hg : goScan (scanUnlocks cfg σ b) σ.round (σ.round + 1 - (σ.lockedRound + 1)) (σ.lockedRound + 1) with
  | true =>
    obtain ⟨r', h1, h2, h3, h4⟩ := (goScan_spec _ _ _ _).mp hg
    unfold stalePolka
    rw [List.any_eq_true]
    refine ⟨r', List.mem_range.mpr (by omega), ?_⟩
    rw [hu] at h4
    simp only [Bool.and_eq_true, decide_eq_true_eq]
    exact ⟨by omega, h4⟩
  | false =>
    cases hs : stalePolka cfg σ b with
    | false => rfl
    | true =>
      exfalso
      unfold stalePolka at hs
      rw [List.any_eq_true] at hs
      obtain ⟨r', hr', hc⟩ := hs
      rw [List.mem_range] at hr'
      simp only [Bool.and_eq_true, decide_eq_true_eq] at hc
      have : goScan (scanUnlocks cfg σ b) σ.round (σ.round + 1 - (σ.lockedRound + 1)) (σ.lockedRound + 1) = true :=
        (goScan_spec _ _ _ _).mpr ⟨r', by omega, by omega, by omega, by rw [hu]; exact hc.2⟩
      rw [hg] at this
      cases this

/-- the scan runs only while locked, and releasing is `LockedRound = 0`, `LockedBlock = nil` -/
theorem releaseStale_eq_gen (cfg : Config) (σ : State) (hw : σ.lockedRound + 1 < 2 ^ 32) :
    releaseStale cfg σ =
      if Gen.C03.staleScanGuard σ.locked.isSome then
        match σ.locked with
        | some lb =>
          if goScan (scanUnlocks cfg σ lb.id) σ.round (σ.round + 1 - Gen.C03.staleScanFrom σ.lockedRound)
              (Gen.C03.staleScanFrom σ.lockedRound) then
            { σ with lockedRound := Gen.C03.staleUnlockRound, locked := none }
          else σ
        | none => σ
      else σ := by
  unfold releaseStale Gen.C03.staleScanGuard
  cases hl : σ.locked with
  | none => simp
  | some lb =>
    simp only [Option.isSome_some, if_true]
    rw [stalePolka_eq_gen cfg σ lb.id hw]
    rfl

end KV.Cs.GenBridge
