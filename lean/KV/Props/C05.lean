import KV.Proofs.RecoveryWal
import KV.Proofs.RecoveryDisk
import KV.Proofs.RecoveryAppend
import KV.Model.Cs
/-!
# C05 — crash recovery: a restart at any point is consistent and never double-signs (PARTIAL)

Two models (`KV/Model/Recovery.lean`).

**Model 1 (write-ahead discipline)**, for EVERY deterministic node `step`, EVERY schedule and EVERY
crash image of the WAL that keeps the synced part:
`replay_state`, `published_are_logged`, `published_rederived`, `published_votes_stable`,
`restart_signatures`, `decided_height_stable`, `replay_starts_after_marker`.
After a WAL rotation and a restart on an empty head (`#ENDHEIGHT 0` written by `OnStart`):
`search_finds_marker_across_rotation`, `catchup_across_rotation` (every split into files), and
`search_early_exit_ge0_counterexample` (the early exit must require a POSITIVE last marker).
Torn tail, run on, second crash (byte-level WAL model of C15): `append_after_repair_readable`
(after OnStart's repair everything the next life appends is read back after the surviving records)
and `append_after_torn_tail_unreadable_counterexample` (without the truncation it is not).
What is NOT derivable — and false of the code — is determinism of the *proposal*: `createBlock`
reads the transaction pool and is not logged: `proposal_resign_counterexample` (defect F7).

**Model 2 (durable writes of a commit and what start-up makes of every prefix)**:
`crash_prefix_phase` (every crash prefix of every run is "n complete heights + j events"),
`recovered_outcome` (the exact outcome of start-up for every (mode, n, j)),
`recovered_prefix_partial`, `resume_partial`, `flush_mode_lossless_partial`, and the holes:
`f14_counterexample`, `f19_counterexample`, `mem_rewind_counterexample`, their general forms
`f14_class`, `f19_class`, `mem_rewind_class`, and `c05_statement_false`.

Assumptions (not carried): the OS honours fsync, a database batch is atomic, the WAL tail is
cut at a record boundary or repaired to one (C15: `truncate_prefix_group`, `repair_longest_prefix`).
-/
namespace KV.Props.C05
open KV.Recovery

variable {σ ι : Type}

/-! ## Model 1 -/

/-- **replay_state.** For every schedule and every prefix of the WAL (in particular every crash
image), the state rebuilt by the replay is exactly the state the node had at the moment its log was
that prefix: the same fold of the same function over the same records. -/
theorem replay_state (step : σ → ι → σ × List ι) (s0 : σ) (acts : List (Act ι)) (k : Nat)
    (hk : k ≤ ((Node.start s0).run step acts).wal.length) :
    ∃ j, j ≤ acts.length ∧
      ((Node.start s0).run step (acts.take j)).wal = ((Node.start s0).run step acts).wal.take k ∧
      ((Node.start s0).run step (acts.take j)).s =
        (replay step s0 (((Node.start s0).run step acts).wal.take k)).1 := by
  obtain ⟨j, hj, he⟩ := wal_prefix_reached step acts (Node.start s0) k (by simp [Node.start]) hk
  refine ⟨j, hj, he, ?_⟩
  have I := inv_run (acts.take j) (inv_start step s0)
  rw [I.state, he]

/-- the state of the running node is always the fold over its own log -/
theorem state_is_fold (step : σ → ι → σ × List ι) (s0 : σ) (acts : List (Act ι)) :
    ((Node.start s0).run step acts).s = (replay step s0 ((Node.start s0).run step acts).wal).1 :=
  (inv_run acts (inv_start step s0)).state

/-- **published_are_logged.** Every own message that was published (handed to `handleMsg`) is a
record of EVERY crash image: it was synced before it was processed. In fact the published messages
are exactly the own records of the image. -/
theorem published_are_logged (step : σ → ι → σ × List ι) (s0 : σ) (acts : List (Act ι))
    (p : List (Rec ι)) (hp : CrashImage ((Node.start s0).run step acts) p) :
    ownRecs p = ((Node.start s0).run step acts).outbox := by
  have I := inv_run acts (inv_start step s0)
  obtain ⟨k, hk, rfl⟩ := hp
  generalize (Node.start s0).run step acts = n at I hk ⊢
  -- take synced ⊑ take k ⊑ wal, and the own records of the two ends coincide
  have h1 : n.wal.take k = n.wal.take n.synced ++ (n.wal.take k).drop n.synced := by
    have : n.wal.take n.synced = (n.wal.take k).take n.synced := by
      rw [List.take_take, Nat.min_eq_left hk]
    rw [this, List.take_append_drop]
  have h2 : n.wal = n.wal.take k ++ n.wal.drop k := (List.take_append_drop k n.wal).symm
  have e1 : ownRecs (n.wal.take k) = ownRecs n.wal ++ ownRecs ((n.wal.take k).drop n.synced) := by
    conv => lhs; rw [h1]
    rw [ownRecs_append, I.own_synced]
  have e2 : ownRecs n.wal = ownRecs (n.wal.take k) ++ ownRecs (n.wal.drop k) := by
    rw [← ownRecs_append, List.take_append_drop]
  have hl : (ownRecs ((n.wal.take k).drop n.synced)).length = 0 := by
    have := congrArg List.length e1
    have := congrArg List.length e2
    simp only [List.length_append] at *
    omega
  rw [I.outbox, e1, List.eq_nil_of_length_eq_zero hl, List.append_nil]

/-- **published_rederived.** The replay of any crash image signs again, identically and in the same
order, every message that had been published: the published messages are a prefix of what the
replay produces (same state, same input, same function). -/
theorem published_rederived (step : σ → ι → σ × List ι) (s0 : σ) (acts : List (Act ι))
    (p : List (Rec ι)) (hp : CrashImage ((Node.start s0).run step acts) p) :
    ∃ rest, (replay step s0 p).2 = ((Node.start s0).run step acts).outbox ++ rest := by
  have hpub := published_are_logged step s0 acts p hp
  obtain ⟨k, _, rfl⟩ := hp
  by_cases hk : k ≤ ((Node.start s0).run step acts).wal.length
  · obtain ⟨j, _, he⟩ := wal_prefix_reached step acts (Node.start s0) k (by simp [Node.start]) hk
    have I := inv_run (acts.take j) (inv_start step s0)
    refine ⟨((Node.start s0).run step (acts.take j)).queue, ?_⟩
    rw [← hpub, ← he, I.fifo]
  · have I := inv_run acts (inv_start step s0)
    refine ⟨((Node.start s0).run step acts).queue, ?_⟩
    rw [List.take_of_length_le (by omega)] at hpub ⊢
    rw [← hpub, I.fifo]

/-- what the restarted node holds: its state is the fold over its log, its log extends the crash
image, and everything it has signed (queued or published) is an output of that fold -/
structure Restarted (step : σ → ι → σ × List ι) (s0 : σ) (p : List (Rec ι)) (n : Node σ ι) : Prop where
  state : n.s = (replay step s0 n.wal).1
  ext : ∃ t, n.wal = p ++ t
  signed : ∀ x, x ∈ n.queue ++ n.outbox → x ∈ (replay step s0 n.wal).2

theorem restarted_act {step : σ → ι → σ × List ι} {s0 : σ} {p : List (Rec ι)} {n : Node σ ι}
    (R : Restarted step s0 p n) (a : Act ι) : Restarted step s0 p (n.act step a) := by
  cases a with
  | ext i =>
    refine ⟨by simp [Node.act, replay_append, Rec.input, R.state], ?_, ?_⟩
    · obtain ⟨t, ht⟩ := R.ext; exact ⟨t ++ [Rec.ext i], by simp [Node.act, ht]⟩
    · intro x hx
      simp only [Node.act, replay_append, Rec.input, ← R.state, List.mem_append] at hx ⊢
      rcases hx with (hx | hx) | hx
      · exact Or.inl (R.signed x (List.mem_append.2 (Or.inl hx)))
      · exact Or.inr hx
      · exact Or.inl (R.signed x (List.mem_append.2 (Or.inr hx)))
  | own =>
    cases hq : n.queue with
    | nil => simpa [Node.act, hq] using R
    | cons m q =>
      refine ⟨by simp [Node.act, hq, replay_append, Rec.input, R.state], ?_, ?_⟩
      · obtain ⟨t, ht⟩ := R.ext; exact ⟨t ++ [Rec.own m], by simp [Node.act, hq, ht]⟩
      · intro x hx
        have hs := R.signed
        rw [hq] at hs
        simp only [Node.act, hq, replay_append, Rec.input, ← R.state, List.mem_append, List.mem_singleton] at hx ⊢
        rcases hx with (hx | hx) | (hx | hx)
        · exact Or.inl (hs x (by simp [hx]))
        · exact Or.inr hx
        · exact Or.inl (hs x (by simp [hx]))
        · exact Or.inl (hs x (by simp [hx]))

/-- **restart_signatures.** Whatever the restarted node does after the replay, everything it ever
signs is an output of the fold of `step` over its log, and that log extends the crash image. -/
theorem restart_signatures (step : σ → ι → σ × List ι) (s0 : σ) (p : List (Rec ι)) :
    ∀ (acts : List (Act ι)) {n : Node σ ι}, Restarted step s0 p n → Restarted step s0 p (n.run step acts)
  | [], _, R => R
  | a :: rest, _, R => by
    simp only [Node.run, List.foldl_cons]
    exact restart_signatures step s0 p rest (restarted_act R a)

theorem restarted_restart (step : σ → ι → σ × List ι) (s0 : σ) (p : List (Rec ι)) :
    Restarted step s0 p (Node.restart step s0 p) :=
  ⟨rfl, ⟨[], by simp [Node.restart]⟩, by intro x hx; simpa [Node.restart] using hx⟩

/-- the node signs at most one message per slot along any log (for the real node: C03 `sign_once`
for (height, round, vote type); FALSE for proposals whose block is not a function of the log, F7) -/
def SignOnce (step : σ → ι → σ × List ι) (s0 : σ) {κ : Type} (slot : ι → Option κ) : Prop :=
  ∀ (w : List (Rec ι)) (a b : ι), a ∈ (replay step s0 w).2 → b ∈ (replay step s0 w).2 →
    slot a = slot b → slot a ≠ none → a = b

/-- **published_votes_stable.** If the node signs at most once per slot along any log, then no
message the restarted node ever signs (during the replay or at any time later, under any schedule)
conflicts with a message published before the crash: same slot ⇒ same message. For EVERY schedule
before the crash, EVERY crash image that keeps the synced part, EVERY schedule after the restart. -/
theorem published_votes_stable (step : σ → ι → σ × List ι) (s0 : σ) {κ : Type} (slot : ι → Option κ)
    (hso : SignOnce step s0 slot) (acts : List (Act ι)) (p : List (Rec ι))
    (hp : CrashImage ((Node.start s0).run step acts) p) (acts' : List (Act ι)) (m m' : ι)
    (hm : m ∈ ((Node.start s0).run step acts).outbox)
    (hm' : m' ∈ ((Node.restart step s0 p).run step acts').queue ++ ((Node.restart step s0 p).run step acts').outbox)
    (hslot : slot m = slot m') (hsome : slot m ≠ none) : m' = m := by
  have R := restart_signatures step s0 p acts' (restarted_restart step s0 p)
  obtain ⟨t, ht⟩ := R.ext
  obtain ⟨rest, hr⟩ := published_rederived step s0 acts p hp
  obtain ⟨more, hmore⟩ := replay_out_append step s0 t p
  have h1 : m ∈ (replay step s0 ((Node.restart step s0 p).run step acts').wal).2 := by
    rw [ht, hmore, hr]; simp [hm]
  have h2 := R.signed m' hm'
  exact (hso _ m m' h1 h2 hslot hsome).symm

/-- **decided_height_stable.** A height whose `#ENDHEIGHT` is in the WAL is never re-run by the
replay: `catchupReplay` refuses it. -/
theorem decided_height_stable {ρ : Type} (w : MWal ρ) (h : Nat) (hend : hasEnd w h = true) :
    catchup w h = Catchup.refused := by
  simp [catchup, hend]

/-- and the replay of the next height starts right after that marker: nothing logged before
`#ENDHEIGHT h` (the records of heights ≤ h) is fed to the state machine again. -/
theorem replay_starts_after_marker {ρ : Type} (pre post : MWal ρ) (h : Nat)
    (hpre : hasEnd pre h = false) (hnext : hasEnd (pre ++ Sum.inr h :: post) (h+1) = false) :
    catchup (pre ++ Sum.inr h :: post) (h+1) = Catchup.replay post := by
  simp [catchup, hnext, afterEnd_append h post pre hpre]

/-! ### the WAL group after a rotation -/

/-- **search_finds_marker_across_rotation.** The WAL group was rotated and the restart found the
head empty or absent, so `BaseWAL.OnStart` wrote `#ENDHEIGHT 0` into it. For EVERY split of the log
into files (`files` arbitrary, any number of rotations, any height split across files) and every
height `h ≥ 1`: `SearchForEndHeight(h)` - newest file first, early exit only when the last marker
seen is POSITIVE and below `h` - succeeds iff `#ENDHEIGHT h` was written. (Without the fresh head,
with increasing markers: C15 `search_iff`.) -/
theorem search_finds_marker_across_rotation {ρ : Type} (files : List (MWal ρ)) (h : Nat) (h1 : 1 ≤ h) :
    (gsearch exitGt0 (files ++ [[Sum.inr 0]]) h).isSome = true ↔ hasEnd files.flatten h = true := by
  have key := gsearchLoop_fresh_head files h (files.length + 1) (-1) (Nat.le_refl _)
  have hlen : (files ++ [[Sum.inr (0 : Nat)]] : List (MWal ρ)).length = files.length + 1 := by simp
  unfold gsearch
  rw [hlen, key]
  have hfl : (files ++ [[Sum.inr (0 : Nat)]] : List (MWal ρ)).flatten = files.flatten ++ [Sum.inr 0] := by simp
  have h0 : hasEnd ([Sum.inr 0] : MWal ρ) h = false := by
    simp [hasEnd]; omega
  constructor
  · rintro ⟨j, _, e⟩
    have := hasEnd_suffix _ h j e
    rw [hfl, hasEnd_append, h0, Bool.or_false] at this
    exact this
  · intro e
    refine ⟨0, by omega, ?_⟩
    rw [List.drop_zero, hfl, hasEnd_append, e, Bool.true_or]

/-- `catchupReplay` on a group of files -/
def gcatchup {ρ : Type} (exit : Int → Int → Bool) (files : List (MWal ρ)) (csHeight : Nat) : Catchup ρ :=
  if (gsearch exit files csHeight).isSome then .refused
  else match gsearch exit files (csHeight - 1) with
    | none => .nomarker
    | some recs => .replay recs

/-- **catchup_across_rotation.** After a rotation and a restart on an empty head, the catch-up of a
height `≥ 2` whose predecessor was finalised (and which is not itself finalised) is neither refused
nor skipped: the records after `#ENDHEIGHT (csHeight-1)` are replayed, wherever the files were cut. -/
theorem catchup_across_rotation {ρ : Type} (files : List (MWal ρ)) (cs : Nat) (h2 : 2 ≤ cs)
    (hprev : hasEnd files.flatten (cs - 1) = true) (hcur : hasEnd files.flatten cs = false) :
    ∃ recs, gcatchup exitGt0 (files ++ [[Sum.inr 0]]) cs = Catchup.replay recs := by
  have hn : (gsearch exitGt0 (files ++ [[Sum.inr 0]]) cs).isSome = false := by
    have := search_finds_marker_across_rotation files cs (by omega)
    rw [hcur] at this
    cases hx : (gsearch exitGt0 (files ++ [[Sum.inr 0]]) cs).isSome
    · rfl
    · exact absurd (this.1 hx) (by simp)
  have hp := (search_finds_marker_across_rotation files (cs - 1) (by omega)).2 hprev
  unfold gcatchup
  rw [hn]
  cases hg : gsearch exitGt0 (files ++ [[Sum.inr 0]]) (cs - 1) with
  | none => rw [hg] at hp; simp at hp
  | some recs => exact ⟨recs, by simp⟩

/-- **search_early_exit_ge0_counterexample.** With the early exit `lastHeightFound >= 0` (instead
of `> 0`) the search gives up on the fresh head: `wal.000` holds `#ENDHEIGHT 0`, a record of
height 1, `#ENDHEIGHT 1` and the node's own vote of height 2; the head holds only `#ENDHEIGHT 0`.
The code as found returns the reader after `#ENDHEIGHT 1` (the vote is replayed); the changed test
reports "not found": the replay is skipped and the node runs height 2 again without its vote. -/
theorem search_early_exit_ge0_counterexample :
    gsearch exitGt0 ([[Sum.inr 0, Sum.inl (), Sum.inr 1, Sum.inl ()]] ++ [[Sum.inr 0]]) 1
        = some [Sum.inl (), Sum.inr 0] ∧
    gsearch exitGe0 ([[Sum.inr 0, Sum.inl (), Sum.inr 1, Sum.inl ()]] ++ [[Sum.inr 0]]) 1
        = (none : Option (MWal Unit)) := by
  decide

/-! ### torn tail → run on → second crash -/

/-- **append_after_repair_readable.** Whatever bytes the first crash left in the head file, after
`repairWalFile` (which `OnStart` runs when the catch-up meets the damage) the records the next life
appends are decoded, by every reader, right after the records that survived - so a second crash
cannot lose an own vote that was synced after the first restart. -/
theorem append_after_repair_readable (c : KV.Wal.Cfg) (k : KV.Wal.RKind) (src : KV.Bytes)
    (news : List KV.Bytes) (hmax : c.max < 4294967296)
    (hcanon : ∀ p, c.parse p ≠ none → c.reser p = p) (hempty : c.parse [] = none)
    (hnew : ∀ d ∈ news, KV.Wal.Valid c d) :
    KV.Wal.decodeAll c k ((KV.Wal.repair c src).1 ++ KV.Wal.frames c news) =
      ((KV.Wal.decodeAll c .file src).1 ++ news, .eof) :=
  KV.Wal.append_after_repair_readable c k src news hmax hcanon hempty hnew

/-- **append_after_torn_tail_unreadable_counterexample.** If the restart does NOT cut the torn
record off (a decoder that reports it as a clean end of log), a record appended behind the fragment
is never returned by a later read, and the repair of a later restart cuts it off. -/
theorem append_after_torn_tail_unreadable_counterexample :
    KV.Wal.decodeAll KV.Wal.cfgT .group
        (KV.Wal.frames KV.Wal.cfgT [[1, 2, 3]] ++
          ((KV.Wal.frame KV.Wal.cfgT [1, 2, 3]).take 9 ++ KV.Wal.frames KV.Wal.cfgT [[9]]))
      = ([[1, 2, 3]], .corrupt) ∧
    (KV.Wal.repair KV.Wal.cfgT
        (KV.Wal.frames KV.Wal.cfgT [[1, 2, 3]] ++
          ((KV.Wal.frame KV.Wal.cfgT [1, 2, 3]).take 9 ++ KV.Wal.frames KV.Wal.cfgT [[9]]))).1
      = KV.Wal.frames KV.Wal.cfgT [[1, 2, 3]] :=
  KV.Wal.append_after_torn_tail_unreadable_counterexample

/-- **append_after_short_fragment_unreadable_old_rule (F38).** A tail torn after 1-3 bytes of a
record (here 2: inside the checksum field). With the decoder as it was, the group reader's
`(2, io.EOF)` was taken for a clean end of log: no repair, the next life's record lands behind the
stray bytes, is never read back (old or new rule) and is cut off by the repair of a later restart —
a synced own vote is lost. With the decoder as it is, the fragment is `corrupt`, the repair cuts it
off and the appended record is read back. -/
theorem append_after_short_fragment_unreadable_old_rule :
    KV.Wal.decodeAllOld KV.Wal.cfgT .group
        (KV.Wal.frames KV.Wal.cfgT [[1, 2, 3]] ++ (KV.Wal.frame KV.Wal.cfgT [1, 2, 3]).take 2)
      = ([[1, 2, 3]], .eof) ∧
    KV.Wal.decodeAllOld KV.Wal.cfgT .group
        (KV.Wal.frames KV.Wal.cfgT [[1, 2, 3]] ++
          ((KV.Wal.frame KV.Wal.cfgT [1, 2, 3]).take 2 ++ KV.Wal.frames KV.Wal.cfgT [[9]]))
      = ([[1, 2, 3]], .corrupt) ∧
    KV.Wal.decodeAll KV.Wal.cfgT .group
        (KV.Wal.frames KV.Wal.cfgT [[1, 2, 3]] ++
          ((KV.Wal.frame KV.Wal.cfgT [1, 2, 3]).take 2 ++ KV.Wal.frames KV.Wal.cfgT [[9]]))
      = ([[1, 2, 3]], .corrupt) ∧
    (KV.Wal.repair KV.Wal.cfgT
        (KV.Wal.frames KV.Wal.cfgT [[1, 2, 3]] ++
          ((KV.Wal.frame KV.Wal.cfgT [1, 2, 3]).take 2 ++ KV.Wal.frames KV.Wal.cfgT [[9]]))).1
      = KV.Wal.frames KV.Wal.cfgT [[1, 2, 3]] ∧
    KV.Wal.decodeAll KV.Wal.cfgT .group
        (KV.Wal.frames KV.Wal.cfgT [[1, 2, 3]] ++ (KV.Wal.frame KV.Wal.cfgT [1, 2, 3]).take 2)
      = ([[1, 2, 3]], .corrupt) ∧
    KV.Wal.decodeAll KV.Wal.cfgT .group
        ((KV.Wal.repair KV.Wal.cfgT
          (KV.Wal.frames KV.Wal.cfgT [[1, 2, 3]] ++ (KV.Wal.frame KV.Wal.cfgT [1, 2, 3]).take 2)).1 ++
          KV.Wal.frames KV.Wal.cfgT [[9]])
      = ([[1, 2, 3], [9]], .eof) :=
  KV.Wal.append_after_short_fragment_unreadable_old_rule

/-- **torn_tail_never_clean_eof (F38).** What the recovery relies on: through the group reader a log
cut anywhere inside a record (1 byte or more of it left) ends in `corrupt`, never in a clean `eof` —
so `OnStart` always repairs before the next life appends. -/
theorem torn_tail_never_clean_eof (c : KV.Wal.Cfg) (ds : List KV.Bytes) (t : Nat)
    (hmax : c.max < 4294967296) (hv : ∀ d ∈ ds, KV.Wal.Valid c d)
    (ht : t < (KV.Wal.frames c ds).length)
    (hcut : ∀ j, t ≠ (KV.Wal.frames c (ds.take j)).length) :
    ∃ j, KV.Wal.decodeAll c .group ((KV.Wal.frames c ds).take t) = (ds.take j, .corrupt) :=
  let ⟨j, h, _⟩ := KV.Wal.torn_tail_never_clean_eof c ds t hmax hv ht hcut
  ⟨j, h⟩

/-! ### F7: the proposal is not a function of the log -/

open KV.Cs in
/-- a single validator that proposes every round -/
def cfgP : KV.Cs.Config :=
  { powers := [10], me := 0, proposer := fun _ _ => 0, waitTxs := false, emptyInterval := false }

open KV.Cs in
/-- **proposal_resign_counterexample (F7).** The WAL record that makes the node propose is the
timeout `(1, 1, NewHeight)`; the block comes from `createProposalBlock` (transaction pool, not
logged). Before the crash the pool yields block 7 and the node signs and publishes a proposal for
it; the replay of the SAME record with another pool content (8 - e.g. empty after the restart)
signs a second, different proposal for the same height and round. -/
theorem proposal_resign_counterexample :
    (run cfgP (init cfgP 1) [(some 7, .timeout 1 1 .newHeight)]).log.filter
        (fun a => match a with | .signProposal .. => true | _ => false) = [.signProposal 1 1 0 7] ∧
    (run cfgP (init cfgP 1) [(some 8, .timeout 1 1 .newHeight)]).log.filter
        (fun a => match a with | .signProposal .. => true | _ => false) = [.signProposal 1 1 0 8] := by
  decide

/-! ## Model 2 -/

/-- case analysis over the phase conditions of an outcome table -/
macro "phase_cases" : tactic => `(tactic| ((repeat' split) <;> (try simp_all) <;> (try omega)))

/-- **recovered_outcome.** What start-up finds after `n` completely applied heights and `j` durable
events of the next commit - for every mode, every `n`, every `j`. -/
theorem recovered_outcome {m : Mode} {n : Nat} {d : Disk} (hc : Complete m n d) (j : Nat) :
    (phaseDisk m n j d).recover =
      match m with
      | .flush => flushOutcome n j
      | .mem => memOutcome n j := by
  cases m with
  | flush => exact flush_phase hc j
  | mem =>
    by_cases hn : n = 0
    · subst hn; exact mem_phase_zero hc j
    · exact mem_phase_pos hc (by omega) j

/-- every crash prefix of every run has that form -/
theorem crash_prefix_phase (m : Mode) (N k : Nat) : ∃ n j d0, Complete m n d0 ∧
    crashDisk m N k = phaseDisk m n j d0 :=
  KV.Recovery.crash_prefix_phase m N k

/-- the crash-point classes. Events of a commit: 1 precommit logged, 2 blockBatch, 3 walEnd,
4 appBatch, (flush: 5 trieFlush,) then headBatch, cstateBatch. -/
inductive Class where
  | clean | f14 | f19 | rewound
  deriving DecidableEq, Repr

def classOf : Mode → Nat → Nat → Class
  | .flush, _, j => if j = 6 then .f19 else if 3 ≤ j ∧ j ≤ 5 then .f14 else .clean
  | .mem, n, j => if n = 0 ∧ j ≤ 2 then .clean else if n = 0 ∧ j ≤ 4 then .f14 else .rewound

theorem classOf_flush_clean (n j : Nat) : classOf .flush n j = .clean ↔ (j ≤ 2 ∨ 7 ≤ j) := by
  simp only [classOf]; (repeat' split) <;> simp_all <;> omega
theorem classOf_flush_f14 (n j : Nat) : classOf .flush n j = .f14 ↔ (3 ≤ j ∧ j ≤ 5) := by
  simp only [classOf]; (repeat' split) <;> simp_all <;> omega
theorem classOf_flush_f19 (n j : Nat) : classOf .flush n j = .f19 ↔ j = 6 := by
  simp only [classOf]; (repeat' split) <;> simp_all
theorem classOf_mem_clean (n j : Nat) : classOf .mem n j = .clean ↔ (n = 0 ∧ j ≤ 2) := by
  simp only [classOf]; (repeat' split) <;> simp_all
theorem classOf_mem_f14 (n j : Nat) : classOf .mem n j = .f14 ↔ (n = 0 ∧ 3 ≤ j ∧ j ≤ 4) := by
  simp only [classOf]; (repeat' split) <;> simp_all <;> omega
theorem classOf_mem_rewound (n j : Nat) : classOf .mem n j = .rewound ↔ ¬ (n = 0 ∧ j ≤ 4) := by
  simp only [classOf]; (repeat' split) <;> simp_all <;> omega

/-- blocks committed (saved) at the crash point -/
def committed (n j : Nat) : Nat := if 2 ≤ j then n + 1 else n

/-- **recovered_prefix_partial.** At every crash point outside the F19 class, block store, chain
head and consensus state agree on ONE height, which is at most the committed height, and every block
up to it is on disk: one chain prefix that is a prefix of the committed chain. -/
theorem recovered_prefix_partial {m : Mode} {n : Nat} {d : Disk} (hc : Complete m n d) (j : Nat)
    (h19 : classOf m n j ≠ .f19) :
    let o := (phaseDisk m n j d).recover
    o.store = o.head ∧ o.state = o.head ∧ o.head ≤ committed n j ∧ o.head ≤ n + 1 := by
  rw [recovered_outcome hc j]
  cases m with
  | flush =>
    rw [Ne, classOf_flush_f19] at h19
    simp only [flushOutcome, committed]
    phase_cases
  | mem =>
    simp only [memOutcome, committed]
    phase_cases

/-- **resume_partial.** At every crash point of the clean class the node resumes at head + 1, the
replay is accepted, and it re-commits the height when its own precommit had been logged. -/
theorem resume_partial {m : Mode} {n : Nat} {d : Disk} (hc : Complete m n d) (j : Nat)
    (hclean : classOf m n j = .clean) :
    let o := (phaseDisk m n j d).recover
    o.replay = .ok ∧ o.state = o.head ∧ o.after = (if j = 0 ∨ 7 ≤ j then o.head else n + 1) := by
  rw [recovered_outcome hc j]
  cases m with
  | flush =>
    rw [classOf_flush_clean] at hclean
    simp only [flushOutcome]
    phase_cases
  | mem =>
    rw [classOf_mem_clean] at hclean
    simp only [memOutcome]
    phase_cases

/-- **flush_mode_lossless_partial.** With a state flush per block the recovered head is the
committed height or one below it (no committed block is dropped), and outside the F14/F19 classes
the catch-up brings the store back to the committed height. -/
theorem flush_mode_lossless_partial {n : Nat} {d : Disk} (hc : Complete .flush n d) (j : Nat) :
    let o := (phaseDisk .flush n j d).recover
    committed n j ≤ o.head + 1 ∧ (classOf .flush n j = .clean → committed n j ≤ o.after) := by
  rw [recovered_outcome hc j]
  simp only [flushOutcome, committed, classOf_flush_clean]
  phase_cases

/-- **f14_class.** Crash after `#ENDHEIGHT (n+1)` and before the head write: start-up is at height
`n+1` (head = state = n) although block `n+1` is saved and its end marker logged, and the replay is
refused: the validator takes part in height `n+1` again without its earlier votes. -/
theorem f14_class {m : Mode} {n : Nat} {d : Disk} (hc : Complete m n d) (j : Nat)
    (h : classOf m n j = .f14) :
    let o := (phaseDisk m n j d).recover
    o.replay = .refused ∧ o.head = n ∧ o.state = n ∧ committed n j = n + 1 := by
  rw [recovered_outcome hc j]
  cases m with
  | flush =>
    rw [classOf_flush_f14] at h
    simp only [flushOutcome, committed]
    phase_cases
  | mem =>
    rw [classOf_mem_f14] at h
    simp only [memOutcome, committed]
    phase_cases

/-- **f19_class.** Crash between the head write and the consensus-state write (flush mode): the
head is `n+1`, no state record exists for it, the genesis state is substituted. -/
theorem f19_class {n : Nat} {d : Disk} (hc : Complete .flush n d) :
    let o := (phaseDisk .flush n 6 d).recover
    o.head = n + 1 ∧ o.state = 0 ∧ o.replay = .refused := by
  rw [recovered_outcome hc 6]; simp [flushOutcome]

/-- **mem_rewind_class.** Keep-recent-state-in-memory mode: after any complete height the state is
not on disk, start-up moves the head back to genesis while the WAL holds the end markers of the
dropped heights; the replay is refused and consensus restarts at height 1. -/
theorem mem_rewind_class {n : Nat} {d : Disk} (hc : Complete .mem n d) (j : Nat)
    (h : classOf .mem n j = .rewound) :
    (phaseDisk .mem n j d).recover = ⟨0, 0, 0, .refused, 0⟩ := by
  rw [recovered_outcome hc j]
  rw [classOf_mem_rewound] at h
  simp only [memOutcome]
  phase_cases

/-- F14 on a concrete run: 2 heights in flush mode, crash after `#ENDHEIGHT 2` (9 events) -/
theorem f14_counterexample :
    (crashDisk .flush 2 10).recover = ⟨1, 1, 1, .refused, 1⟩ := by decide

/-- F19 on a concrete run: 2 heights in flush mode, crash after `headBatch 2` (13 events) -/
theorem f19_counterexample :
    (crashDisk .flush 2 13).recover = ⟨2, 2, 0, .refused, 2⟩ := by decide

/-- the rewind on a concrete run: 2 complete heights in memory mode -/
theorem mem_rewind_counterexample :
    (crashDisk .mem 2 12).recover = ⟨0, 0, 0, .refused, 0⟩ := by decide

/-- The property at full strength, in Model 2's terms: at EVERY crash point of EVERY run the stores
agree on one prefix of the committed chain and the node resumes (replay accepted) at head + 1, and
in flush mode no committed block is lost. **False of the code as found** (`c05_statement_false`):
F14, F19, and the memory-mode rewind. -/
def C05Statement : Prop :=
  ∀ (m : Mode) (N k : Nat),
    let o := (crashDisk m N k).recover
    o.store = o.head ∧ o.state = o.head ∧ o.replay = .ok

theorem c05_statement_false : ¬ C05Statement := by
  intro h
  have := (h .flush 2 10).2.2
  revert this
  decide

/-! ### non-vacuity -/

/-- the crash classes are all inhabited, the clean one at most crash points -/
example : classOf .flush 3 0 = .clean ∧ classOf .flush 3 2 = .clean ∧ classOf .flush 3 7 = .clean ∧
    classOf .flush 3 4 = .f14 ∧ classOf .flush 3 6 = .f19 ∧ classOf .mem 0 1 = .clean ∧
    classOf .mem 1 0 = .rewound := by decide

/-- a clean crash point of a concrete run: crash after `blockBatch 2`, the replay re-commits -/
example : (crashDisk .flush 2 9).recover = ⟨1, 1, 1, .ok, 2⟩ := by decide

/-- `SignOnce` is satisfiable: a node that signs its input once and remembers it -/
example : SignOnce (fun (s : List Nat) (i : Nat) => if i ∈ s then (s, []) else (i :: s, [i])) []
    (fun i => some i) := by
  intro w a b _ _ h _
  simpa using h

/-- a concrete schedule of Model 1: one outside input, the node signs, logs and publishes it; the
crash image that keeps only the synced part still holds the published message -/
example :
    let step := fun (s : Nat) (i : Nat) => (s + i, if i = 1 then [10] else [])
    let n := (Node.start 0).run step [Act.ext 1, Act.own, Act.ext 5]
    n.outbox = [10] ∧ n.synced = 2 ∧ n.wal.length = 3 ∧ ownRecs (n.wal.take n.synced) = [10] := by
  decide

end KV.Props.C05
