import KV.Proofs.CStoreLoad
import KV.Proofs.CStorePrune
/-!
# C14 — consensus state survives a save/load round trip (PARTIAL: findings F4 and F5)

Model: `KV/Model/CStore.lean` (the code of `kai/state/cstate/store.go` as found).

The property as stated (`C14Statement` below) is **false of the code as found**; its two conjuncts
are refuted by `load_save_counterexample` (F4) and `prune_counterexample` (F5), see
`c14_statement_false`.  What holds, for every history of any length and any validator sets:

* `load_save_partial`  — after saving a linked history, the state loaded at the head equals the
  saved one in **every field except** the priorities/proposer of `Validators` and
  `LastValidators`, whose membership (addresses, powers, order) is right;
* `load_save_exact`    — … and it is exactly the saved state, priorities and proposer included,
  when the head's three membership keys are pairwise distinct (with exact links);
* `entitled_set`, `entitled_set_preserved` — `LoadValidators h` has the membership and powers of
  the set entitled to sign `h` (the `Validators` of the preceding state), and later saves keep that;
* `prune_safe_partial`, `prune_keeps_protected`, `prune_genesis_and_to`, `prune_safe_proviso`,
  `prune_states` — what `PruneState` keeps, and the exact proviso under which a kept state loads
  unchanged.
-/
namespace KV.Props.C14
open KV KV.CStore

/-! ## histories -/

def chained (R : CState → CState → Bool) : CState → List CState → Bool
  | _, [] => true
  | s, s' :: r => R s s' && chained R s' r

/-- a history as the node produces it: a genesis state at height 0 (`LastValidators` nil), then
states linked by `R` (`chain`: memberships; `xchain`: exact copies, as `updateState` makes them),
all well-formed.  Heights after genesis are non-zero (`R` says so) but otherwise arbitrary. -/
def validHist (R : CState → CState → Bool) : List CState → Bool
  | [] => false
  | s0 :: r => (s0.height == 0) && s0.wf && r.all CState.wf && chained R s0 r

theorem chained_of_xchained : ∀ (l : List CState) (s : CState),
    chained xchain s l = true → chained chain s l = true
  | [], _, _ => rfl
  | s' :: r, s, h => by
    simp only [chained, Bool.and_eq_true] at h ⊢
    exact ⟨chain_of_xchain h.1, chained_of_xchained r s' h.2⟩

theorem getLastD_consD {α : Type} (a d : α) (l : List α) : (a :: l).getLastD d = l.getLastD a := by
  cases l <;> rfl

/-! ## the invariant carried along a history -/

structure Good (db : DB) (s : CState) : Prop where
  inv : Inv db
  head : HeadInv db s
  loaded : LoadedPartial db s

structure XGood (db : DB) (s : CState) : Prop where
  inv : Inv db
  head : HeadInv db s
  exact : ExactInv db s
  loadedX : keysDistinct s → loadAt db s.height = .ok s

theorem good_genesis {db : DB} {s : CState} (hI : Inv db) (hw : s.wf = true) (hz : s.height = 0) :
    ∃ db', commit db s = some db' ∧ Good db' s ∧ XGood db' s := by
  obtain ⟨db', hc, hI', hh, hl⟩ := commit_step hI hw (Or.inl hz)
  obtain ⟨he, hx⟩ := commit_step_exact hw (Or.inl hz) hc
  exact ⟨db', hc, ⟨hI', hh, hl⟩, ⟨hI', hh, he, hx⟩⟩

theorem commitAll_good : ∀ (l : List CState) (db : DB) (s : CState), Good db s →
    chained chain s l = true → l.all CState.wf = true →
    ∃ db', commitAll db l = some db' ∧ Good db' (l.getLastD s)
  | [], db, s, hg, _, _ => ⟨db, rfl, hg⟩
  | s' :: r, db, s, hg, hc, hw => by
    simp only [chained, Bool.and_eq_true] at hc
    simp only [List.all_cons, Bool.and_eq_true] at hw
    obtain ⟨db1, hc1, hI1, hh1, hl1⟩ := commit_step hg.inv hw.1 (Or.inr ⟨s, hg.head, hc.1⟩)
    obtain ⟨db2, hc2, hg2⟩ := commitAll_good r db1 s' ⟨hI1, hh1, hl1⟩ hc.2 hw.2
    refine ⟨db2, ?_, ?_⟩
    · simp [commitAll, hc1, hc2]
    · rw [getLastD_consD]; exact hg2

theorem commitAll_xgood : ∀ (l : List CState) (db : DB) (s : CState), XGood db s →
    chained xchain s l = true → l.all CState.wf = true →
    ∃ db', commitAll db l = some db' ∧ XGood db' (l.getLastD s)
  | [], db, s, hg, _, _ => ⟨db, rfl, hg⟩
  | s' :: r, db, s, hg, hc, hw => by
    simp only [chained, Bool.and_eq_true] at hc
    simp only [List.all_cons, Bool.and_eq_true] at hw
    obtain ⟨db1, hc1, hI1, hh1, _⟩ :=
      commit_step hg.inv hw.1 (Or.inr ⟨s, hg.head, chain_of_xchain hc.1⟩)
    obtain ⟨he, hx⟩ := commit_step_exact hw.1 (Or.inr ⟨s, hg.head, hg.exact, hc.1⟩) hc1
    obtain ⟨db2, hc2, hg2⟩ := commitAll_xgood r db1 s' ⟨hI1, hh1, he, hx⟩ hc.2 hw.2
    refine ⟨db2, ?_, ?_⟩
    · simp [commitAll, hc1, hc2]
    · rw [getLastD_consD]; exact hg2

/-! ## round trip at the head -/

/-- **Round trip, the part that holds.** Save any well-formed history `s₀ … s_h` in order into the
empty store (each state preceded by its block meta and app hash, as the node writes them), the
links being only *membership* links.  Then saving succeeds and `loadAt` at the head returns a state
`t` equal to `s_h` in chain id, initial height, height, block id, time, tx count, app hash, params,
both change heights and the whole of `NextValidators` (priorities and proposer included);
`t.vals` and `t.last` have the membership — addresses, powers, order — of `s_h`'s.
Not claimed (and false, F4): the priorities and proposer of `t.vals`, `t.last`. -/
theorem load_save_partial (s0 : CState) (rest : List CState)
    (hv : validHist chain (s0 :: rest) = true) :
    ∃ db, commitAll {} (s0 :: rest) = some db ∧
      ∃ t, loadAt db (rest.getLastD s0).height = .ok t ∧
        t = { rest.getLastD s0 with last := t.last, vals := t.vals } ∧
        membOf t.vals = membOf (rest.getLastD s0).vals ∧
        membOf t.last = membOf (rest.getLastD s0).last := by
  simp only [validHist, Bool.and_eq_true, beq_iff_eq] at hv
  obtain ⟨⟨⟨hz, hw0⟩, hwr⟩, hch⟩ := hv
  obtain ⟨db0, hc0, hg0, _⟩ := good_genesis Inv_empty hw0 hz
  obtain ⟨db, hc, hg⟩ := commitAll_good rest db0 s0 hg0 hch hwr
  refine ⟨db, by simp [commitAll, hc0, hc], hg.loaded⟩

/-- **Round trip, exact.** With exact links (`updateState` copies the sets) the head loads back
*exactly* — every field, every priority, the proposer — provided the three membership keys of the
head state are pairwise distinct, i.e. no two of `LastValidators`, `Validators`, `NextValidators`
share addresses-and-powers.  (At the head nothing is written later, so "not overwritten later" is
automatic.)  With a static validator set the hypothesis fails at every height: that is F4. -/
theorem load_save_exact (s0 : CState) (rest : List CState)
    (hv : validHist xchain (s0 :: rest) = true) (hd : keysDistinct (rest.getLastD s0)) :
    ∃ db, commitAll {} (s0 :: rest) = some db ∧
      loadAt db (rest.getLastD s0).height = .ok (rest.getLastD s0) := by
  simp only [validHist, Bool.and_eq_true, beq_iff_eq] at hv
  obtain ⟨⟨⟨hz, hw0⟩, hwr⟩, hch⟩ := hv
  obtain ⟨db0, hc0, _, hx0⟩ := good_genesis Inv_empty hw0 hz
  obtain ⟨db, hc, hg⟩ := commitAll_xgood rest db0 s0 hx0 hch hwr
  exact ⟨db, by simp [commitAll, hc0, hc], hg.loadedX hd⟩

/-! ## LoadValidators -/

theorem loadValidators_of_loadAt {db : DB} {h : Nat} {t : CState} (hl : loadAt db h = .ok t)
    (hz : t.height ≠ 0) : ∃ l, t.last = some l ∧ loadValidators db h = .ok l := by
  unfold loadAt at hl
  unfold loadValidators
  cases hs : get h db.states with
  | none => simp [hs] at hl
  | some r =>
    simp only [hs] at hl ⊢
    cases hm : get h db.metas with
    | none => simp [hm] at hl
    | some m =>
      simp only [hm] at hl
      split at hl
      · rename_i last vals ni hlast _ _
        split at hl
        · simp only [LoadRes.ok.injEq] at hl
          subst hl
          simp only at hz
          have hpos : m.height > 0 := Nat.pos_of_ne_zero hz
          simp only [hpos, if_true] at hlast
          cases hr : readSet (get r.lastKey db.vals) with
          | none => simp [hr] at hlast
          | some l =>
            simp only [hr, Option.map_some, Option.some.injEq] at hlast
            obtain ⟨lh, hi⟩ := readSet_some hr
            refine ⟨l, hlast.symm, ?_⟩
            rw [hi] at hr
            simp only [hi, hr]
        · cases hl
      · cases hl

/-- **Entitled set (at the head).** After one more commit `s` on top of a store whose head is `p`
(linked), `LoadValidators s.height` succeeds and returns a set with the membership and powers of
`p.Validators` — the set entitled to sign block `s.height`.  (Its priorities are subject to F4.) -/
theorem entitled_set {db : DB} {p s : CState} (hI : Inv db) (hh : HeadInv db p)
    (hwp : p.wf = true) (hw : s.wf = true) (hc : chain p s = true) :
    ∃ db' v, commit db s = some db' ∧ loadValidators db' s.height = .ok v ∧
      membOf (some v) = membOf p.vals := by
  obtain ⟨db', hcm, _, _, t, hl, ht, _, hml⟩ := commit_step hI hw (Or.inr ⟨p, hh, hc⟩)
  unfold chain at hc
  simp only [Bool.and_eq_true, bne_iff_ne, ne_eq, decide_eq_true_eq] at hc
  have hth : t.height = s.height := by rw [ht]
  obtain ⟨l, hl1, hl2⟩ := loadValidators_of_loadAt hl (by rw [hth]; exact hc.1.1)
  refine ⟨db', l, hcm, hl2, ?_⟩
  rw [← hl1, hml]
  obtain ⟨⟨v, hv, hvo⟩, _, _, _, _⟩ := wf_parts hwp
  obtain ⟨_, _, _, h1, _⟩ := wf_parts hw
  obtain ⟨l0, hl0, hl0o⟩ := h1 hc.1.1
  have := hc.1.2
  rw [hl0, hv, vkey_ok hl0o, vkey_ok hvo] at this
  simp only [Option.some.injEq] at this
  simp [membOf, hl0, hv, this]

/-- **Entitled set (past heights).** A later commit at another height does not change the
membership and powers `LoadValidators h` returns. -/
theorem entitled_set_preserved {db : DB} {s : CState} {h : Nat} {v : VSet} (hI : Inv db)
    (hw : s.wf = true) (hne : h ≠ s.height) (hl : loadValidators db h = .ok v) :
    ∃ db' v', commit db s = some db' ∧ loadValidators db' h = .ok v' ∧ v'.memb = v.memb := by
  obtain ⟨db', hc, hvals, _, hstates, _, _⟩ := commit_wf (db := db) hw
  have hI' : ∀ k i, get k db'.vals = some i → vkey i.set = k ∧ (i.set = none ∨ setOk i.set = true) := by
    intro k i h; rw [hvals] at h; exact Inv_valsAfter hI hw k i h
  suffices ∃ v', loadValidators db' h = .ok v' ∧ v'.memb = v.memb by
    obtain ⟨v', h1, h2⟩ := this; exact ⟨db', v', hc, h1, h2⟩
  unfold loadValidators at hl ⊢
  have hst : get h db'.states = get h db.states := by
    rw [hstates]; exact get_put_ne (Ne.symm hne) _ _
  rw [hst]
  cases hs : get h db.states with
  | none => simp [hs] at hl
  | some r =>
    simp only [hs] at hl ⊢
    cases hg : get r.lastKey db.vals with
    | none => simp [hg] at hl
    | some i =>
      simp only [hg] at hl
      cases hr : readSet (some i) with
      | none => simp [hr] at hl
      | some w =>
        simp only [hr, ValsRes.ok.injEq] at hl
        subst hl
        obtain ⟨lh, hi⟩ := readSet_some hr
        simp only [Option.some.injEq] at hi
        subst hi
        obtain ⟨hk, ho⟩ := hI _ _ hg
        have hwo : w.ok = true := by
          cases ho with
          | inl h => cases h
          | inr h => simpa [setOk] using h
        simp only at hk
        rw [vkey_ok hwo] at hk
        have hex : (get (some w.memb) db'.vals).isSome := by
          rw [hvals]; apply valsAfter_mono; rw [hk, hg]; rfl
        obtain ⟨u, lu, hgu, hru, _, hum⟩ := read_of_inv hI' hex
        refine ⟨u, ?_, hum⟩
        rw [← hk, hgu]
        rw [hgu] at hru
        simp only [hru]

/-! ## pruning -/

/-- **Prune, state records.** `PruneState a b` deletes exactly the state records in
`[max 1 a, b)`; in particular never the genesis state nor state `b`. -/
theorem prune_states (db : DB) (a b h : Nat) :
    (keptHeight a b h → get h (prune db a b).1.states = get h db.states) ∧
    (¬ keptHeight a b h → get h (prune db a b).1.states = none) :=
  ⟨prune_states_kept, prune_states_gone⟩

/-- **Prune keeps what it promises to protect**: every validator-info record referenced by the
genesis state or by state `b`; and it never touches params records, block metas, app hashes. -/
theorem prune_keeps_protected (db : DB) (a b : Nat) (k : VKey) (hk : k ∈ refs db 0 ∨ k ∈ refs db b) :
    get k (prune db a b).1.vals = get k db.vals ∧ (prune db a b).1.params = db.params ∧
      (prune db a b).1.metas = db.metas ∧ (prune db a b).1.apps = db.apps := by
  refine ⟨prune_vals_kept ?_, rfl, rfl, rfl⟩
  intro hv
  obtain ⟨_, h0, hb⟩ := victim_spec hv
  cases hk with
  | inl h => exact h0 h
  | inr h => exact hb h

/-- **Prune safety, the part that holds.** A kept height `h` (outside `[max 1 a, b)`) loads exactly
as before — `loadAt`, `LoadValidators`, `LoadConsensusParams` — **provided** none of the
validator-info keys its state record references is a victim of the prune. -/
theorem prune_safe_partial (db : DB) (a b h : Nat) (hk : keptHeight a b h)
    (hprov : ∀ k ∈ refs db h, k ∉ pruneVictims db a b) :
    loadAt (prune db a b).1 h = loadAt db h ∧
      loadValidators (prune db a b).1 h = loadValidators db h ∧
      loadParams (prune db a b).1 h = loadParams db h :=
  loadAt_congr (prune_states_kept hk) rfl rfl rfl (fun k hk' => prune_vals_kept (hprov k hk'))

/-- the proviso of `prune_safe_partial`, spelled out on the history: every key referenced by the
kept state is referenced by the genesis state or by state `b`, or was not the `LastValidators` key
of any deleted state.  (F5: "membership returns to an earlier set" is exactly a kept state above
`b` referencing a key that below `b` occurs only as such a `LastValidators` key.) -/
theorem prune_safe_proviso (db : DB) (a b h : Nat) (hk : keptHeight a b h)
    (hprov : ∀ k ∈ refs db h, k ∈ refs db 0 ∨ k ∈ refs db b ∨
      ∀ i r, i ∈ pruneHeights db a b → get i db.states = some r → r.lastKey ≠ k) :
    loadAt (prune db a b).1 h = loadAt db h ∧
      loadValidators (prune db a b).1 h = loadValidators db h ∧
      loadParams (prune db a b).1 h = loadParams db h := by
  apply prune_safe_partial db a b h hk
  intro k hkr hv
  obtain ⟨⟨i, r, hi, hg, hr⟩, h0, hb⟩ := victim_spec hv
  rcases hprov k hkr with h | h | h
  · exact h0 h
  · exact hb h
  · exact h i r hi hg hr

/-- the genesis state and state `b` (the first kept one) always load as before -/
theorem prune_genesis_and_to (db : DB) (a b : Nat) :
    loadAt (prune db a b).1 0 = loadAt db 0 ∧ loadAt (prune db a b).1 b = loadAt db b := by
  refine ⟨(prune_safe_proviso db a b 0 (keptHeight_zero a b) ?_).1,
          (prune_safe_proviso db a b b (keptHeight_to a b) ?_).1⟩
  · intro k hk; exact Or.inl hk
  · intro k hk; exact Or.inr (Or.inl hk)

/-! ## the full statement, and its refutation -/

/-- C14, first clause, at full strength: the state loaded at the head equals the saved one. -/
def RoundTripStatement : Prop :=
  ∀ (s0 : CState) (rest : List CState) (db : DB), validHist xchain (s0 :: rest) = true →
    commitAll {} (s0 :: rest) = some db →
    loadAt db (rest.getLastD s0).height = .ok (rest.getLastD s0)

/-- C14, last clause, at full strength: pruning any range leaves every kept state loadable,
unchanged. -/
def PruneSafeStatement : Prop :=
  ∀ (s0 : CState) (rest : List CState) (db : DB) (a b h : Nat),
    validHist xchain (s0 :: rest) = true → commitAll {} (s0 :: rest) = some db →
    keptHeight a b h → loadAt (prune db a b).1 h = loadAt db h

/-- **The property as stated.  It is FALSE of the code as found** (`c14_statement_false`): the
first conjunct fails on every history with a static validator set of ≥ 2 validators (F4,
`load_save_counterexample`), the second when the membership returns to an earlier set (F5,
`prune_counterexample`).  The theorems above are the parts that do hold. -/
def C14Statement : Prop := RoundTripStatement ∧ PruneSafeStatement

section counterexamples

def baseState : CState :=
  { chainId := [], initialHeight := 1, height := 0, blockId := zeroBlockId, time := 0, numTxs := 0,
    appHash := zero32, params := [], lhp := 1, lhv := 1, last := none, vals := none, next := none }

/-- two validators (1: power 9, 2: power 4); the priorities are the ones the real
`NewValidatorSet`/`IncrementProposerPriority` produce (taken from a harness run) -/
def pr (a b : Int) (p : Nat) : Option VSet :=
  some ⟨[⟨1, 9, a⟩, ⟨2, 4, b⟩], some (if p = 1 then ⟨1, 9, a⟩ else ⟨2, 4, b⟩)⟩

def f4s0 : CState := { baseState with vals := pr (-4) 4 1, next := pr 5 (-5) 2 }
def f4s1 : CState := { baseState with height := 1, last := pr (-4) 4 1, vals := pr 5 (-5) 2, next := pr 1 (-1) 1 }

/-- **F4.** A static 2-validator history (genesis + one block) as the node produces it: the state
loaded at the head has `NextValidators`' priorities and proposer in `Validators` — the saved
proposer is validator 2, the loaded one validator 1 — and in `LastValidators` too. -/
theorem load_save_counterexample :
    validHist xchain [f4s0, f4s1] = true ∧
    ∃ db t, commitAll {} [f4s0, f4s1] = some db ∧ loadAt db f4s1.height = .ok t ∧
      t.vals = f4s1.next ∧ t.vals ≠ f4s1.vals ∧ t.last = f4s1.next ∧ t.last ≠ f4s1.last ∧
      (t.vals.bind (·.proposer)).map (·.addr) = some 1 ∧
      (f4s1.vals.bind (·.proposer)).map (·.addr) = some 2 := by
  refine ⟨by decide, _, _, rfl, rfl, ?_⟩
  decide

def one (a : Nat) (p : Int) : Val := ⟨a, p, 0⟩
def sA : Option VSet := some ⟨[one 1 10], some (one 1 10)⟩
def sB : Option VSet := some ⟨[one 2 20, one 1 10], some (one 2 20)⟩
def sC : Option VSet := some ⟨[one 2 20], some (one 2 20)⟩

/-- membership A → B → C → B (changes at consecutive heights); state 4 references only C -/
def f5hist : List CState :=
  [ { baseState with vals := sA, next := sA },
    { baseState with height := 1, last := sA, vals := sA, next := sB },
    { baseState with height := 2, last := sA, vals := sB, next := sC },
    { baseState with height := 3, last := sB, vals := sC, next := sC },
    { baseState with height := 4, last := sC, vals := sC, next := sC },
    { baseState with height := 5, last := sC, vals := sC, next := sB } ]

/-- **F5.** `PruneState 1 4` on that history deletes B's record (it was the `LastValidators` key of
pruned state 3; neither genesis nor state 4 references it) although the kept state 5 references it:
state 5 loaded before the prune and panics (nil dereference) after it. -/
theorem prune_counterexample :
    validHist xchain f5hist = true ∧
    ∃ db, commitAll {} f5hist = some db ∧ keptHeight 1 4 5 ∧
      loadAt db 5 = .ok (f5hist.getLastD baseState) ∧
      loadAt (prune db 1 4).1 5 = .panic ∧
      pruneVictims db 1 4 = [vkey sB] := by
  refine ⟨by decide, _, rfl, Or.inr (by decide), ?_, ?_, ?_⟩ <;> decide

theorem roundTripStatement_false : ¬ RoundTripStatement := by
  intro h
  obtain ⟨hv, db, t, hc, hl, _, hne, _⟩ := load_save_counterexample
  have := h f4s0 [f4s1] db hv hc
  rw [getLastD_consD] at this
  simp only [List.getLastD_nil] at this
  rw [hl] at this
  simp only [LoadRes.ok.injEq] at this
  exact hne (by rw [this])

theorem pruneSafeStatement_false : ¬ PruneSafeStatement := by
  intro h
  obtain ⟨hv, db, hc, hk, hl, hp, _⟩ := prune_counterexample
  have := h _ _ db 1 4 5 hv hc hk
  rw [hl, hp] at this
  cases this

/-- the property at full strength does not hold of the code as found -/
theorem c14_statement_false : ¬ C14Statement :=
  fun h => roundTripStatement_false h.1

end counterexamples

/-! ## non-vacuity -/

/-- the hypotheses of `load_save_exact` are satisfiable: a history whose head has three distinct
memberships -/
example : validHist xchain (f5hist.take 3) = true ∧ keysDistinct ((f5hist.take 3).getLastD baseState) := by
  refine ⟨by decide, ?_, ?_, ?_⟩ <;> decide

/-- the proviso of `prune_safe_partial` is satisfiable for a kept state that is neither genesis nor
`b`: pruning `[1,3)` of the same history leaves state 5 loadable -/
example : ∃ db, commitAll {} f5hist = some db ∧ ∀ k ∈ refs db 5, k ∉ pruneVictims db 1 3 := by
  refine ⟨_, rfl, ?_⟩
  decide

end KV.Props.C14
