import KV.Gen.C04
import KV.Model.Cs
import KV.Model.Ticker
/-!
# C04 — bridge between the regenerated timeout / round-skip conditions (tie T1) and the models

Liveness (C04) turns on: a scheduled timeout is neither lost in the ticker nor dropped as stale by
`handleTimeout`; every timeout step leads to the next step; +2/3 of any votes for a later round
makes the node skip to it; timeouts grow with the round.  `KV/Gen/C04.lean` is re-extracted on every
check run from `consensus/ticker.go` (`timeoutRoutine`: which tick replaces the held one),
`configs/config.go` (`Propose/Prevote/Precommit(round)`, `WaitForTxs`) and `consensus/state.go`
(`handleTimeout` staleness test and dispatch, the final `switch` of the prevote branch of `addVote`,
the precommit round-skip condition, the guards of `enterNewRound` and `enterPrecommitWait`, the
round-skip increment).

The theorems state that `Ticker.ignored` and the corresponding functions of `KV.Cs` (about which
`Props/C04.lean`, `C04Cs.lean` prove monotonicity of the ticker, `timeout_makes_progress`,
`round_skip_*`) are built from these regenerated pieces.  The consensus part repeats the statements of
`Props/C03Gen.lean` against `KV.Gen.C04` (a check only regenerates its own `KV/Gen/<PID>.lean`).
-/
namespace KV.Cs.LiveGenBridge
open KV KV.Cs

/-! ### the ticker -/

/-- `timeoutRoutine`: the nested tests that make the routine ignore a new tick are the ones of
`Ticker.ignored` -/
theorem ticker_ignored_eq_gen (held new : Ticker.Tick) :
    Ticker.ignored held new =
      if Gen.C04.tickOlderHeight new.height held.height then true
      else if Gen.C04.tickSameHeight new.height held.height then
        if Gen.C04.tickOlderRound new.round held.round then true
        else if Gen.C04.tickSameRound new.round held.round then Gen.C04.tickOlderStep new.step held.step
        else false
      else false := by
  unfold Ticker.ignored Gen.C04.tickOlderHeight Gen.C04.tickSameHeight Gen.C04.tickOlderRound Gen.C04.tickSameRound
    Gen.C04.tickOlderStep
  simp only [decide_eq_true_eq]

/-! ### timeouts -/

/-- `Propose/Prevote/Precommit(round)` = `base + delta * round` (no overflow below `2^62`) and
therefore non-decreasing in the round for `delta ≥ 0` -/
theorem gen_timeouts (base delta : Int) (round : Nat) (hb : 0 ≤ base) (hd : 0 ≤ delta)
    (h : base + delta * round < 2 ^ 62) :
    Gen.C04.timeoutPropose base delta round = base + delta * round ∧
    Gen.C04.timeoutPrevote base delta round = base + delta * round ∧
    Gen.C04.timeoutPrecommit base delta round = base + delta * round := by
  have hp : 0 ≤ delta * (round : Int) := Int.mul_nonneg hd (by omega)
  have e : I64.mul (I64.add base (I64.mul delta (Int.ofNat round))) 1 = base + delta * round := by
    simp only [Int.ofNat_eq_natCast]
    unfold I64.mul I64.add I64.wrap
    generalize delta * (round : Int) = p at hp h ⊢
    omega
  exact ⟨e, e, e⟩

theorem gen_waitForTxs (isCreateEmptyBlocks : Bool) (d : Int) :
    Gen.C04.waitForTxs isCreateEmptyBlocks d = (!isCreateEmptyBlocks || decide (0 < d)) := by
  unfold Gen.C04.waitForTxs
  simp

/-! ### consensus/state.go -/

theorem step_eq_commit (s : Step) : s = .commit ↔ s.toNat = 8 := by
  cases s <;> simp [Step.toNat]

theorem step_ne_newHeight (s : Step) : s ≠ .newHeight ↔ s.toNat ≠ 1 := by
  cases s <;> simp [Step.toNat]

/-- shape of the `enterX` guards: `a || b || (c && d)` -/
theorem guard_or3 (a b c d : Prop) [Decidable a] [Decidable b] [Decidable c] [Decidable d] :
    ((decide a || decide b) || (decide c && decide d)) = decide (a ∨ b ∨ (c ∧ d)) := by
  simp only [Bool.decide_or, Bool.decide_and, Bool.or_assoc]

/-- `enterNewRound`: the guard, the "keep the proposal in round 1" test, the tracked round
`round + 1` and `waitForTxs` are the regenerated ones -/
theorem enterNewRound_eq_gen (cfg : Config) (nb : Option Nat) (h r : Nat) (σ : State) (hr : r + 1 < 2 ^ 32) :
    enterNewRound cfg nb h r σ =
      if Gen.C04.enterNewRoundGuard σ.height σ.round σ.step.toNat h r then σ
      else if Gen.C04.enterNewRoundInCommit σ.step.toNat then σ
      else
        let σ1 := { σ with round := r, step := .newRound }
        let σ2 := if Gen.C04.newRoundKeepsProposal r then σ1
                  else { σ1 with proposal := none, pblock := none, parts := none }
        let σ3 := releaseStale cfg { setRound (n cfg) (Gen.C04.newRoundTracksRound r) σ2 with ttp := false }
        if Gen.C04.newRoundWaitsForTxs cfg.waitTxs r then
          if cfg.emptyInterval then schedule h r .newRound σ3 else σ3
        else enterPropose cfg nb h r σ3 := by
  have e1 : Gen.C04.newRoundTracksRound r = r + 1 := by
    unfold Gen.C04.newRoundTracksRound U64.wrapN
    simp only [Int.ofNat_eq_natCast]
    omega
  have e2 : Gen.C04.enterNewRoundGuard σ.height σ.round σ.step.toNat h r =
      decide (σ.height ≠ h ∨ r < σ.round ∨ (σ.round = r ∧ σ.step ≠ .newHeight)) := by
    unfold Gen.C04.enterNewRoundGuard
    simp only [step_ne_newHeight, Bool.decide_or, Bool.decide_and, Bool.or_assoc]
  have e3 : Gen.C04.enterNewRoundInCommit σ.step.toNat = decide (σ.step = .commit) := by
    unfold Gen.C04.enterNewRoundInCommit
    simp only [step_eq_commit]
  unfold enterNewRound newRoundPrep
  rw [e1, e2, e3]
  simp only [Gen.C04.newRoundKeepsProposal, Gen.C04.newRoundWaitsForTxs, decide_eq_true_eq]
  by_cases hg : σ.height ≠ h ∨ r < σ.round ∨ (σ.round = r ∧ σ.step ≠ .newHeight)
  · simp only [hg, if_true]
  · simp only [hg, if_false]
    by_cases hc : σ.step = .commit
    · simp only [hc, if_true]
    · simp only [hc, if_false]
      by_cases h1 : r = 1 <;> simp [h1]

/-- the number of proposer rotations of a round skip is the number of rounds skipped, so the
proposer of `(height, round)` does not depend on the rounds visited (`Config.proposer` is a
function of height and round) -/
theorem gen_roundSkipIncrement (csRound round : Nat) (h : csRound ≤ round) (hr : round < 2 ^ 32) :
    Gen.C04.roundSkipIncrement csRound round = ((round - csRound : Nat) : Int) ∧
    Gen.C04.newRoundSkipsRounds csRound round = decide (csRound < round) := by
  constructor
  · unfold Gen.C04.roundSkipIncrement U64.wrapN
    simp only [Int.ofNat_eq_natCast]
    omega
  · rfl

theorem enterPrecommitWait_eq_gen (h r : Nat) (σ : State) :
    enterPrecommitWait h r σ =
      if Gen.C04.enterPrecommitWaitGuard σ.height σ.round σ.ttp h r then σ
      else { schedule h r .precommitWait σ with ttp := true } := by
  have e : Gen.C04.enterPrecommitWaitGuard σ.height σ.round σ.ttp h r =
      decide (σ.height ≠ h ∨ r ≠ σ.round ∨ (σ.round = r ∧ σ.ttp)) := by
    unfold Gen.C04.enterPrecommitWaitGuard
    simp only [Bool.decide_or, Bool.decide_and, Bool.or_assoc, Bool.decide_eq_true]
  unfold enterPrecommitWait
  rw [e]
  simp only [decide_eq_true_eq]

/-- the final `switch` of the prevote branch: which case is taken, and the test inside case 2 -/
theorem prevoteSwitch_eq_gen (cfg : Config) (nb : Option Nat) (h vr : Nat) (m : Option Target) (any : Bool) (σ : State) :
    prevoteSwitch cfg nb h vr m any σ =
      match Gen.C04.prevoteSwitch σ.round σ.step.toNat vr any σ.proposal.isSome ((σ.proposal.map (·.pol)).getD 0) with
      | 0 => enterNewRound cfg nb h vr σ
      | 1 =>
        if Gen.C04.prevotePolkaEntersPrecommit m.isSome (isProposalComplete cfg σ) (m == some none) then
          enterPrecommit cfg h vr σ
        else if any then enterPrevoteWait h vr σ
        else σ
      | 2 => if isProposalComplete cfg σ then enterPrevote cfg h σ.round σ else σ
      | _ => σ := by
  have hpv : Step.prevote.toNat = 4 := rfl
  unfold prevoteSwitch Gen.C04.prevoteSwitch Gen.C04.prevotePolkaEntersPrecommit
  rw [hpv]
  generalize σ.step.toNat = sc
  by_cases c0 : σ.round < vr <;> by_cases ca : any = true <;> by_cases c1 : σ.round = vr <;>
    by_cases c2 : 4 ≤ sc <;> rcases hp : σ.proposal with _ | p <;> rcases m with _ | _ | b <;>
    simp [c0, ca, c1, c2] <;> (split <;> simp_all)

/-- the precommit branch without a majority: round skip on +2/3 of any precommits at `vr ≥ Round` -/
theorem afterPrecommit_eq_gen (cfg : Config) (nb : Option Nat) (vr : Nat) (σ : State) :
    afterPrecommit cfg nb vr σ =
      let h := σ.height
      let pc := σ.slots .precommit h vr
      match maj23 cfg.powers pc with
      | some bid =>
        let σ2 := enterPrecommit cfg h vr (enterNewRound cfg nb h vr σ)
        match bid with
        | some _ => enterCommit cfg h vr σ2
        | none => enterPrecommitWait h vr σ2
      | none =>
        if Gen.C04.precommitAnyEntersWait σ.round vr (hasAny cfg.powers pc) then
          enterPrecommitWait h vr (enterNewRound cfg nb h vr σ)
        else σ := by
  unfold afterPrecommit Gen.C04.precommitAnyEntersWait
  rfl

theorem handleTimeout_eq_gen (cfg : Config) (nb : Option Nat) (h r : Nat) (s : Step) (σ : State) (hr : r + 1 < 2 ^ 32) :
    handleTimeout cfg nb h r s σ =
      if Gen.C04.timeoutIsStale h r s.toNat σ.height σ.round σ.step.toNat then σ
      else
        match Gen.C04.timeoutDispatch s.toNat with
        | 0 => enterNewRound cfg nb h Gen.C04.timeoutNewHeightRound σ
        | 1 => enterPropose cfg nb h Gen.C04.timeoutNewRoundRound σ
        | 2 => enterPrevote cfg h r σ
        | 3 => enterPrecommit cfg h r σ
        | 4 => enterNewRound cfg nb h (Gen.C04.timeoutPrecommitNextRound r) (enterPrecommit cfg h r σ)
        | _ => panic σ := by
  have e1 : Gen.C04.timeoutPrecommitNextRound r = r + 1 := by
    unfold Gen.C04.timeoutPrecommitNextRound U64.wrapN
    simp only [Int.ofNat_eq_natCast]
    omega
  have e2 : Gen.C04.timeoutIsStale h r s.toNat σ.height σ.round σ.step.toNat =
      decide (h ≠ σ.height ∨ r < σ.round ∨ (r = σ.round ∧ s.toNat < σ.step.toNat)) := by
    unfold Gen.C04.timeoutIsStale
    simp only [Bool.decide_or, Bool.decide_and, Bool.or_assoc]
  unfold handleTimeout
  rw [e1, e2]
  simp only [decide_eq_true_eq]
  generalize σ.step.toNat = sc
  cases s <;> simp [Gen.C04.timeoutDispatch, Step.toNat, Gen.C04.timeoutNewHeightRound, Gen.C04.timeoutNewRoundRound] <;> rfl


/-! ### the unlock site of `enterNewRound` (F36 fix): the scan for a polka seen before a round skip -/

/-- the Go loop `for r := from; r <= round; r++ { if unlocks(r) { …; break } }` as a function:
`k` iterations left, current `r`; `true` = the lock is released -/
def goScan (unlocks : Nat → Bool) (round : Nat) : Nat → Nat → Bool
  | 0, _ => false
  | k+1, r =>
    if Gen.C04.staleScanContinues r round then
      if unlocks r then true else goScan unlocks round k (r + 1)
    else false

theorem goScan_spec (unlocks : Nat → Bool) (round : Nat) : ∀ (k r : Nat),
    goScan unlocks round k r = true ↔ ∃ r', r ≤ r' ∧ r' < r + k ∧ r' ≤ round ∧ unlocks r' = true
  | 0, r => by
    simp only [goScan, Nat.add_zero]
    constructor
    · intro h; cases h
    · rintro ⟨r', h1, h2, -⟩; omega
  | k+1, r => by
    unfold goScan Gen.C04.staleScanContinues
    by_cases hc : r ≤ round
    · simp only [hc, decide_true, if_true]
      by_cases hu : unlocks r = true
      · simp only [hu, if_true, true_iff]
        exact ⟨r, Nat.le_refl _, by omega, hc, hu⟩
      · simp only [hu, if_false, Bool.false_eq_true]
        rw [goScan_spec unlocks round k (r + 1)]
        constructor
        · rintro ⟨r', h1, h2, h3, h4⟩
          exact ⟨r', by omega, by omega, h3, h4⟩
        · rintro ⟨r', h1, h2, h3, h4⟩
          have : r' ≠ r := fun e => hu (e ▸ h4)
          exact ⟨r', by omega, by omega, h3, h4⟩
    · simp only [hc, decide_false, if_false, Bool.false_eq_true, false_iff]
      rintro ⟨r', h1, -, h3, -⟩
      omega

/-- `prevotes.TwoThirdsMajority()` of round `r'` (a missing vote set: `continue`, no majority) and
`cs.LockedBlock.HashesTo(blockID.Hash)` for the locked block `b`, combined by the regenerated test -/
def scanUnlocks (cfg : Config) (σ : State) (b : Nat) (r' : Nat) : Bool :=
  Gen.C04.staleScanUnlocks (maj23 cfg.powers (σ.slots .prevote σ.height r')).isSome
    (match maj23 cfg.powers (σ.slots .prevote σ.height r') with
     | some x => x == some b
     | none => false)

/-- **the scan of the model is the Go loop**: from the regenerated start `cs.LockedRound + 1`, while
the regenerated `r <= round`, releasing on the regenerated `ok && !HashesTo` -/
theorem stalePolka_eq_gen (cfg : Config) (σ : State) (b : Nat) (hw : σ.lockedRound + 1 < 2 ^ 32) :
    stalePolka cfg σ b =
      goScan (scanUnlocks cfg σ b) σ.round (σ.round + 1 - Gen.C04.staleScanFrom σ.lockedRound)
        (Gen.C04.staleScanFrom σ.lockedRound) := by
  have e1 : Gen.C04.staleScanFrom σ.lockedRound = σ.lockedRound + 1 := by
    unfold Gen.C04.staleScanFrom U64.wrapN
    simp only [Int.ofNat_eq_natCast]
    omega
  rw [e1]
  have hu : ∀ r', scanUnlocks cfg σ b r' =
      (match maj23 cfg.powers (σ.slots .prevote σ.height r') with
       | some x => x != some b
       | none => false) := by
    intro r'
    unfold scanUnlocks Gen.C04.staleScanUnlocks
    cases maj23 cfg.powers (σ.slots .prevote σ.height r') with
    | none => rfl
    | some x => simp [bne]
  cases hg : goScan (scanUnlocks cfg σ b) σ.round (σ.round + 1 - (σ.lockedRound + 1)) (σ.lockedRound + 1) with
  | true =>
    obtain ⟨r', h1, h2, h3, h4⟩ := (goScan_spec _ _ _ _).mp hg
    unfold stalePolka
    rw [List.any_eq_true]
    refine ⟨r', List.mem_range.mpr (by omega), ?_⟩
    rw [hu] at h4
    simp only [Bool.and_eq_true, decide_eq_true_eq]
    exact ⟨by omega, h4⟩
  | false =>
    cases hs : stalePolka cfg σ b with
    | false => rfl
    | true =>
      exfalso
      unfold stalePolka at hs
      rw [List.any_eq_true] at hs
      obtain ⟨r', hr', hc⟩ := hs
      rw [List.mem_range] at hr'
      simp only [Bool.and_eq_true, decide_eq_true_eq] at hc
      have : goScan (scanUnlocks cfg σ b) σ.round (σ.round + 1 - (σ.lockedRound + 1)) (σ.lockedRound + 1) = true :=
        (goScan_spec _ _ _ _).mpr ⟨r', by omega, by omega, by omega, by rw [hu]; exact hc.2⟩
      rw [hg] at this
      cases this

/-- the scan runs only while locked, and releasing is `LockedRound = 0`, `LockedBlock = nil` -/
theorem releaseStale_eq_gen (cfg : Config) (σ : State) (hw : σ.lockedRound + 1 < 2 ^ 32) :
    releaseStale cfg σ =
      if Gen.C04.staleScanGuard σ.locked.isSome then
        match σ.locked with
        | some lb =>
          if goScan (scanUnlocks cfg σ lb.id) σ.round (σ.round + 1 - Gen.C04.staleScanFrom σ.lockedRound)
              (Gen.C04.staleScanFrom σ.lockedRound) then
            { σ with lockedRound := Gen.C04.staleUnlockRound, locked := none }
          else σ
        | none => σ
      else σ := by
  unfold releaseStale Gen.C04.staleScanGuard
  cases hl : σ.locked with
  | none => simp
  | some lb =>
    simp only [Option.isSome_some, if_true]
    rw [stalePolka_eq_gen cfg σ lb.id hw]
    rfl

end KV.Cs.LiveGenBridge
