import KV.Gen.C15
import KV.Model.Wal
/-!
# C15 — bridge between the regenerated WAL size guards (tie T1) and the model
`KV/Gen/C15.lean` is re-extracted from `consensus/wal.go` on every run. The WAL model takes the
size limit as the parameter `Cfg.max`; these theorems state that, instantiated with the source's
`maxMsgSizeBytes`, the model's `Encode`/`Decode` guards are the source's, and that the constant
satisfies the hypothesis `max < 2^32` under which `KV/Props/C15.lean` is proved.
-/
namespace KV.Wal.GenBridge
open KV

theorem gen_max_lt : Gen.C15.maxMsgSizeBytes.toNat < 2 ^ 32 := by decide

theorem gen_max_pos : 0 < Gen.C15.maxMsgSizeBytes := by decide

/-- `length := uint32(len(data))` of `Encode` -/
theorem gen_encodeLength_eq (n : Nat) : Gen.C15.encodeLength (n : Int) = n % 4294967296 := by
  unfold Gen.C15.encodeLength U64.wrapN
  omega

/-- the refusal guards of `Encode` and `Decode`: `length > maxMsgSizeBytes` -/
theorem gen_guards_eq (length : Nat) :
    Gen.C15.encodeTooBig length = decide (length > Gen.C15.maxMsgSizeBytes.toNat) ∧
    Gen.C15.decodeTooBig length = decide (length > Gen.C15.maxMsgSizeBytes.toNat) := by
  constructor <;> rfl

/-- the model's encoder refuses exactly when the source's guard fires -/
theorem gen_encode_refuses_iff (c : Wal.Cfg) (data : Bytes)
    (hmax : c.max = Gen.C15.maxMsgSizeBytes.toNat) :
    (Wal.encode c data = none) ↔
      Gen.C15.encodeTooBig (Gen.C15.encodeLength (data.length : Int)) = true := by
  unfold Wal.encode
  rw [gen_encodeLength_eq, (gen_guards_eq _).1, ← hmax]
  simp only [decide_eq_true_eq]
  split <;> simp_all

/-- CRC comparison of `Decode` -/
theorem gen_crc_eq (a b : Nat) : Gen.C15.decodeCrcMismatch a b = decide (a ≠ b) := rfl

/-- the `nc > 0` test after the first read of `Decode` (F38) is the model's `b1 ≠ []` -/
theorem gen_short_checksum_read (b1 : Bytes) :
    Gen.C15.decodeShortChecksumRead (b1.length : Int) = decide (b1 ≠ []) := by
  unfold Gen.C15.decodeShortChecksumRead
  cases b1 with
  | nil => rfl
  | cons x xs =>
    simp only [List.length_cons, ne_eq, reduceCtorEq, not_false_eq_true, decide_true, decide_eq_true_eq]
    omega

/-- when the first read meets the end of the input the model reports corruption exactly when the
source's test fires (bytes were read: a record torn inside its checksum field), and the clean end of
the log otherwise -/
theorem gen_first_read_eof {σ : Type} (c : Wal.Cfg) (rd : Nat → σ → Bytes × Wal.RErr × σ) (s s1 : σ)
    (b1 : Bytes) (h : rd 4 s = (b1, .eof, s1)) :
    Wal.decodeWith c rd s =
      if Gen.C15.decodeShortChecksumRead (b1.length : Int) then (0, .corrupt s1) else (0, .eof) := by
  rw [gen_short_checksum_read]
  unfold Wal.decodeWith
  rw [h]
  by_cases hb : b1 = []
  · simp [hb]
  · simp [hb]

end KV.Wal.GenBridge
