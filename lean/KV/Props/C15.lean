import KV.Proofs.WalSearch
import KV.Proofs.WalFlip
import KV.Proofs.WalTorn
import KV.Base.Crc32c
/-! # C15 — the consensus WAL returns exactly what was written and detects every corruption

Model: `KV/Model/Wal.lean` (follows consensus/wal.go, consensus/state.go `repairWalFile`,
lib/autofile/group.go). Everything is proved for an ARBITRARY checksum `c.crc : Bytes → UInt32`,
size limit `c.max < 2^32` and payload parser `c.parse`; where detection rests on the checksum the
conclusion is `claim ∨ Collision c` with `Collision c = ∃ a b, a ≠ b ∧ c.crc a = c.crc b` (the
colliding pair is constructed from the input). `k : RKind` ranges over the three reader behaviours
(`group` = autofile.GroupReader, `file` = *os.File / bytes.Buffer, `bytes` = bytes.Reader).
`Valid c d` = non-empty, within the limit, accepted by the payload parser.
`decodeAll` = "call Decode until it fails": the payloads returned, then `eof` or `corrupt`.

The last section instantiates the checksum with CRC-32C proper (`c.crc = crc32c`, the executable
table-driven function of `KV/Base/Crc32c.lean`, which is what the driver's configuration uses): every
single-bit error and every burst error of ≤ 32 bits changes the checksum (`single_bit_flip`,
`crc32c_detects_burst32`), so a one-bit flip anywhere in a written log is reported as corruption at
the damaged record with NO collision disjunct (`bit_flip_detected`), with one explicit exception:
a flip in a length field whose new payload window has the old checksum (`LenFlipAccepted`; the
checksum does not cover the length field; `len_flip_counterexample`). Multi-bit edits other than
≤ 32-bit bursts keep the `Collision` disjunct (`edit_detected`, `truncate_prefix`). -/
namespace KV.Wal

/-! ## writer side -/

/-- `Encode` writes exactly `crc ‖ len ‖ data` for a payload within the limit … -/
theorem encode_within_limit (c : Cfg) (d : Bytes) (hmax : c.max < 4294967296) (h : d.length ≤ c.max) :
    encode c d = some (be32 (c.crc d).toNat ++ be32 d.length ++ d) :=
  encode_eq_frame c d hmax h

/-- … and refuses (writes nothing) above it -/
theorem encode_refuses (c : Cfg) (d : Bytes) (h : c.max < d.length) (h32 : d.length < 4294967296) :
    encode c d = none := by
  unfold encode
  rw [Nat.mod_eq_of_lt h32]
  simp [h]

/-! ## read back -/

/-- **decode_encode.** The records of `msgs`, split into files at ANY record boundaries (`chunks`;
empty files allowed), read back as the messages, in order, then end-of-log — through each plain
reader on the concatenation and through a group reader running across the files. -/
theorem decode_encode (c : Cfg) (k : RKind) (chunks : List (List Bytes)) (hmax : c.max < 4294967296)
    (hv : ∀ d ∈ chunks.flatten, Valid c d) :
    decodeAll c k (chunks.map (frames c)).flatten = (chunks.flatten, .eof) ∧
    decodeAllG c (openAt (chunks.map (frames c)) 0) = (chunks.flatten, .eof) := by
  have key : ∀ k, decodeAll c k (chunks.map (frames c)).flatten = (chunks.flatten, .eof) := by
    intro k
    rw [flatten_map_frames]
    have := decodeAll_frames c k chunks.flatten [] hmax hv
    simpa [decodeAll_nil] using this
  refine ⟨key k, ?_⟩
  rw [decodeAllG_flat, openAt_flat, List.drop_zero]
  exact key .group

/-- a reader opened at file `i` (what SearchForEndHeight does) yields the messages of files `i…` -/
theorem decode_encode_from (c : Cfg) (chunks : List (List Bytes)) (i : Nat) (hmax : c.max < 4294967296)
    (hv : ∀ d ∈ chunks.flatten, Valid c d) :
    decodeAllG c (openAt (chunks.map (frames c)) i) = ((chunks.drop i).flatten, .eof) := by
  rw [decodeAllG_flat, openAt_flat, ← List.map_drop, flatten_map_frames]
  have hv' : ∀ d ∈ (chunks.drop i).flatten, Valid c d := by
    intro d hd
    apply hv
    rw [List.mem_flatten] at hd ⊢
    obtain ⟨l, hl, hdl⟩ := hd
    exact ⟨l, List.mem_of_mem_drop hl, hdl⟩
  have := decodeAll_frames c .group (chunks.drop i).flatten [] hmax hv'
  simpa [decodeAll_nil] using this

/-- the non-emptiness hypothesis of `Valid` is needed: a group reader refuses an empty buffer, so a
record with an empty payload is written but reported corrupt when read back through a group -/
theorem empty_payload_counterexample (c : Cfg) (rest : Bytes) (h0 : 0 ≤ c.max) :
    ∃ r, decode c .group (frame c [] ++ rest) = .corrupt r := by
  refine ⟨rest, ?_⟩
  have hb : ∀ n, be32 n ≠ [] := by intro n; simp [be32]
  have r1 : read .group 4 (be32 (c.crc []).toNat ++ (be32 0 ++ rest)) =
      (be32 (c.crc []).toNat, .ok, be32 0 ++ rest) := read_exact .group (be32 _) _ (hb _)
  have r2 : read .group 4 (be32 0 ++ rest) = (be32 0, .ok, rest) := read_exact .group (be32 _) _ (hb _)
  have v2 : be32Val (pad 4 (be32 0)) = 0 := by decide
  unfold decode decodeA decodeWith frame
  simp only [List.append_assoc, List.length_nil, List.append_nil, r1, r2, v2]
  simp [read]

/-! ## allocation -/

/-- **alloc_bounded.** The payload buffer `Decode` allocates never exceeds `maxMsgSizeBytes`,
whatever the input (the length field is checked before `make`). -/
theorem alloc_bounded (c : Cfg) (k : RKind) (s : Bytes) : (decodeA c k s).1 ≤ c.max :=
  decodeWith_alloc_le c (read k) s

theorem alloc_bounded_group (c : Cfg) (g : GReader) : (decodeGA c g).1 ≤ c.max :=
  decodeWith_alloc_le c gread g

/-- … over a whole log -/
theorem alloc_bounded_log (c : Cfg) (k : RKind) (s : Bytes) : maxAlloc c k s ≤ c.max := by
  generalize hn : s.length = n
  induction n using Nat.strongRecOn generalizing s with
  | _ n ih =>
    rw [maxAlloc]
    split
    · rename_i d rest h
      have hlt := decode_msg_lt c k s h
      exact Nat.max_le.mpr ⟨alloc_bounded c k s, ih rest.length (by omega) rest rfl⟩
    · exact alloc_bounded c k s

/-- a returned message is never longer than the limit -/
theorem msg_within_limit (c : Cfg) (k : RKind) (s x rest : Bytes) (h : decode c k s = .msg x rest) :
    x.length ≤ c.max :=
  (decode_msg_inv c k s x rest h).2.2.2.1

/-! ## truncation -/

/-- **truncate_prefix.** For EVERY truncation offset `t` of a written log, reading returns a prefix
of the written messages and then end-of-log or corruption — never another message — unless the
checksum collides. (Through a plain reader the torn record itself may come back: when the lost
tail was all zeros the zero-filled buffer restores it.) -/
theorem truncate_prefix (c : Cfg) (k : RKind) (ds : List Bytes) (t : Nat) (hmax : c.max < 4294967296)
    (hv : ∀ d ∈ ds, Valid c d) :
    (∃ j, (decodeAll c k ((frames c ds).take t)).1 = ds.take j) ∨ Collision c := by
  obtain ⟨j, p, hsplit, hp⟩ := take_frames c ds t
  have hvj : ∀ d ∈ ds.take j, Valid c d := fun d hd => hv d (List.mem_of_mem_take hd)
  rw [hsplit, decodeAll_frames c k (ds.take j) p hmax hvj]
  rcases hp with hp | ⟨d, q, hdj, hpq, hq⟩
  · subst hp
    left; exact ⟨j, by simp [decodeAll_nil]⟩
  · rcases decodeAll_torn c k d p q hpq hq with h | h | h
    · left; exact ⟨j, by simp [h]⟩
    · left
      refine ⟨j + 1, ?_⟩
      rw [h]
      simp only
      rw [List.take_add_one, hdj]
      simp
    · exact Or.inr h

/-- through a group reader (the reader consensus replay uses) no collision can help: exactly the
complete records are returned -/
theorem truncate_prefix_group (c : Cfg) (ds : List Bytes) (t : Nat) (hmax : c.max < 4294967296)
    (hv : ∀ d ∈ ds, Valid c d) :
    ∃ j, (decodeAll c .group ((frames c ds).take t)).1 = ds.take j ∧
      (frames c (ds.take j)).length ≤ t ∧
      (j < ds.length → t < (frames c (ds.take (j + 1))).length) := by
  obtain ⟨j, p, hsplit, hp⟩ := take_frames c ds t
  have hvj : ∀ d ∈ ds.take j, Valid c d := fun d hd => hv d (List.mem_of_mem_take hd)
  have hlen := congrArg List.length hsplit
  rw [List.length_take, List.length_append] at hlen
  rw [hsplit, decodeAll_frames c .group (ds.take j) p hmax hvj]
  rcases hp with hp | ⟨d, q, hdj, hpq, hq⟩
  · subst hp
    refine ⟨j, by simp [decodeAll_nil], by simp at hlen; omega, ?_⟩
    intro hj
    -- nothing torn: either t reaches the end of the log (then j = length) or …
    simp only [List.length_nil, Nat.add_zero] at hlen
    by_cases hjt : t < (frames c (ds.take (j + 1))).length
    · exact hjt
    · exfalso
      have h1 := frames_take_le c ds (j + 1)
      have h2 := congrArg List.length (frames_take_succ c ds j ds[j] (List.getElem?_eq_getElem hj))
      rw [List.length_append, frame_length] at h2
      omega
  · have hd : d.length < 4294967296 := by
      have := (hv d (List.mem_of_getElem? hdj)).2.1; omega
    have ht := decodeAll_torn_group c d p q hd hpq hq
    refine ⟨j, by simp [ht], by omega, ?_⟩
    intro _
    have hq' : 0 < q.length := List.length_pos_iff.mpr hq
    have hpq' := congrArg List.length hpq
    rw [List.length_append] at hpq'
    have h2 := congrArg List.length (frames_take_succ c ds j d hdj)
    rw [List.length_append] at h2
    have h1 := frames_take_le c ds (j + 1)
    have := Nat.min_le_left t (frames c ds).length
    by_cases hmin : t ≤ (frames c ds).length
    · rw [Nat.min_eq_left hmin] at hlen; omega
    · exfalso
      rw [Nat.min_eq_right (by omega)] at hlen
      omega

/-! ## edits -/

/-- **edit_detected.** After intact records `pre`, a record whose checksum field is that of `d` but
whose length field was changed, or whose payload was replaced by a different one of the same
length, makes the reader stop with `corrupt` right there (the intact records before it are still
returned) — or the checksum collides. Whatever follows (`post`) is irrelevant.
For CRC-32C proper the disjunct is gone for one-bit flips and ≤ 32-bit bursts in the payload
(`bit_flip_at_record`, `burst32_detected` below); for arbitrary multi-bit edits it has to stay (any
32-bit checksum collides on some pair of payloads longer than 4 bytes). -/
theorem edit_detected (c : Cfg) (k : RKind) (pre : List Bytes) (d lenB tail : Bytes)
    (hmax : c.max < 4294967296) (hv : ∀ x ∈ pre, Valid c x) (hd : d.length < 4294967296)
    (hlenB : lenB.length = 4)
    (hedit : lenB ≠ be32 d.length ∨
      (lenB = be32 d.length ∧ ∃ d' post, tail = d' ++ post ∧ d'.length = d.length ∧ d' ≠ d)) :
    decodeAll c k (frames c pre ++ (be32 (c.crc d).toNat ++ lenB ++ tail)) = (pre, .corrupt) ∨
      Collision c := by
  rw [decodeAll_frames c k pre _ hmax hv]
  generalize hs : be32 (c.crc d).toNat ++ lenB ++ tail = s
  have hs4 : s.take 4 = be32 (c.crc d).toNat := by
    rw [← hs, List.append_assoc, List.take_append_of_le_length (by simp [be32_length])]
    exact List.take_of_length_le (by simp [be32_length])
  have hs8 : (s.drop 4).take 4 = lenB := by
    rw [← hs, List.append_assoc, List.drop_append_of_le_length (by simp [be32_length]),
      List.drop_of_length_le (by simp [be32_length]), List.nil_append,
      List.take_append_of_le_length (by omega)]
    exact List.take_of_length_le (by omega)
  have hsd : s.drop 8 = tail := by
    rw [← hs, List.append_assoc, List.drop_append, List.drop_of_length_le (by simp [be32_length]),
      List.nil_append, be32_length, List.drop_append, List.drop_of_length_le (by omega)]
    simp [hlenB]
  have hslen : 8 ≤ s.length := by
    rw [← hs]; simp only [List.length_append, be32_length, hlenB]; omega
  cases hdec : decode c k s with
  | eof => have := decode_eof_inv c k s hdec; omega
  | corrupt r => left; rw [decodeAll_corrupt c k s r hdec]; simp
  | msg x rest =>
    right
    rcases crc_field_binds c k s x rest d hdec hs4 with hx | hcol
    · exfalso
      obtain ⟨_, _, hxl, _, hxv, _, _⟩ := decode_msg_inv c k s x rest hdec
      rw [hs8, pad_of_le 4 lenB (by omega)] at hxl
      subst hx
      rcases hedit with hne | ⟨heq, d', post, htail, hl', hne⟩
      · apply hne
        rw [hxl, be32_be32Val lenB hlenB]
      · rw [hsd, htail, ← hl', List.take_append_of_le_length (Nat.le_refl _), List.take_length,
          pad_of_le _ _ (Nat.le_refl _)] at hxv
        exact hne hxv.symm
    · exact hcol

/-! ## garbage suffix -/

/-- **garbage_tail.** Whatever is appended to a written log, the written messages come back first,
in order and unchanged; what follows is what reading the suffix alone gives. -/
theorem garbage_tail (c : Cfg) (k : RKind) (ds : List Bytes) (g : Bytes) (hmax : c.max < 4294967296)
    (hv : ∀ d ∈ ds, Valid c d) :
    decodeAll c k (frames c ds ++ g) = (ds ++ (decodeAll c k g).1, (decodeAll c k g).2) :=
  decodeAll_frames c k ds g hmax hv

/-- … and through a group reader the suffix yields a message only if it literally starts with a
well-formed record of that message: right checksum, right length, payload accepted by the parser
(canonicity of the framing: nothing else decodes) -/
theorem decode_group_canonical (c : Cfg) (s x rest : Bytes) (h : decode c .group s = .msg x rest) :
    s = frame c x ++ rest ∧ x.length ≤ c.max ∧ c.parse x ≠ none := by
  obtain ⟨hlen, hcrc, hxl, hmax, hxv, hrest, hp⟩ := decode_msg_inv c .group s x rest h
  have hg := decode_group_len c s x rest h
  refine ⟨?_, hmax, hp⟩
  have e1 : be32 (c.crc x).toNat = s.take 4 := by
    rw [hcrc, be32_be32Val _ (by rw [List.length_take]; omega)]
  have hl4 : ((s.drop 4).take 4).length = 4 := by
    rw [List.length_take, List.length_drop]; omega
  have e2 : be32 x.length = (s.drop 4).take 4 := by
    rw [hxl, pad_of_le 4 _ (by omega), be32_be32Val _ hl4]
  have e3 : x = (s.drop 8).take x.length := by
    have : pad x.length ((s.drop 8).take x.length) = (s.drop 8).take x.length := by
      apply pad_of_le; rw [List.length_take, List.length_drop]; omega
    rw [this] at hxv; exact hxv
  unfold frame
  rw [e1, e2, hrest, List.append_assoc, List.append_assoc]
  have := split3 s x.length
  rw [← e3] at this
  exact this

/-! ## repair -/

/-- **repair_longest_prefix.** `repairWalFile` reads the damaged file up to the first error — by
definition (`decodeAll`) the longest prefix of records the decoder accepts — and the file it writes
consists of exactly the records of those messages: every reader decodes it to exactly them and
then end-of-log. Hypotheses: accepted payloads re-serialise to themselves (`reser`, canonical
protobuf — part of the differential) and the parser rejects the empty payload. -/
theorem repair_longest_prefix (c : Cfg) (k : RKind) (src : Bytes) (hmax : c.max < 4294967296)
    (hcanon : ∀ p, c.parse p ≠ none → c.reser p = p) (hempty : c.parse [] = none) :
    repair c src = (frames c (decodeAll c .file src).1, true) ∧
    decodeAll c k (repair c src).1 = ((decodeAll c .file src).1, .eof) := by
  -- every decoded message is valid
  have hvalid : ∀ s : Bytes, ∀ d ∈ (decodeAll c .file s).1, Valid c d := by
    intro s
    generalize hn : s.length = n
    induction n using Nat.strongRecOn generalizing s with
    | _ n ih =>
      intro d hd
      cases hdec : decode c .file s with
      | eof => rw [decodeAll_eof c _ s hdec] at hd; cases hd
      | corrupt r => rw [decodeAll_corrupt c _ s r hdec] at hd; cases hd
      | msg x rest =>
        rw [decodeAll_msg c _ s x rest hdec] at hd
        obtain ⟨_, _, _, hxm, _, _, hxp⟩ := decode_msg_inv c .file s x rest hdec
        rcases List.mem_cons.mp hd with h | h
        · subst h
          refine ⟨?_, hxm, hxp⟩
          intro h0; rw [h0] at hxp; exact hxp hempty
        · exact ih rest.length (by have := decode_msg_lt c .file s hdec; omega) rest rfl d h
  have hout : ∀ ms : List Bytes, (∀ d ∈ ms, Valid c d) → repairOut c ms = (frames c ms, true) := by
    intro ms
    induction ms with
    | nil => intro _; rfl
    | cons d ds ih =>
      intro hv
      have hd := hv d (by simp)
      rw [repairOut, hcanon d hd.2.2, encode_eq_frame c d hmax hd.2.1]
      simp only
      rw [ih (fun x hx => hv x (by simp [hx]))]
      rfl
  have h1 : repair c src = (frames c (decodeAll c .file src).1, true) := by
    unfold repair; exact hout _ (hvalid src)
  refine ⟨h1, ?_⟩
  rw [h1]
  have := decodeAll_frames c k (decodeAll c .file src).1 [] hmax (hvalid src)
  simpa [decodeAll_nil] using this

/-- in particular: a written log followed by anything the decoder does not accept as a record is
repaired to exactly the written log -/
theorem repair_drops_damaged_tail (c : Cfg) (ds : List Bytes) (junk : Bytes) (hmax : c.max < 4294967296)
    (hcanon : ∀ p, c.parse p ≠ none → c.reser p = p) (hempty : c.parse [] = none)
    (hv : ∀ d ∈ ds, Valid c d) (hjunk : ∀ x rest, decode c .file junk ≠ .msg x rest) :
    repair c (frames c ds ++ junk) = (frames c ds, true) := by
  rw [(repair_longest_prefix c .file _ hmax hcanon hempty).1, decodeAll_frames c .file ds junk hmax hv]
  have : (decodeAll c .file junk).1 = [] := by
    cases hdec : decode c .file junk with
    | eof => rw [decodeAll_eof c _ _ hdec]
    | corrupt r => rw [decodeAll_corrupt c _ _ r hdec]
    | msg x rest => exact absurd hdec (hjunk x rest)
  simp [this]

/-! ## the writer: rotation only between records -/

/-- **writer_files.** Whatever the interleaving of record writes (`Encode` through `Group.Write`),
size checks and rotations, the files of the group are the records of the accepted payloads, in
order, cut at record boundaries only (`chunks`) — the shape `decode_encode` and `search_iff`
quantify over. (Payloads ≥ 4 GiB are excluded: see `encode_wraps_counterexample`.) -/
theorem writer_files (c : Cfg) (hmax : c.max < 4294967296) (ops : List WOp)
    (hops : ∀ op ∈ ops, (∀ bs, op ≠ .append bs) ∧ ∀ d, op = .write d → d.length < 4294967296) :
    ∃ chunks : List (List Bytes),
      (Group.run c ⟨[], []⟩ ops).files = chunks.map (frames c) ∧
      chunks.flatten = written c ops := by
  have := writer_files_gen c hmax ops [] [] hops
  simpa [frames] using this

/-- `length := uint32(len(data))` wraps: for a payload of 2^32 + k bytes (k within the limit) the
encoder does not refuse but writes a record with length field k, the first k bytes and the checksum
of the whole payload. Unreachable in practice (consensus messages are ≤ 1 MB); recorded because the
model follows the code. -/
theorem encode_wraps_counterexample (c : Cfg) (d : Bytes) (k : Nat) (hk : k ≤ c.max)
    (hk32 : k < 4294967296) (hlen : d.length = 4294967296 + k) :
    encode c d = some (be32 (c.crc d).toNat ++ be32 k ++ d.take k) := by
  unfold encode
  have : d.length % 4294967296 = k := by rw [hlen]; omega
  simp only [this]
  rw [if_neg (by omega)]

/-! ## search -/

/-- **search_iff.** On an intact group (records of `chunks.flatten`, cut into files at any record
boundaries) whose end-height markers have strictly increasing heights (the consensus writer's
invariant: `#ENDHEIGHT h` is written once, when height `h` is finalised — a hypothesis here),
`SearchForEndHeight(height)` — with or without `IgnoreDataCorruptionErrors` — finds the marker iff
it was written, never reports an error, and the reader it returns yields exactly the messages
after the marker and then end-of-log. -/
theorem search_iff (c : Cfg) (chunks : List (List Bytes)) (height : Int) (ign : Bool)
    (hmax : c.max < 4294967296) (hv : ∀ d ∈ chunks.flatten, Valid c d)
    (hinc : (heights c chunks.flatten).Pairwise (· < ·)) :
    (height ∈ heights c chunks.flatten ↔
      ∃ g, search c (chunks.map (frames c)) height ign = .found g) ∧
    (height ∉ heights c chunks.flatten → search c (chunks.map (frames c)) height ign = .notFound) ∧
    (∀ g, search c (chunks.map (frames c)) height ign = .found g →
      ∃ pre d post, chunks.flatten = pre ++ d :: post ∧ c.parse d = some (.endHeight height) ∧
        decodeAllG c g = (post, .eof)) := by
  have hdrop : (chunks.drop chunks.length).flatten = [] := by simp
  obtain ⟨s1, s2⟩ := searchLoop_spec c hmax chunks hv height ign hinc chunks.length (Nat.le_refl _) (-1)
    (by rw [hdrop]; rfl) (by rw [hdrop]; simp [heights])
  have hsearch : search c (chunks.map (frames c)) height ign =
      searchLoop c (chunks.map (frames c)) height ign chunks.length (-1) := by
    simp [search]
  rw [hsearch]
  have hpost : ∀ g' post pre d, chunks.flatten = pre ++ d :: post → g'.flat = frames c post →
      decodeAllG c g' = (post, .eof) := by
    intro g' post pre d hsplit hflat
    rw [decodeAllG_flat, hflat]
    have hvp : ∀ x ∈ post, Valid c x := by
      intro x hx; apply hv; rw [hsplit]; simp [hx]
    have := decodeAll_frames c .group post [] hmax hvp
    simpa [decodeAll_nil] using this
  refine ⟨⟨fun hin => ?_, fun ⟨g, hg⟩ => ?_⟩, s2, fun g hg => ?_⟩
  · obtain ⟨_, _, _, g', _, _, e3, _⟩ := s1 hin
    exact ⟨g', e3⟩
  · by_cases hin : height ∈ heights c chunks.flatten
    · exact hin
    · rw [s2 hin] at hg; cases hg
  · by_cases hin : height ∈ heights c chunks.flatten
    · obtain ⟨pre, d, post, g', e1, e2, e3, e4⟩ := s1 hin
      rw [e3] at hg
      injection hg with hg
      subst hg
      exact ⟨pre, d, post, e1, e2, hpost g' post pre d e1 e4⟩
    · rw [s2 hin] at hg; cases hg

/-! ## non-vacuity -/

/-- a toy configuration: checksum = length (a bad checksum, but a checksum), limit 100, parser:
`[14, h]` is the end-height marker `h`, the empty payload is rejected -/
def cfg0 : Cfg where
  crc := fun d => UInt32.ofNat d.length
  max := 100
  parse := fun d => match d with
    | [] => none
    | [14, h] => some (.endHeight h.toNat)
    | _ => some .other
  reser := id

theorem cfg0_valid (d : Bytes) (h0 : d ≠ []) (hl : d.length ≤ 100) : Valid cfg0 d := by
  refine ⟨h0, hl, ?_⟩
  unfold cfg0
  simp only
  split <;> simp_all

/-- the hypotheses of `decode_encode` are satisfiable: two files, three records -/
example : decodeAllG cfg0 (openAt ([[[14, 0], [7]], [[14, 1]]].map (frames cfg0)) 0) =
    ([[14, 0], [7], [14, 1]], .eof) := by
  have hv : ∀ d ∈ ([[[14, 0], [7]], [[14, 1]]] : List (List Bytes)).flatten, Valid cfg0 d := by
    intro d hd
    simp at hd
    rcases hd with h | h | h <;> subst h <;> exact cfg0_valid _ (by simp) (by simp)
  have h := (decode_encode cfg0 .group [[[14, 0], [7]], [[14, 1]]] (by decide) hv).2
  simpa using h

/-- the hypotheses of `search_iff` are satisfiable, and it finds the marker of height 0 -/
example : ∃ g, search cfg0 ([[[14, 0], [7]], [[14, 1]]].map (frames cfg0)) 0 false = .found g ∧
    decodeAllG cfg0 g = ([[7], [14, 1]], .eof) := by
  have hv : ∀ d ∈ ([[[14, 0], [7]], [[14, 1]]] : List (List Bytes)).flatten, Valid cfg0 d := by
    intro d hd
    simp at hd
    rcases hd with h | h | h <;> subst h <;> exact cfg0_valid _ (by simp) (by simp)
  have hH : heights cfg0 ([[[14, 0], [7]], [[14, 1]]] : List (List Bytes)).flatten = [0, 1] := by
    simp [heights, cfg0]
  obtain ⟨h1, _, h3⟩ := search_iff cfg0 [[[14, 0], [7]], [[14, 1]]] 0 false (by decide) hv
    (by rw [hH]; simp)
  obtain ⟨g, hg⟩ := h1.mp (by rw [hH]; simp)
  refine ⟨g, hg, ?_⟩
  obtain ⟨pre, d, post, e1, e2, e3⟩ := h3 g hg
  -- the marker of height 0 is the first message, so `post` is the rest
  have : pre = [] ∧ post = [[7], [14, 1]] := by
    match pre, e1 with
    | [], e1 => simp at e1; exact ⟨rfl, e1.2.symm⟩
    | [p0], e1 =>
      simp at e1
      obtain ⟨_, e, _⟩ := e1
      subst e
      simp [cfg0] at e2
    | [p0, p1], e1 =>
      simp at e1
      obtain ⟨_, _, e, _⟩ := e1
      subst e
      simp [cfg0] at e2
    | p0 :: p1 :: p2 :: ps, e1 => simp at e1
  rw [this.2] at e3
  exact e3

/-- the collision disjunct is not always false: with the toy checksum two payloads of equal length
collide — and then an edited payload IS accepted (so `edit_detected` cannot drop the disjunct) -/
example : Collision cfg0 := ⟨[1], [2], by decide, rfl⟩

/-! evaluation of the model with the real checksum (not proofs) -/
def cfgC (tab : List (Bytes × PKind)) : Cfg where
  crc := crc32c
  max := 1048600
  parse := fun p => (tab.find? (fun e => e.1 == p)).map (·.2)
  reser := id

#guard (decodeAll (cfgC [([1, 2, 3], .other), ([9], .endHeight 5)]) .group
  (frames (cfgC []) [[1, 2, 3], [9], [1, 2, 3]])).1 == [[1, 2, 3], [9], [1, 2, 3]]
-- every truncation of that log: a prefix of the messages
#guard (List.range 40).all fun t =>
  let c := cfgC [([1, 2, 3], .other), ([9], .endHeight 5)]
  let r := decodeAll c .file ((frames c [[1, 2, 3], [9], [1, 2, 3]]).take t)
  r.1 == ([[1, 2, 3], [9], [1, 2, 3]] : List Bytes).take r.1.length

/-! ## CRC-32C proper: what the real checksum adds

Everything above holds for an arbitrary checksum and therefore carries a `Collision` disjunct
wherever detection rests on the checksum. For the checksum the code uses — CRC-32C, table driven,
exactly the executable `crc32c` the driver and the differential run — the disjunct disappears for
the error classes a CRC detects by construction (`KV/Proofs/Crc32cLinear.lean`: the register update
is GF(2)-linear in (register, data) and one shift step is injective because bit 31 of the reflected
polynomial 0x82F63B78 is set; hence the syndrome of an error confined to ≤ 32 consecutive bits is
`shift^m (window) ≠ 0`). -/

/-- the table-driven CRC-32C (what is executed) is the textbook bit-serial CRC, for EVERY input
(the 256 table entries are the bit-serial image of their index by definition; the byte update
identity `T[(c ^ b) & 0xFF] ^ (c >> 8) = shift^8 (c ^ b)` is proved from linearity) -/
theorem crc32c_table_eq_bitwise (d : Bytes) : crc32c d = crc32cBitwise d := crc32c_eq_bitwise d

/-- … and the bit-serial CRC of the bit stream (each byte least significant bit first) -/
theorem crc32c_eq_bit_stream (d : Bytes) : crc32c d = crc32cBits (bitsLE d) := crc32c_eq_bits d

/-- for CRC-32C proper every single-bit error changes the checksum -/
def single_bit_flip_Statement : Prop :=
  ∀ (d : Bytes) (i : Nat), i < 8 * d.length → crc32c (flipBit d i) ≠ crc32c d

/-- **single_bit_flip.** Proved (was only stated and tested before): for every byte string and
every bit position the flipped string has a different CRC-32C. -/
theorem single_bit_flip : single_bit_flip_Statement := fun d i h => crc32c_flipBit_ne d i h

/-- **burst errors of at most 32 bits change the checksum**, at any bit alignment: two byte strings
whose bit streams (in the order the CRC consumes them: byte by byte, least significant bit first)
differ only inside a window of at most 32 consecutive bits have different CRC-32C values -/
theorem crc32c_detects_burst32 (d d' : Bytes) (x u v y : List Bool) (hd : bitsLE d = x ++ u ++ y)
    (hd' : bitsLE d' = x ++ v ++ y) (hl : u.length = v.length) (h32 : u.length ≤ 32) (hne : d ≠ d') :
    crc32c d ≠ crc32c d' :=
  crc32c_burst32 d d' x u v y hd hd' hl h32 hne

/-- byte-aligned form: replacing up to four consecutive bytes by different ones changes the CRC -/
theorem crc32c_detects_burst4 (p w w' q : Bytes) (hl : w.length = w'.length) (h4 : w.length ≤ 4)
    (hne : w ≠ w') : crc32c (p ++ w ++ q) ≠ crc32c (p ++ w' ++ q) :=
  crc32c_burst4 p w w' q hl h4 hne

/-- **burst32_detected.** After intact records, a record whose payload was hit by a burst error of
at most 32 bits (its checksum and length fields intact; anything may follow) ends the read with
`corrupt` right there — unconditionally: no `Collision` disjunct. Every reader kind. -/
theorem burst32_detected (c : Cfg) (k : RKind) (pre : List Bytes) (d d' tail : Bytes)
    (x u v y : List Bool) (hcrc : c.crc = crc32c) (hmax : c.max < 4294967296)
    (hv : ∀ m ∈ pre, Valid c m) (hd : d.length < 4294967296)
    (hb : bitsLE d = x ++ u ++ y) (hb' : bitsLE d' = x ++ v ++ y) (hl : u.length = v.length)
    (h32 : u.length ≤ 32) (hne : d' ≠ d) :
    decodeAll c k (frames c pre ++ (be32 (c.crc d).toNat ++ be32 d.length ++ (d' ++ tail))) =
      (pre, .corrupt) := by
  have hlen : d'.length = d.length := by
    have h1 := bitsLE_length d
    have h2 := bitsLE_length d'
    rw [hb] at h1; rw [hb'] at h2
    simp only [List.length_append] at h1 h2
    omega
  apply decodeAll_payload_edit c k pre d d' tail hmax hv hd hlen
  rw [hcrc]
  exact crc32c_burst32 d' d x v u y hb' hb hl.symm (by omega) hne

/-- the same for up to four consecutive damaged payload bytes -/
theorem burst4_detected (c : Cfg) (k : RKind) (pre : List Bytes) (p w w' q tail : Bytes)
    (hcrc : c.crc = crc32c) (hmax : c.max < 4294967296) (hv : ∀ m ∈ pre, Valid c m)
    (hd : (p ++ w ++ q).length < 4294967296) (hl : w'.length = w.length) (h4 : w.length ≤ 4)
    (hne : w' ≠ w) :
    decodeAll c k (frames c pre ++ (be32 (c.crc (p ++ w ++ q)).toNat ++ be32 (p ++ w ++ q).length ++
      ((p ++ w' ++ q) ++ tail))) = (pre, .corrupt) := by
  apply decodeAll_payload_edit c k pre _ _ tail hmax hv hd
  · simp only [List.length_append]; omega
  · rw [hcrc]; exact crc32c_burst4 p w' w q hl (by omega) hne

/-- **bit_flip_at_record.** A written log (`pre`, then `d`, then `post`, all valid) with ONE bit
flipped at offset `o` inside the record of `d` — in its checksum field (`o < 32`), its length field
(`32 ≤ o < 64`) or its payload (`64 ≤ o`): the reader returns the intact records before it and then
reports corruption at that record. No `Collision` disjunct. The single conditional case is a flip in
the LENGTH field (which the checksum does not cover) whose new length is within the limit and
selects a payload window — a proper prefix of `d`, or `d` extended by the following bytes — that
has the checksum of `d` and is accepted by the payload parser (`LenFlipAccepted`: the decoder then
returns that other message; `len_flip_counterexample` shows it happens). Every reader kind. -/
theorem bit_flip_at_record (c : Cfg) (k : RKind) (pre : List Bytes) (d : Bytes) (post : List Bytes)
    (o : Nat) (hcrc : c.crc = crc32c) (hmax : c.max < 4294967296)
    (hv : ∀ m ∈ pre ++ d :: post, Valid c m) (ho : o < 8 * (frame c d).length) :
    decodeAll c k (flipBit (frames c (pre ++ d :: post)) (8 * (frames c pre).length + o)) =
        (pre, .corrupt) ∨
      (32 ≤ o ∧ o < 64 ∧ LenFlipAccepted c k d (frames c post) (o - 32)) := by
  have hvp : ∀ m ∈ pre, Valid c m := fun m hm => hv m (by simp [hm])
  have hvd : Valid c d := hv d (by simp)
  rw [flipBit_frames c pre d post o ho, decodeAll_frames c k pre _ hmax hvp]
  rcases decode_flipped_record c k d (frames c post) o hcrc hmax hvd ho with ⟨r, h⟩ | h
  · left; rw [decodeAll_corrupt c k _ r h]; simp
  · exact Or.inr h

/-- **bit_flip_detected.** One flipped bit ANYWHERE in a written log: bit `i` lies in the record of
some `d` at offset `o`, and reading returns exactly the records before it, then `corrupt` — never
a different message, never end-of-log — except for the length-field case of `bit_flip_at_record`. -/
theorem bit_flip_detected (c : Cfg) (k : RKind) (ds : List Bytes) (i : Nat) (hcrc : c.crc = crc32c)
    (hmax : c.max < 4294967296) (hv : ∀ m ∈ ds, Valid c m) (hi : i < 8 * (frames c ds).length) :
    ∃ pre d post o, ds = pre ++ d :: post ∧ i = 8 * (frames c pre).length + o ∧
      o < 8 * (frame c d).length ∧
      (decodeAll c k (flipBit (frames c ds) i) = (pre, .corrupt) ∨
        (32 ≤ o ∧ o < 64 ∧ LenFlipAccepted c k d (frames c post) (o - 32))) := by
  obtain ⟨pre, d, post, o, e1, e2, e3⟩ := frames_bit_split c ds i hi
  refine ⟨pre, d, post, o, e1, e2, e3, ?_⟩
  subst e1; subst e2
  exact bit_flip_at_record c k pre d post o hcrc hmax hv e3

/-- the same through a group reader over ANY division of the damaged log into files (rotation):
what consensus replay reads -/
theorem bit_flip_detected_group (c : Cfg) (ds : List Bytes) (i : Nat) (files : List Bytes)
    (hfiles : files.flatten = flipBit (frames c ds) i) (hcrc : c.crc = crc32c)
    (hmax : c.max < 4294967296) (hv : ∀ m ∈ ds, Valid c m) (hi : i < 8 * (frames c ds).length) :
    ∃ pre d post o, ds = pre ++ d :: post ∧ i = 8 * (frames c pre).length + o ∧
      o < 8 * (frame c d).length ∧
      (decodeAllG c (openAt files 0) = (pre, .corrupt) ∨
        (32 ≤ o ∧ o < 64 ∧ LenFlipAccepted c .group d (frames c post) (o - 32))) := by
  rw [decodeAllG_flat, openAt_flat, List.drop_zero, hfiles]
  exact bit_flip_detected c .group ds i hcrc hmax hv hi

/-- a flip in the checksum field or in the payload is detected unconditionally … -/
theorem bit_flip_crc_or_payload_detected (c : Cfg) (k : RKind) (pre : List Bytes) (d : Bytes)
    (post : List Bytes) (o : Nat) (hcrc : c.crc = crc32c) (hmax : c.max < 4294967296)
    (hv : ∀ m ∈ pre ++ d :: post, Valid c m) (ho : o < 8 * (frame c d).length)
    (hfield : o < 32 ∨ 64 ≤ o) :
    decodeAll c k (flipBit (frames c (pre ++ d :: post)) (8 * (frames c pre).length + o)) =
      (pre, .corrupt) := by
  rcases bit_flip_at_record c k pre d post o hcrc hmax hv ho with h | ⟨h1, h2, _⟩
  · exact h
  · omega

/-- … and so is a flip in the length field whenever the new length exceeds the size limit (every
flip of a high bit: `maxMsgSizeBytes` < 2^21), or, through the group reader, runs past the end of
the log, or is 0 while the parser rejects the empty payload -/
theorem bit_flip_len_detected (c : Cfg) (k : RKind) (pre : List Bytes) (d : Bytes)
    (post : List Bytes) (o : Nat) (hcrc : c.crc = crc32c) (hmax : c.max < 4294967296)
    (hv : ∀ m ∈ pre ++ d :: post, Valid c m) (h1 : 32 ≤ o) (h2 : o < 64)
    (hbig : c.max < be32Val (flipBit (be32 d.length) (o - 32)) ∨
      (k = .group ∧ (d ++ frames c post).length < be32Val (flipBit (be32 d.length) (o - 32))) ∨
      (be32Val (flipBit (be32 d.length) (o - 32)) = 0 ∧ c.parse [] = none)) :
    decodeAll c k (flipBit (frames c (pre ++ d :: post)) (8 * (frames c pre).length + o)) =
      (pre, .corrupt) := by
  have ho : o < 8 * (frame c d).length := by rw [frame_length]; omega
  rcases bit_flip_at_record c k pre d post o hcrc hmax hv ho with
    h | ⟨_, _, w, r, hdec, hw, _, hwm, _, _, hwp⟩
  · exact h
  · exfalso
    rcases hbig with hb | ⟨hk, hb⟩ | ⟨hz, hp⟩
    · omega
    · subst hk
      have := decode_group_len c _ w r hdec
      simp only [List.length_append, be32_length, flipBit_length] at this hb
      omega
    · rw [hz] at hw
      rw [List.eq_nil_of_length_eq_zero hw] at hwp
      exact hwp hp

/-- **repair after a bit flip.** `repairWalFile` on a written log with one flipped bit writes exactly
the records before the damaged one — nothing of the damaged record, nothing after it — under the
hypotheses of `repair_longest_prefix` and with the length-field exception of `bit_flip_at_record`. -/
theorem repair_after_bit_flip (c : Cfg) (ds : List Bytes) (i : Nat) (hcrc : c.crc = crc32c)
    (hmax : c.max < 4294967296) (hcanon : ∀ p, c.parse p ≠ none → c.reser p = p)
    (hempty : c.parse [] = none) (hv : ∀ m ∈ ds, Valid c m) (hi : i < 8 * (frames c ds).length) :
    ∃ pre d post o, ds = pre ++ d :: post ∧ i = 8 * (frames c pre).length + o ∧
      o < 8 * (frame c d).length ∧
      (repair c (flipBit (frames c ds) i) = (frames c pre, true) ∨
        (32 ≤ o ∧ o < 64 ∧ LenFlipAccepted c .file d (frames c post) (o - 32))) := by
  obtain ⟨pre, d, post, o, e1, e2, e3, h⟩ := bit_flip_detected c .file ds i hcrc hmax hv hi
  refine ⟨pre, d, post, o, e1, e2, e3, ?_⟩
  rcases h with h | h
  · left
    rw [(repair_longest_prefix c .file _ hmax hcanon hempty).1, h]
  · exact Or.inr h

/-- the length-field exception is real, with the real checksum: `ff ff ff ff` and `ff ff ff ff 00`
have the same CRC-32C (the register is 0 after the first four bytes and a zero byte keeps it 0), and
their lengths 4 and 5 differ in one bit. With a payload parser that accepts both, flipping the lowest
bit of the length field of the record of `ff ff ff ff 00` makes the decoder return the DIFFERENT
message `ff ff ff ff` (the left-over byte `00` is then reported as corruption by every reader —
since F38 also by the group reader, which used to report a clean end of log there). The
framing protects the payload, not the length field; whether two such payloads both parse is a
question about protobuf, outside this model. -/
theorem len_flip_counterexample :
    decodeAll (cfgC [([0xFF, 0xFF, 0xFF, 0xFF], .other), ([0xFF, 0xFF, 0xFF, 0xFF, 0], .other)]) .group
      (flipBit (frames (cfgC []) [[0xFF, 0xFF, 0xFF, 0xFF, 0]]) 63) = ([[0xFF, 0xFF, 0xFF, 0xFF]], .corrupt) ∧
    decodeAll (cfgC [([0xFF, 0xFF, 0xFF, 0xFF], .other), ([0xFF, 0xFF, 0xFF, 0xFF, 0], .other)]) .file
      (flipBit (frames (cfgC []) [[0xFF, 0xFF, 0xFF, 0xFF, 0]]) 63) = ([[0xFF, 0xFF, 0xFF, 0xFF]], .corrupt) := by
  constructor
  · have h1 := Res.of_asMsg (d := [0xFF, 0xFF, 0xFF, 0xFF]) (rest := [0])
      (r := decode (cfgC [([0xFF, 0xFF, 0xFF, 0xFF], .other), ([0xFF, 0xFF, 0xFF, 0xFF, 0], .other)]) .group
        (flipBit (frames (cfgC []) [[0xFF, 0xFF, 0xFF, 0xFF, 0]]) 63)) (by decide +kernel)
    obtain ⟨x, h2⟩ := Res.of_isCorrupt
      (r := decode (cfgC [([0xFF, 0xFF, 0xFF, 0xFF], .other), ([0xFF, 0xFF, 0xFF, 0xFF, 0], .other)]) .group [0])
      (by decide +kernel)
    rw [decodeAll_msg _ _ _ _ _ h1, decodeAll_corrupt _ _ _ x h2]
  · have h1 := Res.of_asMsg (d := [0xFF, 0xFF, 0xFF, 0xFF]) (rest := [0])
      (r := decode (cfgC [([0xFF, 0xFF, 0xFF, 0xFF], .other), ([0xFF, 0xFF, 0xFF, 0xFF, 0], .other)]) .file
        (flipBit (frames (cfgC []) [[0xFF, 0xFF, 0xFF, 0xFF, 0]]) 63)) (by decide +kernel)
    obtain ⟨x, h2⟩ := Res.of_isCorrupt
      (r := decode (cfgC [([0xFF, 0xFF, 0xFF, 0xFF], .other), ([0xFF, 0xFF, 0xFF, 0xFF, 0], .other)]) .file [0])
      (by decide +kernel)
    rw [decodeAll_msg _ _ _ _ _ h1, decodeAll_corrupt _ _ _ x h2]

/-- … and there the exceptional disjunct of `bit_flip_at_record` is what holds (so it cannot be
dropped from the theorem) -/
example : LenFlipAccepted
    (cfgC [([0xFF, 0xFF, 0xFF, 0xFF], .other), ([0xFF, 0xFF, 0xFF, 0xFF, 0], .other)]) .group
    [0xFF, 0xFF, 0xFF, 0xFF, 0] [] 31 :=
  ⟨[0xFF, 0xFF, 0xFF, 0xFF], [0], Res.of_asMsg (by decide +kernel), by decide, by decide, by decide,
    by decide, by decide +kernel, by decide⟩

/-! ### non-vacuity of the CRC-32C theorems -/

/-- real checksum, real size limit, a parser accepting two payloads -/
def cfgT : Cfg := cfgC [([1, 2, 3], .other), ([9], .endHeight 5)]

theorem cfgT_valid : ∀ m ∈ ([[1, 2, 3]] ++ [9] :: [[1, 2, 3]] : List Bytes), Valid cfgT m := by
  intro m hm
  simp at hm
  rcases hm with h | h | h <;> subst h <;> exact ⟨by decide, by decide, by decide⟩

/-- the hypotheses of `bit_flip_at_record` are satisfiable: a flip in the checksum field of the
second of three records, through the group reader -/
example : decodeAll cfgT .group (flipBit (frames cfgT ([[1, 2, 3]] ++ [9] :: [[1, 2, 3]]))
    (8 * (frames cfgT [[1, 2, 3]]).length + 12)) = ([[1, 2, 3]], .corrupt) :=
  bit_flip_crc_or_payload_detected cfgT .group [[1, 2, 3]] [9] [[1, 2, 3]] 12 rfl (by decide)
    cfgT_valid (by rw [frame_length]; decide) (Or.inl (by omega))

/-- … a flip in the payload of the first record, through a file -/
example : decodeAll cfgT .file (flipBit (frames cfgT ([] ++ [1, 2, 3] :: [[9], [1, 2, 3]]))
    (8 * (frames cfgT []).length + 70)) = ([], .corrupt) :=
  bit_flip_crc_or_payload_detected cfgT .file [] [1, 2, 3] [[9], [1, 2, 3]] 70 rfl (by decide)
    (by
      intro m hm
      simp at hm
      rcases hm with h | h | h <;> subst h <;> exact ⟨by decide, by decide, by decide⟩)
    (by rw [frame_length]; decide) (Or.inr (by omega))

/-- … a flip of the top bit of a length field: the new length 2^31 + 1 is above the limit -/
example : decodeAll cfgT .group (flipBit (frames cfgT ([[1, 2, 3]] ++ [9] :: [[1, 2, 3]]))
    (8 * (frames cfgT [[1, 2, 3]]).length + 32)) = ([[1, 2, 3]], .corrupt) :=
  bit_flip_len_detected cfgT .group [[1, 2, 3]] [9] [[1, 2, 3]] 32 rfl (by decide)
    cfgT_valid (by omega) (by omega) (Or.inl (by decide))

/-- `single_bit_flip` and the burst theorems on concrete data -/
example : crc32c (flipBit [1, 2, 3] 5) ≠ crc32c [1, 2, 3] := single_bit_flip [1, 2, 3] 5 (by decide)

example : crc32c ([7] ++ [1, 2, 3, 4] ++ [8, 9]) ≠ crc32c ([7] ++ [0xFF, 2, 3, 0] ++ [8, 9]) :=
  crc32c_detects_burst4 [7] [1, 2, 3, 4] [0xFF, 2, 3, 0] [8, 9] rfl (by decide) (by decide)

/-- an unaligned burst: bits 5…7 of byte 0 and bit 0 of byte 1 (a 4-bit window across a byte
boundary) -/
example : crc32c [0x00, 0x00, 0x55] ≠ crc32c [0xA0, 0x01, 0x55] :=
  crc32c_detects_burst32 [0x00, 0x00, 0x55] [0xA0, 0x01, 0x55]
    [false, false, false, false, false] [false, false, false, false] [true, false, true, true]
    ([false, false, false, false, false, false, false] ++ bitsLE [0x55])
    (by decide) (by decide) rfl (by decide) (by decide)

/-! ## torn tails: a truncation inside a record is never a clean end of log (F38)

`Decode` reports end-of-log only when its first read returns NOTHING (`decode_eof_nil`). Before the
repair F38 the group reader's `(n < 4, io.EOF)` at the end of the group was taken for it: a log torn
1-3 bytes into a record read as intact, no repair ran, the next life appended behind the stray bytes
(`short_fragment_clean_eof_counterexample_old_rule`; consequences in `KV/Props/C05.lean`). -/

/-- **torn_tail_never_clean_eof.** Through the GROUP reader (consensus replay, `SearchForEndHeight`):
every truncation of a written log that is not at a record boundary — the cut leaves ANY number
≥ 1 of bytes of the next record, in particular 1, 2 or 3 — reads as exactly the complete records
and then `corrupt`; never `eof`, never another message. No collision disjunct. -/
theorem torn_tail_never_clean_eof (c : Cfg) (ds : List Bytes) (t : Nat) (hmax : c.max < 4294967296)
    (hv : ∀ d ∈ ds, Valid c d) (ht : t < (frames c ds).length)
    (hcut : ∀ j, t ≠ (frames c (ds.take j)).length) :
    ∃ j, decodeAll c .group ((frames c ds).take t) = (ds.take j, .corrupt) ∧
      (frames c (ds.take j)).length < t ∧ t < (frames c (ds.take (j + 1))).length := by
  obtain ⟨j, p, hsplit, hp⟩ := take_frames c ds t
  have hvj : ∀ d ∈ ds.take j, Valid c d := fun d hd => hv d (List.mem_of_mem_take hd)
  have hlen := congrArg List.length hsplit
  rw [List.length_take, List.length_append, Nat.min_eq_left (by omega)] at hlen
  rcases hp with hp | ⟨d, q, hdj, hpq, hq⟩
  · subst hp
    exact absurd (by simpa using hlen) (hcut j)
  · have hpne : p ≠ [] := by
      intro h0; subst h0
      exact absurd (by simpa using hlen) (hcut j)
    have hd : d.length < 4294967296 := by
      have := (hv d (List.mem_of_getElem? hdj)).2.1; omega
    refine ⟨j, ?_, ?_, ?_⟩
    · rw [hsplit, decodeAll_frames c .group (ds.take j) p hmax hvj,
        decodeAll_torn_group_corrupt c d p q hd hpq hpne hq]
      simp
    · have : 0 < p.length := List.length_pos_iff.mpr hpne
      omega
    · have hq' : 0 < q.length := List.length_pos_iff.mpr hq
      have hpq' := congrArg List.length hpq
      rw [List.length_append] at hpq'
      have h2 := congrArg List.length (frames_take_succ c ds j d hdj)
      rw [List.length_append] at h2
      omega

/-- **truncate_prefix_group_verdict** (`truncate_prefix_group` with the verdict): a cut at a record
boundary (or beyond the end) reads as the complete records then `eof`; a cut anywhere else as the
complete records then `corrupt`. The two cases exclude each other, so `eof` ⇔ record boundary. -/
theorem truncate_prefix_group_verdict (c : Cfg) (ds : List Bytes) (t : Nat)
    (hmax : c.max < 4294967296) (hv : ∀ d ∈ ds, Valid c d) :
    ∃ j, (decodeAll c .group ((frames c ds).take t) = (ds.take j, .eof) ∧
        (frames c ds).take t = frames c (ds.take j)) ∨
      (decodeAll c .group ((frames c ds).take t) = (ds.take j, .corrupt) ∧
        (frames c (ds.take j)).length < t ∧ t < (frames c (ds.take (j + 1))).length) := by
  by_cases hb : t < (frames c ds).length ∧ ∀ j, t ≠ (frames c (ds.take j)).length
  · obtain ⟨j, h1, h2, h3⟩ := torn_tail_never_clean_eof c ds t hmax hv hb.1 hb.2
    exact ⟨j, Or.inr ⟨h1, h2, h3⟩⟩
  · have hex : ∃ j, (frames c ds).take t = frames c (ds.take j) := by
      by_cases h1 : t < (frames c ds).length
      · have : ¬ ∀ j, t ≠ (frames c (ds.take j)).length := fun h => hb ⟨h1, h⟩
        have : ∃ j, t = (frames c (ds.take j)).length := by
          apply Classical.byContradiction
          intro hne
          exact this (fun j hj => hne ⟨j, hj⟩)
        obtain ⟨j, hj⟩ := this
        refine ⟨j, ?_⟩
        have hs : frames c ds = frames c (ds.take j) ++ frames c (ds.drop j) := by
          rw [← frames_append, List.take_append_drop]
        rw [hs, hj, List.take_left]
      · exact ⟨ds.length, by rw [List.take_of_length_le (by omega), List.take_length]⟩
    obtain ⟨j, hj⟩ := hex
    refine ⟨j, Or.inl ⟨?_, hj⟩⟩
    have hvj : ∀ d ∈ ds.take j, Valid c d := fun d hd => hv d (List.mem_of_mem_take hd)
    have := decodeAll_frames c .group (ds.take j) [] hmax hvj
    rw [hj]
    simpa [decodeAll_nil] using this

/-- **torn_tail_plain_readers.** The same cut through ANY reader kind (`file` = `*os.File` as used by
`repairWalFile`, `bytes`): these readers never return bytes together with end-of-input (a short read
has a nil error and `Decode` zero-fills), so the old rule was not wrong for them; a torn record is
`corrupt`, or — when the lost tail was all zeros and the zero-filled buffer restores it — the
record itself followed by `eof`, or the checksum collides. When the cut leaves at most 8 bytes of
the record (torn HEADER: 1-3 bytes inside the checksum field, or inside the length field) and the
parser rejects the empty payload it is always `corrupt`: the zero-filled field is followed by a
read that meets the end of the input ("failed to read length" / "failed to read data"). -/
theorem torn_tail_plain_readers (c : Cfg) (k : RKind) (ds : List Bytes) (t : Nat)
    (hmax : c.max < 4294967296) (hv : ∀ d ∈ ds, Valid c d) (ht : t < (frames c ds).length)
    (hcut : ∀ j, t ≠ (frames c (ds.take j)).length) :
    ∃ j, (frames c (ds.take j)).length < t ∧ t < (frames c (ds.take (j + 1))).length ∧
      (decodeAll c k ((frames c ds).take t) = (ds.take j, .corrupt) ∨
        decodeAll c k ((frames c ds).take t) = (ds.take (j + 1), .eof) ∨ Collision c) ∧
      (c.parse [] = none → t ≤ (frames c (ds.take j)).length + 8 →
        decodeAll c k ((frames c ds).take t) = (ds.take j, .corrupt)) := by
  obtain ⟨j, p, hsplit, hp⟩ := take_frames c ds t
  have hvj : ∀ d ∈ ds.take j, Valid c d := fun d hd => hv d (List.mem_of_mem_take hd)
  have hlen := congrArg List.length hsplit
  rw [List.length_take, List.length_append, Nat.min_eq_left (by omega)] at hlen
  rcases hp with hp | ⟨d, q, hdj, hpq, hq⟩
  · subst hp
    exact absurd (by simpa using hlen) (hcut j)
  · have hpne : p ≠ [] := by
      intro h0; subst h0
      exact absurd (by simpa using hlen) (hcut j)
    have hppos : 0 < p.length := List.length_pos_iff.mpr hpne
    have hq' : 0 < q.length := List.length_pos_iff.mpr hq
    have hpq' := congrArg List.length hpq
    rw [List.length_append] at hpq'
    have h2 := congrArg List.length (frames_take_succ c ds j d hdj)
    rw [List.length_append] at h2
    refine ⟨j, by omega, by omega, ?_, ?_⟩
    · rw [hsplit, decodeAll_frames c k (ds.take j) p hmax hvj]
      rcases decodeAll_torn_verdict c k d p q hpq hpne hq with h | h | h
      · left; rw [h]; simp
      · right; left
        rw [h, List.take_add_one, hdj]
        simp
      · exact Or.inr (Or.inr h)
    · intro hempty h8
      obtain ⟨r, hr⟩ := decode_torn_header c k p hempty hpne (by omega)
      rw [hsplit, decodeAll_frames c k (ds.take j) p hmax hvj, decodeAll_corrupt c k p r hr]
      simp

/-- **short_fragment_clean_eof_counterexample_old_rule** (regression, F38). One record, then the
first byte of a second record, through the group reader: the decoder as it WAS (`decodeAllOld`:
`io.EOF` after the first read = end of log, whatever was read) reports a clean end of log; the
decoder as it is reports corruption (so that `OnStart` repairs the file before appending). -/
theorem short_fragment_clean_eof_counterexample_old_rule :
    decodeAllOld cfgT .group (frames cfgT [[1, 2, 3]] ++ (frame cfgT [9]).take 1) =
      ([[1, 2, 3]], .eof) ∧
    decodeAll cfgT .group (frames cfgT [[1, 2, 3]] ++ (frame cfgT [9]).take 1) =
      ([[1, 2, 3]], .corrupt) := by
  constructor
  · decide +kernel
  · have hv : ∀ d ∈ ([[1, 2, 3]] : List Bytes), Valid cfgT d := by
      intro d hd; exact cfgT_valid d (by simp at hd; subst hd; simp)
    rw [decodeAll_frames cfgT .group _ _ (by decide) hv,
      decodeAll_torn_group_corrupt cfgT [9] _ ((frame cfgT [9]).drop 1) (by decide)
        (List.take_append_drop 1 _) (by simp [frame, be32]) (by simp [frame, be32])]
    rfl

/-- the old rule was wrong only for the group reader: the plain readers never return bytes together
with end-of-input, the two decoders agree on every input -/
theorem old_rule_agrees_plain_readers (c : Cfg) (k : RKind) (s : Bytes) (hk : k ≠ .group) :
    decodeOld c k s = decode c k s := decodeOld_eq_plain c k s hk

-- evaluation on a sample (not a proof)
#guard (List.range (8 * 12)).all fun i =>
  let d : Bytes := [1, 2, 3, 4, 5, 6, 7, 8, 9, 10, 11, 12]
  crc32c (flipBit d i) != crc32c d

end KV.Wal
