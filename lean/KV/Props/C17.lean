import KV.Proofs.TxPoolAllInv
/-!
# C17 — the transaction pool only offers executable transactions and respects its limits

Model: `KV/Model/TxPool.lean`.  Proved here, for every list / every op sequence of any length:

1. `caps_are_bounds` — after any sequence of `Add/Forward/Filter/Cap/Remove/Ready` on a fresh
   `txList` the cached `costcap`/`gascap` dominate the cost/gas of every member and the list is a
   nonce-indexed map (this is what makes `Filter`'s early exit sound);
2. `filter_sound` (+ `filter_strict_gapfree`) — after `Filter costLimit gasLimit` every remaining
   member is affordable and within the gas limit, only unpayable members were removed, and in
   strict mode nothing above a removed nonce remains: a gap-free list stays gap-free;
3. `replace_rule` — a same-nonce replacement happens iff
   `price ≥ old×(100+bump)/100 ∧ price > old`; otherwise the list is unchanged;
4. `forward_ready` — `Ready start` returns a maximal gap-free nonce run, which starts at `start`
   once `Forward start` has been applied.
5. `pool_inv : pool_invStatement` — every clause of the pool invariant over `Reach`
   (`pool_inv_gapfree`, `pool_inv_affordable`, `pool_inv_nonce`, `pool_inv_disjoint`(`_id`),
   `pool_inv_all_listed`: `all` = pending ⊎ queue with unique ids);
6. `reject_noop` — in every reachable state every branch of `add` that answers with an error, of
   whatever kind, returns the pool unchanged (with the repair of F12: eligibility of a same-nonce
   replacement is tested before room is made); `reject_noop_counterexample` keeps the old order
   (`addOld`) as a regression theorem.
-/
namespace KV.TxPool
open TxList

/-! ## 1. caps are bounds -/
theorem wf_apply (l : TxList) (op : TxList.Op) (h : l.WF) : (l.apply op).WF := by
  cases op with
  | add t b => exact wf_add l t b h
  | forward th => exact wf_forward l th h
  | filter c g => exact wf_filter l c g h
  | cap k => exact wf_cap l k h
  | remove n => exact wf_remove l n h
  | ready s => exact wf_ready l s h

theorem wf_foldl (ops : List TxList.Op) (l : TxList) (h : l.WF) : (ops.foldl TxList.apply l).WF := by
  induction ops generalizing l with
  | nil => exact h
  | cons op rest ih => exact ih _ (wf_apply l op h)

/-- **caps_are_bounds.** After any operation sequence on a fresh list (strict or not), every member
costs at most `costcap` and uses at most `gascap` gas, and nonces are strictly increasing. -/
theorem caps_are_bounds (strict : Bool) (ops : List TxList.Op) :
    let l := ops.foldl TxList.apply (TxList.new strict)
    (∀ t ∈ l.txs, t.cost ≤ l.costcap ∧ t.gas ≤ l.gascap) ∧ Sorted l.txs := by
  have := wf_foldl ops (TxList.new strict) (wf_new strict)
  exact ⟨this.2, this.1⟩

/-! ## 2. Filter is sound -/

/-- **filter_sound.** On a list whose caps are bounds (every reachable list, by `caps_are_bounds`):
after `Filter costLimit gasLimit`
* every remaining member is affordable and within the gas limit — also through the early exit;
* `removed` are members that were unpayable, `invalids` are members;
* every payable member is still there unless it was invalidated;
* in strict mode no member above a removed nonce remains, and `invalids` are exactly above one. -/
theorem filter_sound (l : TxList) (hb : Bounded l) (c g : Nat) :
    (∀ t ∈ (l.filter c g).1.txs, t.cost ≤ c ∧ t.gas ≤ g ∧ t ∈ l.txs) ∧
    (∀ x ∈ (l.filter c g).2.1, x ∈ l.txs ∧ (x.cost > c ∨ x.gas > g)) ∧
    (∀ t ∈ l.txs, t.cost ≤ c → t.gas ≤ g → t ∈ (l.filter c g).1.txs ∨ t ∈ (l.filter c g).2.2) ∧
    (l.strict = true → ∀ x ∈ (l.filter c g).2.1, ∀ t ∈ (l.filter c g).1.txs, ¬ x.nonce < t.nonce) ∧
    (∀ t ∈ (l.filter c g).2.2, t ∈ l.txs ∧ l.strict = true ∧ ∃ x ∈ (l.filter c g).2.1, x.nonce < t.nonce) := by
  unfold TxList.filter
  split
  · rename_i hcap
    refine ⟨?_, by simp, ?_, by simp, by simp⟩
    · intro t ht
      have := hb t ht
      exact ⟨by omega, by omega, ht⟩
    · intro t ht _ _; exact Or.inl ht
  · simp only
    have hkeep : ∀ t, t ∈ l.txs.filter (fun t => !unpayable c g t) → t.cost ≤ c ∧ t.gas ≤ g ∧ t ∈ l.txs := by
      intro t ht
      simp only [List.mem_filter] at ht
      have := not_unpayable ht.2
      exact ⟨this.1, this.2, ht.1⟩
    have hrem : ∀ x, x ∈ l.txs.filter (unpayable c g) → x ∈ l.txs ∧ (x.cost > c ∨ x.gas > g) := by
      intro x hx
      simp only [List.mem_filter, unpayable, Bool.or_eq_true, decide_eq_true_eq] at hx
      exact ⟨hx.1, by omega⟩
    have hpay : ∀ t, t ∈ l.txs → t.cost ≤ c → t.gas ≤ g → t ∈ l.txs.filter (fun t => !unpayable c g t) := by
      intro t ht h1 h2
      simp only [List.mem_filter, unpayable]
      refine ⟨ht, ?_⟩
      simp; omega
    split
    · rename_i hempty
      refine ⟨fun t ht => hkeep t ht, by simp, ?_, by simp, by simp⟩
      intro t ht h1 h2; exact Or.inl (hpay t ht h1 h2)
    · rename_i hne
      split
      · rename_i hstrict
        refine ⟨?_, fun x hx => hrem x hx, ?_, ?_, ?_⟩
        · intro t ht
          simp only [List.mem_filter] at ht
          exact hkeep t (by simp only [List.mem_filter]; exact ht.1)
        · intro t ht h1 h2
          have hk := hpay t ht h1 h2
          by_cases hgt : t.nonce > lowest (l.txs.filter (unpayable c g))
          · right; simp only [List.mem_filter]; exact ⟨by simpa [List.mem_filter] using hk, by simpa using hgt⟩
          · left; simp only [List.mem_filter]; exact ⟨by simpa [List.mem_filter] using hk, by simpa using hgt⟩
        · intro _ x hx t ht
          simp only [List.mem_filter] at ht
          have hlow : lowest (l.txs.filter (unpayable c g)) ≤ x.nonce := lowest_le hx
          have : ¬ t.nonce > lowest (l.txs.filter (unpayable c g)) := by simpa using ht.2
          omega
        · intro t ht
          simp only [List.mem_filter] at ht
          refine ⟨ht.1.1, hstrict, ?_⟩
          have hne' : l.txs.filter (unpayable c g) ≠ [] := by
            intro h; rw [h] at hne; simp at hne
          obtain ⟨x, hx, hxe⟩ := lowest_mem hne'
          refine ⟨x, hx, ?_⟩
          have : t.nonce > lowest (l.txs.filter (unpayable c g)) := by simpa using ht.2
          omega
      · refine ⟨fun t ht => hkeep t ht, fun x hx => hrem x hx, ?_, ?_, by simp⟩
        · intro t ht h1 h2; exact Or.inl (hpay t ht h1 h2)
        · intro hs; rename_i hns; exact absurd hs hns

theorem mem_removed (l : TxList) (hb : Bounded l) (c g : Nat) (u : Tx) (hu : u ∈ l.txs)
    (hup : ¬(u.cost ≤ c ∧ u.gas ≤ g)) : u ∈ (l.filter c g).2.1 := by
  unfold TxList.filter
  split
  · rename_i hcap
    have := hb u hu
    omega
  · simp only
    have hmem : u ∈ l.txs.filter (unpayable c g) := by
      simp only [List.mem_filter, unpayable, Bool.or_eq_true, decide_eq_true_eq]
      exact ⟨hu, by omega⟩
    split
    · rename_i hempty
      rw [List.isEmpty_iff] at hempty
      rw [hempty] at hmem; simp at hmem
    · split <;> exact hmem

/-- **filter_sound, strict part.** A strict (pending) list whose nonces are `s, s+1, …` still has
nonces `s, s+1, …` after `Filter`: the executable prefix survives, nothing behind a hole does. -/
theorem filter_strict_gapfree (l : TxList) (hb : Bounded l) (hstrict : l.strict = true) (s c g : Nat)
    (hg : GapFree s l.txs) : GapFree s (l.filter c g).1.txs := by
  have hs := filter_sound l hb c g
  obtain ⟨h1, h2, h3, h4, h5⟩ := hs
  refine gapfree_of_downclosed s l.txs _ hg (filter_sublist_txs l c g) ?_
  intro t ht u hu hlt
  -- u is below a kept t: if u were missing it was removed (then t is above a removed nonce) or
  -- invalidated (then u, hence t, is above a removed nonce)
  by_cases hup : u.cost ≤ c ∧ u.gas ≤ g
  · rcases h3 u hu hup.1 hup.2 with h | h
    · exact h
    · obtain ⟨_, _, x, hx, hxl⟩ := h5 u h
      exact absurd (by omega : x.nonce < t.nonce) (h4 hstrict x hx t ht)
  · exact absurd hlt (h4 hstrict u (mem_removed l hb c g u hu hup) t ht)

/-! ## 3. the replacement rule -/

/-- **replace_rule.** With a transaction `old` in place at the same nonce, `Add` inserts the new one
iff its price reaches `old.price × (100 + bump) / 100` (integer division) **and** exceeds
`old.price`; then `old` is returned and overwritten, otherwise the list is unchanged. -/
theorem canReplace_iff (old t : Tx) (bump : Nat) :
    canReplace old t bump = true ↔ (t.price ≥ (100 + bump) * old.price / 100 ∧ t.price > old.price) := by
  unfold canReplace threshold
  generalize (100 + bump) * old.price / 100 = th
  by_cases h1 : old.price ≥ t.price <;> by_cases h2 : t.price < th <;> simp [h1, h2] <;> omega

theorem replace_rule (l : TxList) (t old : Tx) (bump : Nat) (h : l.get? t.nonce = some old) :
    ((l.add t bump).2.1 = true ↔ (t.price ≥ (100 + bump) * old.price / 100 ∧ t.price > old.price)) ∧
    ((l.add t bump).2.1 = false → (l.add t bump).1 = l ∧ (l.add t bump).2.2 = none) ∧
    ((l.add t bump).2.1 = true → (l.add t bump).2.2 = some old ∧ (l.add t bump).1.txs = put t l.txs) := by
  unfold TxList.add
  simp only [h]
  by_cases hc : canReplace old t bump = true
  · simp only [hc, if_true]
    refine ⟨?_, by simp, by simp⟩
    have := (canReplace_iff old t bump).mp hc
    exact ⟨fun _ => this, fun _ => trivial⟩
  · simp only [hc]
    refine ⟨?_, by simp, by simp⟩
    constructor
    · intro h'; simp at h'
    · intro h'; exact absurd ((canReplace_iff old t bump).mpr h') hc

/-- after a successful replacement in a nonce-indexed list the old transaction is gone: the only
entry with that nonce is the new one -/
theorem replace_removes_old (l : TxList) (hs : Sorted l.txs) (t : Tx) (bump : Nat)
    (hins : (l.add t bump).2.1 = true) :
    t ∈ (l.add t bump).1.txs ∧ ∀ x ∈ (l.add t bump).1.txs, x.nonce = t.nonce → x = t := by
  unfold TxList.add at hins ⊢
  simp only at hins ⊢
  split
  · rename_i o ho
    rw [ho] at hins
    simp only at hins
    split
    · exact ⟨mem_put_self _ _, fun x hx hn => put_unique hs hx hn⟩
    · rename_i hc; simp [hc] at hins
  · exact ⟨mem_put_self _ _, fun x hx hn => put_unique hs hx hn⟩

/-- without a transaction at that nonce `Add` always inserts -/
theorem add_fresh (l : TxList) (t : Tx) (bump : Nat) (h : l.get? t.nonce = none) :
    (l.add t bump).2.1 = true ∧ (l.add t bump).2.2 = none := by
  unfold TxList.add; simp [h]

/-! ## 4. Forward / Ready -/

/-- **forward_ready.** `Ready start` on a nonce-indexed list splits it into `ready ++ rest`;
`ready` is a gap-free nonce run beginning at the lowest nonce, it is maximal, it is non-empty
exactly when the lowest nonce is `≤ start`, and it begins at `start` itself when no nonce is below
`start` (which is what `Forward start` establishes). -/
theorem forward_ready (l : TxList) (start : Nat) :
    (l.ready start).2 ++ (l.ready start).1.txs = l.txs ∧
    (∀ h, l.txs.head? = some h →
      (l.ready start).2.map (·.nonce) = List.range' h.nonce (l.ready start).2.length ∧
      ((l.ready start).2 ≠ [] ↔ h.nonce ≤ start) ∧
      (∀ t, (l.ready start).1.txs.head? = some t → (l.ready start).2 ≠ [] →
        t.nonce ≠ h.nonce + (l.ready start).2.length)) ∧
    ((∀ t ∈ l.txs, start ≤ t.nonce) →
      (l.ready start).2.map (·.nonce) = List.range' start (l.ready start).2.length) := by
  unfold TxList.ready
  split
  · rename_i hnil
    simp [hnil]
  · rename_i t ts heq
    by_cases hgt : t.nonce > start
    · simp only [hgt, if_true]
      refine ⟨by simp, ?_, by simp⟩
      intro h hh
      rw [heq] at hh; simp at hh; subst hh
      refine ⟨by simp, ?_, by simp⟩
      simp; omega
    · simp only [hgt, if_false]
      have hne : (run t.nonce l.txs).1 ≠ [] := by
        rw [heq]; simp [run]
      refine ⟨run_append _ _, ?_, ?_⟩
      · intro h hh
        rw [heq] at hh; simp at hh; subst hh
        refine ⟨run_nonces _ _, ?_, ?_⟩
        · constructor
          · intro _; omega
          · intro _; exact hne
        · intro u hu _
          exact run_maximal _ _ u hu
      · intro hall
        have : start ≤ t.nonce := hall t (by rw [heq]; simp)
        have heq' : t.nonce = start := by omega
        rw [← heq']
        exact run_nonces _ _

/-- `Forward start` then `Ready start`: the promoted run starts exactly at `start` -/
theorem forward_then_ready (l : TxList) (start : Nat) :
    let r := ((l.forward start).1).ready start
    r.2.map (·.nonce) = List.range' start r.2.length :=
  (forward_ready (l.forward start).1 start).2.2 (fun t ht => ((forward_spec l start).1 t ht).1)

/-! ## 5. the pool invariant -/

namespace Pool

/-- the state clauses of C17 on a pool model state -/
structure Inv (p : Pool) : Prop where
  /-- pending per sender: gap-free from the state nonce -/
  pending_gapfree : ∀ e ∈ p.pending, GapFree (p.stateNonce e.1) e.2.txs
  /-- every pending transaction is individually affordable and fits the block gas limit -/
  pending_payable : ∀ e ∈ p.pending, ∀ t ∈ e.2.txs, t.cost ≤ p.balance e.1 ∧ t.gas ≤ p.chain.gasLimit ∧ t.sender = e.1
  /-- no transaction is both pending and queued -/
  disjoint : ∀ e ∈ p.pending, ∀ f ∈ p.queue, ∀ t ∈ e.2.txs, ∀ u ∈ f.2.txs, t.id ≠ u.id
  /-- `all` = pending ⊎ queue -/
  all_listed : ∀ t, (∃ loc, (t, loc) ∈ p.all) ↔
    ((∃ e ∈ p.pending, t ∈ e.2.txs) ∨ (∃ f ∈ p.queue, t ∈ f.2.txs))
  /-- nothing below the state nonce remains -/
  no_stale : ∀ f ∈ p.queue, ∀ t ∈ f.2.txs, p.stateNonce f.1 ≤ t.nonce ∧ t.sender = f.1

/-- the operations of the pool model -/
inductive Op where
  | addTxs (txs : List Tx) (loc : Bool)
  | reset (c : Chain) (reinject : List Tx)
  | setGasPrice (price : Nat)
  | expire (a : Nat)

/-- the successors the (relational) model allows -/
def succs (p : Pool) : Op → List Pool
  | .addTxs txs loc => (p.addTxs txs loc).map (·.1)
  | .reset c reinject => p.resetReinject c reinject
  | .setGasPrice pr => [p.setGasPrice pr]
  | .expire a => [p.expire a]

inductive Reach (cfg : Cfg) (c : Chain) : Pool → Prop where
  | init : Reach cfg c { cfg := cfg, chain := c, gasPrice := cfg.priceLimit }
  | step {p q : Pool} (op : Op) : Reach cfg c p → q ∈ p.succs op → Reach cfg c q

/-- **pool_inv** (full statement); proved as `pool_inv` at the end of this section, clause by
clause: `pool_inv_gapfree`, `pool_inv_affordable`, `pool_inv_disjoint_id`, `pool_inv_all_listed`,
`pool_inv_nonce`. -/
def pool_invStatement : Prop :=
  ∀ (cfg : Cfg) (c : Chain) (p : Pool), Reach cfg c p → Inv p

/-! ### proved clauses

`Good (strongPhi p.chain) p` (see `KV/Proofs/TxPoolInv*.lean`) is an invariant of every operation
of the relational pool model: account maps are key-sorted; every pending and queued list is
nonce-indexed with caps that dominate its members; members are filed under their sender; no
pending or queued nonce is below the sender's state nonce; every pending transaction is
individually affordable from the sender's balance and within the block gas limit.  A head reset
re-establishes it for the new chain view (promotion forwards/filters every queued account,
demotion forwards/filters every pending account — `Filter`'s early exit being sound because the
caps are bounds).  The F12 behaviour (room made before the replacement test) does not affect these
clauses: `add` keeps the invariant in every branch, including the rejected one. -/

theorem good_init (cfg : Cfg) (c : Chain) :
    Good (strongPhi c) { cfg := cfg, chain := c, gasPrice := cfg.priceLimit } :=
  ⟨rfl, by simp [KeysSorted], by simp [KeysSorted], by intro a l h; simp [amGet] at h,
   by intro a l h; simp [amGet] at h⟩

theorem good_succs {p q : Pool} (h : Good (strongPhi p.chain) p) (op : Op) (hq : q ∈ p.succs op) :
    Good (strongPhi q.chain) q := by
  cases op with
  | addTxs txs loc =>
    simp only [succs, List.mem_map] at hq
    obtain ⟨r, hr, he⟩ := hq
    subst he
    have := good_addTxs h (strongPhi_PQ _) txs loc r hr
    rw [this.chain]; exact this
  | reset c' reinject =>
    have := good_resetReinject h c' reinject q hq
    rw [this.chain]; exact this
  | setGasPrice pr =>
    simp only [succs, List.mem_singleton] at hq
    subst hq
    have := good_setGasPrice h (strongPhi_PQ _) pr
    rw [this.chain]; exact this
  | expire a =>
    simp only [succs, List.mem_singleton] at hq
    subst hq
    have := good_expire h (strongPhi_PQ _) a
    rw [this.chain]; exact this

/-- every reachable state satisfies the per-list invariant for its current chain view -/
theorem reach_good {cfg : Cfg} {c : Chain} {p : Pool} (h : Reach cfg c p) :
    Good (strongPhi p.chain) p := by
  induction h with
  | init => exact good_init cfg c
  | step op _ hq ih => exact good_succs ih op hq

/-- **pool_inv_affordable.** In every reachable state every pending transaction is individually
affordable from its sender's current balance (value + gas × price), fits the block gas limit and
is filed under its sender. -/
theorem pool_inv_affordable {cfg : Cfg} {c : Chain} {p : Pool} (h : Reach cfg c p) :
    ∀ e ∈ p.pending, ∀ t ∈ e.2.txs,
      t.cost ≤ p.balance e.1 ∧ t.gas ≤ p.chain.gasLimit ∧ t.sender = e.1 := by
  intro e he t ht
  have hg := reach_good h
  have := (hg.pend e.1 e.2 (amGet_of_mem hg.pkeys he)).2 t ht
  exact ⟨this.2.2.1, this.2.2.2, this.1⟩

/-- **pool_inv_nonce.** In every reachable state no pending and no queued transaction has a nonce
below its sender's state nonce (mined / stale transactions are gone), and queued transactions are
filed under their sender. -/
theorem pool_inv_nonce {cfg : Cfg} {c : Chain} {p : Pool} (h : Reach cfg c p) :
    (∀ e ∈ p.pending, ∀ t ∈ e.2.txs, p.stateNonce e.1 ≤ t.nonce) ∧
    (∀ f ∈ p.queue, ∀ t ∈ f.2.txs, p.stateNonce f.1 ≤ t.nonce ∧ t.sender = f.1) := by
  have hg := reach_good h
  refine ⟨?_, ?_⟩
  · intro e he t ht
    exact ((hg.pend e.1 e.2 (amGet_of_mem hg.pkeys he)).2 t ht).2.1
  · intro f hf t ht
    have := (hg.que f.1 f.2 (amGet_of_mem hg.qkeys hf)).2 t ht
    exact ⟨this.2, this.1⟩

/-- **pool_inv_wf.** In every reachable state each account has at most one pending and one queued
entry, and every list is nonce-indexed (strictly increasing nonces: a replaced transaction is
gone from its list) with `costcap`/`gascap` dominating its members. -/
theorem pool_inv_wf {cfg : Cfg} {c : Chain} {p : Pool} (h : Reach cfg c p) :
    KeysSorted p.pending ∧ KeysSorted p.queue ∧
    (∀ e ∈ p.pending, e.2.WF) ∧ (∀ f ∈ p.queue, f.2.WF) := by
  have hg := reach_good h
  exact ⟨hg.pkeys, hg.qkeys,
    fun e he => (hg.pend e.1 e.2 (amGet_of_mem hg.pkeys he)).1,
    fun f hf => (hg.que f.1 f.2 (amGet_of_mem hg.qkeys hf)).1⟩

/-- every reachable state keeps pending and queued nonces of each sender apart -/
theorem reach_ndisj {cfg : Cfg} {c : Chain} {p : Pool} (h : Reach cfg c p) : NDisj p := by
  induction h with
  | init => intro a n ⟨l, hl, _⟩ _; simp [amGet] at hl
  | @step p q op hp hq ih =>
    have hg := reach_good hp
    cases op with
    | addTxs txs loc =>
      simp only [succs, List.mem_map] at hq
      obtain ⟨r, hr, he⟩ := hq
      subst he
      exact addTxs_ndisj hg (strongPhi_PQ _) ih txs loc r hr
    | reset c' reinject => exact resetReinject_ndisj hg ih c' reinject q hq
    | setGasPrice pr =>
      simp only [succs, List.mem_singleton] at hq
      subst hq
      exact setGasPrice_ndisj hg (strongPhi_PQ _) ih pr
    | expire a =>
      simp only [succs, List.mem_singleton] at hq
      subst hq
      exact expire_ndisj hg (strongPhi_PQ _) ih a

/-- every reachable state: pending gap-free from the state nonce, virtual nonce behind it -/
theorem reach_gn {cfg : Cfg} {c : Chain} {p : Pool} (h : Reach cfg c p) : GN p := by
  induction h with
  | init =>
    intro a
    refine ⟨by intro l hl; simp [amGet] at hl, fun _ => by simp [pnGet, amGet]⟩
  | @step p q op hp hq ih =>
    have hg := reach_good hp
    have hn := reach_ndisj hp
    cases op with
    | addTxs txs loc =>
      simp only [succs, List.mem_map] at hq
      obtain ⟨r, hr, he⟩ := hq
      subst he
      exact addTxs_GN hg (strongPhi_PQ _) hn ih txs loc r hr
    | reset c' reinject => exact resetReinject_GN hg ih c' reinject q hq
    | setGasPrice pr =>
      simp only [succs, List.mem_singleton] at hq
      subst hq
      exact setGasPrice_GN ih pr
    | expire a =>
      simp only [succs, List.mem_singleton] at hq
      subst hq
      exact expire_GN ih a

/-- **pool_inv_gapfree.** In every reachable state (any sequence of submissions in every allowed
branch, head resets to arbitrary chain views *with re-injection of an arbitrary dropped branch*,
price changes, expiries) the pending list of every sender is a gap-free nonce sequence starting
at the sender's state nonce, and the virtual nonce (`TxPool.Nonce`) is the state nonce plus the
number of pending transactions.  (With the repair of C17-R1 in `demoteUnexecutables`; under the
old front-gap rule the re-injection step breaks it.) -/
theorem pool_inv_gapfree {cfg : Cfg} {c : Chain} {p : Pool} (h : Reach cfg c p) :
    (∀ e ∈ p.pending, GapFree (p.stateNonce e.1) e.2.txs ∧
      p.pnGet e.1 = p.stateNonce e.1 + e.2.txs.length) ∧
    (∀ a, amGet p.pending a = none → p.pnGet a = p.stateNonce a) := by
  have hg := reach_good h
  have hgn := reach_gn h
  refine ⟨?_, fun a ha => (hgn a).2 ha⟩
  intro e he
  have := (hgn e.1).1 e.2 (amGet_of_mem hg.pkeys he)
  exact ⟨this.2.1, this.2.2⟩

/-- **pool_inv_disjoint.** In every reachable state no transaction is both pending and queued;
more strongly, a sender never has the same nonce in its pending and in its queued list (so a
demoted or replaced transaction never collides with a queued one).  Stated on transactions as
values; with `pool_inv_affordable`/`pool_inv_nonce` (members are filed under their sender) the
account-wise nonce form implies the global one. -/
theorem pool_inv_disjoint {cfg : Cfg} {c : Chain} {p : Pool} (h : Reach cfg c p) :
    ∀ e ∈ p.pending, ∀ f ∈ p.queue, ∀ t ∈ e.2.txs, ∀ u ∈ f.2.txs,
      t ≠ u ∧ (e.1 = f.1 → t.nonce ≠ u.nonce) := by
  intro e he f hf t ht u hu
  have hg := reach_good h
  have hn := reach_ndisj h
  have hpe := amGet_of_mem hg.pkeys he
  have hqf := amGet_of_mem hg.qkeys hf
  have key : e.1 = f.1 → t.nonce ≠ u.nonce := by
    intro hef hnn
    apply hn e.1 t.nonce ⟨e.2, hpe, t, ht, rfl⟩
    rw [hef]
    exact ⟨f.2, hqf, u, hu, hnn.symm⟩
  refine ⟨?_, key⟩
  intro htu
  subst htu
  have h1 := ((hg.pend e.1 e.2 hpe).2 t ht).1
  have h2 := ((hg.que f.1 f.2 hqf).2 t hu).1
  exact key (by rw [← h1, ← h2]) rfl

/-- **pool_inv_one_per_nonce.** In every reachable state the pool holds at most one transaction
per (sender, nonce): a replaced transaction is gone from both lists. -/
theorem pool_inv_one_per_nonce {cfg : Cfg} {c : Chain} {p : Pool} (h : Reach cfg c p) :
    ∀ e ∈ p.pending ++ p.queue, ∀ f ∈ p.pending ++ p.queue, ∀ t ∈ e.2.txs, ∀ u ∈ f.2.txs,
      t.sender = u.sender → t.nonce = u.nonce → t = u := by
  have hg := reach_good h
  have hn := reach_ndisj h
  intro e he f hf t ht u hu hsnd hnon
  rcases List.mem_append.mp he with he | he <;> rcases List.mem_append.mp hf with hf | hf
  · have h1 := amGet_of_mem hg.pkeys he
    have h2 := amGet_of_mem hg.pkeys hf
    have k1 := ((hg.pend _ _ h1).2 t ht).1
    have k2 := ((hg.pend _ _ h2).2 u hu).1
    have hk : e.1 = f.1 := by rw [← k1, ← k2, hsnd]
    rw [hk, h2] at h1
    have he2 : f.2 = e.2 := Option.some.inj h1
    rw [← he2] at ht
    exact sorted_nonce_inj (hg.pend _ _ h2).1.1 ht hu hnon
  · exfalso
    have h1 := amGet_of_mem hg.pkeys he
    have h2 := amGet_of_mem hg.qkeys hf
    have k1 := ((hg.pend _ _ h1).2 t ht).1
    have k2 := ((hg.que _ _ h2).2 u hu).1
    have hk : e.1 = f.1 := by rw [← k1, ← k2, hsnd]
    exact hn e.1 t.nonce ⟨e.2, h1, t, ht, rfl⟩ (hk ▸ ⟨f.2, h2, u, hu, hnon.symm⟩)
  · exfalso
    have h1 := amGet_of_mem hg.qkeys he
    have h2 := amGet_of_mem hg.pkeys hf
    have k1 := ((hg.que _ _ h1).2 t ht).1
    have k2 := ((hg.pend _ _ h2).2 u hu).1
    have hk : f.1 = e.1 := by rw [← k1, ← k2, hsnd]
    exact hn f.1 u.nonce ⟨f.2, h2, u, hu, rfl⟩ (hk ▸ ⟨e.2, h1, t, ht, hnon⟩)
  · have h1 := amGet_of_mem hg.qkeys he
    have h2 := amGet_of_mem hg.qkeys hf
    have k1 := ((hg.que _ _ h1).2 t ht).1
    have k2 := ((hg.que _ _ h2).2 u hu).1
    have hk : e.1 = f.1 := by rw [← k1, ← k2, hsnd]
    rw [hk, h2] at h1
    have he2 : f.2 = e.2 := Option.some.inj h1
    rw [← he2] at ht
    exact sorted_nonce_inj (hg.que _ _ h2).1.1 ht hu hnon

/-- **pool_inv_partial** (kept from round 3; superseded by `pool_inv`). Every clause of `Inv` except
`all_listed`, in the form `Inv` states them (`disjoint` on transactions as values instead of ids),
for every reachable state. -/
theorem pool_inv_partial {cfg : Cfg} {c : Chain} {p : Pool} (h : Reach cfg c p) :
    (∀ e ∈ p.pending, GapFree (p.stateNonce e.1) e.2.txs) ∧
    (∀ e ∈ p.pending, ∀ t ∈ e.2.txs,
      t.cost ≤ p.balance e.1 ∧ t.gas ≤ p.chain.gasLimit ∧ t.sender = e.1) ∧
    (∀ e ∈ p.pending, ∀ f ∈ p.queue, ∀ t ∈ e.2.txs, ∀ u ∈ f.2.txs, t ≠ u) ∧
    (∀ f ∈ p.queue, ∀ t ∈ f.2.txs, p.stateNonce f.1 ≤ t.nonce ∧ t.sender = f.1) :=
  ⟨fun e he => ((pool_inv_gapfree h).1 e he).1, pool_inv_affordable h,
   fun e he f hf t ht u hu => (pool_inv_disjoint h e he f hf t ht u hu).1, (pool_inv_nonce h).2⟩

/-- every reachable state: the index mirrors the lists, ids in the index are unique, queued lists
are not strict (bundle `AL`, `KV/Proofs/TxPoolAll*.lean`) -/
theorem reach_al {cfg : Cfg} {c : Chain} {p : Pool} (h : Reach cfg c p) : AL (strongPhi p.chain) p := by
  induction h with
  | init => exact AL_init cfg c
  | @step p q op hp hq ih =>
    cases op with
    | addTxs txs loc =>
      simp only [succs, List.mem_map] at hq
      obtain ⟨r, hr, he⟩ := hq
      subst he
      have := AL_addTxs ih (strongPhi_PQ _) txs loc r hr
      rw [this.good.chain]; exact this
    | reset c' reinject =>
      have := AL_resetReinject ih c' reinject q hq
      rw [this.good.chain]; exact this
    | setGasPrice pr =>
      simp only [succs, List.mem_singleton] at hq
      subst hq
      have := AL_setGasPrice ih (strongPhi_PQ _) pr
      rw [this.good.chain]; exact this
    | expire a =>
      simp only [succs, List.mem_singleton] at hq
      subst hq
      have := AL_expire ih (strongPhi_PQ _) a
      rw [this.good.chain]; exact this

theorem amGet_mem {α} {m : AMap α} {k : Nat} {v : α} (h : amGet m k = some v) : (k, v) ∈ m := by
  simp only [amGet, Option.map_eq_some_iff] at h
  obtain ⟨e, he, hv⟩ := h
  have hm := List.mem_of_find?_eq_some he
  have hk := List.find?_some he
  simp at hk
  have : e = (k, v) := by rw [← hk, ← hv]
  rw [← this]; exact hm

/-- **pool_inv_all_listed.** In every reachable state `all` = pending ⊎ queue: a transaction is in
the index iff it sits in a pending or in a queued list (by `pool_inv_disjoint` not in both, by
`pool_inv_one_per_nonce`/`pool_inv_wf` exactly once); ids in the index are unique, so the index
holds it exactly once as well. -/
theorem pool_inv_all_listed {cfg : Cfg} {c : Chain} {p : Pool} (h : Reach cfg c p) :
    (∀ t, (∃ loc, (t, loc) ∈ p.all) ↔
      ((∃ e ∈ p.pending, t ∈ e.2.txs) ∨ (∃ f ∈ p.queue, t ∈ f.2.txs))) ∧
    (p.all.map (fun e => e.1.id)).Nodup := by
  have hal := reach_al h
  refine ⟨?_, hal.idu⟩
  intro t
  have h1 : (∃ loc, (t, loc) ∈ p.all) ↔ Idx p t := by
    unfold Idx
    simp only [List.mem_map]
    constructor
    · rintro ⟨loc, hm⟩; exact ⟨(t, loc), hm, rfl⟩
    · rintro ⟨e, he, hx⟩; exact ⟨e.2, by rw [← hx]; exact he⟩
  have h2 : Listed p t ↔ ((∃ e ∈ p.pending, t ∈ e.2.txs) ∨ (∃ f ∈ p.queue, t ∈ f.2.txs)) := by
    unfold Listed
    constructor
    · rintro (⟨b, l, hl, hm⟩ | ⟨b, l, hl, hm⟩)
      · exact Or.inl ⟨(b, l), amGet_mem hl, hm⟩
      · exact Or.inr ⟨(b, l), amGet_mem hl, hm⟩
    · rintro (⟨e, he, hm⟩ | ⟨f, hf, hm⟩)
      · exact Or.inl ⟨e.1, e.2, amGet_of_mem hal.good.pkeys he, hm⟩
      · exact Or.inr ⟨f.1, f.2, amGet_of_mem hal.good.qkeys hf, hm⟩
  rw [h1, hal.iff t, h2]

/-- **pool_inv_disjoint_id.** The id form of "no transaction is both pending and queued". -/
theorem pool_inv_disjoint_id {cfg : Cfg} {c : Chain} {p : Pool} (h : Reach cfg c p) :
    ∀ e ∈ p.pending, ∀ f ∈ p.queue, ∀ t ∈ e.2.txs, ∀ u ∈ f.2.txs, t.id ≠ u.id := by
  intro e he f hf t ht u hu hid
  have hal := reach_al h
  have hpe := amGet_of_mem hal.good.pkeys he
  have hqf := amGet_of_mem hal.good.qkeys hf
  have : t = u := hal.listed_id (Listed_of_pending hpe ht) (Listed_of_queue hqf hu) hid
  exact (pool_inv_disjoint h e he f hf t ht u hu).1 this

/-- **pool_inv.** `pool_invStatement` holds: every state of the relational pool model reachable by
any sequence of submissions (every allowed branch), head resets with re-injection, price changes
and expiries satisfies all clauses of `Inv`. -/
theorem pool_inv : pool_invStatement := by
  intro cfg c p h
  exact ⟨fun e he => ((pool_inv_gapfree h).1 e he).1, pool_inv_affordable h, pool_inv_disjoint_id h,
    (pool_inv_all_listed h).1, (pool_inv_nonce h).2⟩

/-- the empty pool satisfies the invariant -/
theorem pool_inv_init (cfg : Cfg) (c : Chain) :
    Inv { cfg := cfg, chain := c, gasPrice := cfg.priceLimit } := by
  constructor <;> simp

/-- **reject_noop_valid_partial** (kept from the first round): a submission that `validateTx`
rejects (or whose hash is known) is answered with an error by every branch of `add`, and the pool
is unchanged — in *any* pool state, no invariant needed. -/
theorem reject_noop_partial (p : Pool) (t : Tx) (loc : Bool)
    (h : p.known t = true ∨ (p.validate t (loc || p.isLocalAcc t.sender)).isSome) :
    ∀ r ∈ p.add t loc, r.1 = p ∧ ∃ e, r.2 = .error e := by
  intro r hr
  unfold Pool.add at hr
  by_cases hk : p.known t = true
  · simp [hk] at hr; subst hr; exact ⟨rfl, _, rfl⟩
  · rcases h with h | h
    · exact absurd h hk
    · simp only [hk] at hr
      cases hv : p.validate t (loc || p.isLocalAcc t.sender) with
      | none => rw [hv] at h; simp at h
      | some e =>
        simp [hv] at hr; subst hr; exact ⟨rfl, _, rfl⟩

/-- **reject_noop.** In every reachable state, every branch of `TxPool.add` — every allowed
outcome of `Discard` included — that answers with an error returns the pool it was given, for
*every* error kind: already known, each `validateTx` error (oversized, negative value, gas limit,
invalid sender, under the price floor, nonce too low, insufficient funds, intrinsic gas),
replacement under-priced, pool-underpriced, pool overflow (churn guard and "cannot make room").
After the eligibility test has been passed no later step can fail, because making room only
removes or demotes listed transactions (`Elig_removeL`, `addTail_ok`). -/
theorem reject_noop {cfg : Cfg} {c : Chain} {p : Pool} (h : Reach cfg c p) (t : Tx) (loc : Bool) :
    ∀ r ∈ p.add t loc, ∀ e, r.2 = .error e → r.1 = p :=
  add_reject_noop (reach_good h) (strongPhi_PQ _) (reach_ndisj h) t loc

/-- the same for a locked batch (`addTxsLocked`): if every transaction of the batch is rejected
the pool is unchanged and no account is marked dirty -/
theorem reject_noop_batch {cfg : Cfg} {c : Chain} {p : Pool} (h : Reach cfg c p) (txs : List Tx)
    (loc : Bool) :
    ∀ r ∈ p.addBatch loc txs, (∀ x ∈ r.2.1, ∃ e, x = .error e) → r.1 = p ∧ r.2.2 = [] :=
  addBatch_reject_noop txs (reach_good h) (strongPhi_PQ _) (reach_ndisj h) loc

/-- **reject_noop_addTxs.** The public entry point (`AddLocals`/`AddRemotesSync` with one
transaction): a rejected submission contributes nothing.  If the pre-filter rejects it (known
hash, unrecoverable sender) the pool is returned as it is; otherwise the code still runs its reorg
(`requestPromoteExecutables` with an empty dirty set), so the result is an *idle reorg run* of the
unchanged pool — which is the pool itself up to the churn counter when it is within its limits
(`runReorg_idle_settled`), and otherwise the truncation that was pending anyway (e.g. after
`SetGasPrice`, which runs no reorg). -/
theorem reject_noop_addTxs {cfg : Cfg} {c : Chain} {p : Pool} (h : Reach cfg c p) (t : Tx) (loc : Bool) :
    ∀ r ∈ p.addTxs [t] loc, ∀ e, r.2 = [some e] → r.1 = p ∨ r.1 ∈ p.runReorg none [] := by
  intro r hr e hre
  unfold addTxs at hr
  by_cases hk : p.known t = true
  · simp [hk] at hr; left; rw [hr]
  · by_cases hs : t.sigOk = true
    · right
      simp only [hk, hs, List.map_cons, List.map_nil, Bool.not_true, Bool.false_eq_true, if_false,
        List.filter_cons, Option.isNone_none, if_true, List.filter_nil, List.isEmpty_cons,
        List.mem_flatMap, List.mem_map] at hr
      obtain ⟨r1, hr1, q, hq, he⟩ := hr
      subst he
      -- the single result of the batch is the error
      have hlen : ∃ x, r1.2.1 = [x] := by
        simp only [addBatch, List.mem_flatMap, List.mem_map, List.mem_singleton] at hr1
        obtain ⟨a, _, s, hs', he⟩ := hr1
        subst he; subst hs'
        exact ⟨a.2, rfl⟩
      obtain ⟨x, hx⟩ := hlen
      have hxe : x = .error e := by
        simp only [hx, List.map_cons, List.map_nil, List.foldl_cons, List.foldl_nil, List.nil_append,
          List.headD_cons, List.cons.injEq, and_true] at hre
        cases x with
        | error e' => simp at hre; rw [hre]
        | ok b => simp at hre
      obtain ⟨h1, h2⟩ := reject_noop_batch h [t] loc r1 hr1 (by rw [hx]; intro y hy; simp at hy; exact ⟨e, by rw [hy, hxe]⟩)
      rw [h1, h2] at hq
      exact hq
    · simp [hk, hs] at hr; left; rw [hr]

/-- the pool of finding F12: four slots in total, prices 10, 2, 3, 4 -/
def f12Pool : Pool :=
  let cfg : Cfg := { accountSlots := 1, globalSlots := 2, accountQueue := 1, globalQueue := 2 }
  let mk (id snd price : Nat) : Tx := { id := id, sender := snd, nonce := 0, price := price, gas := 1, value := 0 }
  let one (t : Tx) : TxList := { strict := true, txs := [t], costcap := t.cost, gascap := 1 }
  { cfg := cfg, chain := { nonces := [0, 0, 0, 0], balances := [1000, 1000, 1000, 1000], gasLimit := 100 },
    pending := [(0, one (mk 1 0 10)), (1, one (mk 2 1 2)), (2, one (mk 3 2 3)), (3, one (mk 4 3 4))],
    all := [(mk 1 0 10, false), (mk 2 1 2, false), (mk 3 2 3, false), (mk 4 3 4, false)] }

/-- the re-submission of sender 0's nonce at the same price (new hash) -/
def f12Tx : Tx := { id := 5, sender := 0, nonce := 0, price := 10, gas := 1, value := 1 }

/-- `TxPool.add` as the code was before the repair of F12: no eligibility test before room is
made -/
def addOld (p : Pool) (t : Tx) (loc : Bool) : List (Pool × Except Err Bool) :=
  if p.known t then [(p, .error .alreadyKnown)]
  else
    let isLocal := loc || p.isLocalAcc t.sender
    match p.validate t isLocal with
    | some e => [(p, .error e)]
    | none => p.addRoom t isLocal loc

/-- **reject_noop_counterexample (finding F12, fixed; regression theorem about the OLD order).**
`addOld` answers "replacement transaction underpriced" and the cheapest transaction of another
account has been discarded: a rejected submission that changed the pool. -/
theorem reject_noop_counterexample :
    ∃ r ∈ f12Pool.addOld f12Tx false,
      r.2 = .error .replaceUnderpriced ∧ r.1.all.length + 1 = f12Pool.all.length ∧
      amGet r.1.pending 1 = none ∧ (amGet f12Pool.pending 1).isSome := by
  have h : (f12Pool.addOld f12Tx false).any (fun r =>
      (match r.2 with | .error e => e == Err.replaceUnderpriced | .ok _ => false) &&
      (r.1.all.length + 1 == f12Pool.all.length) && (amGet r.1.pending 1).isNone &&
      (amGet f12Pool.pending 1).isSome) = true := by decide
  obtain ⟨r, hr, hp⟩ := List.any_eq_true.mp h
  simp only [Bool.and_eq_true, beq_iff_eq, Option.isNone_iff_eq_none] at hp
  obtain ⟨⟨⟨h1, h2⟩, h3⟩, h4⟩ := hp
  refine ⟨r, hr, ?_, h2, h3, h4⟩
  cases hr2 : r.2 with
  | error e => rw [hr2] at h1; simp at h1; rw [h1]
  | ok b => rw [hr2] at h1; simp at h1

/-- **reject_noop_f12_witness.** On the same witness the repaired `add` has exactly one outcome:
"replacement transaction underpriced", with every list and the index untouched. -/
theorem reject_noop_f12_witness :
    ∀ r ∈ f12Pool.add f12Tx false,
      r.2 = .error .replaceUnderpriced ∧ r.1.pending = f12Pool.pending ∧ r.1.queue = f12Pool.queue ∧
      r.1.all = f12Pool.all ∧ r.1.pnonce = f12Pool.pnonce ∧ r.1.changes = f12Pool.changes := by
  have h : (f12Pool.add f12Tx false).all (fun r =>
      (match r.2 with | .error e => e == Err.replaceUnderpriced | .ok _ => false) &&
      decide (r.1.pending = f12Pool.pending) && decide (r.1.queue = f12Pool.queue) &&
      decide (r.1.all = f12Pool.all) && decide (r.1.pnonce = f12Pool.pnonce) &&
      decide (r.1.changes = f12Pool.changes)) = true := by decide
  intro r hr
  have hp := List.all_eq_true.mp h r hr
  simp only [Bool.and_eq_true, decide_eq_true_eq] at hp
  obtain ⟨⟨⟨⟨⟨h1, h2⟩, h3⟩, h4⟩, h5⟩, h6⟩ := hp
  refine ⟨?_, h2, h3, h4, h5, h6⟩
  cases hr2 : r.2 with
  | error e => rw [hr2] at h1; simp at h1; rw [h1]
  | ok b => rw [hr2] at h1; simp at h1

/-! ### finding C17-R1 (fixed): the old front-gap rule of `demoteUnexecutables` -/

/-- `demoteAccount` as the code was before the repair of C17-R1: only a list whose *first* nonce is
missing was postponed -/
def demoteAccountOld (p : Pool) (a : Nat) : Pool :=
  match amGet p.pending a with
  | none => p
  | some list =>
    let nonce := p.stateNonce a
    let f := list.forward nonce
    let p1 := p.allRemoveL f.2
    let d := f.1.filter (p.balance a) p.chain.gasLimit
    let p2 := p1.allRemoveL d.2.1
    let p3 := d.2.2.foldl (fun q t => (q.enqueueTx t false false).1) p2
    let g := if d.1.len > 0 ∧ (d.1.get? nonce).isNone then d.1.cap 0 else (d.1, [])
    let p4 := g.2.foldl (fun q t => (q.enqueueTx t false false).1) p3
    if g.1.isEmpty then { p4 with pending := amErase p4.pending a }
    else { p4 with pending := amSet p4.pending a g.1 }

/-- promotion + demotion after a reorganisation with the old rule -/
def afterDemoteOld (p1 : Pool) : Pool :=
  (p1.pending.map (·.1)).foldl demoteAccountOld (p1.promoteExecutables (p1.queue.map (·.1)))

/-- the pool of finding C17-R1 just before the reorganisation: the old head mined nonces 0 and 1 of
sender 0, nonce 2 is pending -/
def r1Pool : Pool :=
  let t3 : Tx := { id := 3, sender := 0, nonce := 2, price := 1, gas := 10, value := 0 }
  { chain := { nonces := [2], balances := [1000], gasLimit := 100 },
    pending := [(0, { strict := true, txs := [t3], costcap := 10, gascap := 10 })],
    all := [(t3, false)], pnonce := [(0, 3)] }

/-- the new head mined neither; the balance pays for nonce 0 and 2 but not for nonce 1 -/
def r1Chain : Chain := { nonces := [0], balances := [49], gasLimit := 100 }
def r1Reinject : List Tx :=
  [{ id := 1, sender := 0, nonce := 0, price := 1, gas := 10, value := 0 },
   { id := 2, sender := 0, nonce := 1, price := 5, gas := 10, value := 0 }]

/-- **c17r1_counterexample_old_rule.** With the old rule the re-injection leaves pending with the
nonces 0 and 2 (a gap at 1); with the rule of the repaired code pending is `[0]` and nonce 2 waits
in the queue — the instance of `pool_inv_gapfree` for this scenario. -/
theorem c17r1_counterexample_old_rule :
    (∃ r ∈ (r1Pool.resetHead r1Chain).addBatch false r1Reinject,
      ((amGet (afterDemoteOld r.1).pending 0).map (fun l => l.txs.map (·.nonce))) = some [0, 2]) ∧
    (∀ q ∈ r1Pool.resetReinject r1Chain r1Reinject,
      ((amGet q.pending 0).map (fun l => l.txs.map (·.nonce))) = some [0] ∧
      ((amGet q.queue 0).map (fun l => l.txs.map (·.nonce))) = some [2]) := by
  refine ⟨?_, ?_⟩
  · have h : ((r1Pool.resetHead r1Chain).addBatch false r1Reinject).any (fun r =>
        ((amGet (afterDemoteOld r.1).pending 0).map (fun l => l.txs.map (·.nonce))) == some [0, 2]) = true := by
      decide
    obtain ⟨r, hr, hp⟩ := List.any_eq_true.mp h
    exact ⟨r, hr, by simpa using hp⟩
  · have h : (r1Pool.resetReinject r1Chain r1Reinject).all (fun q =>
        (((amGet q.pending 0).map (fun l => l.txs.map (·.nonce))) == some [0]) &&
        (((amGet q.queue 0).map (fun l => l.txs.map (·.nonce))) == some [2])) = true := by
      decide
    intro q hq
    have := List.all_eq_true.mp h q hq
    simpa using this

end Pool

/-! ## non-vacuity -/

/-- a concrete strict list: the hypotheses of the theorems are satisfiable and the operations do
what the statements say on it -/
def exTx (id n price gas value : Nat) : Tx := { id := id, sender := 0, nonce := n, price := price, gas := gas, value := value }
def exList : TxList :=
  (((TxList.new true).add (exTx 1 5 10 100 7) 10).1.add (exTx 2 6 10 200 0) 10).1

example : exList.WF := wf_add _ _ _ (wf_add _ _ _ (wf_new true))
example : GapFree 5 exList.txs := by unfold GapFree; decide
example : exList.get? 5 = some (exTx 1 5 10 100 7) := by decide
-- bump 10%: price 10 -> 11 replaces, 10 -> 10 does not; price 1 -> 1 does not although 1*110/100 = 1
example : (exList.add (exTx 3 5 11 100 7) 10).2.1 = true := by decide
example : (exList.add (exTx 3 5 10 100 7) 10).2.1 = false := by decide
example : (((TxList.new false).add (exTx 1 0 1 1 0) 10).1.add (exTx 2 0 1 1 0) 10).2.1 = false := by decide
example : (((TxList.new false).add (exTx 1 0 1 1 0) 10).1.add (exTx 2 0 2 1 0) 10).2.1 = true := by decide
-- Filter with a cost limit between the two members removes the second only
example : ((exList.filter 1500 1000).1.txs.map (·.id), (exList.filter 1500 1000).2.1.map (·.id)) = ([1], [2]) := by decide
-- removing the first invalidates the second in strict mode
example : ((exList.filter 5000 150).1.txs.map (·.id), (exList.filter 5000 150).2.1.map (·.id)) = ([1], [2]) := by decide
example :
    let l := (((TxList.new true).add (exTx 1 5 10 100 7) 10).1.add (exTx 2 6 1 100 0) 10).1
    ((l.filter 500 1000).1.txs.map (·.id), (l.filter 500 1000).2.1.map (·.id), (l.filter 500 1000).2.2.map (·.id)) = ([], [1], [2]) := by decide
example : (exList.ready 5).2.map (·.id) = [1, 2] := by decide
example : (exList.ready 4).2.map (·.id) = [] := by decide

end KV.TxPool
