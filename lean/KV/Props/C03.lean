import KV.Proofs.CsLock
import KV.Proofs.CsFrame
import KV.Proofs.CsStale
/-!
# C03 — a correct validator never equivocates and obeys the locking rules

Theorems about `Cs.step` (the model of `consensus/state.go` that the differential harness ties to
the real node), for **every** input sequence: arbitrary (Byzantine) proposals, blocks and votes in
any order, duplicated or replayed, and timeouts.  The only hypothesis on the inputs is about
timeouts: a timeout for the current height must not be for a round *after* the current one
(`TimeoutOk`).  Every timeout the node itself scheduled satisfies it (`scheduled_ok`); the
hypothesis is necessary (`sign_once_future_timeout_counterexample`): `handleTimeout` accepts a
timeout of a future round, `enterPrevote(height, round)` then signs a vote stamped with the
*current* round a second time.  The real ticker only delivers what was scheduled.

Vocabulary: `σ.log` is every action of the run so far (newest first); `quorum powers votes t h r x`
is "+2/3 of the power voted `x` with type `t` at height `h`, round `r` in the node's own vote
sets" (`3 * sum > 2 * total`); `validSeen seen h b` is "the node assembled the complete block `b`
at height `h` and `ValidateBlock` accepted it" (the bit `ok` the environment supplies with the
block; `validReadingStatement` is the reading as a function `valid : id → Bool`).
-/
namespace KV.Props.C03
open KV.Cs

/-- the hypothesis on one input (see the module doc) -/
abbrev InputOk := TimeoutOk

/-- every input of the run satisfies `InputOk` in the state it is delivered in -/
def Sane (cfg : Config) : State → List (Option Nat × Input) → Prop
  | _, [] => True
  | σ, (nb, i) :: rest => InputOk σ i ∧ Sane cfg (step cfg σ nb i) rest

/-- every timeout of the run was handed to the ticker before (any time before, also stale ones) -/
def Scheduled (cfg : Config) : State → List (Option Nat × Input) → Prop
  | _, [] => True
  | σ, (nb, i) :: rest =>
    (match i with
     | .timeout h r s => (h, r, s) ∈ σ.sched
     | _ => True) ∧ Scheduled cfg (step cfg σ nb i) rest

theorem init_inv (cfg : Config) (h : Nat) : Inv cfg (init cfg h) := by
  refine ⟨⟨trivial, ?_⟩, ?_, ?_, ?_, ?_, Nat.le_refl 1⟩
  · intro a ha; cases ha
  · intro a ha; cases ha
  · intro b hb; cases hb
  · intro b hb; cases hb
  · intro x hx; cases hx

theorem step_inv {cfg : Config} {σ : State} (I : Inv cfg σ) (nb : Option Nat) (i : Input) (hok : InputOk σ i) :
    Inv cfg (step cfg σ nb i) := by
  unfold step
  split
  · exact I
  · have J : Inv cfg { σ with added := false } := I.of_eq rfl rfl (Nat.le_refl _) rfl rfl rfl rfl I.lk I.pb
    cases i with
    | proposal src sigok h r pol id => exact setProposal_inv J ..
    | block h id ok dec => exact addBlock_inv J ..
    | vote peer idx t h r tgt sigok => exact addVote_inv J ..
    | timeout h r s => exact handleTimeout_inv J nb h r s hok

theorem run_inv {cfg : Config} : ∀ (inputs : List (Option Nat × Input)) (σ : State), Inv cfg σ → Sane cfg σ inputs →
    Inv cfg (run cfg σ inputs)
  | [], _, I, _ => I
  | (nb, i) :: rest, _, I, hs => run_inv rest _ (step_inv I nb i hs.1) hs.2

theorem run_lock {cfg : Config} : ∀ (inputs : List (Option Nat × Input)) (σ : State), Inv cfg σ → Lock cfg σ →
    Sane cfg σ inputs → Lock cfg (run cfg σ inputs)
  | [], _, _, L, _ => L
  | (nb, i) :: rest, _, I, L, hs => run_lock rest _ (step_inv I nb i hs.1) (step_lock I L nb i hs.1) hs.2

/-- a scheduled timeout is never for a later round of the current height -/
theorem scheduled_ok {cfg : Config} : ∀ (inputs : List (Option Nat × Input)) (σ : State), Inv cfg σ →
    Scheduled cfg σ inputs → Sane cfg σ inputs
  | [], _, _, _ => trivial
  | (nb, i) :: rest, σ, I, hs => by
    have hok : InputOk σ i := by
      cases i with
      | timeout h r s =>
        have := I.sc (h, r, s) hs.1
        intro hh
        simp only [le3] at this
        omega
      | _ => trivial
    exact ⟨hok, scheduled_ok rest _ (step_inv I nb i hok) hs.2⟩

/-- the key of a signature: (height, round, 3 = proposal | 4 = prevote | 6 = precommit) -/
abbrev sigKey := rk

/-- **(1) sign_once.** In every run the node requests at most one signature per
(height, round, kind), kind ∈ {proposal, prevote, precommit}. -/
theorem sign_once (cfg : Config) (h0 : Nat) (inputs : List (Option Nat × Input))
    (hs : Sane cfg (init cfg h0) inputs) (k : Nat × Nat × Nat) :
    ((run cfg (init cfg h0) inputs).log.filter (fun a => sigKey a == some k)).length ≤ 1 :=
  (run_inv inputs _ (init_inv cfg h0) hs).si.1.count_le_one k

/-- (1) for runs whose timeouts are the scheduled ones -/
theorem sign_once_scheduled (cfg : Config) (h0 : Nat) (inputs : List (Option Nat × Input))
    (hs : Scheduled cfg (init cfg h0) inputs) (k : Nat × Nat × Nat) :
    ((run cfg (init cfg h0) inputs).log.filter (fun a => sigKey a == some k)).length ≤ 1 :=
  sign_once cfg h0 inputs (scheduled_ok inputs _ (init_inv cfg h0) hs) k

/-- signatures are requested in increasing (height, round, step) order: O0 of the agreement
proof (rounds never decrease) -/
theorem sign_monotone (cfg : Config) (h0 : Nat) (inputs : List (Option Nat × Input))
    (hs : Sane cfg (init cfg h0) inputs) : Sorted (run cfg (init cfg h0) inputs).log :=
  (run_inv inputs _ (init_inv cfg h0) hs).si.1

/-- **(2) precommit_justified.** A precommit for a block `b` at (h, r) is only signed when the
node's own prevote set of that round has +2/3 for `b` and it assembled `b` completely and
`ValidateBlock` accepted it. -/
theorem precommit_justified (cfg : Config) (h0 : Nat) (inputs : List (Option Nat × Input))
    (hs : Sane cfg (init cfg h0) inputs) (h r b : Nat)
    (hmem : Action.signVote .precommit h r (some b) ∈ (run cfg (init cfg h0) inputs).log) :
    quorum cfg.powers (run cfg (init cfg h0) inputs).votes .prevote h r (some b) ∧
    validSeen (run cfg (init cfg h0) inputs).seen h b :=
  (run_inv inputs _ (init_inv cfg h0) hs).ag _ hmem

/-- **(4) commit_justified.** A block is committed only with +2/3 precommits for it in a single
round of the node's vote sets, the complete block assembled and accepted by `ValidateBlock`. -/
theorem commit_justified (cfg : Config) (h0 : Nat) (inputs : List (Option Nat × Input))
    (hs : Sane cfg (init cfg h0) inputs) (h b : Nat)
    (hmem : Action.commit h b ∈ (run cfg (init cfg h0) inputs).log) :
    (∃ r, quorum cfg.powers (run cfg (init cfg h0) inputs).votes .precommit h r (some b)) ∧
    validSeen (run cfg (init cfg h0) inputs).seen h b :=
  (run_inv inputs _ (init_inv cfg h0) hs).ag _ hmem

/-- **(5) votes_valid_only.** Every non-nil prevote or precommit is for a block the node
assembled at that height and `ValidateBlock` accepted. -/
theorem votes_valid_only (cfg : Config) (h0 : Nat) (inputs : List (Option Nat × Input))
    (hs : Sane cfg (init cfg h0) inputs) (t : VType) (h r b : Nat)
    (hmem : Action.signVote t h r (some b) ∈ (run cfg (init cfg h0) inputs).log) :
    validSeen (run cfg (init cfg h0) inputs).seen h b := by
  have := (run_inv inputs _ (init_inv cfg h0) hs).ag _ hmem
  cases t
  · exact this
  · exact this.2

/-! ### the lock rule -/

/-- **(3) lock_rule** — obligation O3 of the agreement proof (DESIGN Appendix A) with "received"
= in the node's own vote sets: if the node precommitted block `b` at round `r` and prevotes
`x ≠ b` at a later round `r'` of the same height, then its prevote sets contain +2/3 for some
value `≠ b` at a round in `(r, r']`.

Proved below (`lock_rule`) from the invariant `Cs.Lock` (`KV/Proofs/CsLock.lean`): for every
`signVote precommit H r (some b)` in the log at the current height `H`, either
`locked = some ⟨b,_⟩ ∧ r ≤ lockedRound`, or `∃ r'' x'', r < r'' ≤ round ∧ x'' ≠ some b ∧
quorum prevote H r'' x''` — established by the unlock sites (`polkaUnlock`: polka from a
round in `(lockedRound, round]`; `releaseStale` in `enterNewRound` (F36 fix): the polka of a round
in `(lockedRound, round]` the scan found; `doPrecommit`: nil polka / polka for another block in the current
round, which is later than `r` because the signature log is sorted) and by locking on another
block, consumed by `doPrevote` (a locked node prevotes its locked block).  The harness oracle
checks the same clause on the real node (`c03/lock-rule`). -/
def lockRuleStatement : Prop :=
  ∀ (cfg : Config) (h0 : Nat) (inputs : List (Option Nat × Input)), Sane cfg (init cfg h0) inputs →
    ∀ (h r r' b : Nat) (x : Target),
      Action.signVote .precommit h r (some b) ∈ (run cfg (init cfg h0) inputs).log →
      Action.signVote .prevote h r' x ∈ (run cfg (init cfg h0) inputs).log →
      r < r' → x ≠ some b →
      ∃ r'' x'', r < r'' ∧ r'' ≤ r' ∧ x'' ≠ some b ∧
        quorum cfg.powers (run cfg (init cfg h0) inputs).votes .prevote h r'' x''

/-- **(3) lock_rule**, for every run (any inputs, timeouts as in `Sane`). -/
theorem lock_rule : lockRuleStatement := by
  intro cfg h0 inputs hs h r r' b x h1 h2 h3 h4
  exact (run_lock inputs _ (init_inv cfg h0) (init_lock cfg h0) hs).hist h r r' b x h1 h2 h3 h4

/-- the state form of the lock invariant: a node that precommitted `b` at round `r` of the height
it is still working on is locked on `b` since a round `≥ r`, or its prevote sets hold +2/3 for
another value at a round in `(r, current round]` -/
theorem lock_held (cfg : Config) (h0 : Nat) (inputs : List (Option Nat × Input))
    (hs : Sane cfg (init cfg h0) inputs) (r b : Nat)
    (hmem : Action.signVote .precommit (run cfg (init cfg h0) inputs).height r (some b) ∈
      (run cfg (init cfg h0) inputs).log) :
    (∃ blk, (run cfg (init cfg h0) inputs).locked = some blk ∧ blk.id = b ∧
      r ≤ (run cfg (init cfg h0) inputs).lockedRound) ∨
    ∃ r'' x'', r < r'' ∧ r'' ≤ (run cfg (init cfg h0) inputs).round ∧ x'' ≠ some b ∧
      quorum cfg.powers (run cfg (init cfg h0) inputs).votes .prevote
        (run cfg (init cfg h0) inputs).height r'' x'' :=
  (run_lock inputs _ (init_inv cfg h0) (init_lock cfg h0) hs).cur r b hmem

/-! ### no stale lock (F36) -/

/-- **stale_lock_never_persists.** In every reachable state of the node (any inputs, timeouts as in
`Sane`): if the node is locked on `lb` since `lockedRound`, none of its own prevote sets of the
rounds in `(lockedRound, round]` has a +2/3 majority for another value (nil included).  The
invariant `Cs.NoStale` (`KV/Proofs/CsStale.lean`) is restored where it can break: a prevote is added
(`addVote`: "Unlocking because of POL", rounds `≤ round`), the round advances (`enterNewRound`:
`releaseStale`, the F36 fix — before it a node that round-skipped past the prevote step of a round
whose polka it held kept its older lock for ever and the height could not be decided:
`KV/Props/C04Net.lean`, `stale_lock_livelock_counterexample_old_rule`), the node locks
(`enterPrecommit`: `lockedRound := round`). -/
theorem stale_lock_never_persists_from (cfg : Config) :
    ∀ (inputs : List (Option Nat × Input)) (σ : State), Inv cfg σ → NoStale cfg σ → Sane cfg σ inputs →
      NoStale cfg (run cfg σ inputs)
  | [], _, _, N, _ => N
  | (nb, i) :: rest, _, I, N, hs =>
    stale_lock_never_persists_from cfg rest _ (step_inv I nb i hs.1) (step_noStale I N nb i hs.1) hs.2

theorem stale_lock_never_persists (cfg : Config) (h0 : Nat) (inputs : List (Option Nat × Input))
    (hs : Sane cfg (init cfg h0) inputs) :
    ∀ lb, (run cfg (init cfg h0) inputs).locked = some lb → ∀ r' x,
      (run cfg (init cfg h0) inputs).lockedRound < r' → r' ≤ (run cfg (init cfg h0) inputs).round →
      maj23 cfg.powers ((run cfg (init cfg h0) inputs).slots .prevote (run cfg (init cfg h0) inputs).height r') = some x →
      x = some lb.id :=
  stale_lock_never_persists_from cfg inputs _ (init_inv cfg h0) (init_noStale cfg h0) hs

/-! ### the validity bit read as a function of the block -/

/-- reading of the `ok` bit as an environment function: if every `block` input carries
`ok = valid id` then every block in `seen` does, so `validSeen seen h b → valid b = true` and
(2), (4), (5) conclude `valid b`.  Proved below (`valid_reading`; `seen` is only extended by
`storeBlock` with the input's pair: `Cs.step_frame`).  The real `ValidateBlock` is *not* such a
function of the block id while defect F8 is open (verdict cached by header hash): see
`valid_reading_needs_consistent_answers_counterexample` and notes/C03.md. -/
def validReadingStatement : Prop :=
  ∀ (valid : Nat → Bool) (cfg : Config) (h0 : Nat) (inputs : List (Option Nat × Input)),
    Sane cfg (init cfg h0) inputs →
    (∀ nb h id ok dec, (nb, Input.block h id ok dec) ∈ inputs → ok = valid id) →
    ∀ h b, validSeen (run cfg (init cfg h0) inputs).seen h b → valid b = true

theorem run_seen (valid : Nat → Bool) (cfg : Config) : ∀ (inputs : List (Option Nat × Input)) (σ : State),
    (∀ nb h id ok dec, (nb, Input.block h id ok dec) ∈ inputs → ok = valid id) →
    (∀ x ∈ σ.seen, x.2.ok = valid x.2.id) → ∀ x ∈ (run cfg σ inputs).seen, x.2.ok = valid x.2.id
  | [], _, _, hs => hs
  | (nb, i) :: rest, σ, hin, hs => by
    apply run_seen valid cfg rest _ (fun nb' h id ok dec hm => hin nb' h id ok dec (List.mem_cons_of_mem _ hm))
    intro x hx
    rcases (step_frame cfg σ nb i).seen with he | ⟨h', b, hb, he⟩
    · rw [he] at hx; exact hs x hx
    · rw [he] at hx
      rcases List.mem_cons.mp hx with rfl | hx
      · cases i with
        | block h id ok dec =>
          simp only [blockOf, Option.some.injEq] at hb
          subst hb
          exact hin nb h id ok dec (List.mem_cons_self ..)
        | _ => simp [blockOf] at hb
      · exact hs x hx

/-- **valid_reading.** If the environment's validity answers are a function `valid` of the block
id, every block the node assembled with a positive answer is valid; with
`precommit_justified`, `commit_justified`, `votes_valid_only`: the node votes for and commits
only blocks with `valid b`. -/
theorem valid_reading : validReadingStatement := by
  intro valid cfg h0 inputs _ hin h b ⟨blk, hm, hid, hok⟩
  have := run_seen valid cfg inputs (init cfg h0) hin (by intro x hx; simp [init] at hx) (h, blk) hm
  simp only at this
  rw [← hid, ← this]; exact hok

/-- (4) with the reading: a committed block is valid -/
theorem commit_valid (valid : Nat → Bool) (cfg : Config) (h0 : Nat) (inputs : List (Option Nat × Input))
    (hs : Sane cfg (init cfg h0) inputs)
    (hin : ∀ nb h id ok dec, (nb, Input.block h id ok dec) ∈ inputs → ok = valid id) (h b : Nat)
    (hmem : Action.commit h b ∈ (run cfg (init cfg h0) inputs).log) : valid b = true :=
  valid_reading valid cfg h0 inputs hs hin h b (commit_justified cfg h0 inputs hs h b hmem).2

/-! ### the hypothesis on timeouts is necessary -/

def cfg4 : Config :=
  { powers := [10, 10, 10, 10], me := 0, proposer := fun _ r => r % 4, waitTxs := false, emptyInterval := false }

/-- the node prevotes nil in round 1 (no proposal), then the block arrives, then a timeout
`(1, 2, Propose)` that was never scheduled makes `enterPrevote(1, 2)` sign a second prevote
stamped round 1 — for the block. -/
def futureTimeoutRun : List (Option Nat × Input) :=
  [ (none, .timeout 1 1 .newHeight),
    (none, .proposal 1 true 1 1 0 7),
    (none, .timeout 1 1 .propose),
    (none, .block 1 7 true true),
    (none, .timeout 1 2 .propose) ]

theorem sign_once_future_timeout_counterexample :
    ((run cfg4 (init cfg4 1) futureTimeoutRun).log.filter (fun a => sigKey a == some (1, 1, 4))) =
      [.signVote .prevote 1 1 (some 7), .signVote .prevote 1 1 none] := by decide

/-- Defect F8 seen from the model: the environment (the real `ValidateBlock` with its cache keyed
by header hash) answers `ok = true` for block 8 although `valid 8 = false` (block 8 has the header
of the valid block 7 and another `LastCommit`); the node prevotes, precommits and commits block 8.
This is why (2), (4), (5) speak about the answer `ok` that was given, and why the reading
`validReadingStatement` needs the answers to be a function of the block. -/
def f8Run : List (Option Nat × Input) :=
  [ (none, .timeout 1 1 .newHeight),
    (none, .proposal 1 true 1 1 0 8),
    (none, .block 1 8 true true),
    (none, .vote 1 1 .prevote 1 1 (some 8) true),
    (none, .vote 1 2 .prevote 1 1 (some 8) true),
    (none, .vote 1 3 .prevote 1 1 (some 8) true),
    (none, .vote 1 1 .precommit 1 1 (some 8) true),
    (none, .vote 1 2 .precommit 1 1 (some 8) true),
    (none, .vote 1 3 .precommit 1 1 (some 8) true) ]

theorem valid_reading_needs_consistent_answers_counterexample :
    let valid : Nat → Bool := fun id => id != 8
    Action.commit 1 8 ∈ (run cfg4 (init cfg4 1) f8Run).log ∧ valid 8 = false := by decide

/-! ### non-vacuity: a run in which the node prevotes, precommits and commits a block -/

def happyRun : List (Option Nat × Input) :=
  [ (none, .timeout 1 1 .newHeight),
    (none, .proposal 1 true 1 1 0 7),
    (none, .block 1 7 true true),
    (none, .vote 0 0 .prevote 1 1 (some 7) true),
    (none, .vote 1 1 .prevote 1 1 (some 7) true),
    (none, .vote 1 2 .prevote 1 1 (some 7) true),
    (none, .vote 0 0 .precommit 1 1 (some 7) true),
    (none, .vote 1 1 .precommit 1 1 (some 7) true),
    (none, .vote 1 2 .precommit 1 1 (some 7) true) ]

example : (run cfg4 (init cfg4 1) happyRun).log =
    [.schedule 2 1 .newHeight, .commit 1 7, .signVote .precommit 1 1 (some 7), .signVote .prevote 1 1 (some 7),
     .schedule 1 1 .propose] := by decide

example : Sane cfg4 (init cfg4 1) happyRun := by
  simp only [happyRun, Sane, TimeoutOk]; decide

/-! ### non-vacuity of `lock_rule`: the node locks block 7 in round 1, goes to round 2 after the
PrecommitWait timeout, prevotes its locked block there, is unlocked by the nil polka of round 2
(`addVote`: "Unlocking because of POL") and prevotes nil in round 3 -/

def unlockRun : List (Option Nat × Input) :=
  [ (none, .timeout 1 1 .newHeight),
    (none, .proposal 1 true 1 1 0 7),
    (none, .block 1 7 true true),
    (none, .vote 0 0 .prevote 1 1 (some 7) true),
    (none, .vote 1 1 .prevote 1 1 (some 7) true),
    (none, .vote 1 2 .prevote 1 1 (some 7) true),
    (none, .vote 0 0 .precommit 1 1 (some 7) true),
    (none, .vote 1 1 .precommit 1 1 none true),
    (none, .vote 1 2 .precommit 1 1 none true),
    (none, .timeout 1 1 .precommitWait),
    (none, .timeout 1 2 .propose),
    (none, .vote 0 0 .prevote 1 2 (some 7) true),
    (none, .vote 1 1 .prevote 1 2 none true),
    (none, .vote 1 2 .prevote 1 2 none true),
    (none, .vote 1 3 .prevote 1 2 none true),
    (none, .vote 0 0 .precommit 1 2 none true),
    (none, .vote 1 1 .prevote 1 3 (some 8) true),
    (none, .vote 1 2 .prevote 1 3 (some 8) true),
    (none, .vote 1 3 .prevote 1 3 (some 8) true),
    (none, .timeout 1 3 .propose) ]

example : (run cfg4 (init cfg4 1) unlockRun).log =
    [.signVote .prevote 1 3 none, .schedule 1 3 .propose, .signVote .precommit 1 2 none,
     .schedule 1 2 .prevoteWait, .signVote .prevote 1 2 (some 7), .schedule 1 2 .propose,
     .schedule 1 1 .precommitWait, .signVote .precommit 1 1 (some 7),
     .signVote .prevote 1 1 (some 7), .schedule 1 1 .propose] := by decide

/-- the lock is held until the third nil prevote of round 2 is added -/
example : (run cfg4 (init cfg4 1) (unlockRun.take 14)).locked = some ⟨7, true⟩ ∧
    (run cfg4 (init cfg4 1) (unlockRun.take 15)).locked = none := by decide

example : Sane cfg4 (init cfg4 1) unlockRun := by
  simp only [unlockRun, Sane, TimeoutOk]; decide

/-- the hypotheses of `lock_rule` hold on `unlockRun` with `r = 1`, `b = 7`, `r' = 3`, `x = nil`;
the witness is the nil polka of round 2 -/
example : Action.signVote .precommit 1 1 (some 7) ∈ (run cfg4 (init cfg4 1) unlockRun).log ∧
    Action.signVote .prevote 1 3 none ∈ (run cfg4 (init cfg4 1) unlockRun).log ∧
    quorum cfg4.powers (run cfg4 (init cfg4 1) unlockRun).votes .prevote 1 2 none := by
  refine ⟨by decide, by decide, ?_⟩
  unfold quorum; decide

/-! ### the unlock site of `enterNewRound` (F36 fix): the nil polka of round 2 arrives while the
node is still in round 1; the vote that completes it is also the one that gives +2/3 any, so the
node skips to round 2 — and `releaseStale` releases the lock on entering it: the node prevotes nil
in round 2, not its old lock -/

def unlockSkipRun : List (Option Nat × Input) :=
  [ (none, .timeout 1 1 .newHeight),
    (none, .proposal 1 true 1 1 0 7),
    (none, .block 1 7 true true),
    (none, .vote 0 0 .prevote 1 1 (some 7) true),
    (none, .vote 1 1 .prevote 1 1 (some 7) true),
    (none, .vote 1 2 .prevote 1 1 (some 7) true),
    (none, .vote 0 0 .precommit 1 1 (some 7) true),
    (none, .vote 1 1 .prevote 1 2 none true),
    (none, .vote 1 2 .prevote 1 2 none true),
    (none, .vote 1 3 .prevote 1 2 none true),
    (none, .timeout 1 2 .propose),
    (none, .vote 0 0 .prevote 1 2 none true),
    (none, .vote 0 0 .precommit 1 2 none true) ]

example : (run cfg4 (init cfg4 1) unlockSkipRun).log =
    [.signVote .precommit 1 2 none, .signVote .prevote 1 2 none, .schedule 1 2 .propose,
     .signVote .precommit 1 1 (some 7), .signVote .prevote 1 1 (some 7), .schedule 1 1 .propose] := by decide

/-- locked before the third nil prevote, released (and in round 2) after it -/
example : (run cfg4 (init cfg4 1) (unlockSkipRun.take 9)).locked = some ⟨7, true⟩ ∧
    (run cfg4 (init cfg4 1) (unlockSkipRun.take 10)).locked = none ∧
    (run cfg4 (init cfg4 1) (unlockSkipRun.take 10)).round = 2 := by decide

example : Sane cfg4 (init cfg4 1) unlockSkipRun := by
  simp only [unlockSkipRun, Sane, TimeoutOk]; decide

/-- `lock_rule` on it: `r = 1`, `b = 7`, `r' = 2`, `x = nil`; the witness is the nil polka of round 2 -/
example : Action.signVote .precommit 1 1 (some 7) ∈ (run cfg4 (init cfg4 1) unlockSkipRun).log ∧
    Action.signVote .prevote 1 2 none ∈ (run cfg4 (init cfg4 1) unlockSkipRun).log ∧
    quorum cfg4.powers (run cfg4 (init cfg4 1) unlockSkipRun).votes .prevote 1 2 none := by
  refine ⟨by decide, by decide, ?_⟩
  unfold quorum; decide

end KV.Props.C03
