import KV.Model.AgreeCheck
/-!
# C01 — Agreement

`KV/Proofs/Agreement.lean` proves agreement for the abstract vote-history protocol: validators
with arbitrary voting powers, a faulty set holding `< 1/3` of the power, a trace of `send`
events in which every event of a *correct* validator honours the four obligations
O0 (rounds never decrease), O1 (no equivocation), O2 (precommit only on a polka),
O3 (the lock rule); Byzantine senders are unconstrained; nothing bounds the number of
validators, rounds, messages or the interleaving.

This file (a) restates the results as the property's theorems, (b) proves the executable
trace checker `goodB` sound, so that a trace recorded from real nodes and accepted by the checker
*is* a trace the theorem talks about, (c) states the block-sync and multi-height corollaries.

Not carried by these theorems (DESIGN.md C01): that the Go node satisfies O0–O3 on every
schedule is the subject of C03 (model `Cs.step`) and of the trace validation done on every run;
`KV/Props/C01Cs.lean` derives `Good` — and hence agreement — for every execution of a network of
`Cs` nodes from the C03 invariants (hypotheses: same powers, authentic votes of correct
validators, C03's timeout hypothesis);
equal chain prefix ⇒ equal validator set across heights is a hypothesis (C06/C12/C14).
-/
namespace KV.Agree

/-! ## soundness of the executable checker -/

theorem sentB_iff (tr : NTrace) (v : Nat) (vt : Vote Nat) :
    sentB tr v vt = true ↔ (⟨v, vt⟩ : NEv) ∈ tr := by
  simp [sentB]

theorem polkaB_iff (vals : List Nat) (pw : Nat → Nat) (tr : NTrace) (r : Nat) (x : Option Nat) :
    polkaB vals pw tr r x = true ↔ polka vals pw tr r x := by
  simp [polkaB, polka]

theorem commitQB_iff (vals : List Nat) (pw : Nat → Nat) (tr : NTrace) (r b : Nat) :
    commitQB vals pw tr r b = true ↔ commitQ vals pw tr r b := by
  simp [commitQB, commitQ]

theorem oblB_sound (vals : List Nat) (pw : Nat → Nat) (pre : NTrace) (e : NEv)
    (h : oblB vals pw pre e = true) : Obl vals pw pre e := by
  simp only [oblB, Bool.and_eq_true] at h
  obtain ⟨⟨⟨hm, ho⟩, hj⟩, hl⟩ := h
  refine ⟨?_, ?_, ?_, ?_⟩
  · -- mono
    intro vt hs
    have hmem := (sentB_iff pre e.sender vt).mp hs
    have := List.all_eq_true.mp hm _ hmem
    simpa using this
  · -- once
    intro vt hs hty hr
    have hmem := (sentB_iff pre e.sender vt).mp hs
    have := List.all_eq_true.mp ho _ hmem
    simp [hty, hr] at this
    exact this
  · -- just
    intro b hty hv
    simp only [justB, hty, hv] at hj
    exact (polkaB_iff _ _ _ _ _).mp hj
  · -- lock
    intro r b hs hty hr hne
    have hmem := (sentB_iff pre e.sender _).mp hs
    simp only [lockB, hty, Bool.or_eq_true] at hl
    rcases hl with hl | hl
    · simp at hl
    · have := List.all_eq_true.mp hl _ hmem
      simp only at this
      have hne' : (e.vote.val == some b) = false := by
        simp; exact hne
      simp [hr, hne'] at this
      -- unlockB gives the witness
      simp only [unlockB, List.any_eq_true, Bool.and_eq_true, decide_eq_true_eq] at this
      obtain ⟨w, _, ⟨⟨⟨⟨_, h1⟩, h2⟩, h3⟩, h4⟩⟩ := this
      refine ⟨w.vote.round, w.vote.val, h1, h2, ?_, (polkaB_iff _ _ _ _ _).mp h4⟩
      simpa using h3

theorem goodFrom_sound (vals : List Nat) (pw : Nat → Nat) (F : Nat → Bool) :
    ∀ (rest pre : NTrace), goodFrom vals pw F pre rest = true →
      ∀ p e q, rest = p ++ e :: q → F e.sender = false → Obl vals pw (pre ++ p) e := by
  intro rest
  induction rest with
  | nil => intro pre _ p e q h; simp at h
  | cons a rest ih =>
    intro pre hg p e q hsplit hF
    simp only [goodFrom, Bool.and_eq_true, Bool.or_eq_true] at hg
    obtain ⟨h1, h2⟩ := hg
    cases p with
    | nil =>
      simp at hsplit
      obtain ⟨rfl, _⟩ := hsplit
      rcases h1 with h1 | h1
      · rw [hF] at h1; exact absurd h1 (by simp)
      · simpa using oblB_sound vals pw pre a h1
    | cons b p' =>
      simp at hsplit
      obtain ⟨rfl, hrest⟩ := hsplit
      have := ih (pre ++ [a]) h2 p' e q hrest hF
      simpa using this

/-- a trace accepted by the executable checker satisfies the hypothesis of the theorem -/
theorem goodB_sound (vals : List Nat) (pw : Nat → Nat) (F : Nat → Bool) (tr : NTrace)
    (h : goodB vals pw F tr = true) : Good vals pw F tr := by
  intro pre e rest hsplit hF
  have := goodFrom_sound vals pw F tr [] h pre e rest hsplit hF
  simpa using this

theorem decisionOK_sound (vals : List Nat) (pw : Nat → Nat) (tr : NTrace) (b : Nat)
    (h : decisionOK vals pw tr b = true) : ∃ r, commitQ vals pw tr r b := by
  simp only [decisionOK, List.any_eq_true, Bool.and_eq_true] at h
  obtain ⟨w, _, ⟨_, h3⟩⟩ := h
  exact ⟨w.vote.round, (commitQB_iff _ _ _ _ _).mp h3⟩

/-! ## the property -/

/-- **C01 (single height)**: with less than one third of the voting power faulty, in every
trace whose correct validators honour their obligations — for every delivery order, every
Byzantine behaviour, every power distribution — two blocks that both gather +2/3 precommits
(in any rounds) are equal; a correct node decides only on +2/3 precommits, hence no two
correct nodes decide differently. -/
theorem C01_agreement {V B : Type} [DecidableEq V] [DecidableEq B]
    (vals : List V) (pw : V → Nat) (F : V → Bool) (tr : Trace V B)
    (hF : 3 * power vals pw F < power vals pw (fun _ => true))
    (hgood : Good vals pw F tr) (r r' : Nat) (b b' : B)
    (h : commitQ vals pw tr r b) (h' : commitQ vals pw tr r' b') : b = b' :=
  agreement vals pw F tr hF hgood r r' b b' h h'

/-- **C01, checked form** (what the driver evaluates on traces recorded from real nodes):
if the recorded trace passes the checker and the two decisions each have a commit quorum in
it, the decisions are equal. -/
theorem C01_checked_trace_agreement (vals : List Nat) (pw : Nat → Nat) (F : Nat → Bool) (tr : NTrace)
    (hF : 3 * power vals pw F < power vals pw (fun _ => true))
    (hgood : goodB vals pw F tr = true) (b b' : Nat)
    (h : decisionOK vals pw tr b = true) (h' : decisionOK vals pw tr b' = true) : b = b' := by
  obtain ⟨r, hr⟩ := decisionOK_sound vals pw tr b h
  obtain ⟨r', hr'⟩ := decisionOK_sound vals pw tr b' h'
  exact agreement vals pw F tr hF (goodB_sound vals pw F tr hgood) r r' b b' hr hr'

/-- **block sync**: a block adopted because a commit for it verifies (i.e. +2/3 of the height's
validator set precommitted it in one round — exactly what `VerifyCommit` establishes, C02) is
the block every correct validator decided at that height. -/
theorem C01_blocksync_safe {V B : Type} [DecidableEq V] [DecidableEq B]
    (vals : List V) (pw : V → Nat) (F : V → Bool) (tr : Trace V B)
    (hF : 3 * power vals pw F < power vals pw (fun _ => true))
    (hgood : Good vals pw F tr) (rSync : Nat) (adopted : B) (hverified : commitQ vals pw tr rSync adopted)
    (r : Nat) (decided : B) (hdec : commitQ vals pw tr r decided) : adopted = decided :=
  agreement vals pw F tr hF hgood rSync r adopted decided hverified hdec

/-- a commit quorum contains a correct validator: an adopted block was precommitted by a
correct validator (so it is a block "correct validators committed to") -/
theorem C01_commit_has_correct {V B : Type} [DecidableEq V] [DecidableEq B]
    (vals : List V) (pw : V → Nat) (F : V → Bool) (tr : Trace V B)
    (hF : 3 * power vals pw F < power vals pw (fun _ => true))
    (r : Nat) (b : B) (h : commitQ vals pw tr r b) :
    ∃ v, v ∈ vals ∧ F v = false ∧ sentB tr v ⟨.precommit, r, some b⟩ = true := by
  obtain ⟨v, hv, h1, h2⟩ := quorum_has_correct vals pw F _ hF h
  exact ⟨v, hv, h2, h1⟩

/-- **many heights**: chains decided height by height agree, provided equal chain prefixes give
equal validator sets and fault assumptions (that proviso is C06/C12/C14's subject and is a
hypothesis here). `decided h c b` = "in the execution of height `h` on top of chain `c` the block
`b` gathered a commit quorum". -/
theorem C01_agreement_heights {B : Type}
    (decided : Nat → List B → B → Prop)
    (hstep : ∀ h c b b', decided h c b → decided h c b' → b = b')
    (chain1 chain2 : List B)
    (h1 : ∀ i (hi : i < chain1.length), decided i (chain1.take i) chain1[i])
    (h2 : ∀ i (hi : i < chain2.length), decided i (chain2.take i) chain2[i]) :
    ∀ n, n ≤ chain1.length → n ≤ chain2.length → chain1.take n = chain2.take n := by
  intro n
  induction n with
  | zero => intro _ _; simp
  | succ n ih =>
    intro hn1 hn2
    have ihn := ih (by omega) (by omega)
    have d1 := h1 n (by omega)
    have d2 := h2 n (by omega)
    rw [ihn] at d1
    have heq := hstep n _ _ _ d1 d2
    rw [List.take_succ, List.take_succ, ihn]
    simp [List.getElem?_eq_getElem (show n < chain1.length by omega),
          List.getElem?_eq_getElem (show n < chain2.length by omega), heq]

/-! ## non-vacuity: a 4-validator trace with one equivocating validator that reaches a decision -/

def exVals : List Nat := [0, 1, 2, 3]
def exPw : Nat → Nat := fun _ => 10
def exF : Nat → Bool := fun v => v == 3
/-- validator 3 is Byzantine and prevotes both block 7 and block 8; 0,1,2 are correct -/
def exTrace : NTrace :=
  [ ⟨0, ⟨.prevote, 1, some 7⟩⟩, ⟨1, ⟨.prevote, 1, some 7⟩⟩, ⟨3, ⟨.prevote, 1, some 8⟩⟩,
    ⟨3, ⟨.prevote, 1, some 7⟩⟩, ⟨2, ⟨.prevote, 1, some 7⟩⟩,
    ⟨0, ⟨.precommit, 1, some 7⟩⟩, ⟨1, ⟨.precommit, 1, some 7⟩⟩, ⟨2, ⟨.precommit, 1, some 7⟩⟩,
    ⟨3, ⟨.precommit, 1, some 8⟩⟩ ]

example : 3 * power exVals exPw exF < power exVals exPw (fun _ => true) := by decide
example : goodB exVals exPw exF exTrace = true := by decide
example : decisionOK exVals exPw exTrace 7 = true := by decide
example : decisionOK exVals exPw exTrace 8 = false := by decide
/-- and a trace in which a correct validator breaks the lock rule is rejected by the checker -/
example : goodB exVals exPw exF
    (exTrace ++ [⟨0, ⟨.prevote, 2, some 8⟩⟩]) = false := by decide

end KV.Agree
