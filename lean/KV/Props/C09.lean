import KV.Proofs.Transition
import KV.Gen.C09
/-! # C09 — transaction execution conserves value and accounts for gas and nonces exactly

Theorems over the transition model `KV.Transition.transition` / `commitBlock`
(`KV/Model/Transition.lean`, written from `state_processor.go`, `kvm.go`, `block_operations.go`).
The interpreter is a parameter `run` constrained by the hypotheses `HV` (gas never grows, value only
moves or is burned, the origin's nonce is not touched); that the KVM satisfies `HV` is not proved
here (C10 / the differential). The bridge theorems at the end tie the hand-written gas arithmetic
of the model to the definitions regenerated from the Go source on every run (`KV.Gen.C09`).

`RejectedIsNoopStatement` — the clause "a rejected transaction leaves everything as if it had not
been in the block" at full strength — is FALSE of the code as found (F11):
`pool_after_reject_counterexample`, `rejectedIsNoopStatement_false`. -/
namespace KV.Props.C09
open KV KV.Transition

/-! ## conservation -/

/-- **Conservation.** For every pre-state, transaction, pool and interpreter satisfying `HV`: an
executed transaction changes the sum of all balances by exactly minus what the interpreter burned
(funds self-destructed to the destructing account) — nothing else appears or disappears. -/
theorem conservation {run : Run} {legacy : Bool} {cb : Addr} {w : World} {pool : Nat} {tx : Tx} {o : TOut}
    (hv : HV run tx.sender) (hg : tx.gas < U64.modulus)
    (h : transition run legacy cb w pool tx = .ok o) :
    total o.world = total w - o.burned ∧ 0 ≤ o.burned := by
  obtain ⟨_, _, _, _, hi, _, _, ho⟩ := transition_ok_inv h
  obtain ⟨hvm, hle⟩ := vmGas_eq legacy tx hg hi
  have hgl := frameOut_gas hv legacy w tx
  have hl : (frameOut run legacy w tx).gasLeft ≤ tx.gas := by omega
  obtain ⟨_, _, h2le, hused⟩ := refundGas_exact tx.gas _ (frameOut run legacy w tx).refund hg hl
  have htot := frameOut_total hv legacy w tx
  have hb := frameOut_burned_nonneg hv legacy w tx
  subst ho
  simp only [total_addBal, hused]
  refine ⟨?_, hb⟩
  generalize (refundGas tx.gas (frameOut run legacy w tx).gasLeft (frameOut run legacy w tx).refund).2 = g2 at *
  have e : (Int.ofNat g2) * tx.price + (Int.ofNat (tx.gas - g2)) * tx.price = (Int.ofNat tx.gas) * tx.price := by
    rw [← Int.add_mul]
    congr 1
    show ((g2 : Nat) : Int) + ((tx.gas - g2 : Nat) : Int) = ((tx.gas : Nat) : Int)
    omega
  omega

/-- **Who pays whom.** After the top-level frame (which moved `value` from the sender to the
recipient / created contract, or restored it on failure) the sender gets back `gas' × price` for
the unused gas and the coinbase receives `used × price`, with `gas' + used = gasLimit`: together
with the debit of `gasLimit × price` by `buyGas` the sender pays exactly `used × price` in fees. -/
theorem fee_split {run : Run} {legacy : Bool} {cb : Addr} {w : World} {pool : Nat} {tx : Tx} {o : TOut}
    (hv : HV run tx.sender) (hg : tx.gas < U64.modulus)
    (h : transition run legacy cb w pool tx = .ok o) (a : Addr) :
    (get o.world a).bal = (get (frameOut run legacy w tx).world a).bal
        + (if tx.sender = a then (Int.ofNat (tx.gas - o.used)) * tx.price else 0)
        + (if cb = a then (Int.ofNat o.used) * tx.price else 0) ∧
    o.used ≤ tx.gas := by
  obtain ⟨_, _, _, _, hi, _, _, ho⟩ := transition_ok_inv h
  obtain ⟨hvm, hle⟩ := vmGas_eq legacy tx hg hi
  have hgl := frameOut_gas hv legacy w tx
  have hl : (frameOut run legacy w tx).gasLeft ≤ tx.gas := by omega
  obtain ⟨_, _, h2le, hused⟩ := refundGas_exact tx.gas _ (frameOut run legacy w tx).refund hg hl
  subst ho
  simp only [bal_addBal, hused]
  have : tx.gas - (tx.gas - (refundGas tx.gas (frameOut run legacy w tx).gasLeft (frameOut run legacy w tx).refund).2)
      = (refundGas tx.gas (frameOut run legacy w tx).gasLeft (frameOut run legacy w tx).refund).2 := by omega
  rw [this]
  exact ⟨rfl, by omega⟩

/-- the interpreter that does nothing (a plain transfer to an account without code) -/
def idRun : Run := fun w f => { world := w, gasLeft := f.gas }

theorem idRun_HV (o : Addr) : HV idRun o :=
  ⟨fun _ _ => Nat.le_refl _, fun _ _ _ => by simp [idRun], fun _ _ => by simp [idRun], fun _ _ _ => rfl⟩

/-- **Plain transfer, exactly.** Sender, recipient and coinbase pairwise distinct: the sender pays
`value + used × price`, the recipient receives `value`, the coinbase receives `used × price`, and
`used` is the intrinsic gas. -/
theorem plain_transfer_exact {legacy : Bool} {cb r : Addr} {w : World} {pool : Nat} {tx : Tx} {o : TOut}
    (hg : tx.gas < U64.modulus) (hto : tx.to = some r)
    (hsr : tx.sender ≠ r) (hsc : tx.sender ≠ cb) (hrc : r ≠ cb)
    (h : transition idRun legacy cb w pool tx = .ok o) :
    o.used = (intrinsicGas tx.data false legacy).1 ∧
    (get o.world tx.sender).bal = (get w tx.sender).bal - tx.value - (Int.ofNat o.used) * tx.price ∧
    (get o.world r).bal = (get w r).bal + tx.value ∧
    (get o.world cb).bal = (get w cb).bal + (Int.ofNat o.used) * tx.price := by
  have hv := idRun_HV tx.sender
  obtain ⟨_, hfunds, _, _, hi, h6, _, ho⟩ := transition_ok_inv h
  obtain ⟨hvm, hle⟩ := vmGas_eq legacy tx hg hi
  have hfo : frameOut idRun legacy w tx =
      { world := transfer (setNonce (worldBought w tx) tx.sender ((get (worldBought w tx) tx.sender).nonce + 1)) tx.sender r tx.value,
        gasLeft := vmGas legacy tx } := by
    unfold frameOut
    rw [hto]
    simp only [callFrame]
    rw [if_neg]
    · simp [idRun]
    · intro ⟨hs, hc⟩
      apply hc
      rw [canTransfer_iff, bal_setNonce]
      rw [sign_pos_iff, canTransfer_iff] at h6
      rw [sign_ne_zero_iff] at hs
      have hb : 0 ≤ (get (worldBought w tx) tx.sender).bal := by
        simp only [worldBought, bal_addBal, if_true]
        rw [insufficient_false_iff] at hfunds
        omega
      omega
  have hl : (frameOut idRun legacy w tx).gasLeft ≤ tx.gas := by rw [hfo]; simp only []; omega
  obtain ⟨hr1, hr2, h2le, hused⟩ := refundGas_exact tx.gas _ (frameOut idRun legacy w tx).refund hg hl
  have hto' : tx.to.isNone = false := by rw [hto]; rfl
  have husedv : o.used = (intrinsicGas tx.data false legacy).1 := by
    subst ho
    simp only [hused]
    rw [hr2, hr1, hfo]
    simp only [hvm, hto']
    rw [hto'] at hle
    omega
  refine ⟨husedv, ?_⟩
  have hfs := fun a => (fee_split hv hg h a).1
  have hu := (fee_split hv hg h 0).2
  rw [hfs tx.sender, hfs r, hfs cb, hfo]
  simp only [transfer, bal_addBal, bal_setNonce, worldBought, buyGasCost, if_true, if_neg hsr, if_neg hsc,
    if_neg hrc, if_neg (Ne.symm hsr), if_neg (Ne.symm hsc), if_neg (Ne.symm hrc)]
  have e : (Int.ofNat tx.gas) * tx.price = (Int.ofNat (tx.gas - o.used)) * tx.price + (Int.ofNat o.used) * tx.price := by
    rw [← Int.add_mul]
    congr 1
    show ((tx.gas : Nat) : Int) = ((tx.gas - o.used : Nat) : Int) + ((o.used : Nat) : Int)
    omega
  refine ⟨?_, ?_, ?_⟩ <;> omega

/-! ## gas -/

/-- **Gas bounds.** `used ≤ gasLimit`; the refund is at most half of the gas used before the
refund (`used + refund`) and at most the refund counter; `initialGas − gas` never underflows
(`gasLeft + refund ≤ gasLimit`), the intrinsic gas is covered, and `used` is exactly
`gasLimit − gasLeft − refund`. -/
theorem gas_bounds {run : Run} {legacy : Bool} {cb : Addr} {w : World} {pool : Nat} {tx : Tx} {o : TOut}
    (hv : HV run tx.sender) (hg : tx.gas < U64.modulus)
    (h : transition run legacy cb w pool tx = .ok o) :
    o.used ≤ tx.gas ∧
    o.refund ≤ (o.used + o.refund) / 2 ∧
    o.refund ≤ (frameOut run legacy w tx).refund ∧
    (frameOut run legacy w tx).gasLeft + o.refund ≤ tx.gas ∧
    o.used = tx.gas - (frameOut run legacy w tx).gasLeft - o.refund ∧
    (intrinsicGas tx.data tx.to.isNone legacy).1 ≤ o.used + o.refund := by
  obtain ⟨_, _, _, _, hi, _, _, ho⟩ := transition_ok_inv h
  obtain ⟨hvm, hle⟩ := vmGas_eq legacy tx hg hi
  have hgl := frameOut_gas hv legacy w tx
  have hl : (frameOut run legacy w tx).gasLeft ≤ tx.gas := by omega
  obtain ⟨hr1, hr2, h2le, hused⟩ := refundGas_exact tx.gas _ (frameOut run legacy w tx).refund hg hl
  subst ho
  simp only [hused]
  rw [hr2] at h2le ⊢
  rw [hr1] at h2le ⊢
  have := Nat.min_le_left ((tx.gas - (frameOut run legacy w tx).gasLeft) / 2) (frameOut run legacy w tx).refund
  have := Nat.min_le_right ((tx.gas - (frameOut run legacy w tx).gasLeft) / 2) (frameOut run legacy w tx).refund
  omega

/-- **Pool, exactly.** On success the block gas pool decreases by exactly the gas used (no wrap in
`SubGas`/`AddGas`, and `AddGas` cannot panic). -/
theorem pool_exact {run : Run} {legacy : Bool} {cb : Addr} {w : World} {pool : Nat} {tx : Tx} {o : TOut}
    (hv : HV run tx.sender) (hg : tx.gas < U64.modulus) (hp : pool < U64.modulus)
    (h : transition run legacy cb w pool tx = .ok o) :
    o.pool + o.used = pool ∧ tx.gas ≤ pool := by
  obtain ⟨_, _, hps, _, hi, _, _, ho⟩ := transition_ok_inv h
  obtain ⟨hvm, hle⟩ := vmGas_eq legacy tx hg hi
  have hgl := frameOut_gas hv legacy w tx
  have hl : (frameOut run legacy w tx).gasLeft ≤ tx.gas := by omega
  obtain ⟨_, _, h2le, hused⟩ := refundGas_exact tx.gas _ (frameOut run legacy w tx).refund hg hl
  subst ho
  simp only [hused]
  simp only [gasPoolSubFails, decide_eq_false_iff_not] at hps
  generalize (refundGas tx.gas (frameOut run legacy w tx).gasLeft (frameOut run legacy w tx).refund).2 = g2 at *
  unfold gasPoolAdd gasPoolSub U64.add U64.sub U64.wrap
  unfold U64.modulus at *
  omega

/-- `GasPool.AddGas` cannot panic in `refundGas` -/
theorem pool_add_never_panics {run : Run} {legacy : Bool} {cb : Addr} {w w' : World} {pool pool' : Nat} {tx : Tx}
    (hv : HV run tx.sender) (hg : tx.gas < U64.modulus) (hp : pool < U64.modulus) :
    transition run legacy cb w pool tx ≠ .rejected .poolPanic w' pool' := by
  intro h
  unfold transition at h
  split at h
  · injection h with h1; cases h1
  split at h
  · injection h with h1; cases h1
  split at h
  · injection h with h1; cases h1
  split at h
  · injection h with h1; cases h1
  split at h
  · injection h with h1; cases h1
  split at h
  · injection h with h1; cases h1
  split at h
  · injection h with h1; cases h1
  simp only [] at h
  split at h
  · next h1 h2 h3 hps h5 hi h7 hpanic =>
    simp only [decide_eq_true_eq] at hi
    obtain ⟨hvm, hle⟩ := vmGas_eq legacy tx hg hi
    have hgl := frameOut_gas hv legacy w tx
    have hl : (frameOut run legacy w tx).gasLeft ≤ tx.gas := by omega
    obtain ⟨_, _, h2le, _⟩ := refundGas_exact tx.gas _ (frameOut run legacy w tx).refund hg hl
    simp only [gasPoolSubFails, decide_eq_true_eq] at hps
    simp only [gasPoolAddPanics, decide_eq_true_eq] at hpanic
    generalize (refundGas tx.gas (frameOut run legacy w tx).gasLeft (frameOut run legacy w tx).refund).2 = g2 at *
    unfold gasPoolSub U64.sub U64.wrap maxU64 at hpanic
    unfold U64.modulus at *
    omega
  · cases h

/-! ## nonce -/

/-- **Nonce.** An executed transaction increases the sender's nonce by exactly one — on the call
path by `TransitionDb`, on the create path by `KVM.create` (also when the frame fails or the
address is taken) — and it was equal to the transaction's nonce. `newAddr ≠ sender`: a creation
address is a hash of the sender and the nonce. -/
theorem nonce_once {run : Run} {legacy : Bool} {cb : Addr} {w : World} {pool : Nat} {tx : Tx} {o : TOut}
    (hv : HV run tx.sender) (hnew : tx.newAddr ≠ tx.sender)
    (h : transition run legacy cb w pool tx = .ok o) :
    (get o.world tx.sender).nonce = (get w tx.sender).nonce + 1 ∧ (get w tx.sender).nonce = tx.nonce := by
  obtain ⟨hn, hfunds, _, _, _, h6, _, ho⟩ := transition_ok_inv h
  subst ho
  simp only [nonce_addBal]
  exact ⟨frameOut_nonce legacy w tx hv hnew hfunds h6, hn⟩

/-! ## rejected transactions and the block loop -/

/-- the error classes raised before `buyGas` touched anything -/
def isEarly : TxErr → Bool
  | .nonceHigh | .nonceLow | .fundsGas | .pool => true
  | _ => false

/-- a transaction rejected for a bad nonce, insufficient funds for gas, or an exhausted pool
leaves world and pool untouched already in `TransitionDb` -/
theorem early_rejection_touches_nothing {run : Run} {legacy : Bool} {cb : Addr} {w w' : World} {pool pool' : Nat}
    {tx : Tx} {e : TxErr} (h : transition run legacy cb w pool tx = .rejected e w' pool') (he : isEarly e = true) :
    w' = w ∧ pool' = pool := by
  unfold transition at h
  split at h
  · injection h with h1 h2 h3; exact ⟨h2.symm, h3.symm⟩
  split at h
  · injection h with h1 h2 h3; exact ⟨h2.symm, h3.symm⟩
  split at h
  · injection h with h1 h2 h3; exact ⟨h2.symm, h3.symm⟩
  split at h
  · injection h with h1 h2 h3; exact ⟨h2.symm, h3.symm⟩
  split at h
  · injection h with h1 h2 h3; subst h1; cases he
  split at h
  · injection h with h1 h2 h3; subst h1; cases he
  split at h
  · injection h with h1 h2 h3; subst h1; cases he
  simp only [] at h
  split at h
  · injection h with h1 h2 h3; subst h1; cases he
  · cases h

/-- **Rejected ⇒ no-op on the world** (the part of the clause that holds): whatever the reason of
the rejection, `commitBlock`'s iteration leaves every account exactly as it was, and no receipt. -/
theorem rejected_is_noop_partial {run : Run} {legacy : Bool} {cb : Addr} {s : BState} {tx : Tx}
    {e : TxErr} {w' : World} {pool' : Nat}
    (h : transition run legacy cb s.world s.pool tx = .rejected e w' pool') :
    (commitStep run legacy cb s tx).world = s.world ∧
    (commitStep run legacy cb s tx).receipts = s.receipts ∧
    (isEarly e = true → commitStep run legacy cb s tx = s) := by
  unfold commitStep
  rw [h]
  refine ⟨rfl, rfl, fun he => ?_⟩
  obtain ⟨_, hp⟩ := early_rejection_touches_nothing h he
  subst hp
  rfl

/-- … and for the early error classes the whole block is as if the transaction were absent -/
theorem rejected_early_block_noop {run : Run} {legacy : Bool} {cb : Addr} (s : BState) (pre post : List Tx) (tx : Tx)
    {e : TxErr} {w' : World} {pool' : Nat}
    (h : transition run legacy cb (commitBlock run legacy cb s pre).world (commitBlock run legacy cb s pre).pool tx
          = .rejected e w' pool') (he : isEarly e = true) :
    commitBlock run legacy cb s (pre ++ tx :: post) = commitBlock run legacy cb s (pre ++ post) := by
  unfold commitBlock at *
  rw [List.foldl_append, List.foldl_append, List.foldl_cons, (rejected_is_noop_partial h).2.2 he]

/-- The clause at full strength: a transaction rejected by `TransitionDb` leaves the block's result
(world, pool, receipts) as if it had not been in the block. **False of the code as found (F11).** -/
def RejectedIsNoopStatement : Prop :=
  ∀ (run : Run) (legacy : Bool) (cb : Addr) (s : BState) (pre post : List Tx) (tx : Tx) (e : TxErr) (w' : World) (pool' : Nat),
    transition run legacy cb (commitBlock run legacy cb s pre).world (commitBlock run legacy cb s pre).pool tx
        = .rejected e w' pool' →
    (commitBlock run legacy cb s (pre ++ tx :: post)).world = (commitBlock run legacy cb s (pre ++ post)).world

/-! ### F11: the witness block -/

/-- accounts: 0 = A (sender of tx1), 1 = B (sender of tx2), 2 = recipient, 9 = coinbase -/
def f11World : World :=
  [(0, { bal := 9950999 }), (1, { bal := 101000 }), (2, {}), (9, {})]
/-- tx1: gas = limit − 50 000, value 1000 > balance − gas × price = 999 ⇒ `ErrInsufficientFundsForTransfer` after `buyGas` -/
def f11Tx1 : Tx := { sender := 0, to := some 2, nonce := 0, gas := 9950000, price := 1, value := 1000 }
/-- the same hole through `ErrIntrinsicGas`: 1000 non-zero data bytes need 53 000 + 68 000 gas -/
def f11Tx1' : Tx := { sender := 0, to := none, newAddr := 7, nonce := 0, gas := 100000, price := 1, value := 0,
                      data := List.replicate 1000 1 }
/-- tx2: plain transfer of 1000, gas 100 000 -/
def f11Tx2 : Tx := { sender := 1, to := some 2, nonce := 0, gas := 100000, price := 1, value := 1000 }
def f11Start : BState := { world := f11World, pool := 10000000 }

set_option maxRecDepth 200000 in
/-- **F11.** Block `[tx1, tx2]` with gas limit 10 000 000: tx1 is rejected with
`ErrInsufficientFundsForTransfer`, the world is reverted but the pool stays at 50 000, so tx2
(gas 100 000) is rejected with "gas limit reached" and the block has no receipt; the block `[tx2]`
executes tx2 (recipient + 1000, B's nonce 1, 21 000 gas used). Same with `ErrIntrinsicGas`. -/
theorem pool_after_reject_counterexample :
    transition idRun false 9 f11World 10000000 f11Tx1
        = .rejected .fundsTransfer (worldBought f11World f11Tx1) 50000 ∧
    commitBlock idRun false 9 f11Start [f11Tx1, f11Tx2] = { world := f11World, pool := 50000, receipts := [] } ∧
    (commitBlock idRun false 9 f11Start [f11Tx2]).receipts = [(21000, false)] ∧
    (get (commitBlock idRun false 9 f11Start [f11Tx2]).world 2).bal = 1000 ∧
    (get (commitBlock idRun false 9 f11Start [f11Tx2]).world 1).nonce = 1 ∧
    (commitBlock idRun false 9 f11Start [f11Tx2]).pool = 10000000 - 21000 ∧
    transition idRun false 9 f11World 150000 f11Tx1' = .rejected .intrinsic (worldBought f11World f11Tx1') 50000 ∧
    (commitBlock idRun false 9 { f11Start with pool := 150000 } [f11Tx1', f11Tx2]).receipts = [] ∧
    (commitBlock idRun false 9 { f11Start with pool := 150000 } [f11Tx2]).receipts = [(21000, false)] := by
  decide

/-- the full-strength clause is refuted by the witness -/
theorem rejectedIsNoopStatement_false : ¬ RejectedIsNoopStatement := by
  intro hS
  have h := hS idRun false 9 f11Start [] [f11Tx2] f11Tx1 .fundsTransfer (worldBought f11World f11Tx1) 50000 (by decide)
  have h2 : (get (commitBlock idRun false 9 f11Start ([] ++ f11Tx1 :: [f11Tx2])).world 2).bal
      = (get (commitBlock idRun false 9 f11Start ([] ++ [f11Tx2])).world 2).bal := by rw [h]
  revert h2
  decide

/-! ## `Finalise` -/

/-- deleting a self-destructed account removes exactly what it still held -/
theorem finalise_step_total (w : World) (a : Addr) : total (set w a {}) = total w - (get w a).bal := by
  rw [total_set]; simp

/-! ## non-vacuity -/

/-- the hypotheses are satisfiable and the success branch is inhabited: tx2 of the witness executes -/
example : ∃ o, transition idRun false 9 f11World 10000000 f11Tx2 = .ok o ∧ o.used = 21000 ∧ HV idRun f11Tx2.sender :=
  ⟨_, rfl, by decide, idRun_HV _⟩

/-- an interpreter that burns (self-destruct to self of 5 units held by the callee) satisfies `HV` -/
example : HV (fun w f => { world := addBal w f.addr (-5), gasLeft := f.gas / 2, burned := 5 }) 0 :=
  ⟨fun _ f => Nat.div_le_self _ _, fun _ _ _ => by simp only [total_addBal]; omega, fun _ _ => by simp,
   fun _ _ _ => by simp [nonce_addBal]⟩

/-- every early error class and both late ones are reachable -/
example : transition idRun false 9 f11World 10000000 { f11Tx2 with nonce := 1 } = .rejected .nonceHigh f11World 10000000 := by decide
example : transition idRun false 9 f11World 10000000 { f11Tx2 with gas := 200000 } = .rejected .fundsGas f11World 10000000 := by decide
example : transition idRun false 9 f11World 50000 f11Tx2 = .rejected .pool f11World 50000 := by decide

/-! ## bridge to the definitions regenerated from the Go source (tie T1) -/

theorem bridge_TxGas : KV.Gen.C09.TxGas = TxGas := rfl
theorem bridge_TxGasLegacy : KV.Gen.C09.TxGasLegacy = TxGasLegacy := rfl
theorem bridge_TxGasContractCreation : KV.Gen.C09.TxGasContractCreation = TxGasContractCreation := rfl
theorem bridge_TxDataZeroGas : KV.Gen.C09.TxDataZeroGas = TxDataZeroGas := rfl
theorem bridge_TxDataNonZeroGas : KV.Gen.C09.TxDataNonZeroGas = TxDataNonZeroGas := rfl

theorem bridge_IntrinsicGas : KV.Gen.C09.IntrinsicGas = intrinsicGas := by
  funext data cc legacy
  unfold KV.Gen.C09.IntrinsicGas intrinsicGas countNZ TxGasContractCreation TxGasLegacy TxGas TxDataNonZeroGas
    TxDataZeroGas maxU64
  cases cc <;> cases legacy <;> rfl

theorem bridge_gasUsed : KV.Gen.C09.gasUsed = gasUsed := rfl

theorem bridge_refundGas : KV.Gen.C09.refundGas = refundGas := by
  funext i g r
  unfold KV.Gen.C09.refundGas refundGas
  rfl

/-- the refund is half of the gas used … -/
theorem bridge_refundHalf (i g r : Nat) :
    (refundGas i g r).1 = if KV.Gen.C09.refundCapped (KV.Gen.C09.refundHalf (gasUsed i g)) r then r
                          else KV.Gen.C09.refundHalf (gasUsed i g) := by
  unfold refundGas KV.Gen.C09.refundCapped KV.Gen.C09.refundHalf
  simp only [decide_eq_true_eq]

theorem bridge_buyGasCost : KV.Gen.C09.buyGasCost = buyGasCost := rfl
theorem bridge_refundRemaining (g : Nat) (p : Int) : KV.Gen.C09.refundRemaining g p = (Int.ofNat g) * p := rfl
theorem bridge_buyGasInsufficientFunds : KV.Gen.C09.buyGasInsufficientFunds = buyGasInsufficientFunds := rfl
theorem bridge_buyGasCredit (g : Nat) : KV.Gen.C09.buyGasCredit 0 g = U64.add 0 g := rfl
theorem bridge_intrinsicGasTooLow (g i : Nat) : KV.Gen.C09.intrinsicGasTooLow g i = decide (g < i) := rfl
theorem bridge_chargeIntrinsicGas (g i : Nat) : KV.Gen.C09.chargeIntrinsicGas g i = U64.sub g i := rfl
theorem bridge_gasPoolSubFails : KV.Gen.C09.gasPoolSubFails = gasPoolSubFails := rfl
theorem bridge_gasPoolSub : KV.Gen.C09.gasPoolSub = gasPoolSub := rfl
theorem bridge_gasPoolAddPanics : KV.Gen.C09.gasPoolAddPanics = gasPoolAddPanics := rfl
theorem bridge_gasPoolAdd : KV.Gen.C09.gasPoolAdd = gasPoolAdd := rfl

/-- the transition's `vmGas` is the generated `buyGasCredit` / `chargeIntrinsicGas` chain -/
theorem bridge_vmGas (legacy : Bool) (tx : Tx) :
    vmGas legacy tx = KV.Gen.C09.chargeIntrinsicGas (KV.Gen.C09.buyGasCredit 0 tx.gas)
      (KV.Gen.C09.IntrinsicGas tx.data tx.to.isNone legacy).1 := by
  rw [bridge_IntrinsicGas]; rfl

end KV.Props.C09
