import KV.Proofs.CsSyncNet
import KV.Proofs.CsOld
/-!
# C04 (part) — a synchronous round with a correct proposer decides

The logic core of liveness, for the NETWORK of `Cs` nodes of `KV/Props/C01Cs.lean` (`Net`,
`GState`, `gstep`, `grun`, `GOkS`, `gstart`), for **every** number of validators and **every**
power distribution.  Liveness over real time (timers, gossip, "eventually synchronous") is not
modelled and stays a search in the Go harness (`KV/Props/C04.lean`); what is proved here is that
the state machine's logic decides as soon as one round is synchronous:

* `syncRoundP N h r p pol b` — the explicit schedule of a synchronous round (h, r) among the
  correct validators (`correct N`, those with `F i = false`): the proposal of `p` for block `b`
  with POL round `pol` and the complete block (`ValidateBlock` answers ok) reach every correct
  node; then every correct node's prevote reaches every correct node; then every correct node's
  precommit reaches every correct node.  Faulty validators are silent.
* `RoundReady N g h r p pol b` — the round boundary: the correct validators hold more than 2/3 of
  the power, all of them are at (h, r) in step Propose with no proposal / block / vote of round
  `r` yet, they agree that `p` is the proposer, `p` is correct and signed the proposal for `b`
  with POL round `pol`, no correct node is locked on another block than `b`, and, if `pol ≠ 0`,
  every correct node holds the polka of round `pol < r` for `b`.
* `sync_round_decides` — from ANY global state satisfying the network invariant `GInv` (every
  reachable state does: `C01Cs.grun_inv`) and `RoundReady`: the schedule is an execution the
  agreement theorem covers (`GOkS`: votes authentic, no timeout needed), and afterwards EVERY
  correct node has `commit h b` in its log.
* `fresh_network_commits` — from `gstart` (every node at the initial height, NewHeight timeout
  scheduled), no faulty validator, any `n ≥ 1`, any positive powers: NewHeight timeouts, then
  `syncRound`: every node commits the block the proposer of round 1 created.  Stated for
  `waitTxs = false` (`IsCreateEmptyBlocks ∧ CreateEmptyBlocksInterval = 0`, the configuration the
  Go harness runs) and, `fresh_network_commits_interval`, for `waitTxs ∧ emptyInterval` (the
  production default: an extra NewRound timeout per node).  With `waitTxs ∧ ¬emptyInterval` the
  node waits for transactions, which the model has no input for.

* `pol_gossip_ready`, `pol_round_decides` — locks from earlier rounds: the correct proposer
  re-proposes its valid block `b` with POL round `pol`; a correct node may be locked on ANOTHER
  block from a round `< pol` as long as it does not hold the polka of round `pol` yet
  (`PolReady`).  `polGossip` (the round-`pol` prevotes for `b` of a validator set with +2/3, faulty
  ones included, reach every correct node) releases those locks ("Unlocking because of POL") and
  establishes `RoundReady`; then the synchronous round decides.
* How many rounds (`unlucky_rounds_bounded`): "at most two consecutive synchronous rounds with
  correct proposers" is FALSE (`two_sync_rounds_not_enough_counterexample`: a failed synchronous
  round without a polka changes no lock; the decisive round is the one of the proposer whose valid
  round is at least every conflicting lock round).  `unlucky_rounds_bounded` (=
  `unluckyRoundsBoundedStatement`, PROVED): at a reachable boundary whose correct proposer's valid
  round dominates (`Dominated`), `PolReady` holds for the proposer's polka set, hence POL gossip and
  ONE synchronous round decide (`pol_round_decides`); it rests on `NoStale` (F36) and on the
  single-node invariants `Cs.Aux` (`KV/Proofs/CsAux.lean`: a valid block carries its polka, the vote
  sets of the rounds up to the current one exist, a proposer has signed its valid block).  The
  number of rounds until such a proposer's turn is a matter of the rotation (C12), not formalised.
* F36, the stale lock: before the fix a node that round-skipped past the prevote step of a round
  whose polka it held kept its older lock for ever and blocked the height although 75 % of the
  power was correct, connected and synchronous (`stale_lock_livelock_counterexample_old_rule`, about
  `stepOld` of `KV/Proofs/CsOld.lean`; confirmed on real nodes).  The node model now releases such
  a lock when it enters a round (`Cs.releaseStale`): `stale_lock_released`,
  `stale_lock_released_decides` (the same inputs: the lock is released at the first skip and the
  round of the dominating proposer decides), and `C03.stale_lock_never_persists` /
  `C01Cs.stale_lock_never_persists_network` (`NoStale` is an invariant), which `pol_gossip_ready`
  uses: a lock from a round before the POL round cannot coexist with the polka of the POL round.
  `decidableFromEverywhereStatement` is the full logic-core statement, not proved.

The proof is by induction over the deliveries (`KV/Proofs/CsSyncRun.lean`): the vote-set tally of
a node crosses +2/3 at some delivery; before it nothing fires, at it the node precommits /
commits exactly once (the `step` guards), after it deliveries are no-ops.
-/
namespace KV.Props.C04Net
open KV.Cs KV.Cs.Sync KV.Agree KV.Props.C03 KV.Props.C01Cs

/-! ### the schedule -/

/-- the synchronous round (h, r) among the correct validators: proposal of `p` for `b` (POL round
`pol`) and the block to everyone, every prevote to everyone, every precommit to everyone -/
def syncRoundP (N : Net) (h r p pol b : Nat) : List GStep :=
  phase (correct N) (fun _ => propIn p h r pol b) ++
  phase (correct N) (fun _ => (correct N).map (pvIn h r b)) ++
  phase (correct N) (fun _ => (correct N).map (pcIn h r b))

/-- the proposer of (h, r) as node 0 computes it (all nodes compute the same: hypothesis) -/
def proposerOf (N : Net) (h r : Nat) : Nat := (N.cfg 0).proposer h r

/-- the synchronous round for a fresh block (no POL round) -/
def syncRound (N : Net) (h r b : Nat) : List GStep := syncRoundP N h r (proposerOf N h r) 0 b

/-! ### the round boundary -/

/-- a correct node at the boundary of round (h, r) in which `b` will be proposed with POL round
`pol`: step Propose, nothing of the round received, not locked on another block, polka of the POL
round held -/
def NodeReady (cfg : Config) (h r pol b : Nat) (σ : State) : Prop :=
  σ.halted = false ∧ σ.height = h ∧ σ.round = r ∧ σ.step = .propose ∧
  σ.proposal = none ∧ σ.pblock = none ∧ σ.parts = none ∧
  (σ.locked = none ∨ idIs σ.locked b = true) ∧
  (pol = 0 ∨ (pol < r ∧ maj23 cfg.powers (σ.slots .prevote h pol) = some (some b))) ∧
  σ.slots .prevote h r = List.replicate (n cfg) none ∧
  σ.slots .precommit h r = List.replicate (n cfg) none

/-- the network at the boundary of round (h, r): see the module doc -/
def RoundReady (N : Net) (g : GState) (h r p pol b : Nat) : Prop :=
  CorrectQuorum N ∧ p < N.powers.length ∧ N.F p = false ∧
  Action.signProposal h r pol b ∈ (g.st p).log ∧
  ∀ i, i < N.powers.length → N.F i = false →
    ((N.cfg i).proposer h r = p ∧ NodeReady (N.cfg i) h r pol b (g.st i))

instance (N : Net) : Decidable (CorrectQuorum N) := by
  unfold CorrectQuorum; exact inferInstance

instance (cfg : Config) (h r pol b : Nat) (σ : State) : Decidable (NodeReady cfg h r pol b σ) := by
  unfold NodeReady; exact inferInstance

instance (N : Net) (g : GState) (h r p pol b : Nat) : Decidable (RoundReady N g h r p pol b) := by
  unfold RoundReady CorrectQuorum; exact inferInstance

theorem NodeReady.ready {cfg : Config} {h r pol b : Nat} {σ : State} (I : Inv cfg σ)
    (R : NodeReady cfg h r pol b σ) : Ready cfg h r pol b σ := by
  obtain ⟨nh, hh, hr, st, prop, pb, parts, lk, pol', pv, pc⟩ := R
  refine ⟨nh, hh, hr, st, prop, pb, parts, ?_, ?_, pv, pc⟩
  · rcases lk with lk | lk
    · exact Or.inl lk
    · right
      unfold idIs at lk
      split at lk
      · rename_i blk hl
        have hid : blk.id = b := by simpa using lk
        have hok := (I.lk blk hl).1
        rw [hl]
        obtain ⟨id, ok⟩ := blk
        simp only at hid hok
        rw [hid, hok]
      · cases lk
  · rcases pol' with h0 | ⟨h1, h2⟩
    · exact Or.inl h0
    · exact Or.inr ⟨h1, by rw [← State.slots_eq, h2]; rfl⟩

/-! ### (2) a synchronous round with a correct proposer decides -/

/-- **sync_round_decides.** From any global state `g` that satisfies the invariant of network
executions (`GInv`, true of every reachable state) and is at the boundary of round (h, r)
(`RoundReady`: correct validators hold +2/3, all at (h, r)/Propose with nothing of the round
received, correct proposer `p` proposing `b`, no correct node locked on another block, POL polka
held), the synchronous schedule `syncRoundP` is a legal execution (`GOkS`) and afterwards every
correct validator's node has `commit h b` in its log. -/
theorem sync_round_decides (N : Net) (wf : N.WF) (g : GState) (G : GInv N g) (h r p pol b : Nat)
    (R : RoundReady N g h r p pol b) :
    GOkS N g (syncRoundP N h r p pol b) ∧
    ∀ i, i < N.powers.length → N.F i = false →
      Action.commit h b ∈ ((grun N g (syncRoundP N h r p pol b)).st i).log := by
  obtain ⟨hq, _, _, _, hnode⟩ := R
  have hnd := correct_nodup N
  -- what every correct node satisfies
  have hn : ∀ i, n (N.cfg i) = N.powers.length := fun i => by unfold n; rw [wf.powers_eq]
  have hval : ∀ i ∈ correct N, isVal (N.cfg i) = true := fun i hi => by
    unfold isVal
    rw [wf.me_eq, wf.powers_eq]
    exact decide_eq_true (mem_correct.mp hi).1
  have hrd : ∀ i ∈ correct N, Ready (N.cfg i) h r pol b (g.st i) := fun i hi =>
    (hnode i (mem_correct.mp hi).1 (mem_correct.mp hi).2).2.ready (G.inv i)
  have hpr : ∀ i ∈ correct N, (N.cfg i).proposer h r = p := fun i hi =>
    (hnode i (mem_correct.mp hi).1 (mem_correct.mp hi).2).1
  have hlt : ∀ i, ∀ j ∈ correct N, j < n (N.cfg i) := fun i j hj => by
    rw [hn]; exact (mem_correct.mp hj).1
  have hqr : ∀ i, Quorate (N.cfg i) b (correct N) := fun i => quorate_correct N _ (wf.powers_eq i) hq b
  -- phase 1: proposal and block
  have ok1 : GOkS N g (phase (correct N) (fun _ => propIn p h r pol b)) := by
    apply goks_easy
    intro s hs
    obtain ⟨h1, h2⟩ := mem_phase hs
    refine ⟨(mem_correct.mp h1).2, ?_⟩
    simp only [propIn, List.mem_cons, List.not_mem_nil, or_false] at h2
    rcases h2 with h2 | h2 <;> rw [h2] <;> trivial
  have G1 := grun_inv_s wf _ g G ok1
  have st1 : ∀ i ∈ correct N, (grun N g (phase (correct N) (fun _ => propIn p h r pol b))).st i =
      run (N.cfg i) (g.st i) (propIn p h r pol b) := fun i hi => by
    rw [grun_st, proj_phase i _ _ hnd, if_pos hi]
  have tr1 : ∀ j ∈ correct N, (h, mkEv j .prevote r (some b)) ∈
      (grun N g (phase (correct N) (fun _ => propIn p h r pol b))).tr := fun j hj => by
    apply G1.compl j h .prevote r (some b) (mem_correct.mp hj).2
    rw [st1 j hj]
    exact (node_phase1 (hrd j hj) (hval j hj) (hpr j hj)).2.1
  -- phase 2: prevotes
  have ok2 : GOkS N (grun N g (phase (correct N) (fun _ => propIn p h r pol b)))
      (phase (correct N) (fun _ => (correct N).map (pvIn h r b))) := by
    apply goks_easy
    intro s hs
    obtain ⟨h1, h2⟩ := mem_phase hs
    refine ⟨(mem_correct.mp h1).2, ?_⟩
    obtain ⟨j, hj, he⟩ := List.mem_map.mp h2
    rw [← he]
    exact Or.inr (tr1 j hj)
  have ok12 : GOkS N g (phase (correct N) (fun _ => propIn p h r pol b) ++
      phase (correct N) (fun _ => (correct N).map (pvIn h r b))) := (goks_append N _ _ g).mpr ⟨ok1, ok2⟩
  have G2 := grun_inv_s wf _ g G ok12
  have st2 : ∀ i ∈ correct N, (grun N g (phase (correct N) (fun _ => propIn p h r pol b) ++
      phase (correct N) (fun _ => (correct N).map (pvIn h r b)))).st i =
      run (N.cfg i) (g.st i) (propIn p h r pol b ++ (correct N).map (pvIn h r b)) := fun i hi => by
    rw [grun_st, proj_append, proj_phase i _ _ hnd, proj_phase i _ _ hnd, if_pos hi, if_pos hi]
  have tr2 : ∀ j ∈ correct N, (h, mkEv j .precommit r (some b)) ∈
      (grun N g (phase (correct N) (fun _ => propIn p h r pol b) ++
        phase (correct N) (fun _ => (correct N).map (pvIn h r b)))).tr := fun j hj => by
    apply G2.compl j h .precommit r (some b) (mem_correct.mp hj).2
    rw [st2 j hj]
    exact (node_phase2 (hrd j hj) (hval j hj) (hpr j hj) (correct N) hnd (hlt j) (hqr j)).1.sg
  -- phase 3: precommits
  have ok3 : GOkS N (grun N g (phase (correct N) (fun _ => propIn p h r pol b) ++
        phase (correct N) (fun _ => (correct N).map (pvIn h r b))))
      (phase (correct N) (fun _ => (correct N).map (pcIn h r b))) := by
    apply goks_easy
    intro s hs
    obtain ⟨h1, h2⟩ := mem_phase hs
    refine ⟨(mem_correct.mp h1).2, ?_⟩
    obtain ⟨j, hj, he⟩ := List.mem_map.mp h2
    rw [← he]
    exact Or.inr (tr2 j hj)
  refine ⟨(goks_append N _ _ g).mpr ⟨ok12, ok3⟩, ?_⟩
  intro i hi hF
  have hic : i ∈ correct N := mem_correct.mpr ⟨hi, hF⟩
  have : proj i (syncRoundP N h r p pol b) = nodeInputs p h r pol b (correct N) := by
    unfold syncRoundP nodeInputs
    rw [proj_append, proj_append, proj_phase i _ _ hnd, proj_phase i _ _ hnd, proj_phase i _ _ hnd, if_pos hic,
      if_pos hic, if_pos hic]
  rw [grun_st, this]
  exact node_sync_round (hrd i hic) (hval i hic) (hpr i hic) (correct N) hnd (hlt i) (hqr i)

/-! ### (1) a fresh network commits -/

/-- every node's NewHeight timeout fires; `createProposalBlock` returns `b` at the proposer `p` -/
def kick (N : Net) (h p b : Nat) : List GStep :=
  phase (correct N) (fun i => [(if i = p then some b else none, .timeout h 1 .newHeight)])

/-- the synchronous first round of a fresh network: NewHeight timeouts, then `syncRound` -/
def freshSchedule (N : Net) (h b : Nat) : List GStep :=
  kick N h (proposerOf N h 1) b ++ syncRound N h 1 b

theorem nodeReady0 {cfg : Config} {h r b : Nat} {σ : State} (R : Ready cfg h r 0 b σ) :
    NodeReady cfg h r 0 b σ := by
  obtain ⟨nh, hh, hr, st, prop, pb, parts, lk, _, pv, pc⟩ := R
  refine ⟨nh, hh, hr, st, prop, pb, parts, ?_, Or.inl rfl, pv, pc⟩
  rcases lk with lk | lk
  · exact Or.inl lk
  · right; rw [lk]; simp [idIs]

theorem sum_pos_of_pos : ∀ (l : List Nat), 0 < l.length → (∀ x ∈ l, 0 < x) → 0 < l.sum
  | [], h, _ => by simp at h
  | x :: l, _, h => by
    have := h x (List.mem_cons_self ..)
    simp only [List.sum_cons]
    omega

theorem correctQuorum_of_no_faults (N : Net) (hF : ∀ i, N.F i = false) (hpos : 0 < N.powers.sum) :
    CorrectQuorum N := by
  unfold CorrectQuorum
  have : (fun j => !N.F j) = fun _ => true := by funext j; rw [hF]; rfl
  rw [this, ← total_eq_power]
  unfold total
  omega

/-- the kick takes a fresh network (`waitTxs = false`) to the boundary of round 1 -/
theorem kick_roundReady (N : Net) (wf : N.WF) (h b : Nat) (hq : CorrectQuorum N)
    (hh0 : ∀ i, i < N.powers.length → N.h0 i = h)
    (hw : ∀ i, i < N.powers.length → (N.cfg i).waitTxs = false)
    (hpr : ∀ i, i < N.powers.length → (N.cfg i).proposer h 1 = proposerOf N h 1)
    (hp : proposerOf N h 1 < N.powers.length) (hFp : N.F (proposerOf N h 1) = false) :
    GOkS N (gstart N) (kick N h (proposerOf N h 1) b) ∧
    RoundReady N (grun N (gstart N) (kick N h (proposerOf N h 1) b)) h 1 (proposerOf N h 1) 0 b := by
  have hnd := correct_nodup N
  have hst0 : ∀ i, i < N.powers.length → (gstart N).st i = started (N.cfg i) h := fun i hi => by
    show schedule (N.h0 i) 1 .newHeight (init (N.cfg i) (N.h0 i)) = _
    rw [hh0 i hi]; rfl
  have hst : ∀ i ∈ correct N, (grun N (gstart N) (kick N h (proposerOf N h 1) b)).st i =
      step (N.cfg i) (started (N.cfg i) h) (if i = proposerOf N h 1 then some b else none)
        (.timeout h 1 .newHeight) := fun i hi => by
    unfold kick
    rw [grun_st, proj_phase i _ _ hnd, if_pos hi, hst0 i (mem_correct.mp hi).1]
    rfl
  refine ⟨?_, hq, hp, hFp, ?_, ?_⟩
  · unfold kick
    apply goks_phase_local N _ _ _ hnd
    intro i hi
    refine ⟨(mem_correct.mp hi).2, ?_, trivial, trivial⟩
    rw [hst0 i (mem_correct.mp hi).1]
    exact List.mem_cons_self ..
  · have hpc : proposerOf N h 1 ∈ correct N := mem_correct.mpr ⟨hp, hFp⟩
    rw [hst _ hpc, if_pos rfl]
    apply kick_node_proposal _ h b (hw _ hp)
    · unfold isVal
      rw [wf.me_eq, wf.powers_eq]
      exact decide_eq_true hp
    · rw [wf.me_eq]; exact hpr _ hp
  · intro i hi hF
    have hic : i ∈ correct N := mem_correct.mpr ⟨hi, hF⟩
    rw [hst i hic]
    exact ⟨hpr i hi, nodeReady0 (kick_node (N.cfg i) h b _ (hw i hi))⟩

/-- **fresh_network_commits.** For every number of validators `n ≥ 1` and every list of positive
voting powers, with no faulty validator: from `gstart` (every node at the initial height `h` with
its NewHeight timeout scheduled), under the synchronous schedule `freshSchedule N h b` — every
node's NewHeight timeout fires; the proposer of round 1 creates block `b`; its proposal and the
complete (valid) block reach every node; every node's prevote reaches every node; every node's
precommit reaches every node — EVERY node's log contains `commit h b`, and the schedule is a legal
execution (`GOkS`: timeouts are scheduled ones, votes are authentic), so the agreement theorem
`network_agreement_scheduled` covers it too.  Configuration: `waitTxs = false`
(`IsCreateEmptyBlocks`, `CreateEmptyBlocksInterval = 0`: what the Go harness runs); all nodes
compute the same proposer for (h, 1), a validator. -/
theorem fresh_network_commits (N : Net) (wf : N.WF) (h b : Nat)
    (hF : ∀ i, N.F i = false) (hn : 1 ≤ N.powers.length) (hpw : ∀ x ∈ N.powers, 0 < x)
    (hh0 : ∀ i, i < N.powers.length → N.h0 i = h)
    (hw : ∀ i, i < N.powers.length → (N.cfg i).waitTxs = false)
    (hpr : ∀ i, i < N.powers.length → (N.cfg i).proposer h 1 = proposerOf N h 1)
    (hp : proposerOf N h 1 < N.powers.length) :
    GOkS N (gstart N) (freshSchedule N h b) ∧
    ∀ i, i < N.powers.length → Action.commit h b ∈ ((grun N (gstart N) (freshSchedule N h b)).st i).log := by
  have hq := correctQuorum_of_no_faults N hF (sum_pos_of_pos _ hn hpw)
  obtain ⟨ok0, R⟩ := kick_roundReady N wf h b hq hh0 hw hpr hp (hF _)
  have G0 := grun_inv_s wf _ _ (gstart_inv N) ok0
  obtain ⟨ok1, hc⟩ := sync_round_decides N wf _ G0 h 1 (proposerOf N h 1) 0 b R
  unfold freshSchedule
  refine ⟨(goks_append N _ _ _).mpr ⟨ok0, ok1⟩, fun i hi => ?_⟩
  rw [grun_append]
  exact hc i hi (hF i)

/-! ### (1') the same with an empty-block interval (`waitTxs ∧ emptyInterval`) -/

/-- every node's NewHeight timeout, then its NewRound timeout (`CreateEmptyBlocksInterval`) fires -/
def kickInterval (N : Net) (h p b : Nat) : List GStep :=
  phase (correct N) (fun i => [(none, .timeout h 1 .newHeight),
                               (if i = p then some b else none, .timeout h 1 .newRound)])

def freshScheduleInterval (N : Net) (h b : Nat) : List GStep :=
  kickInterval N h (proposerOf N h 1) b ++ syncRound N h 1 b

theorem kickInterval_roundReady (N : Net) (wf : N.WF) (h b : Nat) (hq : CorrectQuorum N)
    (hh0 : ∀ i, i < N.powers.length → N.h0 i = h)
    (hw : ∀ i, i < N.powers.length → (N.cfg i).waitTxs = true ∧ (N.cfg i).emptyInterval = true)
    (hpr : ∀ i, i < N.powers.length → (N.cfg i).proposer h 1 = proposerOf N h 1)
    (hp : proposerOf N h 1 < N.powers.length) (hFp : N.F (proposerOf N h 1) = false) :
    GOkS N (gstart N) (kickInterval N h (proposerOf N h 1) b) ∧
    RoundReady N (grun N (gstart N) (kickInterval N h (proposerOf N h 1) b)) h 1 (proposerOf N h 1) 0 b := by
  have hnd := correct_nodup N
  have hst0 : ∀ i, i < N.powers.length → (gstart N).st i = started (N.cfg i) h := fun i hi => by
    show schedule (N.h0 i) 1 .newHeight (init (N.cfg i) (N.h0 i)) = _
    rw [hh0 i hi]; rfl
  have hst : ∀ i ∈ correct N, (grun N (gstart N) (kickInterval N h (proposerOf N h 1) b)).st i =
      step (N.cfg i) (round1w (N.cfg i) h) (if i = proposerOf N h 1 then some b else none)
        (.timeout h 1 .newRound) := fun i hi => by
    unfold kickInterval
    have hi' := (mem_correct.mp hi).1
    rw [grun_st, proj_phase i _ _ hnd, if_pos hi, hst0 i hi']
    simp only [run]
    rw [step_kick_wait1 _ h none (hw i hi').1 (hw i hi').2]
  refine ⟨?_, hq, hp, hFp, ?_, ?_⟩
  · unfold kickInterval
    apply goks_phase_local N _ _ _ hnd
    intro i hi
    have hi' := (mem_correct.mp hi).1
    refine ⟨(mem_correct.mp hi).2, ?_, trivial, ?_, trivial, trivial⟩
    · rw [hst0 i hi']
      exact List.mem_cons_self ..
    · rw [hst0 i hi', step_kick_wait1 _ h none (hw i hi').1 (hw i hi').2]
      exact List.mem_cons_self ..
  · have hpc : proposerOf N h 1 ∈ correct N := mem_correct.mpr ⟨hp, hFp⟩
    rw [hst _ hpc, if_pos rfl]
    apply kick_node_wait_proposal _ h b
    · unfold isVal
      rw [wf.me_eq, wf.powers_eq]
      exact decide_eq_true hp
    · rw [wf.me_eq]; exact hpr _ hp
  · intro i hi hF
    have hic : i ∈ correct N := mem_correct.mpr ⟨hi, hF⟩
    rw [hst i hic]
    exact ⟨hpr i hi, nodeReady0 (kick_node_wait (N.cfg i) h b _)⟩

/-- **fresh_network_commits** for `waitTxs ∧ emptyInterval` (`CreateEmptyBlocksInterval > 0`, the
production default of `configs.DefaultConsensusConfig`): each node's NewHeight timeout, then its
NewRound timeout, then the synchronous round. -/
theorem fresh_network_commits_interval (N : Net) (wf : N.WF) (h b : Nat)
    (hF : ∀ i, N.F i = false) (hn : 1 ≤ N.powers.length) (hpw : ∀ x ∈ N.powers, 0 < x)
    (hh0 : ∀ i, i < N.powers.length → N.h0 i = h)
    (hw : ∀ i, i < N.powers.length → (N.cfg i).waitTxs = true ∧ (N.cfg i).emptyInterval = true)
    (hpr : ∀ i, i < N.powers.length → (N.cfg i).proposer h 1 = proposerOf N h 1)
    (hp : proposerOf N h 1 < N.powers.length) :
    GOkS N (gstart N) (freshScheduleInterval N h b) ∧
    ∀ i, i < N.powers.length →
      Action.commit h b ∈ ((grun N (gstart N) (freshScheduleInterval N h b)).st i).log := by
  have hq := correctQuorum_of_no_faults N hF (sum_pos_of_pos _ hn hpw)
  obtain ⟨ok0, R⟩ := kickInterval_roundReady N wf h b hq hh0 hw hpr hp (hF _)
  have G0 := grun_inv_s wf _ _ (gstart_inv N) ok0
  obtain ⟨ok1, hc⟩ := sync_round_decides N wf _ G0 h 1 (proposerOf N h 1) 0 b R
  unfold freshScheduleInterval
  refine ⟨(goks_append N _ _ _).mpr ⟨ok0, ok1⟩, fun i hi => ?_⟩
  rw [grun_append]
  exact hc i hi (hF i)

/-! ### (3, part) locks from earlier rounds: POL gossip, then the synchronous round

The proposer re-proposes its valid block `b` with POL round `pol`.  A correct node locked on
ANOTHER block from a round `< pol` is released when it sees the polka of round `pol` for `b`
(`addVote`: "Unlocking because of POL").  `polGossip` delivers the round-`pol` prevotes for `b` of a
validator set `qs` holding +2/3 (the reactor gossips the POL prevotes of a proposal); afterwards the
network is `RoundReady`. -/

/-- every correct node receives the round-`pol` prevotes for `b` of the validators `qs` -/
def polGossip (N : Net) (h pol b : Nat) (qs : List Nat) : List GStep :=
  phase (correct N) (fun _ => qs.map (pvIn h pol b))

/-- as `NodeReady`, but the node may be locked on another block from a round `< pol` while it does
not hold the polka of round `pol`; the slots of the validators `qs` in its round-`pol` prevote
set are empty or hold their vote for `b` (automatic for correct validators: `correct_slot_ok`) -/
def NodePreReady (cfg : Config) (h r pol b : Nat) (qs : List Nat) (σ : State) : Prop :=
  σ.halted = false ∧ σ.height = h ∧ σ.round = r ∧ σ.step = .propose ∧
  σ.proposal = none ∧ σ.pblock = none ∧ σ.parts = none ∧
  (1 ≤ pol ∧ pol < r) ∧
  (σ.locked = none ∨ idIs σ.locked b = true ∨ σ.lockedRound < pol) ∧
  (∀ q ∈ qs, (σ.slots .prevote h pol)[q]? = some none ∨ (σ.slots .prevote h pol)[q]? = some (some (some b))) ∧
  σ.slots .prevote h r = List.replicate (n cfg) none ∧
  σ.slots .precommit h r = List.replicate (n cfg) none

/-- the network before the POL gossip of round (h, r): correct proposer `p` re-proposing `b` with
POL round `pol`; the validators `qs` hold +2/3 and prevoted `b` in round `pol` (the correct ones
provably: in their log; the faulty ones' votes are simply delivered); every correct node is at
(h, r)/Propose, locked on nothing, on `b`, or on anything from a round before `pol` -/
def PolReady (N : Net) (g : GState) (h r p pol b : Nat) (qs : List Nat) : Prop :=
  CorrectQuorum N ∧ p < N.powers.length ∧ N.F p = false ∧
  Action.signProposal h r pol b ∈ (g.st p).log ∧
  (∀ q ∈ qs, q < N.powers.length ∧
    (N.F q = false → Action.signVote .prevote h pol (some b) ∈ (g.st q).log)) ∧
  3 * power (valsOf N.powers) (pwOf N.powers) (fun j => decide (j ∈ qs)) >
    2 * power (valsOf N.powers) (pwOf N.powers) (fun _ => true) ∧
  ∀ i, i < N.powers.length → N.F i = false →
    ((N.cfg i).proposer h r = p ∧ NodePreReady (N.cfg i) h r pol b qs (g.st i))

instance (cfg : Config) (h r pol b : Nat) (qs : List Nat) (σ : State) :
    Decidable (NodePreReady cfg h r pol b qs σ) := by
  unfold NodePreReady; exact inferInstance

instance (N : Net) (g : GState) (h r p pol b : Nat) (qs : List Nat) : Decidable (PolReady N g h r p pol b qs) := by
  unfold PolReady CorrectQuorum; exact inferInstance

theorem NodePreReady.pre {cfg : Config} {h r pol b : Nat} {qs : List Nat} {σ : State} (I : Inv cfg σ)
    (NS : NoStale cfg σ) (R : NodePreReady cfg h r pol b qs σ) : PreReady cfg h r pol b σ := by
  obtain ⟨nh, hh, hr, st, prop, pb, parts, polr, lk, _, pv, pc⟩ := R
  have lkb : idIs σ.locked b = true → σ.locked = some ⟨b, true⟩ := by
    intro lk
    unfold idIs at lk
    split at lk
    · rename_i blk hl
      have hid : blk.id = b := by simpa using lk
      have hok := (I.lk blk hl).1
      rw [hl]
      obtain ⟨id, ok⟩ := blk
      simp only at hid hok
      rw [hid, hok]
    · cases lk
  refine ⟨nh, hh, hr, st, prop, pb, parts, polr, fun blk hb => (I.lk blk hb).1, ?_, ?_, pv, pc⟩
  · rcases lk with lk | lk | lk
    · exact Or.inl (Or.inl lk)
    · exact Or.inl (Or.inr (lkb lk))
    · exact Or.inr lk
  · intro hm
    rcases lk with lk | lk | lk
    · exact Or.inl lk
    · exact Or.inr (lkb lk)
    · -- no stale lock: a lock from a round before `pol` cannot coexist with the polka of `pol`
      cases hl : σ.locked with
      | none => exact Or.inl rfl
      | some lb =>
        right
        have := NS lb hl pol (some b) lk (by omega) (by rw [hh]; exact maj23_of_isMaj hm)
        have hid : lb.id = b := (Option.some.inj this).symm
        have hok := (I.lk lb hl).1
        obtain ⟨id, ok⟩ := lb
        simp only at hid hok
        rw [hid, hok]

/-- **pol_gossip_ready.** After the POL prevotes reached every correct node the network is at the
round boundary `RoundReady`: every correct node holds the polka of round `pol` for `b`, and every
lock on another block (all from rounds `< pol`) is released. -/
theorem pol_gossip_ready (N : Net) (wf : N.WF) (g : GState) (G : GInv N g)
    (hNS : ∀ i, NoStale (N.cfg i) (g.st i)) (h r p pol b : Nat) (qs : List Nat)
    (R : PolReady N g h r p pol b qs) :
    GOkS N g (polGossip N h pol b qs) ∧ RoundReady N (grun N g (polGossip N h pol b qs)) h r p pol b := by
  obtain ⟨hq, hp, hFp, hprop, hqs, hpow, hnode⟩ := R
  have hnd := correct_nodup N
  have hn : ∀ i, n (N.cfg i) = N.powers.length := fun i => by unfold n; rw [wf.powers_eq]
  have hst : ∀ i, (grun N g (polGossip N h pol b qs)).st i =
      if i ∈ correct N then run (N.cfg i) (g.st i) (qs.map (pvIn h pol b)) else g.st i := fun i => by
    unfold polGossip
    rw [grun_st, proj_phase i _ _ hnd]
    split <;> rfl
  refine ⟨?_, hq, hp, hFp, ?_, ?_⟩
  · unfold polGossip
    apply goks_easy
    intro s hs
    obtain ⟨h1, h2⟩ := mem_phase hs
    refine ⟨(mem_correct.mp h1).2, ?_⟩
    obtain ⟨q, hqm, he⟩ := List.mem_map.mp h2
    rw [← he]
    cases hF : N.F q with
    | true => exact Or.inl hF
    | false => exact Or.inr (G.compl q h .prevote pol (some b) hF ((hqs q hqm).2 hF))
  · rw [hst]
    split
    · exact run_log_mem _ _ _ _ hprop
    · exact hprop
  · intro i hi hF
    have hic : i ∈ correct N := mem_correct.mpr ⟨hi, hF⟩
    obtain ⟨hpi, hnr⟩ := hnode i hi hF
    refine ⟨hpi, ?_⟩
    rw [hst, if_pos hic]
    have P := hnr.pre (G.inv i) (hNS i)
    have hslots : ∀ q ∈ qs, q < n (N.cfg i) ∧
        ((slotsV (g.st i).votes .prevote h pol)[q]? = some none ∨
         (slotsV (g.st i).votes .prevote h pol)[q]? = some (some (some b))) := fun q hqm =>
      ⟨by rw [hn]; exact (hqs q hqm).1, hnr.2.2.2.2.2.2.2.2.2.1 q hqm⟩
    obtain ⟨P', hfill⟩ := run_polvotes qs (g.st i) P hslots
    have hm := quorate_of_power N (N.cfg i) (wf.powers_eq i) qs hpow b _ hfill
    obtain ⟨nh, hh, hr, st, prop, pb, parts, polr, lkok, lk, inv, pv, pc⟩ := P'
    refine ⟨nh, hh, hr, st, prop, pb, parts, ?_, Or.inr ⟨polr.2, ?_⟩, pv, pc⟩
    · rcases inv hm with e | e
      · exact Or.inl e
      · right; rw [e]; simp [idIs]
    · rw [State.slots_eq]; exact maj23_of_isMaj hm

/-- **pol_round_decides.** POL gossip, then the synchronous round: if the correct proposer
re-proposes its valid block `b` with POL round `pol`, and every correct node's lock is on `b` or
from a round before `pol` (the proposer's valid round is at least every conflicting lock round —
the condition under which Tendermint's liveness argument goes through), every correct node commits
`b`. -/
theorem pol_round_decides (N : Net) (wf : N.WF) (g : GState) (G : GInv N g)
    (hNS : ∀ i, NoStale (N.cfg i) (g.st i)) (h r p pol b : Nat) (qs : List Nat)
    (R : PolReady N g h r p pol b qs) :
    GOkS N g (polGossip N h pol b qs ++ syncRoundP N h r p pol b) ∧
    ∀ i, i < N.powers.length → N.F i = false →
      Action.commit h b ∈ ((grun N g (polGossip N h pol b qs ++ syncRoundP N h r p pol b)).st i).log := by
  obtain ⟨ok0, R'⟩ := pol_gossip_ready N wf g G hNS h r p pol b qs R
  have G0 := grun_inv_s wf _ _ G ok0
  obtain ⟨ok1, hc⟩ := sync_round_decides N wf _ G0 h r p pol b R'
  refine ⟨(goks_append N _ _ _).mpr ⟨ok0, ok1⟩, fun i hi hF => ?_⟩
  rw [grun_append]
  exact hc i hi hF

/-! ### sanity evaluation (by `decide`, NOT part of the proof): concrete networks -/

/-- `powers.length` validators with the given powers, nobody faulty, round-robin proposer
(`r % n`), start height 1, `waitTxs = false` -/
def netOf (powers : List Nat) : Net :=
  { powers := powers,
    cfg := fun i => { powers := powers, me := i, proposer := fun _ r => r % powers.length,
                      waitTxs := false, emptyInterval := false },
    h0 := fun _ => 1, F := fun _ => false }

/-- every validator's log contains `commit h b` -/
def allCommit (N : Net) (g : GState) (h b : Nat) : Prop :=
  ∀ i, i < N.powers.length → N.F i = false → Action.commit h b ∈ (g.st i).log

instance (N : Net) (g : GState) (h b : Nat) : Decidable (allCommit N g h b) := by
  unfold allCommit; exact inferInstance

/-- the fresh synchronous schedule is legal and every node commits `b` at height 1 -/
def freshCommits (powers : List Nat) (b : Nat) : Prop :=
  GOkS (netOf powers) (gstart (netOf powers)) (freshSchedule (netOf powers) 1 b) ∧
  allCommit (netOf powers) (grun (netOf powers) (gstart (netOf powers)) (freshSchedule (netOf powers) 1 b)) 1 b

instance (powers : List Nat) (b : Nat) : Decidable (freshCommits powers b) := by
  unfold freshCommits; exact inferInstance

/-- sanity evaluation: 4 equal validators (44 steps) -/
example : freshCommits [10, 10, 10, 10] 7 := by decide
/-- sanity evaluation: one validator holds 100 of 103 -/
example : freshCommits [1, 1, 1, 100] 7 := by decide
/-- sanity evaluation: unequal powers, three validators needed -/
example : freshCommits [30, 30, 30, 10] 9 := by decide
set_option maxRecDepth 100000 in
/-- sanity evaluation: 7 validators of powers 1..7 (119 steps) -/
example : freshCommits [1, 2, 3, 4, 5, 6, 7] 3 := by decide
/-- sanity evaluation: a single validator -/
example : freshCommits [5] 3 := by decide
/-- the same instance through the theorem -/
example : freshCommits [1, 2, 3, 4, 5, 6, 7] 3 := by
  obtain ⟨h1, h2⟩ := fresh_network_commits (netOf [1, 2, 3, 4, 5, 6, 7]) ⟨fun _ => rfl, fun _ => rfl⟩ 1 3
    (fun _ => rfl) (by decide) (by decide) (fun _ _ => rfl) (fun _ _ => rfl) (fun _ _ => rfl) (by decide)
  exact ⟨h1, fun i hi _ => h2 i hi⟩

/-! ### non-vacuity of `RoundReady` -/

/-- the hypotheses of `fresh_network_commits` hold for `netOf` (so `kick_roundReady` shows that
`gstart` followed by the NewHeight timeouts satisfies `RoundReady`, for every such network) -/
example : RoundReady (netOf [30, 30, 30, 10])
    (grun (netOf [30, 30, 30, 10]) (gstart (netOf [30, 30, 30, 10])) (kick (netOf [30, 30, 30, 10]) 1 1 9))
    1 1 1 0 9 := by decide

/-- 4 validators of power 10; validator 1, the proposer of (1, 1), is faulty and silent -/
def N4s : Net :=
  { powers := [10, 10, 10, 10],
    cfg := fun i => { powers := [10, 10, 10, 10], me := i, proposer := fun _ r => r % 4,
                      waitTxs := false, emptyInterval := false },
    h0 := fun _ => 1, F := fun i => i == 1 }

/-- round 1 fails: nobody proposes; Propose timeouts, nil prevotes, nil precommits, PrecommitWait
timeouts; every correct node enters round 2, whose proposer 2 creates block 8 -/
def failedRound1 : List GStep :=
  phase [0, 2, 3] (fun _ => [(none, .timeout 1 1 .newHeight), (none, .timeout 1 1 .propose)]) ++
  phase [0, 2, 3] (fun _ => [0, 2, 3].map (fun j => (none, .vote j j .prevote 1 1 none true))) ++
  phase [0, 2, 3] (fun _ => [0, 2, 3].map (fun j => (none, .vote j j .precommit 1 1 none true))) ++
  phase [0, 2, 3] (fun i => [(if i = 2 then some 8 else none, .timeout 1 1 .precommitWait)])

example : N4s.WF := ⟨fun _ => rfl, fun _ => rfl⟩
example : GOkS N4s (gstart N4s) failedRound1 := by decide
/-- a concrete 4-node state after one failed round satisfies `RoundReady` (round 2, proposer 2) -/
example : RoundReady N4s (grun N4s (gstart N4s) failedRound1) 1 2 2 0 8 := by decide
/-- … and the synchronous round 2 decides: through the theorem … -/
example : allCommit N4s (grun N4s (grun N4s (gstart N4s) failedRound1) (syncRoundP N4s 1 2 2 0 8)) 1 8 :=
  (sync_round_decides N4s ⟨fun _ => rfl, fun _ => rfl⟩ _
    (grun_inv_s ⟨fun _ => rfl, fun _ => rfl⟩ _ _ (gstart_inv N4s) (by decide)) 1 2 2 0 8 (by decide)).2
/-- … and by evaluation (sanity) -/
example : allCommit N4s (grun N4s (grun N4s (gstart N4s) failedRound1) (syncRoundP N4s 1 2 2 0 8)) 1 8 := by
  decide

/-- 4 validators of power 10; validator 3 is faulty; proposers 1 (round 1), 2 (round 2) -/
def N4l : Net :=
  { powers := [10, 10, 10, 10],
    cfg := fun i => { powers := [10, 10, 10, 10], me := i, proposer := fun _ r => r % 4,
                      waitTxs := false, emptyInterval := false },
    h0 := fun _ => 1, F := fun i => i == 3 }

/-- round 1 fails after node 0 locked block 7: nodes 1 and 2 see only two prevotes for 7 (plus a
nil prevote of the faulty validator), precommit nil after the PrevoteWait timeout, and learn the
polka late (valid block 7, valid round 1, no lock); round 2: node 2 re-proposes 7 with POL round 1 -/
def lockedRound1 : List GStep :=
  phase [0, 1, 2] (fun i => [(if i = 1 then some 7 else none, .timeout 1 1 .newHeight)]) ++
  phase [0, 1, 2] (fun _ => propIn 1 1 1 0 7) ++
  toNode 0 ([0, 1, 2].map (pvIn 1 1 7)) ++
  phase [1, 2] (fun _ => [pvIn 1 1 7 1, pvIn 1 1 7 2, (none, .vote 3 3 .prevote 1 1 none true),
                          (none, .timeout 1 1 .prevoteWait), pvIn 1 1 7 0]) ++
  phase [0, 1, 2] (fun _ => [pcIn 1 1 7 0, (none, .vote 1 1 .precommit 1 1 none true),
                             (none, .vote 2 2 .precommit 1 1 none true), (none, .timeout 1 1 .precommitWait)])

example : GOkS N4l (gstart N4l) lockedRound1 := by decide
/-- node 0 is locked on 7 (round 1), nodes 1 and 2 are not locked and hold the polka of round 1:
`RoundReady` with POL round 1 -/
example : RoundReady N4l (grun N4l (gstart N4l) lockedRound1) 1 2 2 1 7 ∧
    ((grun N4l (gstart N4l) lockedRound1).st 0).locked = some ⟨7, true⟩ ∧
    ((grun N4l (gstart N4l) lockedRound1).st 1).locked = none := by decide
example : allCommit N4l (grun N4l (grun N4l (gstart N4l) lockedRound1) (syncRoundP N4l 1 2 2 1 7)) 1 7 :=
  (sync_round_decides N4l ⟨fun _ => rfl, fun _ => rfl⟩ _
    (grun_inv_s ⟨fun _ => rfl, fun _ => rfl⟩ _ _ (gstart_inv N4l) (by decide)) 1 2 2 1 7 (by decide)).2

/-! ### (3) how many synchronous rounds: two are NOT enough; the decisive one is the round of
the proposer with the highest valid round -/

/-- 4 validators of power 10: A = 0, B = 1, C = 2 correct, D = 3 faulty.  Proposers of height 1:
round 1 B, round 2 D, round 3 C, round 4 B, round 5 A. -/
def N4u : Net :=
  { powers := [10, 10, 10, 10],
    cfg := fun i => { powers := [10, 10, 10, 10], me := i,
                      proposer := fun _ r => match r with | 1 => 1 | 2 => 3 | 3 => 2 | 4 => 1 | _ => 0,
                      waitTxs := false, emptyInterval := false },
    h0 := fun _ => 1, F := fun i => i == 3 }

def pvx (j r : Nat) (x : Target) : Option Nat × Input := (none, .vote j j .prevote 1 r x true)
def pcx (j r : Nat) (x : Target) : Option Nat × Input := (none, .vote j j .precommit 1 r x true)
def tmo (r : Nat) (s : Step) : Option Nat × Input := (none, .timeout 1 r s)

/-- rounds 1 and 2 (asynchronous): B locks block 8 in round 1, A locks block 9 in round 2 -/
def unluckyPrefix : List GStep :=
  -- round 1: B proposes 8; A misses the proposal; only B sees the polka (with D's vote)
  phase [0, 1, 2] (fun i => [(if i = 1 then some 8 else none, .timeout 1 1 .newHeight)]) ++
  phase [1, 2] (fun _ => propIn 1 1 1 0 8) ++
  toNode 0 [tmo 1 .propose, pvx 0 1 none, pvx 1 1 (some 8), pvx 2 1 (some 8), tmo 1 .prevoteWait] ++
  toNode 1 [pvx 1 1 (some 8), pvx 2 1 (some 8), pvx 3 1 (some 8)] ++
  toNode 2 [pvx 2 1 (some 8), pvx 0 1 none, pvx 1 1 (some 8), tmo 1 .prevoteWait] ++
  phase [0, 1, 2] (fun _ => [pcx 0 1 none, pcx 1 1 (some 8), pcx 2 1 none, tmo 1 .precommitWait]) ++
  -- round 2: the faulty D proposes 9; only A sees the polka (with D's vote)
  phase [0, 1, 2] (fun _ => propIn 3 1 2 0 9) ++
  toNode 0 [pvx 0 2 (some 9), pvx 2 2 (some 9), pvx 3 2 (some 9)] ++
  toNode 1 [pvx 1 2 (some 8), pvx 0 2 (some 9), pvx 2 2 (some 9), tmo 2 .prevoteWait] ++
  toNode 2 [pvx 2 2 (some 9), pvx 0 2 (some 9), pvx 1 2 (some 8), tmo 2 .prevoteWait] ++
  phase [0, 1, 2] (fun i => [pcx 0 2 (some 9), pcx 1 2 none, pcx 2 2 none,
                             (if i = 2 then some 10 else none, .timeout 1 2 .precommitWait)])

/-- round 3, synchronous, correct proposer C with the fresh block 10: every message of the round
and every timeout that becomes due is delivered to every correct node -/
def unluckyRound3 : List GStep :=
  phase [0, 1, 2] (fun _ => propIn 2 1 3 0 10) ++
  phase [0, 1, 2] (fun _ => [pvx 0 3 (some 9), pvx 1 3 (some 8), pvx 2 3 (some 10), tmo 3 .prevoteWait]) ++
  phase [0, 1, 2] (fun _ => [pcx 0 3 none, pcx 1 3 none, pcx 2 3 none, tmo 3 .precommitWait])

/-- round 4, synchronous, correct proposer B re-proposing its valid block 8 with POL round 1
(the POL prevotes are gossiped too) -/
def unluckyRound4 : List GStep :=
  polGossip N4u 1 1 8 [1, 2, 3] ++
  phase [0, 1, 2] (fun _ => propIn 1 1 4 1 8) ++
  phase [0, 1, 2] (fun _ => [pvx 0 4 (some 9), pvx 1 4 (some 8), pvx 2 4 (some 8), tmo 4 .prevoteWait]) ++
  phase [0, 1, 2] (fun _ => [pcx 0 4 none, pcx 1 4 none, pcx 2 4 none, tmo 4 .precommitWait])

def gU3 : GState := grun N4u (gstart N4u) unluckyPrefix
def gU4 : GState := grun N4u gU3 unluckyRound3
def gU5 : GState := grun N4u gU4 unluckyRound4

/-- no `commit` action in a log -/
def noCommit (l : List Action) : Bool := l.all (fun a => match a with | .commit .. => false | _ => true)

/-- (lock block id, lock round, valid block id, valid round, round, step) of a node -/
def lockView (σ : State) : Option Nat × Nat × Option Nat × Nat × Nat × Step :=
  (σ.locked.map (·.id), σ.lockedRound, σ.validB.map (·.id), σ.validRound, σ.round, σ.step)

set_option maxRecDepth 100000 in
/-- **Two consecutive synchronous rounds with correct proposers are not enough** (so
`unlucky_rounds_bounded` as "at most two" is FALSE for this code): a reachable state (legal
execution, < 1/3 faulty) at the boundary of round 3 in which A is locked on 9 since round 2 and B
on 8 since round 1.  Round 3 (correct proposer C, fresh block 10, fully synchronous): prevotes
9 / 8 / 10, no polka, nil precommits, no decision, locks unchanged.  Round 4 (correct proposer B
re-proposes its valid block 8 with POL round 1, POL prevotes gossiped, fully synchronous): A stays
locked on 9 (lock round 2 > POL round 1), prevotes 9 / 8 / 8, no polka, no decision.  `doPrevote`
prevotes the locked block and a lock is only released by a polka of a LATER round, so a failed
synchronous round without a polka changes nothing; progress needs the proposer whose valid round
is at least every conflicting lock round — here A in round 5 (`PolReady` holds: `pol_round_decides`
applies, see `unlucky_round5_decides`). -/
theorem two_sync_rounds_not_enough_counterexample :
    N4u.WF ∧
    3 * power (valsOf N4u.powers) (pwOf N4u.powers) N4u.F < power (valsOf N4u.powers) (pwOf N4u.powers) (fun _ => true) ∧
    GOkS N4u (gstart N4u) unluckyPrefix ∧ GOkS N4u gU3 unluckyRound3 ∧ GOkS N4u gU4 unluckyRound4 ∧
    -- boundary of round 3: A locked (9, 2), B locked (8, 1), C not locked
    lockView (gU3.st 0) = (some 9, 2, some 9, 2, 3, .propose) ∧
    lockView (gU3.st 1) = (some 8, 1, some 8, 1, 3, .propose) ∧
    lockView (gU3.st 2) = (none, 0, none, 0, 3, .propose) ∧
    Action.signProposal 1 3 0 10 ∈ (gU3.st 2).log ∧ ¬ RoundReady N4u gU3 1 3 2 0 10 ∧
    -- boundary of round 4: nothing changed, nobody committed
    lockView (gU4.st 0) = (some 9, 2, some 9, 2, 4, .propose) ∧
    lockView (gU4.st 1) = (some 8, 1, some 8, 1, 4, .propose) ∧
    lockView (gU4.st 2) = (none, 0, none, 0, 4, .propose) ∧
    Action.signProposal 1 4 1 8 ∈ (gU4.st 1).log ∧ ¬ RoundReady N4u gU4 1 4 1 1 8 ∧
    ¬ PolReady N4u gU4 1 4 1 1 8 [1, 2, 3] ∧
    -- boundary of round 5: nothing changed, nobody committed; A re-proposes 9 with POL round 2
    lockView (gU5.st 0) = (some 9, 2, some 9, 2, 5, .propose) ∧
    lockView (gU5.st 1) = (some 8, 1, some 8, 1, 5, .propose) ∧
    lockView (gU5.st 2) = (none, 0, none, 0, 5, .propose) ∧
    noCommit (gU5.st 0).log = true ∧ noCommit (gU5.st 1).log = true ∧ noCommit (gU5.st 2).log = true ∧
    PolReady N4u gU5 1 5 0 2 9 [0, 2, 3] :=
  ⟨⟨fun _ => rfl, fun _ => rfl⟩, by decide, by decide, by decide, by decide, by decide, by decide, by decide,
    by decide, by decide, by decide, by decide, by decide, by decide, by decide, by decide, by decide, by decide,
    by decide, by decide, by decide, by decide, by decide⟩

/-- … and round 5, whose proposer A holds the highest valid round, decides: POL gossip of round 2
releases B's lock on 8, everybody prevotes and precommits 9 (an instance of `pol_round_decides`
whose hypothesis `PolReady` is the last clause of the counterexample) -/
theorem unlucky_round5_decides :
    allCommit N4u (grun N4u gU5 (polGossip N4u 1 2 9 [0, 2, 3] ++ syncRoundP N4u 1 5 0 2 9)) 1 9 := by
  have wf : N4u.WF := ⟨fun _ => rfl, fun _ => rfl⟩
  have c := two_sync_rounds_not_enough_counterexample
  have G3 := grun_inv_s wf _ _ (gstart_inv N4u) c.2.2.1
  have G4 := grun_inv_s wf _ _ G3 c.2.2.2.1
  have G5 := grun_inv_s wf _ _ G4 c.2.2.2.2.1
  have N3 := grun_noStale_s wf _ _ (gstart_inv N4u) (gstart_noStale N4u) c.2.2.1
  have N4 := grun_noStale_s wf _ _ G3 N3 c.2.2.2.1
  have N5 := grun_noStale_s wf _ _ G4 N4 c.2.2.2.2.1
  exact (pol_round_decides N4u wf gU5 G5 N5 1 5 0 2 9 [0, 2, 3]
    c.2.2.2.2.2.2.2.2.2.2.2.2.2.2.2.2.2.2.2.2.2.2).2

set_option maxRecDepth 100000 in
/-- sanity evaluation of the same -/
example : allCommit N4u (grun N4u gU5 (polGossip N4u 1 2 9 [0, 2, 3] ++ syncRoundP N4u 1 5 0 2 9)) 1 9 := by
  decide

/-! ### F36, the stale lock: the old rule livelocks, the repaired node releases the lock

Before the F36 fix `consensus/state.go` released a lock only in `addVote`, while handling a prevote
that is ADDED, for a polka of a round in `(LockedRound, Round]` ("If vote.Round > cs.Round, we'll
deal with it when we get to vote.Round").  A node that receives the polka of round 2 while it is
still in round 1, skips to round 2 (+2/3 any) and skips on to round 3 (+2/3 any again) before its
own round-2 timers fire never "got to" round 2's prevote step: it kept the lock of round 1 although
it held a later polka for another block, and no further round-2 prevote could be added to release
it.  If its power was needed for +2/3 the height could not be decided any more (confirmed on real
nodes: finding F36).  The fix (`Cs.releaseStale` in `enterNewRound`) re-evaluates the unlock test
for the rounds in `(lockedRound, round]` whenever a round is entered.  The old rule is kept as
`stepOld` (`KV/Proofs/CsOld.lean`) for the regression theorem below. -/

/-- A = 0, B = 1, C = 2 correct, D = 3 Byzantine (votes with the others, precommits nil in round
2 although it saw the polka, forwards B's and C's votes to A, then stays silent).  Proposers of
height 1: round 1 B, round 2 C, round 3 D, round 4 A, round 5 B, round 6 C, then A. -/
def N4d : Net :=
  { powers := [10, 10, 10, 10],
    cfg := fun i => { powers := [10, 10, 10, 10], me := i,
                      proposer := fun _ r => match r with | 1 => 1 | 2 => 2 | 3 => 3 | 4 => 0 | 5 => 1 | 6 => 2 | _ => 0,
                      waitTxs := false, emptyInterval := false },
    h0 := fun _ => 1, F := fun i => i == 3 }

def stalePrefix : List GStep :=
  -- round 1: B proposes 8, everybody prevotes 8; only A sees the polka and locks; B, C see 8, 8, nil (D)
  phase [0, 1, 2] (fun i => [(if i = 1 then some 8 else none, .timeout 1 1 .newHeight)]) ++
  phase [0, 1, 2] (fun _ => propIn 1 1 1 0 8) ++
  toNode 0 [pvx 0 1 (some 8), pvx 1 1 (some 8), pvx 2 1 (some 8), pcx 0 1 (some 8)] ++
  toNode 1 [pvx 1 1 (some 8), pvx 2 1 (some 8), pvx 3 1 none, tmo 1 .prevoteWait] ++
  toNode 2 [pvx 2 1 (some 8), pvx 1 1 (some 8), pvx 3 1 none, tmo 1 .prevoteWait] ++
  -- A is cut off.  B, C see the nil precommits of B, C, D and go to round 2, where C proposes 9
  toNode 1 [pcx 1 1 none, pcx 2 1 none, pcx 3 1 none, tmo 1 .precommitWait] ++
  toNode 2 [pcx 1 1 none, pcx 2 1 none, pcx 3 1 none, (some 9, .timeout 1 1 .precommitWait)] ++
  -- round 2: B, C, D prevote 9: B and C lock 9 and precommit it; D precommits nil; on to round 3
  phase [1, 2] (fun _ => propIn 2 1 2 0 9) ++
  phase [1, 2] (fun _ => [pvx 1 2 (some 9), pvx 2 2 (some 9), pvx 3 2 (some 9)]) ++
  phase [1, 2] (fun _ => [pcx 1 2 (some 9), pcx 2 2 (some 9), pcx 3 2 none, tmo 2 .precommitWait]) ++
  -- round 3 (proposer D silent): B, C prevote 9 after the Propose timeout
  phase [1, 2] (fun _ => [tmo 3 .propose]) ++
  -- A is reachable again and receives the prevotes of rounds 2 and 3 (forwarded by D, with D's
  -- own) before its timers fire: it skips to round 2 and on to round 3 without prevoting in round 2
  toNode 0 [pvx 1 2 (some 9), pvx 2 2 (some 9), pvx 3 2 (some 9),
            pvx 1 3 (some 9), pvx 2 3 (some 9), pvx 3 3 none]

/-- the rest of round 3 under the OLD rule (A, still locked, prevotes 8); from here on everything
is synchronous and D is silent -/
def staleRound3 : List GStep :=
  toNode 0 [tmo 3 .propose] ++
  phase [0, 1, 2] (fun _ => [pvx 0 3 (some 8), pvx 1 3 (some 9), pvx 2 3 (some 9), tmo 3 .prevoteWait]) ++
  phase [0, 1, 2] (fun _ => [pcx 0 3 none, pcx 1 3 none, pcx 2 3 none, tmo 3 .precommitWait])

/-- a fully synchronous round `r`: the correct proposer `p` re-proposes its valid block `b` with
POL round `pol`, the POL prevotes of `qs` are gossiped to everybody, every prevote, every precommit
and every timeout that becomes due is delivered (A prevotes 8, B and C prevote 9) -/
def staleRound (r p pol b : Nat) (qs : List Nat) : List GStep :=
  polGossip N4d 1 pol b qs ++
  phase [0, 1, 2] (fun _ => propIn p 1 r pol b) ++
  phase [0, 1, 2] (fun _ => [pvx 0 r (some 8), pvx 1 r (some 9), pvx 2 r (some 9), tmo r .prevoteWait]) ++
  phase [0, 1, 2] (fun _ => [pcx 0 r none, pcx 1 r none, pcx 2 r none, tmo r .precommitWait])

/-- the states of the execution under the OLD rule -/
def gO3 : GState := grunOld N4d (gstart N4d) stalePrefix
def gO4 : GState := grunOld N4d gO3 staleRound3
def gO5 : GState := grunOld N4d gO4 (staleRound 4 0 1 8 [0, 1, 2])
def gO6 : GState := grunOld N4d gO5 (staleRound 5 1 2 9 [1, 2, 3])
def gO7 : GState := grunOld N4d gO6 (staleRound 6 2 2 9 [1, 2, 3])

set_option maxRecDepth 100000 in
/-- **Regression: the OLD rule livelocks (F36).**  Legal execution of the network of `stepOld` nodes
(`GOkSOld`), 1 of 4 validators Byzantine.  After `stalePrefix` A is at (1, 3, Propose) locked on 8
since round 1 and HOLDS the polka of round 2 for 9 (its own round-2 slot empty: it skipped that
round); B and C are locked on 9 since round 2.  From then on the three correct validators (75 % of
the power) are connected and every round is fully synchronous: rounds 3 – 6, with EACH correct
validator proposing once (A re-proposes 8 with POL 1 in round 4, B re-proposes 9 with POL 2 in round
5, C the same in round 6), POL prevotes gossiped.  Nobody commits; at the boundaries of rounds 4, 5,
6 and 7 the (lock, valid) views are identical: the execution can be repeated forever.  A's state
violates `NoStale`. -/
theorem stale_lock_livelock_counterexample_old_rule :
    N4d.WF ∧ CorrectQuorum N4d ∧
    3 * power (valsOf N4d.powers) (pwOf N4d.powers) N4d.F < power (valsOf N4d.powers) (pwOf N4d.powers) (fun _ => true) ∧
    GOkSOld N4d (gstart N4d) stalePrefix ∧ GOkSOld N4d gO3 staleRound3 ∧
    GOkSOld N4d gO4 (staleRound 4 0 1 8 [0, 1, 2]) ∧ GOkSOld N4d gO5 (staleRound 5 1 2 9 [1, 2, 3]) ∧
    GOkSOld N4d gO6 (staleRound 6 2 2 9 [1, 2, 3]) ∧
    -- the stale lock: A locked (8, round 1), holds +2/3 prevotes for 9 of round 2, own slot empty
    lockView (gO3.st 0) = (some 8, 1, some 8, 1, 3, .propose) ∧
    isMaj N4d.powers ((gO3.st 0).slots .prevote 1 2) (some 9) = true ∧
    ((gO3.st 0).slots .prevote 1 2)[0]? = some none ∧
    -- the (lock, valid) views at the boundaries of rounds 4, 5, 6, 7
    (lockView (gO4.st 0) = (some 8, 1, some 8, 1, 4, .propose) ∧ lockView (gO4.st 1) = (some 9, 2, some 9, 2, 4, .propose) ∧
      lockView (gO4.st 2) = (some 9, 2, some 9, 2, 4, .propose)) ∧
    (lockView (gO5.st 0) = (some 8, 1, some 8, 1, 5, .propose) ∧ lockView (gO5.st 1) = (some 9, 2, some 9, 2, 5, .propose) ∧
      lockView (gO5.st 2) = (some 9, 2, some 9, 2, 5, .propose)) ∧
    (lockView (gO6.st 0) = (some 8, 1, some 8, 1, 6, .propose) ∧ lockView (gO6.st 1) = (some 9, 2, some 9, 2, 6, .propose) ∧
      lockView (gO6.st 2) = (some 9, 2, some 9, 2, 6, .propose)) ∧
    (lockView (gO7.st 0) = (some 8, 1, some 8, 1, 7, .propose) ∧ lockView (gO7.st 1) = (some 9, 2, some 9, 2, 7, .propose) ∧
      lockView (gO7.st 2) = (some 9, 2, some 9, 2, 7, .propose)) ∧
    -- every correct validator proposed once (its valid block, with its valid round as POL round)
    Action.signProposal 1 4 1 8 ∈ (gO7.st 0).log ∧ Action.signProposal 1 5 2 9 ∈ (gO7.st 1).log ∧
    Action.signProposal 1 6 2 9 ∈ (gO7.st 2).log ∧
    -- nobody committed
    noCommit (gO7.st 0).log = true ∧ noCommit (gO7.st 1).log = true ∧ noCommit (gO7.st 2).log = true :=
  ⟨⟨fun _ => rfl, fun _ => rfl⟩, by decide, by decide, by decide, by decide, by decide, by decide, by decide,
    by decide, by decide, by decide,
    ⟨by decide, by decide, by decide⟩, ⟨by decide, by decide, by decide⟩, ⟨by decide, by decide, by decide⟩,
    ⟨by decide, by decide, by decide⟩,
    by decide, by decide, by decide, by decide, by decide, by decide⟩

/-- the state the old rule reaches violates the invariant `NoStale` that the repaired node keeps
(`C03.stale_lock_never_persists`) -/
theorem old_rule_violates_noStale : ¬ NoStale (N4d.cfg 0) (gO3.st 0) := by
  intro h
  have := h ⟨8, true⟩ (by decide) 2 (some 9) (by decide) (by decide) (by decide)
  exact absurd this (by decide)

/-- the rest of round 3 for the repaired node: A, unlocked and without a proposal, prevotes nil -/
def fixedRound3 : List GStep :=
  toNode 0 [tmo 3 .propose] ++
  phase [0, 1, 2] (fun _ => [pvx 0 3 none, pvx 1 3 (some 9), pvx 2 3 (some 9), tmo 3 .prevoteWait]) ++
  phase [0, 1, 2] (fun _ => [pcx 0 3 none, pcx 1 3 none, pcx 2 3 none, tmo 3 .precommitWait])

/-- the states of the execution of the repaired nodes -/
def gF2 : GState := grun N4d (gstart N4d) (stalePrefix.take (stalePrefix.length - 3))
def gF3 : GState := grun N4d (gstart N4d) stalePrefix
def gF4 : GState := grun N4d gF3 fixedRound3
def gF5 : GState := grun N4d gF4 (staleRound 4 0 1 8 [0, 1, 2])

set_option maxRecDepth 100000 in
/-- **stale_lock_released.** The same inputs, handled by the repaired node (`Cs.step`): when the
third round-2 prevote makes A skip to round 2, `releaseStale` finds the polka (round 2, block 9) in
`(lockedRound = 1, round = 2]` and releases the lock on 8; A enters round 3 unlocked (it keeps 8 as
its valid block).  The executions stay legal (`GOkS`).  Round 3 (no proposer) and round 4 (A
re-proposes 8 with POL 1; B and C are locked on 9 since round 2) fail, and round 5 — B, whose valid
round 2 dominates, re-proposes 9 with POL 2 — is `RoundReady`. -/
theorem stale_lock_released :
    GOkS N4d (gstart N4d) stalePrefix ∧
    -- before the skip: locked (8, round 1), in round 1; after the first skip: released, in round 2
    lockView ((grun N4d (gstart N4d) (stalePrefix.take (stalePrefix.length - 4))).st 0) =
      (some 8, 1, some 8, 1, 1, .precommit) ∧
    lockView (gF2.st 0) = (none, 0, some 8, 1, 2, .propose) ∧
    -- after the second skip: round 3, unlocked; B, C locked on 9
    lockView (gF3.st 0) = (none, 0, some 8, 1, 3, .propose) ∧
    lockView (gF3.st 1) = (some 9, 2, some 9, 2, 3, .prevote) ∧
    lockView (gF3.st 2) = (some 9, 2, some 9, 2, 3, .prevote) ∧
    GOkS N4d gF3 fixedRound3 ∧ GOkS N4d gF4 (staleRound 4 0 1 8 [0, 1, 2]) ∧
    RoundReady N4d gF5 1 5 1 2 9 :=
  ⟨by decide, by decide, by decide, by decide, by decide, by decide, by decide, by decide, by decide⟩

/-- … and the synchronous round 5 decides: every correct node commits 9 (`sync_round_decides`
applied to the state the repaired nodes reach) -/
theorem stale_lock_released_decides :
    GOkS N4d gF5 (syncRoundP N4d 1 5 1 2 9) ∧ allCommit N4d (grun N4d gF5 (syncRoundP N4d 1 5 1 2 9)) 1 9 := by
  have wf : N4d.WF := ⟨fun _ => rfl, fun _ => rfl⟩
  have c := stale_lock_released
  have G3 := grun_inv_s wf _ _ (gstart_inv N4d) c.1
  have G4 := grun_inv_s wf _ _ G3 c.2.2.2.2.2.2.1
  have G5 := grun_inv_s wf _ _ G4 c.2.2.2.2.2.2.2.1
  exact sync_round_decides N4d wf gF5 G5 1 5 1 2 9 c.2.2.2.2.2.2.2.2

set_option maxRecDepth 100000 in
/-- sanity evaluation of the same -/
example : allCommit N4d (grun N4d gF5 (syncRoundP N4d 1 5 1 2 9)) 1 9 := by decide

/-! ### the full statements -/

/-- **Full statement of the logic core of C04 (NOT proved).**  In the weak form that needs no
notion of time or fairness: from every reachable global state in which the correct validators
hold more than 2/3 of the power and are at the same height `h`, SOME legal continuation in which
only votes of correct validators are delivered (the faulty ones are silent from now on) lets every
correct node commit at `h`.  `sync_round_decides` / `pol_round_decides` prove it from the states
satisfying `RoundReady` / `PolReady`, `fresh_network_commits` from `gstart`.  Before the F36 fix it
was in all likelihood false (`stale_lock_livelock_counterexample_old_rule`); with
`stale_lock_never_persists` that obstruction is gone.  Still missing for a proof: a synchronous
round from an ARBITRARY reachable state (mixed prevotes, nodes in different rounds/steps: only the
boundary states `RoundReady` / `PolReady` are covered), and that the rotation reaches a proposer
whose valid round dominates every conflicting lock (C12). -/
def decidableFromEverywhereStatement : Prop :=
  ∀ (N : Net), N.WF → CorrectQuorum N →
    ∀ (steps : List GStep), GOkS N (gstart N) steps →
      ∀ h, (∀ i, i < N.powers.length → N.F i = false → ((grun N (gstart N) steps).st i).height = h) →
        ∃ (more : List GStep) (b : Nat), GOkS N (grun N (gstart N) steps) more ∧
          (∀ s ∈ more, ∀ peer idx t h' r tgt sigok, s.2.2 = Input.vote peer idx t h' r tgt sigok → N.F idx = false) ∧
          allCommit N (grun N (grun N (gstart N) steps) more) h b

/-- a node at the boundary of round (h, r): step Propose, nothing of the round received -/
def NodeAtBoundary (cfg : Config) (h r : Nat) (σ : State) : Prop :=
  σ.halted = false ∧ σ.height = h ∧ σ.round = r ∧ σ.step = .propose ∧
  σ.proposal = none ∧ σ.pblock = none ∧ σ.parts = none ∧
  σ.slots .prevote h r = List.replicate (n cfg) none ∧
  σ.slots .precommit h r = List.replicate (n cfg) none

instance (cfg : Config) (h r : Nat) (σ : State) : Decidable (NodeAtBoundary cfg h r σ) := by
  unfold NodeAtBoundary; exact inferInstance

/-- the validators whose prevote for `b` is in `σ`'s round-`pol` prevote set -/
def polkaSet (σ : State) (h pol b n : Nat) : List Nat :=
  (List.range n).filter (fun q => (σ.slots .prevote h pol)[q]? == some (some (some b)))

/-- the hypotheses of the bounded-rounds step about the round boundary: correct proposer `p` with
valid block `b` of valid round `pol ≥ 1`; every correct node at the boundary of (h, r), locked on
nothing, on `b`, or on something from a round before `pol` (the proposer's valid round dominates);
no correct node holds a conflicting round-`pol` prevote of a FAULTY validator of `p`'s polka set
(the Go code accepts the other one after `SetPeerMaj23`, a reactor call that is not modelled) -/
def Dominated (N : Net) (g : GState) (h r p pol b : Nat) : Prop :=
  1 ≤ pol ∧ p < N.powers.length ∧ N.F p = false ∧
  (g.st p).validB = some ⟨b, true⟩ ∧ (g.st p).validRound = pol ∧
  (∀ i, i < N.powers.length → N.F i = false →
    (N.cfg i).proposer h r = p ∧ NodeAtBoundary (N.cfg i) h r (g.st i) ∧
    ((g.st i).locked = none ∨ idIs (g.st i).locked b = true ∨ (g.st i).lockedRound < pol)) ∧
  (∀ i q, i < N.powers.length → N.F i = false → N.F q = true →
    q ∈ polkaSet (g.st p) h pol b N.powers.length →
    ((g.st i).slots .prevote h pol)[q]? = some none ∨ ((g.st i).slots .prevote h pol)[q]? = some (some (some b)))

/-- **unlucky_rounds_bounded, full statement** (proved: `unlucky_rounds_bounded`).  At a reachable
round boundary whose correct proposer's valid round dominates every conflicting lock (`Dominated`),
`PolReady` holds with `qs` = the proposer's polka set — so `pol_round_decides` applies: POL gossip
and ONE synchronous round decide; with a proposer rotation that reaches such a proposer within `R`
rounds (C12, not formalised here) this is the bounded-rounds clause.  ("At most two rounds" is
false: `two_sync_rounds_not_enough_counterexample`.)  Before the F36 fix the statement was FALSE (a
stale lock: `stale_lock_livelock_counterexample_old_rule`); that obstruction is removed by
`stale_lock_never_persists`. -/
def unluckyRoundsBoundedStatement : Prop :=
  ∀ (N : Net), N.WF → CorrectQuorum N →
    ∀ (steps : List GStep), GOkS N (gstart N) steps →
      ∀ h r p pol b, Dominated N (grun N (gstart N) steps) h r p pol b →
        PolReady N (grun N (gstart N) steps) h r p pol b
          (polkaSet ((grun N (gstart N) steps).st p) h pol b N.powers.length)

/-- **unlucky_rounds_bounded (partial).**  From any state with the network invariant `GInv`: `Dominated`
plus three facts — the proposer signed `(validRound, validB)` when it entered the round (`hprop`), its
valid round carries the polka in its own vote set (`hpolka`), the vote sets of the POL round exist at
every correct node (`hlen`); for reachable states they are the single-node invariants `Cs.Aux` — give
`PolReady` for the proposer's polka set. -/
theorem unlucky_rounds_bounded_partial (N : Net) (hq : CorrectQuorum N) (g : GState) (G : GInv N g)
    (h r p pol b : Nat) (D : Dominated N g h r p pol b)
    (hprop : Action.signProposal h r pol b ∈ (g.st p).log)
    (hpolka : quorum N.powers (g.st p).votes .prevote h pol (some b))
    (hlt : pol < r)
    (hlen : ∀ i, i < N.powers.length → N.F i = false →
      ((g.st i).slots .prevote h pol).length = N.powers.length) :
    PolReady N g h r p pol b (polkaSet (g.st p) h pol b N.powers.length) := by
  obtain ⟨hpol1, hp, hFp, _, _, hnode, hconf⟩ := D
  have hmem : ∀ q, q ∈ polkaSet (g.st p) h pol b N.powers.length ↔
      q < N.powers.length ∧ ((g.st p).slots .prevote h pol)[q]? = some (some (some b)) := by
    intro q
    unfold polkaSet
    rw [List.mem_filter, List.mem_range]
    simp
  have hsigned : ∀ q, q ∈ polkaSet (g.st p) h pol b N.powers.length → N.F q = false →
      Action.signVote .prevote h pol (some b) ∈ (g.st q).log := by
    intro q hqm hF
    obtain ⟨hql, hs⟩ := (hmem q).mp hqm
    exact G.sent q h .prevote pol (some b) hF (G.recv p .prevote h pol q (some b) hql hs)
  refine ⟨hq, hp, hFp, hprop, fun q hqm => ⟨((hmem q).mp hqm).1, hsigned q hqm⟩, ?_, ?_⟩
  · have h1 := sumFor_le_power N.powers (slotsV (g.st p).votes .prevote h pol) (some b)
      (fun j => decide (j ∈ polkaSet (g.st p) h pol b N.powers.length))
      (fun i hi hs => by
        simp only [decide_eq_true_eq]
        exact (hmem i).mpr ⟨hi, hs⟩)
    unfold quorum at hpolka
    rw [total_eq_power] at hpolka
    omega
  · intro i hi hF
    obtain ⟨hpi, ⟨nh, hh, hr, st, prop, pb, parts, pv, pc⟩, lk⟩ := hnode i hi hF
    refine ⟨hpi, nh, hh, hr, st, prop, pb, parts, ⟨hpol1, hlt⟩, lk, ?_, pv, pc⟩
    intro q hqm
    have hql := ((hmem q).mp hqm).1
    cases hFq : N.F q with
    | true => exact hconf i q hi hF hFq hqm
    | false =>
      have hl := hlen i hi hF
      cases hs : ((g.st i).slots .prevote h pol)[q]? with
      | none =>
        exfalso
        rw [List.getElem?_eq_none_iff] at hs
        omega
      | some v =>
        cases v with
        | none => exact Or.inl rfl
        | some x =>
          right
          have := correct_slot_ok G q h pol b hql hFq (hsigned q hqm hFq) i x hs
          rw [this]

/-- **unlucky_rounds_bounded.**  `unluckyRoundsBoundedStatement` holds: for every reachable state
(legal execution from `gstart`) at a round boundary whose correct proposer's valid round dominates
every conflicting lock, `PolReady` holds for the proposer's polka set.  The three extra hypotheses of
`unlucky_rounds_bounded_partial` are discharged by the invariants `Cs.Aux` (`KV/Proofs/CsAux.lean`). -/
theorem unlucky_rounds_bounded : unluckyRoundsBoundedStatement := by
  intro N wf hq steps hok h r p pol b D
  have G := grun_inv_s wf steps _ (gstart_inv N) hok
  have hA := grun_aux_s wf steps hok
  obtain ⟨hpol1, hp, hFp, hvb, hvr, hnode, hconf⟩ := D
  obtain ⟨hpp, ⟨-, hh, hr, hst, -, -, -, hpv, -⟩, -⟩ := hnode p hp hFp
  have hn : ∀ i, n (N.cfg i) = N.powers.length := fun i => by unfold n; rw [wf.powers_eq]
  -- the proposer's valid round carries its polka
  obtain ⟨-, v2, v3⟩ := (hA p).valid ⟨b, true⟩ hvb
  rw [hvr, hh, wf.powers_eq] at v3
  rw [hvr, hr] at v2
  -- not the current round: its prevote set is empty
  have hlt : pol < r := by
    by_cases e : pol = r
    · exfalso
      subst e
      unfold quorum at v3
      rw [← State.slots_eq, hpv, sumFor_replicate_none] at v3
      omega
    · omega
  have hprop : Action.signProposal h r pol b ∈ ((grun N (gstart N) steps).st p).log := by
    have hval : isVal (N.cfg p) = true := by
      unfold isVal; rw [wf.me_eq, wf.powers_eq]; exact decide_eq_true hp
    rcases (hA p).prop hst hval (by rw [hh, hr, wf.me_eq]; exact hpp) ⟨b, true⟩ hvb with h1 | h1
    · rw [hh, hr, hvr] at h1; exact h1
    · rw [hvr, hr] at h1; omega
  refine unlucky_rounds_bounded_partial N hq _ G h r p pol b ⟨hpol1, hp, hFp, hvb, hvr, hnode, hconf⟩
    hprop v3 hlt ?_
  intro i hi hF
  obtain ⟨-, ⟨-, hhi, hri, -⟩, -⟩ := hnode i hi hF
  have hex := (hA i).rounds pol hpol1 (by have := (hA i).hvs; omega)
  rw [hhi] at hex
  rw [State.slots_eq]
  unfold slotsV
  cases hf : findRV ((grun N (gstart N) steps).st i).votes h pol with
  | none => rw [hf] at hex; cases hex
  | some rv =>
    simp only
    have hm : rv ∈ ((grun N (gstart N) steps).st i).votes := List.mem_of_find?_eq_some hf
    show rv.prevotes.length = _
    rw [(hA i).lens rv hm, hn]

set_option maxRecDepth 100000 in
/-- non-vacuity of `Dominated`: the boundary of round 5 of `two_sync_rounds_not_enough_counterexample`
(proposer A with valid block 9 of valid round 2; B locked on 8 since round 1; the faulty D's round-2
prevote for 9 is in A's vote set only) -/
example : Dominated N4u gU5 1 5 0 2 9 := by
  refine ⟨by decide, by decide, by decide, by decide, by decide, by decide, ?_⟩
  intro i q hi hF hFq _
  have hq3 : q = 3 := by
    have : (q == 3) = true := hFq
    simpa using this
  subst hq3
  match i, hi, hF with
  | 0, _, _ => decide
  | 1, _, _ => decide
  | 2, _, _ => decide
  | 3, _, hF => cases hF

/-- … so, from such a state, POL gossip and one synchronous round decide -/
theorem unlucky_rounds_bounded_partial_decides (N : Net) (wf : N.WF) (hq : CorrectQuorum N) (g : GState)
    (G : GInv N g) (hNS : ∀ i, NoStale (N.cfg i) (g.st i)) (h r p pol b : Nat) (D : Dominated N g h r p pol b)
    (hprop : Action.signProposal h r pol b ∈ (g.st p).log)
    (hpolka : quorum N.powers (g.st p).votes .prevote h pol (some b)) (hlt : pol < r)
    (hlen : ∀ i, i < N.powers.length → N.F i = false →
      ((g.st i).slots .prevote h pol).length = N.powers.length) :
    ∀ i, i < N.powers.length → N.F i = false →
      Action.commit h b ∈ ((grun N g (polGossip N h pol b (polkaSet (g.st p) h pol b N.powers.length) ++
        syncRoundP N h r p pol b)).st i).log :=
  (pol_round_decides N wf g G hNS h r p pol b _
    (unlucky_rounds_bounded_partial N hq g G h r p pol b D hprop hpolka hlt hlen)).2

end KV.Props.C04Net
