import KV.Gen.C16
import KV.Proofs.BigEndian
/-!
# C16 — bridge between the regenerated RLP boundaries (tie T1) and the model `KV.Rlp`

`KV/Gen/C16.lean` is re-extracted on every check run from `lib/rlp/decode.go`
(`Stream.readKind`, `readUint`, `Bytes`, `ReadBytes`, `uint`, `Kind`, `decodeBigInt`),
`lib/rlp/raw.go` (`readKind`, `readSize`, `SplitUint64`) and the encoder (`encode.go`
`headsize`/`puthead`/`putint`/`listhead.encode`, `encbuffer.go` `writeBytes`/
`encodeStringHeader`/`listEnd`/`writeUint64`): the first-byte dispatch (`0x80`, `0xB8`, `0xC0`,
`0xF8`), the size arithmetic (`b - 0x80`, `b - 0xB7`, …), the canonical-form tests
(`size < 56`, leading zero, single byte `< 0x80`), the size limits and the big-endian size
assembly of `readSize`.

The theorems state that the header decoder `decHeader`/`readLen` of the model, the single-byte
rule of `dec`/`rawSplit` and the encoder's `header` are these regenerated pieces, for every byte
and every input.  A change of a boundary constant or comparison in the Go source changes the
generated definition and breaks the corresponding theorem.
-/
namespace KV.Rlp.GenBridge
open KV KV.Rlp

/-! ### first-byte dispatch -/

theorem wrap8_sub (b c : Nat) (h : c ≤ b) (hb : b < 256) :
    U64.wrapN 8 ((Int.ofNat b) - (Int.ofNat c)) = b - c := by
  unfold U64.wrapN
  simp only [Int.ofNat_eq_natCast]
  omega

/-- `Stream.readKind` (decode.go) and `readKind` (raw.go) dispatch on the same boundaries -/
theorem gen_kindCase_agree (b : Nat) : Gen.C16.streamKindCase b = Gen.C16.rawKindCase b := rfl

/-- the single byte `< 0x80` is its own encoding: first test of `dec` / `rawSplit` -/
theorem gen_kindCase_byte (b : UInt8) : (Gen.C16.rawKindCase b.toNat = 0) ↔ b.toNat < 128 := by
  unfold Gen.C16.rawKindCase
  by_cases h1 : b.toNat < 128
  · simp [h1]
  · by_cases h2 : b.toNat < 184 <;> by_cases h3 : b.toNat < 192 <;> by_cases h4 : b.toNat < 248 <;> simp [h1, h2, h3, h4]

/-- `decHeader` of the model is the regenerated dispatch of `raw.go readKind` with the regenerated
size arithmetic -/
theorem decHeader_eq_gen_raw (b : UInt8) (rest : Bytes) (hb : 128 ≤ b.toNat) :
    decHeader b rest =
      match Gen.C16.rawKindCase b.toNat with
      | 1 => some (false, Gen.C16.rawShortStringSize b.toNat, rest)
      | 2 =>
        match readLen (Gen.C16.rawLongStringSizeLen b.toNat) rest with
        | none => none
        | some (len, r) => some (false, len, r)
      | 3 => some (true, Gen.C16.rawShortListSize b.toNat, rest)
      | _ =>
        match readLen (Gen.C16.rawLongListSizeLen b.toNat) rest with
        | none => none
        | some (len, r) => some (true, len, r) := by
  have hlt : b.toNat < 256 := UInt8.toNat_lt b
  unfold decHeader Gen.C16.rawKindCase Gen.C16.rawShortStringSize Gen.C16.rawShortListSize
    Gen.C16.rawLongStringSizeLen Gen.C16.rawLongListSizeLen
  have h1 : ¬ b.toNat < 128 := by omega
  by_cases h2 : b.toNat < 184
  · have e : U64.wrapN 8 ((b.toNat : Int) - 128) = b.toNat - 128 := by unfold U64.wrapN; omega
    simp [h1, h2, e]
  · by_cases h3 : b.toNat < 192
    · have e : U64.wrapN 8 ((b.toNat : Int) - 183) = b.toNat - 183 := by unfold U64.wrapN; omega
      simp [h1, h2, h3, e]
      rcases readLen (b.toNat - 183) rest with _ | ⟨len, r⟩ <;> rfl
    · by_cases h4 : b.toNat < 248
      · have e : U64.wrapN 8 ((b.toNat : Int) - 192) = b.toNat - 192 := by unfold U64.wrapN; omega
        simp [h1, h2, h3, h4, e]
      · have e : U64.wrapN 8 ((b.toNat : Int) - 247) = b.toNat - 247 := by unfold U64.wrapN; omega
        simp [h1, h2, h3, h4, e]
        rcases readLen (b.toNat - 247) rest with _ | ⟨len, r⟩ <;> rfl

/-- the same for `Stream.readKind` of decode.go -/
theorem decHeader_eq_gen_stream (b : UInt8) (rest : Bytes) (hb : 128 ≤ b.toNat) :
    decHeader b rest =
      match Gen.C16.streamKindCase b.toNat with
      | 1 => some (false, Gen.C16.streamShortStringSize b.toNat, rest)
      | 2 =>
        match readLen (Gen.C16.streamLongStringSizeLen b.toNat) rest with
        | none => none
        | some (len, r) => some (false, len, r)
      | 3 => some (true, Gen.C16.streamShortListSize b.toNat, rest)
      | _ =>
        match readLen (Gen.C16.streamLongListSizeLen b.toNat) rest with
        | none => none
        | some (len, r) => some (true, len, r) := by
  rw [decHeader_eq_gen_raw b rest hb]
  rfl

/-- `tagsize` of the long forms: one tag byte plus the size bytes that `readLen` drops -/
theorem gen_tagsize (b : UInt8) :
    (184 ≤ b.toNat → b.toNat < 192 → Gen.C16.rawLongStringTagSize b.toNat = 1 + Gen.C16.rawLongStringSizeLen b.toNat) ∧
    (248 ≤ b.toNat → Gen.C16.rawLongListTagSize b.toNat = 1 + Gen.C16.rawLongListSizeLen b.toNat) := by
  have hlt : b.toNat < 256 := UInt8.toNat_lt b
  unfold Gen.C16.rawLongStringTagSize Gen.C16.rawLongListTagSize Gen.C16.rawLongStringSizeLen Gen.C16.rawLongListSizeLen
  constructor
  · intro h1 h2
    rw [wrap8_sub b.toNat 183 (by omega) hlt, U64.add_exact _ _ (by unfold U64.modulus; omega)]
    omega
  · intro h1
    rw [wrap8_sub b.toNat 247 (by omega) hlt, U64.add_exact _ _ (by unfold U64.modulus; omega)]
    omega

/-! ### long-form sizes: `readSize` / `readUint` -/

/-- `readLen` of the model is: truncated input test, then the regenerated non-canonical test of
`readSize` (`s < 56 || b[0] == 0`) on the big-endian value of the size bytes -/
theorem readLen_eq_gen (k : Nat) (c : UInt8) (rest : Bytes) (hk : 1 ≤ k) :
    readLen k (c :: rest) =
      if Gen.C16.rawSizeTruncated (Int.ofNat (c :: rest).length) k then none
      else if Gen.C16.rawSizeNonCanon (beVal ((c :: rest).take k)) c.toNat then none
      else some (beVal ((c :: rest).take k), (c :: rest).drop k) := by
  unfold readLen Gen.C16.rawSizeTruncated Gen.C16.rawSizeNonCanon
  obtain ⟨k', rfl⟩ : ∃ k', k = k' + 1 := ⟨k - 1, by omega⟩
  have hc : (c = 0) ↔ c.toNat = 0 := by
    constructor
    · intro h; rw [h]; rfl
    · intro h; exact UInt8.toNat_inj.mp (by simpa using h)
  have hcast : (Int.ofNat (k' + 1) > Int.ofNat (c :: rest).length) ↔ (c :: rest).length < k' + 1 := by
    simp only [Int.ofNat_eq_natCast]; omega
  simp only [hcast, decide_eq_true_eq, List.take_succ_cons, List.head?_cons, Option.some.injEq, hc,
    Bool.or_eq_true, List.drop_succ_cons]
  by_cases hl : (c :: rest).length < k' + 1
  · simp only [hl, if_true]
  · simp only [hl, if_false]
    by_cases h0 : c.toNat = 0
    · simp [h0]
    · by_cases h56 : beVal (c :: List.take k' rest) < 56 <;> simp [h0, h56]

theorem readLen_nil_gen (k : Nat) (hk : 1 ≤ k) :
    readLen k [] = none ∧ Gen.C16.rawSizeTruncated (Int.ofNat ([] : Bytes).length) k = true := by
  constructor
  · unfold readLen
    have : ([] : Bytes).length < k := by simp only [List.length_nil]; omega
    simp only [this, if_true]
  · unfold Gen.C16.rawSizeTruncated
    simp only [Int.ofNat_eq_natCast, List.length_nil, decide_eq_true_eq]
    omega

/-- the decode.go side: `err == nil && size < 56` after `readUint`, whose own test is the leading
zero of the size bytes -/
theorem gen_stream_size_tests (size : Nat) (first : UInt8) :
    Gen.C16.streamLongStringNonCanon true size = decide (size < 56) ∧
    Gen.C16.streamLongListNonCanon true size = decide (size < 56) ∧
    Gen.C16.streamLongStringNonCanon false size = false ∧
    Gen.C16.streamLongListNonCanon false size = false ∧
    Gen.C16.streamReadUintLeadingZero first.toNat = decide (some first = some (0 : UInt8)) := by
  refine ⟨rfl, rfl, rfl, rfl, ?_⟩
  unfold Gen.C16.streamReadUintLeadingZero
  have hc : (first = 0) ↔ first.toNat = 0 := by
    constructor
    · intro h; rw [h]; rfl
    · intro h; exact UInt8.toNat_inj.mp (by simpa using h)
  simp [hc]

/-- `readUint` reads `size` bytes into the last `size` bytes of an 8-byte buffer; sizes 0 and 1 are
special-cased -/
theorem gen_readUint_layout (size : Nat) (h : size ≤ 8) :
    Gen.C16.streamReadUintStart size = ((8 - size : Nat) : Int) ∧
    (Gen.C16.streamReadUintCase size = 0 ↔ size = 0) ∧ (Gen.C16.streamReadUintCase size = 1 ↔ size = 1) := by
  refine ⟨?_, ?_, ?_⟩
  · unfold Gen.C16.streamReadUintStart U64.wrapN
    simp only [Int.ofNat_eq_natCast]
    omega
  · unfold Gen.C16.streamReadUintCase
    by_cases h0 : size = 0 <;> by_cases h1 : size = 1 <;> simp [h0, h1]
  · unfold Gen.C16.streamReadUintCase
    by_cases h0 : size = 0 <;> by_cases h1 : size = 1 <;> simp [h0, h1]

/-! ### big-endian assembly of `readSize` -/

/-- `x << k` of a byte does not overflow 64 bits for `k ≤ 56` -/
theorem shl_eq (x k : Nat) (hx : x < 256) (hk : k ≤ 56) : U64.shl x k = x <<< k := by
  unfold U64.shl U64.modulus
  rw [Nat.shiftLeft_eq]
  apply Nat.mod_eq_of_lt
  have h1 : x * 2 ^ k < 2 ^ 8 * 2 ^ k := Nat.mul_lt_mul_of_pos_right (by simpa using hx) (Nat.two_pow_pos k)
  have h2 : 2 ^ 8 * 2 ^ k = 2 ^ (8 + k) := (Nat.pow_add 2 8 k).symm
  have h3 : 2 ^ (8 + k) ≤ 2 ^ 64 := Nat.pow_le_pow_right (by decide) (by omega)
  have h4 : (2:Nat) ^ 64 = 18446744073709551616 := by decide
  rw [h2] at h1
  rw [← h4]
  exact Nat.lt_of_lt_of_le h1 h3

theorem shl8_or (a y : Nat) (hy : y < 256) : (a <<< 8) ||| y = a * 256 + y := by
  rw [← Nat.shiftLeft_add_eq_or_of_lt (by simpa using hy) a, Nat.shiftLeft_eq]

theorem s16 (x : Nat) : x <<< 16 = x <<< 8 <<< 8 := by rw [← Nat.shiftLeft_add]
theorem s24 (x : Nat) : x <<< 24 = x <<< 8 <<< 8 <<< 8 := by simp only [← Nat.shiftLeft_add]
theorem s32 (x : Nat) : x <<< 32 = x <<< 8 <<< 8 <<< 8 <<< 8 := by simp only [← Nat.shiftLeft_add]
theorem s40 (x : Nat) : x <<< 40 = x <<< 8 <<< 8 <<< 8 <<< 8 <<< 8 := by simp only [← Nat.shiftLeft_add]
theorem s48 (x : Nat) : x <<< 48 = x <<< 8 <<< 8 <<< 8 <<< 8 <<< 8 <<< 8 := by simp only [← Nat.shiftLeft_add]
theorem s56 (x : Nat) : x <<< 56 = x <<< 8 <<< 8 <<< 8 <<< 8 <<< 8 <<< 8 <<< 8 := by simp only [← Nat.shiftLeft_add]

/-! the `k`-th case of `readSize` is Horner's scheme over the size bytes (proved in shift form:
`a << 16 | b << 8 | c = ((a << 8 | b) << 8) | c`, no numeral larger than 256 is compared) -/

theorem rawSize1_horner (x0 : Nat) (h0 : x0 < 256) :
    Gen.C16.rawSize1 x0 = x0 := by
  rfl

theorem rawSize2_horner (x0 x1 : Nat) (h0 : x0 < 256) (h1 : x1 < 256) :
    Gen.C16.rawSize2 x0 x1 = (x0 * 256 + x1) := by
  unfold Gen.C16.rawSize2
  rw [shl_eq x0 8 h0 (by decide)]
  simp only [U64.or, ← Nat.shiftLeft_or_distrib]
  rw [shl8_or _ _ h1]

theorem rawSize3_horner (x0 x1 x2 : Nat) (h0 : x0 < 256) (h1 : x1 < 256) (h2 : x2 < 256) :
    Gen.C16.rawSize3 x0 x1 x2 = ((x0 * 256 + x1) * 256 + x2) := by
  unfold Gen.C16.rawSize3
  rw [shl_eq x0 16 h0 (by decide), shl_eq x1 8 h1 (by decide)]
  simp only [U64.or, s16, ← Nat.shiftLeft_or_distrib]
  rw [shl8_or _ _ h1, shl8_or _ _ h2]

theorem rawSize4_horner (x0 x1 x2 x3 : Nat) (h0 : x0 < 256) (h1 : x1 < 256) (h2 : x2 < 256) (h3 : x3 < 256) :
    Gen.C16.rawSize4 x0 x1 x2 x3 = (((x0 * 256 + x1) * 256 + x2) * 256 + x3) := by
  unfold Gen.C16.rawSize4
  rw [shl_eq x0 24 h0 (by decide), shl_eq x1 16 h1 (by decide), shl_eq x2 8 h2 (by decide)]
  simp only [U64.or, s16, s24, ← Nat.shiftLeft_or_distrib]
  rw [shl8_or _ _ h1, shl8_or _ _ h2, shl8_or _ _ h3]

theorem rawSize5_horner (x0 x1 x2 x3 x4 : Nat) (h0 : x0 < 256) (h1 : x1 < 256) (h2 : x2 < 256) (h3 : x3 < 256) (h4 : x4 < 256) :
    Gen.C16.rawSize5 x0 x1 x2 x3 x4 = ((((x0 * 256 + x1) * 256 + x2) * 256 + x3) * 256 + x4) := by
  unfold Gen.C16.rawSize5
  rw [shl_eq x0 32 h0 (by decide), shl_eq x1 24 h1 (by decide), shl_eq x2 16 h2 (by decide), shl_eq x3 8 h3 (by decide)]
  simp only [U64.or, s16, s24, s32, ← Nat.shiftLeft_or_distrib]
  rw [shl8_or _ _ h1, shl8_or _ _ h2, shl8_or _ _ h3, shl8_or _ _ h4]

theorem rawSize6_horner (x0 x1 x2 x3 x4 x5 : Nat) (h0 : x0 < 256) (h1 : x1 < 256) (h2 : x2 < 256) (h3 : x3 < 256) (h4 : x4 < 256) (h5 : x5 < 256) :
    Gen.C16.rawSize6 x0 x1 x2 x3 x4 x5 = (((((x0 * 256 + x1) * 256 + x2) * 256 + x3) * 256 + x4) * 256 + x5) := by
  unfold Gen.C16.rawSize6
  rw [shl_eq x0 40 h0 (by decide), shl_eq x1 32 h1 (by decide), shl_eq x2 24 h2 (by decide), shl_eq x3 16 h3 (by decide), shl_eq x4 8 h4 (by decide)]
  simp only [U64.or, s16, s24, s32, s40, ← Nat.shiftLeft_or_distrib]
  rw [shl8_or _ _ h1, shl8_or _ _ h2, shl8_or _ _ h3, shl8_or _ _ h4, shl8_or _ _ h5]

theorem rawSize7_horner (x0 x1 x2 x3 x4 x5 x6 : Nat) (h0 : x0 < 256) (h1 : x1 < 256) (h2 : x2 < 256) (h3 : x3 < 256) (h4 : x4 < 256) (h5 : x5 < 256) (h6 : x6 < 256) :
    Gen.C16.rawSize7 x0 x1 x2 x3 x4 x5 x6 = ((((((x0 * 256 + x1) * 256 + x2) * 256 + x3) * 256 + x4) * 256 + x5) * 256 + x6) := by
  unfold Gen.C16.rawSize7
  rw [shl_eq x0 48 h0 (by decide), shl_eq x1 40 h1 (by decide), shl_eq x2 32 h2 (by decide), shl_eq x3 24 h3 (by decide), shl_eq x4 16 h4 (by decide), shl_eq x5 8 h5 (by decide)]
  simp only [U64.or, s16, s24, s32, s40, s48, ← Nat.shiftLeft_or_distrib]
  rw [shl8_or _ _ h1, shl8_or _ _ h2, shl8_or _ _ h3, shl8_or _ _ h4, shl8_or _ _ h5, shl8_or _ _ h6]

theorem rawSize8_horner (x0 x1 x2 x3 x4 x5 x6 x7 : Nat) (h0 : x0 < 256) (h1 : x1 < 256) (h2 : x2 < 256) (h3 : x3 < 256) (h4 : x4 < 256) (h5 : x5 < 256) (h6 : x6 < 256) (h7 : x7 < 256) :
    Gen.C16.rawSize8 x0 x1 x2 x3 x4 x5 x6 x7 = (((((((x0 * 256 + x1) * 256 + x2) * 256 + x3) * 256 + x4) * 256 + x5) * 256 + x6) * 256 + x7) := by
  unfold Gen.C16.rawSize8
  rw [shl_eq x0 56 h0 (by decide), shl_eq x1 48 h1 (by decide), shl_eq x2 40 h2 (by decide), shl_eq x3 32 h3 (by decide), shl_eq x4 24 h4 (by decide), shl_eq x5 16 h5 (by decide), shl_eq x6 8 h6 (by decide)]
  simp only [U64.or, s16, s24, s32, s40, s48, s56, ← Nat.shiftLeft_or_distrib]
  rw [shl8_or _ _ h1, shl8_or _ _ h2, shl8_or _ _ h3, shl8_or _ _ h4, shl8_or _ _ h5, shl8_or _ _ h6, shl8_or _ _ h7]

/-- the eight cases of `readSize` compute the big-endian value of the size bytes (`beVal`) -/
theorem gen_rawSize_beVal (b0 b1 b2 b3 b4 b5 b6 b7 : UInt8) :
    Gen.C16.rawSize1 b0.toNat = beVal [b0] ∧
    Gen.C16.rawSize2 b0.toNat b1.toNat = beVal [b0, b1] ∧
    Gen.C16.rawSize3 b0.toNat b1.toNat b2.toNat = beVal [b0, b1, b2] ∧
    Gen.C16.rawSize4 b0.toNat b1.toNat b2.toNat b3.toNat = beVal [b0, b1, b2, b3] ∧
    Gen.C16.rawSize5 b0.toNat b1.toNat b2.toNat b3.toNat b4.toNat = beVal [b0, b1, b2, b3, b4] ∧
    Gen.C16.rawSize6 b0.toNat b1.toNat b2.toNat b3.toNat b4.toNat b5.toNat = beVal [b0, b1, b2, b3, b4, b5] ∧
    Gen.C16.rawSize7 b0.toNat b1.toNat b2.toNat b3.toNat b4.toNat b5.toNat b6.toNat =
      beVal [b0, b1, b2, b3, b4, b5, b6] ∧
    Gen.C16.rawSize8 b0.toNat b1.toNat b2.toNat b3.toNat b4.toNat b5.toNat b6.toNat b7.toNat =
      beVal [b0, b1, b2, b3, b4, b5, b6, b7] := by
  have h0 := UInt8.toNat_lt b0
  have h1 := UInt8.toNat_lt b1
  have h2 := UInt8.toNat_lt b2
  have h3 := UInt8.toNat_lt b3
  have h4 := UInt8.toNat_lt b4
  have h5 := UInt8.toNat_lt b5
  have h6 := UInt8.toNat_lt b6
  have h7 := UInt8.toNat_lt b7
  rw [rawSize1_horner _ h0, rawSize2_horner _ _ h0 h1, rawSize3_horner _ _ _ h0 h1 h2,
    rawSize4_horner _ _ _ _ h0 h1 h2 h3, rawSize5_horner _ _ _ _ _ h0 h1 h2 h3 h4,
    rawSize6_horner _ _ _ _ _ _ h0 h1 h2 h3 h4 h5, rawSize7_horner _ _ _ _ _ _ _ h0 h1 h2 h3 h4 h5 h6,
    rawSize8_horner _ _ _ _ _ _ _ _ h0 h1 h2 h3 h4 h5 h6 h7]
  simp [beVal]

/-- which case of `readSize` handles which number of size bytes -/
theorem gen_rawSizeCase (slen : Nat) (h1 : 1 ≤ slen) (h8 : slen ≤ 8) : Gen.C16.rawSizeCase slen = slen - 1 := by
  unfold Gen.C16.rawSizeCase
  have : slen = 1 ∨ slen = 2 ∨ slen = 3 ∨ slen = 4 ∨ slen = 5 ∨ slen = 6 ∨ slen = 7 ∨ slen = 8 := by omega
  rcases this with h | h | h | h | h | h | h | h <;> subst h <;> rfl


/-! ### the single-byte rule, size limits, integers -/

/-- all five places that reject a one-byte string `< 0x80` test the same thing -/
theorem gen_single_byte_tests (size : Nat) (c : UInt8) (bufLen : Int) (hl : 1 < bufLen) :
    Gen.C16.streamBytesNonCanon size c.toNat = decide (size = 1 ∧ c.toNat < 128) ∧
    Gen.C16.streamReadBytesNonCanon size c.toNat = decide (size = 1 ∧ c.toNat < 128) ∧
    Gen.C16.bigIntSingleByteNonCanon size c.toNat = decide (size = 1 ∧ c.toNat < 128) ∧
    Gen.C16.rawSingleByteNonCanon size bufLen c.toNat = decide (size = 1 ∧ c.toNat < 128) := by
  unfold Gen.C16.streamBytesNonCanon Gen.C16.streamReadBytesNonCanon Gen.C16.bigIntSingleByteNonCanon
    Gen.C16.rawSingleByteNonCanon
  have : bufLen > 1 := hl
  simp [this]

/-- `dec` of the model on `0x81 c`: rejected exactly when the regenerated test of `Stream.Bytes` fires -/
theorem dec_single_byte_gen (fuel : Nat) (c : UInt8) (rest : Bytes) :
    dec (fuel + 1) (129 :: c :: rest) =
      if Gen.C16.streamBytesNonCanon 1 c.toNat then none else some (.str [c], rest) := by
  unfold Gen.C16.streamBytesNonCanon
  simp [dec, decHeader]

/-- `rawSplit` of the model on `0x81 c`: the regenerated test of raw.go `readKind` -/
theorem rawSplit_single_byte_gen (c : UInt8) (rest : Bytes) :
    rawSplit (129 :: c :: rest) =
      if Gen.C16.rawSingleByteNonCanon 1 (Int.ofNat (129 :: c :: rest).length) c.toNat then none
      else some (1, [c], rest) := by
  unfold Gen.C16.rawSingleByteNonCanon
  have : (1 : Int) < (rest.length : Int) + 1 + 1 := by omega
  simp [rawSplit, decHeader, this]

/-- `contentsize > len(buf) - tagsize` is the model's `r.length < len` on the bytes after the tag -/
theorem gen_value_too_large (cs tagsize : Nat) (bufLen : Nat) (ht : tagsize ≤ bufLen) (hb : bufLen < 2 ^ 63) :
    Gen.C16.rawValueTooLarge cs (Int.ofNat bufLen) tagsize = decide (bufLen - tagsize < cs) := by
  unfold Gen.C16.rawValueTooLarge
  have e1 : U64.wrap (Int.ofNat bufLen) = bufLen := U64.wrap_ofNat bufLen (by unfold U64.modulus; omega)
  rw [e1, U64.sub_exact bufLen tagsize ht (by unfold U64.modulus; omega)]

theorem gen_stream_limits (size limit : Nat) :
    Gen.C16.elemTooLarge true size limit = decide (limit < size) ∧
    Gen.C16.valueTooLarge true size limit = decide (limit < size) ∧
    Gen.C16.elemTooLarge false size limit = false ∧ Gen.C16.valueTooLarge false size limit = false := by
  refine ⟨rfl, rfl, rfl, rfl⟩

/-- integers: no leading zero, the zero byte is not an integer, at most `maxbits/8` bytes
(`itemToUint`/`itemToNat` of the model) -/
theorem gen_uint_tests (bs : Bytes) (c : UInt8) (v : Nat) :
    Gen.C16.uintOverflows bs.length 64 = decide (bs.length > 8) ∧
    Gen.C16.uintOverflows bs.length 32 = decide (bs.length > 4) ∧
    Gen.C16.uintOverflows bs.length 16 = decide (bs.length > 2) ∧
    Gen.C16.uintOverflows bs.length 8 = decide (bs.length > 1) ∧
    Gen.C16.uintByteZeroNonCanon c.toNat = decide (c.toNat = 0) ∧
    Gen.C16.splitUintZeroNonCanon c.toNat = decide (c.toNat = 0) ∧
    Gen.C16.uintSingleByteNonCanon bs.length v = decide (0 < bs.length ∧ v < 128) ∧
    Gen.C16.bigIntLeadingZero (Int.ofNat (c :: bs).length) c.toNat = decide (c.toNat = 0) ∧
    Gen.C16.bigIntLeadingZero (Int.ofNat ([] : Bytes).length) c.toNat = false := by
  refine ⟨rfl, rfl, rfl, rfl, rfl, rfl, ?_, ?_, ?_⟩
  · unfold Gen.C16.uintSingleByteNonCanon
    simp
  · unfold Gen.C16.bigIntLeadingZero
    have : Int.ofNat (c :: bs).length > 0 := by simp only [Int.ofNat_eq_natCast, List.length_cons]; omega
    simp [this]
  · unfold Gen.C16.bigIntLeadingZero
    simp

/-- `SplitUint64` dispatch on the content length -/
theorem gen_splitUintCase (n : Nat) :
    (Gen.C16.splitUintCase (Int.ofNat n) = 0 ↔ n = 0) ∧ (Gen.C16.splitUintCase (Int.ofNat n) = 1 ↔ n = 1) ∧
    (Gen.C16.splitUintCase (Int.ofNat n) = 2 ↔ 8 < n) := by
  unfold Gen.C16.splitUintCase
  simp only [Int.ofNat_eq_natCast]
  have a : ((n : Int) = 0) ↔ n = 0 := by omega
  have b : ((n : Int) = 1) ↔ n = 1 := by omega
  have c : ((n : Int) > 8) ↔ 8 < n := by omega
  simp only [a, b, c, decide_eq_true_eq]
  by_cases h0 : n = 0
  · subst h0; simp
  · by_cases h1 : n = 1
    · subst h1; simp
    · by_cases h8 : 8 < n <;> simp [h0, h1, h8]

/-! ### the encoder -/

/-- every place that chooses between the short and the long header form tests `size < 56` -/
theorem gen_short_form_tests (len : Nat) :
    Gen.C16.putheadShort len = decide (len < 56) ∧ Gen.C16.headsizeShort len = decide (len < 56) ∧
    Gen.C16.stringHeaderShort (Int.ofNat len) = decide (len < 56) ∧
    Gen.C16.listEndShort (Int.ofNat len) = decide (len < 56) := by
  refine ⟨rfl, rfl, ?_, ?_⟩
  · unfold Gen.C16.stringHeaderShort
    simp only [Int.ofNat_eq_natCast]
    have : ((len : Int) < 56) ↔ len < 56 := by omega
    simp only [this]
  · unfold Gen.C16.listEndShort
    simp only [Int.ofNat_eq_natCast]
    have : ((len : Int) < 56) ↔ len < 56 := by omega
    simp only [this]

/-- `header` of the model is `puthead` with the regenerated test and tag arithmetic
(`smalltag = off`, `largetag = off + 55`) -/
theorem header_eq_gen (off len : Nat) (ho : off ≤ 192) (hl : len < 256 ^ 8) :
    header off len =
      if Gen.C16.putheadShort len then [UInt8.ofNat (Gen.C16.putheadShortTag off len)]
      else
        let lb := beBytes len
        UInt8.ofNat (Gen.C16.putheadLongTag (Int.ofNat lb.length) (off + 55)) :: lb := by
  unfold header Gen.C16.putheadShort
  by_cases h : len < 56
  · have e : Gen.C16.putheadShortTag off len = off + len := by
      unfold Gen.C16.putheadShortTag U64.wrapN
      simp only [Int.ofNat_eq_natCast]
      omega
    simp [h, e]
  · have hle : (beBytes len).length ≤ 8 := beBytes_length_le 8 len hl
    have e : Gen.C16.putheadLongTag (Int.ofNat (beBytes len).length) (off + 55) = off + 55 + (beBytes len).length := by
      unfold Gen.C16.putheadLongTag U64.wrapN
      simp only [Int.ofNat_eq_natCast]
      omega
    simp only [h, decide_false, Bool.false_eq_true, if_false, e]

/-- the tags the encoder passes: strings `0x80`/`0xB7`, lists `0xC0`/`0xF7` (`header 128`, `header 192`) -/
theorem gen_encoder_tags (size : Nat) (hs : size < 56) (ss : Nat) (h8 : ss ≤ 8) :
    Gen.C16.listSmallTag = 192 ∧ Gen.C16.listLargeTag = 192 + 55 ∧
    Gen.C16.stringHeaderShortTag (Int.ofNat size) = 128 + size ∧
    Gen.C16.stringHeaderLongTag (Int.ofNat ss) = 128 + 55 + ss ∧
    Gen.C16.writeUintLongTag (Int.ofNat ss) = 128 + ss ∧
    Gen.C16.writeUintZeroByte = 128 ∧
    Gen.C16.putheadLongLen (Int.ofNat ss) = Int.ofNat (ss + 1) := by
  refine ⟨rfl, rfl, ?_, ?_, ?_, rfl, ?_⟩
  · unfold Gen.C16.stringHeaderShortTag U64.wrapN
    simp only [Int.ofNat_eq_natCast]
    omega
  · unfold Gen.C16.stringHeaderLongTag U64.wrapN
    simp only [Int.ofNat_eq_natCast]
    omega
  · unfold Gen.C16.writeUintLongTag U64.wrapN
    simp only [Int.ofNat_eq_natCast]
    omega
  · unfold Gen.C16.putheadLongLen I64.add I64.wrap
    simp only [Int.ofNat_eq_natCast]
    omega

/-- number of big-endian bytes of `i` from its range -/
theorem beBytes_length_eq (i k : Nat) (hk : 1 ≤ k) (hlo : 256 ^ (k - 1) ≤ i) (hhi : i < 256 ^ k) :
    (beBytes i).length = k := by
  have hle : (beBytes i).length ≤ k := beBytes_length_le k i hhi
  have hlt : i < 256 ^ (beBytes i).length := by
    have := beVal_lt (beBytes i)
    rwa [beVal_beBytes] at this
  rcases Nat.lt_or_ge (beBytes i).length k with h | h
  · have h1 : (beBytes i).length ≤ k - 1 := by omega
    have h2 : 256 ^ (beBytes i).length ≤ 256 ^ (k - 1) := Nat.pow_le_pow_right (by decide) h1
    exact absurd (Nat.lt_of_lt_of_le hlt h2) (Nat.not_lt.mpr hlo)
  · omega

theorem pow256_lits :
    (256 : Nat) ^ 0 = 1 ∧ (256 : Nat) ^ 1 = 256 ∧ (256 : Nat) ^ 2 = 65536 ∧ (256 : Nat) ^ 3 = 16777216 ∧ (256 : Nat) ^ 4 = 4294967296 ∧
    (256 : Nat) ^ 5 = 1099511627776 ∧ (256 : Nat) ^ 6 = 281474976710656 ∧ (256 : Nat) ^ 7 = 72057594037927936 := by
  decide

/-- `putint` writes as many bytes as the minimal big-endian form has (`beBytes` in `header`) -/
theorem gen_putintCase (i : Nat) (h0 : 0 < i) (h : i < 256 ^ 8) :
    Gen.C16.putintCase i + 1 = (beBytes i).length := by
  obtain ⟨p0, p1, p2, p3, p4, p5, p6, p7⟩ := pow256_lits
  unfold Gen.C16.putintCase
  simp only [decide_eq_true_eq]
  by_cases c1 : i < 256
  · rw [beBytes_length_eq i 1 (by decide) (by rw [p0]; exact h0) (by rw [p1]; exact c1)]
    simp only [c1, if_true, if_false]
  ·
    by_cases c2 : i < 65536
    · rw [beBytes_length_eq i 2 (by decide) (by rw [p1]; exact Nat.le_of_not_lt c1) (by rw [p2]; exact c2)]
      simp only [c1, c2, if_true, if_false]
    ·
      by_cases c3 : i < 16777216
      · rw [beBytes_length_eq i 3 (by decide) (by rw [p2]; exact Nat.le_of_not_lt c2) (by rw [p3]; exact c3)]
        simp only [c1, c2, c3, if_true, if_false]
      ·
        by_cases c4 : i < 4294967296
        · rw [beBytes_length_eq i 4 (by decide) (by rw [p3]; exact Nat.le_of_not_lt c3) (by rw [p4]; exact c4)]
          simp only [c1, c2, c3, c4, if_true, if_false]
        ·
          by_cases c5 : i < 1099511627776
          · rw [beBytes_length_eq i 5 (by decide) (by rw [p4]; exact Nat.le_of_not_lt c4) (by rw [p5]; exact c5)]
            simp only [c1, c2, c3, c4, c5, if_true, if_false]
          ·
            by_cases c6 : i < 281474976710656
            · rw [beBytes_length_eq i 6 (by decide) (by rw [p5]; exact Nat.le_of_not_lt c5) (by rw [p6]; exact c6)]
              simp only [c1, c2, c3, c4, c5, c6, if_true, if_false]
            ·
              by_cases c7 : i < 72057594037927936
              · rw [beBytes_length_eq i 7 (by decide) (by rw [p6]; exact Nat.le_of_not_lt c6) (by rw [p7]; exact c7)]
                simp only [c1, c2, c3, c4, c5, c6, c7, if_true, if_false]
              · rw [beBytes_length_eq i 8 (by decide) (by rw [p7]; exact Nat.le_of_not_lt c7) h]
                simp only [c1, c2, c3, c4, c5, c6, c7, if_false]

/-- a single byte `≤ 0x7F` is written without a header (`enc (.str [b])`) -/
theorem enc_single_byte_gen (b : UInt8) :
    enc (.str [b]) = if Gen.C16.writeBytesSingle (Int.ofNat [b].length) b.toNat then [b] else header 128 1 ++ [b] := by
  unfold Gen.C16.writeBytesSingle
  have : (b.toNat ≤ 127) ↔ b.toNat < 128 := by omega
  simp [enc, this]

/-- `writeUint64`: 0 is the empty string, values below 128 are single bytes (`encNat`) -/
theorem gen_writeUint_tests (i : Nat) :
    Gen.C16.writeUintZero i = decide (i = 0) ∧ Gen.C16.writeUintSingle i = decide (i < 128) := ⟨rfl, rfl⟩

end KV.Rlp.GenBridge
