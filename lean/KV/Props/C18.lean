import KV.Model.BitArray
import KV.Model.MsgValid
import KV.Proofs.BitArray
/-!
# C18 — no message from a peer can crash the node (proved part)

What is proved here removes the *arithmetic* causes of a crash: every `BitArray` operation is defined
(no slice access out of range) and returns a well-formed array for all well-formed operands of any,
possibly different, sizes; whatever `(Bits, Elems)` arrive from the wire, `FromProto` yields a well-formed
array; the operations compute the set-theoretic results; a message accepted by the `ValidateBasic`
predicates has its sizes within the caps. "No Go handler panics" as a whole is NOT a theorem: it is
searched for by the fuzz harness (`harness/overlay/consensus/c18_test.go` and the other reactors).

Counterexample theorems document the defects found: F15 (fixed, stated about the `…Old` variants), F18
(open: `proposal_total_unbounded`), and two latent ones (`isFull_empty_oob`, `getIndex_negative_oob`).
-/
namespace KV.C18
open KV.BitArr KV.MsgValid

/-! ## (1) totality and well-formedness, for all sizes -/

/-- Every operation of `lib/common/bit_array.go` on well-formed operands of ANY sizes (equal or not) is
defined — no Go slice access is out of range — and returns a well-formed array. `IsFull` needs at least
one word (see `isFull_empty_oob`); indices are non-negative (see `getIndex_negative_oob`). -/
theorem bitarray_total (a b : BitArray) (ha : WF a) (hb : WF b) :
    (∀ i : Nat, getIndex a i = some (bitAt a i)) ∧
    (∀ (i : Nat) (v : Bool), ∃ a', setIndex a i v = some (a', decide (i < a.bits)) ∧ WF a' ∧ a'.bits = a.bits) ∧
    WF (copy a) ∧ (∀ n, WF (copyBits a n)) ∧
    (∃ c, or (some a) (some b) = some (some c) ∧ WF c ∧ c.bits = max a.bits b.bits) ∧
    (∃ c, and a b = some c ∧ WF c ∧ c.bits = min a.bits b.bits) ∧
    (WF (not a) ∧ (not a).bits = a.bits) ∧
    (∃ c, sub a b = some c ∧ WF c ∧ c.bits = a.bits) ∧
    (WF (update a b) ∧ (update a b).bits = a.bits) ∧
    (0 < a.bits → ∃ v, isFull a = some v) ∧
    (∀ start rb, ∃ r, pickRandom a start rb = some r) ∧
    stringDefined a = true := by
  refine ⟨fun i => getIndex_nat a i ha, ?_, wf_copy ha, wf_copyBits a, ?_, ?_, ⟨wf_not ha, rfl⟩, ?_,
    ⟨wf_update b ha, rfl⟩, ?_, ?_, ?_⟩
  · intro i v
    obtain ⟨a', h1, h2, h3, _⟩ := setIndex_nat a i v ha
    exact ⟨a', h1, by simp only [WF] at *; rw [h3, h2]; exact ha, h2⟩
  · obtain ⟨c, h1, h2, h3, _⟩ := or_spec a b ha hb; exact ⟨c, h1, h3, h2⟩
  · obtain ⟨c, h1, h2, h3, _⟩ := and_spec a b ha hb; exact ⟨c, h1, h3, h2⟩
  · obtain ⟨c, h1, h2, h3, _⟩ := sub_spec a b ha hb; exact ⟨c, h1, h3, h2⟩
  · intro hpos
    have hl : a.elems ≠ [] := by
      intro e
      have : a.elems.length = 0 := by rw [e]; rfl
      simp only [WF, nwords] at ha; omega
    unfold isFull
    cases hgl : a.elems.getLast? with
    | none => exact absurd (List.getLast?_eq_none_iff.1 hgl) hl
    | some last => simp only []; split <;> exact ⟨_, rfl⟩
  · intro s rb
    obtain ⟨r, h, _⟩ := pickRandom_spec a ha s rb; exact ⟨r, h⟩
  · simp only [stringDefined, List.all_eq_true, List.mem_range]
    intro i _
    rw [getIndex_nat a i ha]; rfl

/-- nil receivers / arguments never index anything -/
theorem bitarray_total_nil (p : Ptr) :
    or none p = some (copyP p) ∧ or p none = some (copyP p) ∧ andP none p = some none ∧
    andP p none = some none ∧ subP none p = some none ∧ subP p none = some none ∧
    getIndexP none 5 = some false ∧ isFullP none = some true ∧ updateP none p = none := by
  cases p <;> simp [BitArr.or, copyP, andP, subP, getIndexP, isFullP, updateP]

/-! ## (2) set-theoretic specifications, bit level -/

/-- `Or`: stored bit `i` of the result is `a_i ∨ b_i` for every `i` (size = the larger size). -/
theorem or_spec (a b : BitArray) (ha : WF a) (hb : WF b) :
    ∃ c, or (some a) (some b) = some (some c) ∧ c.bits = max a.bits b.bits ∧
      ∀ i, rawBit c i = (rawBit a i || rawBit b i) := by
  obtain ⟨c, h1, h2, _, h4⟩ := KV.BitArr.or_spec a b ha hb; exact ⟨c, h1, h2, h4⟩

/-- `Or` seen through `GetIndex`, for arrays without straggler bits beyond `Bits`. (With stragglers — what
`Not()` leaves, or what a peer may send — a straggler of the shorter operand becomes a visible bit of the
result: the Go code does not mask; this cannot crash anything, it only over-approximates "has".) -/
theorem or_spec_clean (a b : BitArray) (ha : WF a) (hb : WF b) (ca : Clean a) (cb : Clean b) :
    ∃ c, or (some a) (some b) = some (some c) ∧
      ∀ i, i < max a.bits b.bits → bitAt c i = (bitAt a i || bitAt b i) := by
  obtain ⟨c, h1, h2, _, h4⟩ := KV.BitArr.or_spec a b ha hb
  refine ⟨c, h1, ?_⟩
  intro i hi
  simp only [bitAt, h2, hi, decide_true, Bool.true_and, h4]
  by_cases h1 : i < a.bits <;> by_cases h2 : i < b.bits <;>
    simp [h1, h2, ca i, cb i, Nat.le_of_not_lt, *]

/-- `And`: bit `i` of the result is `a_i ∧ b_i` for `i` below the smaller size. -/
theorem and_spec (a b : BitArray) (ha : WF a) (hb : WF b) :
    ∃ c, and a b = some c ∧ c.bits = min a.bits b.bits ∧
      ∀ i, i < min a.bits b.bits → bitAt c i = (bitAt a i && bitAt b i) := by
  obtain ⟨c, h1, h2, _, h4⟩ := KV.BitArr.and_spec a b ha hb
  refine ⟨c, h1, h2, ?_⟩
  intro i hi
  have : i / 64 < nwords (min a.bits b.bits) := lt_nwords hi
  have h5 : i < a.bits := by omega
  have h6 : i < b.bits := by omega
  simp [bitAt, h2, hi, h4, this, h5, h6]

/-- `Sub`: bit `i` of the result is `a_i ∧ ¬b_i` for every `i < a.bits`, missing bits of `b` counting as 0;
the result has the receiver's size. -/
theorem sub_spec (a b : BitArray) (ha : WF a) (hb : WF b) :
    ∃ c, sub a b = some c ∧ c.bits = a.bits ∧
      ∀ i, i < a.bits → bitAt c i = (bitAt a i && !bitAt b i) := by
  obtain ⟨c, h1, h2, _, h4⟩ := KV.BitArr.sub_spec a b ha hb; exact ⟨c, h1, h2, h4⟩

/-- `Not` -/
theorem not_spec (a : BitArray) (ha : WF a) :
    ∀ i, i < a.bits → bitAt (not a) i = !bitAt a i := (KV.BitArr.not_spec a ha).2.2

/-- `Update` copies the common words and keeps the receiver's size; for equal sizes the receiver becomes
the argument. -/
theorem update_spec (a b : BitArray) (ha : WF a) (hb : WF b) :
    (∀ i, rawBit (update a b) i = if i / 64 < min a.elems.length b.elems.length then rawBit b i else rawBit a i) ∧
    (a.bits = b.bits → ∀ i, bitAt (update a b) i = bitAt b i) := by
  refine ⟨rawBit_update a b, ?_⟩
  intro he i
  have hl : a.elems.length = b.elems.length := by rw [ha, hb, he]
  simp only [bitAt, rawBit_update, hl, Nat.min_self]
  show (decide (i < a.bits) && _) = _
  rw [he]
  by_cases hi : i < b.bits
  · have : i / 64 < b.elems.length := by rw [hb]; exact lt_nwords hi
    simp [this]
  · simp [hi]

/-- `SetIndex` changes exactly bit `i` -/
theorem setIndex_spec (a : BitArray) (i : Nat) (v : Bool) (ha : WF a) (hi : i < a.bits) :
    ∃ a', setIndex a i v = some (a', true) ∧
      ∀ j, bitAt a' j = if j = i then v else bitAt a j := by
  obtain ⟨a', h1, h2, _, h4⟩ := setIndex_nat a i v ha
  refine ⟨a', by simpa [hi] using h1, ?_⟩
  intro j
  simp only [bitAt, h2, h4, hi, and_true]
  by_cases hj : j = i
  · subst hj; simp [hi]
  · simp [hj]

/-- `PickRandom`, whatever the random choices: a returned index is inside the array and its bit is set;
"nothing" is reported as `(0, false)`. -/
theorem pickRandom_sound (a : BitArray) (ha : WF a) (start : Nat) (rb : Nat → Nat) :
    ∃ r, pickRandom a start rb = some r ∧
      (r.2 = true → r.1 < a.bits ∧ bitAt a r.1 = true) ∧ (r.2 = false → r.1 = 0) := by
  obtain ⟨r, h1, h2, h3⟩ := pickRandom_spec a ha start rb
  refine ⟨r, h1, ?_, h3⟩
  intro h
  obtain ⟨h4, h5⟩ := h2 h
  exact ⟨h4, by simp [bitAt, h4, h5]⟩

/-- what the gossip routines do (`votes.BitArray().Sub(psVotes).PickRandom()` then `votes.GetByIndex(idx)`,
`rs.ProposalBlockParts.BitArray().Sub(prs.ProposalBlockParts.Copy()).PickRandom()` then `GetPart(idx)`):
the picked index is inside OUR array and is a bit we have and the peer's array does not show — whatever the
size and content of the peer's (well-formed) array. -/
theorem sub_pick_in_range (ours peer : BitArray) (ho : WF ours) (hp : WF peer) (start : Nat) (rb : Nat → Nat) :
    ∃ d r, sub ours peer = some d ∧ pickRandom d start rb = some r ∧
      (r.2 = true → r.1 < ours.bits ∧ bitAt ours r.1 = true ∧ bitAt peer r.1 = false) := by
  obtain ⟨d, h1, h2, h3, h4⟩ := KV.BitArr.sub_spec ours peer ho hp
  obtain ⟨r, h5, h6, _⟩ := pickRandom_sound d h3 start rb
  refine ⟨d, r, h1, h5, ?_⟩
  intro h
  obtain ⟨h7, h8⟩ := h6 h
  rw [h2] at h7
  have := h4 r.1 h7
  rw [h8] at this
  simp at this
  exact ⟨h7, this.1.symm ▸ rfl, by simpa using this.2⟩

/-! ## (3) arrays from the wire -/

/-- Whatever `(Bits, Elems)` arrive, the decoded array is well-formed, so (1) and (2) apply to
peer-supplied arrays. -/
theorem fromProto_wellformed (w : Wire) : WF (fromProto w) := by
  unfold fromProto
  split
  · simp [WF, nwords]
  · rename_i bits elems
    simp only []
    split
    · simp [WF, nwords]
    · rename_i h
      simp only [not_or, Int.not_lt, Decidable.not_not] at h
      simp only [WF, nwords]
      omega

/-- a consistent wire value is accepted unchanged; an inconsistent one decodes to the empty array -/
theorem fromProto_consistent (bits : Nat) (elems : List Word) :
    fromProto (some ((bits : Int), elems)) =
      if elems.length = nwords bits then ⟨bits, elems⟩ else ⟨0, []⟩ := by
  unfold fromProto nwords
  simp only []
  split
  · rename_i hc; rw [if_neg (by omega)]
  · rename_i hc; rw [if_pos (by omega)]; simp

/-- encode/decode round trip of a well-formed non-empty array (the `ToProto` of an array without words is
`nil`, which decodes to the empty array) -/
theorem toProto_fromProto (a : BitArray) (ha : WF a) :
    fromProto (toProto (some a)) = if a.elems.length = 0 then ⟨0, []⟩ else a := by
  unfold toProto
  by_cases h : a.elems.length = 0
  · simp [h, fromProto]
  · simp only [h, if_false]
    rw [fromProto_consistent]
    simp [show a.elems.length = nwords a.bits from ha]

/-! ## counterexamples: the code as found (F15, fixed by ff4c611) and two latent holes -/

/-- F15a: the old `Or` indexed the shorter argument out of range: `{…130 bits…}.Or({1 bit})` panicked. -/
theorem or_oob_counterexample :
    WF ⟨130, [0, 2, 3]⟩ ∧ WF ⟨1, [1]⟩ ∧
    orOld (some ⟨130, [0, 2, 3]⟩) (some ⟨1, [1]⟩) = none ∧
    or (some ⟨130, [0, 2, 3]⟩) (some ⟨1, [1]⟩) = some (some ⟨130, [1, 2, 3]⟩) := by
  decide

/-- F15b: the old `Sub` with a longer receiver cleared whole words: `{1,65,129} − {65}` gave `{129}`;
the fixed code gives `{1,129}`. -/
theorem sub_wrong_counterexample :
    subOld ⟨130, [2, 2, 2]⟩ ⟨66, [0, 2]⟩ = some ⟨130, [0, 0, 2]⟩ ∧
    sub ⟨130, [2, 2, 2]⟩ ⟨66, [0, 2]⟩ = some ⟨130, [2, 0, 2]⟩ := by
  decide

/-- F15c: the old `FromProto` accepted `Bits` inconsistent with `len(Elems)` (and negative `Bits`); the next
`GetIndex` then indexed out of range. The fixed decoder yields the empty array. -/
theorem fromProto_inconsistent_counterexample :
    ¬ WF (fromProtoOld (some (1000, [1]))) ∧
    getIndex (fromProtoOld (some (1000, [1]))) 500 = none ∧
    (fromProtoOld (some (-1, []))).bits = 2 ^ 64 - 1 ∧
    getIndex (fromProtoOld (some (-1, []))) 0 = none ∧
    fromProto (some (1000, [1])) = ⟨0, []⟩ ∧ fromProto (some (-1, [])) = ⟨0, []⟩ := by
  decide

/-- latent: `IsFull` on a non-nil array without words (the result of decoding an inconsistent or empty wire
value) slices `Elems[:-1]`. No caller in the node (grep), so not reachable from a peer today. -/
theorem isFull_empty_oob : WF (fromProto (some (-1, [1]))) ∧ isFull (fromProto (some (-1, [1]))) = none := by
  decide

/-- latent: a negative index `≤ -64` passes `i >= int(bA.Bits)` and indexes `Elems[i/64]` with a negative
number. All peer-supplied indices are unsigned (`uint32`) in this code base, converted with `int(…)`. -/
theorem getIndex_negative_oob (a : BitArray) (i : Int) (h : i ≤ -64) : getIndex a i = none :=
  getIndex_neg_oob a i h

/-! ## (4) validated messages are bounded -/

/-- A message that came off the wire and passed the `ValidateBasic` predicates has every size the handlers
rely on within the caps, and its bit arrays are well-formed (so `bitarray_total` applies to them). -/
theorem valid_implies_bounded (m : Msg) (hd : Decoded m) (hv : valid m = true) : Bounded m := by
  cases m with
  | newRoundStep h r s t l => simpa [valid, Bounded] using hv
  | newValidBlock h r hdr parts c =>
    obtain ⟨w, rfl⟩ := hd
    have hw := fromProto_wellformed w
    simp [valid, decodeBits] at hv
    have hcap := of_decide_eq_true hv.2
    simp only [Bounded, decodeBits]
    refine ⟨hw, by omega, hv.1.2, hcap, ?_⟩
    simp only [WF, nwords] at hw
    simp only [MaxBlockPartsCount, MaxBlockSizeBytes, BlockPartSizeBytes] at hcap
    omega
  | proposal => trivial
  | proposalPOL h r pol =>
    obtain ⟨w, rfl⟩ := hd
    simp only [valid, bne_iff_ne, ne_eq] at hv
    exact ⟨fromProto_wellformed w, by omega⟩
  | blockPart h r i n => simpa [valid, Bounded] using hv
  | vote t h r b i s =>
    simp only [valid, voteTypeValid, Bool.and_eq_true, Bool.or_eq_true, beq_iff_eq] at hv
    exact hv.1.1.1
  | hasVote h r t i => simpa [valid, voteTypeValid, Bounded] using hv
  | voteSetMaj23 h r t b =>
    simp only [valid, voteTypeValid, Bool.and_eq_true, Bool.or_eq_true, beq_iff_eq] at hv
    exact hv.1
  | voteSetBits h r t b votes =>
    obtain ⟨w, rfl⟩ := hd
    have hw := fromProto_wellformed w
    simp only [valid, voteTypeValid, Bool.and_eq_true, Bool.or_eq_true, beq_iff_eq, decide_eq_true_eq,
      decodeBits] at hv
    have hcap := of_decide_eq_true hv.2
    refine ⟨hv.1.1, hw, hcap, ?_⟩
    simp only [WF, nwords] at hw
    simp only [decodeBits, MaxVotesCount] at *
    omega

/-- F18 (open): a valid `ProposalMessage` bounds nothing. `PartsHeader.Total` is a `uint32` straight from
the wire; `SetHasProposal` allocates `NewBitArray(int(Total))`: `2^26` words = 512 MiB for one ~100-byte
message. -/
theorem proposal_total_unbounded :
    valid (.proposal 1 0 0 ⟨false, ⟨2 ^ 32 - 1, false⟩⟩ 64) = true ∧
    setHasProposalWords (.proposal 1 0 0 ⟨false, ⟨2 ^ 32 - 1, false⟩⟩ 64) = 2 ^ 26 ∧
    2 ^ 26 * 8 = 512 * 1024 * 1024 := by
  decide

/-- `ApplyVoteSetBitsMessage`: `votes.Update(votes.Sub(ourVotes).Or(msg.Votes))` is defined and keeps the
size of the peer-state array, whatever the sizes of our array and of the (validated) message array. -/
theorem applyVoteSetBits_total (votes ours msg : BitArray) (hv : WF votes) (ho : WF ours) (hm : WF msg) :
    ∃ r, applyVoteSetBits votes ours msg = some r ∧ WF r ∧ r.bits = votes.bits := by
  obtain ⟨d, h1, _, h3, _⟩ := KV.BitArr.sub_spec votes ours hv ho
  obtain ⟨h, h5, _, _, _⟩ := KV.BitArr.or_spec d msg h3 hm
  exact ⟨update votes h, by simp only [applyVoteSetBits, h1, h5], wf_update h hv, rfl⟩

/-! ## non-vacuity -/
example : WF ⟨130, [2, 2, 2]⟩ ∧ WF ⟨66, [0, 2]⟩ ∧ WF ⟨0, []⟩ ∧ ¬ WF ⟨100, [1]⟩ := by decide
example : Clean ⟨64, [5]⟩ := by
  intro i hi
  have : [(5 : Word)][i / 64]? = none := List.getElem?_eq_none (by simp at hi ⊢; omega)
  simp [rawBit, this]
example : valid (.voteSetBits 5 0 2 ⟨false, ⟨1, false⟩⟩ (decodeBits (some (4, [9])))) = true ∧
    Decoded (.voteSetBits 5 0 2 ⟨false, ⟨1, false⟩⟩ (decodeBits (some (4, [9])))) :=
  ⟨by decide, ⟨_, rfl⟩⟩
example : valid (.newValidBlock 5 0 ⟨3, false⟩ (decodeBits (some (3, [5]))) false) = true := by decide
/-- the cap bites: a (consistent) array of 10001 bits is rejected -/
example (ws : List Word) (h : ws.length = 157) :
    valid (.voteSetBits 5 0 2 ⟨false, ⟨1, false⟩⟩ (decodeBits (some (10001, ws)))) = false := by
  have := fromProto_consistent 10001 ws
  simp only [nwords, h, if_true] at this
  have e : ((10001 : Nat) : Int) = 10001 := rfl
  rw [e] at this
  simp [valid, decodeBits, this, MaxVotesCount]
example : pickRandom ⟨70, [0, 32]⟩ 0 (fun _ => 0) = some (69, true) := by rfl
example : pickRandom ⟨70, [0, 64]⟩ 0 (fun _ => 0) = some (0, false) := by rfl

end KV.C18
