import KV.Gen.C10
import KV.Model.Evm
/-!
# C10 — bridge between the regenerated jump tables (tie T1) and the model's table

`KV/Gen/C10.lean` is re-extracted on every check run from `kvm/instruction_set.go` (both
instruction sets the interpreter can select, built by abstractly interpreting the constructors and
the EIP enablers), `kvm/stack_table.go` (`minStack`/`maxStack`/dup/swap helpers, translated, not
hard-coded), `kvm/gas.go`, `kvm/memory.go` and the gas constants.  The theorems below state that
for every opcode the model `KV.Evm` interprets, the model's table entry — on which
`KV/Props/C10.lean` proves the stack bound, termination, static-mode and revert theorems — carries
the same constant gas, stack bounds and flags as the entry the source has now; and that the limits
and the memory-cost arithmetic are the source's.
-/
namespace KV.Evm.GenBridge
open KV

/-- does the model's entry for opcode `n` agree with the regenerated entry? (opcodes the model
does not interpret are not constrained: the model answers `unsupported` for them) -/
def agree (post : Bool) (n : Nat) : Bool :=
  match Evm.opInfoN post n with
  | none => true
  | some m =>
    let g := ((if post then Gen.C10.v2InstructionSet else Gen.C10.v1InstructionSet).getD n
                (Gen.C10.OpInfo.undefined n))
    g.defined && g.op == n && g.constantGas == m.gas &&
      g.minStack == (m.minStack : Int) && g.maxStack == (m.maxStack : Int) &&
      g.hasDynamicGas == m.dyn && g.hasMemorySize == m.memsz &&
      g.halts == m.halts && g.jumps == m.jumps && g.writes == m.writes &&
      g.reverts == m.reverts && g.returns == m.returns

theorem gen_table_pre_agrees : (List.range 256).all (agree false) = true := by decide +kernel

theorem gen_table_post_agrees : (List.range 256).all (agree true) = true := by decide +kernel

/-- per-opcode form -/
theorem gen_table_agrees (post : Bool) (n : Nat) (h : n < 256) : agree post n = true := by
  have hm : n ∈ List.range 256 := List.mem_range.mpr h
  cases post with
  | false => exact List.all_eq_true.mp gen_table_pre_agrees n hm
  | true => exact List.all_eq_true.mp gen_table_post_agrees n hm

theorem gen_tables_full : Gen.C10.v1InstructionSet.length = 256 ∧ Gen.C10.v2InstructionSet.length = 256 := by
  decide +kernel

/-- `toWordSize` (kvm/utils.go) for every 64-bit size -/
theorem gen_toWordSize_eq (size : Nat) (h : size < 2 ^ 64) :
    Gen.C10.toWordSize size = Evm.toWordSize size := by
  unfold Gen.C10.toWordSize Evm.toWordSize Evm.U64
  by_cases hbig : size > 18446744073709551584
  · have : size > 2 ^ 64 - 1 - 31 := by omega
    simp [hbig, this]
  · have : ¬ size > 2 ^ 64 - 1 - 31 := by omega
    simp only [hbig, this, if_false]
    unfold U64.div U64.add U64.modulus
    have : (size + 31) % 18446744073709551616 = size + 31 := by omega
    rw [this]

/-- `memoryGasCost` (kvm/gas.go): fee and new `lastGasCost` as the model computes them, for every
memory size the function accepts and a consistent memory state (`lastCost ≤` the new total, which
the interpreter maintains because the cost is monotone in the size) -/
theorem gen_memoryGasCost_eq (memLen lastCost newMemSize : Nat) (hm : memLen < 2 ^ 64)
    (hl : lastCost < 2 ^ 64) :
    (match Evm.memoryGasCost memLen lastCost newMemSize with
     | none => (Gen.C10.memoryGasCost newMemSize (memLen : Int) lastCost).2 = true
     | some (fee, _) =>
        (Gen.C10.memoryGasCost newMemSize (memLen : Int) lastCost).2 = false ∧
        (lastCost ≤ Evm.toWordSize newMemSize * 3 + Evm.toWordSize newMemSize * Evm.toWordSize newMemSize / 512 →
          (Gen.C10.memoryGasCost newMemSize (memLen : Int) lastCost).1 = fee)) := by
  unfold Evm.memoryGasCost Gen.C10.memoryGasCost
  by_cases h0 : newMemSize = 0
  · simp [h0]
  · simp only [h0, if_false]
    by_cases hbig : newMemSize > 137438953440
    · have : newMemSize > 0x1FFFFFFFE0 := by omega
      simp [hbig, this]
    · have hnb : ¬ newMemSize > 0x1FFFFFFFE0 := by omega
      simp only [hbig, hnb, if_false]
      have hsz : newMemSize < 2 ^ 64 := by omega
      rw [gen_toWordSize_eq newMemSize hsz]
      have hw : Evm.toWordSize newMemSize ≤ 4294967295 := by
        unfold Evm.toWordSize Evm.U64
        have : ¬ newMemSize > 2 ^ 64 - 1 - 31 := by omega
        simp only [this, if_false]
        omega
      generalize Evm.toWordSize newMemSize = w at hw ⊢
      have e1 : U64.mul w 32 = w * 32 := by unfold U64.mul U64.modulus; omega
      have e2 : U64.wrap (memLen : Int) = memLen := by unfold U64.wrap; omega
      have hsq : w * w ≤ 4294967295 * 4294967295 := Nat.mul_le_mul hw hw
      have e3 : U64.mul w w = w * w := by unfold U64.mul U64.modulus; omega
      have e4 : U64.mul w 3 = w * 3 := by unfold U64.mul U64.modulus; omega
      have e5 : U64.div (w * w) 512 = w * w / 512 := by unfold U64.div; rfl
      have e6 : U64.add (w * 3) (w * w / 512) = w * 3 + w * w / 512 := by
        unfold U64.add U64.modulus
        have : w * w / 512 ≤ 4294967295 * 4294967295 / 512 := Nat.div_le_div_right hsq
        omega
      simp only [e1, e2, e3, e4, e5, e6]
      by_cases hgt : w * 32 > memLen
      · simp only [hgt, if_true]
        refine ⟨trivial, ?_⟩
        intro hle
        unfold U64.sub U64.wrap
        omega
      · simp only [hgt, if_false]
        exact ⟨trivial, fun _ => trivial⟩

theorem gen_limits : Gen.C10.StackLimit = 1024 ∧ Gen.C10.CallCreateDepth = 1024 := by decide

end KV.Evm.GenBridge
