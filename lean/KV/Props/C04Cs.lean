import KV.Props.C03
import KV.Proofs.CsProgress3
/-!
# C04 (part) — local progress invariants of the node model `Cs`

Liveness itself is not proved (see `KV/Props/C04.lean`).  Here: the facts about ONE node on which
progress rests, for **every** input sequence (arbitrary Byzantine proposals / blocks / votes, any
order; timeouts under the same hypothesis `Sane` as C03: not from the future of the current round,
which holds for every timeout the node scheduled).

Reachable states are `run cfg (start cfg h0) inputs`, where `start` is `NewConsensusState` followed
by `OnStart`'s `scheduleRound0` (the model's `init` has nothing scheduled yet).

1. `timeout_pending` — the node never waits for time without an armed timer (`TP`).
   `enterPrecommitWait` does not change the step in this code base: the PrecommitWait wait is
   `TriggeredTimeoutPrecommit` (`ttp`), and `step ≠ PrecommitWait` in every reachable state.
   With `IsCreateEmptyBlocks = false` (`waitTxs ∧ ¬emptyInterval`) the node waits in `NewRound`
   of round 1 *without* a timer — that is what the Go code does (it waits for transactions).
2. `no_quorum_stall` — stated exactly as `addVote` / `addProposalBlockPart` / `enterCommit`
   guarantee it, i.e. as post-conditions of the input that completes the quorum:
   `no_prevote_stall` (+ `no_prevote_stall_branch`), `no_precommit_stall_branch`,
   `no_commit_stall_enterCommit`, `no_commit_stall_block`.
   The naive *state* invariant "never in Prevote with +2/3 any" is false
   (`prevote_state_invariant_counterexample`): prevotes that arrive during Propose are only acted
   upon when the next prevote of the round is added — normally the node's own, which sits in its
   internal queue.  The state forms are kept as `…Statement`.
3. `timeout_makes_progress` — firing the pending timeout of the current step strictly increases
   (round, step, ttp) (or the PrecommitWait timeout moves to the next round).
4. `round_skip_prevotes`, `round_skip_precommits`.
-/
namespace KV.Props.C04Cs
open KV.Cs KV.Props.C03

/-- `NewConsensusState` at height `h`, then `OnStart`: `scheduleRound0` -/
def start (cfg : Config) (h : Nat) : State := schedule h 1 .newHeight (init cfg h)

theorem start_inv (cfg : Config) (h : Nat) : Inv cfg (start cfg h) :=
  (init_inv cfg h).schedule h 1 .newHeight (by unfold le3; exact Or.inr ⟨rfl, Or.inr ⟨rfl, Nat.le_refl _⟩⟩)

theorem start_tp (cfg : Config) (h : Nat) : TP cfg (start cfg h) := by
  refine ⟨?_, ?_, ?_, ?_, ?_, ?_, Nat.le_refl 1⟩
  · intro _; exact ⟨rfl, List.mem_cons_self ..⟩
  · intro hc; cases hc
  · intro hc; cases hc
  · intro hc; cases hc
  · intro hc; cases hc
  · intro hc; cases hc

theorem run_tp {cfg : Config} : ∀ (inputs : List (Option Nat × Input)) (σ : State), TP cfg σ → Sane cfg σ inputs →
    TP cfg (run cfg σ inputs)
  | [], _, T, _ => T
  | (nb, i) :: rest, _, T, hs => run_tp rest _ (step_tp T nb i hs.1) hs.2

/-- **(1) timeout_pending.** In every reachable state: in `NewHeight`, `Propose`, `PrevoteWait`
(and `NewRound` when an empty-block interval is configured) the timeout for exactly the current
(height, round, step) was handed to the ticker; when `TriggeredTimeoutPrecommit` is set the
`PrecommitWait` timeout of the current (height, round) was; the step is never `PrecommitWait`;
`NewRound` is only a resting step in round 1 when the node waits for transactions. -/
theorem timeout_pending (cfg : Config) (h0 : Nat) (inputs : List (Option Nat × Input))
    (hs : Sane cfg (start cfg h0) inputs) : TP cfg (run cfg (start cfg h0) inputs) :=
  run_tp inputs _ (start_tp cfg h0) hs

/-- (1) for runs whose timeouts are the scheduled ones -/
theorem timeout_pending_scheduled (cfg : Config) (h0 : Nat) (inputs : List (Option Nat × Input))
    (hs : Scheduled cfg (start cfg h0) inputs) : TP cfg (run cfg (start cfg h0) inputs) :=
  timeout_pending cfg h0 inputs (scheduled_ok inputs _ (start_inv cfg h0) hs)

/-! ### (2) no_quorum_stall -/

/-- what `addVote` does with a vote: nothing, only `HeightVoteSet` bookkeeping (vote not added), or
the vote is stored (`σ2`, same position as `σ`) and the branch of its type runs -/
theorem vote_accepted_branch (cfg : Config) (nb : Option Nat) (peer idx : Nat) (t : VType) (h r : Nat) (tgt : Target)
    (sigok : Bool) (σ : State) :
    addVote cfg nb peer idx t h r tgt sigok σ = σ ∨
    (∃ σ1, ensureRound cfg peer r σ = some σ1 ∧ addVote cfg nb peer idx t h r tgt sigok σ = σ1) ∨
    (h = σ.height ∧ ∃ σ2 : State, σ2.height = σ.height ∧ σ2.round = σ.round ∧ σ2.step = σ.step ∧ σ2.ttp = σ.ttp ∧
      σ2.sched = σ.sched ∧ σ2.added = true ∧
      addVote cfg nb peer idx t h r tgt sigok σ =
        (match t with
         | .prevote => afterPrevote cfg nb r σ2
         | .precommit => afterPrecommit cfg nb r σ2)) :=
  addVote_accepted cfg nb peer idx t h r tgt sigok σ

/-- **no_quorum_stall, prevote (branch form).** `σ` already holds the vote; the node is in step
Prevote and the prevote set of its round has +2/3 any.  Then it precommits, or it moves to
PrevoteWait *with the timeout scheduled* — in particular in the case "+2/3 for a block but the
proposal is incomplete", which falls through to `enterPrevoteWait`. -/
theorem no_prevote_stall_branch (cfg : Config) (nb : Option Nat) (σ : State) (hs : σ.step = .prevote)
    (hany : hasAny cfg.powers (σ.slots .prevote σ.height σ.round) = true) :
    (afterPrevote cfg nb σ.round σ).height = σ.height ∧ (afterPrevote cfg nb σ.round σ).round = σ.round ∧
    (((afterPrevote cfg nb σ.round σ).step = .prevoteWait ∧
        (σ.height, σ.round, Step.prevoteWait) ∈ (afterPrevote cfg nb σ.round σ).sched) ∨
      (afterPrevote cfg nb σ.round σ).step = .precommit) := by
  have := afterPrevote_leaves_prevote cfg nb σ hs hany
  exact ⟨this.1, this.2.1, this.2.2.2⟩

/-- **no_quorum_stall, prevote (input form).** A node in step Prevote that *adds* a prevote of
its own round is afterwards not in Prevote with +2/3 any: it is in Precommit, or in PrevoteWait
with the timeout scheduled. -/
theorem no_prevote_stall (cfg : Config) (nb : Option Nat) (σ : State) (peer idx : Nat) (tgt : Target) (sigok : Bool)
    (hh : σ.halted = false) (hs : σ.step = .prevote) :
    let σ' := step cfg σ nb (.vote peer idx .prevote σ.height σ.round tgt sigok)
    σ'.added = true →
    hasAny cfg.powers (σ'.slots .prevote σ'.height σ'.round) = true →
    (σ'.step = .prevoteWait ∧ (σ'.height, σ'.round, Step.prevoteWait) ∈ σ'.sched) ∨ σ'.step = .precommit := by
  intro σ' hadd hany
  have hσ' : σ' = addVote cfg nb peer idx .prevote σ.height σ.round tgt sigok { σ with added := false } := by
    show step cfg σ nb _ = _
    unfold step
    rw [if_neg (by simp [hh])]
  rcases addVote_accepted cfg nb peer idx .prevote σ.height σ.round tgt sigok { σ with added := false } with h | h | h
  · rw [hσ', h] at hadd; cases hadd
  · obtain ⟨σ1, he, h⟩ := h
    have : σ1.added = false := by
      unfold ensureRound at he
      split at he
      · cases he; rfl
      · split at he
        · cases he; rfl
        · cases he
    rw [hσ', h, this] at hadd; cases hadd
  · obtain ⟨-, σ2, e1, e2, e3, -, -, -, h⟩ := h
    simp only at h e1 e2 e3
    have hs2 : σ2.step = .prevote := by rw [e3]; exact hs
    have hσ2 : σ' = afterPrevote cfg nb σ2.round σ2 := by rw [hσ', h, e2]
    obtain ⟨v1, v2, v3⟩ := afterPrevote_same_round cfg nb σ2 hs2
    have hany2 : hasAny cfg.powers (σ2.slots .prevote σ2.height σ2.round) = true := by
      have : σ'.slots .prevote σ'.height σ'.round = σ2.slots .prevote σ2.height σ2.round := by
        rw [hσ2]; unfold State.slots; rw [v1, v2, v3]
      rw [← this]; exact hany
    have := afterPrevote_leaves_prevote cfg nb σ2 hs2 hany2
    simp only at this
    rw [hσ2, v2, v3]
    exact this.2.2.2

/-- **no_quorum_stall, precommit (branch form).** `σ` already holds the vote and the precommit set
of the node's round has +2/3 any.  Afterwards `TriggeredTimeoutPrecommit` is set (so, by
`timeout_pending`, the PrecommitWait timeout is scheduled), or the node is in Commit, or at the
next height. -/
theorem no_precommit_stall_branch (cfg : Config) (nb : Option Nat) (σ : State)
    (hany : hasAny cfg.powers (σ.slots .precommit σ.height σ.round) = true) :
    ((afterPrecommit cfg nb σ.round σ).ttp = true ∧ (afterPrecommit cfg nb σ.round σ).height = σ.height ∧
      (afterPrecommit cfg nb σ.round σ).round = σ.round) ∨
    ((afterPrecommit cfg nb σ.round σ).step = .commit ∧ (afterPrecommit cfg nb σ.round σ).height = σ.height) ∨
    (afterPrecommit cfg nb σ.round σ).height = σ.height + 1 :=
  afterPrecommit_arms cfg nb σ hany

/-- **no_quorum_stall, commit.** `enterCommit` never leaves the node in Commit holding the complete
committed block: it finalises (next height) or halts on an invalid block. -/
theorem no_commit_stall_enterCommit (cfg : Config) (cr : Nat) (σ : State) (h : NoCommitStall cfg σ) :
    NoCommitStall cfg (enterCommit cfg σ.height cr σ) :=
  (enterCommit_spec cfg cr σ).2 h

/-- the same when the complete block arrives while the node is in Commit -/
theorem no_commit_stall_block (cfg : Config) (σ : State) (hs : σ.step = .commit) :
    NoCommitStall cfg (afterBlock cfg σ.height σ) := by
  rw [afterBlock_commit cfg σ hs]
  exact tryFinalizeCommit_noStall cfg σ.height σ rfl hs

/-- The state form of the commit clause: an invariant of `step` (not proved: it needs the
stability of `maj23` under further votes — two targets cannot both have +2/3 — and that Commit is
only entered with a majority).  The two theorems above are its preservation at the only two places
where the committed block can become available. -/
def noCommitStallStatement : Prop :=
  ∀ (cfg : Config) (h0 : Nat) (inputs : List (Option Nat × Input)), Sane cfg (start cfg h0) inputs →
    NoCommitStall cfg (run cfg (start cfg h0) inputs)

/-- The state form of the prevote clause that *is* true (not proved): a reachable node is in
Prevote with +2/3 any prevotes of its round only while no prevote of that round was added since it
entered Prevote — for a validator whose signature cannot be forged: while its own prevote (signed,
in the log) is not yet in the vote set. -/
def noPrevoteStallStateStatement : Prop :=
  ∀ (cfg : Config) (h0 : Nat) (inputs : List (Option Nat × Input)), Sane cfg (start cfg h0) inputs →
    -- no forged own votes: a vote input with the node's index and a good signature was signed before
    (∀ pre nb peer t h r tgt post, inputs = pre ++ (nb, Input.vote peer cfg.me t h r tgt true) :: post →
        Action.signVote t h r tgt ∈ (run cfg (start cfg h0) pre).log) →
    let σ := run cfg (start cfg h0) inputs
    isVal cfg = true → σ.step = .prevote → hasAny cfg.powers (σ.slots .prevote σ.height σ.round) = true →
      (σ.slots .prevote σ.height σ.round)[cfg.me]? = some none ∧
      ∃ tgt, Action.signVote .prevote σ.height σ.round tgt ∈ σ.log

/-- three prevotes arrive during Propose, then the Propose timeout fires: the node is in Prevote
with +2/3 any and no PrevoteWait timer — until its own prevote (just signed) is handled -/
def earlyPrevotesRun : List (Option Nat × Input) :=
  [ (none, .timeout 1 1 .newHeight),
    (none, .vote 1 1 .prevote 1 1 none true),
    (none, .vote 1 2 .prevote 1 1 none true),
    (none, .vote 1 3 .prevote 1 1 none true),
    (none, .timeout 1 1 .propose) ]

theorem prevote_state_invariant_counterexample :
    let σ := run cfg4 (start cfg4 1) earlyPrevotesRun
    σ.step = .prevote ∧ hasAny cfg4.powers (σ.slots .prevote σ.height σ.round) = true ∧
    (1, 1, Step.prevoteWait) ∉ σ.sched ∧ σ.log.head? = some (.signVote .prevote 1 1 none) := by decide

/-- … and handling the own prevote moves it on (PrevoteWait would need a mixed quorum; here the
nil polka lets it precommit) -/
example : (run cfg4 (start cfg4 1) (earlyPrevotesRun ++ [(none, .vote 0 0 .prevote 1 1 none true)])).step = .precommit := by
  decide

/-! ### (3) timeout_makes_progress -/

/-- **(3)** In a state satisfying `TP` (every reachable state, `timeout_pending`) firing the
pending timeout of the current step strictly increases (round, step, ttp) at the same height —
`Progress`; the PrecommitWait timeout (pending when `ttp`) moves a node that is not in Commit to a
later round (in Commit `handleTimeout` ignores it, the node waits for the block, not for time). -/
theorem timeout_makes_progress (cfg : Config) (nb : Option Nat) (σ : State) (T : TP cfg σ) :
    (σ.step = .newHeight → Progress σ (handleTimeout cfg nb σ.height σ.round .newHeight σ)) ∧
    (σ.step = .newRound → Progress σ (handleTimeout cfg nb σ.height σ.round .newRound σ)) ∧
    (σ.step = .propose → Progress σ (handleTimeout cfg nb σ.height σ.round .propose σ)) ∧
    (σ.step = .prevoteWait → Progress σ (handleTimeout cfg nb σ.height σ.round .prevoteWait σ)) ∧
    (σ.step ≠ .commit →
      (handleTimeout cfg nb σ.height σ.round .precommitWait σ).height = σ.height ∧
      σ.round + 1 ≤ (handleTimeout cfg nb σ.height σ.round .precommitWait σ).round) := by
  refine ⟨fun hs => ?_, fun hs => ?_, timeout_propose_progress cfg nb σ, timeout_prevoteWait_progress cfg nb σ,
    timeout_precommitWait_progress cfg nb σ⟩
  · rcases timeout_newHeight_progress cfg nb σ hs with h | h
    · exact h
    · exact absurd (T.nh hs).1 h
  · exact timeout_newRound_progress cfg nb σ hs (T.nr hs).2.1

/-- `step` on a timeout input is `handleTimeout` (the node is not halted) -/
theorem step_timeout (cfg : Config) (nb : Option Nat) (σ : State) (h r : Nat) (s : Step) (hh : σ.halted = false) :
    step cfg σ nb (.timeout h r s) = handleTimeout cfg nb h r s { σ with added := false } := by
  unfold step
  rw [if_neg (by simp [hh])]

/-! ### (4) round_skip -/

/-- **(4)** +2/3 any prevotes for a later round (the vote that completes them is stored in `σ`):
the node moves to that round -/
theorem round_skip_prevotes (cfg : Config) (nb : Option Nat) (vr : Nat) (σ : State) (hr : σ.round < vr)
    (hany : hasAny cfg.powers (σ.slots .prevote σ.height vr) = true) :
    (afterPrevote cfg nb vr σ).height = σ.height ∧ vr ≤ (afterPrevote cfg nb vr σ).round :=
  afterPrevote_round_skip cfg nb vr σ hr hany

/-- **(4)** +2/3 any precommits for a later round: the node moves to that round, or commits -/
theorem round_skip_precommits (cfg : Config) (nb : Option Nat) (vr : Nat) (σ : State) (hr : σ.round < vr)
    (hany : hasAny cfg.powers (σ.slots .precommit σ.height vr) = true) :
    (afterPrecommit cfg nb vr σ).height = σ.height + 1 ∨
    ((afterPrecommit cfg nb vr σ).height = σ.height ∧ vr ≤ (afterPrecommit cfg nb vr σ).round) :=
  afterPrecommit_round_skip cfg nb vr σ hr hany

/-- The state form of round skipping (not proved): in every reachable state no later round has
+2/3 any prevotes or precommits — the node would have moved there when the vote was added. -/
def noFutureQuorumStatement : Prop :=
  ∀ (cfg : Config) (h0 : Nat) (inputs : List (Option Nat × Input)), Sane cfg (start cfg h0) inputs →
    let σ := run cfg (start cfg h0) inputs
    ∀ r t, σ.round < r → hasAny cfg.powers (σ.slots t σ.height r) = false

/-! ### non-vacuity -/

/-- polka for block 7 without a proposal, completed by one vote while the node is in Prevote (its
own nil prevote is still in its internal queue): it goes to PrevoteWait with the timer armed —
the case the seeded mutant C04_a breaks -/
def polkaNoProposalRun : List (Option Nat × Input) :=
  [ (none, .timeout 1 1 .newHeight),
    (none, .timeout 1 1 .propose),
    (none, .vote 1 1 .prevote 1 1 (some 7) true),
    (none, .vote 1 2 .prevote 1 1 (some 7) true),
    (none, .vote 1 3 .prevote 1 1 (some 7) true) ]

example :
    let σ := run cfg4 (start cfg4 1) polkaNoProposalRun
    σ.step = .prevoteWait ∧ (1, 1, Step.prevoteWait) ∈ σ.sched ∧
    maj23 cfg4.powers (σ.slots .prevote 1 1) = some (some 7) ∧ σ.pblock = none := by decide

example : Sane cfg4 (start cfg4 1) polkaNoProposalRun := by
  simp only [polkaNoProposalRun, Sane, TimeoutOk]; decide

/-- +2/3 any prevotes at round 3 while in round 1: the node skips to round 3 -/
example :
    (run cfg4 (start cfg4 1)
      [ (none, .timeout 1 1 .newHeight),
        (none, .vote 1 1 .prevote 1 3 none true),
        (none, .vote 1 2 .prevote 1 3 (some 7) true),
        (none, .vote 1 3 .prevote 1 3 (some 8) true) ]).round = 3 := by decide

/-- the PrevoteWait timeout fires: Precommit -/
example :
    (run cfg4 (start cfg4 1) (polkaNoProposalRun ++ [(none, .timeout 1 1 .prevoteWait)])).step = .precommit := by
  decide

/-! ### the seeded mutant C04_a at the model level -/

/-- `prevoteSwitch` changed like the seeded mutant C04_a changes `addVote`: with a single +2/3 the
node only precommits when it can act on it, and no longer falls through to `enterPrevoteWait` -/
def prevoteSwitchC04a (cfg : Config) (nb : Option Nat) (h vr : Nat) (m : Option Target) (any : Bool) (σ : State) : State :=
  if σ.round < vr && any then enterNewRound cfg nb h vr σ
  else if σ.round == vr && Step.prevote.toNat ≤ σ.step.toNat then
    match m with
    | some bid => if isProposalComplete cfg σ || bid == none then enterPrecommit cfg h vr σ else σ
    | none => if any then enterPrevoteWait h vr σ else σ
  else σ

/-- the state of `polkaNoProposalRun` just before the last prevote, with that prevote stored -/
def polkaStored : State :=
  let σ := run cfg4 (start cfg4 1) polkaNoProposalRun.dropLast
  { σ with votes := σ.votes.map (setSlot .prevote 3 (some 7) 1 1) }

/-- `no_prevote_stall_branch` fails for the mutated switch: the node sits in Prevote with +2/3 any
(a polka for a block it does not have) and no PrevoteWait timer; the real switch arms it. -/
theorem c04a_mutant_counterexample :
    let σ := polkaStored
    let m := maj23 cfg4.powers (σ.slots .prevote 1 1)
    let any := hasAny cfg4.powers (σ.slots .prevote 1 1)
    σ.step = .prevote ∧ any = true ∧
    (prevoteSwitchC04a cfg4 none 1 1 m any (polkaUpdate 1 m σ)).step = .prevote ∧
    (1, 1, Step.prevoteWait) ∉ (prevoteSwitchC04a cfg4 none 1 1 m any (polkaUpdate 1 m σ)).sched ∧
    (prevoteSwitch cfg4 none 1 1 m any (polkaUpdate 1 m σ)).step = .prevoteWait := by decide

end KV.Props.C04Cs
