import KV.Props.C03
import KV.Proofs.CsProgress3
import KV.Proofs.CsCommit
import KV.Proofs.CsOld
/-!
# C04 (part) — local progress invariants of the node model `Cs`

Liveness itself is not proved (see `KV/Props/C04.lean`).  Here: the facts about ONE node on which
progress rests, for **every** input sequence (arbitrary Byzantine proposals / blocks / votes, any
order; timeouts under the same hypothesis `Sane` as C03: not from the future of the current round,
which holds for every timeout the node scheduled).

Reachable states are `run cfg (start cfg h0) inputs`, where `start` is `NewConsensusState` followed
by `OnStart`'s `scheduleRound0` (the model's `init` has nothing scheduled yet).

1. `timeout_pending` — the node never waits for time without an armed timer (`TP`).
   `enterPrecommitWait` does not change the step in this code base: the PrecommitWait wait is
   `TriggeredTimeoutPrecommit` (`ttp`), and `step ≠ PrecommitWait` in every reachable state.
   With `IsCreateEmptyBlocks = false` (`waitTxs ∧ ¬emptyInterval`) the node waits in `NewRound`
   of round 1 *without* a timer — that is what the Go code does (it waits for transactions).
2. `no_quorum_stall` — stated exactly as `addVote` / `addProposalBlockPart` / `enterCommit`
   guarantee it, i.e. as post-conditions of the input that completes the quorum:
   `no_prevote_stall` (+ `no_prevote_stall_branch`), `no_precommit_stall_branch`,
   `no_commit_stall_enterCommit`, `no_commit_stall_block`.
   The naive *state* invariant "never in Prevote with +2/3 any" is false
   (`prevote_state_invariant_counterexample`): prevotes that arrive during Propose are only acted
   upon when the next prevote of the round is added — normally the node's own, which sits in its
   internal queue.  The state forms are kept as `…Statement`.
3. `timeout_makes_progress` — firing the pending timeout of the current step strictly increases
   (round, step, ttp) (or the PrecommitWait timeout moves to the next round).
4. `round_skip_prevotes`, `round_skip_precommits` — for a node that is NOT in the commit step (F37
   fix: in the commit step the height is decided and votes of later rounds do not move the node).
5. The commit step is absorbing (F37 fix: `enterNewRound` and `enterPrecommit` return in the commit
   step): `commit_step_absorbing` (no input moves a node in the commit step to another round or
   step; it stays, finalises or halts), `commit_never_forgotten` (a node waiting for the block of
   its commit commits it when it arrives, whatever it handles in between), and the regression
   theorems about the earlier rules (`KV/Proofs/CsOld.lean`): `commit_forgotten_counterexample_old_rule`,
   `f37_alone_double_signs_counterexample`.  With (5), `no_commit_stall_enterCommit` /
   `no_commit_stall_block` say more than before: the commit step can only be LEFT through
   `finalizeCommit` (or a halt), so "never in Commit holding the complete committed block" at the two
   places where that block can become available, plus `commit_step_absorbing` in between, is the
   whole life of a commit: enter — wait (absorbing) — block arrives — finalise.
-/
namespace KV.Props.C04Cs
open KV.Cs KV.Props.C03

/-- `NewConsensusState` at height `h`, then `OnStart`: `scheduleRound0` -/
def start (cfg : Config) (h : Nat) : State := schedule h 1 .newHeight (init cfg h)

theorem start_inv (cfg : Config) (h : Nat) : Inv cfg (start cfg h) :=
  (init_inv cfg h).schedule h 1 .newHeight (by unfold le3; exact Or.inr ⟨rfl, Or.inr ⟨rfl, Nat.le_refl _⟩⟩)

theorem start_tp (cfg : Config) (h : Nat) : TP cfg (start cfg h) := by
  refine ⟨?_, ?_, ?_, ?_, ?_, ?_, Nat.le_refl 1⟩
  · intro _; exact ⟨rfl, List.mem_cons_self ..⟩
  · intro hc; cases hc
  · intro hc; cases hc
  · intro hc; cases hc
  · intro hc; cases hc
  · intro hc; cases hc

theorem run_tp {cfg : Config} : ∀ (inputs : List (Option Nat × Input)) (σ : State), TP cfg σ → Sane cfg σ inputs →
    TP cfg (run cfg σ inputs)
  | [], _, T, _ => T
  | (nb, i) :: rest, _, T, hs => run_tp rest _ (step_tp T nb i hs.1) hs.2

/-- **(1) timeout_pending.** In every reachable state: in `NewHeight`, `Propose`, `PrevoteWait`
(and `NewRound` when an empty-block interval is configured) the timeout for exactly the current
(height, round, step) was handed to the ticker; when `TriggeredTimeoutPrecommit` is set the
`PrecommitWait` timeout of the current (height, round) was; the step is never `PrecommitWait`;
`NewRound` is only a resting step in round 1 when the node waits for transactions. -/
theorem timeout_pending (cfg : Config) (h0 : Nat) (inputs : List (Option Nat × Input))
    (hs : Sane cfg (start cfg h0) inputs) : TP cfg (run cfg (start cfg h0) inputs) :=
  run_tp inputs _ (start_tp cfg h0) hs

/-- (1) for runs whose timeouts are the scheduled ones -/
theorem timeout_pending_scheduled (cfg : Config) (h0 : Nat) (inputs : List (Option Nat × Input))
    (hs : Scheduled cfg (start cfg h0) inputs) : TP cfg (run cfg (start cfg h0) inputs) :=
  timeout_pending cfg h0 inputs (scheduled_ok inputs _ (start_inv cfg h0) hs)

/-! ### (2) no_quorum_stall -/

/-- what `addVote` does with a vote: nothing, only `HeightVoteSet` bookkeeping (vote not added), or
the vote is stored (`σ2`, same position as `σ`) and the branch of its type runs -/
theorem vote_accepted_branch (cfg : Config) (nb : Option Nat) (peer idx : Nat) (t : VType) (h r : Nat) (tgt : Target)
    (sigok : Bool) (σ : State) :
    addVote cfg nb peer idx t h r tgt sigok σ = σ ∨
    (∃ σ1, ensureRound cfg peer r σ = some σ1 ∧ addVote cfg nb peer idx t h r tgt sigok σ = σ1) ∨
    (h = σ.height ∧ ∃ σ2 : State, σ2.height = σ.height ∧ σ2.round = σ.round ∧ σ2.step = σ.step ∧ σ2.ttp = σ.ttp ∧
      σ2.sched = σ.sched ∧ σ2.added = true ∧
      addVote cfg nb peer idx t h r tgt sigok σ =
        (match t with
         | .prevote => afterPrevote cfg nb r σ2
         | .precommit => afterPrecommit cfg nb r σ2)) :=
  addVote_accepted cfg nb peer idx t h r tgt sigok σ

/-- **no_quorum_stall, prevote (branch form).** `σ` already holds the vote; the node is in step
Prevote and the prevote set of its round has +2/3 any.  Then it precommits, or it moves to
PrevoteWait *with the timeout scheduled* — in particular in the case "+2/3 for a block but the
proposal is incomplete", which falls through to `enterPrevoteWait`. -/
theorem no_prevote_stall_branch (cfg : Config) (nb : Option Nat) (σ : State) (hs : σ.step = .prevote)
    (hany : hasAny cfg.powers (σ.slots .prevote σ.height σ.round) = true) :
    (afterPrevote cfg nb σ.round σ).height = σ.height ∧ (afterPrevote cfg nb σ.round σ).round = σ.round ∧
    (((afterPrevote cfg nb σ.round σ).step = .prevoteWait ∧
        (σ.height, σ.round, Step.prevoteWait) ∈ (afterPrevote cfg nb σ.round σ).sched) ∨
      (afterPrevote cfg nb σ.round σ).step = .precommit) := by
  have := afterPrevote_leaves_prevote cfg nb σ hs hany
  exact ⟨this.1, this.2.1, this.2.2.2⟩

/-- **no_quorum_stall, prevote (input form).** A node in step Prevote that *adds* a prevote of
its own round is afterwards not in Prevote with +2/3 any: it is in Precommit, or in PrevoteWait
with the timeout scheduled. -/
theorem no_prevote_stall (cfg : Config) (nb : Option Nat) (σ : State) (peer idx : Nat) (tgt : Target) (sigok : Bool)
    (hh : σ.halted = false) (hs : σ.step = .prevote) :
    let σ' := step cfg σ nb (.vote peer idx .prevote σ.height σ.round tgt sigok)
    σ'.added = true →
    hasAny cfg.powers (σ'.slots .prevote σ'.height σ'.round) = true →
    (σ'.step = .prevoteWait ∧ (σ'.height, σ'.round, Step.prevoteWait) ∈ σ'.sched) ∨ σ'.step = .precommit := by
  intro σ' hadd hany
  have hσ' : σ' = addVote cfg nb peer idx .prevote σ.height σ.round tgt sigok { σ with added := false } := by
    show step cfg σ nb _ = _
    unfold step
    rw [if_neg (by simp [hh])]
  rcases addVote_accepted cfg nb peer idx .prevote σ.height σ.round tgt sigok { σ with added := false } with h | h | h
  · rw [hσ', h] at hadd; cases hadd
  · obtain ⟨σ1, he, h⟩ := h
    have : σ1.added = false := by
      unfold ensureRound at he
      split at he
      · cases he; rfl
      · split at he
        · cases he; rfl
        · cases he
    rw [hσ', h, this] at hadd; cases hadd
  · obtain ⟨-, σ2, e1, e2, e3, -, -, -, h⟩ := h
    simp only at h e1 e2 e3
    have hs2 : σ2.step = .prevote := by rw [e3]; exact hs
    have hσ2 : σ' = afterPrevote cfg nb σ2.round σ2 := by rw [hσ', h, e2]
    obtain ⟨v1, v2, v3⟩ := afterPrevote_same_round cfg nb σ2 hs2
    have hany2 : hasAny cfg.powers (σ2.slots .prevote σ2.height σ2.round) = true := by
      have : σ'.slots .prevote σ'.height σ'.round = σ2.slots .prevote σ2.height σ2.round := by
        rw [hσ2]; unfold State.slots; rw [v1, v2, v3]
      rw [← this]; exact hany
    have := afterPrevote_leaves_prevote cfg nb σ2 hs2 hany2
    simp only at this
    rw [hσ2, v2, v3]
    exact this.2.2.2

/-- **no_quorum_stall, precommit (branch form).** `σ` already holds the vote and the precommit set
of the node's round has +2/3 any.  Afterwards `TriggeredTimeoutPrecommit` is set (so, by
`timeout_pending`, the PrecommitWait timeout is scheduled), or the node is in Commit, or at the
next height. -/
theorem no_precommit_stall_branch (cfg : Config) (nb : Option Nat) (σ : State)
    (hany : hasAny cfg.powers (σ.slots .precommit σ.height σ.round) = true) :
    ((afterPrecommit cfg nb σ.round σ).ttp = true ∧ (afterPrecommit cfg nb σ.round σ).height = σ.height ∧
      (afterPrecommit cfg nb σ.round σ).round = σ.round) ∨
    ((afterPrecommit cfg nb σ.round σ).step = .commit ∧ (afterPrecommit cfg nb σ.round σ).height = σ.height) ∨
    (afterPrecommit cfg nb σ.round σ).height = σ.height + 1 :=
  afterPrecommit_arms cfg nb σ hany

/-- **no_quorum_stall, commit.** `enterCommit` never leaves the node in Commit holding the complete
committed block: it finalises (next height) or halts on an invalid block. -/
theorem no_commit_stall_enterCommit (cfg : Config) (cr : Nat) (σ : State) (h : NoCommitStall cfg σ) :
    NoCommitStall cfg (enterCommit cfg σ.height cr σ) :=
  (enterCommit_spec cfg cr σ).2 h

/-- the same when the complete block arrives while the node is in Commit -/
theorem no_commit_stall_block (cfg : Config) (σ : State) (hs : σ.step = .commit) :
    NoCommitStall cfg (afterBlock cfg σ.height σ) := by
  rw [afterBlock_commit cfg σ hs]
  exact tryFinalizeCommit_noStall cfg σ.height σ rfl hs

/-- The state form of the commit clause: an invariant of `step` (not proved: it needs the
stability of `maj23` under further votes — two targets cannot both have +2/3, `Sync.maj23_of_isMaj`
— and that Commit is only entered with a majority).  The two theorems above are its preservation
at the only two places where the committed block can become available; since the F37 fix the commit
step is left only through `finalizeCommit` (`commit_step_absorbing`), and a node that waits for the
block commits it when it arrives (`commit_never_forgotten`: the liveness half, for the states
`Waiting`). -/
def noCommitStallStatement : Prop :=
  ∀ (cfg : Config) (h0 : Nat) (inputs : List (Option Nat × Input)), Sane cfg (start cfg h0) inputs →
    NoCommitStall cfg (run cfg (start cfg h0) inputs)

/-- The state form of the prevote clause that *is* true (not proved): a reachable node is in
Prevote with +2/3 any prevotes of its round only while no prevote of that round was added since it
entered Prevote — for a validator whose signature cannot be forged: while its own prevote (signed,
in the log) is not yet in the vote set. -/
def noPrevoteStallStateStatement : Prop :=
  ∀ (cfg : Config) (h0 : Nat) (inputs : List (Option Nat × Input)), Sane cfg (start cfg h0) inputs →
    -- no forged own votes: a vote input with the node's index and a good signature was signed before
    (∀ pre nb peer t h r tgt post, inputs = pre ++ (nb, Input.vote peer cfg.me t h r tgt true) :: post →
        Action.signVote t h r tgt ∈ (run cfg (start cfg h0) pre).log) →
    let σ := run cfg (start cfg h0) inputs
    isVal cfg = true → σ.step = .prevote → hasAny cfg.powers (σ.slots .prevote σ.height σ.round) = true →
      (σ.slots .prevote σ.height σ.round)[cfg.me]? = some none ∧
      ∃ tgt, Action.signVote .prevote σ.height σ.round tgt ∈ σ.log

/-- three prevotes arrive during Propose, then the Propose timeout fires: the node is in Prevote
with +2/3 any and no PrevoteWait timer — until its own prevote (just signed) is handled -/
def earlyPrevotesRun : List (Option Nat × Input) :=
  [ (none, .timeout 1 1 .newHeight),
    (none, .vote 1 1 .prevote 1 1 none true),
    (none, .vote 1 2 .prevote 1 1 none true),
    (none, .vote 1 3 .prevote 1 1 none true),
    (none, .timeout 1 1 .propose) ]

theorem prevote_state_invariant_counterexample :
    let σ := run cfg4 (start cfg4 1) earlyPrevotesRun
    σ.step = .prevote ∧ hasAny cfg4.powers (σ.slots .prevote σ.height σ.round) = true ∧
    (1, 1, Step.prevoteWait) ∉ σ.sched ∧ σ.log.head? = some (.signVote .prevote 1 1 none) := by decide

/-- … and handling the own prevote moves it on (PrevoteWait would need a mixed quorum; here the
nil polka lets it precommit) -/
example : (run cfg4 (start cfg4 1) (earlyPrevotesRun ++ [(none, .vote 0 0 .prevote 1 1 none true)])).step = .precommit := by
  decide

/-! ### (3) timeout_makes_progress -/

/-- **(3)** In a state satisfying `TP` (every reachable state, `timeout_pending`) firing the
pending timeout of the current step strictly increases (round, step, ttp) at the same height —
`Progress`; the PrecommitWait timeout (pending when `ttp`) moves a node that is not in Commit to a
later round (in Commit `handleTimeout` ignores it, the node waits for the block, not for time). -/
theorem timeout_makes_progress (cfg : Config) (nb : Option Nat) (σ : State) (T : TP cfg σ) :
    (σ.step = .newHeight → Progress σ (handleTimeout cfg nb σ.height σ.round .newHeight σ)) ∧
    (σ.step = .newRound → Progress σ (handleTimeout cfg nb σ.height σ.round .newRound σ)) ∧
    (σ.step = .propose → Progress σ (handleTimeout cfg nb σ.height σ.round .propose σ)) ∧
    (σ.step = .prevoteWait → Progress σ (handleTimeout cfg nb σ.height σ.round .prevoteWait σ)) ∧
    (σ.step ≠ .commit →
      (handleTimeout cfg nb σ.height σ.round .precommitWait σ).height = σ.height ∧
      σ.round + 1 ≤ (handleTimeout cfg nb σ.height σ.round .precommitWait σ).round) := by
  refine ⟨fun hs => ?_, fun hs => ?_, timeout_propose_progress cfg nb σ, timeout_prevoteWait_progress cfg nb σ,
    timeout_precommitWait_progress cfg nb σ⟩
  · rcases timeout_newHeight_progress cfg nb σ hs with h | h
    · exact h
    · exact absurd (T.nh hs).1 h
  · exact timeout_newRound_progress cfg nb σ hs (T.nr hs).2.1

/-- `step` on a timeout input is `handleTimeout` (the node is not halted) -/
theorem step_timeout (cfg : Config) (nb : Option Nat) (σ : State) (h r : Nat) (s : Step) (hh : σ.halted = false) :
    step cfg σ nb (.timeout h r s) = handleTimeout cfg nb h r s { σ with added := false } := by
  unfold step
  rw [if_neg (by simp [hh])]

/-! ### (4) round_skip -/

/-- **(4)** +2/3 any prevotes for a later round (the vote that completes them is stored in `σ`):
a node that is not in the commit step moves to that round (in the commit step the height is
decided and the node stays: F37 fix, `commit_step_absorbing`) -/
theorem round_skip_prevotes (cfg : Config) (nb : Option Nat) (vr : Nat) (σ : State) (hr : σ.round < vr)
    (hc : σ.step ≠ .commit) (hany : hasAny cfg.powers (σ.slots .prevote σ.height vr) = true) :
    (afterPrevote cfg nb vr σ).height = σ.height ∧ vr ≤ (afterPrevote cfg nb vr σ).round :=
  afterPrevote_round_skip cfg nb vr σ hr hc hany

/-- **(4)** +2/3 any precommits for a later round: the node moves to that round, or commits -/
theorem round_skip_precommits (cfg : Config) (nb : Option Nat) (vr : Nat) (σ : State) (hr : σ.round < vr)
    (hc : σ.step ≠ .commit) (hany : hasAny cfg.powers (σ.slots .precommit σ.height vr) = true) :
    (afterPrecommit cfg nb vr σ).height = σ.height + 1 ∨
    ((afterPrecommit cfg nb vr σ).height = σ.height ∧ vr ≤ (afterPrecommit cfg nb vr σ).round) :=
  afterPrecommit_round_skip cfg nb vr σ hr hc hany

/-- The state form of round skipping (not proved): in every reachable state of a node that is not
in the commit step no later round has +2/3 any prevotes or precommits — the node would have moved
there when the vote was added (in the commit step it deliberately stays: F37) -/
def noFutureQuorumStatement : Prop :=
  ∀ (cfg : Config) (h0 : Nat) (inputs : List (Option Nat × Input)), Sane cfg (start cfg h0) inputs →
    let σ := run cfg (start cfg h0) inputs
    σ.step ≠ .commit → ∀ r t, σ.round < r → hasAny cfg.powers (σ.slots t σ.height r) = false


/-! ### (5) the commit step is absorbing (F37) -/

/-- **commit_step_absorbing.** A node in the commit step (it holds +2/3 precommits for a block) that
handles ANY input — votes of later rounds included; timeouts as in C03 — afterwards is still in the
commit step of the same height and round with the same commit round, or has finalised (next
height), or is halted (`finalizeCommit` on an invalid block / a timeout with an invalid step).
Before the F37 fix `enterNewRound` (reached from `addVote` on +2/3 any of a later round) and
`enterPrecommit` (reached on a +2/3 precommit majority of a later round) moved the node out of the
commit step and the commit was forgotten: `commit_forgotten_counterexample_old_rule`,
`f37_alone_double_signs_counterexample`. -/
theorem commit_step_absorbing (cfg : Config) (σ : State) (nb : Option Nat) (i : Input) (hc : σ.step = .commit)
    (hok : InputOk σ i) :
    (step cfg σ nb i).halted = true ∨ (step cfg σ nb i).height = σ.height + 1 ∨
    ((step cfg σ nb i).height = σ.height ∧ (step cfg σ nb i).round = σ.round ∧
      (step cfg σ nb i).step = .commit ∧ (step cfg σ nb i).commitRound = σ.commitRound) := by
  cases step_outcome cfg σ nb i hc hok with
  | halted h => exact Or.inl h
  | finalised h => exact Or.inr (Or.inl h.1)
  | stays h => exact Or.inr (Or.inr ⟨h.height, h.round, h.step, h.commitRound⟩)

/-- the inputs while the node waits for block `b`: timeouts are scheduled ones (not for a later
round, a valid step), the block `b` itself is not among them, and no input completes a polka for
ANOTHER block in the node's round (`addVote` then replaces the part set: "Valid block we don't know
about"; impossible while less than 1/3 of the power is faulty, possible for arbitrary Byzantine
input) -/
def Calm (cfg : Config) (b : Nat) : State → List (Option Nat × Input) → Prop
  | _, [] => True
  | σ, (nb, i) :: rest =>
    InputOk σ i ∧ timeoutStepOk i ∧ notBlock σ b i ∧
    (match maj23 cfg.powers (slotsV (step cfg σ nb i).votes .prevote (step cfg σ nb i).height (step cfg σ nb i).round) with
     | some (some b') => b' = b
     | _ => True) ∧
    Calm cfg b (step cfg σ nb i) rest

theorem waiting_run {cfg : Config} {b : Nat} : ∀ (inputs : List (Option Nat × Input)) (σ : State),
    Waiting cfg b σ → Calm cfg b σ inputs → Waiting cfg b (run cfg σ inputs)
  | [], _, W, _ => W
  | (nb, i) :: rest, σ, W, hc => by
    obtain ⟨h1, h2, h3, h4, h5⟩ := hc
    rcases waiting_step W nb i h1 h2 h3 with W' | ⟨b', hne, hm⟩
    · exact waiting_run rest _ W' h5
    · rw [hm] at h4; exact absurd h4 hne

/-- **commit_never_forgotten.** A node that is in the commit step for block `b` (+2/3 precommits
for `b` at its commit round) and waits for the block (`Waiting`: its part set is the one of `b`)
commits `b` when the complete valid block arrives — whatever proposals, blocks, votes of ANY round
and scheduled timeouts it handles in between (`Calm`: the one exception is a polka for another
block in its own round). -/
theorem commit_never_forgotten (cfg : Config) (b : Nat) (σ : State) (inputs : List (Option Nat × Input))
    (W : Waiting cfg b σ) (hc : Calm cfg b σ inputs) (nb : Option Nat) :
    Action.commit σ.height b ∈
      (run cfg σ (inputs ++ [(nb, .block σ.height b true true)])).log := by
  have W' := waiting_run inputs σ W hc
  have hh : (run cfg σ inputs).height = σ.height := by
    clear W'
    induction inputs generalizing σ with
    | nil => rfl
    | cons x rest ih =>
      obtain ⟨nb', i⟩ := x
      obtain ⟨h1, h2, h3, h4, h5⟩ := hc
      rcases waiting_step W nb' i h1 h2 h3 with W1 | ⟨b', hne, hm⟩
      · have := ih _ W1 h5
        show (run cfg (step cfg σ nb' i) rest).height = σ.height
        rw [this]
        cases step_outcome cfg σ nb' i W.st h1 with
        | halted h => rw [W1.nh] at h; cases h
        | finalised h =>
          -- a finalised node is in NewHeight, not in Commit
          have := W1.st
          rw [h.2] at this
          cases this
        | stays h => exact h.height
      · rw [hm] at h4; exact absurd h4 hne
  rw [Sync.run_append]
  have := (waiting_block W' nb).1
  rw [hh] at this
  exact this


/-! ### F37: regression and non-vacuity -/

instance : (i : Input) → Decidable (timeoutStepOk i)
  | .timeout _ _ s => by unfold timeoutStepOk; exact inferInstance
  | .proposal .. => isTrue trivial
  | .block .. => isTrue trivial
  | .vote .. => isTrue trivial

instance (σ : State) (b : Nat) : (i : Input) → Decidable (notBlock σ b i)
  | .block h id _ _ => by unfold notBlock; exact inferInstance
  | .proposal .. => isTrue trivial
  | .timeout .. => isTrue trivial
  | .vote .. => isTrue trivial

instance (σ : State) : (i : Input) → Decidable (InputOk σ i)
  | .timeout h r _ => by unfold InputOk TimeoutOk; exact inferInstance
  | .proposal .. => isTrue trivial
  | .block .. => isTrue trivial
  | .vote .. => isTrue trivial

instance decCalm (cfg : Config) (b : Nat) : (σ : State) → (l : List (Option Nat × Input)) → Decidable (Calm cfg b σ l)
  | _, [] => isTrue trivial
  | σ, (nb, i) :: rest =>
    have := decCalm cfg b (step cfg σ nb i) rest
    by
      unfold Calm
      have : Decidable (match maj23 cfg.powers (slotsV (step cfg σ nb i).votes .prevote (step cfg σ nb i).height
          (step cfg σ nb i).round) with
        | some (some b') => b' = b
        | _ => True) := by
        split <;> exact inferInstance
      exact inferInstance

/-- the node never gets the proposal of round 1; +2/3 precommits for block 7 arrive: commit step,
waiting for the block -/
def commitWaitRun : List (Option Nat × Input) :=
  [ (none, .timeout 1 1 .newHeight),
    (none, .vote 1 1 .precommit 1 1 (some 7) true),
    (none, .vote 1 2 .precommit 1 1 (some 7) true),
    (none, .vote 1 3 .precommit 1 1 (some 7) true) ]

/-- +2/3 any prevotes of round 3 -/
def laterPrevotes : List (Option Nat × Input) :=
  [ (none, .vote 1 1 .prevote 1 3 none true), (none, .vote 1 2 .prevote 1 3 none true),
    (none, .vote 1 3 .prevote 1 3 none true) ]

/-- a +2/3 NIL precommit majority of round 2 -/
def laterNilPrecommits : List (Option Nat × Input) :=
  [ (none, .vote 1 1 .precommit 1 2 none true), (none, .vote 1 2 .precommit 1 2 none true),
    (none, .vote 1 3 .precommit 1 2 none true) ]

def theBlock : List (Option Nat × Input) := [(none, .block 1 7 true true)]

/-- (height, round, step, commit round) -/
def posView (σ : State) : Nat × Nat × Step × Nat := (σ.height, σ.round, σ.step, σ.commitRound)

def commits (σ : State) (h b : Nat) : Bool := decide (Action.commit h b ∈ σ.log)

/-- how often the node asked for a precommit signature for (1, 1) -/
def precommitSigs11 (σ : State) : Nat := (σ.log.filter (fun a => sigKey a == some (1, 1, 6))).length

/-- non-vacuity of `commit_never_forgotten`: the hypotheses hold on `commitWaitRun` followed by the
prevotes and the nil precommits of later rounds -/
example : Waiting cfg4 7 (run cfg4 (start cfg4 1) commitWaitRun) :=
  ⟨by decide, by decide, by decide, by decide⟩
example : Calm cfg4 7 (run cfg4 (start cfg4 1) commitWaitRun) (laterPrevotes ++ laterNilPrecommits) := by decide

/-- **Regression (F37): the OLD rule forgets the commit.**  The node is in the commit step of (1, 1)
waiting for block 7; +2/3-any prevotes of round 3 arrive: under the old rule (and with the F36 fix
alone) `enterNewRound` moves it to round 3 (step Propose, part set dropped); when block 7 arrives
it is not expected any more and the node never commits.  The repaired node stays in the commit step
and commits when the block arrives. -/
theorem commit_forgotten_counterexample_old_rule :
    posView (run cfg4 (start cfg4 1) commitWaitRun) = (1, 1, .commit, 1) ∧
    -- old rule
    posView (runR Rule.old cfg4 (start cfg4 1) (commitWaitRun ++ laterPrevotes)) = (1, 3, .propose, 1) ∧
    commits (runR Rule.old cfg4 (start cfg4 1) (commitWaitRun ++ laterPrevotes ++ theBlock)) 1 7 = false ∧
    posView (runR Rule.old cfg4 (start cfg4 1) (commitWaitRun ++ laterPrevotes ++ theBlock)) = (1, 3, .propose, 1) ∧
    -- F36 fix alone
    commits (runR Rule.f36only cfg4 (start cfg4 1) (commitWaitRun ++ laterPrevotes ++ theBlock)) 1 7 = false ∧
    -- the repaired node
    posView (run cfg4 (start cfg4 1) (commitWaitRun ++ laterPrevotes)) = (1, 1, .commit, 1) ∧
    commits (run cfg4 (start cfg4 1) (commitWaitRun ++ laterPrevotes ++ theBlock)) 1 7 = true ∧
    (run cfg4 (start cfg4 1) (commitWaitRun ++ laterPrevotes ++ theBlock)).height = 2 := by decide

/-- **Regression (F37): the `enterNewRound` guard alone is not enough, and signs twice.**  With only
the first guard (`Rule.f37a`), a +2/3 NIL precommit majority of round 2 runs `enterNewRound(1, 2)`
(returns: commit step) and then `enterPrecommit(1, 2)`, whose guard does not apply to a later round:
the node signs a SECOND precommit stamped with its unchanged round 1, leaves the commit step
(round 2, step Precommit) and does not commit when block 7 arrives.  With the second guard (the
node model) it stays, signs once and commits. -/
theorem f37_alone_double_signs_counterexample :
    precommitSigs11 (run cfg4 (start cfg4 1) commitWaitRun) = 1 ∧
    -- first guard only
    precommitSigs11 (runR Rule.f37a cfg4 (start cfg4 1) (commitWaitRun ++ laterNilPrecommits)) = 2 ∧
    posView (runR Rule.f37a cfg4 (start cfg4 1) (commitWaitRun ++ laterNilPrecommits)) = (1, 2, .precommit, 1) ∧
    commits (runR Rule.f37a cfg4 (start cfg4 1) (commitWaitRun ++ laterNilPrecommits ++ theBlock)) 1 7 = false ∧
    -- both guards
    precommitSigs11 (run cfg4 (start cfg4 1) (commitWaitRun ++ laterNilPrecommits)) = 1 ∧
    posView (run cfg4 (start cfg4 1) (commitWaitRun ++ laterNilPrecommits)) = (1, 1, .commit, 1) ∧
    commits (run cfg4 (start cfg4 1) (commitWaitRun ++ laterNilPrecommits ++ theBlock)) 1 7 = true := by decide

/-- `commit_never_forgotten` on the instance, through the theorem -/
example : Action.commit 1 7 ∈
    (run cfg4 (run cfg4 (start cfg4 1) commitWaitRun) (laterPrevotes ++ laterNilPrecommits ++ theBlock)).log := by
  have W : Waiting cfg4 7 (run cfg4 (start cfg4 1) commitWaitRun) := ⟨by decide, by decide, by decide, by decide⟩
  have := commit_never_forgotten cfg4 7 _ (laterPrevotes ++ laterNilPrecommits) W (by decide) none
  exact this

/-! ### non-vacuity -/

/-- polka for block 7 without a proposal, completed by one vote while the node is in Prevote (its
own nil prevote is still in its internal queue): it goes to PrevoteWait with the timer armed —
the case the seeded mutant C04_a breaks -/
def polkaNoProposalRun : List (Option Nat × Input) :=
  [ (none, .timeout 1 1 .newHeight),
    (none, .timeout 1 1 .propose),
    (none, .vote 1 1 .prevote 1 1 (some 7) true),
    (none, .vote 1 2 .prevote 1 1 (some 7) true),
    (none, .vote 1 3 .prevote 1 1 (some 7) true) ]

example :
    let σ := run cfg4 (start cfg4 1) polkaNoProposalRun
    σ.step = .prevoteWait ∧ (1, 1, Step.prevoteWait) ∈ σ.sched ∧
    maj23 cfg4.powers (σ.slots .prevote 1 1) = some (some 7) ∧ σ.pblock = none := by decide

example : Sane cfg4 (start cfg4 1) polkaNoProposalRun := by
  simp only [polkaNoProposalRun, Sane, TimeoutOk]; decide

/-- +2/3 any prevotes at round 3 while in round 1: the node skips to round 3 -/
example :
    (run cfg4 (start cfg4 1)
      [ (none, .timeout 1 1 .newHeight),
        (none, .vote 1 1 .prevote 1 3 none true),
        (none, .vote 1 2 .prevote 1 3 (some 7) true),
        (none, .vote 1 3 .prevote 1 3 (some 8) true) ]).round = 3 := by decide

/-- the PrevoteWait timeout fires: Precommit -/
example :
    (run cfg4 (start cfg4 1) (polkaNoProposalRun ++ [(none, .timeout 1 1 .prevoteWait)])).step = .precommit := by
  decide

/-! ### the seeded mutant C04_a at the model level -/

/-- `prevoteSwitch` changed like the seeded mutant C04_a changes `addVote`: with a single +2/3 the
node only precommits when it can act on it, and no longer falls through to `enterPrevoteWait` -/
def prevoteSwitchC04a (cfg : Config) (nb : Option Nat) (h vr : Nat) (m : Option Target) (any : Bool) (σ : State) : State :=
  if σ.round < vr && any then enterNewRound cfg nb h vr σ
  else if σ.round == vr && Step.prevote.toNat ≤ σ.step.toNat then
    match m with
    | some bid => if isProposalComplete cfg σ || bid == none then enterPrecommit cfg h vr σ else σ
    | none => if any then enterPrevoteWait h vr σ else σ
  else σ

/-- the state of `polkaNoProposalRun` just before the last prevote, with that prevote stored -/
def polkaStored : State :=
  let σ := run cfg4 (start cfg4 1) polkaNoProposalRun.dropLast
  { σ with votes := σ.votes.map (setSlot .prevote 3 (some 7) 1 1) }

/-- `no_prevote_stall_branch` fails for the mutated switch: the node sits in Prevote with +2/3 any
(a polka for a block it does not have) and no PrevoteWait timer; the real switch arms it. -/
theorem c04a_mutant_counterexample :
    let σ := polkaStored
    let m := maj23 cfg4.powers (σ.slots .prevote 1 1)
    let any := hasAny cfg4.powers (σ.slots .prevote 1 1)
    σ.step = .prevote ∧ any = true ∧
    (prevoteSwitchC04a cfg4 none 1 1 m any (polkaUpdate 1 m σ)).step = .prevote ∧
    (1, 1, Step.prevoteWait) ∉ (prevoteSwitchC04a cfg4 none 1 1 m any (polkaUpdate 1 m σ)).sched ∧
    (prevoteSwitch cfg4 none 1 1 m any (polkaUpdate 1 m σ)).step = .prevoteWait := by decide

end KV.Props.C04Cs
