import KV.Gen.C05
import KV.Model.Recovery
/-!
# C05 — bridge between the regenerated WAL-marker arithmetic of `catchupReplay` (tie T1) and the model

`KV/Gen/C05.lean` is re-extracted on every check run from `consensus/replay.go`
(`catchupReplay`): the marker whose presence refuses the replay (`#ENDHEIGHT csHeight`), the marker
after which records are replayed (`#ENDHEIGHT csHeight - 1`, `0` at the initial height), the
initial-height test and the two `found` tests.

The theorems state that `Recovery.catchup` looks for exactly these markers.  The durable-write
order (model 2) and the WAL discipline of `receiveRoutine` (model 1) are I/O code outside the
translator's subset: tied by the crash-point differential only.
-/
namespace KV.Recovery.GenBridge
open KV KV.Recovery

/-- the marker searched is `csHeight - 1`; at the initial height `h0` it is `0`, which is the same
number when heights start at 1 (the model's convention) -/
theorem gen_catchupEndHeight (h0 cs : Nat) (h1 : 1 ≤ cs) (hc : cs < 2 ^ 64) :
    Gen.C05.catchupEndHeight h0 cs = if cs = h0 then 0 else cs - 1 := by
  unfold Gen.C05.catchupEndHeight
  rw [U64.sub_exact cs 1 h1 (by unfold U64.modulus; omega)]

theorem gen_catchupEndHeight_initial_one (cs : Nat) (h1 : 1 ≤ cs) (hc : cs < 2 ^ 64) :
    Gen.C05.catchupEndHeight 1 cs = cs - 1 := by
  rw [gen_catchupEndHeight 1 cs h1 hc]
  split
  · omega
  · rfl

/-- the heights handed to `SearchForEndHeight` are the state height and the computed end height
(no wrap in the `int64` conversion below `2^63`) -/
theorem gen_catchup_markers (cs e : Nat) (hc : cs < 2 ^ 63) (he : e < 2 ^ 63) :
    Gen.C05.catchupSanityMarker cs = (cs : Int) ∧ Gen.C05.catchupSearchMarker e = (e : Int) := by
  unfold Gen.C05.catchupSanityMarker Gen.C05.catchupSearchMarker I64.wrap
  simp only [Int.ofNat_eq_natCast]
  omega

/-- `catchup` of the model: refused when the regenerated sanity test finds `#ENDHEIGHT csHeight`,
failing when the regenerated second test does not find `#ENDHEIGHT (catchupEndHeight 1 csHeight)` -/
theorem catchup_eq_gen {ρ : Type} (w : MWal ρ) (cs : Nat) (h1 : 1 ≤ cs) (hc : cs < 2 ^ 64) :
    catchup w cs =
      if Gen.C05.catchupRefusesOnMarker (hasEnd w cs) then .refused
      else
        match afterEnd w (Gen.C05.catchupEndHeight 1 cs) with
        | none => .nomarker
        | some recs => .replay recs := by
  rw [gen_catchupEndHeight_initial_one cs h1 hc]
  unfold catchup Gen.C05.catchupRefusesOnMarker
  rfl

theorem gen_catchup_found_tests (found : Bool) (h0 cs : Nat) :
    Gen.C05.catchupFailsWithoutMarker found = !found ∧
    Gen.C05.catchupBelowInitialHeight h0 cs = decide (cs < h0) := ⟨rfl, rfl⟩

end KV.Recovery.GenBridge
