import KV.Props.C03
import KV.Props.C01
import KV.Proofs.CsFrame
import KV.Proofs.CsPower
/-!
# C01 ∘ C03 — agreement for a network of `Cs` nodes

`KV/Proofs/Agreement.lean` proves agreement for every trace of vote events that is `Good`
(each event of a non-faulty sender honours O0–O3 with respect to the *global* prefix of sent
votes).  `KV/Props/C03.lean` proves O0–O3 for the node model `Cs` (the model of
`consensus/state.go` tied to the real code by the differential harness) with respect to the
node's *own* vote sets.  This file composes the two.

**Network execution.**  A network `N : Net` gives the common voting powers, a `Cs.Config` per
node (`cfg i`, with `(cfg i).powers = powers` and `(cfg i).me = i`: `Net.WF`), a start height per
node and the set `F` of faulty validator indices.  An execution is a list of global steps
`(i, nb, input)`: correct node `i` handles `input` (`nb` is the `createBlock` answer), i.e.
`st i := Cs.step (cfg i) (st i) nb input`; the other nodes do not move (`gstep`).  Node `i`'s
state after the execution is `Cs.run (cfg i) (init (cfg i) (h0 i))` on its own inputs (`node_run`).

**Global trace** (`GState.tr`, events tagged with their height; `atH h tr` is the trace of height
`h`, the object of the abstract theorem): per step, first the vote the input carries when it
claims a *faulty* sender and its signature verifies (a Byzantine validator "sends" a vote at the
latest when a correct node receives it: Byzantine events are otherwise arbitrary — any value, any
round, any number of conflicting votes, different votes to different nodes), then every
`signVote` action node `i` emits in this step, in order.

**Hypotheses** (`GOk`, per step `StepOk`): only correct nodes take steps; the timeout hypothesis
of C03 (`InputOk`, implied by "timeouts are the scheduled ones"); **authenticity** (`Auth`): a
vote input whose signature verifies and that claims a *correct* validator `j` is in the global
trace already, i.e. node `j` really signed it before (signature unforgeability).  Nothing else:
proposals, blocks, validity answers, votes claiming faulty validators, delivery order, loss,
duplication and replay are arbitrary.

`GOkS` is the same with "every timeout was handed to the ticker before" (`SchedOk`) in place of
`InputOk`, for executions from `gstart` (`init` + `scheduleRound0`); it implies `GOk`
(`gok_of_scheduled`).

**Theorems.**  `own_votes_authentic` (every vote in a node's vote sets is in the global trace),
`own_quorum_global` (so an own +2/3 quorum is a `polka` / `commitQ` over the global trace),
`trace_sound`/`trace_complete` (the correct senders' events in the trace are exactly their
`signVote` actions), `network_good` (the trace of each height is `Agree.Good`), and
`network_agreement`: with less than 1/3 of the power faulty, two `commit` actions for the same
height, at any two nodes, are for the same block.  Both hypotheses are necessary
(`authenticity_needed_counterexample`, `one_third_needed_counterexample`) and satisfiable
(`N4`, `exSteps`: a 4-validator execution with an equivocating Byzantine validator in which two
nodes commit).

Limits: one power list for all heights (no validator-set change in the model `Cs`); the message
layer (gossip, signature checks) is the bit `sigok` plus `Auth`.
-/
namespace KV.Props.C01Cs
open KV.Cs KV.Agree KV.Props.C03

/-! ### vocabulary -/

def ty : VType → Ty
  | .prevote => .prevote
  | .precommit => .precommit

def vty : Ty → VType
  | .prevote => .prevote
  | .precommit => .precommit

@[simp] theorem vty_ty (t : VType) : vty (ty t) = t := by cases t <;> rfl
@[simp] theorem ty_vty (t : Ty) : ty (vty t) = t := by cases t <;> rfl

/-- a vote event tagged with its height -/
abbrev HEv := Nat × Ev Nat Nat

/-- validator `i` votes `tgt` with type `t` in round `r` -/
def mkEv (i : Nat) (t : VType) (r : Nat) (tgt : Target) : Ev Nat Nat := ⟨i, ⟨ty t, r, tgt⟩⟩

theorem mkEv_eta (e : Ev Nat Nat) : mkEv e.sender (vty e.vote.ty) e.vote.round e.vote.val = e := by
  obtain ⟨s, ⟨t, r, v⟩⟩ := e
  simp [mkEv]

theorem mkEv_inj {i j : Nat} {t t' : VType} {r r' : Nat} {x x' : Target}
    (h : mkEv i t r x = mkEv j t' r' x') : i = j ∧ t = t' ∧ r = r' ∧ x = x' := by
  simp only [mkEv, Ev.mk.injEq, Vote.mk.injEq] at h
  obtain ⟨h1, h2, h3, h4⟩ := h
  refine ⟨h1, ?_, h3, h4⟩
  cases t <;> cases t' <;> simp [ty] at h2 <;> rfl

/-- the event of a `signVote` action of node `i` -/
def evOf (i : Nat) : Action → Option HEv
  | .signVote t h r tgt => some (h, mkEv i t r tgt)
  | _ => none

/-- the events of height `h` -/
def atH (h : Nat) (tr : List HEv) : Trace Nat Nat :=
  tr.filterMap (fun x => if x.1 = h then some x.2 else none)

theorem mem_atH {h : Nat} {tr : List HEv} {e : Ev Nat Nat} : e ∈ atH h tr ↔ (h, e) ∈ tr := by
  unfold atH
  rw [List.mem_filterMap]
  constructor
  · rintro ⟨⟨h', e'⟩, hm, hx⟩
    simp only at hx
    split at hx
    · rename_i hh
      cases hx
      subst hh
      exact hm
    · cases hx
  · intro hm
    exact ⟨(h, e), hm, by simp⟩

theorem atH_append (h : Nat) (a b : List HEv) : atH h (a ++ b) = atH h a ++ atH h b := by
  unfold atH; rw [List.filterMap_append]

/-- the event of height `h` of a `signVote` action of node `i` -/
def evH (h i : Nat) : Action → Option (Ev Nat Nat)
  | .signVote t h' r tgt => if h' = h then some (mkEv i t r tgt) else none
  | _ => none

theorem atH_evOf (h i : Nat) (l : List Action) : atH h (l.filterMap (evOf i)) = l.filterMap (evH h i) := by
  unfold atH
  rw [List.filterMap_filterMap]
  congr 1
  funext a
  cases a <;> simp [evOf, evH]

/-! ### the network -/

structure Net where
  /-- voting powers, index = validator (the same at every node) -/
  powers : List Nat
  /-- configuration of node `i` -/
  cfg : Nat → Config
  /-- start height of node `i` -/
  h0 : Nat → Nat
  /-- faulty validators -/
  F : Nat → Bool

structure Net.WF (N : Net) : Prop where
  powers_eq : ∀ i, (N.cfg i).powers = N.powers
  me_eq : ∀ i, (N.cfg i).me = i

/-- one global step: node, `createBlock` answer, input -/
abbrev GStep := Nat × Option Nat × Input

structure GState where
  st : Nat → State
  /-- every vote sent so far, oldest first -/
  tr : List HEv

/-- the actions the step from `σ` to `σ'` emitted, oldest first -/
def emitted (σ σ' : State) : List Action := (σ'.log.take (σ'.log.length - σ.log.length)).reverse

/-- a vote with a valid signature of a faulty validator counts as sent when it is delivered -/
def delivered (F : Nat → Bool) : Input → List HEv
  | .vote _ idx t h r tgt sigok => if sigok && F idx then [(h, mkEv idx t r tgt)] else []
  | _ => []

/-- authenticity: a verifying vote of a correct validator was signed by that validator's node -/
def Auth (N : Net) (tr : List HEv) : Input → Prop
  | .vote _ idx t h r tgt sigok =>
    sigok = true → idx < N.powers.length → N.F idx = false → (h, mkEv idx t r tgt) ∈ tr
  | _ => True

def gstep (N : Net) (g : GState) (s : GStep) : GState :=
  let σ := g.st s.1
  let σ' := step (N.cfg s.1) σ s.2.1 s.2.2
  { st := fun j => if j = s.1 then σ' else g.st j,
    tr := g.tr ++ delivered N.F s.2.2 ++ (emitted σ σ').filterMap (evOf s.1) }

def ginit (N : Net) : GState := { st := fun i => init (N.cfg i) (N.h0 i), tr := [] }

def grun (N : Net) (g : GState) : List GStep → GState
  | [] => g
  | s :: rest => grun N (gstep N g s) rest

/-- the hypotheses on one global step -/
def StepOk (N : Net) (g : GState) (s : GStep) : Prop :=
  N.F s.1 = false ∧ InputOk (g.st s.1) s.2.2 ∧ Auth N g.tr s.2.2

/-- the hypotheses on an execution -/
def GOk (N : Net) : GState → List GStep → Prop
  | _, [] => True
  | g, s :: rest => StepOk N g s ∧ GOk N (gstep N g s) rest

/-! ### each node runs `Cs.run` on its own inputs -/

/-- the inputs of node `i` -/
def proj (i : Nat) (steps : List GStep) : List (Option Nat × Input) :=
  (steps.filter (fun s => s.1 == i)).map (fun s => s.2)

theorem grun_st (N : Net) (i : Nat) : ∀ (steps : List GStep) (g : GState),
    (grun N g steps).st i = run (N.cfg i) (g.st i) (proj i steps)
  | [], _ => rfl
  | s :: rest, g => by
    unfold grun
    rw [grun_st N i rest]
    by_cases hs : s.1 = i
    · subst hs
      simp [proj, gstep, run]
    · have hs' : ¬ i = s.1 := fun h => hs h.symm
      simp [proj, gstep, hs, hs']

/-- node `i` of the network runs the node model on its own input list -/
theorem node_run (N : Net) (i : Nat) (steps : List GStep) :
    (grun N (ginit N) steps).st i = run (N.cfg i) (init (N.cfg i) (N.h0 i)) (proj i steps) :=
  grun_st N i steps (ginit N)

theorem gok_sane (N : Net) (i : Nat) : ∀ (steps : List GStep) (g : GState), GOk N g steps →
    Sane (N.cfg i) (g.st i) (proj i steps)
  | [], _, _ => trivial
  | s :: rest, g, hok => by
    have ih := gok_sane N i rest _ hok.2
    by_cases hs : s.1 = i
    · subst hs
      have : proj s.1 (s :: rest) = s.2 :: proj s.1 rest := by simp [proj]
      rw [this]
      refine ⟨hok.1.2.1, ?_⟩
      simpa [gstep] using ih
    · have hs' : ¬ i = s.1 := fun h => hs h.symm
      have : proj i (s :: rest) = proj i rest := by simp [proj, hs]
      rw [this]
      simpa [gstep, hs'] using ih

/-- and its inputs satisfy the hypothesis `Sane` of the C03 theorems -/
theorem node_sane (N : Net) (i : Nat) (steps : List GStep) (hok : GOk N (ginit N) steps) :
    Sane (N.cfg i) (init (N.cfg i) (N.h0 i)) (proj i steps) :=
  gok_sane N i steps (ginit N) hok

/-! ### `Good` traces: appending events -/

theorem good_append {vals : List Nat} {pw : Nat → Nat} {F : Nat → Bool} {tr es : Trace Nat Nat}
    (hg : KV.Agree.Good vals pw F tr)
    (hes : ∀ pre' e rest', es = pre' ++ e :: rest' → F e.sender = false → Obl vals pw (tr ++ pre') e) :
    KV.Agree.Good vals pw F (tr ++ es) := by
  intro pre e rest hsplit hF
  rcases List.append_eq_append_iff.mp hsplit with ⟨a', h1, h2⟩ | ⟨c', h1, h2⟩
  · -- pre = tr ++ a', es = a' ++ e :: rest
    rw [h1]
    exact hes a' e rest h2 hF
  · -- tr = pre ++ c', e :: rest = c' ++ es
    cases c' with
    | nil =>
      simp only [List.nil_append] at h2
      simp only [List.append_nil] at h1
      rw [← h1]
      have := hes [] e rest h2.symm hF
      simpa using this
    | cons c cs =>
      simp only [List.cons_append, List.cons.injEq] at h2
      obtain ⟨rfl, _⟩ := h2
      exact hg pre e cs h1 hF

theorem good_append_faulty {vals : List Nat} {pw : Nat → Nat} {F : Nat → Bool} {tr es : Trace Nat Nat}
    (hg : KV.Agree.Good vals pw F tr) (hes : ∀ e ∈ es, F e.sender = true) :
    KV.Agree.Good vals pw F (tr ++ es) := by
  apply good_append hg
  intro pre' e rest' h hF
  have : e ∈ es := by rw [h]; simp
  rw [hes e this] at hF
  cases hF

theorem good_snoc {vals : List Nat} {pw : Nat → Nat} {F : Nat → Bool} {tr : Trace Nat Nat} {e : Ev Nat Nat}
    (hg : KV.Agree.Good vals pw F tr) (he : F e.sender = false → Obl vals pw tr e) :
    KV.Agree.Good vals pw F (tr ++ [e]) := by
  apply good_append hg
  intro pre' e' rest' h hF
  cases pre' with
  | nil =>
    simp only [List.nil_append, List.cons.injEq] at h
    obtain ⟨rfl, _⟩ := h
    simpa using he hF
  | cons p ps =>
    simp only [List.cons_append, List.cons.injEq] at h
    obtain ⟨_, h2⟩ := h
    have := congrArg List.length h2
    simp at this

/-! ### own quorum ⇒ global quorum -/

/-- a +2/3 quorum in a vote set all of whose votes are in the trace `T` is a +2/3 quorum of
senders in `T` -/
theorem quorum_power (powers : List Nat) (votes : List RoundVotes) (T : Trace Nat Nat) (t : VType) (h r : Nat)
    (x : Target)
    (hrecv : ∀ idx, idx < powers.length → (slotsV votes t h r)[idx]? = some (some x) → mkEv idx t r x ∈ T)
    (hq : quorum powers votes t h r x) :
    3 * power (valsOf powers) (pwOf powers) (fun v => sentB T v ⟨ty t, r, x⟩) >
      2 * power (valsOf powers) (pwOf powers) (fun _ => true) := by
  unfold quorum at hq
  have h1 := sumFor_le_power powers (slotsV votes t h r) x (fun v => sentB T v ⟨ty t, r, x⟩)
    (fun i hi hs => by
      have := hrecv i hi hs
      simpa [sentB, mkEv] using this)
  rw [total_eq_power] at hq
  omega

/-! ### the emissions of one step keep the trace `Good` -/

theorem rk_signVote (t : VType) (h r : Nat) (x : Target) :
    rk (.signVote t h r x) = some (h, r, thrOf t) := by cases t <;> rfl

/-- `new ++ old` is the (sorted) log of node `i` after a step that prepended `new`; `T` is the
trace of height `h` before the emissions; every own quorum behind a precommit / an unlock is a
quorum in `T` (`hjust`, `hlock`): then the trace stays `Good` when the events of `new` are
appended (oldest first), and the events of `i` in it are in the log -/
theorem emit_good {vals : List Nat} {pw : Nat → Nat} {F : Nat → Bool} (h i : Nat) (L : List Action)
    (T : Trace Nat Nat) (old : List Action)
    (hjust : ∀ r b, Action.signVote .precommit h r (some b) ∈ L → polka vals pw T r (some b))
    (hlock : ∀ r r' b x, Action.signVote .precommit h r (some b) ∈ L → Action.signVote .prevote h r' x ∈ L →
        r < r' → x ≠ some b → ∃ r'' x'', r < r'' ∧ r'' ≤ r' ∧ x'' ≠ some b ∧ polka vals pw T r'' x'')
    (hsent : ∀ vt, (⟨i, vt⟩ : Ev Nat Nat) ∈ T → Action.signVote (vty vt.ty) h vt.round vt.val ∈ old)
    (hg : KV.Agree.Good vals pw F T) :
    ∀ new, Sorted (new ++ old) → (∀ a ∈ new ++ old, a ∈ L) →
      KV.Agree.Good vals pw F (T ++ new.reverse.filterMap (evH h i)) ∧
      (∀ vt, (⟨i, vt⟩ : Ev Nat Nat) ∈ T ++ new.reverse.filterMap (evH h i) →
        Action.signVote (vty vt.ty) h vt.round vt.val ∈ new ++ old) := by
  intro new
  induction new with
  | nil =>
    intro _ _
    simp only [List.reverse_nil, List.filterMap_nil, List.append_nil, List.nil_append]
    exact ⟨hg, hsent⟩
  | cons a new' ih =>
    intro hsorted hsub
    have hsorted' : Sorted (new' ++ old) := hsorted.2
    have hsub' : ∀ x ∈ new' ++ old, x ∈ L := fun x hx => hsub x (List.mem_cons_of_mem _ hx)
    obtain ⟨ihg, ihs⟩ := ih hsorted' hsub'
    have hrev : (a :: new').reverse.filterMap (evH h i) =
        new'.reverse.filterMap (evH h i) ++ (match evH h i a with | some e => [e] | none => []) := by
      rw [List.reverse_cons, List.filterMap_append]
      simp only [List.filterMap_cons, List.filterMap_nil]
      cases evH h i a <;> rfl
    rw [hrev]
    cases hev : evH h i a with
    | none =>
      simp only [List.append_nil]
      exact ⟨ihg, fun vt hm => List.mem_cons_of_mem _ (ihs vt hm)⟩
    | some e =>
      simp only
      -- `a` is a vote of height `h`
      obtain ⟨t, r, x, rfl, rfl⟩ : ∃ t r x, a = Action.signVote t h r x ∧ e = mkEv i t r x := by
        cases a with
        | signVote t h' r x =>
          simp only [evH] at hev
          split at hev
          · rename_i hh; subst hh; cases hev; exact ⟨t, r, x, rfl, rfl⟩
          · cases hev
        | _ => simp [evH] at hev
      have haL : Action.signVote t h r x ∈ L := hsub _ (List.mem_cons_self ..)
      -- everything signed before is strictly earlier
      have hearlier : ∀ vt, (⟨i, vt⟩ : Ev Nat Nat) ∈ T ++ new'.reverse.filterMap (evH h i) →
          lt3 h vt.round (thrOf (vty vt.ty)) h r (thrOf t) := by
        intro vt hm
        have hb := ihs vt hm
        exact hsorted.1 h r (thrOf t) (rk_signVote ..) _ hb h vt.round (thrOf (vty vt.ty)) (rk_signVote ..)
      refine ⟨?_, ?_⟩
      · rw [← List.append_assoc]
        apply good_snoc ihg
        intro _
        refine ⟨?_, ?_, ?_, ?_⟩
        · -- mono
          intro vt hs
          have hm : (⟨i, vt⟩ : Ev Nat Nat) ∈ T ++ new'.reverse.filterMap (evH h i) := by
            simpa [sentB, mkEv] using hs
          have := hearlier vt hm
          show vt.round ≤ r
          unfold lt3 at this
          omega
        · -- once
          intro vt hs hty hr
          have hm : (⟨i, vt⟩ : Ev Nat Nat) ∈ T ++ new'.reverse.filterMap (evH h i) := by
            simpa [sentB, mkEv] using hs
          have := hearlier vt hm
          have hty' : vty vt.ty = t := by
            have : vt.ty = ty t := hty
            rw [this, vty_ty]
          have hr' : vt.round = r := hr
          rw [hty', hr'] at this
          unfold lt3 at this
          omega
        · -- just
          intro b hty hval
          have ht : t = .precommit := by
            cases t
            · cases hty
            · rfl
          have hx : x = some b := hval
          subst ht hx
          have := hjust r b haL
          exact polka_mono vals pw T _ r (some b) this
        · -- lock
          intro r0 b hs hty hlt hne
          have ht : t = .prevote := by
            cases t
            · rfl
            · cases hty
          subst ht
          have hm : (⟨i, ⟨.precommit, r0, some b⟩⟩ : Ev Nat Nat) ∈ T ++ new'.reverse.filterMap (evH h i) := by
            simpa [sentB, mkEv] using hs
          have hpc : Action.signVote .precommit h r0 (some b) ∈ L := hsub' _ (ihs _ hm)
          obtain ⟨r'', x'', h1, h2, h3, h4⟩ := hlock r0 r b x hpc haL hlt hne
          exact ⟨r'', x'', h1, h2, h3, polka_mono vals pw T _ r'' x'' h4⟩
      · intro vt hm
        rw [← List.append_assoc] at hm
        rcases List.mem_append.mp hm with hm | hm
        · exact List.mem_cons_of_mem _ (ihs vt hm)
        · simp only [List.mem_singleton] at hm
          have : vt = ⟨ty t, r, x⟩ := by
            simp only [mkEv, Ev.mk.injEq] at hm
            exact hm.2
          subst this
          simp

/-! ### the invariant of a network execution -/

structure GInv (N : Net) (g : GState) : Prop where
  inv : ∀ i, Inv (N.cfg i) (g.st i)
  lock : ∀ i, Lock (N.cfg i) (g.st i)
  /-- the events of a correct sender in the trace are its node's `signVote` actions -/
  sent : ∀ j h t r tgt, N.F j = false → (h, mkEv j t r tgt) ∈ g.tr → Action.signVote t h r tgt ∈ (g.st j).log
  /-- and all of them are in the trace -/
  compl : ∀ j h t r tgt, N.F j = false → Action.signVote t h r tgt ∈ (g.st j).log → (h, mkEv j t r tgt) ∈ g.tr
  /-- every vote in a node's vote sets is in the trace -/
  recv : ∀ i t h r idx tgt, idx < N.powers.length →
    (slotsV (g.st i).votes t h r)[idx]? = some (some tgt) → (h, mkEv idx t r tgt) ∈ g.tr
  good : ∀ h, KV.Agree.Good (valsOf N.powers) (pwOf N.powers) N.F (atH h g.tr)

theorem ginit_inv (N : Net) : GInv N (ginit N) := by
  refine ⟨fun i => init_inv _ _, fun i => init_lock _ _, ?_, ?_, ?_, ?_⟩
  · intro j h t r tgt _ hm; simp [ginit] at hm
  · intro j h t r tgt _ hm; simp [ginit, init] at hm
  · intro i t h r idx tgt _ hs
    have := NoNew_append_fresh [] (n (N.cfg i)) (N.h0 i) 1 t h r idx tgt hs
    simp [slotsV, findRV] at this
  · intro h pre e rest hsplit _
    have : atH h (ginit N).tr = [] := rfl
    rw [this] at hsplit
    simp at hsplit

theorem emitted_eq {σ σ' : State} {new : List Action} (h : σ'.log = new ++ σ.log) :
    emitted σ σ' = new.reverse := by
  unfold emitted
  rw [h]
  simp

theorem delivered_faulty (F : Nat → Bool) (inp : Input) (x : HEv) (hx : x ∈ delivered F inp) :
    F x.2.sender = true := by
  cases inp with
  | vote peer idx t h r tgt sigok =>
    simp only [delivered] at hx
    split at hx
    · rename_i hc
      simp only [List.mem_singleton] at hx
      subst hx
      simp only [Bool.and_eq_true] at hc
      exact hc.2
    · cases hx
  | _ => simp [delivered] at hx

theorem gstep_inv {N : Net} (wf : N.WF) {g : GState} (G : GInv N g) (s : GStep) (ok : StepOk N g s) :
    GInv N (gstep N g s) := by
  obtain ⟨i, nb, inp⟩ := s
  obtain ⟨hFi, hin, hauth⟩ := ok
  simp only at hFi hin hauth
  have I' : Inv (N.cfg i) (step (N.cfg i) (g.st i) nb inp) := step_inv (G.inv i) nb inp hin
  have L' : Lock (N.cfg i) (step (N.cfg i) (g.st i) nb inp) := step_lock (G.inv i) (G.lock i) nb inp hin
  have Fr := step_frame (N.cfg i) (g.st i) nb inp
  obtain ⟨new, hnew⟩ := Fr.log
  have hem : emitted (g.st i) (step (N.cfg i) (g.st i) nb inp) = new.reverse := emitted_eq hnew
  have hst : ∀ j, (gstep N g (i, nb, inp)).st j =
      if j = i then step (N.cfg i) (g.st i) nb inp else g.st j := fun j => rfl
  have htr : (gstep N g (i, nb, inp)).tr =
      g.tr ++ delivered N.F inp ++ new.reverse.filterMap (evOf i) := by
    show g.tr ++ delivered N.F inp ++ (emitted _ _).filterMap (evOf i) = _
    rw [hem]
  have hn : n (N.cfg i) = N.powers.length := by unfold n; rw [wf.powers_eq]
  -- every vote in the vote sets of node `i` after the step is in the trace before its emissions
  have hrecv1 : ∀ t h r idx tgt, idx < N.powers.length →
      (slotsV (step (N.cfg i) (g.st i) nb inp).votes t h r)[idx]? = some (some tgt) →
      (h, mkEv idx t r tgt) ∈ g.tr ++ delivered N.F inp := by
    intro t h r idx tgt hidx hs
    rcases Fr.votes t h r idx tgt hs with h1 | ⟨h1, _⟩
    · exact List.mem_append_left _ (G.recv i t h r idx tgt hidx h1)
    · cases inp with
      | vote peer idx' t' h' r' tgt' sigok =>
        simp only [voteOf] at h1
        split at h1
        · rename_i hsig
          simp only [Option.some.injEq, Prod.mk.injEq] at h1
          obtain ⟨rfl, rfl, rfl, rfl, rfl⟩ := h1
          by_cases hF : N.F idx' = true
          · apply List.mem_append_right
            simp [delivered, hsig, hF]
          · have hF' : N.F idx' = false := by simpa using hF
            exact List.mem_append_left _ (hauth hsig hidx hF')
        · cases h1
      | _ => simp [voteOf] at h1
  refine ⟨?_, ?_, ?_, ?_, ?_, ?_⟩
  · intro j
    rw [hst]
    split
    · rename_i hj; subst hj; exact I'
    · exact G.inv j
  · intro j
    rw [hst]
    split
    · rename_i hj; subst hj; exact L'
    · exact G.lock j
  · -- sent
    intro j h t r tgt hFj hm
    rw [htr] at hm
    rw [hst]
    rcases List.mem_append.mp hm with hm | hm
    · rcases List.mem_append.mp hm with hm | hm
      · have := G.sent j h t r tgt hFj hm
        split
        · rename_i hj; subst hj; rw [hnew]; exact List.mem_append_right _ this
        · exact this
      · have := delivered_faulty N.F inp _ hm
        simp only [mkEv] at this
        rw [hFj] at this
        cases this
    · obtain ⟨a, ha, hev⟩ := List.mem_filterMap.mp hm
      cases a with
      | signVote t' h' r' tgt' =>
        simp only [evOf, Option.some.injEq, Prod.mk.injEq] at hev
        obtain ⟨rfl, he⟩ := hev
        obtain ⟨rfl, rfl, rfl, rfl⟩ := mkEv_inj he
        simp only [if_true]
        rw [hnew]
        exact List.mem_append_left _ (List.mem_reverse.mp ha)
      | _ => simp [evOf] at hev
  · -- compl
    intro j h t r tgt hFj hm
    rw [htr]
    rw [hst] at hm
    split at hm
    · rename_i hj
      subst hj
      rw [hnew] at hm
      rcases List.mem_append.mp hm with hm | hm
      · apply List.mem_append_right
        exact List.mem_filterMap.mpr ⟨_, List.mem_reverse.mpr hm, rfl⟩
      · exact List.mem_append_left _ (List.mem_append_left _ (G.compl _ h t r tgt hFj hm))
    · exact List.mem_append_left _ (List.mem_append_left _ (G.compl j h t r tgt hFj hm))
  · -- recv
    intro j t h r idx tgt hidx hs
    rw [htr]
    rw [hst] at hs
    split at hs
    · exact List.mem_append_left _ (hrecv1 t h r idx tgt hidx hs)
    · exact List.mem_append_left _ (List.mem_append_left _ (G.recv j t h r idx tgt hidx hs))
  · -- good
    intro h
    rw [htr, atH_append, atH_append, atH_evOf]
    have hg1 : KV.Agree.Good (valsOf N.powers) (pwOf N.powers) N.F (atH h g.tr ++ atH h (delivered N.F inp)) := by
      apply good_append_faulty (G.good h)
      intro e he
      exact delivered_faulty N.F inp (h, e) (mem_atH.mp he)
    have hmemT : ∀ e, (h, e) ∈ g.tr ++ delivered N.F inp → e ∈ atH h g.tr ++ atH h (delivered N.F inp) := by
      intro e he
      rw [← atH_append]; exact mem_atH.mpr he
    have hq : ∀ t r x, quorum (N.cfg i).powers (step (N.cfg i) (g.st i) nb inp).votes t h r x →
        3 * power (valsOf N.powers) (pwOf N.powers)
          (fun v => sentB (atH h g.tr ++ atH h (delivered N.F inp)) v ⟨ty t, r, x⟩) >
        2 * power (valsOf N.powers) (pwOf N.powers) (fun _ => true) := by
      intro t r x hq
      rw [wf.powers_eq] at hq
      exact quorum_power N.powers _ _ t h r x
        (fun idx hidx hs => hmemT _ (hrecv1 t h r idx x hidx hs)) hq
    refine (emit_good h i (step (N.cfg i) (g.st i) nb inp).log _ (g.st i).log ?_ ?_ ?_ hg1 new ?_ ?_).1
    · intro r b hm
      have := I'.ag _ hm
      exact hq .prevote r (some b) this.1
    · intro r r' b x h1 h2 h3 h4
      obtain ⟨r'', x'', e1, e2, e3, e4⟩ := L'.hist h r r' b x h1 h2 h3 h4
      exact ⟨r'', x'', e1, e2, e3, hq .prevote r'' x'' e4⟩
    · intro vt hm
      rcases List.mem_append.mp hm with hm | hm
      · have hm' := mem_atH.mp hm
        have := G.sent i h (vty vt.ty) vt.round vt.val hFi (by rw [show mkEv i (vty vt.ty) vt.round vt.val = ⟨i, vt⟩ from mkEv_eta ⟨i, vt⟩]; exact hm')
        exact this
      · have := delivered_faulty N.F inp (h, _) (mem_atH.mp hm)
        simp only at this
        rw [hFi] at this
        cases this
    · rw [← hnew]; exact I'.si.1
    · intro a ha; rw [hnew]; exact ha

theorem grun_inv {N : Net} (wf : N.WF) : ∀ (steps : List GStep) (g : GState), GInv N g → GOk N g steps →
    GInv N (grun N g steps)
  | [], _, G, _ => G
  | s :: rest, _, G, hok => grun_inv wf rest _ (gstep_inv wf G s hok.1) hok.2

/-! ### the theorems, from any start state that satisfies the invariant -/

theorem own_votes_authentic_from (N : Net) (wf : N.WF) (g0 : GState) (G0 : GInv N g0) (steps : List GStep)
    (hok : GOk N g0 steps) (i : Nat) (t : VType) (h r idx : Nat) (tgt : Target) (hidx : idx < N.powers.length)
    (hs : (((grun N g0 steps).st i).slots t h r)[idx]? = some (some tgt)) :
    mkEv idx t r tgt ∈ atH h (grun N g0 steps).tr :=
  mem_atH.mpr ((grun_inv wf steps _ G0 hok).recv i t h r idx tgt hidx hs)

theorem own_quorum_global_from (N : Net) (wf : N.WF) (g0 : GState) (G0 : GInv N g0) (steps : List GStep)
    (hok : GOk N g0 steps) (i : Nat) (t : VType) (h r : Nat) (x : Target)
    (hq : quorum N.powers ((grun N g0 steps).st i).votes t h r x) :
    3 * power (valsOf N.powers) (pwOf N.powers) (fun v => sentB (atH h (grun N g0 steps).tr) v ⟨ty t, r, x⟩) >
      2 * power (valsOf N.powers) (pwOf N.powers) (fun _ => true) :=
  quorum_power N.powers _ _ t h r x
    (fun idx hidx hs => own_votes_authentic_from N wf g0 G0 steps hok i t h r idx x hidx hs) hq

theorem network_good_from (N : Net) (wf : N.WF) (g0 : GState) (G0 : GInv N g0) (steps : List GStep)
    (hok : GOk N g0 steps) (h : Nat) :
    KV.Agree.Good (valsOf N.powers) (pwOf N.powers) N.F (atH h (grun N g0 steps).tr) :=
  (grun_inv wf steps _ G0 hok).good h

theorem commit_has_global_quorum_from (N : Net) (wf : N.WF) (g0 : GState) (G0 : GInv N g0) (steps : List GStep)
    (hok : GOk N g0 steps) (i h b : Nat) (hc : Action.commit h b ∈ ((grun N g0 steps).st i).log) :
    ∃ r, commitQ (valsOf N.powers) (pwOf N.powers) (atH h (grun N g0 steps).tr) r b := by
  have G := grun_inv wf steps _ G0 hok
  obtain ⟨⟨r, hq⟩, _⟩ := (G.inv i).ag _ hc
  rw [wf.powers_eq] at hq
  exact ⟨r, own_quorum_global_from N wf g0 G0 steps hok i .precommit h r (some b) hq⟩

theorem network_agreement_from (N : Net) (wf : N.WF)
    (hF : 3 * power (valsOf N.powers) (pwOf N.powers) N.F <
      power (valsOf N.powers) (pwOf N.powers) (fun _ => true))
    (g0 : GState) (G0 : GInv N g0) (steps : List GStep) (hok : GOk N g0 steps) (i i' h b b' : Nat)
    (hc : Action.commit h b ∈ ((grun N g0 steps).st i).log)
    (hc' : Action.commit h b' ∈ ((grun N g0 steps).st i').log) : b = b' := by
  obtain ⟨r, hq⟩ := commit_has_global_quorum_from N wf g0 G0 steps hok i h b hc
  obtain ⟨r', hq'⟩ := commit_has_global_quorum_from N wf g0 G0 steps hok i' h b' hc'
  exact C01_agreement _ _ N.F _ hF (network_good_from N wf g0 G0 steps hok h) r r' b b' hq hq'

/-! ### the theorems, from `NewConsensusState` at every node -/

/-- **(a) own_votes_authentic.** Every vote in the vote sets of a node of the network is in the
global trace: it was signed by the node of the (correct) validator it claims, or it claims a
faulty validator (and then counts as sent by it). -/
theorem own_votes_authentic (N : Net) (wf : N.WF) (steps : List GStep) (hok : GOk N (ginit N) steps)
    (i : Nat) (t : VType) (h r idx : Nat) (tgt : Target) (hidx : idx < N.powers.length)
    (hs : (((grun N (ginit N) steps).st i).slots t h r)[idx]? = some (some tgt)) :
    mkEv idx t r tgt ∈ atH h (grun N (ginit N) steps).tr :=
  own_votes_authentic_from N wf _ (ginit_inv N) steps hok i t h r idx tgt hidx hs

/-- hence a +2/3 quorum in a node's own vote set is a +2/3 quorum of senders in the global trace:
`polka` for prevotes, `commitQ` for precommits for a block (power monotonicity: the senders in the
node's set are senders in the trace, faulty ones included) -/
theorem own_quorum_global (N : Net) (wf : N.WF) (steps : List GStep) (hok : GOk N (ginit N) steps)
    (i : Nat) (t : VType) (h r : Nat) (x : Target)
    (hq : quorum N.powers ((grun N (ginit N) steps).st i).votes t h r x) :
    3 * power (valsOf N.powers) (pwOf N.powers)
        (fun v => sentB (atH h (grun N (ginit N) steps).tr) v ⟨ty t, r, x⟩) >
      2 * power (valsOf N.powers) (pwOf N.powers) (fun _ => true) :=
  own_quorum_global_from N wf _ (ginit_inv N) steps hok i t h r x hq

/-- the two readings of (a) the abstract theorem uses -/
theorem own_polka_global (N : Net) (wf : N.WF) (steps : List GStep) (hok : GOk N (ginit N) steps)
    (i h r : Nat) (x : Target)
    (hq : quorum N.powers ((grun N (ginit N) steps).st i).votes .prevote h r x) :
    polka (valsOf N.powers) (pwOf N.powers) (atH h (grun N (ginit N) steps).tr) r x :=
  own_quorum_global N wf steps hok i .prevote h r x hq

theorem own_commitQ_global (N : Net) (wf : N.WF) (steps : List GStep) (hok : GOk N (ginit N) steps)
    (i h r b : Nat)
    (hq : quorum N.powers ((grun N (ginit N) steps).st i).votes .precommit h r (some b)) :
    commitQ (valsOf N.powers) (pwOf N.powers) (atH h (grun N (ginit N) steps).tr) r b :=
  own_quorum_global N wf steps hok i .precommit h r (some b) hq

/-- the events of a correct validator in the global trace are `signVote` actions of its node
(with `trace_complete`: authenticity "in the global trace before" = "in the sender's log before") -/
theorem trace_sound (N : Net) (wf : N.WF) (steps : List GStep) (hok : GOk N (ginit N) steps)
    (j h : Nat) (t : VType) (r : Nat) (tgt : Target) (hF : N.F j = false)
    (hm : mkEv j t r tgt ∈ atH h (grun N (ginit N) steps).tr) :
    Action.signVote t h r tgt ∈ ((grun N (ginit N) steps).st j).log :=
  (grun_inv wf steps _ (ginit_inv N) hok).sent j h t r tgt hF (mem_atH.mp hm)

/-- every `signVote` action of a correct node is in the global trace -/
theorem trace_complete (N : Net) (wf : N.WF) (steps : List GStep) (hok : GOk N (ginit N) steps)
    (j h : Nat) (t : VType) (r : Nat) (tgt : Target) (hF : N.F j = false)
    (hm : Action.signVote t h r tgt ∈ ((grun N (ginit N) steps).st j).log) :
    mkEv j t r tgt ∈ atH h (grun N (ginit N) steps).tr :=
  mem_atH.mpr ((grun_inv wf steps _ (ginit_inv N) hok).compl j h t r tgt hF hm)

/-- **(b) network_good.** In every execution of the network the global trace of each height
satisfies the hypothesis `Good` of the abstract agreement theorem: every vote a correct node
signs honours O0 (rounds never decrease), O1 (no equivocation), O2 (precommit only on a polka)
and O3 (the lock rule) with respect to the global prefix of votes sent before it. -/
theorem network_good (N : Net) (wf : N.WF) (steps : List GStep) (hok : GOk N (ginit N) steps) (h : Nat) :
    KV.Agree.Good (valsOf N.powers) (pwOf N.powers) N.F (atH h (grun N (ginit N) steps).tr) :=
  network_good_from N wf _ (ginit_inv N) steps hok h

/-- a `commit` action at a node of the network has a commit quorum in the global trace -/
theorem commit_has_global_quorum (N : Net) (wf : N.WF) (steps : List GStep) (hok : GOk N (ginit N) steps)
    (i h b : Nat) (hc : Action.commit h b ∈ ((grun N (ginit N) steps).st i).log) :
    ∃ r, commitQ (valsOf N.powers) (pwOf N.powers) (atH h (grun N (ginit N) steps).tr) r b :=
  commit_has_global_quorum_from N wf _ (ginit_inv N) steps hok i h b hc

/-- **(c) network_agreement.** With less than one third of the voting power faulty, in every
execution of a network of `Cs` nodes (any interleaving, any Byzantine proposals / blocks / votes,
any validity answers; timeouts as in C03; votes of correct validators authentic), two `commit`
actions for the same height — at the same or at different nodes — are for the same block. -/
theorem network_agreement (N : Net) (wf : N.WF)
    (hF : 3 * power (valsOf N.powers) (pwOf N.powers) N.F <
      power (valsOf N.powers) (pwOf N.powers) (fun _ => true))
    (steps : List GStep) (hok : GOk N (ginit N) steps) (i i' h b b' : Nat)
    (hc : Action.commit h b ∈ ((grun N (ginit N) steps).st i).log)
    (hc' : Action.commit h b' ∈ ((grun N (ginit N) steps).st i').log) : b = b' :=
  network_agreement_from N wf hF _ (ginit_inv N) steps hok i i' h b b' hc hc'

/-- (c) in terms of `Cs.run`: node `i` runs the node model on `proj i steps` -/
theorem network_agreement_run (N : Net) (wf : N.WF)
    (hF : 3 * power (valsOf N.powers) (pwOf N.powers) N.F <
      power (valsOf N.powers) (pwOf N.powers) (fun _ => true))
    (steps : List GStep) (hok : GOk N (ginit N) steps) (i i' h b b' : Nat)
    (hc : Action.commit h b ∈ (run (N.cfg i) (init (N.cfg i) (N.h0 i)) (proj i steps)).log)
    (hc' : Action.commit h b' ∈ (run (N.cfg i') (init (N.cfg i') (N.h0 i')) (proj i' steps)).log) :
    b = b' := by
  rw [← node_run] at hc hc'
  exact network_agreement N wf hF steps hok i i' h b b' hc hc'

/-! ### timeouts: "the ticker delivers what the node scheduled" instead of `InputOk`

`gstart` is `NewConsensusState` followed by `OnStart` (`scheduleRound0`) at every node. -/

/-- a timeout input was handed to the ticker before (any time before, also a stale one) -/
def SchedOk (σ : State) : Input → Prop
  | .timeout h r s => (h, r, s) ∈ σ.sched
  | _ => True

theorem schedOk_inputOk {cfg : Config} {σ : State} (I : Inv cfg σ) (inp : Input) (h : SchedOk σ inp) :
    InputOk σ inp := by
  cases inp with
  | timeout h' r s =>
    have := I.sc (h', r, s) h
    intro hh
    simp only [le3] at this
    omega
  | _ => trivial

/-- the hypotheses on an execution, about the environment only: correct nodes step, timeouts are
scheduled ones, votes of correct validators are authentic -/
def GOkS (N : Net) : GState → List GStep → Prop
  | _, [] => True
  | g, s :: rest =>
    (N.F s.1 = false ∧ SchedOk (g.st s.1) s.2.2 ∧ Auth N g.tr s.2.2) ∧ GOkS N (gstep N g s) rest

theorem gok_of_scheduled {N : Net} (wf : N.WF) : ∀ (steps : List GStep) (g : GState), GInv N g →
    GOkS N g steps → GOk N g steps
  | [], _, _, _ => trivial
  | s :: rest, g, G, hok => by
    have hs : StepOk N g s := ⟨hok.1.1, schedOk_inputOk (G.inv s.1) _ hok.1.2.1, hok.1.2.2⟩
    exact ⟨hs, gok_of_scheduled wf rest _ (gstep_inv wf G s hs) hok.2⟩

def gstart (N : Net) : GState :=
  { st := fun i => schedule (N.h0 i) 1 .newHeight (init (N.cfg i) (N.h0 i)), tr := [] }

theorem gstart_inv (N : Net) : GInv N (gstart N) := by
  refine ⟨fun i => ?_, fun i => (init_lock _ _).schedule _ _ _, ?_, ?_, ?_, ?_⟩
  · exact (init_inv (N.cfg i) (N.h0 i)).schedule (N.h0 i) 1 .newHeight
      (by unfold le3; exact Or.inr ⟨rfl, Or.inr ⟨rfl, Nat.le_refl _⟩⟩)
  · intro j h t r tgt _ hm; simp [gstart] at hm
  · intro j h t r tgt _ hm; simp [gstart, schedule, init] at hm
  · intro i t h r idx tgt hidx hs
    exact (ginit_inv N).recv i t h r idx tgt hidx hs
  · intro h pre e rest hsplit _
    have : atH h (gstart N).tr = [] := rfl
    rw [this] at hsplit
    simp at hsplit

/-- **(c)** for executions in which every timeout is one the node scheduled -/
theorem network_agreement_scheduled (N : Net) (wf : N.WF)
    (hF : 3 * power (valsOf N.powers) (pwOf N.powers) N.F <
      power (valsOf N.powers) (pwOf N.powers) (fun _ => true))
    (steps : List GStep) (hok : GOkS N (gstart N) steps) (i i' h b b' : Nat)
    (hc : Action.commit h b ∈ ((grun N (gstart N) steps).st i).log)
    (hc' : Action.commit h b' ∈ ((grun N (gstart N) steps).st i').log) : b = b' :=
  network_agreement_from N wf hF _ (gstart_inv N) steps
    (gok_of_scheduled wf steps _ (gstart_inv N) hok) i i' h b b' hc hc'

/-- **(b)** for executions in which every timeout is one the node scheduled -/
theorem network_good_scheduled (N : Net) (wf : N.WF) (steps : List GStep) (hok : GOkS N (gstart N) steps)
    (h : Nat) :
    KV.Agree.Good (valsOf N.powers) (pwOf N.powers) N.F (atH h (grun N (gstart N) steps).tr) :=
  network_good_from N wf _ (gstart_inv N) steps (gok_of_scheduled wf steps _ (gstart_inv N) hok) h

/-! ### no stale lock at any node (F36) -/

/-- **stale_lock_never_persists (network).** In every execution of the network, at every node that
satisfied it before: `Cs.NoStale` — a locked node holds no +2/3 prevote majority for another value
at a round in `(lockedRound, round]` -/
theorem stale_lock_never_persists_from (N : Net) (wf : N.WF) : ∀ (steps : List GStep) (g : GState),
    GInv N g → (∀ i, NoStale (N.cfg i) (g.st i)) → GOk N g steps →
    ∀ i, NoStale (N.cfg i) ((grun N g steps).st i)
  | [], _, _, hN, _ => hN
  | s :: rest, g, G, hN, hok => by
    apply stale_lock_never_persists_from N wf rest _ (gstep_inv wf G s hok.1) ?_ hok.2
    intro i
    show NoStale (N.cfg i) (if i = s.1 then step (N.cfg s.1) (g.st s.1) s.2.1 s.2.2 else g.st i)
    split
    · rename_i e
      subst e
      exact step_noStale (G.inv _) (hN _) _ _ hok.1.2.1
    · exact hN i

theorem gstart_noStale (N : Net) (i : Nat) : NoStale (N.cfg i) ((gstart N).st i) := NoStale.of_unlocked rfl

/-- from `gstart`, timeouts the scheduled ones -/
theorem stale_lock_never_persists_network (N : Net) (wf : N.WF) (steps : List GStep)
    (hok : GOkS N (gstart N) steps) (i : Nat) : NoStale (N.cfg i) ((grun N (gstart N) steps).st i) :=
  stale_lock_never_persists_from N wf steps _ (gstart_inv N) (gstart_noStale N)
    (gok_of_scheduled wf steps _ (gstart_inv N) hok) i

/-! ### the hypotheses are decidable on concrete executions -/

instance (N : Net) (tr : List HEv) : (inp : Input) → Decidable (Auth N tr inp)
  | .vote _ idx t h r tgt sigok => by unfold Auth; exact inferInstance
  | .proposal .. => isTrue trivial
  | .block .. => isTrue trivial
  | .timeout .. => isTrue trivial

instance (σ : State) : (inp : Input) → Decidable (TimeoutOk σ inp)
  | .timeout h r _ => by unfold TimeoutOk; exact inferInstance
  | .proposal .. => isTrue trivial
  | .block .. => isTrue trivial
  | .vote .. => isTrue trivial

instance (N : Net) (g : GState) (s : GStep) : Decidable (StepOk N g s) := by
  unfold StepOk InputOk; exact inferInstance

instance decGOk (N : Net) : (g : GState) → (steps : List GStep) → Decidable (GOk N g steps)
  | _, [] => isTrue trivial
  | g, s :: rest =>
    have := decGOk N (gstep N g s) rest
    by unfold GOk; exact inferInstance

instance (σ : State) : (inp : Input) → Decidable (SchedOk σ inp)
  | .timeout h r s => by unfold SchedOk; exact inferInstance
  | .proposal .. => isTrue trivial
  | .block .. => isTrue trivial
  | .vote .. => isTrue trivial

instance decGOkS (N : Net) : (g : GState) → (steps : List GStep) → Decidable (GOkS N g steps)
  | _, [] => isTrue trivial
  | g, s :: rest =>
    have := decGOkS N (gstep N g s) rest
    by unfold GOkS; exact inferInstance

/-! ### non-vacuity: 4 validators of power 10, validator 3 Byzantine; nodes 0 and 1 commit block 7

Node 1 is the proposer of (1, 1).  Validator 3 equivocates (prevote nil to node 0, prevote for
block 9 to node 1 in round 2) and otherwise votes with the others; validator 2 is correct and
silent. -/

def N4 : Net :=
  { powers := [10, 10, 10, 10], cfg := fun i => { cfg4 with me := i }, h0 := fun _ => 1,
    F := fun i => i == 3 }

def exSteps : List GStep :=
  [ (0, none, .timeout 1 1 .newHeight),
    (1, some 7, .timeout 1 1 .newHeight),
    (0, none, .proposal 1 true 1 1 0 7),
    (0, none, .block 1 7 true true),
    (1, none, .proposal 1 true 1 1 0 7),
    (1, none, .block 1 7 true true),
    (0, none, .vote 3 3 .prevote 1 2 none true),
    (1, none, .vote 3 3 .prevote 1 2 (some 9) true),
    (0, none, .vote 0 0 .prevote 1 1 (some 7) true),
    (0, none, .vote 1 1 .prevote 1 1 (some 7) true),
    (0, none, .vote 3 3 .prevote 1 1 (some 7) true),
    (1, none, .vote 0 0 .prevote 1 1 (some 7) true),
    (1, none, .vote 1 1 .prevote 1 1 (some 7) true),
    (1, none, .vote 3 3 .prevote 1 1 (some 7) true),
    (0, none, .vote 0 0 .precommit 1 1 (some 7) true),
    (0, none, .vote 1 1 .precommit 1 1 (some 7) true),
    (0, none, .vote 3 3 .precommit 1 1 (some 7) true),
    (1, none, .vote 0 0 .precommit 1 1 (some 7) true),
    (1, none, .vote 1 1 .precommit 1 1 (some 7) true),
    (1, none, .vote 3 3 .precommit 1 1 (some 7) true) ]

example : N4.WF := ⟨fun _ => rfl, fun _ => rfl⟩
example : 3 * power (valsOf N4.powers) (pwOf N4.powers) N4.F <
    power (valsOf N4.powers) (pwOf N4.powers) (fun _ => true) := by decide
example : GOk N4 (ginit N4) exSteps := by decide
example : GOkS N4 (gstart N4) exSteps := by decide
example : Action.commit 1 7 ∈ ((grun N4 (gstart N4) exSteps).st 0).log ∧
    Action.commit 1 7 ∈ ((grun N4 (gstart N4) exSteps).st 1).log := by decide
example : Action.commit 1 7 ∈ ((grun N4 (ginit N4) exSteps).st 0).log ∧
    Action.commit 1 7 ∈ ((grun N4 (ginit N4) exSteps).st 1).log := by decide
/-- the global trace of height 1: the votes of nodes 0 and 1 once each, in the order they were
signed, and the Byzantine votes where they were delivered -/
example : (atH 1 (grun N4 (ginit N4) exSteps).tr).map (fun e => (e.sender, e.vote.ty, e.vote.round, e.vote.val)) =
    [(0, .prevote, 1, some 7), (1, .prevote, 1, some 7), (3, .prevote, 2, none), (3, .prevote, 2, some 9),
     (3, .prevote, 1, some 7), (0, .precommit, 1, some 7), (3, .prevote, 1, some 7), (1, .precommit, 1, some 7),
     (3, .precommit, 1, some 7), (3, .precommit, 1, some 7)] := by decide
/-- a vote claiming the correct validator 2 that node 2 never signed is excluded by `Auth` -/
example : ¬ GOk N4 (ginit N4) (exSteps ++ [(0, none, .vote 2 2 .prevote 2 1 (some 9) true)]) := by decide

/-! ### the hypotheses are necessary -/

/-- without authenticity: votes "of" the correct validators 1 and 2 that they never signed make
node 0 commit block 7, forged votes "of" 0 and 2 make node 1 commit block 8 — the model admits
the run, `GOk` rejects it -/
def forgedSteps : List GStep :=
  [ (0, none, .timeout 1 1 .newHeight),
    (1, some 8, .timeout 1 1 .newHeight),
    (0, none, .proposal 1 true 1 1 0 7),
    (0, none, .block 1 7 true true),
    (1, none, .proposal 1 true 1 1 0 8),
    (1, none, .block 1 8 true true),
    (0, none, .vote 0 0 .prevote 1 1 (some 7) true),
    (0, none, .vote 1 1 .prevote 1 1 (some 7) true),
    (0, none, .vote 2 2 .prevote 1 1 (some 7) true),
    (1, none, .vote 1 1 .prevote 1 1 (some 8) true),
    (1, none, .vote 0 0 .prevote 1 1 (some 8) true),
    (1, none, .vote 2 2 .prevote 1 1 (some 8) true),
    (0, none, .vote 0 0 .precommit 1 1 (some 7) true),
    (0, none, .vote 1 1 .precommit 1 1 (some 7) true),
    (0, none, .vote 2 2 .precommit 1 1 (some 7) true),
    (1, none, .vote 1 1 .precommit 1 1 (some 8) true),
    (1, none, .vote 0 0 .precommit 1 1 (some 8) true),
    (1, none, .vote 2 2 .precommit 1 1 (some 8) true) ]

theorem authenticity_needed_counterexample :
    Action.commit 1 7 ∈ ((grun N4 (ginit N4) forgedSteps).st 0).log ∧
    Action.commit 1 8 ∈ ((grun N4 (ginit N4) forgedSteps).st 1).log ∧
    ¬ GOk N4 (ginit N4) forgedSteps := by decide

/-- with half of the power faulty (validators 2 and 3; 2 is the proposer of (1, 1)) the faulty
validators show block 7 to node 0 and block 8 to node 1: all hypotheses but `< 1/3` hold, and the
two correct nodes commit different blocks -/
def N4half : Net :=
  { powers := [10, 10, 10, 10], cfg := fun i => { cfg4 with me := i, proposer := fun _ r => (r + 1) % 4 },
    h0 := fun _ => 1, F := fun i => i == 2 || i == 3 }

def splitSteps : List GStep :=
  [ (0, none, .timeout 1 1 .newHeight),
    (1, none, .timeout 1 1 .newHeight),
    (0, none, .proposal 2 true 1 1 0 7),
    (0, none, .block 1 7 true true),
    (1, none, .proposal 2 true 1 1 0 8),
    (1, none, .block 1 8 true true),
    (0, none, .vote 0 0 .prevote 1 1 (some 7) true),
    (0, none, .vote 2 2 .prevote 1 1 (some 7) true),
    (0, none, .vote 3 3 .prevote 1 1 (some 7) true),
    (1, none, .vote 1 1 .prevote 1 1 (some 8) true),
    (1, none, .vote 2 2 .prevote 1 1 (some 8) true),
    (1, none, .vote 3 3 .prevote 1 1 (some 8) true),
    (0, none, .vote 0 0 .precommit 1 1 (some 7) true),
    (0, none, .vote 2 2 .precommit 1 1 (some 7) true),
    (0, none, .vote 3 3 .precommit 1 1 (some 7) true),
    (1, none, .vote 1 1 .precommit 1 1 (some 8) true),
    (1, none, .vote 2 2 .precommit 1 1 (some 8) true),
    (1, none, .vote 3 3 .precommit 1 1 (some 8) true) ]

theorem one_third_needed_counterexample :
    N4half.WF ∧ GOk N4half (ginit N4half) splitSteps ∧
    Action.commit 1 7 ∈ ((grun N4half (ginit N4half) splitSteps).st 0).log ∧
    Action.commit 1 8 ∈ ((grun N4half (ginit N4half) splitSteps).st 1).log ∧
    ¬ (3 * power (valsOf N4half.powers) (pwOf N4half.powers) N4half.F <
        power (valsOf N4half.powers) (pwOf N4half.powers) (fun _ => true)) :=
  ⟨⟨fun _ => rfl, fun _ => rfl⟩, by decide, by decide, by decide, by decide⟩

end KV.Props.C01Cs
