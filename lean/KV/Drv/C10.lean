import KV.Model.Evm
import KV.Base.Keccak
-- kvdrv: evm KV.Drv.C10.step ()
/-! line protocol for the KVM model (property C10)

`run  set=<pre|post> ro=<0|1> gas=<n> value=<n> code=<hex> input=<hex> storage=<k:v,...>`
  → `ok|revert ret=<hex> storage=<sorted k:v of the contract> logs=<topics/data,...> gas=<left>` |
    `err <class> ret=- storage=.. logs=- gas=0` | `unsupported`
`runw …same… [auxb2=<hex>] [auxc3=<hex>]` (helper accounts 0xb2 / 0xc3 with balance 300)
  → `<status> ret=<hex> world=<addr{b=<balance> n=<nonce> s=<k:v,...>} …> logs=<addr:topics/data,...> gas=<left>`
`create set=<pre|post> gas=<n> value=<n> addr=<n> code=<hex>` (top-level `KVM.Create` by the origin) → as `runw`
`jd code=<hex> dests=<d,...>` → one `0/1` per destination (`validJumpdest`).

The environment constants are the ones the harness (`harness/overlay/kvm/c10_test.go`) uses. -/
namespace KV.Drv.C10
open KV KV.Evm

def parsePair (s : String) : Option (Nat × Nat) :=
  match s.splitOn ":" with
  | [k, v] => match k.toNat?, v.toNat? with
    | some k, some v => some (k, v)
    | _, _ => none
  | _ => none

def parseStorage (s : String) : Option Storage :=
  if s = "-" then some [] else (s.splitOn ",").mapM parsePair

def insertSorted {α} (key : α → Nat) (p : α) : List α → List α
  | [] => [p]
  | q :: rest => if key p ≤ key q then p :: q :: rest else q :: insertSorted key p rest

def sortBy {α} (key : α → Nat) (l : List α) : List α := l.foldl (fun acc p => insertSorted key p acc) []

def showStorage (st : Storage) : String :=
  showList (fun p => s!"{p.1}:{p.2}") (sortBy (·.1) (st.filter (fun p => p.2 != 0)))

def showLog (l : Log) : String :=
  ".".intercalate (l.1.map toString) ++ "/" ++ toHexTok l.2

def className : ErrClass → String
  | .oog => "oog" | .gasovf => "gasovf" | .underflow => "underflow" | .overflow => "overflow"
  | .invalid => "invalid" | .jump => "jump" | .wprot => "wprot" | .fuel => "fuel"
  | .depth => "depth" | .balance => "balance" | .maxcode => "maxcode" | .codestore => "codestore"
  | .collision => "collision"

def statusName : Status → String
  | .ok => "ok" | .revert => "revert" | .err c => s!"err {className c}" | .unsupported => "unsupported"

def addrA : Nat := 0xa1
def origin : Nat := 0xee

/-- single-contract view: storage of 0xa1, logs without addresses (oldest first) -/
def showResult (r : CallOut) : String :=
  match r.status with
  | .unsupported => "unsupported"
  | st =>
    let logs := (r.world.logs.reverse.map (fun p => showLog p.2))
    s!"{statusName st} ret={toHexTok r.ret} storage={showStorage (r.world.get addrA).storage} logs={showList id logs} gas={r.gasLeft}"

def showAcct (p : Word × Account) : String :=
  s!"{p.1}\{b={p.2.balance} n={p.2.nonce} c={p.2.code.length} s={showStorage p.2.storage}}"

def acctVisible (x : Account) : Bool :=
  !(x.nonce == 0 && x.balance == 0 && x.code.isEmpty && (x.storage.filter (fun p => p.2 != 0)).isEmpty)

def showWorld (w : World) : String :=
  let live := w.accts.filter (fun p => acctVisible p.2)
  " ".intercalate ((sortBy (·.1) live).map showAcct)

def showResultW (r : CallOut) : String :=
  match r.status with
  | .unsupported => "unsupported"
  | st =>
    let logs := (r.world.logs.reverse.map (fun p => s!"{p.1}:{showLog p.2}"))
    s!"{statusName st} ret={toHexTok r.ret} world={showWorld r.world} logs={showList id logs} gas={r.gasLeft}"

def txEnv (post : Bool) : TxEnv :=
  { hash := KV.keccak256, post, origin := origin, gasprice := 7, coinbase := 0xcb, timestamp := 1600000000,
    number := 1000, gaslimit := 8000000, chainid := 24 }

def mkWorld (code : Bytes) (st : Storage) (aux : List (Nat × Bytes)) : World :=
  { accts := [(origin, { balance := 1000000, nonce := 0, code := [], storage := [] }),
              (addrA, { balance := 5000, nonce := 0, code := code, storage := st })]
             ++ aux.map (fun p => (p.1, { balance := 300, nonce := 0, code := p.2, storage := [] })),
    logs := [] }

def auxOf (toks : List String) : List (Nat × Bytes) :=
  ([(0xb2, "auxb2"), (0xc3, "auxc3")] : List (Nat × String)).filterMap fun p => (kvHex toks p.2).map fun c => (p.1, c)

def runCmd (rest : List String) (full : Bool) : String :=
  match kv rest "set", kvNat rest "ro", kvNat rest "gas", kvNat rest "value", kvHex rest "code", kvHex rest "input",
        (kv rest "storage").bind parseStorage with
  | some set, some ro, some gas, some value, some code, some input, some st =>
    if set ≠ "pre" ∧ set ≠ "post" then "bad-op" else
    let w := mkWorld code st (if full then auxOf rest else [])
    let req : CallReq := { static := ro != 0, readOnly := false, caller := origin, addr := addrA, input := input,
                           gas := gas, value := if ro != 0 then 0 else value }
    let out := call (txEnv (set == "post")) w req
    if full then showResultW out else showResult out
  | _, _, _, _, _, _, _ => "bad-op"

def step (s : Unit) (line : String) : Unit × String :=
  let toks := tokens line
  let out :=
    match toks with
    | "run" :: rest => runCmd rest false
    | "runw" :: rest => runCmd rest true
    | "create" :: rest =>
      match kv rest "set", kvNat rest "gas", kvNat rest "value", kvNat rest "addr", kvHex rest "code" with
      | some set, some gas, some value, some addr, some code =>
        if set ≠ "pre" ∧ set ≠ "post" then "bad-op" else
        let w : World := { accts := [(origin, { balance := 1000000, nonce := 0, code := [], storage := [] })], logs := [] }
        showResultW (createFrame (txEnv (set == "post")) w origin addr code gas value)
      | _, _, _, _, _ => "bad-op"
    | "jd" :: rest =>
      match kvHex rest "code", (kv rest "dests").bind natList with
      | some code, some ds => String.join (ds.map fun d => if validJumpdest code d then "1" else "0")
      | _, _ => "bad-op"
    | _ => "bad-op"
  (s, out)

end KV.Drv.C10
