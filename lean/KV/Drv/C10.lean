import KV.Model.Evm
import KV.Base.Keccak
-- kvdrv: evm KV.Drv.C10.step ()
/-! line protocol for the KVM single-frame model (property C10)

`run set=<pre|post> ro=<0|1> gas=<n> value=<n> code=<hex> input=<hex> storage=<k:v,...>`
  → `ok|revert ret=<hex> storage=<sorted k:v> logs=<topics/data,...> gas=<left>` |
    `err <class> ret=- storage=.. logs=- gas=0` | `unsupported`
`jd code=<hex> dests=<d,...>` → one `0/1` per destination (`validJumpdest`).

The environment constants are the ones the harness (`harness/overlay/kvm/c10_test.go`) uses. -/
namespace KV.Drv.C10
open KV KV.Evm

def parsePair (s : String) : Option (Nat × Nat) :=
  match s.splitOn ":" with
  | [k, v] => match k.toNat?, v.toNat? with
    | some k, some v => some (k, v)
    | _, _ => none
  | _ => none

def parseStorage (s : String) : Option Storage :=
  if s = "-" then some [] else (s.splitOn ",").mapM parsePair

def insertSorted (p : Nat × Nat) : List (Nat × Nat) → List (Nat × Nat)
  | [] => [p]
  | q :: rest => if p.1 ≤ q.1 then p :: q :: rest else q :: insertSorted p rest

def showStorage (st : Storage) : String :=
  let nz := st.filter (fun p => p.2 != 0)
  let sorted := nz.foldl (fun acc p => insertSorted p acc) []
  showList (fun p => s!"{p.1}:{p.2}") sorted

def showLog (l : Log) : String :=
  ".".intercalate (l.1.map toString) ++ "/" ++ toHexTok l.2

def className : ErrClass → String
  | .oog => "oog" | .gasovf => "gasovf" | .underflow => "underflow" | .overflow => "overflow"
  | .invalid => "invalid" | .jump => "jump" | .wprot => "wprot" | .fuel => "fuel"

def showResult (r : Result) : String :=
  let tail := s!"ret={toHexTok r.ret} storage={showStorage r.storage} logs={showList showLog r.logs} gas={r.gasLeft}"
  match r.status with
  | .ok => "ok " ++ tail
  | .revert => "revert " ++ tail
  | .err c => s!"err {className c} " ++ tail
  | .unsupported => "unsupported"

def mkEnv (post ro : Bool) (code input : Bytes) (value : Nat) : Env :=
  { code, input, hash := KV.keccak256, post, readOnly := ro,
    address := 0xa1, caller := 0xee, origin := 0xee, callvalue := value, gasprice := 7,
    coinbase := 0xcb, timestamp := 1600000000, number := 1000, gaslimit := 8000000, chainid := 24 }

def step (s : Unit) (line : String) : Unit × String :=
  let toks := tokens line
  let out :=
    match toks with
    | "run" :: rest =>
      match kv rest "set", kvNat rest "ro", kvNat rest "gas", kvNat rest "value", kvHex rest "code", kvHex rest "input",
            (kv rest "storage").bind parseStorage with
      | some set, some ro, some gas, some value, some code, some input, some st =>
        if set ≠ "pre" ∧ set ≠ "post" then "bad-op" else
        showResult (call (mkEnv (set == "post") (ro != 0) code input value) st gas)
      | _, _, _, _, _, _, _ => "bad-op"
    | "jd" :: rest =>
      match kvHex rest "code", (kv rest "dests").bind natList with
      | some code, some ds => String.join (ds.map fun d => if validJumpdest code d then "1" else "0")
      | _, _ => "bad-op"
    | _ => "bad-op"
  (s, out)

end KV.Drv.C10
