import KV.Model.Recovery
import KV.Base.Hex
-- kvdrv: recovery KV.Drv.C05.step ()
/-! line protocol for the durable-write / recovery model (property C05)

* `order mode=<flush|mem> heights=<n>` → the durable events of a run of n heights, in order
  (`B`=blockBatch `E`=walEnd `A`=appBatch `T`=trieFlush `H`=headBatch `C`=cstateBatch)
* `rec mode=<flush|mem> evs=<tok,tok,…>` → what start-up finds on the disk made of these events
  (`V<h>` = the own precommit of height h is in the WAL image):
  `store=<n> head=<n> state=<n> replay=<ok|refused|nomarker|panic> after=<n>` -/
namespace KV.Drv.C05
open KV KV.Recovery

def modeOf : String → Option Mode
  | "flush" => some .flush
  | "mem" => some .mem
  | _ => none

def evOf (t : String) : Option Ev :=
  match t.toList with
  | c :: rest =>
    match (String.ofList rest).toNat? with
    | some h =>
      match c with
      | 'V' => some (.precommitLogged h)
      | 'B' => some (.blockBatch h)
      | 'E' => some (.walEnd h)
      | 'A' => some (.appBatch h)
      | 'T' => some (.trieFlush h)
      | 'H' => some (.headBatch h)
      | 'C' => some (.cstateBatch h)
      | _ => none
    | none => none
  | [] => none

def showEv : Ev → Option String
  | .precommitLogged _ => none
  | .blockBatch h => some s!"B{h}"
  | .walEnd h => some s!"E{h}"
  | .appBatch h => some s!"A{h}"
  | .trieFlush h => some s!"T{h}"
  | .headBatch h => some s!"H{h}"
  | .cstateBatch h => some s!"C{h}"

def showVerdict : Verdict → String
  | .ok => "ok" | .refused => "refused" | .nomarker => "nomarker" | .panic => "panic"

def showOutcome (o : Outcome) : String :=
  s!"store={o.store} head={o.head} state={o.state} replay={showVerdict o.replay} after={o.after}"

def step (s : Unit) (line : String) : Unit × String :=
  let toks := tokens line
  let out :=
    match toks.head? with
    | some "order" =>
      match (kv toks "mode").bind modeOf, kvNat toks "heights" with
      | some m, some n => ",".intercalate ((runEvs m n).filterMap showEv)
      | _, _ => "bad-op"
    | some "rec" =>
      match (kv toks "mode").bind modeOf, kv toks "evs" with
      | some _, some e =>
        let ts := if e == "" then [] else e.splitOn ","
        match ts.mapM evOf with
        | some evs => showOutcome (Disk.genesis.applyAll evs).recover
        | none => "bad-op"
      | some _, none => showOutcome Disk.genesis.recover
      | _, _ => "bad-op"
    | _ => "bad-op"
  (s, out)

end KV.Drv.C05
