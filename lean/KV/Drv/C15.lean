import KV.Model.Wal
import KV.Base.Crc32c
-- kvdrv: wal KV.Drv.C15.step KV.Drv.C15.init
/-! line protocol for the WAL model (property C15). The checksum is CRC-32C; the payload parser
and re-serialiser are a table sent by the harness (`tab` lines: what the real
`proto.Unmarshal`+`WALFromProto` / `WALToProto`+`Marshal` do on the payloads that occur in the
case); a payload that is not in the table is rejected. -/
namespace KV.Drv.C15
open KV KV.Wal

structure St where
  max : Nat := 0
  tab : List (Bytes × PKind × Bytes) := []    -- payload, class, re-serialisation
  grp : Group := ⟨[], []⟩
  rdr : GReader := ⟨[], []⟩

def init : St := {}

def St.cfg (s : St) : Cfg where
  crc := crc32c
  max := s.max
  parse := fun p => (s.tab.find? (fun e => e.1 == p)).map (fun e => e.2.1)
  reser := fun p => match s.tab.find? (fun e => e.1 == p) with
    | some e => e.2.2
    | none => p

def parseKind : String → Option RKind
  | "g" => some .group
  | "f" => some .file
  | "b" => some .bytes
  | _ => none

def parseCls (s : String) : Option PKind :=
  if s = "O" then some .other
  else match s.toList with
    | 'E' :: r => (String.ofList r).toInt?.map PKind.endHeight
    | _ => none

/-- files: hex strings separated by '/' -/
def parseFiles (s : String) : Option (List Bytes) := (s.splitOn "/").mapM ofHex

def showFiles (fs : List Bytes) : String := "/".intercalate (fs.map toHexTok)

def crcHex (p : Bytes) : String := toHex (be32 (crc32c p).toNat)

def showMsg (c : Cfg) (p : Bytes) : String :=
  let q := c.reser p
  s!"{q.length}.{crcHex q}"

def showVerdict : Verdict → String
  | .eof => "eof"
  | .corrupt => "corrupt"

def showAll (c : Cfg) (r : List Bytes × Verdict) : String :=
  showList (showMsg c) r.1 ++ " " ++ showVerdict r.2

def verdictChar : Verdict → String
  | .eof => "e"
  | .corrupt => "c"

def compact (r : List Bytes × Verdict) : String := toString r.1.length ++ verdictChar r.2

/-- run-length encoding `tok x n`, as the harness prints it -/
def rle (toks : List String) : String :=
  let groups := toks.splitBy (· == ·)
  if groups.isEmpty then "-"
  else " ".intercalate (groups.map fun g => s!"{g.headD ""}x{g.length}")

def showErr : RErr → String
  | .ok => "ok"
  | .eof => "eof"
  | .other => "err"

def step (s : St) (line : String) : St × String :=
  let c := s.cfg
  match tokens line with
  | "case" :: rest =>
    match kvNat rest "max" with
    | some m => ({ max := m }, "ok")
    | none => (s, "bad-op")
  | ["tab", p, cls, q] =>
    match ofHex p, parseCls cls, (if q = "=" then ofHex p else ofHex q) with
    | some p, some k, some q => ({ s with tab := s.tab ++ [(p, k, q)] }, "ok")
    | _, _, _ => (s, "bad-op")
  | ["enc", h] =>
    match ofHex h with
    | some d => (s, match encode c d with | some r => toHex r | none => "toobig")
    | none => (s, "bad-op")
  | ["dec", k, h] =>
    match parseKind k, ofHex h with
    | some k, some bs => (s, showAll c (decodeAll c k bs) ++ s!" a={maxAlloc c k bs}")
    | _, _ => (s, "bad-op")
  | ["decg", i, fs] =>
    match i.toNat?, parseFiles fs with
    | some i, some fs => (s, showAll c (decodeAllG c (openAt fs i)))
    | _, _ => (s, "bad-op")
  | ["truncall", k, h] =>
    match parseKind k, ofHex h with
    | some k, some bs =>
      (s, rle ((List.range (bs.length + 1)).map fun t => compact (decodeAll c k (bs.take t))))
    | _, _ => (s, "bad-op")
  | ["flipall", k, h] =>
    match parseKind k, ofHex h with
    | some k, some bs =>
      (s, rle ((List.range (8 * bs.length)).map fun i => compact (decodeAll c k (flipBit bs i))))
    | _, _ => (s, "bad-op")
  | ["search", hh, ign, fs] =>
    match hh.toInt?, parseFiles fs with
    | some h, some fs =>
      (s, match search c fs h (ign = "1") with
        | .found g => "found " ++ showAll c (decodeAllG c g)
        | .notFound => "notfound"
        | .err => "error")
    | _, _ => (s, "bad-op")
  | ["repair", h] =>
    match ofHex h with
    | some bs =>
      let r := repair c bs
      (s, (if r.2 then "ok " else "fail ") ++ toHexTok r.1)
    | none => (s, "bad-op")
  -- the group writer / reader (lib/autofile)
  | ["gcase"] => ({ s with grp := ⟨[], []⟩, rdr := ⟨[], []⟩ }, "ok")
  | ["gappend", h] =>
    match ofHex h with
    | some bs => ({ s with grp := s.grp.step c (.append bs) }, "ok")
    | none => (s, "bad-op")
  | ["gwrite", h] =>
    match ofHex h with
    | some bs => ({ s with grp := s.grp.step c (.write bs) }, "ok")
    | none => (s, "bad-op")
  | ["gcheck", l] =>
    match l.toNat? with
    | some l => let g := s.grp.step c (.check l); ({ s with grp := g }, toString g.old.length)
    | none => (s, "bad-op")
  | ["grotate"] => let g := s.grp.step c .rotate; ({ s with grp := g }, toString g.old.length)
  | ["gfiles"] => (s, showFiles s.grp.files)
  | ["gopen", i] =>
    match i.toNat? with
    | some i => ({ s with rdr := openAt s.grp.files i }, "ok")
    | none => (s, "bad-op")
  | ["gread", n] =>
    match n.toNat? with
    | some n =>
      let r := gread n s.rdr
      ({ s with rdr := r.2.2 }, toHexTok r.1 ++ " " ++ showErr r.2.1)
    | none => (s, "bad-op")
  | _ => (s, "bad-op")

end KV.Drv.C15
