import KV.Base.Hex
import KV.Model.VoteSet
-- kvdrv: voteset KV.Drv.C02.step KV.Drv.C02.init
/-! line protocol for the VoteSet / commit model (property C02)

```
case h=<height> r=<round> t=<type> pw=<p0,p1,…>          reset; validator i has address i+1
vote nil | vote i= a= h= r= t= b=<hash.total.phash> ts= s=<sig id> ok=<0|1>
peer p=<peer id> b=<block id>
q | qb b=<block id> | get i=<index> | mkcommit
verify b=<block id> h=<height> c=nil|<height>;<round>;<block id>;<flag/addr/ts/sig,…|-> oks=<bit per signature>
```
`ok=`/`oks=` carry the result of signature verification (for the vote's claimed address / for the
validator at that index over the vote reconstructed by `Commit.GetVote`). -/
namespace KV.Drv.C02
open KV KV.VoteSet

def init : VoteSet := VoteSet.new 1 0 1 []

def parseBid (s : String) : Option BlockId :=
  match (s.splitOn ".").mapM String.toNat? with
  | some [a, b, c] => some ⟨a, b, c⟩
  | _ => none

def showBid (b : BlockId) : String := s!"{b.hash}.{b.total}.{b.phash}"
def showOBid : Option BlockId → String
  | some b => showBid b
  | none => "-"
def showBits (l : List Bool) : String :=
  if l.isEmpty then "-" else String.ofList (l.map fun b => if b then '1' else '0')
def showB (b : Bool) : String := if b then "1" else "0"

def showAddErr : Option AddErr → String
  | none => "-"
  | some .nilVote => "nil"
  | some .index => "index"
  | some .address => "address"
  | some .step => "step"
  | some .nondet => "nondet"
  | some .badsig => "badsig"
  | some .conflict => "conflict"
  | some .panic => "panic"

def showVErr : Option VErr → String
  | none => "ok"
  | some .nilCommit => "err=nilcommit"
  | some .nilBlock => "err=nilblock"
  | some .noSigs => "err=nosigs"
  | some (.badFlag i) => s!"err=badflag:{i}"
  | some (.absentData i) => s!"err=absentdata:{i}"
  | some (.sigMissing i) => s!"err=sigmissing:{i}"
  | some .size => "err=size"
  | some .height => "err=height"
  | some .blockId => "err=blockid"
  | some (.wrongSig i) => s!"err=wrongsig:{i}"
  | some (.power g n) => s!"err=power:{g}:{n}"
  | some .panic => "panic"

def showVote (v : Vote) : String :=
  s!"i={v.idx} a={v.addr} h={v.height} r={v.round} t={v.type} b={showBid v.bid} ts={v.ts} s={v.sig}"

def showSlot : Option Vote → String
  | none => "-"
  | some v => s!"{showBid v.bid}/{v.sig}"

def showCommitSig (cs : CommitSig) : String := s!"{cs.flag}/{cs.addr}/{cs.ts}/{cs.sig}"

def parseCommitSig (s : String) : Option CommitSig :=
  match (s.splitOn "/").mapM String.toNat? with
  | some [f, a, t, g] => some ⟨f, a, t, g⟩
  | _ => none

def parseCommit (s : String) : Option (Option Commit) :=
  if s = "nil" then some none
  else match s.splitOn ";" with
    | [h, r, b, sigs] =>
      match h.toNat?, r.toNat?, parseBid b,
        (if sigs = "-" then some [] else (sigs.splitOn ",").mapM parseCommitSig) with
      | some h, some r, some b, some sigs => some (some ⟨b, sigs, h, r⟩)
      | _, _, _, _ => none
    | _ => none

def parseVote (t : List String) : Option Vote :=
  match kvNat t "i", kvNat t "a", kvNat t "h", kvNat t "r", kvNat t "t", (kv t "b").bind parseBid,
    kvNat t "ts", kvNat t "s" with
  | some i, some a, some h, some r, some ty, some b, some ts, some s => some ⟨i, a, h, r, ty, b, ts, s⟩
  | _, _, _, _, _, _, _, _ => none

def summary (s : VoteSet) : String := s!"sum={s.sum} maj={showOBid s.maj23}"

def step (s : VoteSet) (line : String) : VoteSet × String :=
  match tokens line with
  | "case" :: t =>
    match kvNat t "h", kvNat t "r", kvNat t "t", (kv t "pw").bind intList with
    | some h, some r, some ty, some pws =>
      let vals : Vals := (List.range pws.length).zipWith (fun i p => ⟨i + 1, p⟩) pws
      let s' := VoteSet.new h r ty vals
      (s', s!"ok n={vals.length} total={totalPower vals} q={quorum (totalPower vals)}")
    | _, _, _, _ => (s, "bad-op")
  | ["vote", "nil"] =>
    let (s', r) := addVote (fun _ _ _ => false) s none
    (s', s!"added={showB r.added} err={showAddErr r.err} {summary s'}")
  | "vote" :: t =>
    match parseVote t, kvNat t "ok" with
    | some v, some ok =>
      let (s', r) := addVote (fun _ _ _ => ok = 1) s (some v)
      (s', s!"added={showB r.added} err={showAddErr r.err} {summary s'}")
    | _, _ => (s, "bad-op")
  | "peer" :: t =>
    match kvNat t "p", (kv t "b").bind parseBid with
    | some p, some b =>
      let (s', r) := setPeerMaj23 s p b
      (s', match r with | .ok => "ok" | .conflict => "conflict")
    | _, _ => (s, "bad-op")
  | ["q"] =>
    (s, s!"maj={showOBid (twoThirdsMajority s)} has={showB (hasTwoThirdsMajority s)} any={showB (hasTwoThirdsAny s)} all={showB (hasAll s)} sum={s.sum} bits={showBits (bitArray s)} votes={showList showSlot s.votes}")
  | "qb" :: t =>
    match (kv t "b").bind parseBid with
    | some b =>
      match lookup b.key s.byBlock with
      | some bv => (s, s!"bits={showBits bv.bits} sum={bv.sum} peer={showB bv.peerMaj23} votes={showList showSlot bv.votes}")
      | none => (s, "nil")
    | none => (s, "bad-op")
  | "get" :: t =>
    match kvNat t "i" with
    | some i => (s, match getByIndex s i with | some v => showVote v | none => "-")
    | none => (s, "bad-op")
  | ["mkcommit"] =>
    match makeCommit s with
    | none => (s, "panic")
    | some c => (s, s!"ok b={showBid c.bid} h={c.height} r={c.round} sigs={showList showCommitSig c.sigs}")
  | "verify" :: t =>
    match (kv t "b").bind parseBid, kvNat t "h", (kv t "c").bind parseCommit, kv t "oks" with
    | some b, some h, some oc, some oks =>
      let bits := oks.toList.map (· == '1')
      -- validator i has address i+1: the check for address a is the bit of index a-1
      let sv : SigCheck := fun a _ _ => a ≥ 1 && bits.getD (a - 1) false
      (s, showVErr (verifyCommit sv s.vals b h oc))
    | _, _, _, _ => (s, "bad-op")
  | _ => (s, "bad-op")

end KV.Drv.C02
