import KV.Base.Hex
import KV.Model.Transition
-- kvdrv: transition KV.Drv.C09.step KV.Drv.C09.init
/-! line protocol for the transaction-transition model (property C09)

```
case <text>                                   reset                                         → ok
world n= bal=<b0,..> nonce=<n0,..> code=<0|1,..> pool= cb=<idx> legacy=<0|1>
                                              pre-state of the universe (accounts 0..n-1)   → ok
apply  from= to=<idx|-1> new=<idx|-1> nonce= gas= price= value= z= nz=
       vmgas= vmref= vmerr=<none|revert|fail> moves=<idx:delta,..|-> dead=<idx,..|->
                                              TransitionDb (+ Finalise on success); on rejection
                                              the world/pool as the code leaves them
commit <same fields>                          one iteration of commitBlock's loop (revert on rejection)
```
answers: `err=<class> pool= snonce= bal=<..>` | `ok used= given= status= pool= snonce= newnonce= bal=<..>`
(`given` = gas handed to the top-level frame).
`vmgas/vmref/vmerr/moves/dead` are the OBSERVED outcome of the top-level interpreter run (gas left,
refund counter, error class, balance changes it made, accounts it self-destructed); the model
computes everything else. -/
namespace KV.Drv.C09
open KV KV.Transition

structure St where
  world : World := []
  n : Nat := 0
  pool : Nat := 0
  cb : Nat := 0
  legacy : Bool := false

def init : St := {}

def mkWorld (bal : List Int) (non : List Nat) (code : List Nat) : World :=
  (List.range bal.length).map fun i =>
    (i, { bal := bal.getD i 0, nonce := non.getD i 0, code := code.getD i 0 ≠ 0 })

def parseMove (s : String) : Option (Nat × Int) :=
  match s.splitOn ":" with
  | [a, d] => match a.toNat?, d.toInt? with
    | some a, some d => some (a, d)
    | _, _ => none
  | _ => none

def parseMoves (s : String) : Option (List (Nat × Int)) :=
  if s = "-" then some [] else (s.splitOn ",").mapM parseMove

def parseErr : String → Option VmErr
  | "none" => some .none
  | "revert" => some .revert
  | "fail" => some .fail
  | _ => none

/-- the interpreter stub: answers with the observed outcome -/
def stubRun (gasLeft refund : Nat) (err : VmErr) (moves : List (Nat × Int)) : Run := fun w _ =>
  { world := moves.foldl (fun w m => addBal w m.1 m.2) w, gasLeft := gasLeft, refund := refund, err := err,
    burned := - (moves.foldl (fun s m => s + m.2) 0) }

def errName : TxErr → String
  | .nonceHigh => "nonce-high" | .nonceLow => "nonce-low" | .fundsGas => "funds-gas" | .pool => "pool"
  | .intrinsic => "intrinsic" | .fundsTransfer => "funds-transfer" | .overflow => "overflow"
  | .poolPanic => "pool-panic"

def balText (n : Nat) (w : World) : String :=
  showList (fun i => toString (get w i).bal) (List.range n)

def doTx (st : St) (t : List String) (commit : Bool) : Option (St × String) := do
  let from_ ← kvNat t "from"
  let to ← kvInt t "to"
  let nw ← kvInt t "new"
  let nonce ← kvNat t "nonce"
  let gas ← kvNat t "gas"
  let price ← kvInt t "price"
  let value ← kvInt t "value"
  let z ← kvNat t "z"
  let nz ← kvNat t "nz"
  let vmgas ← kvNat t "vmgas"
  let vmref ← kvNat t "vmref"
  let vmerr ← (kv t "vmerr").bind parseErr
  let moves ← (kv t "moves").bind parseMoves
  let dead ← (kv t "dead").bind natList
  let tx : Tx := { sender := from_, to := if to < 0 then none else some to.toNat, newAddr := nw.toNat,
                   nonce := nonce, gas := gas, price := price, value := value,
                   data := List.replicate z 0 ++ List.replicate nz 1 }
  let run := stubRun vmgas vmref vmerr moves
  match transition run st.legacy st.cb st.world st.pool tx with
  | .rejected e w pool =>
    let w' := if commit then st.world else w
    pure ({ st with world := w', pool := pool },
      s!"err={errName e} pool={pool} snonce={(get w' from_).nonce} bal={balText st.n w'}")
  | .ok o =>
    let w' := finalise o.world dead
    let newNonce := if to < 0 then min (get w' nw.toNat).nonce 1 else 0
    -- gas handed to the top-level frame; 0 when `create` stops at the address collision
    let wb := worldBought st.world tx
    let collision := to < 0 ∧ ((get wb nw.toNat).nonce ≠ 0 ∨ (get wb nw.toNat).code = true)
    let given := if collision then 0 else vmGas st.legacy tx
    pure ({ st with world := w', pool := o.pool },
      s!"ok used={o.used} given={given} status={if o.failed then 0 else 1} pool={o.pool} snonce={(get w' from_).nonce} newnonce={newNonce} bal={balText st.n w'}")

def step (st : St) (line : String) : St × String :=
  match tokens line with
  | "case" :: _ => (init, "ok")
  | "world" :: t =>
    match kvNat t "n", (kv t "bal").bind intList, (kv t "nonce").bind natList, (kv t "code").bind natList,
          kvNat t "pool", kvNat t "cb", kvNat t "legacy" with
    | some n, some bal, some non, some code, some pool, some cb, some lg =>
      ({ world := mkWorld bal non code, n := n, pool := pool, cb := cb, legacy := lg ≠ 0 }, "ok")
    | _, _, _, _, _, _, _ => (st, "bad-op")
  | "apply" :: t => match doTx st t false with
    | some r => r
    | none => (st, "bad-op")
  | "commit" :: t => match doTx st t true with
    | some r => r
    | none => (st, "bad-op")
  | _ => (st, "bad-op")

end KV.Drv.C09
