import KV.Model.BitArray
import KV.Base.Hex
-- kvdrv: bitarray KV.Drv.C18.step ()
/-! line protocol for the BitArray model (property C18). Stateless: every op carries its operands.
array token: `nil` or `<bits>:<w0,w1,…>` (decimal words, `-` for none); result `panic` = the model's `none`. -/
namespace KV.Drv.C18
open KV KV.BitArr

def parseWords (s : String) : Option (List Word) := (natList s).map (·.map UInt64.ofNat)

def parseArr (s : String) : Option Ptr :=
  if s = "nil" then some none
  else match s.splitOn ":" with
    | [b, ws] =>
      match b.toNat?, parseWords ws with
      | some b, some ws => some (some ⟨b, ws⟩)
      | _, _ => none
    | _ => none

def parseWire (s : String) : Option Wire :=
  if s = "nil" then some none
  else match s.splitOn ":" with
    | [b, ws] =>
      match b.toInt?, parseWords ws with
      | some b, some ws => some (some (b, ws))
      | _, _ => none
    | _ => none

def showWords (ws : List Word) : String := showList (fun w => toString w.toNat) ws
def showArr : Ptr → String
  | none => "nil"
  | some a => s!"{a.bits}:{showWords a.elems}"
def showB (b : Bool) : String := if b then "1" else "0"
def showO {α} (f : α → String) : Option α → String
  | some a => f a
  | none => "panic"
def parseB (s : String) : Option Bool := if s = "1" then some true else if s = "0" then some false else none

def step (s : Unit) (line : String) : Unit × String :=
  let out : String :=
    match tokens line with
    | ["new", n] => match n.toInt? with
      | some n => showArr (new n) | none => "bad-op"
    | ["size", a] => match parseArr a with
      | some a => toString (size a) | none => "bad-op"
    | ["get", a, i] => match parseArr a, i.toInt? with
      | some a, some i => showO showB (getIndexP a i) | _, _ => "bad-op"
    | ["set", a, i, v] => match parseArr a, i.toInt?, parseB v with
      | some a, some i, some v => showO (fun (p, r) => s!"{showArr p} {showB r}") (setIndexP a i v)
      | _, _, _ => "bad-op"
    | ["copy", a] => match parseArr a with
      | some a => showArr (copyP a) | none => "bad-op"
    | ["copybits", a, n] => match parseArr a, n.toNat? with
      | some (some a), some n => showArr (some (copyBits a n)) | _, _ => "bad-op"
    | ["or", a, b] => match parseArr a, parseArr b with
      | some a, some b => showO showArr (or a b) | _, _ => "bad-op"
    | ["orold", a, b] => match parseArr a, parseArr b with
      | some a, some b => showO showArr (orOld a b) | _, _ => "bad-op"
    | ["and", a, b] => match parseArr a, parseArr b with
      | some a, some b => showO showArr (andP a b) | _, _ => "bad-op"
    | ["not", a] => match parseArr a with
      | some a => showArr (notP a) | none => "bad-op"
    | ["sub", a, b] => match parseArr a, parseArr b with
      | some a, some b => showO showArr (subP a b) | _, _ => "bad-op"
    | ["subold", a, b] => match parseArr a, parseArr b with
      | some (some a), some (some b) => showO (fun x => showArr (some x)) (subOld a b) | _, _ => "bad-op"
    | ["isempty", a] => match parseArr a with
      | some a => showB (isEmptyP a) | none => "bad-op"
    | ["isfull", a] => match parseArr a with
      | some a => showO showB (isFullP a) | none => "bad-op"
    | ["pickchk", a, i, ok] => match parseArr a, i.toNat?, parseB ok with
      | some none, some i, some ok => showB (i == 0 && ok == false)
      | some (some a), some i, some ok => showB (pickPossible a (i, ok))
      | _, _, _ => "bad-op"
    | ["pick", a, st, c] => match parseArr a, st.toNat?, c.toNat? with
      | some a, some st, some c => showO (fun (i, ok) => s!"{i} {showB ok}") (pickRandomP a st (fun _ => c))
      | _, _, _ => "bad-op"
    | ["update", a, b] => match parseArr a, parseArr b with
      | some a, some b => showArr (updateP a b) | _, _ => "bad-op"
    | ["toproto", a] => match parseArr a with
      | some a => (match toProto a with
        | none => "nil"
        | some (b, ws) => s!"{b}:{showWords ws}")
      | none => "bad-op"
    | ["fromproto", w] => match parseWire w with
      | some w => showArr (some (fromProto w)) | none => "bad-op"
    | ["fromprotoold", w] => match parseWire w with
      | some w => showArr (some (fromProtoOld w)) | none => "bad-op"
    | ["str", a] => match parseArr a with
      | some (some a) => if stringDefined a then "ok" else "panic"
      | some none => "ok" | none => "bad-op"
    | ["bytes", a] => match parseArr a with
      | some (some a) => if bytesDefined a then "ok" else "panic"
      | _ => "bad-op"
    | _ => "bad-op"
  (s, out)

end KV.Drv.C18
