import KV.Base.Hex
import KV.Model.Evidence
-- kvdrv: evidence KV.Drv.C19.step KV.Drv.C19.init
/-! line protocol for the evidence model (property C19)

```
case chain= maxb= maxd= h= t=        reset: fresh pool at state (h,t), empty environment     → ok
block h= t=<int|none> vals=<set|none> environment: header time / validators entitled at h     → ok
ev <id> hash= sz= time= tot= pow= a=<vote> b=<vote>   register an evidence under <id>        → ok
vdup <id> chain= vals=<set>          VerifyDuplicateVote                                     → verdict
vbasic a=<vote|nil> b=<vote|nil>     DuplicateVoteEvidence.ValidateBasic                     → ok|nil|badA|badB|order
newdve a=<vote> b=<vote> vals=<set>  NewDuplicateVoteEvidence                                → nil | ord=<12|21> tot= pow=
add <id> | cons <id>                 AddEvidence | AddEvidenceFromConsensus                  → ok|err:<verdict> P= C=
check <ids|->                        CheckEvidence                                           → ok|err:<verdict> P= C=
update h= t= evs=<ids|->             Update                                                  → ok|panic P= C=
restart h= t=                        NewPool on the same evidence database                   → ok P= C=
pending max=                         PendingEvidence                                         → <keys|-> size=<n>
```
vote = `h,r,t,b,ts,addr,idx,bidok,sig`, sig = `e` | `g` | `s/key/chain/h/r/t/b/ts`;
set = `addr:power,...` or `-`; keys are `height:hash`. -/
namespace KV.Drv.C19
open KV KV.Evidence

structure St where
  env : Env := { chain := 0, times := [], vals := [] }
  pool : Pool := newPool ⟨0, 0⟩ 0 0
  evs : List (Nat × Evidence) := []

def init : St := {}

def parseSig (s : String) : Option SigV :=
  if s = "e" then some .empty else if s = "g" then some .garbage else
  match s.splitOn "/" with
  | ["s", k, ch, h, r, t, b, ts] =>
    match k.toNat?, ch.toNat?, h.toNat?, r.toNat?, t.toNat?, b.toNat?, ts.toInt? with
    | some k, some ch, some h, some r, some t, some b, some ts => some (.signed ⟨k, ch, ⟨h, r, t, b, ts⟩⟩)
    | _, _, _, _, _, _, _ => none
  | _ => none

def parseVote (s : String) : Option Vote :=
  match s.splitOn "," with
  | [h, r, t, b, ts, addr, idx, ok, sg] =>
    match h.toNat?, r.toNat?, t.toNat?, b.toNat?, ts.toInt?, addr.toNat?, idx.toNat?, ok.toNat?, parseSig sg with
    | some h, some r, some t, some b, some ts, some addr, some idx, some ok, some sg =>
      some { c := ⟨h, r, t, b, ts⟩, addr := addr, idx := idx, bidOK := ok != 0, sig := sg }
    | _, _, _, _, _, _, _, _, _ => none
  | _ => none

def parseOptVote (s : String) : Option (Option Vote) :=
  if s = "nil" then some none else (parseVote s).map some

def parseVal (s : String) : Option Val :=
  match s.splitOn ":" with
  | [a, p] => match a.toNat?, p.toInt? with
    | some a, some p => some ⟨a, p⟩
    | _, _ => none
  | _ => none

def parseSet (s : String) : Option ValSet :=
  if s = "-" then some [] else (s.splitOn ",").mapM parseVal

def showVerdict : Verdict → String
  | .ok => "ok" | .noHeader => "noheader" | .badTime => "badtime" | .expired => "expired"
  | .noVals => "novals" | .notValidator => "notvalidator" | .hrs => "hrs" | .addr => "addr"
  | .sameBlock => "sameblock" | .power => "power" | .total => "total" | .sigA => "sigA"
  | .sigB => "sigB" | .committed => "committed" | .duplicate => "duplicate"

def showKey (k : Key) : String := s!"{k.1}:{k.2}"

def showPool (p : Pool) : String :=
  "P=" ++ showList (fun e => showKey e.key) p.pending ++ " C=" ++ showList showKey p.committed

def getEv (st : St) (s : String) : Option Evidence := s.toNat?.bind fun i => st.evs.lookup i

def getEvs (st : St) (s : String) : Option (List Evidence) :=
  if s = "-" then some [] else (s.splitOn ",").mapM (getEv st)

def showAdd (r : AddRes) : String :=
  match r with
  | .rejected v => "err:" ++ showVerdict v
  | _ => "ok"

def step (st : St) (line : String) : St × String :=
  match tokens line with
  | "case" :: t =>
    match kvNat t "chain", kvInt t "maxb", kvInt t "maxd", kvNat t "h", kvInt t "t" with
    | some ch, some mb, some md, some h, some tm =>
      ({ env := { chain := ch, times := [], vals := [] }, pool := newPool ⟨mb, md⟩ h tm, evs := [] }, "ok")
    | _, _, _, _, _ => (init, "ok")
  | "block" :: t =>
    match kvNat t "h", kv t "t", kv t "vals" with
    | some h, some tm, some vs =>
      let times := if tm = "none" then some st.env.times else tm.toInt?.map fun x => (h, x) :: st.env.times
      let vals := if vs = "none" then some st.env.vals else (parseSet vs).map fun x => (h, x) :: st.env.vals
      match times, vals with
      | some times, some vals => ({ st with env := { st.env with times := times, vals := vals } }, "ok")
      | _, _ => (st, "bad-op")
    | _, _, _ => (st, "bad-op")
  | "ev" :: id :: t =>
    match id.toNat?, kvNat t "hash", kvNat t "sz", kvInt t "time", kvInt t "tot", kvInt t "pow",
          (kv t "a").bind parseVote, (kv t "b").bind parseVote with
    | some id, some hash, some sz, some tm, some tot, some pow, some a, some b =>
      let e : Evidence := { a := a, b := b, total := tot, power := pow, time := tm, hash := hash, size := sz }
      ({ st with evs := (id, e) :: st.evs }, "ok")
    | _, _, _, _, _, _, _, _ => (st, "bad-op")
  | "vdup" :: id :: t =>
    match getEv st id, kvNat t "chain", (kv t "vals").bind parseSet with
    | some e, some ch, some vs => (st, showVerdict (verifyDup e vs ch))
    | _, _, _ => (st, "bad-op")
  | "vbasic" :: t =>
    match (kv t "a").bind parseOptVote, (kv t "b").bind parseOptVote with
    | some a, some b =>
      (st, match validateBasic a b with
        | .ok => "ok" | .nilVote => "nil" | .badA => "badA" | .badB => "badB" | .order => "order")
    | _, _ => (st, "bad-op")
  | "newdve" :: t =>
    match (kv t "a").bind parseVote, (kv t "b").bind parseVote, (kv t "vals").bind parseSet with
    | some a, some b, some vs =>
      (st, match newDuplicateVoteEvidence a b 0 vs 0 0 with
        | none => "nil"
        | some e => s!"ord={if e.a = a then "12" else "21"} tot={e.total} pow={e.power}")
    | _, _, _ => (st, "bad-op")
  | ["add", id] =>
    match getEv st id with
    | some e =>
      let (p, r) := addEvidence st.env st.pool e
      ({ st with pool := p }, showAdd r ++ " " ++ showPool p)
    | none => (st, "bad-op")
  | ["cons", id] =>
    match getEv st id with
    | some e =>
      let (p, r) := addFromConsensus st.pool e
      ({ st with pool := p }, showAdd r ++ " " ++ showPool p)
    | none => (st, "bad-op")
  | ["check", ids] =>
    match getEvs st ids with
    | some l =>
      let (p, v) := checkEvidence st.env st.pool l
      ({ st with pool := p }, (if v = .ok then "ok" else "err:" ++ showVerdict v) ++ " " ++ showPool p)
    | none => (st, "bad-op")
  | "update" :: t =>
    match kvNat t "h", kvInt t "t", (kv t "evs").bind (getEvs st) with
    | some h, some tm, some l =>
      match update st.pool h tm l with
      | some p => ({ st with pool := p }, "ok " ++ showPool p)
      | none => (st, "panic " ++ showPool st.pool)
    | _, _, _ => (st, "bad-op")
  | "restart" :: t =>
    match kvNat t "h", kvInt t "t" with
    | some h, some tm =>
      let p := restart st.pool h tm
      ({ st with pool := p }, "ok " ++ showPool p)
    | _, _ => (st, "bad-op")
  | "pending" :: t =>
    match kvInt t "max" with
    | some m =>
      let (l, s) := pendingEvidence st.pool m
      (st, showList (fun e => showKey e.key) l ++ s!" size={s}")
    | none => (st, "bad-op")
  | _ => (st, "bad-op")

end KV.Drv.C19
