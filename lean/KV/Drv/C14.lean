import KV.Model.CStore
-- kvdrv: cstore KV.Drv.C14.step KV.Drv.C14.init
/-! line protocol for the consensus-state store model (property C14)

```
case <text>                         reset                                   → ok
save h= cid= ih= bid= t= ntx= app= p= lhp= lhv= L= V= N=
                                    block meta + app hash + head, then Store.Save → ok | panic
load                                Store.Load (at the head)                → state | empty | panic
loadat <h>                          loadStateAtHeight                       → state | empty | panic
loadvals <h>                        LoadValidators → ok <set> | nostate | novalset | err
loadparams <h>                      LoadConsensusParams → ok <hex> | err | panic
prune <from> <to>                   PruneState → <states deleted> <validator infos deleted>
```
set = `nil` | `<a:p:r,...|->;<a:p:r|->` (validators in order; proposer), state = the `save` fields. -/
namespace KV.Drv.C14
open KV KV.CStore

structure St where
  db : DB := {}
  head : Option Nat := none

def init : St := {}

def parseVal (s : String) : Option Val :=
  match s.splitOn ":" with
  | [a, p, r] =>
    match a.toNat?, p.toInt?, r.toInt? with
    | some a, some p, some r => some ⟨a, p, r⟩
    | _, _, _ => none
  | _ => none

def parseSet (s : String) : Option (Option VSet) :=
  if s = "nil" then some none else
  match s.splitOn ";" with
  | [vs, p] =>
    let vals : Option (List Val) := if vs = "-" then some [] else (vs.splitOn ",").mapM parseVal
    let prop : Option (Option Val) := if p = "-" then some none else (parseVal p).map some
    match vals, prop with
    | some vals, some prop => some (some ⟨vals, prop⟩)
    | _, _ => none
  | _ => none

def showVal (v : Val) : String := s!"{v.addr}:{v.power}:{v.prio}"

def showSet : Option VSet → String
  | none => "nil"
  | some v => showList showVal v.vals ++ ";" ++ (match v.proposer with | none => "-" | some p => showVal p)

def parseState (t : List String) : Option CState := do
  let h ← kvNat t "h"
  let cid ← kvHex t "cid"
  let ih ← kvNat t "ih"
  let bid ← kv t "bid"
  let tm ← kvInt t "t"
  let ntx ← kvNat t "ntx"
  let app ← kvHex t "app"
  let p ← kvHex t "p"
  let lhp ← kvNat t "lhp"
  let lhv ← kvNat t "lhv"
  let l ← (kv t "L").bind parseSet
  let v ← (kv t "V").bind parseSet
  let n ← (kv t "N").bind parseSet
  pure { chainId := cid, initialHeight := ih, height := h, blockId := bid, time := tm, numTxs := ntx,
         appHash := app, params := p, lhp := lhp, lhv := lhv, last := l, vals := v, next := n }

def showState (s : CState) : String :=
  s!"h={s.height} cid={toHexTok s.chainId} ih={s.initialHeight} bid={s.blockId} t={s.time} ntx={s.numTxs} " ++
  s!"app={toHexTok s.appHash} p={toHexTok s.params} lhp={s.lhp} lhv={s.lhv} " ++
  s!"L={showSet s.last} V={showSet s.vals} N={showSet s.next}"

def showLoad : LoadRes → String
  | .empty => "empty"
  | .panic => "panic"
  | .ok s => showState s

def step (st : St) (line : String) : St × String :=
  match tokens line with
  | "case" :: _ => (init, "ok")
  | "save" :: t =>
    match parseState t with
    | none => (st, "bad-op")
    | some s =>
      -- the block (meta, app hash, head pointer) is written first and stays even if Save panics
      let db1 := writeBlock st.db s
      match saveState db1 s with
      | none => ({ db := db1, head := some s.height }, "panic")
      | some db2 => ({ db := db2, head := some s.height }, "ok")
  | ["load"] =>
    match st.head with
    | none => (st, "panic")
    | some h => (st, showLoad (loadAt st.db h))
  | ["loadat", h] =>
    match h.toNat? with
    | some h => (st, showLoad (loadAt st.db h))
    | none => (st, "bad-op")
  | ["loadvals", h] =>
    match h.toNat? with
    | some h =>
      (st, match loadValidators st.db h with
        | .noState => "nostate" | .noValSet => "novalset" | .err => "err"
        | .ok v => "ok " ++ showSet (some v))
    | none => (st, "bad-op")
  | ["loadparams", h] =>
    match h.toNat? with
    | some h =>
      (st, match loadParams st.db h with
        | .panic => "panic" | .err => "err" | .ok p => "ok " ++ toHexTok p)
    | none => (st, "bad-op")
  | ["prune", a, b] =>
    match a.toNat?, b.toNat? with
    | some a, some b =>
      let (db', ns, nv) := prune st.db a b
      ({ st with db := db' }, s!"{ns} {nv}")
    | _, _ => (st, "bad-op")
  | _ => (st, "bad-op")

end KV.Drv.C14
