import KV.Base.Hex
import KV.Model.ValUpdates
import KV.Drv.C12
-- kvdrv: valupdates KV.Drv.C06.step ()
/-! line protocol for `calculateValidatorSetUpdates` + `updateState` (property C06).

Stateless.
```
case
calc L=<vals> R=<vals>                     calculateValidatorSetUpdates(L, R)
                                           -> C=<changes sorted by address (stable)>
vu T=<total> P=<addr|nil> V=<vals> R=<vals>
      updateState(state{NextValidators = (T,P,V)}, calculateValidatorSetUpdates(V, R))
                                           -> C=<sorted changes> ok <set> ch=<0|1>
                                            | C=<sorted changes> err <class>
```
`<vals>` = `addr:power:prio,...` or `-`; `<set>` as in the `valset` driver.  The model's map
enumeration is the canonical one (`canonEnum`); by `KV.C06.valset_update_canonical` /
`sorted_changes_order_independent` every other enumeration gives the same answer.
-/
namespace KV.Drv.C06
open KV KV.ValSet KV.ValUpdates KV.Drv.C12

def showChanges (l : List Validator) : String := "C=" ++ showList showVal (isort leAddr l)

def step (s : Unit) (line : String) : Unit × String :=
  let toks := tokens line
  match toks with
  | "case" :: _ => (s, "ok")
  | "calc" :: _ =>
    match (kv toks "L").bind parseChanges, (kv toks "R").bind parseChanges with
    | some last, some rep => (s, showChanges (calcValUpdates last rep (canonEnum last rep)))
    | _, _ => (s, "bad-op")
  | "vu" :: _ =>
    match kvInt toks "T", kv toks "P", (kv toks "V").bind parseChanges, (kv toks "R").bind parseChanges with
    | some t, some p, some vals, some rep =>
      let prop : Option (Option Nat) := if p = "nil" then some none else p.toNat?.map some
      match prop with
      | none => (s, "bad-op")
      | some prop =>
        let next : ValSet := { vals := vals, proposer := prop, total := t }
        let σ := canonEnum next.vals rep
        let cs := showChanges (calcValUpdates next.vals rep σ)
        match applyReported next rep σ with
        | .ok (vs, ch) => (s, cs ++ " ok " ++ showSet vs ++ (if ch then " ch=1" else " ch=0"))
        | .error e => (s, cs ++ " err " ++ e.name)
    | _, _, _, _ => (s, "bad-op")
  | _ => (s, "bad-op")

end KV.Drv.C06
