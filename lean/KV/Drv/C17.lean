import KV.Base.Hex
import KV.Model.TxPool
-- kvdrv: txpool KV.Drv.C17.step KV.Drv.C17.init
/-! line protocol for the transaction pool model (property C17).

List level (differential against `txList`):
`l.new strict=1`, `l.add t=<tx> bump=10`, `l.fwd th=3`, `l.filter c=100 g=50`, `l.cap k=2`,
`l.remove n=4`, `l.ready s=3`; the answer is the operation's result followed by the list
(`ids=… cc=<costcap> gc=<gascap>`).

Pool level (refinement check against `TxPool`): the op line carries what the real pool answered
and its resulting content after `=>`; the model answers `ok` when that is one of the successors it
allows (and continues from the matching successors), otherwise `mismatch model=<a successor>`.
`cfg …`, `add loc=0 t=<tx> t=<tx> => e=-,replace P=… Q=… N=… S=p/q`, `reset nonces=… bals=… gl=… [t=<tx> …] => …` (the `t=` tokens are the re-injected transactions of a dropped branch, in block order),
`price p=5 => …`, `expire a=2 => …`, `settle => …` (an idle reorg run), `status id=7` (answers `pending|queued|unknown`).

`<tx>` = `id:sender:nonce:price:gas:value:slots:size:neg:sig:igas`. -/
namespace KV.Drv.C17
open KV KV.TxPool

structure St where
  list : TxList := TxList.new false
  pools : List Pool := []
  nAcc : Nat := 0

def init : St := {}

def parseTx (s : String) : Option Tx :=
  match (s.splitOn ":").mapM String.toNat? with
  | some [id, snd, n, p, g, v, sl, sz, neg, sig, ig] =>
    some { id := id, sender := snd, nonce := n, price := p, gas := g, value := v, slots := sl,
           size := sz, neg := neg != 0, sigOk := sig != 0, igas := ig }
  | _ => none

def txTokens (toks : List String) : Option (List Tx) :=
  (toks.filter (fun t => t.startsWith "t=")).mapM (fun t => parseTx (String.ofList (t.toList.drop 2)))

def ids (l : List Tx) : String := showList (fun t => toString t.id) l

def showTxList (l : TxList) : String := s!"ids={ids l.txs} cc={l.costcap} gc={l.gascap}"

def insertById (t : Tx) : List Tx → List Tx
  | [] => [t]
  | x :: xs => if t.nonce ≤ x.nonce then t :: x :: xs else x :: insertById t xs
/-- canonical order for results whose order comes from a Go map iteration -/
def byNonce (l : List Tx) : List Tx := l.foldr insertById []

def showAMap (m : AMap TxList) : String :=
  if m.isEmpty then "-" else ";".intercalate (m.map (fun e => s!"{e.1}:{ids e.2.txs}"))

def render (p : Pool) (nAcc : Nat) : String :=
  let ns := (List.range nAcc).map (fun a => toString (p.pnGet a))
  s!"P={showAMap p.pending} Q={showAMap p.queue} N={",".intercalate ns} S={p.pendingCount}/{p.queuedCount}"

def showErrs (es : List (Option Err)) : String :=
  showList (fun e => match e with | none => "-" | some e => e.show) es

/-- split the token list at `=>` -/
def splitObs (toks : List String) : List String × String :=
  let pre := toks.takeWhile (· ≠ "=>")
  let post := (toks.dropWhile (· ≠ "=>")).drop 1
  (pre, " ".intercalate post)

def capStates (l : List Pool) : List Pool := l.take 6

/-- keep the successors whose rendering equals the observation -/
def refine (s : St) (succs : List (Pool × String)) (obs : String) : St × String :=
  let good := succs.filter (fun r => r.2 == obs)
  match good with
  | [] =>
    let m := match succs with
      | r :: _ => r.2
      | [] => "none"
    (s, s!"mismatch n={succs.length} model={m}")
  | _ => ({ s with pools := capStates (good.map (·.1)) }, "ok")

def step (s : St) (line : String) : St × String :=
  let toks := tokens line
  match toks with
  | "case" :: _ => ({}, "ok")
  | "l.new" :: rest =>
    match kvNat rest "strict" with
    | some b => ({ s with list := TxList.new (b != 0) }, "ok")
    | none => (s, "bad-op")
  | "l.add" :: rest =>
    match txTokens rest, kvNat rest "bump" with
    | some [t], some bump =>
      let r := s.list.add t bump
      let o := match r.2.2 with
        | some o => toString o.id
        | none => "-"
      ({ s with list := r.1 }, s!"ins={if r.2.1 then 1 else 0} old={o} | {showTxList r.1}")
    | _, _ => (s, "bad-op")
  | "l.fwd" :: rest =>
    match kvNat rest "th" with
    | some th =>
      let r := s.list.forward th
      ({ s with list := r.1 }, s!"rm={ids r.2} | {showTxList r.1}")
    | none => (s, "bad-op")
  | "l.filter" :: rest =>
    match kvNat rest "c", kvNat rest "g" with
    | some c, some g =>
      let r := s.list.filter c g
      ({ s with list := r.1 }, s!"rm={ids (byNonce r.2.1)} inv={ids (byNonce r.2.2)} | {showTxList r.1}")
    | _, _ => (s, "bad-op")
  | "l.cap" :: rest =>
    match kvNat rest "k" with
    | some k =>
      let r := s.list.cap k
      ({ s with list := r.1 }, s!"rm={ids r.2} | {showTxList r.1}")
    | none => (s, "bad-op")
  | "l.remove" :: rest =>
    match kvNat rest "n" with
    | some n =>
      let r := s.list.remove n
      ({ s with list := r.1 }, s!"found={if r.2.1 then 1 else 0} inv={ids (byNonce r.2.2)} | {showTxList r.1}")
    | none => (s, "bad-op")
  | "l.ready" :: rest =>
    match kvNat rest "s" with
    | some st =>
      let r := s.list.ready st
      ({ s with list := r.1 }, s!"rd={ids r.2} | {showTxList r.1}")
    | none => (s, "bad-op")
  | "cfg" :: rest =>
    match kvNat rest "pl", kvNat rest "pb", kvNat rest "as", kvNat rest "gs", kvNat rest "aq",
          kvNat rest "gq", kvNat rest "nolocals", (kv rest "nonces").bind natList,
          (kv rest "bals").bind natList, kvNat rest "gl" with
    | some pl, some pb, some as, some gs, some aq, some gq, some nl, some nonces, some bals, some gl =>
      let cfg : Cfg := { priceLimit := pl, priceBump := pb, accountSlots := as, globalSlots := gs,
                         accountQueue := aq, globalQueue := gq, noLocals := nl != 0 }
      let p : Pool := { cfg := cfg, chain := { nonces := nonces, balances := bals, gasLimit := gl },
                        gasPrice := pl }
      ({ s with pools := [p], nAcc := nonces.length }, "ok")
    | _, _, _, _, _, _, _, _, _, _ => (s, "bad-op")
  | "add" :: rest =>
    let (pre, obs) := splitObs rest
    match txTokens pre, kvNat pre "loc" with
    | some txs, some loc =>
      let succs := s.pools.flatMap (fun p =>
        (p.addTxs txs (loc != 0 && !p.cfg.noLocals)).map (fun r =>
          (r.1, s!"e={showErrs r.2} {render r.1 s.nAcc}")))
      refine s succs obs
    | _, _ => (s, "bad-op")
  | "reset" :: rest =>
    let (pre, obs) := splitObs rest
    match (kv pre "nonces").bind natList, (kv pre "bals").bind natList, kvNat pre "gl", txTokens pre with
    | some nonces, some bals, some gl, some reinject =>
      let c : Chain := { nonces := nonces, balances := bals, gasLimit := gl }
      -- `t=…` tokens: the transactions of a dropped branch that are re-injected (chain reorganisation)
      let succs := s.pools.flatMap (fun p => (p.resetReinject c reinject).map (fun q => (q, render q s.nAcc)))
      refine s succs obs
    | _, _, _, _ => (s, "bad-op")
  | "price" :: rest =>
    let (pre, obs) := splitObs rest
    match kvNat pre "p" with
    | some pr => refine s (s.pools.map (fun p => let q := p.setGasPrice pr; (q, render q s.nAcc))) obs
    | none => (s, "bad-op")
  | "expire" :: rest =>
    let (pre, obs) := splitObs rest
    match kvNat pre "a" with
    | some a => refine s (s.pools.map (fun p => let q := p.expire a; (q, render q s.nAcc))) obs
    | none => (s, "bad-op")
  | "settle" :: rest =>
    let (_, obs) := splitObs rest
    refine s (s.pools.flatMap (fun p => (p.runReorg none []).map (fun q => (q, render q s.nAcc)))) obs
  | "status" :: rest =>
    match kvNat rest "id", s.pools with
    | some id, p :: _ =>
      let inL (m : AMap TxList) : Bool := m.any (fun e => e.2.txs.any (fun t => t.id == id))
      let known := p.all.any (fun e => e.1.id == id)
      (s, if !known then "unknown" else if inL p.pending then "pending" else if inL p.queue then "queued" else "unknown")
    | _, _ => (s, "bad-op")
  | _ => (s, "bad-op")

end KV.Drv.C17
