import KV.Model.Rlp
-- kvdrv: rlp KV.Drv.C16.step ()
/-! line protocol for the RLP model (property C16) -/
namespace KV.Drv.C16
open KV KV.Rlp

def showOpt {α} (f : α → String) : Option α → String
  | some a => "ok " ++ f a
  | none => "err"

def step (s : Unit) (line : String) : Unit × String :=
  let out :=
    match tokens line with
    | ["enc", it] =>
      match parseItemStr it with
      | some x => toHexTok (enc x)
      | none => "bad-op"
    | ["dec", h] =>
      match ofHex h with
      | some bs => showOpt Item.show (decode bs)
      | none => "bad-op"
    | ["split", h] =>
      match ofHex h with
      | some bs => showOpt (fun (k, c, r) => s!"{k} {toHexTok c} {toHexTok r}") (rawSplit bs)
      | none => "bad-op"
    | ["count", h] =>
      match ofHex h with
      | some bs => showOpt toString (countValues (bs.length + 1) bs)
      | none => "bad-op"
    | ["encu", n] =>
      match n.toNat? with
      | some n => toHexTok (encNat n)
      | none => "bad-op"
    | ["decu", w, h] =>
      match w.toNat?, ofHex h with
      | some w, some bs => showOpt toString ((decode bs).bind (itemToUint w))
      | _, _ => "bad-op"
    | ["decbig", h] =>
      match ofHex h with
      | some bs => showOpt toString (decNat bs)
      | none => "bad-op"
    | ["decbool", h] =>
      match ofHex h with
      | some bs => showOpt (fun b => if b then "1" else "0") ((decode bs).bind itemToBool)
      | none => "bad-op"
    | ["decbytes", h] =>
      match ofHex h with
      | some bs => showOpt toHexTok ((decode bs).bind itemToBytes)
      | none => "bad-op"
    | ["decarr", n, h] =>
      match n.toNat?, ofHex h with
      | some n, some bs => showOpt toHexTok ((decode bs).bind (itemToArray n))
      | _, _ => "bad-op"
    | ["decS", h] =>
      match ofHex h with
      | some bs => showOpt (fun (a, b, c, d) => s!"{a} {toHexTok b} {c} {showList toString d}")
          ((decode bs).bind toStructS)
      | none => "bad-op"
    | ["decO", h] =>
      match ofHex h with
      | some bs => showOpt (fun (a, b, c) => s!"{a} {b} {toHexTok c}") ((decode bs).bind toStructO)
      | none => "bad-op"
    | _ => "bad-op"
  (s, out)

end KV.Drv.C16
