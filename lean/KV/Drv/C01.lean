import KV.Base.Hex
import KV.Model.AgreeCheck
-- kvdrv: agree KV.Drv.C01.step ()
/-! line protocol for the trace checker of C01.
`trace pw=10,10,10,10 F=3 ev=<sender>:<v|c>:<round>:<block|->;… dec=<block>,…`
answers `good` when the fault assumption holds, every correct event honours O0–O3 and every
decision has a commit quorum in the trace — i.e. when `C01_checked_trace_agreement` applies. -/
namespace KV.Drv.C01
open KV KV.Agree

def parseEv (s : String) : Option NEv :=
  match s.splitOn ":" with
  | [snd, t, r, v] =>
    match snd.toNat?, r.toNat? with
    | some snd, some r =>
      let ty := if t = "v" then some Ty.prevote else if t = "c" then some Ty.precommit else none
      let val : Option (Option Nat) := if v = "-" then some none else (v.toNat?).map some
      match ty, val with
      | some ty, some val => some ⟨snd, ⟨ty, r, val⟩⟩
      | _, _ => none
    | _, _ => none
  | _ => none

def step (s : Unit) (line : String) : Unit × String :=
  let toks := tokens line
  let out :=
    match toks with
    | "trace" :: rest =>
      match (kv rest "pw").bind natList, (kv rest "F").bind natList, kv rest "ev", (kv rest "dec").bind natList with
      | some pws, some fs, some evs, some decs =>
        let vals := List.range pws.length
        let pw : Nat → Nat := fun v => pws.getD v 0
        let F : Nat → Bool := fun v => fs.contains v
        let evl := if evs = "-" then some [] else (evs.splitOn ";").mapM parseEv
        match evl with
        | none => "bad-op"
        | some tr =>
          if !(decide (3 * power vals pw F < power vals pw (fun _ => true))) then "too-many-faulty"
          else
            match firstBad vals pw F [] tr with
            | some (i, why) => s!"bad {i} {why}"
            | none =>
              if !(goodB vals pw F tr) then "bad ? checker-disagrees"
              else
                match decs.find? (fun b => !(decisionOK vals pw tr b)) with
                | some b => s!"decision-unjustified {b}"
                | none => "good"
      | _, _, _, _ => "bad-op"
    | "commitq" :: rest =>
      -- block sync: only the hypothesis of `C01_blocksync_safe` is checked — the adopted block has a
      -- commit quorum among the (independently verified) precommits listed
      match (kv rest "pw").bind natList, (kv rest "F").bind natList, kv rest "ev", (kv rest "dec").bind natList with
      | some pws, some fs, some evs, some decs =>
        let vals := List.range pws.length
        let pw : Nat → Nat := fun v => pws.getD v 0
        let F : Nat → Bool := fun v => fs.contains v
        let evl := if evs = "-" then some [] else (evs.splitOn ";").mapM parseEv
        match evl with
        | none => "bad-op"
        | some tr =>
          if !(decide (3 * power vals pw F < power vals pw (fun _ => true))) then "too-many-faulty"
          else
            match decs.find? (fun b => !(decisionOK vals pw tr b)) with
            | some b => s!"decision-unjustified {b}"
            | none => "good"
      | _, _, _, _ => "bad-op"
    | _ => "bad-op"
  (s, out)

end KV.Drv.C01
