import KV.Model.SignBytes
-- kvdrv: signbytes KV.Drv.C11.step ()
/-! line protocol for the sign-bytes / signing-hash model (property C11) -/
namespace KV.Drv.C11
open KV KV.SignBytes

def optHex : Option Bytes → String
  | some b => toHexTok b
  | none => "err"

/-- `chain=-` is the Homestead signer, `chain=<n>` the chain-id signer -/
def kvSigner (t : List String) : Option (Option Nat) :=
  match kv t "chain" with
  | some "-" => some none
  | some s => (s.toNat?).map some
  | none => none

def kvTo (t : List String) : Option (Option Bytes) :=
  match kv t "to" with
  | some "nil" => some none
  | some s => (ofHex s).map some
  | none => none

def parseBlockID (t : List String) : Option BlockID := do
  let bh ← kvHex t "bh"
  let bt ← kvNat t "bt"
  let bp ← kvHex t "bp"
  pure { hash := bh, total := bt, psHash := bp }

def parseTime (t : List String) : Option Time := do
  let s ← kvInt t "s"
  let n ← kvNat t "n"
  pure { secs := s, nanos := n }

def showSender : SenderResult → String
  | .invalidChainId => "chainid-err"
  | .invalidSig => "sig-err"
  | .recover none v => s!"recover h {v}"
  | .recover (some c) v => s!"recover c{c} {v}"

def showSenderClass : SenderResult → String
  | .invalidChainId => "chainid-err"
  | .invalidSig => "sig-err"
  | .recover _ _ => "pass"

def b01 (b : Bool) : String := if b then "1" else "0"

def run (toks : List String) : Option String :=
  match toks with
  | "votebytes" :: t => do
    let chain ← kvHex t "chain"
    let ty ← kvInt t "type"
    let h ← kvNat t "h"
    let r ← kvNat t "r"
    let bid ← parseBlockID t
    let tm ← parseTime t
    pure (optHex (voteSignBytes { chain := chain, type := ty, height := h, round := r,
                                  blockID := bid, time := tm }))
  | "proposalbytes" :: t => do
    let chain ← kvHex t "chain"
    let h ← kvNat t "h"
    let r ← kvNat t "r"
    let pol ← kvNat t "pol"
    let bid ← parseBlockID t
    let tm ← parseTime t
    pure (optHex (proposalSignBytes { chain := chain, height := h, round := r, polRound := pol,
                                      blockID := bid, time := tm }))
  | "txpreimage" :: t => do
    let signer ← kvSigner t
    let nonce ← kvNat t "nonce"
    let price ← kvNat t "price"
    let gas ← kvNat t "gas"
    let to ← kvTo t
    let value ← kvNat t "value"
    let data ← kvHex t "data"
    pure (toHexTok (txSigPreimage signer { nonce := nonce, price := price, gas := gas, to := to,
                                           value := value, data := data }))
  | "derivechainid" :: t => do
    let v ← kvNat t "v"
    pure (toString (deriveChainId v))
  | "protected" :: t => do
    let v ← kvNat t "v"
    pure (b01 (isProtectedV v))
  | "sigvalues" :: t => do
    let v ← kvNat t "v"
    let r ← kvNat t "r"
    let s ← kvNat t "s"
    let hs ← kvNat t "hs"
    pure (b01 (validateSignatureValues v r s (hs != 0)))
  | "sigv" :: t => do
    let signer ← kvSigner t
    let recid ← kvNat t "recid"
    pure (toString (signatureV signer recid))
  | "sender" :: t => do
    let signer ← kvSigner t
    let v ← kvNat t "v"
    let r ← kvNat t "r"
    let s ← kvNat t "s"
    pure (showSender (senderCheck signer v r s))
  | "senderclass" :: t => do
    let signer ← kvSigner t
    let v ← kvNat t "v"
    let r ← kvNat t "r"
    let s ← kvNat t "s"
    pure (showSenderClass (senderCheck signer v r s))
  | _ => none

def step (s : Unit) (line : String) : Unit × String :=
  (s, (run (tokens line)).getD "bad-op")

end KV.Drv.C11
