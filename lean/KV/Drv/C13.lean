import KV.Base.Sha256
import KV.Base.Keccak
import KV.Model.PartSet
import KV.Model.HeaderWire
-- kvdrv: partset KV.Drv.C13.step none
/-! line protocol for the Merkle / part-set model (property C13), `H` = SHA-256.

    case                                             reset
    root <item>*                                     root hash ("-" = nil)
    proofs <item>*                                   "<root> <total>:<index>:<leafhash>:<aunts> ..." | panic
    compute total= index= lh= aunts=                 root hash | nil
    verify root= total= index= lh= aunts= leaf=      ok | bad-leaf | bad-root
    split size= data=                                comma separated parts
    newdata size= data=                              "<total> <hash>" (state := full set) | panic
    getpart i=                                       "<index> <bytes> <total>:<index>:<leafhash>:<aunts>" | nil
    newhdr total= hash=                              ok (state := empty set)
    add index= bytes= ptotal= pindex= lh= aunts=     "<verdict> <count> <complete>"
    complete                                         0 | 1
    read                                             "ok <bytes>" | panic-incomplete | panic-index | panic-nil
    headerbytes height= secs= nanos= numtxs= gas= lbh= lbt= lbp= prop= lch= tx= vh= nvh= ch= app= ev=
                                                     "<wire bytes> <keccak256>" | panic   (Header.Hash)
    sigbytes flag= addr= secs= nanos= sig=           wire bytes of one CommitSig | panic
    commithash <flag>:<addr>:<secs>:<nanos>:<sig>*   Commit.Hash | panic
-/
namespace KV.Drv.C13
open KV KV.Merkle KV.PartSet

abbrev State := Option PartSet

def hexList (s : String) : Option (List Bytes) :=
  if s = "-" then some [] else (s.splitOn ",").mapM ofHex

def showHexList (l : List Bytes) : String :=
  if l.isEmpty then "-" else ",".intercalate (l.map toHexTok)

def showProof (p : Proof) : String :=
  s!"{p.total}:{p.index}:{toHexTok p.leafHash}:{showHexList p.aunts}"

def kvProof (toks : List String) (t i l a : String) : Option Proof :=
  match kvNat toks t, kvNat toks i, kvHex toks l, (kv toks a).bind hexList with
  | some total, some index, some lh, some aunts => some ⟨total, index, lh, aunts⟩
  | _, _, _, _ => none

def showAdd : AddResult → String
  | .unexpectedIndex => "unexpected-index"
  | .alreadyPresent => "present"
  | .invalidProof => "invalid-proof"
  | .added => "added"

def b01 (b : Bool) : String := if b then "1" else "0"

def kvHeader (t : List String) : Option HeaderWire.Header :=
  match kvNat t "height", kvInt t "secs", kvNat t "nanos", kvNat t "numtxs", kvNat t "gas",
        kvHex t "lbh", kvNat t "lbt", kvHex t "lbp", kvHex t "prop" with
  | some height, some secs, some nanos, some numtxs, some gas, some lbh, some lbt, some lbp, some prop =>
    match kvHex t "lch", kvHex t "tx", kvHex t "vh", kvHex t "nvh", kvHex t "ch", kvHex t "app", kvHex t "ev" with
    | some lch, some tx, some vh, some nvh, some ch, some app, some ev =>
      some { height := height, time := ⟨secs, nanos⟩, numTxs := numtxs, gasLimit := gas,
             lastBlockID := ⟨lbh, lbt, lbp⟩, proposer := prop, lastCommitHash := lch, txHash := tx,
             validatorsHash := vh, nextValidatorsHash := nvh, consensusHash := ch, appHash := app,
             evidenceHash := ev }
    | _, _, _, _, _, _, _ => none
  | _, _, _, _, _, _, _, _, _ => none

def parseSig (s : String) : Option HeaderWire.CommitSig :=
  match s.splitOn ":" with
  | [f, a, secs, nanos, sg] =>
    match f.toNat?, ofHex a, secs.toInt?, nanos.toNat?, ofHex sg with
    | some f, some a, some secs, some nanos, some sg => some ⟨f, a, ⟨secs, nanos⟩, sg⟩
    | _, _, _, _, _ => none
  | _ => none

def step (s : State) (line : String) : State × String :=
  let toks := tokens line
  match toks with
  | ["case"] => (none, "ok")
  | "root" :: items =>
    match items.mapM ofHex with
    | some its => (s, toHexTok (root sha256 its))
    | none => (s, "bad-op")
  | "proofs" :: items =>
    match items.mapM ofHex with
    | some [] => (s, "panic")       -- nil root node dereferenced
    | some its => (s, toHexTok (root sha256 its) ++ " " ++ " ".intercalate ((proofs sha256 its).map showProof))
    | none => (s, "bad-op")
  | "compute" :: rest =>
    match kvProof rest "total" "index" "lh" "aunts" with
    | some p =>
      match p.computeRootHash sha256 with
      | some h => (s, toHexTok h)
      | none => (s, "nil")
    | none => (s, "bad-op")
  | "verify" :: rest =>
    match kvHex rest "root", kvProof rest "total" "index" "lh" "aunts", kvHex rest "leaf" with
    | some r, some p, some leaf =>
      match verify sha256 r p leaf with
      | .ok => (s, "ok")
      | .badLeafHash => (s, "bad-leaf")
      | .badRoot => (s, "bad-root")
    | _, _, _ => (s, "bad-op")
  | "split" :: rest =>
    match kvNat rest "size", kvHex rest "data" with
    | some size, some data => (s, showHexList (split data size))
    | _, _ => (s, "bad-op")
  | "newdata" :: rest =>
    match kvNat rest "size", kvHex rest "data" with
    | some size, some data =>
      match newFromData sha256 data size with
      | .panic => (none, "panic")
      | .ok ps => (some ps, s!"{ps.total} {toHexTok ps.hash}")
    | _, _ => (s, "bad-op")
  | "getpart" :: rest =>
    match s, kvNat rest "i" with
    | some ps, some i =>
      match ps.parts[i]? with
      | some (some p) => (s, s!"{p.index} {toHexTok p.bytes} {showProof p.proof}")
      | _ => (s, "nil")
    | _, _ => (s, "bad-op")
  | "newhdr" :: rest =>
    match kvNat rest "total", kvHex rest "hash" with
    | some total, some hash => (some (newFromHeader total hash), "ok")
    | _, _ => (s, "bad-op")
  | "add" :: rest =>
    match s, kvNat rest "index", kvHex rest "bytes", kvProof rest "ptotal" "pindex" "lh" "aunts" with
    | some ps, some index, some bytes, some proof =>
      let (ps', r) := addPart sha256 ps ⟨index, bytes, proof⟩
      (some ps', s!"{showAdd r} {ps'.count} {b01 (isComplete ps')}")
    | _, _, _, _ => (s, "bad-op")
  | "headerbytes" :: rest =>
    match kvHeader rest with
    | some h =>
      match HeaderWire.headerBytes h with
      | some bz => (s, toHexTok bz ++ " " ++ toHexTok (keccak256 bz))
      | none => (s, "panic")
    | none => (s, "bad-op")
  | "sigbytes" :: rest =>
    match kvNat rest "flag", kvHex rest "addr", kvInt rest "secs", kvNat rest "nanos", kvHex rest "sig" with
    | some f, some a, some secs, some nanos, some sg =>
      match HeaderWire.sigBytes ⟨f, a, ⟨secs, nanos⟩, sg⟩ with
      | some bz => (s, toHexTok bz)
      | none => (s, "panic")
    | _, _, _, _, _ => (s, "bad-op")
  | "commithash" :: sigs =>
    match sigs.mapM parseSig with
    | some l =>
      match HeaderWire.commitHash sha256 l with
      | some h => (s, toHexTok h)
      | none => (s, "panic")
    | none => (s, "bad-op")
  | ["complete"] =>
    match s with
    | some ps => (s, b01 (isComplete ps))
    | none => (s, "bad-op")
  | ["read"] =>
    match s with
    | some ps =>
      match reader ps with
      | .ok b => (s, "ok " ++ toHexTok b)
      | .panicIncomplete => (s, "panic-incomplete")
      | .panicIndex => (s, "panic-index")
      | .panicNil => (s, "panic-nil")
    | none => (s, "bad-op")
  | _ => (s, "bad-op")

end KV.Drv.C13
