import KV.Base.Hex
import KV.Model.Ticker
-- kvdrv: ticker KV.Drv.C04.step ()
/-! line protocol for the ticker model: `ticks h:r:s;h:r:s;…` answers the tick finally held -/
namespace KV.Drv.C04
open KV KV.Ticker

def parseTick (s : String) : Option Tick :=
  match (s.splitOn ":").mapM String.toNat? with
  | some [h, r, st] => some ⟨h, r, st⟩
  | _ => none

def step (s : Unit) (line : String) : Unit × String :=
  let out :=
    match tokens line with
    | ["ticks", l] =>
      match (l.splitOn ";").mapM parseTick with
      | some ts => let t := run ts; s!"{t.height}:{t.round}:{t.step}"
      | none => "bad-op"
    | _ => "bad-op"
  (s, out)

end KV.Drv.C04
