import KV.Model.Trie
import KV.Base.Keccak
-- kvdrv: trie KV.Drv.C07.step KV.Trie.Node.nil
/-! line protocol for the Merkle Patricia trie model (property C07).  The hash function of the
model is instantiated with `KV.keccak256`. -/
namespace KV.Drv.C07
open KV KV.Trie

-- the constant `types.EmptyRootHash` is the Keccak hash of the RLP empty string
#guard KV.keccak256 [0x80] == emptyRoot

def nibblesOfBytes (bs : Bytes) : Key := bs.map (·.toNat)
def bytesOfNibbles (k : Key) : Bytes := k.map UInt8.ofNat

def showBlobs (l : List Bytes) : String :=
  " ".intercalate (toString l.length :: l.map toHexTok)

def step (t : Node) (line : String) : Node × String :=
  match tokens line with
  | "case" :: _ => (.nil, "ok")
  | ["put", k, v] =>
    match ofHex k, ofHex v with
    | some k, some v =>
      match update t (keybytesToHex k) v with
      | some t' => (t', "ok")
      | none => (t, "err")
    | _, _ => (t, "bad-op")
  | ["del", k] =>
    match ofHex k with
    | some k =>
      match delete t (keybytesToHex k) with
      | some (_, t') => (t', "ok")
      | none => (t, "err")
    | none => (t, "bad-op")
  | ["get", k] =>
    match ofHex k with
    | some k =>
      match get t (keybytesToHex k) with
      | some (some v) => (t, toHexTok v)
      | some none => (t, "-")
      | none => (t, "err")
    | none => (t, "bad-op")
  | ["root"] => (t, toHex (rootHash keccak256 t))
  | ["stackroot"] => (t, toHex (rootHash keccak256 t))
  | ["prove", k] =>
    match ofHex k with
    | some k =>
      match prove keccak256 t (keybytesToHex k) with
      | some l => (t, showBlobs l)
      | none => (t, "err")
    | none => (t, "bad-op")
  | "verify" :: r :: k :: blobs =>
    match ofHex r, ofHex k, blobs.mapM ofHex with
    | some r, some k, some bl =>
      match verifyProof keccak256 r (keybytesToHex k) bl with
      | .err => (t, "err")
      | .absent => (t, "absent")
      | .val v => (t, if v.isEmpty then "absent" else "val " ++ toHex v)
    | _, _, _ => (t, "bad-op")
  | ["h2c", h] =>
    match ofHex h with
    | some bs => (t, toHexTok (hexToCompact (nibblesOfBytes bs)))
    | none => (t, "bad-op")
  | ["c2h", h] =>
    match ofHex h with
    | some bs => (t, toHexTok (bytesOfNibbles (compactToHex bs)))
    | none => (t, "bad-op")
  | ["kb2h", h] =>
    match ofHex h with
    | some bs => (t, toHexTok (bytesOfNibbles (keybytesToHex bs)))
    | none => (t, "bad-op")
  | _ => (t, "bad-op")

end KV.Drv.C07
