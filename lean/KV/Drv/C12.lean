import KV.Base.Hex
import KV.Model.ValSet
-- kvdrv: valset KV.Drv.C12.step KV.Drv.C12.init
/-! line protocol for the validator-set model (property C12).

State: two registers, `cur` (the set under test) and `alt` (the last copy).
```
case                      reset
new  <changes>            NewValidatorSet            -> ok <set> | err <class>
raw  <changes>            updateWithChangeSet(.., false) on an empty set, no increment
upd  <changes>            UpdateWithChangeSet        -> ok <set> | err <class> <set>
blk  <changes>            cstate.updateState: copy, apply the block's changes (when there are any),
                          advance one round          -> ok <set> | err <class> <set>
inc  <k> [spec]           IncrementProposerPriority  -> <set> [S=0|1] | panic <set>
prop                      GetProposer                -> <addr|nil> <set>
copy                      alt := Copy(cur)           -> <alt>
cinc <k>                  alt := CopyIncrementProposerPriority(k) -> <alt> | panic
swap                      exchange cur and alt       -> <cur>
diff                      computeMaxMinPriorityDiff  -> <n> | panic
k <fn> <a> <b>            safeAdd/safeSub -> <value> <overflow 0|1>; safeAddClip/safeSubClip -> <value>
```
`<changes>` = `addr:power:prio,...` or `-`; `<set>` = `T=<cached total> P=<addr|nil> V=<addr:power:prio,...>`.
-/
namespace KV.Drv.C12
open KV KV.ValSet

structure St where
  cur : ValSet
  alt : ValSet

def init : St := { cur := emptySet, alt := emptySet }

def parseVal (s : String) : Option Validator :=
  match s.splitOn ":" with
  | [a, p, q] =>
    match a.toNat?, p.toInt?, q.toInt? with
    | some a, some p, some q => some { addr := a, power := p, prio := q }
    | _, _, _ => none
  | _ => none

def parseChanges (s : String) : Option (List Validator) :=
  if s = "-" then some [] else (s.splitOn ",").mapM parseVal

def showVal (v : Validator) : String := s!"{v.addr}:{v.power}:{v.prio}"

def showProp : Option Nat → String
  | some a => toString a
  | none => "nil"

def showSet (vs : ValSet) : String :=
  s!"T={vs.total} P={showProp vs.proposer} V={showList showVal vs.vals}"

def step (s : St) (line : String) : St × String :=
  match tokens line with
  | "case" :: _ => (init, "ok")
  | ["new", cs] =>
    match parseChanges cs with
    | none => (s, "bad-op")
    | some cs =>
      match newValidatorSet cs with
      | .ok vs => ({ s with cur := vs }, "ok " ++ showSet vs)
      | .error e => (s, "err " ++ e.name)
  | ["raw", cs] =>
    match parseChanges cs with
    | none => (s, "bad-op")
    | some cs =>
      match updateWithChangeSet emptySet cs false with
      | .ok vs => ({ s with cur := vs }, "ok " ++ showSet vs)
      | .error e => (s, "err " ++ e.name)
  | ["upd", cs] =>
    match parseChanges cs with
    | none => (s, "bad-op")
    | some cs =>
      match updateWithChangeSet s.cur cs true with
      | .ok vs => ({ s with cur := vs }, "ok " ++ showSet vs)
      | .error e => (s, "err " ++ e.name ++ " " ++ showSet s.cur)
  | ["blk", cs] =>
    match parseChanges cs with
    | none => (s, "bad-op")
    | some cs =>
      match blockStep s.cur cs with
      | .ok vs => ({ s with cur := vs }, "ok " ++ showSet vs)
      | .error e => (s, "err " ++ e.name ++ " " ++ showSet s.cur)
  | "inc" :: k :: rest =>
    match k.toInt? with
    | none => (s, "bad-op")
    | some k =>
      match increment s.cur k with
      | .ok vs =>
        let tag :=
          if rest = ["spec"] then
            let r := Spec.increment s.cur.vals k.toNat
            if r.1 = vs.vals ∧ r.2 = vs.proposer ∧ Spec.total s.cur.vals = vs.total then " S=1" else " S=0"
          else ""
        ({ s with cur := vs }, showSet vs ++ tag)
      | .error _ => (s, "panic " ++ showSet s.cur)
  | ["prop"] =>
    let r := getProposer s.cur
    ({ s with cur := r.1 }, showProp r.2 ++ " " ++ showSet r.1)
  | ["copy"] => ({ s with alt := s.cur }, showSet s.cur)
  | ["cinc", k] =>
    match k.toInt? with
    | none => (s, "bad-op")
    | some k =>
      match increment s.cur k with
      | .ok vs => ({ s with alt := vs }, showSet vs)
      | .error _ => (s, "panic")
  | ["swap"] => ({ cur := s.alt, alt := s.cur }, showSet s.alt)
  | ["k", name, a, b] =>
    match a.toInt?, b.toInt? with
    | some a, some b =>
      let sh (r : Int × Bool) : String := s!"{r.1} {if r.2 then 1 else 0}"
      match name with
      | "safeAdd" => (s, sh (safeAdd a b))
      | "safeSub" => (s, sh (safeSub a b))
      | "safeAddClip" => (s, toString (safeAddClip a b))
      | "safeSubClip" => (s, toString (safeSubClip a b))
      | _ => (s, "bad-op")
    | _, _ => (s, "bad-op")
  | ["diff"] =>
    if s.cur.vals.isEmpty then (s, "panic") else (s, toString (maxMinDiff s.cur.vals))
  | _ => (s, "bad-op")

end KV.Drv.C12
