import KV.Base.Hex
import KV.Model.Cs
-- kvdrv: cs KV.Drv.C03.step KV.Drv.C03.init0
/-! line protocol for the consensus node model `Cs` (property C03)

```
case n=4 powers=10,10,10,10 me=2 h=5 wait=0 ei=0 props=5:2,3,0,1/6:3,0,1,2
prop from=<idx> sig=<0|1> h= r= pol= id= nb=<id|->
block h= id= ok=<0|1> dec=<0|1> nb=
vote peer= idx= t=<pv|pc> h= r= tgt=<id|-> sig=<0|1> nb=
tmo h= r= s=<1..8> nb=
```
answer: `<actions> | H= R= S= L=<round>:<id|-> V=<round>:<id|-> P=<round>:<pol>:<id>|- B=<id|-> PS=<id>:<0|1>|- CR= T= A=`
(after a panic only `<actions> panic`). -/
namespace KV.Drv.C03
open KV KV.Cs

structure DState where
  cfg : Config
  σ : State

def lookupProps (tbl : List (Nat × List Nat)) (dflt : Nat) (h r : Nat) : Nat :=
  match tbl.find? (fun e => e.1 == h) with
  | some e => e.2.getD (r - 1) dflt
  | none => dflt

def cfg0 : Config := { powers := [1], me := 1, proposer := fun _ _ => 1, waitTxs := false, emptyInterval := false }
def init0 : DState := { cfg := cfg0, σ := Cs.init cfg0 1 }

def showTgt : Target → String
  | some b => toString b
  | none => "-"

def showT : VType → String
  | .prevote => "pv"
  | .precommit => "pc"

def showAction : Action → String
  | .signProposal h r pol b => s!"sp:{h}:{r}:{pol}:{b}"
  | .signVote t h r tgt => s!"sv:{showT t}:{h}:{r}:{showTgt tgt}"
  | .schedule h r s => s!"to:{h}:{r}:{s.toNat}"
  | .commit h b => s!"cm:{h}:{b}"
  | .panic => "panic"

def showBlk : Option Blk → String
  | some b => toString b.id
  | none => "-"

def showObs (σ : State) : String :=
  let p := match σ.proposal with
    | some p => s!"{p.round}:{p.pol}:{p.id}"
    | none => "-"
  let ps := match σ.parts with
    | some (id, d) => s!"{id}:{if d then 1 else 0}"
    | none => "-"
  s!"H={σ.height} R={σ.round} S={σ.step.toNat} L={σ.lockedRound}:{showBlk σ.locked} V={σ.validRound}:{showBlk σ.validB} P={p} B={showBlk σ.pblock} PS={ps} CR={σ.commitRound} T={if σ.ttp then 1 else 0} A={if σ.added then 1 else 0}"

def parseProps (s : String) : Option (List (Nat × List Nat)) :=
  if s = "-" then some [] else
  (s.splitOn "/").mapM fun e =>
    match e.splitOn ":" with
    | [h, l] => do
      let h ← h.toNat?
      let l ← natList l
      pure (h, l)
    | _ => none

def parseBool (toks : List String) (k : String) : Option Bool :=
  match kv toks k with
  | some "1" => some true
  | some "0" => some false
  | _ => none

def parseTgt (toks : List String) (k : String) : Option Target :=
  match kv toks k with
  | some "-" => some none
  | some s => s.toNat?.map some
  | none => none

def parseInput (toks : List String) : Option (Option Nat × Input) := do
  let nb ← parseTgt toks "nb"
  match toks.head? with
  | some "prop" =>
    let src ← kvNat toks "from"
    let sig ← parseBool toks "sig"
    let h ← kvNat toks "h"
    let r ← kvNat toks "r"
    let pol ← kvNat toks "pol"
    let id ← kvNat toks "id"
    pure (nb, .proposal src sig h r pol id)
  | some "block" =>
    let h ← kvNat toks "h"
    let id ← kvNat toks "id"
    let ok ← parseBool toks "ok"
    let dec ← parseBool toks "dec"
    pure (nb, .block h id ok dec)
  | some "vote" =>
    let peer ← kvNat toks "peer"
    let idx ← kvNat toks "idx"
    let t ← match kv toks "t" with
      | some "pv" => some VType.prevote
      | some "pc" => some VType.precommit
      | _ => none
    let h ← kvNat toks "h"
    let r ← kvNat toks "r"
    let tgt ← parseTgt toks "tgt"
    let sig ← parseBool toks "sig"
    pure (nb, .vote peer idx t h r tgt sig)
  | some "tmo" =>
    let h ← kvNat toks "h"
    let r ← kvNat toks "r"
    let s ← (kvNat toks "s").bind Step.ofNat?
    pure (nb, .timeout h r s)
  | _ => none

def step (d : DState) (line : String) : DState × String :=
  let toks := tokens line
  match toks.head? with
  | some "case" =>
    match (kv toks "powers").bind natList, kvNat toks "me", kvNat toks "h",
          parseBool toks "wait", parseBool toks "ei", (kv toks "props").bind parseProps with
    | some powers, some me, some h, some wait, some ei, some props =>
      let cfg : Config := { powers := powers, me := me, proposer := lookupProps props powers.length,
                            waitTxs := wait, emptyInterval := ei }
      let σ := Cs.init cfg h
      ({ cfg := cfg, σ := σ }, "| " ++ showObs σ)
    | _, _, _, _, _, _ => (d, "bad-op")
  | _ =>
    match parseInput toks with
    | none => (d, "bad-op")
    | some (nb, i) =>
      let σ' := Cs.step d.cfg d.σ nb i
      let newActs := (σ'.log.take (σ'.log.length - d.σ.log.length)).reverse
      let acts := newActs.map showAction
      let out := if σ'.halted then " ".intercalate acts else " ".intercalate (acts ++ ["|", showObs σ'])
      ({ d with σ := σ' }, out)

end KV.Drv.C03
