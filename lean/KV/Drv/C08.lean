import KV.Base.Hex
import KV.Model.World
-- kvdrv: world KV.Drv.C08.step KV.Drv.C08.initState
/-! line protocol for the journalled world state (property C08).

`case …` resets to one fresh instance `0`.  Every other line is
`<instance> <F|N> <op> <args…>`; the answer is `<status>` (`N`) or `<status> | <observation>` (`F`),
the observation listing every getter over the universe 4 addresses × 4 slots × 3 tx hashes ×
3 preimage keys plus the bookkeeping sets visible in-package. -/
namespace KV.Drv.C08
open KV KV.World

abbrev State := List (Nat × World)

def initState : State := [(0, World.init)]

def getI (s : State) (i : Nat) : Option World := (s.find? (·.1 == i)).map (·.2)
def setI (s : State) (i : Nat) (w : World) : State := (i, w) :: s.filter (·.1 != i)

def U : List Nat := [0, 1, 2, 3]
def UH : List Nat := [0, 1, 2]

def b01 (b : Bool) : String := if b then "1" else "0"
def dots (l : List String) : String := ".".intercalate l

def showObj (o : Obj) : String :=
  s!"e{b01 o.empty}s{b01 o.suicided}b{o.balance}n{o.nonce}c{toHexTok o.code}" ++
  s!"S{dots (U.map fun k => toString (o.cur k))}C{dots (U.map fun k => toString (o.com k))}"

def showAcct (c : Core) (a : Nat) : String :=
  let flags := match c.objs a with
    | some o => s!"d{b01 o.inDirty}p{b01 o.inPending}"
    | none => "d0p0"
  match getObj c a with
  | some o => s!"A{a}[{showObj o}{flags}]"
  | none => s!"A{a}[-{flags}]"

def showLog (l : Log) : String := s!"{l.addr}:{l.tag}:{l.txh}:{l.txi}:{l.idx}"

def showObs (w : World) : String :=
  let c := w.core
  let accts := " ".intercalate (U.map (showAcct c))
  let logs := " ".intercalate (UH.map fun h => s!"G{h}[{showList showLog (c.logs h)}]")
  let pre := ",".intercalate (UH.map fun h => match c.preimages h with | some b => toHexTok b | none => ".")
  let al := ",".intercalate (U.map fun a => match c.al a with
    | none => "."
    | some f => "+" ++ String.join (U.map fun k => b01 (f k)))
  let tr := dots (U.map fun a => ",".intercalate (U.map fun k => toString (c.transient a k)))
  let dirties := String.join (U.map fun a => b01 (dirtyAddrs w.journal a))
  let revs := showList (fun (r : Nat × Nat) => s!"{r.1}:{r.2}") w.revs
  let des := String.join (U.map fun a => b01 (c.destruct a))
  s!"{accts} R{c.refund} L{c.logSize} {logs} P[{pre}] AL[{al}] T[{tr}] X{c.thash}:{c.txIndex} " ++
  s!"J{w.journal.length}:{dirties} V{revs} N{w.nextId} D{des}"

def showStatus : Status → String
  | .ok => "ok"
  | .okTrue => "true"
  | .okFalse => "false"
  | .panic => "panic"

def nat? (s : String) : Option Nat := s.toNat?
def int? (s : String) : Option Int := s.toInt?
def bool? (s : String) : Option Bool := if s = "1" then some true else if s = "0" then some false else none

def parseJ : List String → Option JOp
  | ["addbal", a, v] => do some (.addBalance (← nat? a) (← int? v))
  | ["subbal", a, v] => do some (.subBalance (← nat? a) (← int? v))
  | ["setbal", a, v] => do some (.setBalance (← nat? a) (← int? v))
  | ["nonce", a, n] => do some (.setNonce (← nat? a) (← nat? n))
  | ["code", a, h] => do some (.setCode (← nat? a) (← ofHex h))
  | ["sstore", a, k, v] => do some (.setState (← nat? a) (← nat? k) (← nat? v))
  | ["tstore", a, k, v] => do some (.setTransient (← nat? a) (← nat? k) (← nat? v))
  | ["create", a] => do some (.createAccount (← nat? a))
  | ["suicide", a] => do some (.suicide (← nat? a))
  | ["addref", g] => do some (.addRefund (← nat? g))
  | ["subref", g] => do some (.subRefund (← nat? g))
  | ["log", a, t] => do some (.addLog (← nat? a) (← nat? t))
  | ["preimg", h, b] => do some (.addPreimage (← nat? h) (← ofHex b))
  | ["aladdr", a] => do some (.alAddAddr (← nat? a))
  | ["alslot", a, k] => do some (.alAddSlot (← nat? a) (← nat? k))
  | _ => none

/-- one command on instance `i`; returns the new state and the status text -/
def exec (s : State) (i : Nat) (w : World) (cmd : List String) : Option (State × String) :=
  match cmd with
  | ["snap"] => some (setI s i (World.snapshot w), s!"id={w.nextId}")
  | ["revert", id] => do
      let id ← nat? id
      let r := World.step (.revert id) w
      some (setI s i r.1, showStatus r.2)
  | ["prepare", h, ti] => do some (setI s i (prepare (← nat? h) (← nat? ti) w), "ok")
  | ["finalise", d] => do some (setI s i (finalise (← bool? d) w), "ok")
  | ["iroot", d] => do some (setI s i (iroot (← bool? d) w), "ok")
  | ["commit", d] => do some (setI s i (commit (← bool? d) w), "ok")
  | ["reopen"] => some (setI s i (reopen w), "ok")
  | ["obs"] => some (s, "ok")
  | _ => do
      let o ← parseJ cmd
      let r := World.step (.j o) w
      some (setI s i r.1, showStatus r.2)

def step (s : State) (line : String) : State × String :=
  match tokens line with
  | "case" :: _ => (initState, "ok")
  | [i, "N", "copy", j] =>
      match nat? i, nat? j with
      | some i, some j =>
          match getI s i with
          | some w => (setI s j (World.copy w), "ok")
          | none => (s, "bad-op")
      | _, _ => (s, "bad-op")
  | [i, "N", "drop"] =>
      match nat? i with
      | some i => (s.filter (·.1 != i), "ok")
      | none => (s, "bad-op")
  | i :: fl :: cmd =>
      match nat? i with
      | none => (s, "bad-op")
      | some i =>
        match getI s i with
        | none => (s, "bad-op")
        | some w =>
          match exec s i w cmd with
          | none => (s, "bad-op")
          | some (s', st) =>
              if fl = "F" then
                match getI s' i with
                | some w' => (s', st ++ " | " ++ showObs w')
                | none => (s', "bad-op")
              else if fl = "N" then (s', st)
              else (s, "bad-op")
  | _ => (s, "bad-op")

end KV.Drv.C08
