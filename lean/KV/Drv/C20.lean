import KV.Base.Hex
import KV.Model.SecretConn
import KV.Model.MConn
import KV.Model.Transport
-- kvdrv: transport KV.Drv.C20.trStep KV.Drv.C20.trInit
-- kvdrv: secretconn KV.Drv.C20.scStep KV.Drv.C20.scInit
-- kvdrv: mconn KV.Drv.C20.mcStep KV.Drv.C20.mcInit
/-! line protocols for the two models of C20.

`secretconn` (frame layer, AEAD abstracted by the toy instance `toySeal`/`toyOpen`):
* `case`                      reset: fresh connection, empty wire
* `write <hex>`               `Write(data)` → `n=<frames> nonce=<send nonce> <nonce>:<len prefix hex>:<plain len>:<chunk sum>,…`
* `craft <len> <hex>`         a frame sealed by the sender with an arbitrary length prefix
* `read <bufsize>`            `Read(buf)` → `ok <hex> buf=<len(recvBuffer)> nonce=<recv nonce>` / `err <kind> …`
* `mitm drop|dup|swap|flip|cut <i>`, `mitm replay <h>`   man in the middle acting on the unread wire

`mconn` (packetisation):
* `case max=<maxPacketMsgPayloadSize> caps=<id>:<cap>,…`
* `enq <ch> <hex>`, `send <picked ch>`, `idle`, `recv <ch> <eof> <hex>`,
* `status <ch>` → `sending=<nil | len> queue=… recving=… delivered=…`: `sending=nil` is
  `ch.sending == nil` (nothing in flight), `sending=0` an empty message in flight (non-nil empty slice)
* `pending <ch>` → `0`/`1`: one direct call of `ch.isSendPending()` INCLUDING its side effect (the
  dequeue into `ch.sending`) on that channel only -/
namespace KV.Drv.C20
open KV KV.SecretConn KV.MConn

/-! ## secretconn -/

structure SC where
  sendNonce : Nat := 0
  wire : List ToyCipher := []
  hist : List ToyCipher := []   -- every frame ever sealed by the sender, oldest first
  recv : RecvState := ⟨0, []⟩

def scInit : SC := {}

def zeroPad : Nat → Bytes := fun _ => List.replicate dataMaxSize 0

def chunkSum (b : Bytes) : Nat :=
  (b.foldl (fun (acc : Nat × Nat) x => ((acc.1 + x.toNat * (acc.2 % 251 + 1)) % 1000003, acc.2 + 1)) (0, 0)).1

def showFrame (c : ToyCipher) : String :=
  match c with
  | none => "garbage"
  | some (n, p) =>
    let len := le32dec p
    s!"{n}:{toHexTok (p.take 4)}:{p.length}:{chunkSum ((p.drop dataLenSize).take len)}"

def showErr : RErr → String
  | .eof => "eof" | .decrypt => "decrypt" | .tooLong => "toolong"

def removeAt {α} (l : List α) (i : Nat) : List α := l.take i ++ l.drop (i + 1)

def scStep (s : SC) (line : String) : SC × String :=
  match tokens line with
  | "case" :: _ => (scInit, "ok")
  | ["write", h] =>
    match ofHex h with
    | none => (s, "bad-op")
    | some d =>
      let (fs, n') := write toySeal () zeroPad s.sendNonce d
      ({ s with sendNonce := n', wire := s.wire ++ fs, hist := s.hist ++ fs },
        s!"n={fs.length} nonce={n'} {showList showFrame fs}")
  | ["craft", l, h] =>
    match l.toNat?, ofHex h with
    | some l, some d =>
      let plain := le32 l ++ d ++ List.replicate (dataMaxSize - d.length) 0
      let f := toySeal () s.sendNonce plain
      ({ s with sendNonce := s.sendNonce + 1, wire := s.wire ++ [f], hist := s.hist ++ [f] },
        s!"nonce={s.sendNonce + 1} {showFrame f}")
    | _, _ => (s, "bad-op")
  | ["read", n] =>
    match n.toNat? with
    | none => (s, "bad-op")
    | some n =>
      let (res, st', rest) := readOne toyOpen () s.recv s.wire n
      let tail := s!" buf={st'.buf.length} nonce={st'.nonce}"
      ({ s with recv := st', wire := rest },
        match res with
        | .ok out => "ok " ++ toHexTok out ++ tail
        | .error e => "err " ++ showErr e ++ tail)
  | ["mitm", kind, i] =>
    match i.toNat? with
    | none => (s, "bad-op")
    | some i =>
      if kind = "replay" then
        match s.hist[i]? with
        | some f => ({ s with wire := f :: s.wire }, "ok")
        | none => (s, "noop")
      else if i < s.wire.length then
        if kind = "drop" then ({ s with wire := removeAt s.wire i }, "ok")
        else if kind = "dup" then
          ({ s with wire := s.wire.take (i + 1) ++ s.wire.drop i }, "ok")
        else if kind = "swap" then
          match s.wire[i]?, s.wire[i + 1]? with
          | some a, some b => ({ s with wire := s.wire.take i ++ b :: a :: s.wire.drop (i + 2) }, "ok")
          | _, _ => (s, "noop")
        else if kind = "flip" then ({ s with wire := s.wire.set i none }, "ok")
        else if kind = "cut" then ({ s with wire := s.wire.take i }, "ok")
        else (s, "bad-op")
      else (s, "noop")
  | _ => (s, "bad-op")

/-! ## mconn -/

structure MC where
  maxSize : Nat := 1024
  caps : List (Nat × Nat) := []
  sys : Sys := init

def mcInit : MC := {}

def capOf (caps : List (Nat × Nat)) (i : Nat) : Nat :=
  match caps.find? (fun p => p.1 = i) with
  | some p => p.2
  | none => 0

def parseCaps (s : String) : Option (List (Nat × Nat)) :=
  if s = "-" then some [] else
  (s.splitOn ",").mapM fun t =>
    match t.splitOn ":" with
    | [a, b] => match a.toNat?, b.toNat? with
      | some a, some b => some (a, b)
      | _, _ => none
    | _ => none

def showDelivery (before after : List Bytes) (err : Bool) : String :=
  if err then "err"
  else if after.length = before.length + 1 then "msg " ++ toHexTok (after.getLastD [])
  else "none"

def mcStep (s : MC) (line : String) : MC × String :=
  let toks := tokens line
  match toks with
  | "case" :: rest =>
    match kvNat rest "max", (kv rest "caps").bind parseCaps with
    | some m, some caps => ({ maxSize := m, caps := caps, sys := init }, "ok")
    | _, _ => (s, "bad-op")
  | ["enq", c, h] =>
    match c.toNat?, ofHex h with
    | some c, some m =>
      let sys' := step s.maxSize (capOf s.caps) s.sys (.send c m)
      ({ s with sys := sys' }, s!"ok q={(sys'.ch c).queue.length}")
    | _, _ => (s, "bad-op")
  | ["send", c] =>
    match c.toNat? with
    | none => (s, "bad-op")
    | some c =>
      if s.sys.err then (s, "stopped")
      else if !(pending s.sys.ch c) then (s, "not-pending")
      else
        let before := (s.sys.ch c).delivered
        let sys' := step s.maxSize (capOf s.caps) s.sys (.pkt c)
        let pk := match sys'.wire.head? with
          | some p => s!"pkt ch={p.chID} eof={if p.eof then 1 else 0} len={p.data.length} sum={KV.Drv.C20.chunkSum p.data}"
          | none => "pkt ?"
        ({ s with sys := sys' }, pk ++ " -> " ++ showDelivery before (sys'.ch c).delivered sys'.err)
  | ["idle"] =>
    match s.caps.find? (fun p => pending s.sys.ch p.1) with
    | some p => (s, s!"pending {p.1}")
    | none => ({ s with sys := { s.sys with ch := sweep s.sys.ch } }, "idle")
  | ["recv", c, e, h] =>
    match c.toNat?, ofHex h with
    | some c, some d =>
      let ch := s.sys.ch c
      match recvPacket (capOf s.caps c) ch.recving ⟨c, e = "1", d⟩ with
      | none => ({ s with sys := { s.sys with err := true } }, "err")
      | some (some m, r) =>
        ({ s with sys := { s.sys with ch := upd s.sys.ch c { ch with recving := r, delivered := ch.delivered ++ [m] } } },
          "msg " ++ toHexTok m)
      | some (none, r) =>
        ({ s with sys := { s.sys with ch := upd s.sys.ch c { ch with recving := r } } }, "none")
    | _, _ => (s, "bad-op")
  | ["pending", c] =>
    match c.toNat? with
    | some c =>
      let (b, ch') := isSendPending (s.sys.ch c)
      ({ s with sys := { s.sys with ch := upd s.sys.ch c ch' } }, if b then "1" else "0")
    | none => (s, "bad-op")
  | ["status", c] =>
    match c.toNat? with
    | some c =>
      let ch := s.sys.ch c
      let snd := match ch.sending with
        | none => "nil"
        | some b => toString b.length
      (s, s!"sending={snd} queue={ch.queue.length} recving={ch.recving.length} delivered={ch.delivered.length}")
    | none => (s, "bad-op")
  | _ => (s, "bad-op")

/-! ## transport: `upg dialed=<id|-> key=<id> claim=<id> self=<id> aborted=<0|1> compat=<0|1>` -/

def trInit : Unit := ()

def trStep (s : Unit) (line : String) : Unit × String :=
  let toks := tokens line
  match toks with
  | "case" :: _ => (s, "ok")
  | "upg" :: rest =>
    let dialed : Option (Option Nat) :=
      match kv rest "dialed" with
      | some "-" => some none
      | some t => t.toNat?.map some
      | none => none
    match dialed, kvNat rest "key", kvNat rest "claim", kvNat rest "self", kvNat rest "aborted", kvNat rest "compat" with
    | some d, some k, some c, some me, some ab, some co =>
      match KV.Transport.upgrade d k c me (ab != 0) (co != 0) with
      | .ok id => (s, s!"ok id={id}")
      | .auth => (s, "auth")
      | .self => (s, "self")
      | .incompat => (s, "incompat")
    | _, _, _, _, _, _ => (s, "bad-op")
  | _ => (s, "bad-op")

end KV.Drv.C20
