import KV.Base.Hex
/-!
# Model of the data phase of `SecretConnection` (lib/p2p/conn/secret_connection.go)

`Write` / `Read` after the handshake.  The AEAD (ChaCha20-Poly1305 in the code) is a pair of
*parameters* `sealF`/`openF`; what is assumed about them is stated as hypotheses of the theorems
in `KV/Props/C20.lean`, never as an axiom.  The nonce is modelled by its 64-bit counter
(`incrNonce` increments the little-endian counter in `nonce[4:]`; overflow panics after 2^64
frames and is out of scope).

The wire is a list of *whole* sealed frames: `io.ReadFull(conn, sealedFrame)` either returns one
frame of `totalFrameSize + aeadSizeOverhead` bytes or fails (`io.EOF` at a frame boundary,
`io.ErrUnexpectedEOF` when the stream was cut inside a frame) – both are `RErr.eof` here.
Core Lean only.
-/
namespace KV.SecretConn
open KV

def dataLenSize : Nat := 4
def dataMaxSize : Nat := 1024
def totalFrameSize : Nat := dataMaxSize + dataLenSize
def aeadSizeOverhead : Nat := 16
def sealedFrameSize : Nat := totalFrameSize + aeadSizeOverhead

/-- `binary.LittleEndian.PutUint32(frame, uint32(n))` -/
def le32 (n : Nat) : Bytes :=
  [UInt8.ofNat n, UInt8.ofNat (n / 256), UInt8.ofNat (n / 65536), UInt8.ofNat (n / 16777216)]

/-- `binary.LittleEndian.Uint32(frame)`: the first four bytes (missing bytes read as 0; real
frames always have `totalFrameSize` bytes) -/
def le32dec (b : Bytes) : Nat :=
  (b.getD 0 0).toNat + 256 * (b.getD 1 0).toNat + 65536 * (b.getD 2 0).toNat
    + 16777216 * (b.getD 3 0).toNat

/-- the plaintext frame built by `Write` for one chunk: length prefix, chunk, then the rest of a
`totalFrameSize` buffer.  The buffer comes from a pool and is *not* cleared in the code, so the
padding is arbitrary: `pad` is whatever was in it. -/
def framePlain (pad : Bytes) (chunk : Bytes) : Bytes :=
  le32 chunk.length ++ chunk ++ pad.take (dataMaxSize - chunk.length)

/-- the chunks of one `Write(data)`: `data[:1024]`, … ; no frame at all for empty data -/
def chunksFuel : Nat → Bytes → List Bytes
  | 0, _ => []
  | fuel + 1, data =>
    if 0 < data.length then
      if dataMaxSize < data.length then
        data.take dataMaxSize :: chunksFuel fuel (data.drop dataMaxSize)
      else [data]
    else []

def chunks (data : Bytes) : List Bytes := chunksFuel (data.length + 1) data

section
variable {Key Cipher : Type} (sealF : Key → Nat → Bytes → Cipher) (openF : Key → Nat → Cipher → Option Bytes)
variable (k : Key)

/-- frames for a list of chunks, nonce counter starting at `n` (one `incrNonce` per frame).
`pad i` is the stale content of the pool buffer used for frame `i`. -/
def sealChunks (pad : Nat → Bytes) : Nat → List Bytes → List Cipher
  | _, [] => []
  | n, c :: cs => sealF k n (framePlain (pad n) c) :: sealChunks pad (n + 1) cs

/-- `Write(data)` with send nonce `n`: the sealed frames put on the wire and the new nonce -/
def write (pad : Nat → Bytes) (n : Nat) (data : Bytes) : List Cipher × Nat :=
  let cs := chunks data
  (sealChunks sealF k pad n cs, n + cs.length)

/-- a sequence of `Write` calls -/
def writeAll (pad : Nat → Bytes) : Nat → List Bytes → List Cipher × Nat
  | n, [] => ([], n)
  | n, d :: ds =>
    let (f, n1) := write sealF k pad n d
    let (fs, n2) := writeAll pad n1 ds
    (f ++ fs, n2)

/-- receive side: nonce counter and `recvBuffer` -/
structure RecvState where
  nonce : Nat
  buf : Bytes
deriving Repr, DecidableEq

inductive RErr
  | eof       -- io.EOF / io.ErrUnexpectedEOF from io.ReadFull
  | decrypt   -- "failed to decrypt SecretConnection"
  | tooLong   -- "chunkLength is greater than dataMaxSize"
deriving Repr, DecidableEq

/-- one `Read(data)` with `len(data) = bufSize`.  Returns the result, the new state and the
frames left on the wire.  Branch by branch:
* non-empty `recvBuffer`: serve from it only (no frame is read);
* else read one frame (`eof` if none), open it with the receive nonce (`decrypt` on failure; the
  frame is consumed, the nonce is *not* incremented), increment the nonce, check the length
  prefix, copy what fits and keep the remainder in `recvBuffer`. -/
def readOne (st : RecvState) (frames : List Cipher) (bufSize : Nat) :
    Except RErr Bytes × RecvState × List Cipher :=
  if 0 < st.buf.length then
    (.ok (st.buf.take bufSize), { st with buf := st.buf.drop bufSize }, frames)
  else
    match frames with
    | [] => (.error .eof, st, [])
    | f :: rest =>
      match openF k st.nonce f with
      | none => (.error .decrypt, st, rest)
      | some plain =>
        let n := le32dec plain
        if dataMaxSize < n then (.error .tooLong, { st with nonce := st.nonce + 1 }, rest)
        else
          let chunk := (plain.drop dataLenSize).take n
          (.ok (chunk.take bufSize), { nonce := st.nonce + 1, buf := chunk.drop bufSize }, rest)

/-- result of a sequence of `Read` calls, stopping at the first error -/
structure ReadLog (Cipher : Type) where
  outs : List Bytes        -- what each successful Read returned
  err : Option RErr        -- the first error, if one occurred
  st : RecvState
  rest : List Cipher

def readAll : RecvState → List Cipher → List Nat → ReadLog Cipher
  | st, frames, [] => ⟨[], none, st, frames⟩
  | st, frames, s :: sizes =>
    match readOne openF k st frames s with
    | (.error e, st', rest) => ⟨[], some e, st', rest⟩
    | (.ok out, st', rest) =>
      let r := readAll st' rest sizes
      { r with outs := out :: r.outs }

end

/-! ### a toy AEAD that satisfies the ideal hypotheses (non-vacuity, and the driver's instance)

A ciphertext is `some (nonce, plaintext)` (an honest sealing, the "tag" being the nonce in clear)
or `none` (garbage that opens under no nonce: a flipped/forged/cut frame under the
unforgeability assumption).  The key is `Unit`. -/

abbrev ToyCipher := Option (Nat × Bytes)

def toySeal (_ : Unit) (n : Nat) (p : Bytes) : ToyCipher := some (n, p)

def toyOpen (_ : Unit) (n : Nat) (c : ToyCipher) : Option Bytes :=
  match c with
  | some (m, p) => if m = n then some p else none
  | none => none

end KV.SecretConn
