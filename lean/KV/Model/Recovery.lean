/-!
# Crash recovery (property C05): two models

**Model 1 — WAL discipline** (`consensus/state.go receiveRoutine`, `consensus/replay.go
catchupReplay`). The node is an abstract deterministic `step : σ → ι → σ × List ι` (process one
input, return the new state and the own messages it signed and queued). Inputs from peers and
timeouts are appended to the WAL *buffered* and processed; an own message is taken from the
internal queue, appended and *synced*, processed, and only then published. A crash keeps any
prefix of the WAL that contains the synced part. Restart re-initialises the state and folds
`step` over the surviving records, with signing enabled (the real signer keeps no last-signed
state).

**Model 2 — durable writes** (`finalizeCommit`, `ApplyBlock`, `writeBlockWithState`,
`writeHeadBlock`, `cstate.Store.Save`; recovery = `NewBlockChain`, `Store.Load` /
`LoadStateFromDBOrGenesisDoc`, `NewBlockOperations`, `NewConsensusState`, `catchupReplay`).
The disk is the set of heights for which each kind of record exists; the events of one height are
issued in the order the recording database observed on the real code:
`blockBatch h`, `walEnd h`, `appBatch h`, `trieFlush h` (flush-every-block mode only),
`headBatch h`, `cstateBatch h`. A crash is a prefix of the event list. Batches are atomic and
fsync is honoured (assumptions).
-/
namespace KV.Recovery

/-! ## Model 1 -/

/-- a WAL record of the height in progress: an input from outside (peer message, timeout) or an
own message -/
inductive Rec (ι : Type) where
  | ext (i : ι)
  | own (i : ι)
  deriving Repr, DecidableEq

def Rec.input {ι} : Rec ι → ι
  | .ext i => i
  | .own i => i

def Rec.isOwn {ι} : Rec ι → Bool
  | .ext _ => false
  | .own _ => true

/-- the own messages logged in a WAL, in order -/
def ownRecs {ι} (w : List (Rec ι)) : List ι := (w.filter Rec.isOwn).map Rec.input

structure Node (σ ι : Type) where
  s : σ
  queue : List ι          -- internalMsgQueue: signed, not yet logged
  wal : List (Rec ι)      -- records since the last #ENDHEIGHT
  synced : Nat            -- length of the WAL prefix known to be on disk
  outbox : List ι         -- own messages handed to handleMsg (visible to the reactor)

/-- scheduler choices: an outside input arrives, or the node takes its next own message -/
inductive Act (ι : Type) where
  | ext (i : ι)
  | own
  deriving Repr

variable {σ ι : Type}

/-- one iteration of `receiveRoutine` -/
def Node.act (step : σ → ι → σ × List ι) (n : Node σ ι) : Act ι → Node σ ι
  | .ext i =>
    -- cs.wal.Write(mi); cs.handleMsg(mi)
    let r := step n.s i
    { n with s := r.1, queue := n.queue ++ r.2, wal := n.wal ++ [Rec.ext i] }
  | .own =>
    match n.queue with
    | [] => n
    | m :: q =>
      -- cs.wal.WriteSync(mi); cs.handleMsg(mi)
      let r := step n.s m
      { s := r.1, queue := q ++ r.2, wal := n.wal ++ [Rec.own m], synced := n.wal.length + 1,
        outbox := n.outbox ++ [m] }

def Node.start (s0 : σ) : Node σ ι := { s := s0, queue := [], wal := [], synced := 0, outbox := [] }

def Node.run (step : σ → ι → σ × List ι) (n : Node σ ι) (acts : List (Act ι)) : Node σ ι :=
  acts.foldl (Node.act step) n

/-- `catchupReplay` of the height in progress: fold `step` over the surviving records, collecting
what is signed on the way -/
def replay (step : σ → ι → σ × List ι) (s0 : σ) (w : List (Rec ι)) : σ × List ι :=
  w.foldl (fun acc r => let x := step acc.1 r.input; (x.1, acc.2 ++ x.2)) (s0, [])

/-- a crash image of the WAL: any prefix that contains the synced part -/
def CrashImage (n : Node σ ι) (p : List (Rec ι)) : Prop :=
  ∃ k, n.synced ≤ k ∧ p = n.wal.take k

/-- the node as rebuilt after a crash: state and queue come from the replay -/
def Node.restart (step : σ → ι → σ × List ι) (s0 : σ) (p : List (Rec ι)) : Node σ ι :=
  let r := replay step s0 p
  { s := r.1, queue := r.2, wal := p, synced := p.length, outbox := [] }

/-! ### height markers -/

/-- WAL with height markers: `none` = a record, `some h` = `#ENDHEIGHT h` -/
abbrev MWal (ρ : Type) := List (ρ ⊕ Nat)

def hasEnd {ρ} (w : MWal ρ) (h : Nat) : Bool := w.any (fun x => match x with | .inr k => k == h | _ => false)

/-- the records after the first `#ENDHEIGHT h` -/
def afterEnd {ρ} : MWal ρ → Nat → Option (MWal ρ)
  | [], _ => none
  | .inr k :: rest, h => if k == h then some rest else afterEnd rest h
  | .inl _ :: rest, h => afterEnd rest h

inductive Catchup (ρ : Type) where
  | refused                 -- "wal should not contain #ENDHEIGHT h"
  | nomarker                -- "WAL does not contain #ENDHEIGHT for h-1"
  | replay (recs : MWal ρ)
  deriving Repr

/-- `catchupReplay(csHeight)` as far as the markers are concerned -/
def catchup {ρ} (w : MWal ρ) (csHeight : Nat) : Catchup ρ :=
  if hasEnd w csHeight then .refused
  else match afterEnd w (csHeight - 1) with
    | none => .nomarker
    | some recs => .replay recs

/-! ### the WAL as a GROUP of files: `BaseWAL.SearchForEndHeight`

The autofile group rotates its head (`wal` → `wal.NNN`; no new head is created until the next
write). `SearchForEndHeight` opens a group reader at the newest file first, then at each older file
(a reader opened at file `i` reads file `i` and every newer file), keeps `lastHeightFound` across
the files, and gives up early when the last marker seen is positive and below the wanted height.
When a restart finds the head empty or absent, `BaseWAL.OnStart` writes `#ENDHEIGHT 0` into it: the
newest file then holds ONLY that marker. (`KV/Model/Wal.lean` has the byte-level search; its
`search_iff` assumes increasing marker heights, which that extra `#ENDHEIGHT 0` breaks.) -/

/-- one reader: `some rest` = marker found, reader positioned after it; otherwise the height of the
last marker seen (`lastHeightFound`) -/
def scanFor {ρ} (h : Nat) : MWal ρ → Int → Option (MWal ρ) × Int
  | [], last => (none, last)
  | .inr k :: rest, _ => if k == h then (some rest, (k : Int)) else scanFor h rest (k : Int)
  | .inl _ :: rest, last => scanFor h rest last

/-- the outer loop `for index := max; index >= min; index--`; first numeric argument = index + 1;
`exit last height` = the early-exit test at end of file -/
def gsearchLoop {ρ} (exit : Int → Int → Bool) (files : List (MWal ρ)) (h : Nat) :
    Nat → Int → Option (MWal ρ)
  | 0, _ => none
  | i + 1, last =>
    match scanFor h (files.drop i).flatten last with
    | (some rest, _) => some rest
    | (none, last') => if exit last' (h : Int) then none else gsearchLoop exit files h i last'

def gsearch {ρ} (exit : Int → Int → Bool) (files : List (MWal ρ)) (h : Nat) : Option (MWal ρ) :=
  gsearchLoop exit files h files.length (-1)

/-- the code: `lastHeightFound > 0 && lastHeightFound < height` -/
def exitGt0 (last height : Int) : Bool := decide (0 < last ∧ last < height)

/-- the seeded change: `lastHeightFound >= 0 && lastHeightFound < height` -/
def exitGe0 (last height : Int) : Bool := decide (0 ≤ last ∧ last < height)

/-! ## Model 2 -/

inductive Mode where
  | flush | mem
  deriving DecidableEq, Repr

inductive Ev where
  | precommitLogged (h : Nat)   -- the own precommit of height h is in the WAL (commit point)
  | blockBatch (h : Nat)        -- rawdb.WriteBlock: meta, parts, commit, seen commit, hash->height
  | walEnd (h : Nat)            -- #ENDHEIGHT h, synced
  | appBatch (h : Nat)          -- block info, canonical hash, app hash of height h
  | trieFlush (h : Nat)         -- triedb.Commit(root) — flush-every-block mode only
  | headBatch (h : Nat)         -- canonical hash, tx lookups, head block hash
  | cstateBatch (h : Nat)       -- validators info, params, consensus state record of height h
  deriving DecidableEq, Repr

/-- the disk: for each kind of record, the heights at which it exists -/
structure Disk where
  votes : Nat → Bool
  blocks : Nat → Bool
  ends : Nat → Bool
  app : Nat → Bool
  tries : Nat → Bool
  head : Nat
  cstates : Nat → Bool

def upd (f : Nat → Bool) (h : Nat) : Nat → Bool := fun i => i == h || f i

def Disk.apply (d : Disk) : Ev → Disk
  | .precommitLogged h => { d with votes := upd d.votes h }
  | .blockBatch h => { d with blocks := upd d.blocks h }
  | .walEnd h => { d with ends := upd d.ends h }
  | .appBatch h => { d with app := upd d.app h }
  | .trieFlush h => { d with tries := upd d.tries h }
  | .headBatch h => { d with head := h }
  | .cstateBatch h => { d with cstates := upd d.cstates h }

def Disk.applyAll (d : Disk) (evs : List Ev) : Disk := evs.foldl Disk.apply d

/-- after the first start: genesis block, its state, head marker, genesis consensus state, and a
WAL that starts with `#ENDHEIGHT 0` (`BaseWAL.OnStart` writes it whenever the file is empty) -/
def Disk.genesis : Disk :=
  { votes := fun _ => false, blocks := fun i => i == 0, ends := fun i => i == 0, app := fun i => i == 0,
    tries := fun i => i == 0, head := 0, cstates := fun i => i == 0 }

/-- the durable events of height `h`, in the order the code issues them -/
def heightEvs (m : Mode) (h : Nat) : List Ev :=
  [.precommitLogged h, .blockBatch h, .walEnd h, .appBatch h] ++
  (match m with | .flush => [.trieFlush h] | .mem => []) ++
  [.headBatch h, .cstateBatch h]

/-- the events of heights `from+1 … from+n` -/
def heightsEvs (m : Mode) : Nat → Nat → List Ev
  | _, 0 => []
  | from_, n+1 => heightEvs m (from_ + 1) ++ heightsEvs m (from_ + 1) n

/-- a complete run of `n` heights after the first start -/
def runEvs (m : Mode) (n : Nat) : List Ev := heightsEvs m 0 n

/-- `HasState(ReadAppHash(h))`: a missing app-hash record reads as the zero hash, which opens as the
empty trie -/
def hasState (d : Disk) (h : Nat) : Bool := !d.app h || d.tries h

/-- `setHeadBeyondRoot(head, {}, repair)`: walk back to the last block whose state is on disk
(blocks skipped because their state is missing are NOT deleted) -/
def rewind (d : Disk) : Nat → Nat → Nat
  | 0, cur => if hasState d cur then cur else 0
  | fuel+1, cur =>
    if hasState d cur then cur
    else if cur = 0 then 0
    else if d.blocks (cur - 1) then rewind d fuel (cur - 1) else 0

inductive Verdict where
  | ok | refused | nomarker | panic
  deriving DecidableEq, Repr

structure Outcome where
  store : Nat      -- BlockOperations.height
  head : Nat       -- chain head after NewBlockChain
  state : Nat      -- LastBlockHeight of the loaded consensus state
  replay : Verdict -- catchupReplay
  after : Nat      -- block store height after the catch-up
  deriving DecidableEq, Repr

def Disk.recover (d : Disk) : Outcome :=
  -- loadLastState: a head whose block is missing resets the chain to genesis
  let hd0 := if d.blocks d.head then d.head else 0
  -- head-state repair
  let hd := if hasState d hd0 then hd0 else rewind d hd0 hd0
  -- Store.Load at the head; LoadStateFromDBOrGenesisDoc substitutes the genesis state
  let st := if d.cstates hd then hd else 0
  -- NewConsensusState: reconstructLastCommit needs the seen commit of the state's height
  if st > 0 && !d.blocks st then { store := hd, head := hd, state := st, replay := .panic, after := hd }
  else
    let csH := st + 1
    let v : Verdict := if d.ends csH then .refused else if !d.ends (csH - 1) then .nomarker else .ok
    -- a replay that reaches the logged precommit commits the height again
    let after := if v == .ok && d.votes csH then max hd csH else hd
    { store := hd, head := hd, state := st, replay := v, after := after }

/-- the disk at a crash point of a run -/
def crashDisk (m : Mode) (n k : Nat) : Disk := Disk.genesis.applyAll ((runEvs m n).take k)

end KV.Recovery
