/-!
# Transaction pool model (property C17)

Follows `mainchain/tx_pool/{tx_list,tx_sorted_map,tx_pool,tx_priced_list,tx_noncer}.go` branch by
branch.  Core Lean only.

* `TxList` — `txList` (a nonce-indexed map, kept here as a nonce-sorted list, with the cached
  `costcap`/`gascap` and the `strict` flag) and its operations `add`, `forward`, `filter`, `cap`,
  `remove`, `ready`.
* `Pool` — the pool core (`pending`, `queue`, `all`, virtual nonces, locals) with `validate`,
  `add`, `enqueueTx`, `promoteTx`, `removeTx`, `promoteExecutables`, `demoteUnexecutables`,
  `truncatePending`, `truncateQueue`, `reset`, `setGasPrice`, `expire`.

Where the code's choice depends on the layout of a heap or on wall-clock heartbeats (which of
several equally cheap remote transactions `Discard` pops first; in which order `truncateQueue`
visits accounts) the model is *relational*: the operation returns the list of all allowed
successors.
-/
namespace KV.TxPool

/-- what the pool looks at in a transaction.  `sender` is the recovered signer (meaningful only
when `sigOk`), `slots = numSlots(tx)`, `igas` the intrinsic gas of its payload, `neg` says the
value is negative (possible only for RPC-built transactions). -/
structure Tx where
  id : Nat
  sender : Nat
  nonce : Nat
  price : Nat
  gas : Nat
  value : Nat
  slots : Nat := 1
  size : Nat := 110
  neg : Bool := false
  sigOk : Bool := true
  igas : Nat := 0
deriving DecidableEq, Repr, Inhabited

/-- `tx.Cost()` = gasprice * gaslimit + value -/
def Tx.cost (t : Tx) : Nat := t.price * t.gas + t.value

/-! ## txList -/

structure TxList where
  strict : Bool
  txs : List Tx := []
  costcap : Nat := 0
  gascap : Nat := 0
deriving Repr, Inhabited, DecidableEq

namespace TxList

def new (strict : Bool) : TxList := { strict := strict }

/-- `txSortedMap.Get` -/
def get? (l : TxList) (n : Nat) : Option Tx := l.txs.find? (fun t => t.nonce == n)

/-- `txSortedMap.Put`: insert keeping nonce order, overwrite an equal nonce -/
def put (t : Tx) : List Tx → List Tx
  | [] => [t]
  | x :: xs =>
    if t.nonce < x.nonce then t :: x :: xs
    else if t.nonce = x.nonce then t :: xs
    else x :: put t xs

/-- the replacement threshold `old.price * (100 + bump) / 100` (big.Int `Div`, operands ≥ 0) -/
def threshold (oldPrice bump : Nat) : Nat := (100 + bump) * oldPrice / 100

/-- the test of `txList.Add`: the new transaction may overwrite `old` -/
def canReplace (old t : Tx) (bump : Nat) : Bool :=
  !(decide (old.price ≥ t.price) || decide (t.price < threshold old.price bump))

/-- `txList.replaceable`: no transaction with that nonce, or the new one outbids it by the bump -/
def replaceable (l : TxList) (t : Tx) (bump : Nat) : Bool :=
  match l.get? t.nonce with
  | none => true
  | some o => canReplace o t bump

/-- `txList.Add`: (list, inserted, replaced transaction) -/
def add (l : TxList) (t : Tx) (bump : Nat) : TxList × Bool × Option Tx :=
  let old := l.get? t.nonce
  match old with
  | some o =>
    if canReplace o t bump then
      ({ l with txs := put t l.txs, costcap := max l.costcap t.cost, gascap := max l.gascap t.gas },
        true, some o)
    else (l, false, none)
  | none =>
    ({ l with txs := put t l.txs, costcap := max l.costcap t.cost, gascap := max l.gascap t.gas },
      true, none)

/-- `txList.Forward`: drop every nonce below the threshold; (list, removed) -/
def forward (l : TxList) (th : Nat) : TxList × List Tx :=
  ({ l with txs := l.txs.filter (fun t => !(decide (t.nonce < th))) },
   l.txs.filter (fun t => decide (t.nonce < th)))

/-- the predicate of `Filter`: too much gas or too costly -/
def unpayable (costLimit gasLimit : Nat) (t : Tx) : Bool :=
  decide (t.gas > gasLimit) || decide (t.cost > costLimit)

/-- smallest nonce of a list (`math.MaxUint64` for the empty list is never used) -/
def lowest : List Tx → Nat
  | [] => 0
  | [t] => t.nonce
  | t :: ts => min t.nonce (lowest ts)

/-- `txList.Filter`: (list, removed, invalids) -/
def filter (l : TxList) (costLimit gasLimit : Nat) : TxList × List Tx × List Tx :=
  if l.costcap ≤ costLimit ∧ l.gascap ≤ gasLimit then (l, [], [])
  else
    let removed := l.txs.filter (unpayable costLimit gasLimit)
    let kept := l.txs.filter (fun t => !(unpayable costLimit gasLimit t))
    let l1 : TxList := { l with costcap := costLimit, gascap := gasLimit, txs := kept }
    if removed.isEmpty then (l1, [], [])
    else if l.strict then
      let low := lowest removed
      ({ l1 with txs := kept.filter (fun t => !(decide (t.nonce > low))) },
        removed, kept.filter (fun t => decide (t.nonce > low)))
    else (l1, removed, [])

/-- `txList.Cap`: keep the `k` lowest nonces; drops are returned highest nonce first -/
def cap (l : TxList) (k : Nat) : TxList × List Tx :=
  if l.txs.length ≤ k then (l, [])
  else ({ l with txs := l.txs.take k }, (l.txs.drop k).reverse)

/-- `txList.Remove` (by nonce): (list, found, invalids) -/
def remove (l : TxList) (n : Nat) : TxList × Bool × List Tx :=
  match l.get? n with
  | none => (l, false, [])
  | some _ =>
    let rest := l.txs.filter (fun t => !(t.nonce == n))
    if l.strict then
      ({ l with txs := rest.filter (fun t => !(decide (t.nonce > n))) }, true,
        rest.filter (fun t => decide (t.nonce > n)))
    else ({ l with txs := rest }, true, [])

/-- the consecutive run starting with nonce `next`: (run, rest) -/
def run : Nat → List Tx → List Tx × List Tx
  | _, [] => ([], [])
  | next, t :: ts =>
    if t.nonce = next then
      let r := run (next + 1) ts
      (t :: r.1, r.2)
    else ([], t :: ts)

/-- `txList.Ready`: (list, ready transactions) -/
def ready (l : TxList) (start : Nat) : TxList × List Tx :=
  match l.txs with
  | [] => (l, [])
  | t :: _ =>
    if t.nonce > start then (l, [])
    else
      let r := run t.nonce l.txs
      ({ l with txs := r.2 }, r.1)

def len (l : TxList) : Nat := l.txs.length
def isEmpty (l : TxList) : Bool := l.txs.isEmpty

/-- the operations of a list, for statements about arbitrary op sequences -/
inductive Op where
  | add (t : Tx) (bump : Nat)
  | forward (th : Nat)
  | filter (costLimit gasLimit : Nat)
  | cap (k : Nat)
  | remove (n : Nat)
  | ready (start : Nat)
deriving Repr

def apply (l : TxList) : Op → TxList
  | .add t b => (l.add t b).1
  | .forward th => (l.forward th).1
  | .filter c g => (l.filter c g).1
  | .cap k => (l.cap k).1
  | .remove n => (l.remove n).1
  | .ready s => (l.ready s).1

end TxList

/-! ## the pool -/

/-- association lists keyed by account index, kept sorted by key -/
abbrev AMap (α : Type) := List (Nat × α)

def amGet {α} (m : AMap α) (k : Nat) : Option α := (m.find? (fun e => e.1 == k)).map (·.2)
def amSet {α} (m : AMap α) (k : Nat) (v : α) : AMap α :=
  match m with
  | [] => [(k, v)]
  | e :: es => if k < e.1 then (k, v) :: e :: es else if k = e.1 then (k, v) :: es else e :: amSet es k v
def amErase {α} (m : AMap α) (k : Nat) : AMap α := m.filter (fun e => !(e.1 == k))

structure Cfg where
  priceLimit : Nat := 1
  priceBump : Nat := 10
  accountSlots : Nat := 16
  globalSlots : Nat := 5120
  accountQueue : Nat := 64
  globalQueue : Nat := 1024
  noLocals : Bool := false
deriving Repr, Inhabited

/-- the view of the chain head the pool reads: nonce and balance per account, block gas limit -/
structure Chain where
  nonces : List Nat := []
  balances : List Nat := []
  gasLimit : Nat := 0
deriving Repr, Inhabited

inductive Err where
  | alreadyKnown | invalidSender | oversized | negativeValue | gasLimit | underpriced
  | nonceTooLow | insufficientFunds | intrinsicGas | replaceUnderpriced | poolOverflow
deriving DecidableEq, Repr

def Err.show : Err → String
  | .alreadyKnown => "known" | .invalidSender => "sender" | .oversized => "oversized"
  | .negativeValue => "negative" | .gasLimit => "gaslimit" | .underpriced => "underpriced"
  | .nonceTooLow => "noncelow" | .insufficientFunds => "funds" | .intrinsicGas => "intrinsic"
  | .replaceUnderpriced => "replace" | .poolOverflow => "overflow"

structure Pool where
  cfg : Cfg := {}
  chain : Chain := {}
  gasPrice : Nat := 1
  pending : AMap TxList := []
  queue : AMap TxList := []
  /-- `txLookup`: every indexed transaction with its local flag -/
  all : List (Tx × Bool) := []
  /-- `txNoncer.nonces`; missing accounts fall back to the state nonce -/
  pnonce : AMap Nat := []
  locals : List Nat := []
  changes : Nat := 0
deriving Repr, Inhabited

namespace Pool

def stateNonce (p : Pool) (a : Nat) : Nat := p.chain.nonces.getD a 0
def balance (p : Pool) (a : Nat) : Nat := p.chain.balances.getD a 0
def pnGet (p : Pool) (a : Nat) : Nat := (amGet p.pnonce a).getD (p.stateNonce a)
def pnSetIfLower (p : Pool) (a n : Nat) : Pool :=
  if p.pnGet a ≤ n then p
  else { p with pnonce := amSet p.pnonce a n }

def known (p : Pool) (t : Tx) : Bool := p.all.any (fun e => e.1.id == t.id)
def allRemove (p : Pool) (t : Tx) : Pool := { p with all := p.all.filter (fun e => !(e.1.id == t.id)) }
def allRemoveL (p : Pool) (ts : List Tx) : Pool := ts.foldl allRemove p
def allAdd (p : Pool) (t : Tx) (loc : Bool) : Pool := { p with all := p.all ++ [(t, loc)] }
def allSlots (p : Pool) : Nat := (p.all.map (fun e => e.1.slots)).sum
def remotes (p : Pool) : List Tx := (p.all.filter (fun e => !e.2)).map (·.1)
def isLocalAcc (p : Pool) (a : Nat) : Bool := p.locals.contains a

def txMaxSize : Nat := 4 * 32 * 1024

/-- `validateTx` -/
def validate (p : Pool) (t : Tx) (loc : Bool) : Option Err :=
  if t.size > txMaxSize then some .oversized
  else if t.neg then some .negativeValue
  else if p.chain.gasLimit < t.gas then some .gasLimit
  else if !t.sigOk then some .invalidSender
  else if !loc ∧ t.price < p.gasPrice then some .underpriced
  else if p.stateNonce t.sender > t.nonce then some .nonceTooLow
  else if p.balance t.sender < t.cost then some .insufficientFunds
  else if t.gas < t.igas then some .intrinsicGas
  else none

/-- `enqueueTx`: (pool, inserted?, replaced?) — `inserted = false` is `ErrReplaceUnderpriced` -/
def enqueueTx (p : Pool) (t : Tx) (loc addAll : Bool) : Pool × Bool × Bool :=
  let ql := (amGet p.queue t.sender).getD (TxList.new false)
  let r := ql.add t p.cfg.priceBump
  if !r.2.1 then ({ p with queue := amSet p.queue t.sender ql }, false, false)
  else
    let p1 := { p with queue := amSet p.queue t.sender r.1 }
    let p2 := match r.2.2 with
      | some o => p1.allRemove o
      | none => p1
    let p3 := if addAll then p2.allAdd t loc else p2
    (p3, true, r.2.2.isSome)

/-- `removeTx` -/
def removeTx (p : Pool) (t : Tx) : Pool :=
  if !p.known t then p
  else
    let a := t.sender
    let p0 := p.allRemove t
    let viaQueue (p0 : Pool) : Pool :=
      match amGet p0.queue a with
      | none => p0
      | some ql =>
        let r := ql.remove t.nonce
        if r.1.isEmpty then { p0 with queue := amErase p0.queue a }
        else { p0 with queue := amSet p0.queue a r.1 }
    match amGet p0.pending a with
    | none => viaQueue p0
    | some pl =>
      let r := pl.remove t.nonce
      if r.2.1 then
        let p1 := if r.1.isEmpty then { p0 with pending := amErase p0.pending a }
                  else { p0 with pending := amSet p0.pending a r.1 }
        let p2 := r.2.2.foldl (fun q inv => (q.enqueueTx inv false false).1) p1
        p2.pnSetIfLower a t.nonce
      else viaQueue p0

/-- `priceHeap.Less`: cheaper first, at equal price the higher nonce first -/
def worse (a b : Tx) : Bool := decide (a.price < b.price) || (a.price == b.price && decide (a.nonce > b.nonce))

/-- `txPricedList.Underpriced` (stale heap entries are skipped, so the head is the cheapest
indexed remote transaction) -/
def underpriced (p : Pool) (t : Tx) : Bool :=
  !p.remotes.isEmpty && p.remotes.all (fun r => decide (r.price ≥ t.price))

/-- every result of the pop loop of `txPricedList.Discard`: which heap-minimal element comes
out first among equals depends on the heap layout. (dropped, slots still missing) -/
def discardAux : Nat → List Tx → Int → List Tx → List (List Tx × Int)
  | 0, _, slots, acc => [(acc, slots)]
  | fuel + 1, rem, slots, acc =>
    if slots ≤ 0 ∨ rem.isEmpty then [(acc, slots)]
    else
      let mins := rem.filter (fun r => rem.all (fun r' => !(worse r' r)))
      mins.flatMap (fun m =>
        discardAux fuel (rem.filter (fun r => !(r.id == m.id))) (slots - m.slots) (acc ++ [m]))

def insertNat (n : Nat) : List Nat → List Nat
  | [] => [n]
  | x :: xs => if n ≤ x then n :: x :: xs else x :: insertNat n xs
def sortNat (l : List Nat) : List Nat := l.foldr insertNat []

def dedupBy {α} (key : α → List Nat) (l : List α) : List α :=
  l.foldl (fun acc x => if acc.any (fun y => key y == key x) then acc else acc ++ [x]) []

/-- all allowed outcomes of `Discard(slots, force)`: `none` = "cannot make room" -/
def discards (p : Pool) (slots : Int) (force : Bool) : List (Option (List Tx)) :=
  let rs := dedupBy (fun r => sortNat (r.1.map (·.id))) (discardAux (p.remotes.length + 1) p.remotes slots [])
  rs.map (fun r => if r.2 > 0 ∧ !force then none else some r.1)

/-- the part of `add` after room has been made -/
def addTail (p : Pool) (t : Tx) (isLocal loc : Bool) : Pool × Except Err Bool :=
  let a := t.sender
  let inPending := match amGet p.pending a with
    | some pl => (pl.get? t.nonce).isSome
    | none => false
  if inPending then
    let pl := (amGet p.pending a).getD (TxList.new true)
    let r := pl.add t p.cfg.priceBump
    if !r.2.1 then (p, .error .replaceUnderpriced)
    else
      let p1 := { p with pending := amSet p.pending a r.1 }
      let p2 := match r.2.2 with
        | some o => p1.allRemove o
        | none => p1
      (p2.allAdd t isLocal, .ok r.2.2.isSome)
  else
    let r := p.enqueueTx t isLocal true
    if !r.2.1 then (r.1, .error .replaceUnderpriced)
    else
      let p1 := r.1
      let p2 := if loc ∧ !p1.isLocalAcc a then
          let ls := a :: p1.locals
          { p1 with locals := ls, all := p1.all.map (fun e => if ls.contains e.1.sender then (e.1, true) else e) }
        else p1
      (p2, .ok r.2.2)

/-- the part of `TxPool.add` after validation and the replacement-eligibility test: if the pool is
full make room (`Underpriced`, the churn guard, `Discard` + `removeTx`), then insert -/
def addRoom (p : Pool) (t : Tx) (isLocal loc : Bool) : List (Pool × Except Err Bool) :=
  let limit := p.cfg.globalSlots + p.cfg.globalQueue
  if p.allSlots + t.slots > limit then
    if !isLocal ∧ p.underpriced t then [(p, .error .underpriced)]
    else if p.changes > p.cfg.globalSlots / 4 then [(p, .error .poolOverflow)]
    else
      (p.discards ((p.allSlots : Int) - limit + t.slots) isLocal).map (fun d =>
        match d with
        | none => (p, .error .poolOverflow)
        | some drop =>
          let p1 := { p with changes := p.changes + drop.length }
          let p2 := drop.foldl removeTx p1
          p2.addTail t isLocal loc)
  else [p.addTail t isLocal loc]

/-- the early test of `TxPool.add` (repair of finding F12): the transaction is a same-nonce
replacement that does not meet the price bump.  As in the code: if the sender's pending list
holds the nonce (`Overlaps`) only that list is asked, otherwise the sender's queued list. -/
def rejectEarly (p : Pool) (t : Tx) : Bool :=
  let a := t.sender
  let pendOverlap := match amGet p.pending a with
    | some pl => (pl.get? t.nonce).isSome
    | none => false
  if pendOverlap then !(((amGet p.pending a).getD (TxList.new true)).replaceable t p.cfg.priceBump)
  else match amGet p.queue a with
    | some ql => !(ql.replaceable t p.cfg.priceBump)
    | none => false

/-- `TxPool.add`: every allowed (pool, result); result `ok replaced` or an error.  Order of the
rejections as in the code: already known, `validateTx`, under-priced replacement
(`ErrReplaceUnderpriced`, before anything is discarded — so it wins over `ErrUnderpriced` when the
pool is full), then the pool-full branch (`ErrUnderpriced`, `ErrTxPoolOverflow`). -/
def add (p : Pool) (t : Tx) (loc : Bool) : List (Pool × Except Err Bool) :=
  if p.known t then [(p, .error .alreadyKnown)]
  else
    let isLocal := loc || p.isLocalAcc t.sender
    match p.validate t isLocal with
    | some e => [(p, .error e)]
    | none =>
      if p.rejectEarly t then [(p, .error .replaceUnderpriced)]
      else p.addRoom t isLocal loc

/-- `promoteTx` -/
def promoteTx (p : Pool) (a : Nat) (t : Tx) : Pool :=
  let pl := (amGet p.pending a).getD (TxList.new true)
  let r := pl.add t p.cfg.priceBump
  if !r.2.1 then ({ p with pending := amSet p.pending a pl }).allRemove t
  else
    let p1 := { p with pending := amSet p.pending a r.1 }
    let p2 := match r.2.2 with
      | some o => p1.allRemove o
      | none => p1
    { p2 with pnonce := amSet p2.pnonce a (t.nonce + 1) }

/-- one account of `promoteExecutables` -/
def promoteAccount (p : Pool) (a : Nat) : Pool :=
  match amGet p.queue a with
  | none => p
  | some list =>
    let f := list.forward (p.stateNonce a)
    let p1 := p.allRemoveL f.2
    let d := f.1.filter (p.balance a) p.chain.gasLimit
    let p2 := p1.allRemoveL d.2.1
    let rd := d.1.ready (p2.pnGet a)
    let p3 := rd.2.foldl (fun q t => q.promoteTx a t) p2
    let c := if !p3.isLocalAcc a then rd.1.cap p3.cfg.accountQueue else (rd.1, [])
    let p4 := p3.allRemoveL c.2
    if c.1.isEmpty then { p4 with queue := amErase p4.queue a }
    else { p4 with queue := amSet p4.queue a c.1 }

def promoteExecutables (p : Pool) (accts : List Nat) : Pool := accts.foldl promoteAccount p

/-- the loop `for list.txs.Get(nonce+executable) != nil { executable++ }` of
`demoteUnexecutables`: how many consecutive nonces starting at `n` the list holds (the loop
cannot run more than `len` times on a nonce-indexed map, hence the fuel) -/
def countRun : Nat → TxList → Nat → Nat
  | 0, _, _ => 0
  | fuel + 1, l, n => if (l.get? n).isSome then 1 + countRun fuel l (n + 1) else 0

/-- one account of `demoteUnexecutables` (with the repair of finding C17-R1: everything above the
first nonce gap is postponed, not only a list whose first nonce is missing) -/
def demoteAccount (p : Pool) (a : Nat) : Pool :=
  match amGet p.pending a with
  | none => p
  | some list =>
    let nonce := p.stateNonce a
    let f := list.forward nonce
    let p1 := p.allRemoveL f.2
    let d := f.1.filter (p.balance a) p.chain.gasLimit
    let p2 := p1.allRemoveL d.2.1
    let p3 := d.2.2.foldl (fun q t => (q.enqueueTx t false false).1) p2
    let executable := countRun d.1.len d.1 nonce
    let g := if d.1.len > executable then d.1.cap executable else (d.1, [])
    let p4 := g.2.foldl (fun q t => (q.enqueueTx t false false).1) p3
    if g.1.isEmpty then { p4 with pending := amErase p4.pending a }
    else { p4 with pending := amSet p4.pending a g.1 }

def demoteUnexecutables (p : Pool) : Pool := (p.pending.map (·.1)).foldl demoteAccount p

def pendingCount (p : Pool) : Nat := (p.pending.map (fun e => e.2.len)).sum
def queuedCount (p : Pool) : Nat := (p.queue.map (fun e => e.2.len)).sum
def plen (p : Pool) (a : Nat) : Nat := ((amGet p.pending a).map TxList.len).getD 0

/-- `list.Cap(list.Len()-1)` on the pending list of `a` with the bookkeeping of truncatePending -/
def dropLastPending (p : Pool) (a : Nat) : Pool :=
  match amGet p.pending a with
  | none => p
  | some list =>
    let c := list.cap (list.len - 1)
    let p1 := { p with pending := amSet p.pending a c.1 }
    c.2.foldl (fun q t => (q.allRemove t).pnSetIfLower a t.nonce) p1

/-- inner equalisation loop of truncatePending: (pool, pending count) -/
def equalise : Nat → Pool → Nat → List Nat → Nat → Pool × Nat
  | 0, p, cnt, _, _ => (p, cnt)
  | fuel + 1, p, cnt, prev, threshold =>
    if cnt > p.cfg.globalSlots ∧ p.plen (prev.getLastD 0) > threshold then
      let r := prev.foldl (fun (q : Pool × Nat) a => (q.1.dropLastPending a, q.2 - 1)) (p, cnt)
      equalise fuel r.1 r.2 prev threshold
    else (p, cnt)

/-- outer loop over the offenders, largest first -/
def spamLoop : List Nat → Pool → Nat → List Nat → Pool × Nat × List Nat
  | [], p, cnt, offenders => (p, cnt, offenders)
  | next :: rest, p, cnt, offenders =>
    if cnt > p.cfg.globalSlots then
      let offenders' := offenders ++ [next]
      if offenders'.length > 1 then
        let r := equalise (cnt + 1) p cnt offenders (p.plen next)
        spamLoop rest r.1 r.2 offenders'
      else spamLoop rest p cnt offenders'
    else (p, cnt, offenders)

def finalLoop : Nat → Pool → Nat → List Nat → Pool
  | 0, p, _, _ => p
  | fuel + 1, p, cnt, offenders =>
    if cnt > p.cfg.globalSlots ∧ p.plen (offenders.getLastD 0) > p.cfg.accountSlots then
      let r := offenders.foldl (fun (q : Pool × Nat) a => (q.1.dropLastPending a, q.2 - 1)) (p, cnt)
      finalLoop fuel r.1 r.2 offenders
    else p

/-- insertion sort of accounts by pending length, longest first (ties: lower index first; the
result does not depend on the tie order) -/
def insertByLen (p : Pool) (a : Nat) : List Nat → List Nat
  | [] => [a]
  | x :: xs => if p.plen a > p.plen x then a :: x :: xs else x :: insertByLen p a xs

/-- `truncatePending` -/
def truncatePending (p : Pool) : Pool :=
  let cnt := p.pendingCount
  if cnt ≤ p.cfg.globalSlots then p
  else
    let spammers := (p.pending.filter (fun e => !p.isLocalAcc e.1 && decide (e.2.len > p.cfg.accountSlots))).map (·.1)
    let order := spammers.reverse.foldl (fun acc a => insertByLen p a acc) []
    let r := spamLoop order p cnt []
    if r.2.1 > p.cfg.globalSlots ∧ !r.2.2.isEmpty then finalLoop (cnt + 1) r.1 r.2.1 r.2.2 else r.1

def perms {α} : List α → List (List α)
  | [] => [[]]
  | x :: xs => (perms xs).flatMap (fun l => (List.range (l.length + 1)).map (fun i => l.take i ++ [x] ++ l.drop i))

/-- the drop loop of `truncateQueue` for one visiting order (most recent heartbeat first) -/
def truncQueueLoop : List Nat → Pool → Nat → Pool
  | [], p, _ => p
  | a :: rest, p, drop =>
    if drop = 0 then p
    else
      match amGet p.queue a with
      | none => truncQueueLoop rest p drop
      | some list =>
        if list.len ≤ drop then
          truncQueueLoop rest (list.txs.foldl removeTx p) (drop - list.len)
        else
          (list.txs.reverse.take drop).foldl removeTx p

/-- `truncateQueue`: every allowed successor (heartbeat order is not part of the model) -/
def truncateQueue (p : Pool) : List Pool :=
  let queued := p.queuedCount
  if queued ≤ p.cfg.globalQueue then [p]
  else
    let addrs := (p.queue.map (·.1)).filter (fun a => !p.isLocalAcc a)
    (perms addrs).map (fun order => truncQueueLoop order p (queued - p.cfg.globalQueue))

/-- `reset(nil, newHead)` without re-injection: new state view, fresh virtual nonces -/
def resetHead (p : Pool) (c : Chain) : Pool := { p with chain := c, pnonce := [] }

/-- `runReorg` -/
def runReorg (p : Pool) (reset : Option Chain) (dirty : List Nat) : List Pool :=
  let p1 := match reset with
    | some c => p.resetHead c
    | none => p
  let addrs := match reset with
    | some _ => p1.queue.map (·.1)
    | none => dirty
  let p2 := p1.promoteExecutables addrs
  let p3 := match reset with
    | some _ =>
      let q : Pool := p2.demoteUnexecutables
      { q with pnonce := q.pending.map (fun (e : Nat × TxList) =>
          (e.1, ((e.2.txs.getLast?).map (fun (t : Tx) => t.nonce + 1)).getD 0)) }
    | none => p2
  let p4 := p3.truncatePending
  p4.truncateQueue.map (fun (q : Pool) => { q with changes := 0 })

/-- `addTxsLocked` over all choices: (pool, results in order, dirty accounts) -/
def addBatch (p : Pool) (loc : Bool) : List Tx → List (Pool × List (Except Err Bool) × List Nat)
  | [] => [(p, [], [])]
  | t :: ts =>
    (p.add t loc).flatMap (fun r =>
      (addBatch r.1 loc ts).map (fun s =>
        let dirty := match r.2 with
          | .ok false => if s.2.2.contains t.sender then s.2.2 else t.sender :: s.2.2
          | _ => s.2.2
        (s.1, r.2 :: s.2.1, dirty)))

/-- `addTxs(txs, local, sync=true)`: the pre-filter (known hash, unrecoverable sender), the
locked batch, one reorg run.  Result per transaction: `none` = accepted. -/
def addTxs (p : Pool) (txs : List Tx) (loc : Bool) : List (Pool × List (Option Err)) :=
  let pre : List (Tx × Option Err) := txs.map (fun t =>
    if p.known t then (t, some Err.alreadyKnown)
    else if !t.sigOk then (t, some Err.invalidSender) else (t, none))
  let news := (pre.filter (fun e => e.2.isNone)).map (·.1)
  if news.isEmpty then [(p, pre.map (·.2))]
  else
    (p.addBatch loc news).flatMap (fun r =>
      let errs : List (Option Err) := r.2.1.map (fun e => match e with | .ok _ => none | .error e => some e)
      -- merge into the original positions
      let merged := (pre.foldl (fun (acc : List (Option Err) × List (Option Err)) e =>
          match e.2 with
          | some er => (acc.1 ++ [some er], acc.2)
          | none => (acc.1 ++ [acc.2.headD none], acc.2.tail)) ([], errs)).1
      (r.1.runReorg none r.2.2).map (fun q => (q, merged)))

/-- `SetGasPrice` -/
def setGasPrice (p : Pool) (price : Nat) : Pool :=
  let old := p.gasPrice
  let p1 := { p with gasPrice := price }
  if price > old then
    (p1.remotes.filter (fun t => decide (t.price < price))).foldl removeTx p1
  else p1

/-- the eviction tick of `loop` for an account whose heartbeat is older than `Lifetime` -/
def expire (p : Pool) (a : Nat) : Pool :=
  if p.isLocalAcc a then p
  else match amGet p.queue a with
    | none => p
    | some list => list.txs.foldl removeTx p

/-- head reset followed by the reorg run (`requestReset(nil, nil)`) -/
def reset (p : Pool) (c : Chain) : List Pool := p.runReorg (some c) []

/-- the reset branch of `runReorg` once the new head is installed: promotion for every queued
account, demotion, virtual nonces from the pending lists, truncation -/
def reorgAfterReset (p1 : Pool) : List Pool :=
  let p2 := p1.promoteExecutables (p1.queue.map (·.1))
  let q : Pool := p2.demoteUnexecutables
  let p3 : Pool := { q with pnonce := q.pending.map (fun (e : Nat × TxList) =>
      (e.1, ((e.2.txs.getLast?).map (fun (t : Tx) => t.nonce + 1)).getD 0)) }
  p3.truncatePending.truncateQueue.map (fun (q : Pool) => { q with changes := 0 })

/-- `reset(oldHead, newHead)` on a chain reorganisation: the new state view is installed, the
transactions of the dropped branch that the new branch does not contain (`reinject`, in block
order) go through `addTxsLocked(reinject, false)`, then the reset reorg run.  With
`reinject = []` this is `reset`. -/
def resetReinject (p : Pool) (c : Chain) (reinject : List Tx) : List Pool :=
  ((p.resetHead c).addBatch false reinject).flatMap (fun r => reorgAfterReset r.1)

end Pool

end KV.TxPool
