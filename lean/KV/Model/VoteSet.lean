import KV.Base.I64
/-! Executable model of `types/vote_set.go` (VoteSet, blockVotes), `VoteSet.MakeCommit`,
`Commit.ValidateBasic` and `ValidatorSet.VerifyCommit` (property C02). Core only.

Abstractions (everything else follows the Go code branch by branch):
* hashes, addresses, signatures and timestamps are natural-number identifiers; `0` is the zero
  hash / empty address / empty signature / zero time;
* signature verification is a parameter `sv : SigCheck` ("`VerifySignature(addr,
  Keccak(VoteSignBytes(chainID, msg)), sig)`" for the chain id of the set): the signed message is
  exactly what `CreateCanonicalVote` signs: type, height, round, block id, timestamp;
* `BlockID.Key()` is `hex(Hash) ++ hex(PartsHeader.Hash) ++ ":" ++ Total`; both hashes have a
  fixed width, so the key is modelled as the triple `(hash, parts hash, total)`;
* Go `int64` arithmetic goes through `KV.I64` (wrapping), the threshold expressions are written
  exactly as in the source. -/
namespace KV.VoteSet
open KV

/-! ## block ids -/

structure BlockId where
  hash : Nat
  total : Nat
  phash : Nat
deriving DecidableEq, Repr, Inhabited

abbrev Key := Nat × Nat × Nat

namespace BlockId
def zero : BlockId := ⟨0, 0, 0⟩
/-- `PartSetHeader.IsZero` -/
def partsZero (b : BlockId) : Bool := b.total == 0 && b.phash == 0
/-- `BlockID.IsZero` -/
def isZero (b : BlockId) : Bool := b.hash == 0 && b.partsZero
/-- `BlockID.IsComplete` -/
def isComplete (b : BlockId) : Bool := b.hash != 0 && !b.partsZero
/-- `BlockID.Key` (fixed tree: includes the part-set total) -/
def key (b : BlockId) : Key := (b.hash, b.phash, b.total)
/-- `BlockID.Equal` = hash equal and `PartSetHeader.Equals` (total, then hash) -/
def equal (a b : BlockId) : Bool := a.hash == b.hash && (a.total == b.total && a.phash == b.phash)
end BlockId

/-! ## votes, validators -/

def prevoteType : Nat := 1
def precommitType : Nat := 2

/-- what `CreateCanonicalVote` puts under the signature (the chain id is fixed per set) -/
structure Msg where
  type : Nat
  height : Nat
  round : Nat
  bid : BlockId
  ts : Nat
deriving DecidableEq, Repr

/-- `sv addr msg sig` = the signature `sig` verifies for the key of `addr` over `msg` -/
abbrev SigCheck := Nat → Msg → Nat → Bool

structure Vote where
  idx : Nat
  addr : Nat
  height : Nat
  round : Nat
  type : Nat
  bid : BlockId
  ts : Nat
  sig : Nat
deriving DecidableEq, Repr

def Vote.msg (v : Vote) : Msg := ⟨v.type, v.height, v.round, v.bid, v.ts⟩

structure Val where
  addr : Nat
  power : Int
deriving DecidableEq, Repr

abbrev Vals := List Val

/-- `ValidatorSet.TotalVotingPower` (the Go code panics above `MaxTotalVotingPower`; the theorems
carry that bound as a hypothesis) -/
def totalPower (vals : Vals) : Int := (vals.map (·.power)).sum

def maxTotalVotingPower : Int := 9223372036854775807 / 8

/-- `total*2/3` in int64 arithmetic, as written in `addVerifiedVote`, `HasTwoThirdsAny`,
`VerifyCommit` -/
def twoThirds (total : Int) : Int := I64.div (I64.mul total 2) 3
/-- `quorum := total*2/3 + 1` -/
def quorum (total : Int) : Int := I64.add (twoThirds total) 1

/-! ## the vote set -/

abbrev Slots := List (Option Vote)

def slot (l : Slots) (i : Nat) : Option Vote := l.getD i none

structure BlockVotes where
  peerMaj23 : Bool
  votes : Slots
  sum : Int
deriving Repr

def newBlockVotes (peer : Bool) (n : Nat) : BlockVotes := ⟨peer, List.replicate n none, 0⟩

/-- `blockVotes.addVerifiedVote` -/
def BlockVotes.add (bv : BlockVotes) (v : Vote) (pw : Int) : BlockVotes :=
  match slot bv.votes v.idx with
  | none => { bv with votes := bv.votes.set v.idx (some v), sum := I64.add bv.sum pw }
  | some _ => bv

def BlockVotes.bits (bv : BlockVotes) : List Bool := bv.votes.map Option.isSome

def lookup (k : Key) : List (Key × BlockVotes) → Option BlockVotes
  | [] => none
  | (k', bv) :: rest => if k' = k then some bv else lookup k rest

/-- `m[k] = bv` on an association list: replace the first binding or append -/
def insert (k : Key) (bv : BlockVotes) : List (Key × BlockVotes) → List (Key × BlockVotes)
  | [] => [(k, bv)]
  | (k', bv') :: rest => if k' = k then (k, bv) :: rest else (k', bv') :: insert k bv rest

structure VoteSet where
  height : Nat
  round : Nat
  type : Nat
  vals : Vals
  bits : List Bool
  votes : Slots
  sum : Int
  maj23 : Option BlockId
  byBlock : List (Key × BlockVotes)
  peerMaj : List (Nat × BlockId)
deriving Repr

/-- `NewVoteSet` -/
def new (height round type : Nat) (vals : Vals) : VoteSet :=
  { height, round, type, vals,
    bits := List.replicate vals.length false,
    votes := List.replicate vals.length none,
    sum := 0, maj23 := none, byBlock := [], peerMaj := [] }

inductive AddErr
  | nilVote | index | address | step | nondet | badsig | conflict | panic
deriving DecidableEq, Repr

structure AddRes where
  added : Bool
  err : Option AddErr
deriving DecidableEq, Repr

/-- the copy loop `for i, vote := range votesByBlock.votes { if vote != nil { votes[i] = vote } }` -/
def copyOver : Slots → Slots → Slots
  | a :: as, b :: bs => (if b.isSome then b else a) :: copyOver as bs
  | as, _ => as

/-- `voteSet.maj23 != nil && voteSet.maj23.Key() == blockKey` -/
def maj23Is (s : VoteSet) (k : Key) : Bool :=
  match s.maj23 with
  | some m => m.key == k
  | none => false

/-- last part of `addVerifiedVote`: add to the block's votes, detect the quorum crossing -/
def addToBlock (s : VoteSet) (v : Vote) (k : Key) (pw : Int) (bv : BlockVotes) : VoteSet :=
  let origSum := bv.sum
  let q := quorum (totalPower s.vals)
  let bv' := bv.add v pw
  let s2 := { s with byBlock := insert k bv' s.byBlock }
  if origSum < q ∧ q ≤ bv'.sum then
    match s2.maj23 with
    | none => { s2 with maj23 := some v.bid, votes := copyOver s2.votes bv'.votes }
    | some _ => s2
  else s2

/-- middle part of `addVerifiedVote`: is the block tracked / may a conflicting vote be kept -/
def addTracked (s : VoteSet) (v : Vote) (k : Key) (pw : Int) (conflicting : Option Vote) :
    VoteSet × Bool × Option Vote :=
  match lookup k s.byBlock with
  | some bv =>
    if conflicting.isSome ∧ !bv.peerMaj23 then (s, false, conflicting)
    else (addToBlock s v k pw bv, true, conflicting)
  | none =>
    if conflicting.isSome then (s, false, conflicting)
    else (addToBlock s v k pw (newBlockVotes false s.vals.length), true, conflicting)

/-- `VoteSet.addVerifiedVote`; `none` = `PanicSanity("addVerifiedVote does not expect duplicate
votes")` -/
def addVerified (s : VoteSet) (v : Vote) (k : Key) (pw : Int) : Option (VoteSet × Bool × Option Vote) :=
  match slot s.votes v.idx with
  | some ex =>
    if ex.bid.equal v.bid then none
    else
      let s1 := if maj23Is s k then
          { s with votes := s.votes.set v.idx (some v), bits := s.bits.set v.idx true }
        else s
      some (addTracked s1 v k pw (some ex))
  | none =>
    let s1 := { s with votes := s.votes.set v.idx (some v), bits := s.bits.set v.idx true,
                       sum := I64.add s.sum pw }
    some (addTracked s1 v k pw none)

/-- `VoteSet.getVote` -/
def getVote (s : VoteSet) (i : Nat) (k : Key) : Option Vote :=
  match slot s.votes i with
  | some ex => if ex.bid.key = k then some ex else
      match lookup k s.byBlock with
      | some bv => slot bv.votes i
      | none => none
  | none =>
      match lookup k s.byBlock with
      | some bv => slot bv.votes i
      | none => none

/-- `VoteSet.addVote` (a `nil` vote is `none`) -/
def addVote (sv : SigCheck) (s : VoteSet) (ov : Option Vote) : VoteSet × AddRes :=
  match ov with
  | none => (s, ⟨false, some .nilVote⟩)
  | some v =>
    let k := v.bid.key
    -- `valIndex < 0` is impossible for a uint32
    if v.addr = 0 then (s, ⟨false, some .address⟩)
    else if v.height ≠ s.height ∨ v.round ≠ s.round ∨ v.type ≠ s.type then (s, ⟨false, some .step⟩)
    else match s.vals[v.idx]? with
      | none => (s, ⟨false, some .index⟩)
      | some val =>
        if v.addr ≠ val.addr then (s, ⟨false, some .address⟩)
        else match getVote s v.idx k with
          | some ex =>
            if ex.sig = v.sig then (s, ⟨false, none⟩) else (s, ⟨false, some .nondet⟩)
          | none =>
            -- `vote.Verify(chainID, val.Address)`
            if v.addr ≠ val.addr then (s, ⟨false, some .address⟩)
            else if !sv val.addr v.msg v.sig then (s, ⟨false, some .badsig⟩)
            else match addVerified s v k val.power with
              | none => (s, ⟨false, some .panic⟩)
              | some (s', added, conflicting) =>
                if conflicting.isSome then (s', ⟨added, some .conflict⟩)
                else (s', ⟨added, none⟩)

inductive PeerRes | ok | conflict
deriving DecidableEq, Repr

def peerLookup (p : Nat) : List (Nat × BlockId) → Option BlockId
  | [] => none
  | (p', b) :: rest => if p' = p then some b else peerLookup p rest

/-- `VoteSet.SetPeerMaj23` -/
def setPeerMaj23 (s : VoteSet) (p : Nat) (b : BlockId) : VoteSet × PeerRes :=
  let k := b.key
  match peerLookup p s.peerMaj with
  | some ex => if ex.equal b then (s, .ok) else (s, .conflict)
  | none =>
    let s1 := { s with peerMaj := s.peerMaj ++ [(p, b)] }
    match lookup k s1.byBlock with
    | some bv =>
      if bv.peerMaj23 then (s1, .ok)
      else ({ s1 with byBlock := insert k { bv with peerMaj23 := true } s1.byBlock }, .ok)
    | none =>
      ({ s1 with byBlock := insert k (newBlockVotes true s1.vals.length) s1.byBlock }, .ok)

/-! ## queries -/

def twoThirdsMajority (s : VoteSet) : Option BlockId := s.maj23
def hasTwoThirdsMajority (s : VoteSet) : Bool := s.maj23.isSome
/-- `sum > total*2/3` -/
def hasTwoThirdsAny (s : VoteSet) : Bool := decide (s.sum > twoThirds (totalPower s.vals))
/-- `sum == total` -/
def hasAll (s : VoteSet) : Bool := decide (s.sum = totalPower s.vals)
def bitArray (s : VoteSet) : List Bool := s.bits
def bitArrayByBlockID (s : VoteSet) (b : BlockId) : Option (List Bool) :=
  (lookup b.key s.byBlock).map BlockVotes.bits
def getByIndex (s : VoteSet) (i : Nat) : Option Vote := slot s.votes i

/-! ## commits -/

def flagAbsent : Nat := 1
def flagCommit : Nat := 2
def flagNil : Nat := 3

structure CommitSig where
  flag : Nat
  addr : Nat
  ts : Nat
  sig : Nat
deriving DecidableEq, Repr

def CommitSig.absent : CommitSig := ⟨flagAbsent, 0, 0, 0⟩

structure Commit where
  bid : BlockId
  sigs : List CommitSig
  height : Nat
  round : Nat
deriving DecidableEq, Repr

/-- `Vote.CommitSig` followed by MakeCommit's "exclude sig for another block";
`none` = the panic on a block id that is neither zero nor complete -/
def commitSigOf (m : BlockId) : Option Vote → Option CommitSig
  | none => some .absent
  | some v =>
    if v.bid.isComplete then
      (if !v.bid.equal m then some .absent else some ⟨flagCommit, v.addr, v.ts, v.sig⟩)
    else if v.bid.isZero then some ⟨flagNil, v.addr, v.ts, v.sig⟩
    else none

/-- the loop of `MakeCommit` over `voteSet.votes` -/
def commitSigs (m : BlockId) : Slots → Option (List CommitSig)
  | [] => some []
  | s :: rest =>
    match commitSigOf m s, commitSigs m rest with
    | some c, some cs => some (c :: cs)
    | _, _ => none

/-- `VoteSet.MakeCommit`; `none` = one of its panics (wrong type, no majority, malformed id) -/
def makeCommit (s : VoteSet) : Option Commit :=
  if s.type ≠ precommitType then none
  else match s.maj23 with
    | none => none
    | some m =>
      match commitSigs m s.votes with
      | none => none
      | some sigs => some ⟨m, sigs, s.height, s.round⟩

inductive VErr
  | nilCommit | nilBlock | noSigs | badFlag (i : Nat) | absentData (i : Nat) | sigMissing (i : Nat)
  | size | height | blockId | wrongSig (i : Nat) | power (got needed : Int) | panic
deriving DecidableEq, Repr

/-- `CommitSig.ValidateBasic` -/
def CommitSig.validateBasic (i : Nat) (cs : CommitSig) : Option VErr :=
  if cs.flag ≠ flagAbsent ∧ cs.flag ≠ flagCommit ∧ cs.flag ≠ flagNil then some (.badFlag i)
  else if cs.flag = flagAbsent then
    (if cs.addr ≠ 0 ∨ cs.ts ≠ 0 ∨ cs.sig ≠ 0 then some (.absentData i) else none)
  else (if cs.sig = 0 then some (.sigMissing i) else none)

def validateSigs : Nat → List CommitSig → Option VErr
  | _, [] => none
  | i, cs :: rest =>
    match cs.validateBasic i with
    | some e => some e
    | none => validateSigs (i + 1) rest

/-- `Commit.ValidateBasic` -/
def Commit.validateBasic (c : Commit) : Option VErr :=
  if c.height ≥ 1 then
    if c.bid.isZero then some .nilBlock
    else if c.sigs.isEmpty then some .noSigs
    else validateSigs 0 c.sigs
  else none

/-- `CommitSig.BlockID(commitBlockID)`; `none` = panic on an unknown flag -/
def CommitSig.blockId (cs : CommitSig) (commitBid : BlockId) : Option BlockId :=
  if cs.flag = flagAbsent then some .zero
  else if cs.flag = flagCommit then some commitBid
  else if cs.flag = flagNil then some .zero
  else none

/-- the loop of `VerifyCommit` over `(validator, signature)` pairs from index `i` on -/
def verifyLoop (sv : SigCheck) (b : BlockId) (c : Commit) :
    Nat → List Val → List CommitSig → Int → Except VErr Int
  | _, _, [], acc => .ok acc
  | _, [], _ :: _, _ => .error .panic  -- index out of range (excluded by the size check)
  | i, val :: vals, cs :: rest, acc =>
    if cs.flag = flagAbsent then verifyLoop sv b c (i + 1) vals rest acc
    else
      -- `commit.VoteSignBytes(chainID, idx)` = sign bytes of `commit.GetVote(idx)`
      match cs.blockId c.bid with
      | none => .error .panic
      | some vb =>
        if !sv val.addr ⟨precommitType, c.height, c.round, vb, cs.ts⟩ cs.sig then .error (.wrongSig i)
        else if b.equal vb then verifyLoop sv b c (i + 1) vals rest (I64.add acc val.power)
        else verifyLoop sv b c (i + 1) vals rest acc

/-- `ValidatorSet.VerifyCommit(chainID, blockID, height, commit)`; `none` result = nil error -/
def verifyCommit (sv : SigCheck) (vals : Vals) (b : BlockId) (h : Nat) (oc : Option Commit) :
    Option VErr :=
  match oc with
  | none => some .nilCommit
  | some c =>
    match c.validateBasic with
    | some e => some e
    | none =>
      if vals.length ≠ c.sigs.length then some .size
      else if h ≠ c.height then some .height
      else if !b.equal c.bid then some .blockId
      else
        let needed := twoThirds (totalPower vals)
        match verifyLoop sv b c 0 vals c.sigs 0 with
        | .error e => some e
        | .ok got => if got ≤ needed then some (.power got needed) else none

/-! ## op sequences -/

inductive Op
  | vote (v : Option Vote)
  | peer (p : Nat) (b : BlockId)
deriving Repr

def apply (sv : SigCheck) (s : VoteSet) : Op → VoteSet
  | .vote v => (addVote sv s v).1
  | .peer p b => (setPeerMaj23 s p b).1

def run (sv : SigCheck) (s : VoteSet) (ops : List Op) : VoteSet := ops.foldl (apply sv) s

end KV.VoteSet
