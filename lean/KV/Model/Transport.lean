/-! # `MultiplexTransport.upgrade` (lib/p2p/transport.go): whom a connection is accepted as

After the `SecretConnection` handshake (modelled in `KV.Model.SecretConn`; that the remote key it
reports is one whose private key the remote side holds is the handshake's contract, exercised by the
attacker family B4 of the C20 harness) the transport decides, from four identities, whether the
connection becomes a `Peer` and under which ID:

* `dialed`   - the ID in the address that was dialled (`none` for an inbound connection),
* `connKey`  - the ID of the key that authenticated the encrypted connection (`RemotePubKey`),
* `claimed`  - the ID the remote side reports in its `NodeInfo`,
* `selfId`   - the ID in our own `NodeInfo`.

IDs are abstract naturals (indices of keys). -/
namespace KV.Transport

inductive Result
  | ok (id : Nat)   -- a Peer with this ID
  | auth            -- ErrRejected, IsAuthFailure
  | self            -- ErrRejected, IsSelf
  | incompat        -- ErrRejected, IsIncompatible
deriving DecidableEq, Repr

/-- `upgrade`, in the order of the source: dialled-ID check (outbound only), `NodeInfo` exchange
(`peerAborted`: the other side closed before sending its `NodeInfo`), connection key against the
self-reported ID, self connection, compatibility. -/
def upgrade (dialed : Option Nat) (connKey claimed selfId : Nat) (peerAborted compatible : Bool) : Result :=
  if dialed.isSome ∧ dialed ≠ some connKey then .auth
  else if peerAborted then .auth
  else if connKey ≠ claimed then .auth
  else if selfId = claimed then .self
  else if !compatible then .incompat
  else .ok claimed

end KV.Transport
