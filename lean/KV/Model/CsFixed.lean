import KV.Model.Cs
/-!
# `CsFixed` — the node model `Cs` with the candidate repair of the stale lock

`consensus/state.go` releases a lock only in `addVote`, while handling a prevote that is ADDED,
for a polka of a round in `(LockedRound, Round]` ("If vote.Round > cs.Round, we'll deal with it
when we get to vote.Round").  A node that round-skips past the prevote step of a round whose polka
it already holds never "gets to" that round: the lock stays for ever
(`KV/Props/C04Net.lean`, `stale_lock_livelock_counterexample`).

Candidate repair, in `enterNewRound`, after `cs.updateRoundStep(round, RoundStepNewRound)` /
`cs.Votes.SetRound(round+1)` and before `enterPropose`:

```go
if cs.LockedBlock != nil {
    for r := cs.LockedRound + 1; r <= cs.Round; r++ {
        if pv := cs.Votes.Prevotes(r); pv != nil {
            if blockID, ok := pv.TwoThirdsMajority(); ok && !cs.LockedBlock.HashesTo(blockID.Hash) {
                cs.LockedRound = 0; cs.LockedBlock = nil; cs.LockedBlockParts = nil   // as "Unlocking because of POL"
                break
            }
        }
    }
}
```

`releaseStale` is that loop; `enterNewRoundFixed` is `enterNewRound` with it; `prevoteSwitchFixed`,
`afterPrevoteFixed`, `afterPrecommitFixed`, `addVoteFixed`, `handleTimeoutFixed`, `stepFixed`,
`runFixed` are the callers, unchanged except that they call the fixed function.  To apply the
repair to `KV/Model/Cs.lean`: add `stalePolka`, `releaseStale`, replace the body of `enterNewRound`
by the body of `enterNewRoundFixed`, nothing else.  Core Lean only.
-/
namespace KV.Cs

/-- some round in `(lockedRound, round]` of the current height has +2/3 prevotes for a value other
than block `b` (nil included) in the node's own vote sets -/
def stalePolka (cfg : Config) (σ : State) (b : Nat) : Bool :=
  (List.range (σ.round + 1)).any (fun r' =>
    decide (σ.lockedRound < r') &&
      (match maj23 cfg.powers (σ.slots .prevote σ.height r') with
       | some x => x != some b
       | none => false))

/-- the repair: release a lock that a polka of a later round (up to the current one) overrides -/
def releaseStale (cfg : Config) (σ : State) : State :=
  match σ.locked with
  | some lb => if stalePolka cfg σ lb.id then unlock σ else σ
  | none => σ

/-- `cs.enterNewRound` with the repair -/
def enterNewRoundFixed (cfg : Config) (nb : Option Nat) (h r : Nat) (σ : State) : State :=
  if σ.height ≠ h ∨ r < σ.round ∨ (σ.round = r ∧ σ.step ≠ .newHeight) then σ
  else
    let σ3 := releaseStale cfg (newRoundPrep cfg r σ)
    if cfg.waitTxs && r == 1 then
      if cfg.emptyInterval then schedule h r .newRound σ3 else σ3
    else enterPropose cfg nb h r σ3

/-- `prevoteSwitch` calling the fixed `enterNewRound` -/
def prevoteSwitchFixed (cfg : Config) (nb : Option Nat) (h vr : Nat) (m : Option Target) (any : Bool)
    (σ : State) : State :=
  if σ.round < vr && any then enterNewRoundFixed cfg nb h vr σ
  else if σ.round == vr && Step.prevote.toNat ≤ σ.step.toNat then
    match m with
    | some bid =>
      if isProposalComplete cfg σ || bid == none then enterPrecommit cfg h vr σ
      else if any then enterPrevoteWait h vr σ
      else σ
    | none => if any then enterPrevoteWait h vr σ else σ
  else
    match σ.proposal with
    | some p =>
      if 1 ≤ p.pol && p.pol == vr then
        if isProposalComplete cfg σ then enterPrevote cfg h σ.round σ else σ
      else σ
    | none => σ

def afterPrevoteFixed (cfg : Config) (nb : Option Nat) (vr : Nat) (σ : State) : State :=
  let pv := σ.slots .prevote σ.height vr
  let m := maj23 cfg.powers pv
  prevoteSwitchFixed cfg nb σ.height vr m (hasAny cfg.powers pv) (polkaUpdate vr m σ)

def afterPrecommitFixed (cfg : Config) (nb : Option Nat) (vr : Nat) (σ : State) : State :=
  let h := σ.height
  let pc := σ.slots .precommit h vr
  match maj23 cfg.powers pc with
  | some bid =>
    let σ1 := enterNewRoundFixed cfg nb h vr σ
    let σ2 := enterPrecommit cfg h vr σ1
    match bid with
    | some _ => enterCommit cfg h vr σ2
    | none => enterPrecommitWait h vr σ2
  | none =>
    if σ.round ≤ vr && hasAny cfg.powers pc then
      enterPrecommitWait h vr (enterNewRoundFixed cfg nb h vr σ)
    else σ

def addVoteFixed (cfg : Config) (nb : Option Nat) (peer idx : Nat) (t : VType) (h r : Nat) (tgt : Target)
    (sigok : Bool) (σ : State) : State :=
  if h + 1 == σ.height && t == .precommit then σ
  else if h ≠ σ.height then σ
  else
    match ensureRound cfg peer r σ with
    | none => σ
    | some σ1 =>
      if !sigok || !(decide (idx < n cfg)) then σ1
      else
        match (σ1.slots t h r)[idx]? with
        | some none =>
          let σ2 := { σ1 with votes := σ1.votes.map (setSlot t idx tgt h r), added := true }
          match t with
          | .prevote => afterPrevoteFixed cfg nb r σ2
          | .precommit => afterPrecommitFixed cfg nb r σ2
        | _ => σ1

def handleTimeoutFixed (cfg : Config) (nb : Option Nat) (h r : Nat) (s : Step) (σ : State) : State :=
  if h ≠ σ.height ∨ r < σ.round ∨ (r = σ.round ∧ s.toNat < σ.step.toNat) then σ
  else
    match s with
    | .newHeight => enterNewRoundFixed cfg nb h 1 σ
    | .newRound => enterPropose cfg nb h 1 σ
    | .propose => enterPrevote cfg h r σ
    | .prevoteWait => enterPrecommit cfg h r σ
    | .precommitWait => enterNewRoundFixed cfg nb h (r + 1) (enterPrecommit cfg h r σ)
    | _ => panic σ

/-- `Cs.step` with the repair -/
def stepFixed (cfg : Config) (σ : State) (nb : Option Nat) (i : Input) : State :=
  if σ.halted then σ
  else
    let σ := { σ with added := false }
    match i with
    | .proposal src sigok h r pol id => setProposal cfg src sigok h r pol id σ
    | .block h id ok dec => addBlock cfg h id ok dec σ
    | .vote peer idx t h r tgt sigok => addVoteFixed cfg nb peer idx t h r tgt sigok σ
    | .timeout h r s => handleTimeoutFixed cfg nb h r s σ

def runFixed (cfg : Config) (σ : State) : List (Option Nat × Input) → State
  | [] => σ
  | (nb, i) :: rest => runFixed cfg (stepFixed cfg σ nb i) rest

end KV.Cs
