import KV.Base.Wire
import KV.Model.Rlp
/-!
# What is signed (model of `/repo/types` canonical sign bytes and transaction signing hash)

* `voteSignBytes` / `proposalSignBytes`: the exact bytes returned by `types.VoteSignBytes` /
  `types.ProposalSignBytes`, i.e. `protoio.MarshalDelimited` (uvarint length prefix) of the
  gogo-proto generated `CanonicalVote` / `CanonicalProposal` marshalers
  (`proto/kardiachain/types/canonical.pb.go`), fed by `CreateCanonicalVote` /
  `CreateCanonicalProposal` / `CanonicalizeBlockID` (`types/canonical_types.go`).
  All scalar fields are **varints** (the "sfixed64" comments in the Go source are stale), written
  only when non-zero; `chain_id` only when non-empty; the block id only when it is not the zero
  block id (after `common.BytesToHash` normalisation); the timestamp sub-message always.
  `none` = `MarshalDelimited` fails (timestamp outside year 1..9999) and the Go function panics.
* `txSigPreimage`: the RLP list hashed by `HomesteadSigner.Hash` (6 fields) and
  `ChainIDSigner.Hash` (9 fields: `…, chainId, 0, 0`), `types/transaction_signing.go`.
* `deriveChainId`, `isProtectedV`, `signatureValues`, `senderCheck` (the `V` arithmetic and the
  checks of `Signer.Sender` / `recoverPlain` up to the call of `Ecrecover`),
  `validateSignatureValues` (`lib/crypto/crypto.go`).

Field ranges of the Go types (the model is over unbounded `Nat`/`Int`; it is bit-exact with the
code inside these ranges): `height : uint64`, `round, polRound, total : uint32`,
`type : int32` (enum, sign-extended to 64 bits on the wire), `secs : int64`,
`nanos : int32 ∈ [0, 1e9)`, hashes: arbitrary byte strings at the `kproto` level (always 32 bytes
when the message comes from `types.Vote.ToProto` / `types.Proposal.ToProto`).
Core only.
-/
namespace KV.SignBytes
open KV KV.Wire KV.Rlp

/-! ## canonical vote / proposal -/

/-- `kproto.BlockID` as handed to `CanonicalizeBlockID` -/
structure BlockID where
  hash : Bytes
  total : Nat
  psHash : Bytes
deriving DecidableEq, Repr

/-- `common.BytesToHash(b).IsZero()`: `Hash.SetBytes` keeps the **last** 32 bytes (left-pads
shorter input with zeros), so only those decide -/
def hashIsZero (b : Bytes) : Bool := (b.drop (b.length - 32)).all (· == 0)

/-- `BlockID.IsZero` on the normalised value (`BlockIDFromProto`) -/
def BlockID.isZero (b : BlockID) : Bool :=
  hashIsZero b.hash && b.total == 0 && hashIsZero b.psHash

/-- `CanonicalizeBlockID`: nil for the zero block id, otherwise the **raw** proto bytes -/
def canonBlockID (b : BlockID) : Option BlockID := if b.isZero then none else some b

/-- `CanonicalPartSetHeader.Marshal` -/
def pshBody (total : Nat) (h : Bytes) : Bytes := fVarint 1 total ++ fBytes 2 h

/-- `CanonicalBlockID.Marshal` (the part-set header is non-nullable: always written) -/
def blockIDBody (b : BlockID) : Bytes := fBytes 1 b.hash ++ fMsg 2 (pshBody b.total b.psHash)

/-- what `StdTimeMarshalTo` sees of a `time.Time`: `t.Unix()`, `t.Nanosecond()` -/
structure Time where
  secs : Int
  nanos : Nat
deriving DecidableEq, Repr

def minValidSeconds : Int := -62135596800
def maxValidSeconds : Int := 253402300800

/-- gogo `validateTimestamp` -/
def Time.valid (t : Time) : Bool :=
  decide (minValidSeconds ≤ t.secs) && decide (t.secs < maxValidSeconds) &&
    decide (t.nanos < 1000000000)

/-- `Timestamp.Marshal` (seconds `int64`, nanos `int32`, both varints) -/
def tsBody (t : Time) : Bytes := fVarint 1 (u64OfInt t.secs) ++ fVarint 2 t.nanos

/-- arguments of `VoteSignBytes(chainID, *kproto.Vote)` that reach the canonical vote.
(`ValidatorAddress`, `ValidatorIndex` and `Signature` of the vote are *not* signed.) -/
structure Vote where
  chain : Bytes
  type : Int
  height : Nat
  round : Nat
  blockID : BlockID
  time : Time
deriving DecidableEq, Repr

/-- `CanonicalVote.Marshal` fed by `CreateCanonicalVote` -/
def voteBody (v : Vote) : Bytes :=
  fVarint 1 (u64OfInt v.type) ++ (fVarint 2 v.height ++ (fVarint 3 v.round ++
    (fMsgOpt 4 ((canonBlockID v.blockID).map blockIDBody) ++
      (fMsg 5 (tsBody v.time) ++ fBytes 6 v.chain))))

/-- `types.VoteSignBytes`; `none` = panic (marshal error) -/
def voteSignBytes (v : Vote) : Option Bytes :=
  if v.time.valid then some (lenDelim (voteBody v)) else none

structure Proposal where
  chain : Bytes
  height : Nat
  round : Nat
  polRound : Nat
  blockID : BlockID
  time : Time
deriving DecidableEq, Repr

/-- `kproto.ProposalType` -/
def proposalType : Nat := 32

/-- `CanonicalProposal.Marshal` fed by `CreateCanonicalProposal` (type is the constant 32) -/
def proposalBody (p : Proposal) : Bytes :=
  fVarint 1 proposalType ++ (fVarint 2 p.height ++ (fVarint 3 p.round ++ (fVarint 4 p.polRound ++
    (fMsgOpt 5 ((canonBlockID p.blockID).map blockIDBody) ++
      (fMsg 6 (tsBody p.time) ++ fBytes 7 p.chain)))))

/-- `types.ProposalSignBytes`; `none` = panic -/
def proposalSignBytes (p : Proposal) : Option Bytes :=
  if p.time.valid then some (lenDelim (proposalBody p)) else none

/-! ## transaction signing hash preimage -/

/-- the signed part of `txdata` (`to = none`: contract creation, nil `*common.Address`) -/
structure Tx where
  nonce : Nat
  price : Nat
  gas : Nat
  to : Option Bytes
  value : Nat
  data : Bytes
deriving DecidableEq, Repr

def toBytes : Option Bytes → Bytes
  | none => []
  | some a => a

/-- chain-id suffix of `ChainIDSigner.Hash`: `s.chainId, uint(0), uint(0)` -/
def chainSuffix : Option Nat → Items
  | none => .nil
  | some c => .cons (.str (beBytes c)) (.cons (.str []) (.cons (.str []) .nil))

/-- the `[]interface{}` handed to `rlpHash`; `chain = none` is `HomesteadSigner`/`FrontierSigner`
(and `sigHash`), `some c` is `ChainIDSigner{c}` -/
def txItem (chain : Option Nat) (t : Tx) : Item :=
  .list (.cons (.str (beBytes t.nonce)) (.cons (.str (beBytes t.price)) (.cons (.str (beBytes t.gas))
    (.cons (.str (toBytes t.to)) (.cons (.str (beBytes t.value)) (.cons (.str t.data)
      (chainSuffix chain)))))))

def txSigPreimage (chain : Option Nat) (t : Tx) : Bytes := enc (txItem chain t)

/-- what `types.SignTx(signer, tx, key)` hashes and signs: `sigHash(tx)`, the six-field list,
**whatever the signer** (finding F22: it should be `signer.Hash(tx)`, i.e.
`txSigPreimage signer t`) -/
def signTxPreimage (_signer : Option Nat) (t : Tx) : Bytes := txSigPreimage none t

/-! ## signature values -/

def secpN : Nat := 0xfffffffffffffffffffffffffffffffebaaedce6af48a03bbfd25e8cd0364141
def secpHalfN : Nat := secpN / 2

/-- `crypto.ValidateSignatureValues(v, r, s, homestead)` (`v` a byte) -/
def validateSignatureValues (v r s : Nat) (homestead : Bool) : Bool :=
  if r < 1 ∨ s < 1 then false
  else if homestead ∧ s > secpHalfN then false
  else decide (r < secpN) && decide (s < secpN) && (v == 0 || v == 1)

/-- `deriveChainId(v)` for `v ≥ 0` (the `uint64` branch wraps below 35) -/
def deriveChainId (v : Nat) : Nat :=
  if v < 18446744073709551616 then
    if v = 27 ∨ v = 28 then 0
    else ((v + 18446744073709551616 - 35) % 18446744073709551616) / 2
  else (v - 35) / 2

/-- `isProtectedV` -/
def isProtectedV (v : Nat) : Bool := if v < 256 then v != 27 && v != 28 else true

/-- `Signer.SignatureValues`: the `V` stored in the transaction for recovery id `recid`
(`sig[64]`, a byte; byte addition wraps). `signer = none`: Homestead/Frontier. -/
def signatureV (signer : Option Nat) (recid : Nat) : Nat :=
  match signer with
  | none => (recid + 27) % 256
  | some c => if c ≠ 0 then (recid + 35) % 256 + 2 * c else (recid + 27) % 256

/-- outcome of `Signer.Sender` up to the curve operation -/
inductive SenderResult where
  /-- `ErrInvalidChainId` -/
  | invalidChainId
  /-- `ErrInvalidSig` (range checks of `recoverPlain` / `ValidateSignatureValues`) -/
  | invalidSig
  /-- `Ecrecover(keccak(txSigPreimage hashChain tx), r ‖ s ‖ recid)` is evaluated -/
  | recover (hashChain : Option Nat) (recid : Nat)
deriving DecidableEq, Repr

/-- `recoverPlain(hash, R, S, Vb, homestead = true)` up to `Ecrecover`; `Vb` may be negative
(`big.Int.BitLen`/`Uint64` look at the absolute value) -/
def recoverPlainCheck (hashChain : Option Nat) (vb : Int) (r s : Nat) : SenderResult :=
  if vb.natAbs ≥ 256 then .invalidSig else
  let v := (((vb.natAbs : Int) - 27) % 256).toNat
  if validateSignatureValues v r s true then .recover hashChain v else .invalidSig

/-- `HomesteadSigner.Sender` (`signer = none`) / `ChainIDSigner{c}.Sender` (`some c`) on a
transaction with signature values `v r s` -/
def senderCheck (signer : Option Nat) (v r s : Nat) : SenderResult :=
  match signer with
  | none => recoverPlainCheck none v r s
  | some c =>
    if !isProtectedV v then recoverPlainCheck none v r s
    else if deriveChainId v ≠ c then .invalidChainId
    else recoverPlainCheck (some c) ((v : Int) - 2 * (c : Int) - 8) r s

end KV.SignBytes
